import Galaxy.Drv.All

def main (args : List String) : IO UInt32 := Galaxy.Drv.dispatch args
