-- root of the `Galaxy` library; the library target builds every `Galaxy.*` module (see lakefile globs)
import Galaxy.Model.Tbl
