/-
  Lemmas about M1 `Nets`, part 1: the regenerated integer code means what the
  model's statements say in terms of natural numbers; ranges, enumeration,
  membership, size; the walk.
-/
import Galaxy.Model.Nets

namespace Galaxy.Nets
open Galaxy.Generated.Nets

/-! ### Bridges: generated `BitVec` code ↔ natural-number meaning -/

theorem rangeSize_toNat (first last : IPv4) (h : first.toNat ≤ last.toNat) :
    (rangeSize first last).toNat = (last.toNat - first.toNat + 1) % 2 ^ 32 := by
  unfold rangeSize; bv_omega

theorem rangeContains_iff (first last ip : IPv4) :
    rangeContains first last ip = true ↔ first.toNat ≤ ip.toNat ∧ ip.toNat ≤ last.toNat := by
  simp [rangeContains, BitVec.le_def]

theorem sparseSizeStep_toNat (a b : BitVec 32) : (sparseSizeStep a b).toNat = (a.toNat + b.toNat) % 2 ^ 32 := by
  unfold sparseSizeStep; bv_omega

theorem sparseSizeInit_toNat : sparseSizeInit.toNat = 0 := by decide

theorem parseRangeReject_iff (first last : IPv4) : parseRangeReject first last = true ↔ last.toNat < first.toNat := by
  simp [parseRangeReject, BitVec.lt_def]

theorem fipAdjReject_iff (first prevLast : IPv4) :
    fipAdjReject first prevLast = true ↔ first.toNat ≤ prevLast.toNat + 1 := by
  unfold fipAdjReject
  rw [decide_eq_true_iff]
  constructor <;> intro h <;> bv_omega

theorem poolLess_iff (a b : IPv4) : poolLess a b = true ↔ a.toNat < b.toNat := by
  simp [poolLess, BitVec.lt_def]

theorem minus_toInt (a b : IPv4) : (minus a b).toInt = (a.toNat : Int) - (b.toNat : Int) := by
  unfold minus
  rw [BitVec.toInt_sub]
  have ha : (a.setWidth 64).toInt = a.toNat := by
    rw [BitVec.toInt_eq_toNat_of_lt] <;> simp <;> omega
  have hb : (b.setWidth 64).toInt = b.toNat := by
    rw [BitVec.toInt_eq_toNat_of_lt] <;> simp <;> omega
  rw [ha, hb]
  have := a.isLt
  have := b.isLt
  simp only [Int.bmod_def]
  omega

theorem walkInit_toNat (x : IPv4) : (walkInit x).toNat = x.toNat := by
  unfold walkInit; bv_omega

theorem walkCond_iff (i last : WalkCtr) : walkCond i last = true ↔ i.toNat ≤ last.toNat := by
  simp [walkCond, BitVec.le_def]

theorem walkStep_toNat (i : WalkCtr) (h : i.toNat < 2 ^ 32) : (walkStep i).toNat = i.toNat + 1 := by
  unfold walkStep; bv_omega

theorem walkIP_eq (i : WalkCtr) : walkIP i = BitVec.ofNat 32 i.toNat := by
  unfold walkIP
  apply BitVec.eq_of_toNat_eq
  simp

theorem mem_le_sum (l : List Nat) (x : Nat) (h : x ∈ l) : x ≤ l.sum := by
  induction l with
  | nil => cases h
  | cons y ys ih =>
    simp only [List.sum_cons]
    rcases List.mem_cons.mp h with rfl | h
    · omega
    · have := ih h; omega

/-! ### Ranges: membership, enumeration, cardinality -/

theorem ofNat_toNat_lt {n : Nat} (h : n < 2 ^ 32) : (BitVec.ofNat 32 n).toNat = n := by
  simp [BitVec.toNat_ofNat, Nat.mod_eq_of_lt h]

theorem Range.mem_enumerate (r : Range) (ip : IPv4) :
    ip ∈ r.enumerate ↔ r.first.toNat ≤ ip.toNat ∧ ip.toNat ≤ r.last.toNat := by
  unfold Range.enumerate
  rw [List.mem_map]
  have hl := r.last.isLt
  constructor
  · rintro ⟨n, hn, rfl⟩
    rw [List.mem_range'] at hn
    obtain ⟨i, hi, rfl⟩ := hn
    have : r.first.toNat + 1 * i < 2 ^ 32 := by omega
    rw [ofNat_toNat_lt this]
    omega
  · rintro ⟨h1, h2⟩
    refine ⟨ip.toNat, ?_, by simp⟩
    rw [List.mem_range']
    exact ⟨ip.toNat - r.first.toNat, by omega, by omega⟩

theorem Range.contains_iff (r : Range) (ip : IPv4) :
    r.contains ip = true ↔ r.first.toNat ≤ ip.toNat ∧ ip.toNat ≤ r.last.toNat :=
  rangeContains_iff _ _ _

theorem Range.contains_iff_mem (r : Range) (ip : IPv4) : r.contains ip = true ↔ ip ∈ r.enumerate := by
  rw [Range.contains_iff, Range.mem_enumerate]

theorem Range.length_enumerate (r : Range) : r.enumerate.length = r.card := by
  simp [Range.enumerate, Range.card]

theorem mem_enumerate (rs : List Range) (ip : IPv4) :
    ip ∈ enumerate rs ↔ ∃ r ∈ rs, r.first.toNat ≤ ip.toNat ∧ ip.toNat ≤ r.last.toNat := by
  induction rs with
  | nil => simp [enumerate]
  | cons r rs ih => simp [enumerate, ih, Range.mem_enumerate]

theorem rangesContain_iff_mem (rs : List Range) (ip : IPv4) : rangesContain rs ip = true ↔ ip ∈ enumerate rs := by
  rw [mem_enumerate]
  simp [rangesContain, Range.contains_iff]

theorem length_enumerate (rs : List Range) : (enumerate rs).length = (rs.map Range.card).sum := by
  induction rs with
  | nil => simp [enumerate]
  | cons r rs ih => simp [enumerate, ih, Range.length_enumerate]

/-- a single range is enumerated in strictly increasing order -/
theorem Range.enumerate_sorted (r : Range) : r.enumerate.Pairwise (fun a b => a.toNat < b.toNat) := by
  unfold Range.enumerate
  rw [List.pairwise_map]
  have hl := r.last.isLt
  have hp := List.pairwise_lt_range' (s := r.first.toNat) (n := r.last.toNat + 1 - r.first.toNat) 1
  have hm : ∀ x ∈ List.range' r.first.toNat (r.last.toNat + 1 - r.first.toNat), x < 2 ^ 32 := by
    intro x hx
    rw [List.mem_range'] at hx
    obtain ⟨i, hi, rfl⟩ := hx
    omega
  revert hm hp
  generalize List.range' r.first.toNat (r.last.toNat + 1 - r.first.toNat) = l
  intro hp hm
  induction hp with
  | nil => exact List.Pairwise.nil
  | cons hx _ ih =>
    refine List.Pairwise.cons ?_ (ih (fun x hx => hm x (List.mem_cons_of_mem _ hx)))
    intro b hb
    rw [ofNat_toNat_lt (hm _ List.mem_cons_self), ofNat_toNat_lt (hm b (List.mem_cons_of_mem _ hb))]
    exact hx b hb

/-- Sorted, pairwise separated ranges: every later range starts more than one address after an earlier one ends
    (as natural numbers: disjoint, increasing, not mergeable). -/
def Separated (rs : List Range) : Prop := rs.Pairwise (fun a b => a.last.toNat + 1 < b.first.toNat)

theorem enumerate_sorted (rs : List Range) (hsep : Separated rs) :
    (enumerate rs).Pairwise (fun a b => a.toNat < b.toNat) := by
  induction rs with
  | nil => exact List.Pairwise.nil
  | cons r rs ih =>
    unfold Separated at hsep
    rw [List.pairwise_cons] at hsep
    simp only [enumerate]
    rw [List.pairwise_append]
    refine ⟨r.enumerate_sorted, ih hsep.2, ?_⟩
    intro a ha b hb
    rw [Range.mem_enumerate] at ha
    rw [mem_enumerate] at hb
    obtain ⟨r', hr', h1, _⟩ := hb
    have := hsep.1 r' hr'
    omega

theorem enumerate_nodup (rs : List Range) (hsep : Separated rs) : (enumerate rs).Nodup := by
  have h := enumerate_sorted rs hsep
  unfold List.Nodup
  refine List.Pairwise.imp ?_ h
  intro a b hab heq
  subst heq
  omega

/-! ### Size: the uint32 accumulation equals the cardinality modulo 2^32 -/

theorem Range.size_toNat (r : Range) (h : r.first.toNat ≤ r.last.toNat) : r.size.toNat = r.card % 2 ^ 32 := by
  unfold Range.size Range.card
  rw [rangeSize_toNat _ _ h]
  congr 1
  omega

theorem foldl_size_toNat (rs : List Range) (acc : BitVec 32) (h : ∀ r ∈ rs, r.first.toNat ≤ r.last.toNat) :
    (rs.foldl (fun size r => sparseSizeStep size r.size) acc).toNat = (acc.toNat + (rs.map Range.card).sum) % 2 ^ 32 := by
  induction rs generalizing acc with
  | nil => simp [Nat.mod_eq_of_lt acc.isLt]
  | cons r rs ih =>
    simp only [List.foldl_cons, List.map_cons, List.sum_cons]
    rw [ih _ (fun r' hr' => h r' (List.mem_cons_of_mem _ hr')), sparseSizeStep_toNat,
      Range.size_toNat r (h r List.mem_cons_self)]
    omega

theorem sparseSize_toNat (rs : List Range) (h : ∀ r ∈ rs, r.first.toNat ≤ r.last.toNat) :
    (sparseSize rs).toNat = (enumerate rs).length % 2 ^ 32 := by
  unfold sparseSize
  rw [foldl_size_toNat rs _ h, sparseSizeInit_toNat, length_enumerate]
  simp

/-- separated, well-ordered ranges inside a window `[lo, hi]` have at most `hi + 1 - lo` addresses -/
theorem card_sum_le (rs : List Range) (lo hi : Nat) (hsep : Separated rs)
    (hwf : ∀ r ∈ rs, r.first.toNat ≤ r.last.toNat) (hin : ∀ r ∈ rs, lo ≤ r.first.toNat ∧ r.last.toNat ≤ hi) :
    (rs.map Range.card).sum ≤ hi + 1 - lo := by
  induction rs generalizing lo with
  | nil => simp
  | cons r rs ih =>
    unfold Separated at hsep
    rw [List.pairwise_cons] at hsep
    have h1 := hwf r List.mem_cons_self
    have h2 := hin r List.mem_cons_self
    have := ih (r.last.toNat + 1) hsep.2 (fun r' hr' => hwf r' (List.mem_cons_of_mem _ hr'))
      (fun r' hr' => ⟨by have := hsep.1 r' hr'; omega, (hin r' (List.mem_cons_of_mem _ hr')).2⟩)
    simp only [List.map_cons, List.sum_cons, Range.card]
    omega

/-! ### The walk -/

theorem visited_append (stop : IPv4 → Bool) (a b : List IPv4) :
    visited stop (a ++ b) = if a.any stop then visited stop a else a ++ visited stop b := by
  induction a with
  | nil => simp
  | cons x xs ih =>
    by_cases hx : stop x = true
    · simp [visited, hx]
    · simp only [Bool.not_eq_true] at hx
      simp [visited, hx, ih]
      split <;> simp

theorem visited_of_not_any (stop : IPv4 → Bool) (a : List IPv4) (h : a.any stop = false) : visited stop a = a := by
  induction a with
  | nil => rfl
  | cons x xs ih =>
    simp only [List.any_cons, Bool.or_eq_false_iff] at h
    simp [visited, h.1, ih h.2]

/-- the inner loop, started at `i` with `n = last + 1 - i` addresses to go, hands exactly those addresses to the
    callback (until it stops) and terminates within `n + 1` iterations -/
theorem loop_spec (stop : IPv4 → Bool) (n : Nat) :
    ∀ (fuel : Nat) (i last : WalkCtr), last.toNat < 2 ^ 32 → last.toNat + 1 - i.toNat = n → n < fuel →
      loopFuel walkCond walkStep walkIP stop fuel i last =
        some (visited stop ((List.range' i.toNat n).map (BitVec.ofNat 32)),
              ((List.range' i.toNat n).map (BitVec.ofNat 32)).any stop) := by
  induction n with
  | zero =>
    intro fuel i last hl hn hf
    obtain ⟨fuel, rfl⟩ : ∃ f, fuel = f + 1 := ⟨fuel - 1, by omega⟩
    have hc : walkCond i last = false := by
      rw [Bool.eq_false_iff]; intro h; rw [walkCond_iff] at h; omega
    simp [loopFuel, hc, visited]
  | succ n ih =>
    intro fuel i last hl hn hf
    obtain ⟨fuel, rfl⟩ : ∃ f, fuel = f + 1 := ⟨fuel - 1, by omega⟩
    have hc : walkCond i last = true := by rw [walkCond_iff]; omega
    have hi : i.toNat < 2 ^ 32 := by omega
    have hs := walkStep_toNat i hi
    simp only [loopFuel, hc, if_true, List.range'_succ, List.map_cons, visited, List.any_cons, walkIP_eq]
    generalize BitVec.ofNat 32 i.toNat = x
    by_cases hx : stop x = true
    · simp [hx]
    · simp only [Bool.not_eq_true] at hx
      rw [ih fuel (walkStep i) last hl (by omega) (by omega), hs]
      simp [hx]

theorem walkWith_spec (stop : IPv4 → Bool) (inner : Range → Option (List IPv4 × Bool)) (rs : List Range)
    (h : ∀ r ∈ rs, inner r = some (visited stop r.enumerate, r.enumerate.any stop)) :
    walkWith inner rs = some (visited stop (enumerate rs)) := by
  induction rs with
  | nil => simp [walkWith, enumerate, visited]
  | cons r rs ih =>
    have h1 := h r List.mem_cons_self
    have h2 := ih (fun r' hr' => h r' (List.mem_cons_of_mem _ hr'))
    simp only [walkWith, enumerate, h1, visited_append]
    cases hany : r.enumerate.any stop
    · simp [h2, visited_of_not_any stop _ hany]
    · simp

theorem walkFuel_spec (stop : IPv4 → Bool) (rs : List Range) (fuel : Nat) (hf : walkBound rs ≤ fuel) :
    walkFuel fuel stop rs = some (visited stop (enumerate rs)) := by
  unfold walkFuel
  apply walkWith_spec
  intro r hr
  have hcard : r.card < fuel := by
    have : r.card ≤ (rs.map Range.card).sum := mem_le_sum _ _ (List.mem_map_of_mem hr)
    unfold walkBound at hf
    omega
  have := loop_spec stop r.card fuel (walkInit r.first) (walkInit r.last)
    (by rw [walkInit_toNat]; exact r.last.isLt) (by simp [walkInit_toNat, Range.card]) hcard
  rw [this, walkInit_toNat]
  rfl

/-- the pre-fix loop never leaves the range ending at 255.255.255.255 -/
theorem loop32_diverges (fuel : Nat) (i : BitVec 32) :
    loopFuel (w := 32) (fun i l => decide (i ≤ l)) (fun i => i + 1#32) (fun i => i) (fun _ => false) fuel i
      0xFFFFFFFF#32 = none := by
  induction fuel generalizing i with
  | zero => rfl
  | succ fuel ih =>
    have : i ≤ 0xFFFFFFFF#32 := by bv_omega
    simp [loopFuel, this, ih]

end Galaxy.Nets
