/-
  Request-level lemmas of the CNI multiplexer model: CmdAdd (success, failure + rollback), frame and
  congruence properties of `step`, request sequences.
-/
import Galaxy.Lemmas.CniRun

namespace Galaxy.Cni

/-! ### unfolding CmdAdd -/

theorem cmdAddSel_nil (st : Static) (s : State) (cid a : Str) (o : Nat → Bool) :
    cmdAddSel st s cid a [] o = ⟨s, [], false⟩ := by
  simp [cmdAddSel]

theorem cmdAddSel_none (st : Static) (s : State) (cid a : Str) (sel : List NetInfo) (o : Nat → Bool)
    (hne : sel ≠ []) (h : (addLoop st cid o (snapshot st s.shared sel) 0 a none s.shared).failedAt = none) :
    cmdAddSel st s cid a sel o =
      ⟨⟨s.files.set cid (snapshot st s.shared sel), (addLoop st cid o (snapshot st s.shared sel) 0 a none s.shared).shared⟩,
       (addLoop st cid o (snapshot st s.shared sel) 0 a none s.shared).invs, true⟩ := by
  have he : sel.isEmpty = false := by cases sel <;> simp_all
  unfold cmdAddSel
  simp only [he, h]
  simp

theorem cmdAddSel_some (st : Static) (s : State) (cid a : Str) (sel : List NetInfo) (o : Nat → Bool) (i : Nat)
    (hne : sel ≠ []) (h : (addLoop st cid o (snapshot st s.shared sel) 0 a none s.shared).failedAt = some i) :
    cmdAddSel st s cid a sel o =
      ⟨(cmdDel ⟨s.files.set cid (snapshot st s.shared sel), (addLoop st cid o (snapshot st s.shared sel) 0 a none s.shared).shared⟩
          cid (addLoop st cid o (snapshot st s.shared sel) 0 a none s.shared).args (some i) o (i + 1)).state,
       (addLoop st cid o (snapshot st s.shared sel) 0 a none s.shared).invs ++
         (cmdDel ⟨s.files.set cid (snapshot st s.shared sel), (addLoop st cid o (snapshot st s.shared sel) 0 a none s.shared).shared⟩
          cid (addLoop st cid o (snapshot st s.shared sel) 0 a none s.shared).args (some i) o (i + 1)).invs,
       false⟩ := by
  have he : sel.isEmpty = false := by cases sel <;> simp_all
  unfold cmdAddSel
  simp only [he, h]
  simp

/-! ### CmdAdd, every delegate succeeds -/

theorem cmdAddSel_ok (st : Static) (s : State) (cid a : Str) (sel : List NetInfo) (o : Nat → Bool)
    (hne : sel ≠ []) (h : ∀ j, j < sel.length → o j = true) :
    (cmdAddSel st s cid a sel o).ok = true ∧
    (cmdAddSel st s cid a sel o).invs.map Inv.tgt = sel.map (addTgt cid) ∧
    (cmdAddSel st s cid a sel o).state.files.get cid = some (snapshot st s.shared sel) ∧
    (cmdAddSel st s cid a sel o).invs.map Inv.prev = prevChain cid none (snapshot st s.shared sel) := by
  have h' : ∀ j, j < (snapshot st s.shared sel).length → o (0 + j) = true := by
    intro j hj; rw [snapshot_length] at hj; simpa using h j hj
  have hl := addLoop_ok st cid o (snapshot st s.shared sel) 0 a none s.shared h'
  have hp := addLoop_prev_ok st cid o (snapshot st s.shared sel) 0 a none s.shared h'
  rw [cmdAddSel_none st s cid a sel o hne hl.1]
  refine ⟨rfl, ?_, ?_, hp⟩
  · rw [hl.2, (snapshot_tgt st s.shared cid sel).1]
  · simp

/-! ### CmdAdd, delegate `m` fails -/

theorem cmdAddSel_fail (st : Static) (s : State) (cid a : Str) (sel : List NetInfo) (o : Nat → Bool) (m : Nat)
    (hm : m < sel.length) (hok : ∀ j, j < m → o j = true) (hf : o m = false) :
    (cmdAddSel st s cid a sel o).ok = false ∧
    (cmdAddSel st s cid a sel o).invs.map Inv.tgt =
      (sel.take (m + 1)).map (addTgt cid) ++ (sel.take (m + 1)).reverse.map (delTgt cid) ∧
    (cmdAddSel st s cid a sel o).state.files.get cid =
      (if (pick (fun p => !o (m + 1 + (m - p))) 0 (snapshot st s.shared (sel.take (m + 1)))).isEmpty then none
       else some (pick (fun p => !o (m + 1 + (m - p))) 0 (snapshot st s.shared (sel.take (m + 1))))) := by
  have hne : sel ≠ [] := by intro h0; subst h0; simp at hm
  have hm' : m < (snapshot st s.shared sel).length := by rw [snapshot_length]; exact hm
  have hl := addLoop_fail st cid o (snapshot st s.shared sel) 0 a none s.shared m hm'
    (fun j hj => by simpa using hok j hj) (by simpa using hf)
  simp only [Nat.zero_add] at hl
  have hget : (⟨s.files.set cid (snapshot st s.shared sel),
      (addLoop st cid o (snapshot st s.shared sel) 0 a none s.shared).shared⟩ : State).files.get cid
      = some (snapshot st s.shared sel) := by simp
  have hlen : (upto (snapshot st s.shared sel) (some m)).length = m + 1 := by
    simp [upto, snapshot_length]; omega
  have hup : upto (snapshot st s.shared sel) (some m) = snapshot st s.shared (sel.take (m + 1)) := by
    simp [upto, snapshot_take]
  rw [cmdAddSel_some st s cid a sel o m hne hl.1]
  refine ⟨rfl, ?_, ?_⟩
  · simp only [List.map_append]
    rw [cmdDel_tgt _ _ _ _ _ _ _ hget, hl.2, hup, snapshot_take]
    rw [(snapshot_tgt st s.shared cid _).1, List.map_reverse, (snapshot_tgt st s.shared cid _).2, List.map_reverse]
  · simp only
    rw [cmdDel_files_self _ _ _ _ _ _ _ hget, hlen, hup]
    simp

theorem cmdAddSel_frame (st : Static) (s : State) (cid a : Str) (sel : List NetInfo) (o : Nat → Bool) (c : Str)
    (hc : cid ≠ c) : (cmdAddSel st s cid a sel o).state.files.get c = s.files.get c := by
  by_cases hne : sel = []
  · subst hne; rw [cmdAddSel_nil]
  · cases hfa : (addLoop st cid o (snapshot st s.shared sel) 0 a none s.shared).failedAt with
    | none => rw [cmdAddSel_none st s cid a sel o hne hfa]; simp [hc]
    | some i =>
      rw [cmdAddSel_some st s cid a sel o i hne hfa]
      simp only
      rw [cmdDel_frame _ _ _ _ _ _ _ hc]
      simp [hc]

theorem cmdAddSel_shared_copy (st : Static) (hcopy : st.copy = true) (s : State) (cid a : Str) (sel : List NetInfo)
    (o : Nat → Bool) : (cmdAddSel st s cid a sel o).state.shared = s.shared := by
  by_cases hne : sel = []
  · subst hne; rw [cmdAddSel_nil]
  · cases hfa : (addLoop st cid o (snapshot st s.shared sel) 0 a none s.shared).failedAt with
    | none => rw [cmdAddSel_none st s cid a sel o hne hfa]; simp [addLoop_shared_copy st hcopy]
    | some i =>
      rw [cmdAddSel_some st s cid a sel o i hne hfa]
      simp only
      rw [cmdDel_shared]
      simp [addLoop_shared_copy st hcopy]

/-- with copied confs `CmdAdd` reads nothing of the state but (through the rollback) the container's own entry,
    which it has just written: two states give the same invocations, result and resulting entry of the container -/
theorem cmdAddSel_congr (st : Static) (hcopy : st.copy = true) (s₁ s₂ : State) (cid a : Str) (sel : List NetInfo)
    (o : Nat → Bool) (h : s₁.files.get cid = s₂.files.get cid) :
    (cmdAddSel st s₁ cid a sel o).invs = (cmdAddSel st s₂ cid a sel o).invs ∧
    (cmdAddSel st s₁ cid a sel o).ok = (cmdAddSel st s₂ cid a sel o).ok ∧
    (cmdAddSel st s₁ cid a sel o).state.files.get cid = (cmdAddSel st s₂ cid a sel o).state.files.get cid := by
  by_cases hne : sel = []
  · subst hne; simp [cmdAddSel_nil, h]
  · have hs := snapshot_indep st hcopy s₁.shared s₂.shared sel
    obtain ⟨h1, h2, h3⟩ := addLoop_indep st cid o (snapshot st s₂.shared sel) 0 a none s₁.shared s₂.shared
    cases hfa : (addLoop st cid o (snapshot st s₂.shared sel) 0 a none s₂.shared).failedAt with
    | none =>
      have hfa1 : (addLoop st cid o (snapshot st s₁.shared sel) 0 a none s₁.shared).failedAt = none := by
        rw [hs, h2, hfa]
      rw [cmdAddSel_none st s₁ cid a sel o hne hfa1, cmdAddSel_none st s₂ cid a sel o hne hfa]
      simp [hs, h1]
    | some i =>
      have hfa1 : (addLoop st cid o (snapshot st s₁.shared sel) 0 a none s₁.shared).failedAt = some i := by
        rw [hs, h2, hfa]
      rw [cmdAddSel_some st s₁ cid a sel o i hne hfa1, cmdAddSel_some st s₂ cid a sel o i hne hfa]
      simp only [hs, h1, h3]
      have := cmdDel_congr
        ⟨s₁.files.set cid (snapshot st s₂.shared sel), (addLoop st cid o (snapshot st s₂.shared sel) 0 a none s₁.shared).shared⟩
        ⟨s₂.files.set cid (snapshot st s₂.shared sel), (addLoop st cid o (snapshot st s₂.shared sel) 0 a none s₂.shared).shared⟩
        cid (addLoop st cid o (snapshot st s₂.shared sel) 0 a none s₂.shared).args (some i) o (i + 1) (by simp)
      simp [this.1, this.2.2]

/-- an invariant of the argument string carried through a whole `CmdAdd` including its rollback -/
theorem cmdAddSel_args (st : Static) (s : State) (cid a : Str) (sel : List NetInfo) (o : Nat → Bool)
    (I P : Str → Prop) (hI : ∀ a, P a → I a) (h0 : I a)
    (hadd : ∀ a n, n ∈ sel → I a → P (accumAdd a n.args))
    (hdel : ∀ a n, n ∈ sel → I a → P (accumDel a n.args)) :
    ArgsInv P (cmdAddSel st s cid a sel o).invs := by
  by_cases hne : sel = []
  · subst hne; rw [cmdAddSel_nil]; intro i hi; simp at hi
  · have hmem : ∀ n, n ∈ snapshot st s.shared sel → ∃ n' ∈ sel, n'.args = n.args := by
      intro n hn
      simp only [snapshot, List.mem_map] at hn
      obtain ⟨n', h1, h2⟩ := hn
      exact ⟨n', h1, by rw [← h2]⟩
    have hl := addLoop_args st cid o I P hI (snapshot st s.shared sel) 0 a none s.shared h0
      (fun a' n hn hi => by
        obtain ⟨n', h1, h2⟩ := hmem n hn
        rw [← h2]; exact hadd a' n' h1 hi)
    cases hfa : (addLoop st cid o (snapshot st s.shared sel) 0 a none s.shared).failedAt with
    | none => rw [cmdAddSel_none st s cid a sel o hne hfa]; exact hl.1
    | some i =>
      rw [cmdAddSel_some st s cid a sel o i hne hfa]
      intro x hx
      simp only [List.mem_append] at hx
      rcases hx with hx | hx
      · exact hl.1 x hx
      · have hget : (⟨s.files.set cid (snapshot st s.shared sel),
            (addLoop st cid o (snapshot st s.shared sel) 0 a none s.shared).shared⟩ : State).files.get cid
            = some (snapshot st s.shared sel) := by simp
        exact cmdDel_args I P hI _ cid _ (some i) o (i + 1) _ hget hl.2
          (fun a' n hn hi => by
            obtain ⟨n', h1, h2⟩ := hmem n hn
            rw [← h2]; exact hdel a' n' h1 hi) x hx

/-! ### requests -/

theorem step_frame (st : Static) (s : State) (r : Req) (o : Nat → Bool) (c : Str) (hc : r.cid ≠ c) :
    (step st s r o).state.files.get c = s.files.get c := by
  unfold step
  split
  · split
    · rfl
    · unfold cmdAdd
      split
      · rfl
      · exact cmdAddSel_frame _ _ _ _ _ _ _ hc
  · exact cmdDel_frame _ _ _ _ _ _ _ hc

theorem step_shared_copy (st : Static) (hcopy : st.copy = true) (s : State) (r : Req) (o : Nat → Bool) :
    (step st s r o).state.shared = s.shared := by
  unfold step
  split
  · split
    · rfl
    · unfold cmdAdd
      split
      · rfl
      · exact cmdAddSel_shared_copy _ hcopy _ _ _ _ _
  · exact cmdDel_shared _ _ _ _ _ _

theorem step_congr (st : Static) (hcopy : st.copy = true) (s₁ s₂ : State) (r : Req) (o : Nat → Bool)
    (h : s₁.files.get r.cid = s₂.files.get r.cid) :
    (step st s₁ r o).invs = (step st s₂ r o).invs ∧
    (step st s₁ r o).ok = (step st s₂ r o).ok ∧
    (step st s₁ r o).state.files.get r.cid = (step st s₂ r o).state.files.get r.cid := by
  unfold step
  split
  · split
    · simp [h]
    · unfold cmdAdd
      split
      · simp [h]
      · exact cmdAddSel_congr st hcopy _ _ _ _ _ _ h
  · exact cmdDel_congr _ _ _ _ _ _ _ h

/-- the requests for container `c` see the same thing whether or not the other containers' requests are there -/
theorem traceFor_filter (st : Static) (hcopy : st.copy = true) (c : Str) (rs : List (Req × (Nat → Bool)))
    (s₁ s₂ : State) (h : s₁.files.get c = s₂.files.get c) :
    traceFor st c s₁ rs = trace st s₂ (rs.filter (fun x => x.1.cid = c)) := by
  induction rs generalizing s₁ s₂ with
  | nil => simp [traceFor, trace]
  | cons x t ih =>
    obtain ⟨r, o⟩ := x
    by_cases hc : r.cid = c
    · subst hc
      obtain ⟨h1, _, h3⟩ := step_congr st hcopy s₁ s₂ r o h
      simp [traceFor, trace, h1, ih _ _ h3]
    · have hf : (step st s₁ r o).state.files.get c = s₂.files.get c := by
        rw [step_frame st s₁ r o c hc, h]
      simp [traceFor, hc, ih _ _ hf]

/-! ### prevResult never comes from another container (copied confs) -/

theorem pick_mem {α : Type} (f : Nat → Bool) (i : Nat) (l : List α) (x : α) (h : x ∈ pick f i l) : x ∈ l := by
  induction l generalizing i with
  | nil => simp [pick] at h
  | cons a t ih =>
    by_cases hf : f i
    · simp only [pick, hf, if_true, List.mem_cons] at h
      rcases h with h | h
      · simp [h]
      · exact List.mem_cons_of_mem _ (ih _ h)
    · simp only [pick, hf] at h
      exact List.mem_cons_of_mem _ (ih _ h)

/-- every saved conf is free of a prevResult (what `saveNetworkInfo` writes when confs are copied) -/
def CleanFiles (s : State) : Prop := ∀ c L, s.files.get c = some L → ∀ n ∈ L, n.prev = none

theorem cleanFiles_init : CleanFiles State.init := by
  intro c L h; simp [State.init] at h

/-- all prevResults in the list of invocations were produced for container `cid` -/
def OwnPrev (cid : Str) (invs : List Inv) : Prop := ∀ i ∈ invs, ∀ r, i.prev = some r → r.cid = cid

theorem delLoop_ownPrev (cid : Str) (o : Nat → Bool) (R : List NetInfo) (k : Nat) (a : Str)
    (h : ∀ n ∈ R, n.prev = none) : OwnPrev cid (delLoop cid o R k a).invs := by
  intro i hi r hr
  have hm : i.prev ∈ (delLoop cid o R k a).invs.map Inv.prev := List.mem_map_of_mem hi
  rw [delLoop_prev] at hm
  obtain ⟨n, hn, hp⟩ := List.mem_map.mp hm
  rw [h n hn] at hp
  rw [hr] at hp
  cases hp

theorem cmdDel_ownPrev (s : State) (cid a : Str) (hs : ∀ L, s.files.get cid = some L → ∀ n ∈ L, n.prev = none)
    (last : Option Nat) (o : Nat → Bool) (k : Nat) :
    OwnPrev cid (cmdDel s cid a last o k).invs := by
  cases hg : s.files.get cid with
  | none => rw [cmdDel_none _ _ _ _ _ _ hg]; intro i hi; simp at hi
  | some L =>
    rw [cmdDel_some _ _ _ _ _ _ _ hg, delWalk_invs]
    apply delLoop_ownPrev
    intro n hn
    have hn' : n ∈ upto L last := by simpa using hn
    have : n ∈ L := by
      cases last with
      | none => simpa [upto] using hn'
      | some i => exact List.mem_of_mem_take (by simpa [upto] using hn')
    exact hs L hg n this

theorem addLoop_ownPrev (st : Static) (cid : Str) (o : Nat → Bool) (L : List NetInfo) (k : Nat) (a : Str)
    (res : Option Src) (sh : Tbl Str Src) (hL : ∀ n ∈ L, n.prev = none) (hres : ∀ r, res = some r → r.cid = cid) :
    OwnPrev cid (addLoop st cid o L k a res sh).invs := by
  induction L generalizing k a res sh with
  | nil => intro i hi; simp [addLoop] at hi
  | cons n t ih =>
    have hn : n.prev = none := hL n (by simp)
    have hhead : ∀ r, seenPrev n res = some r → r.cid = cid := by
      intro r hr
      cases res with
      | none => simp [seenPrev, hn] at hr
      | some r' => simp [seenPrev] at hr; subst hr; exact hres _ rfl
    by_cases hk : o k
    · have := ih (k + 1) (accumAdd a n.args) (some (resultOf cid n)) (writePrev st sh n.name res)
        (fun x hx => hL x (by simp [hx])) (fun r hr => by cases hr; rfl)
      intro i hi r hr
      simp only [addLoop, hk, if_true, List.mem_cons] at hi
      rcases hi with h | h
      · subst h; exact hhead r (by simpa [addInv] using hr)
      · exact this i h r hr
    · intro i hi r hr
      simp only [addLoop, hk] at hi
      simp at hi
      subst hi; exact hhead r (by simpa [addInv] using hr)

theorem cmdAddSel_ownPrev (st : Static) (hcopy : st.copy = true) (s : State) (cid a : Str) (sel : List NetInfo)
    (o : Nat → Bool) (hsel : ∀ n ∈ sel, n.prev = none) : OwnPrev cid (cmdAddSel st s cid a sel o).invs := by
  by_cases hne : sel = []
  · subst hne; rw [cmdAddSel_nil]; intro i hi; simp at hi
  · have hsnap := snapshot_copy st hcopy s.shared sel hsel
    have hl := addLoop_ownPrev st cid o sel 0 a none s.shared hsel (fun r hr => by cases hr)
    cases hfa : (addLoop st cid o (snapshot st s.shared sel) 0 a none s.shared).failedAt with
    | none => rw [cmdAddSel_none st s cid a sel o hne hfa, hsnap]; exact hl
    | some i =>
      rw [cmdAddSel_some st s cid a sel o i hne hfa, hsnap]
      intro x hx
      simp only [List.mem_append] at hx
      rcases hx with hx | hx
      · exact hl x hx
      · refine cmdDel_ownPrev _ cid _ ?_ (some i) o (i + 1) x hx
        intro L hg n hn
        simp at hg; subst hg
        exact hsel n hn

/-- `CleanFiles` is an invariant of every request when confs are copied -/
theorem cmdDel_clean (s : State) (hs : CleanFiles s) (cid a : Str) (last : Option Nat) (o : Nat → Bool) (k : Nat) :
    CleanFiles (cmdDel s cid a last o k).state := by
  intro c L hg n hn
  by_cases hc : cid = c
  · subst hc
    cases hg0 : s.files.get cid with
    | none => rw [cmdDel_none _ _ _ _ _ _ hg0] at hg; simp [hg0] at hg
    | some L0 =>
      rw [cmdDel_files_self _ _ _ _ _ _ _ hg0] at hg
      split at hg
      · cases hg
      · simp at hg; subst hg
        have h1 := pick_mem _ _ _ _ hn
        have : n ∈ L0 := by
          cases last with
          | none => simpa [upto] using h1
          | some i => exact List.mem_of_mem_take (by simpa [upto] using h1)
        exact hs cid L0 hg0 n this
  · rw [cmdDel_frame _ _ _ _ _ _ _ hc] at hg
    exact hs c L hg n hn

theorem cmdAddSel_clean (st : Static) (hcopy : st.copy = true) (s : State) (hs : CleanFiles s) (cid a : Str)
    (sel : List NetInfo) (o : Nat → Bool) (hsel : ∀ n ∈ sel, n.prev = none) :
    CleanFiles (cmdAddSel st s cid a sel o).state := by
  by_cases hne : sel = []
  · subst hne; rw [cmdAddSel_nil]; exact hs
  · have hsnap := snapshot_copy st hcopy s.shared sel hsel
    have hs1 : ∀ sh, CleanFiles ⟨s.files.set cid sel, sh⟩ := by
      intro sh c L hg n hn
      by_cases hc : cid = c
      · subst hc; simp at hg; subst hg; exact hsel n hn
      · simp only [Tbl.get_set_ne _ _ hc] at hg
        exact hs c L hg n hn
    cases hfa : (addLoop st cid o (snapshot st s.shared sel) 0 a none s.shared).failedAt with
    | none => rw [cmdAddSel_none st s cid a sel o hne hfa, hsnap]; exact hs1 _
    | some i => rw [cmdAddSel_some st s cid a sel o i hne hfa, hsnap]; exact cmdDel_clean _ (hs1 _) _ _ _ _ _

theorem step_clean (st : Static) (hcopy : st.copy = true) (s : State) (hs : CleanFiles s) (r : Req) (o : Nat → Bool) :
    CleanFiles (step st s r o).state := by
  unfold step
  split
  · split
    · exact hs
    · unfold cmdAdd
      split
      · exact hs
      · rename_i sel hsel
        exact cmdAddSel_clean st hcopy s hs _ _ sel o (select_prev _ _ _ _ hsel)
  · exact cmdDel_clean s hs _ _ _ _ _

theorem run_clean (st : Static) (hcopy : st.copy = true) (rs : List (Req × (Nat → Bool))) (s : State)
    (hs : CleanFiles s) : CleanFiles (run st s rs) := by
  induction rs generalizing s with
  | nil => exact hs
  | cons x t ih => exact ih _ (step_clean st hcopy s hs x.1 x.2)

theorem step_ownPrev (st : Static) (hcopy : st.copy = true) (s : State) (hs : CleanFiles s) (r : Req) (o : Nat → Bool) :
    OwnPrev r.cid (step st s r o).invs := by
  unfold step
  split
  · split
    · intro i hi; simp at hi
    · unfold cmdAdd
      split
      · intro i hi; simp at hi
      · rename_i sel hsel
        exact cmdAddSel_ownPrev st hcopy s _ _ sel o (select_prev _ _ _ _ hsel)
  · exact cmdDel_ownPrev s _ _ (fun L hg => hs _ L hg) _ _ _

end Galaxy.Cni
