/-
  C06 lemmas, part 13: `CacheOK` (the node-subnet cache holds nothing but nodeSubnet(node) under the configuration in
  force) is an invariant of the histories of API truth changes, lister syncs, Filter, Bind and configuration reloads -
  a reload that changes the configuration empties the cache (fact `reloadClearsNodeSubnetCache`).
-/
import Galaxy.Lemmas.C06Sorted

namespace Galaxy.Plugin.C06
open Galaxy Galaxy.Plugin

/-- what `CacheOK` reads: the cache, the nodes' addresses, the configuration in force -/
def net (s : State) : Tbl String Subnet × Tbl String Nat × List Pool := (s.nodeCache, s.nodes, s.pools)

theorem cacheOK_of_net {s s' : State} (h : net s' = net s) (hc : CacheOK s) : CacheOK s' := by
  unfold net at h
  simp only [Prod.mk.injEq] at h
  intro n sn hn
  rw [h.1] at hn
  have := hc n sn hn
  unfold nodeSubnetOfNode at this ⊢
  rw [h.2.1, h.2.2]; exact this

@[simp] theorem net_api (s : State) : net s.api.1 = net s := rfl
@[simp] theorem net_memAlloc (s : State) (ip : IP) (r : Rec) : net (memAlloc s ip r) = net s := rfl

@[simp] theorem net_stCreate (s : State) (ip : IP) (r : Rec) : net (stCreate s ip r).1 = net s := by
  unfold stCreate; dsimp only; split <;> (try split) <;> rfl

@[simp] theorem net_stUpdate (s : State) (ip : IP) (r : Rec) : net (stUpdate s ip r).1 = net s := by
  unfold stUpdate; dsimp only; split <;> (try split) <;> (try split) <;> rfl

@[simp] theorem net_stDelete (s : State) (ip : IP) : net (stDelete s ip).1 = net s := by
  unfold stDelete; dsimp only; split <;> (try split) <;> rfl

@[simp] theorem net_deleteAll : ∀ (l : List IP) (s : State), net (deleteAll s l) = net s := by
  intro l
  induction l with
  | nil => intro s; rfl
  | cons ip t ih => intro s; unfold deleteAll; rw [ih]; simp

@[simp] theorem net_createAll (r : Rec) : ∀ (todo done : List IP) (s : State), net (createAll s r done todo).1 = net s := by
  intro todo
  induction todo with
  | nil => intro done s; rfl
  | cons ip t ih =>
    intro done s
    unfold createAll
    dsimp only
    split
    · simp
    · rw [ih]; simp

@[simp] theorem net_memAllocAll (r : Rec) : ∀ (l : List IP) (s : State), net (memAllocAll s r l) = net s := by
  intro l
  induction l with
  | nil => intro s; rfl
  | cons ip t ih => intro s; unfold memAllocAll; rw [ih]; rfl

@[simp] theorem net_allocateInSubnet (s : State) (k : Key) (n : Subnet) (a : Attr) (pick : Option IP) :
    net (allocateInSubnet s k n a pick).1 = net s := by
  unfold allocateInSubnet
  dsimp only
  split
  · rfl
  · split
    · rfl
    · split
      · rfl
      · split
        · simp
        · show net (memAlloc _ _ _) = _
          simp

@[simp] theorem net_allocateInSubnetWithKey (s : State) (o k : Key) (n : Subnet) (a : Attr) (pick : Option IP) :
    net (allocateInSubnetWithKey s o k n a pick).1 = net s := by
  unfold allocateInSubnetWithKey
  dsimp only
  split
  · rfl
  · split
    · rfl
    · split
      · rfl
      · split
        · rfl
        · split
          · simp
          · show net (stUpdate s _ _).1 = _
            simp

@[simp] theorem net_allocateInSubnetsAndRanges (s : State) (k : Key) (n : Subnet) (rss : List Ranges) (a : Attr)
    (pick : Option IP) : net (allocateInSubnetsAndRanges s k n rss a pick).1 = net s := by
  unfold allocateInSubnetsAndRanges
  split
  · simp
  · split
    · rfl
    · dsimp only
      split <;> simp

@[simp] theorem net_updateAttr (s : State) (k : Key) (ip : IP) (a : Attr) : net (updateAttr s k ip a).1 = net s := by
  unfold updateAttr
  split
  · rfl
  · dsimp only
    split
    · rfl
    · split
      · simp
      · show net (stUpdate s _ _).1 = _
        simp

@[simp] theorem net_provAssign (s : State) (node : String) (ip : IP) : net (provAssign s node ip).1 = net s := by
  unfold provAssign; split <;> (try split) <;> rfl

@[simp] theorem net_bindLoop (k : Key) (node : String) (a : Attr) (reserved : List IP) : ∀ (l : List IP) (s : State),
    net (bindLoop s k node a reserved l).1 = net s := by
  intro l
  induction l with
  | nil => intro s; rfl
  | cons ip t ih =>
    intro s
    unfold bindLoop
    dsimp only
    split
    · simp
    · split
      · split
        · rw [ih]; simp
        · simp
      · rw [ih]; simp

@[simp] theorem net_bindCommit (s : State) (pod : Pod) (ns name : String) (uid : Nat) (node : String) (ips : List IP) :
    net (bindCommit s pod ns name uid node ips).1 = net s := by
  unfold bindCommit
  split
  · split <;> rfl
  · split <;> split <;> rfl

@[simp] theorem net_bindCommitX (s : State) (pod : Pod) (ns name : String) (uid : Nat) (node : String) (ips : List IP) :
    net (bindCommitX s pod ns name uid node ips).1 = net s := by
  unfold bindCommitX
  split
  · rfl
  · simp

@[simp] theorem net_queueRelease (s : State) (pod : Pod) : net (queueRelease s pod) = net s := rfl

@[simp] theorem net_bindFinish (F : Facts) (s : State) (pod : Pod) (ns name : String) (uid : Nat) (node : String)
    (ips : List IP) (ans : BindAnswer) : net (bindFinish F s pod ns name uid node ips ans).1 = net s := by
  unfold bindFinish
  split
  · rfl
  · simp
  · simp
  · split <;> simp
  · split
    · split <;> simp
    · simp

@[simp] theorem net_allocateDuringFilter (s : State) (k : Key) (resv : Bool) (n : Subnet) (a : Attr) (pick : Option IP) :
    net (allocateDuringFilter s k resv n a pick).1 = net s := by
  unfold allocateDuringFilter; split <;> simp

theorem net_getSubnetCont (s : State) (pod : Pod) (ch : Choice) (rss : List Ranges) (ha : Bool) (al : List Subnet) :
    net (getSubnetCont s pod ch rss ha al).1 = net s := by
  unfold getSubnetCont
  generalize (if (keyOf pod).isDp = true then getDpReplicas s (keyOf pod) else (0, false)) = z
  by_cases hpol : policyOf pod ≠ 0 ∧ (!supportReserve (keyOf pod) (policyOf pod)) = true
  · rw [if_pos hpol]
  · rw [if_neg hpol]
    cases hav : getAvailableSubnet s (keyOf pod) (policyOf pod) z.1 z.2 rss with
    | error c => rfl
    | ok pr =>
      obtain ⟨set0, resv⟩ := pr
      simp only
      generalize (if ha = true then sinter set0 al else set0) = S
      by_cases hcond : ((resv || z.2) && !S.isEmpty) = true
      · rw [if_pos hcond]
        cases hmin : sminStr S with
        | none => rfl
        | some n =>
          simp only
          generalize hA : allocateDuringFilter s (keyOf pod) resv n
            { policy := policyOf pod, node := "", uid := pod.uid } ch.pick = A
          have hnet : net A.1 = net s := by rw [← hA]; exact net_allocateDuringFilter _ _ _ _ _ _
          cases hres : A.2 <;> simp only [hres] <;> exact hnet
      · rw [if_neg hcond]

theorem net_getSubnet (s : State) (pod : Pod) (ch : Choice) : net (getSubnet s pod ch).1 = net s := by
  unfold getSubnet
  split
  · split
    · exact net_getSubnetCont _ _ _ _ _ _
    · split <;> rfl
  · split
    · rfl
    · exact net_getSubnetCont _ _ _ _ _ _

/-! ### the moves -/

theorem cacheOK_filter (s : State) (ns name : String) (nodes : List String) (ch : Choice) (h : CacheOK s) :
    CacheOK (filter s ns name nodes ch).1 := by
  unfold filter
  cases hp : s.pods.get (ns, name) with
  | none => exact h
  | some pod =>
    simp only
    by_cases hw : (!pod.wants) = true
    · rw [if_pos hw]; exact h
    · rw [if_neg hw]
      have hg := cacheOK_of_net (net_getSubnet s pod ch) h
      cases hr : (getSubnet s pod ch).2 with
      | error e => cases e <;> simp only [hr] <;> first | exact h | exact hg
      | ok set =>
        simp only [hr]
        exact (filterNodes_spec set nodes [] _ hg).2.1

theorem cacheOK_queryNodeSubnet (s : State) (node : String) (h : CacheOK s) : CacheOK (queryNodeSubnet s node).1 := by
  unfold queryNodeSubnet
  split
  · exact h
  · dsimp only
    split
    · exact cacheOK_of_net (net_api s) h
    · split
      · exact cacheOK_of_net (net_api s) h
      · rename_i nip hn
        split
        · exact cacheOK_of_net (net_api s) h
        · rename_i n hsub
          intro m sn hm
          have hm' : Tbl.get (Tbl.set s.nodeCache node n) m = some sn := hm
          show nodeSubnetOfNode s m = some sn
          rw [Tbl.get_set] at hm'
          by_cases e : node = m
          · subst e
            simp at hm'; subst hm'
            have hn' : Tbl.get s.nodes node = some nip := hn
            have hs' : nodeSubnetOf s.pools nip = some n := hsub
            simp [nodeSubnetOfNode, hn', hs']
          · simp [e] at hm'; exact h m sn hm'

theorem cacheOK_bindAlloc (s : State) (pod : Pod) (node : String) (a : Attr) (infos : List (Option IP)) (pick : Option IP)
    (h : CacheOK s) : CacheOK (bindAlloc s pod node a infos pick).1 := by
  unfold bindAlloc
  split
  · have hq := cacheOK_queryNodeSubnet s node h
    split
    · exact hq
    · exact cacheOK_of_net (net_allocateInSubnetsAndRanges _ _ _ _ _ _) hq
  · exact h

theorem cacheOK_bind (F : Facts) (s : State) (ns name : String) (uid : Nat) (node : String) (ch : Choice) (h : CacheOK s) :
    CacheOK (bind F s ns name uid node ch).1 := by
  unfold bind
  cases hp : s.vPods.get (ns, name) with
  | none => exact h
  | some pod =>
    simp only
    by_cases hw : (!pod.wants) = true
    · rw [if_pos hw]; exact h
    · rw [if_neg hw]
      split
      · exact h
      · cases hi : bindInfos s pod ch with
        | none => exact h
        | some infos =>
          simp only
          split
          · exact h
          · have ha := cacheOK_bindAlloc s pod node { policy := policyOf pod, node := node, uid := pod.uid } infos ch.pick h
            cases hA : (bindAlloc s pod node { policy := policyOf pod, node := node, uid := pod.uid } infos ch.pick).2.1 with
            | inadmissible => exact h
            | err c => exact ha
            | ok =>
              simp only
              have hl := cacheOK_of_net (net_bindLoop (keyOf pod) node { policy := policyOf pod, node := node, uid := pod.uid }
                (infos.filterMap id) ((bindAlloc s pod node { policy := policyOf pod, node := node, uid := pod.uid } infos
                  ch.pick).2.2.filterMap id) _) ha
              split
              · exact cacheOK_of_net (net_bindFinish F _ _ ns name uid node _ _) hl
              · exact hl

/-- a reload that goes through empties the cache; one that fails or finds the same text changes nothing `CacheOK` reads -/
theorem cacheOK_reload (s : State) (pools : List Pool) (h : CacheOK s) : CacheOK (reload s pools).1 := by
  unfold reload
  dsimp only
  split
  · exact cacheOK_of_net (net_api s) h
  · split
    · exact cacheOK_of_net (net_api s) h
    · split
      · -- ConfigurePool failed at its list call: nothing changed
        rename_i hf
        unfold configurePool at hf ⊢
        dsimp only at hf ⊢
        split
        · exact cacheOK_of_net (by simp) h
        · rename_i hno
          simp [hno] at hf
      · intro n sn hn
        have : Tbl.get ([] : Tbl String Subnet) n = some sn := hn
        cases this

theorem cacheOK_withFaults {s : State} (h : CacheOK s) (f pf : Nat) : CacheOK (withFaults s f pf) := h

/-- `CacheOK` is preserved by every move of the C06 histories -/
theorem cacheOK_step (F : Facts) (s : State) (m : Move) (hm : histMove m = true) (h : CacheOK s) :
    CacheOK (step F s m).1 := by
  cases m <;> simp only [histMove, Bool.false_eq_true] at hm
  case createPod ns name kind app pool policy ranges wants =>
    simp only [step]; split <;> exact h
  case deletePod ns name =>
    simp only [step]
    split
    · exact h
    · repeat' split
      all_goals exact h
  case finishPod ns name =>
    simp only [step]
    split
    · exact h
    · repeat' split
      all_goals exact h
  case runPod ns name =>
    simp only [step]
    split
    · exact h
    · repeat' split
      all_goals exact h
  case scale kind ns app replicas => exact h
  case deleteApp kind ns app => exact h
  case setPool name size => simp only [step]; split <;> exact h
  case listerSync pods apps =>
    simp only [step]
    cases pods <;> cases apps <;> exact h
  case dropEvent i => simp only [step]; split <;> exact h
  case filter ns name nodes ch fault => exact cacheOK_filter _ ns name nodes ch (cacheOK_withFaults h fault 0)
  case bind ns name uid node ch fault pfault => exact cacheOK_bind F _ ns name uid node ch (cacheOK_withFaults h fault pfault)
  case reload pools fault => exact cacheOK_reload _ pools (cacheOK_withFaults h fault 0)

theorem cacheOK_init (c : Conf) : CacheOK (init c) := by
  intro n sn hn
  have : Tbl.get ([] : Tbl String Subnet) n = some sn := hn
  cases this

/-- … hence of every state such a history reaches -/
theorem cacheOK_run (F : Facts) : ∀ (ms : List Move) (s : State), ms.all histMove = true → CacheOK s → CacheOK (run F s ms) := by
  intro ms
  induction ms with
  | nil => intro s _ h; exact h
  | cons m t ih =>
    intro s hall h
    simp only [List.all_cons, Bool.and_eq_true] at hall
    unfold run
    simp only [List.foldl_cons]
    apply ih _ hall.2
    unfold next
    dsimp only
    split
    · exact h
    · exact cacheOK_step F s m hall.1 h

theorem reloadP_true (s : State) (pools : List Pool) : reloadP true s pools = reload s pools := by
  simp [reloadP]

end Galaxy.Plugin.C06
