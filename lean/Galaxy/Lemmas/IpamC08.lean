/-
  C08 / C09 specific consequences of the range-allocation and reload lemmas.
-/
import Galaxy.Lemmas.IpamStep

namespace Galaxy.Ipam
open Tbl

/-! ## multi-range allocation: success -/

structure RangesOK (s : State) (key subnet : String) (ranges : List (List Range)) (a : Attr) (s' : State) (ips : List IP) : Prop where
  picks : Forall2 (PickOK s subnet) ips ranges
  nodup : ips.Nodup
  unstored : ∀ p ∈ ips, s.store.get p = none
  alloc : ∀ j, s'.alloc.get j = if j ∈ ips then some (mkRec key a s.clock) else s.alloc.get j
  free : ∀ j, j ∈ s'.free ↔ (j ∈ s.free ∧ j ∉ ips)
  store : ∀ j, s'.store.get j = if j ∈ ips then some (mkRec key a s.clock) else s.store.get j
  pools : s'.pools = s.pools

theorem allocRanges_success {s : State} {key subnet : String} {ranges : List (List Range)} (hr : ranges ≠ []) {a : Attr}
    {choice : Option IP} {pl : Plan}
    (hok : (allocateInSubnetsAndRanges s key subnet ranges a choice pl).2.err = none) :
    RangesOK s key subnet ranges a (allocateInSubnetsAndRanges s key subnet ranges a choice pl).1
      (allocateInSubnetsAndRanges s key subnet ranges a choice pl).2.ips := by
  cases ranges with
  | nil => exact absurd rfl hr
  | cons rs rest =>
    simp only [allocateInSubnetsAndRanges] at hok ⊢
    cases hpick : pickRanges s subnet (rs :: rest) [] with
    | none => rw [hpick] at hok; simp [Out.fail] at hok
    | some picks =>
      rw [hpick] at hok
      simp only at hok ⊢
      obtain ⟨new, hpk, hfa, hnd⟩ := pickRanges_spec s subnet _ _ _ hpick
      simp only [List.nil_append] at hpk
      subst hpk
      cases hc : createAll Generated.Ipam.rollbackOnCreateFailure pl (mkRec key a s.clock) picks [] 0 s.store with
      | mk st rest2 =>
        obtain ⟨eo, kept⟩ := rest2
        rw [hc] at hok
        cases eo with
        | some e => simp [allocRangesFinish, Out.fail] at hok
        | none =>
          simp only [allocRangesFinish]
          obtain ⟨h1, h2, h3⟩ := createAll_ok _ _ _ _ _ _ _ _ _ hc
          have hfr := memAllocAll_frame (mkRec key a s.clock) picks s
          exact ⟨hfa, h2, h1, memAllocAll_alloc _ _ _, memAllocAll_free _ _ _, h3, hfr.1⟩

theorem forall2_length {α β : Type} {R : α → β → Prop} {l₁ : List α} {l₂ : List β} (h : Forall2 R l₁ l₂) :
    l₁.length = l₂.length := forall₂_length h

/-- afterwards `ByKeyAndIPRanges` finds the new addresses in request order -/
theorem byKeyAndRanges_after {s' : State} {key : String} {ranges : List (List Range)} {ips : List IP} (hr : ranges ≠ [])
    (hlen : ips.length = ranges.length)
    (hin : ∀ i (h1 : i < ips.length) (h2 : i < ranges.length), ips[i] ∈ walkConfigured s'.pools ranges[i])
    (hdis : DisjointRanges ranges)
    (hkey : ∀ i (hi : i < ranges.length) x, x ∈ walk ranges[i] → (hasKey s' key x = true ↔ x ∈ ips)) :
    byKeyAndRanges s' key ranges = ips.map some := by
  cases ranges with
  | nil => exact absurd rfl hr
  | cons rs rest =>
    simp only [byKeyAndRanges]
    apply List.ext_getElem
    · simp [hlen]
    · intro i h1 h2
      simp only [List.getElem_map]
      have hi2 : i < (rs :: rest).length := by simpa using h1
      have hi1 : i < ips.length := by simpa using h2
      apply find?_unique (hin i hi1 hi2)
      · exact (hkey i hi2 _ (mem_walk_of_walkConfigured (hin i hi1 hi2))).mpr (List.getElem_mem _)
      · intro x hx' hp
        have hx := mem_walk_of_walkConfigured hx'
        have hxin := (hkey i hi2 x hx).mp hp
        obtain ⟨k, hk, hkx⟩ := List.getElem_of_mem hxin
        have hk2 : k < (rs :: rest).length := by rw [← hlen]; exact hk
        by_cases hki : k = i
        · subst hki; exact hkx.symm
        · exfalso
          have h3 := mem_walk_of_walkConfigured (hin k hk hk2)
          rw [hkx] at h3
          exact hdis i k hi2 hk2 (fun e => hki e.symm) x hx h3

/-! ## multi-range allocation: failure -/

/-- per address: untouched, or (its rollback delete failed) allocated to the key in BOTH memory and store -/
def FailAt (s s' : State) (r : Rec) (j : IP) : Prop :=
  (s'.alloc.get j = s.alloc.get j ∧ s'.store.get j = s.store.get j ∧ (j ∈ s'.free ↔ j ∈ s.free)) ∨
  (j ∈ s.free ∧ s.store.get j = none ∧ s'.alloc.get j = some r ∧ s'.store.get j = some r ∧ j ∉ s'.free)

theorem allocRanges_failure_general {s : State} {key subnet : String} {ranges : List (List Range)} {a : Attr}
    {choice : Option IP} {pl : Plan} {e : Err}
    (he : (allocateInSubnetsAndRanges s key subnet ranges a choice pl).2.err = some e) (hec : e ≠ .crashed) :
    (allocateInSubnetsAndRanges s key subnet ranges a choice pl).1.pools = s.pools ∧
    (∀ j, FailAt s (allocateInSubnetsAndRanges s key subnet ranges a choice pl).1 (mkRec key a s.clock) j) ∧
    ((pl.fails = [] ∨ (pl.fails.length ≤ 1 ∧ FreeUnstored s)) →
      (allocateInSubnetsAndRanges s key subnet ranges a choice pl).1.alloc = s.alloc ∧
      (allocateInSubnetsAndRanges s key subnet ranges a choice pl).1.free = s.free ∧
      SameStore (allocateInSubnetsAndRanges s key subnet ranges a choice pl).1.store s.store) := by
  have hid : ∀ j, FailAt s s (mkRec key a s.clock) j := fun j => Or.inl ⟨rfl, rfl, Iff.rfl⟩
  cases ranges with
  | nil =>
    simp only [allocateInSubnetsAndRanges, allocateInSubnet] at he ⊢
    cases choice with
    | none => exact ⟨rfl, hid, fun _ => ⟨rfl, rfl, fun _ => rfl⟩⟩
    | some ip =>
      simp only at he ⊢
      rcases sCreate_cases pl 0 s.store ip (mkRec key a s.clock) with ⟨e0, _, heq, _⟩ | ⟨_, heq⟩ | ⟨st', heq⟩
      · rw [heq]; exact ⟨rfl, hid, fun _ => ⟨rfl, rfl, fun _ => rfl⟩⟩
      · rw [heq] at he; simp at he
      · rw [heq] at he; simp [Out.fail] at he; exact absurd he.symm hec
  | cons rs rest =>
    simp only [allocateInSubnetsAndRanges] at he ⊢
    cases hpick : pickRanges s subnet (rs :: rest) [] with
    | none => exact ⟨rfl, hid, fun _ => ⟨rfl, rfl, fun _ => rfl⟩⟩
    | some picks =>
      rw [hpick] at he
      simp only at he ⊢
      obtain ⟨new, hpk, hfa, hnd⟩ := pickRanges_spec s subnet _ _ _ hpick
      simp only [List.nil_append] at hpk
      subst hpk
      have hfree : ∀ p ∈ picks, p ∈ s.free := by
        intro p hp
        obtain ⟨_, _, hr⟩ := forall₂_mem_left hfa p hp
        exact hr.2.1
      rw [fact_keeps, fact_rollback'] at he ⊢
      cases hc : createAll true pl (mkRec key a s.clock) picks [] 0 s.store with
      | mk st rest2 =>
        obtain ⟨eo, kept⟩ := rest2
        rw [hc] at he
        cases eo with
        | none => simp [allocRangesFinish] at he
        | some e1 =>
          simp only [allocRangesFinish, Out.fail, Option.some.injEq, if_true] at he ⊢
          subst he
          obtain ⟨g1, g2, g3⟩ := createAll_fail pl _ picks [] 0 s.store st e1 kept hc hec (by simpa using hnd (by simp)) (by simp)
          have hfr := memAllocAll_frame (mkRec key a s.clock) kept s
          refine ⟨hfr.1, ?_, ?_⟩
          · intro j
            by_cases hj : j ∈ kept
            · right
              obtain ⟨k1, k2⟩ := g2 j hj
              have k3 : j ∈ picks ∧ s.store.get j = none := by
                rcases k2 with k2 | k2
                · simp at k2
                · exact k2
              refine ⟨hfree j k3.1, k3.2, ?_, k1, ?_⟩
              · show (memAllocAll s (mkRec key a s.clock) kept).alloc.get j = _
                rw [memAllocAll_alloc, if_pos hj]
              · show j ∉ (memAllocAll s (mkRec key a s.clock) kept).free
                rw [memAllocAll_free]; exact fun x => x.2 hj
            · left
              refine ⟨?_, by simpa using g1 j hj, ?_⟩
              · show (memAllocAll s (mkRec key a s.clock) kept).alloc.get j = _
                rw [memAllocAll_alloc, if_neg hj]
              · show j ∈ (memAllocAll s (mkRec key a s.clock) kept).free ↔ _
                rw [memAllocAll_free]; exact ⟨fun x => x.1, fun x => ⟨x, hj⟩⟩
          · intro hclean
            have hk : kept = [] := by
              apply g3
              rcases hclean with h0 | ⟨h1, h2⟩
              · exact Or.inl h0
              · exact Or.inr ⟨h1, fun p hp => h2 p (hfree p hp)⟩
            subst hk
            exact ⟨rfl, rfl, fun j => by simpa using g1 j (by simp)⟩

theorem allocRanges_failure {s : State} {key subnet : String} {ranges : List (List Range)} {a : Attr}
    {choice : Option IP} {pl : Plan} (hclean : pl.fails = [] ∨ (pl.fails.length ≤ 1 ∧ FreeUnstored s)) {e : Err}
    (he : (allocateInSubnetsAndRanges s key subnet ranges a choice pl).2.err = some e) (hec : e ≠ .crashed) :
    (allocateInSubnetsAndRanges s key subnet ranges a choice pl).1.alloc = s.alloc ∧
    (allocateInSubnetsAndRanges s key subnet ranges a choice pl).1.free = s.free ∧
    (allocateInSubnetsAndRanges s key subnet ranges a choice pl).1.pools = s.pools ∧
    SameStore (allocateInSubnetsAndRanges s key subnet ranges a choice pl).1.store s.store := by
  obtain ⟨h1, _, h3⟩ := allocRanges_failure_general he hec
  obtain ⟨k1, k2, k3⟩ := h3 hclean
  exact ⟨k1, k2, h1, k3⟩

/-! ## allocations never return an address which has a stored object -/

theorem allocSpecific_unstored {s : State} {key : String} {ip : IP} {a : Attr} {pl : Plan}
    (hok : (allocateSpecific s key ip a pl).2.err = none) :
    ∀ p ∈ (allocateSpecific s key ip a pl).2.ips, s.store.get p = none ∧ p ∈ s.free := by
  unfold allocateSpecific at hok ⊢
  by_cases hin : ip ∈ s.free
  · rw [if_pos hin] at hok ⊢
    rcases sCreate_cases pl 0 s.store ip (mkRec key a s.clock) with ⟨e0, _, heq, _⟩ | ⟨hn, heq⟩ | ⟨st', heq⟩
    · rw [heq] at hok; simp [Out.fail] at hok
    · rw [heq]; intro p hp; simp at hp; subst hp; exact ⟨hn, hin⟩
    · rw [heq] at hok; simp [Out.fail] at hok
  · rw [if_neg hin] at hok; simp [Out.fail] at hok

theorem allocSubnet_unstored {s : State} {key subnet : String} {a : Attr} {choice : Option IP} {pl : Plan}
    (hadm : admissibleInSubnet s subnet choice = true)
    (hok : (allocateInSubnet s key subnet a choice pl).2.err = none) :
    ∀ p ∈ (allocateInSubnet s key subnet a choice pl).2.ips,
      s.store.get p = none ∧ p ∈ s.free ∧ hasSubnet s.pools p subnet = true := by
  unfold allocateInSubnet at hok ⊢
  cases choice with
  | none => simp [Out.fail] at hok
  | some ip =>
    simp only at hok ⊢
    simp only [admissibleInSubnet, Bool.and_eq_true, decide_eq_true_eq] at hadm
    rcases sCreate_cases pl 0 s.store ip (mkRec key a s.clock) with ⟨e0, _, heq, _⟩ | ⟨hn, heq⟩ | ⟨st', heq⟩
    · rw [heq] at hok; simp [Out.fail] at hok
    · rw [heq]; intro p hp; simp at hp; subst hp; exact ⟨hn, hadm.1, hadm.2⟩
    · rw [heq] at hok; simp [Out.fail] at hok

/-! ## reload -/

structure ReloadOK (s : State) (pools : List Pool) (s' : State) : Prop where
  conf : ∀ ip, configured s'.pools ip = configured pools ip
  alloc : ∀ ip, s'.alloc.get ip = if configured pools ip = true then s.store.get ip else none
  free : ∀ ip, ip ∈ s'.free ↔ (configured pools ip = true ∧ s.store.get ip = none)
  kept : ∀ ip, configured pools ip = true → s'.store.get ip = s.store.get ip

theorem configurePool_ok {s : State} {pools : List Pool} {order : List IP} {pl : Plan}
    (hadm : admissibleDeletes pools s.store order = true)
    (hok : (configurePool s pools order pl).2.err = none) : ReloadOK s pools (configurePool s pools order pl).1 := by
  unfold configurePool at hok ⊢
  cases hl : sList pl 0 with
  | some e => rw [hl] at hok; simp [Out.fail] at hok
  | none =>
    rw [hl] at hok
    simp only at hok ⊢
    unfold configurePoolApply at hok ⊢
    by_cases hcr : (deleteLoop pl order 1 s.store).2 = true
    · rw [if_pos hcr] at hok; simp [Out.fail] at hok
    · rw [if_neg hcr]
      refine ⟨fun ip => configured_sortPools _ _, ?_, ?_, ?_⟩
      · intro ip
        show (keepConfigured (sortPools pools) s.store).get ip = _
        rw [keepConfigured_get, configured_sortPools]
      · intro ip
        show ip ∈ freshFree (sortPools pools) (keepConfigured (sortPools pools) s.store) ↔ _
        rw [mem_freshFree, keepConfigured_get, configured_sortPools]
        constructor
        · rintro ⟨h1, h2⟩; rw [if_pos h1] at h2; exact ⟨h1, h2⟩
        · rintro ⟨h1, h2⟩; rw [if_pos h1]; exact ⟨h1, h2⟩
      · intro ip hc
        have hc' : configured (sortPools pools) ip = true := by rw [configured_sortPools]; exact hc
        show (deleteLoop pl order 1 s.store).1.get ip = _
        rcases deleteLoop_get pl order 1 s.store ip with h | ⟨_, hin⟩
        · exact h
        · exact absurd hin (admissibleDeletes_notin hadm hc')

/-- without a failing delete the objects outside the new configuration are gone -/
theorem configurePool_dropped {s : State} {pools : List Pool} {order : List IP} {pl : Plan}
    (hadm : admissibleDeletes pools s.store order = true) (hf : pl.fails = [])
    (hok : (configurePool s pools order pl).2.err = none) :
    ∀ ip, configured pools ip = false → (configurePool s pools order pl).1.store.get ip = none := by
  unfold configurePool at hok ⊢
  cases hl : sList pl 0 with
  | some e => rw [hl] at hok; simp [Out.fail] at hok
  | none =>
    rw [hl] at hok
    simp only at hok ⊢
    unfold configurePoolApply at hok ⊢
    by_cases hcr : (deleteLoop pl order 1 s.store).2 = true
    · rw [if_pos hcr] at hok; simp [Out.fail] at hok
    · rw [if_neg hcr]
      intro ip hc
      show (deleteLoop pl order 1 s.store).1.get ip = none
      have hcr' : (deleteLoop pl order 1 s.store).2 = false := by simpa using hcr
      cases hst : s.store.get ip with
      | none =>
        rcases deleteLoop_get pl order 1 s.store ip with h | ⟨h, _⟩
        · rw [h]; exact hst
        · exact h
      | some r =>
        have hk : ip ∈ Tbl.keys s.store := Tbl.mem_keys_of_get hst
        simp only [admissibleDeletes, Bool.and_eq_true, List.all_eq_true, Bool.or_eq_true, List.contains_eq_mem,
          decide_eq_true_eq] at hadm
        have hc' : configured (sortPools pools) ip = false := by rw [configured_sortPools]; exact hc
        have hin : ip ∈ order := by
          rcases hadm.2 ip hk with h | h
          · rw [hc'] at h; cases h
          · exact h
        exact deleteLoop_clean pl hf order 1 s.store hcr' ip hin

/-! ## a plan without crash point never reports a crash -/

theorem sCreate_noCrash (pl : Plan) (h1 : pl.crashBefore = none) (h2 : pl.crashAfter = none) (n : Nat) (st : Store) (ip : IP)
    (r : Rec) : (sCreate pl n st ip r).2 ≠ some Err.crashed := by
  unfold sCreate
  rw [h1, h2]
  simp only [reduceCtorEq, if_false]
  split
  · simp
  · split <;> simp

theorem sDelete_noCrash (pl : Plan) (h1 : pl.crashBefore = none) (h2 : pl.crashAfter = none) (n : Nat) (st : Store) (ip : IP) :
    (sDelete pl n st ip).2 ≠ some Err.crashed := by
  unfold sDelete
  rw [h1, h2]
  simp only [reduceCtorEq, if_false]
  split
  · simp
  · split <;> simp

theorem rollback_noCrash (pl : Plan) (h1 : pl.crashBefore = none) (h2 : pl.crashAfter = none) :
    ∀ (l : List IP) (n : Nat) (st : Store), (rollback pl l n st).2.2 = false := by
  intro l
  induction l with
  | nil => intro n st; rfl
  | cons ip rest ih =>
    intro n st
    unfold rollback
    rw [if_neg (sDelete_noCrash pl h1 h2 n st ip)]
    exact ih _ _

theorem createAll_noCrash (rb : Bool) (pl : Plan) (r : Rec) (h1 : pl.crashBefore = none) (h2 : pl.crashAfter = none) :
    ∀ (todo done : List IP) (n : Nat) (st : Store), (createAll rb pl r todo done n st).2.1 ≠ some Err.crashed := by
  intro todo
  induction todo with
  | nil => intro done n st; simp [createAll]
  | cons ip rest ih =>
    intro done n st
    unfold createAll
    have hnc := sCreate_noCrash pl h1 h2 n st ip r
    cases hc : sCreate pl n st ip r with
    | mk st' eo =>
      rw [hc] at hnc
      cases eo with
      | none => simp only; exact ih _ _ _
      | some e =>
        simp only
        have hec : e ≠ Err.crashed := by intro h; subst h; exact hnc rfl
        rw [if_neg hec]
        cases rb with
        | false => simp [hec]
        | true =>
          simp only [if_true]
          rw [rollback_noCrash pl h1 h2]
          simp [hec]

theorem allocRanges_noCrash {s : State} {key subnet : String} {ranges : List (List Range)} {a : Attr} {choice : Option IP}
    {pl : Plan} (h1 : pl.crashBefore = none) (h2 : pl.crashAfter = none) :
    (allocateInSubnetsAndRanges s key subnet ranges a choice pl).2.err ≠ some Err.crashed := by
  cases ranges with
  | nil =>
    simp only [allocateInSubnetsAndRanges, allocateInSubnet]
    cases choice with
    | none => simp [Out.fail]
    | some ip =>
      simp only
      have hnc := sCreate_noCrash pl h1 h2 0 s.store ip (mkRec key a s.clock)
      cases hc : sCreate pl 0 s.store ip (mkRec key a s.clock) with
      | mk st' eo =>
        rw [hc] at hnc
        cases eo with
        | none => simp
        | some e => simp only [Out.fail]; intro h; exact hnc (by simpa using h)
  | cons rs rest =>
    simp only [allocateInSubnetsAndRanges]
    cases hp : pickRanges s subnet (rs :: rest) [] with
    | none => simp [Out.fail]
    | some picks =>
      simp only
      have hnc := createAll_noCrash Generated.Ipam.rollbackOnCreateFailure pl (mkRec key a s.clock) h1 h2 picks [] 0 s.store
      cases hc : createAll Generated.Ipam.rollbackOnCreateFailure pl (mkRec key a s.clock) picks [] 0 s.store with
      | mk st rest2 =>
        obtain ⟨eo, kept⟩ := rest2
        rw [hc] at hnc
        cases eo with
        | none => simp [allocRangesFinish]
        | some e => simp only [allocRangesFinish, Out.fail]; intro h; exact hnc (by simpa using h)

/-- the mutator never touches the pending watch events -/
theorem allocRanges_pending {s : State} {key subnet : String} {ranges : List (List Range)} {a : Attr} {choice : Option IP}
    {pl : Plan} : (allocateInSubnetsAndRanges s key subnet ranges a choice pl).1.pending = s.pending := by
  cases ranges with
  | nil =>
    simp only [allocateInSubnetsAndRanges, allocateInSubnet]
    cases choice with
    | none => rfl
    | some ip =>
      simp only
      split <;> rfl
  | cons rs rest =>
    simp only [allocateInSubnetsAndRanges]
    cases hp : pickRanges s subnet (rs :: rest) [] with
    | none => rfl
    | some picks =>
      simp only
      cases hc : createAll Generated.Ipam.rollbackOnCreateFailure pl (mkRec key a s.clock) picks [] 0 s.store with
      | mk st rest2 =>
        obtain ⟨eo, kept⟩ := rest2
        cases eo with
        | none => exact (memAllocAll_frame _ _ _).2.1
        | some e =>
          simp only [allocRangesFinish]
          split
          · exact (memAllocAll_frame _ _ _).2.1
          · rfl

/-! ## final forms used by the property files -/

/-- C08, success half -/
theorem multi_alloc_success' {s : State} {key subnet : String} {ranges : List (List Range)} (hr : ranges ≠ []) {a : Attr}
    {choice : Option IP} {pl : Plan} (hdis : DisjointRanges ranges)
    (hown : ∀ rs ∈ ranges, ∀ x ∈ walk rs, hasKey s key x = false)
    {s' : State} {o : Out} (hres : allocateInSubnetsAndRanges s key subnet ranges a choice pl = (s', o))
    (hok : o.err = none) :
    o.ips.length = ranges.length ∧
    (∀ i (h1 : i < o.ips.length) (h2 : i < ranges.length),
      o.ips[i] ∈ walk ranges[i] ∧ o.ips[i] ∈ s.free ∧ hasSubnet s.pools o.ips[i] subnet = true ∧ s.store.get o.ips[i] = none) ∧
    o.ips.Nodup ∧
    (∀ ip ∈ o.ips, s'.alloc.get ip = some (mkRec key a s.clock) ∧ s'.store.get ip = some (mkRec key a s.clock) ∧ ip ∉ s'.free) ∧
    (∀ ip, ip ∉ o.ips → s'.alloc.get ip = s.alloc.get ip ∧ s'.store.get ip = s.store.get ip ∧ (ip ∈ s'.free ↔ ip ∈ s.free)) ∧
    byKeyAndRanges s' key ranges = o.ips.map some := by
  have h := allocRanges_success (s := s) (key := key) (subnet := subnet) (a := a) (choice := choice) (pl := pl) hr
    (by rw [hres]; exact hok)
  rw [hres] at h
  simp only at h
  have hlen := forall2_length h.picks
  have hget := forall₂_get h.picks
  refine ⟨hlen, ?_, h.nodup, ?_, ?_, ?_⟩
  · intro i h1 h2
    have := hget i h1 h2
    exact ⟨this.1, this.2.1, this.2.2.1, h.unstored _ (List.getElem_mem _)⟩
  · intro ip hip
    refine ⟨by rw [h.alloc ip, if_pos hip], by rw [h.store ip, if_pos hip], ?_⟩
    intro hf; exact ((h.free ip).mp hf).2 hip
  · intro ip hip
    refine ⟨by rw [h.alloc ip, if_neg hip], by rw [h.store ip, if_neg hip], ?_⟩
    rw [h.free ip]
    exact ⟨fun x => x.1, fun x => ⟨x, hip⟩⟩
  · apply byKeyAndRanges_after hr hlen (fun i h1 h2 => by rw [h.pools]; exact (hget i h1 h2).2.2.2) hdis
    intro i hi x hx
    have hal := h.alloc x
    by_cases hin : x ∈ o.ips
    · rw [if_pos hin] at hal
      simp [hasKey, hal, mkRec, hin]
    · rw [if_neg hin] at hal
      have := hown _ (List.getElem_mem hi) x hx
      simp only [hasKey] at this ⊢
      rw [hal, this]
      simp [hin]

/-- C09: a successful allocation move only returns addresses which were free and had no stored object -/
theorem alloc_returns_free_unstored {s : State} (op : Op) (hal : op.isAlloc = true) (hadm : op.admissible s = true)
    (hok : (op.run s).2.err = none) : ∀ ip ∈ (op.run s).2.ips, s.store.get ip = none ∧ ip ∈ s.free := by
  cases op with
  | allocSpecific key ip a pl =>
    rw [run_allocSpecific] at hok ⊢
    exact allocSpecific_unstored hok
  | allocSubnet key subnet a choice pl =>
    simp only [Op.admissible] at hadm
    intro p hp
    have := allocSubnet_unstored (key := key) (a := a) (pl := pl) hadm hok p hp
    exact ⟨this.1, this.2.1⟩
  | allocRanges key subnet ranges a choice pl =>
    simp only [Op.admissible, Bool.or_eq_true, bne_iff_ne, ne_eq] at hadm
    by_cases hr : ranges = []
    · subst hr
      rcases hadm with h1 | h1
      · exact absurd rfl h1
      · intro p hp
        have := allocSubnet_unstored (key := key) (a := a) (pl := pl) h1 hok p hp
        exact ⟨this.1, this.2.1⟩
    · have h := allocRanges_success hr hok
      intro p hp
      obtain ⟨_, _, hpk⟩ := forall₂_mem_left h.picks p hp
      exact ⟨h.unstored p hp, hpk.2.1⟩
  | _ => simp [Op.isAlloc] at hal

/-- a failed (not crashed) allocation move never deletes or changes a store object which existed before -/
theorem alloc_failure_keeps_store {s : State} (op : Op) (hal : op.isAlloc = true) {e : Err}
    (he : (op.run s).2.err = some e) (hec : e ≠ .crashed) :
    ∀ ip r, s.store.get ip = some r → (op.run s).1.store.get ip = some r := by
  cases op with
  | allocSpecific key ip0 a pl =>
    rw [run_allocSpecific] at he ⊢
    intro ip r hst
    unfold allocateSpecific at he ⊢
    by_cases hin : ip0 ∈ s.free
    · rw [if_pos hin] at he ⊢
      rcases sCreate_cases pl 0 s.store ip0 (mkRec key a s.clock) with ⟨e0, _, heq, _⟩ | ⟨_, heq⟩ | ⟨st', heq⟩
      · rw [heq]; exact hst
      · rw [heq] at he; simp at he
      · rw [heq] at he; simp [Out.fail] at he; exact absurd he.symm hec
    · rw [if_neg hin]; exact hst
  | allocSubnet key subnet a choice pl =>
    intro ip r hst
    simp only [Op.run] at he ⊢
    unfold allocateInSubnet at he ⊢
    cases choice with
    | none => exact hst
    | some ip0 =>
      simp only at he ⊢
      rcases sCreate_cases pl 0 s.store ip0 (mkRec key a s.clock) with ⟨e0, _, heq, _⟩ | ⟨_, heq⟩ | ⟨st', heq⟩
      · rw [heq]; exact hst
      · rw [heq] at he; simp at he
      · rw [heq] at he; simp [Out.fail] at he; exact absurd he.symm hec
  | allocRanges key subnet ranges a choice pl =>
    intro ip r hst
    simp only [Op.run] at he ⊢
    obtain ⟨_, hfa, _⟩ := allocRanges_failure_general he hec
    rcases hfa ip with ⟨_, h2, _⟩ | ⟨_, h2, _⟩
    · rw [h2]; exact hst
    · rw [h2] at hst; cases hst
  | _ => simp [Op.isAlloc] at hal

end Galaxy.Ipam
