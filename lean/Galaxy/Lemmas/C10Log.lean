/-
  C10 proofs, part 1: the per-IP state machine over call logs (`provOf`, `logOK`) under appending a request, and the
  two provider primitives of the core model.
-/
import Galaxy.Model.PluginC10

namespace Galaxy.PluginC10
open Galaxy Galaxy.Plugin

theorem provOf_snoc (l : List PCall) (c : PCall) : provOf (l ++ [c]) = applyCall (provOf l) c := by
  unfold provOf
  rw [List.foldl_append]
  rfl

theorem logOKFrom_snoc : ∀ (l : List PCall) (a : Tbl IP String) (c : PCall),
    logOKFrom a (l ++ [c]) = (logOKFrom a l && callOK (l.foldl applyCall a) c) := by
  intro l
  induction l with
  | nil => intro a c; simp [logOKFrom]
  | cons x t ih =>
    intro a c
    simp only [List.cons_append, logOKFrom, List.foldl_cons]
    rw [ih]
    simp [Bool.and_assoc]

theorem logOK_snoc (l : List PCall) (c : PCall) : logOK (l ++ [c]) = (logOK l && callOK (provOf l) c) :=
  logOKFrom_snoc l [] c

/-- the provider's entry for an address after one more request -/
theorem get_applyCall (a : Tbl IP String) (c : PCall) (j : IP) :
    Tbl.get (applyCall a c) j =
      match c with
      | .assign n ip true => if ip = j then some n else Tbl.get a j
      | .unassign _ ip true => if ip = j then none else Tbl.get a j
      | _ => Tbl.get a j := by
  cases c with
  | assign n ip ok =>
    cases ok with
    | true => simp only [applyCall]; exact Tbl.get_set a j ip n
    | false => rfl
  | unassign n ip ok =>
    cases ok with
    | true => simp only [applyCall]; exact Tbl.get_erase a j ip
    | false => rfl

/-! ### the provider primitives -/

/-- `provAssign` with the provider on: the request is appended to the log with its outcome - or (crash plan: the process
    dies at this call) nothing happens at all and the caller sees a failure -/
theorem provAssign_cases (s : State) (node : String) (ip : IP) (hon : s.provOn = true) :
    ((provAssign s node ip).1 = s ∧ (provAssign s node ip).2 = false) ∨
    (provAssign s node ip).1.plog = s.plog ++ [.assign node ip (provAssign s node ip).2] := by
  unfold provAssign
  simp only [hon, Bool.not_true, Bool.false_eq_true, ↓reduceIte]
  split
  · exact Or.inl ⟨rfl, rfl⟩
  · exact Or.inr rfl

theorem provUnassign_cases (s : State) (node : String) (ip : IP) (hon : s.provOn = true) :
    ((provUnassign s node ip).1 = s ∧ (provUnassign s node ip).2 = false) ∨
    (provUnassign s node ip).1.plog = s.plog ++ [.unassign node ip (provUnassign s node ip).2] := by
  unfold provUnassign
  simp only [hon, Bool.not_true, Bool.false_eq_true, ↓reduceIte]
  split
  · exact Or.inl ⟨rfl, rfl⟩
  · exact Or.inr rfl

end Galaxy.PluginC10
