/-
  M4-core proofs, part 15: the invariant holds initially, is preserved by every move whose side condition holds,
  hence holds after every history; no move sends an UnAssign for an address a live bound pod holds.
-/
import Galaxy.Lemmas.PluginBind
import Galaxy.Lemmas.PluginAdmin

namespace Galaxy.Plugin
open Galaxy

theorem inv_init (c : Conf) : Inv (init c) := by
  unfold init
  dsimp only
  have hnil : ∀ (id : String × String) (q : Pod), Tbl.get ([] : Pods) id = some q → False := by
    intro id q h; cases h
  have hlb : ∀ q, ¬ LiveBound ([] : Pods) q := fun q hq => hnil _ _ hq.1
  refine ⟨⟨?_, ?_, ?_, ?_, ?_, ?_⟩, ⟨?_, ?_⟩, ?_, ?_, ?_, ?_, ?_, ?_, ?_, ?_⟩
  · intro _; rfl
  · intro _ _; rfl
  · intro _ r h; cases h
  · intro ip h; exact allIPs_configured _ _ h
  · exact List.nodup_nil
  · exact List.nodup_nil
  · intro q hq; exact absurd hq (hlb q)
  · intro ip r h; cases h
  · intro id q h; exact (hnil id q h).elim
  · intro id1 _ q1 _ h; exact (hnil id1 q1 h).elim
  · intro id l h; cases h
  · intro e h; cases h
  · intro q hq; exact absurd hq (hlb q)
  · exact Nat.one_pos
  · exact List.nodup_nil
  · exact List.nodup_nil

theorem inv_step (s : State) (m : Move) (h : Inv s) (ha : assumed s m = true) : Inv (step Facts.good s m).1 := by
  cases m with
  | createPod ns name kind app pool policy ranges wants => exact inv_createPod s ns name kind app pool policy ranges wants h ha
  | deletePod ns name => exact inv_deletePod s ns name h
  | finishPod ns name => exact inv_finishPod s ns name h
  | runPod ns name => exact inv_runPod s ns name h
  | markTerminating ns name fault => exact (markTerminating_spec s ns name fault h).1
  | scale kind ns app n => exact (inv_truth_simple s h).1 kind ns app n
  | deleteApp kind ns app => exact (inv_truth_simple s h).2.1 kind ns app
  | setPool name size => exact (inv_truth_simple s h).2.2 name size
  | listerSync pods apps => exact inv_listerSync s pods apps h
  | fipSync => exact h.of_fields rfl rfl rfl rfl rfl rfl rfl rfl
  | dropEvent i => exact inv_dropEvent s i h
  | filter ns name nodes ch fault => exact inv_filter s ns name nodes ch fault h
  | preempt ns name nodes ch fault => exact inv_preempt s ns name nodes ch fault h
  | bind ns name uid node ch f pf => exact inv_bind s ns name uid node ch f pf h ha
  | deliver i f pf => exact inv_deliver s i f pf h
  | resync order f pf => exact inv_resync s order f pf h
  | resyncSnap => exact h.of_fields rfl rfl rfl rfl rfl rfl rfl rfl
  | resyncRec ip f pf =>
    simp only [step]
    split
    · exact h
    · rename_i r0 _
      split
      · exact h
      · rename_i hin
        have hin' : inChecklist r0 = true := by simpa using hin
        exact (resyncOne_spec _ ip r0 (inv_withFaults s f pf h)
          (inChecklist_not_admin r0 hin')).1.of_fields rfl rfl rfl rfl rfl rfl rfl rfl
  | adminReserve ip text policy => exact inv_adminReserve s ip text policy h
  | adminUnreserve ip => exact inv_adminUnreserve s ip h
  | syncPodIPs f => exact inv_syncPodIPs s f h
  | apiRelease ip k f pf => exact inv_apiRelease s ip k f pf h (assumed_apiRelease ha)
  | reload pools fault => exact inv_reload s pools fault h ha
  | restart => exact inv_restart s h

theorem inv_next (s : State) (m : Move) (h : Inv s) (ha : assumed s m = true) : Inv (next Facts.good s m) := by
  unfold next
  dsimp only
  split
  · exact h
  · exact inv_step s m h ha

theorem inv_run : ∀ (ms : List Move) (s : State), Inv s → allAssumed Facts.good s ms = true → Inv (run Facts.good s ms) := by
  intro ms
  induction ms with
  | nil => intro s h _; exact h
  | cons m t ih =>
    intro s h ha
    simp only [allAssumed, Bool.and_eq_true] at ha
    exact ih _ (inv_next s m h ha.1) ha.2

/-! ### provider requests of one move -/

theorem allocateInSubnetWithKey_plog (s : State) (o n : Key) (sn : Subnet) (a : Attr) (ch : Option IP) :
    (allocateInSubnetWithKey s o n sn a ch).1.plog = s.plog := by
  unfold allocateInSubnetWithKey
  dsimp only
  split
  · rfl
  · split
    · rfl
    · split
      · rfl
      · split
        · rfl
        · split
          · exact stUpdate_plog _ _ _
          · exact stUpdate_plog _ _ _

theorem filter_plog (s : State) (ns name : String) (nodes : List String) (ch : Choice) :
    (filter s ns name nodes ch).1.plog = s.plog := by
  unfold filter
  split
  · rfl
  · rename_i pod _
    split
    · rfl
    · dsimp only
      have key : (getSubnet s pod ch).1.plog = s.plog := by
        rcases getSubnet_state s pod ch with e | ⟨resv, n, e⟩
        · rw [e]
        · rw [e]; unfold allocateDuringFilter
          split
          · exact allocateInSubnetWithKey_plog _ _ _ _ _ _
          · exact allocateInSubnet_plog _ _ _ _ _
      split
      · rfl
      · exact key
      · rename_i set _
        exact ((filterNodes_quiet set nodes [] (getSubnet s pod ch).1).2).trans key

theorem preempt_plog (s : State) (ns name : String) (nodes : List String) (ch : Choice) :
    (preempt s ns name nodes ch).1.plog = s.plog := by
  unfold preempt
  split
  · rfl
  · rename_i pod _
    split
    · rfl
    · have key : (getSubnet s pod ch).1.plog = s.plog := by
        rcases getSubnet_state s pod ch with e | ⟨resv, n, e⟩
        · rw [e]
        · rw [e]; unfold allocateDuringFilter
          split
          · exact allocateInSubnetWithKey_plog _ _ _ _ _ _
          · exact allocateInSubnet_plog _ _ _ _ _
      split
      · rfl
      · exact key
      · rename_i set _
        exact ((filterNodes_quiet set nodes [] (getSubnet s pod ch).1).2).trans key

/-- the UnAssign requests a move sends are never for an address in a live bound pod's binding annotation -/
theorem unassign_step (s : State) (m : Move) (h : Inv s) (ha : assumed s m = true) :
    UnassignsWithin s (step Facts.good s m).1 (NoLive s.pods) := by
  have h0 : ∀ f pf, Inv (withFaults s f pf) := fun f pf => inv_withFaults s f pf h
  cases m with
  | createPod ns name kind app pool policy ranges wants =>
    apply UnassignsWithin.of_plog_eq; simp only [step]; split <;> rfl
  | deletePod ns name => apply UnassignsWithin.of_plog_eq; simp only [step]; split <;> rfl
  | finishPod ns name =>
    apply UnassignsWithin.of_plog_eq; simp only [step]; split
    · rfl
    · split <;> rfl
  | runPod ns name =>
    apply UnassignsWithin.of_plog_eq; simp only [step]; split
    · rfl
    · split <;> rfl
  | markTerminating ns name fault => exact UnassignsWithin.of_plog_eq _ (markTerminating_spec s ns name fault h).2.1
  | scale kind ns app n => exact UnassignsWithin.of_plog_eq _ rfl
  | deleteApp kind ns app => exact UnassignsWithin.of_plog_eq _ rfl
  | setPool name size => apply UnassignsWithin.of_plog_eq; simp only [step]; cases size <;> rfl
  | listerSync pods apps =>
    apply UnassignsWithin.of_plog_eq; simp only [step]
    split <;> split <;> rfl
  | fipSync => exact UnassignsWithin.of_plog_eq _ rfl
  | dropEvent i => apply UnassignsWithin.of_plog_eq; simp only [step]; split <;> rfl
  | filter ns name nodes ch fault => exact UnassignsWithin.of_plog_eq _ (filter_plog _ ns name nodes ch)
  | preempt ns name nodes ch fault => exact UnassignsWithin.of_plog_eq _ (preempt_plog _ ns name nodes ch)
  | bind ns name uid node ch f pf =>
    have := (bind_spec (withFaults s f pf) ns name uid node ch (h0 f pf) (assumed_bind ha)).2.2.1
    exact this.mono (fun _ hf => hf.elim)
  | deliver i f pf => exact (deliver_spec _ i (h0 f pf)).2.2
  | resync order f pf => exact (resync_spec _ order (h0 f pf)).2.2
  | resyncSnap => exact UnassignsWithin.of_plog_eq _ rfl
  | resyncRec ip f pf =>
    simp only [step]
    split
    · exact UnassignsWithin.refl s _
    · rename_i r0 _
      split
      · exact UnassignsWithin.refl s _
      · rename_i hin
        have hin' : inChecklist r0 = true := by simpa using hin
        obtain ⟨l, hl, hp⟩ := (resyncOne_spec _ ip r0 (h0 f pf) (inChecklist_not_admin r0 hin')).2.2
        exact ⟨l, hl, hp⟩
  | adminReserve ip text policy =>
    apply UnassignsWithin.of_plog_eq; simp only [step]; split
    · rfl
    · split <;> rfl
  | adminUnreserve ip =>
    apply UnassignsWithin.of_plog_eq; simp only [step]; split
    · rfl
    · split <;> rfl
  | syncPodIPs f => exact UnassignsWithin.of_plog_eq _ (syncPodIPs_spec _ (h0 f 0)).2.2
  | apiRelease ip k f pf => exact (apiRelease_spec _ ip k (h0 f pf) (assumed_apiRelease ha)).2.2
  | reload pools fault =>
    exact UnassignsWithin.of_plog_eq _ (reload_spec (withFaults s fault 0) pools (h0 fault 0) (assumed_reload (s := s) ha)).2.2
  | restart =>
    apply UnassignsWithin.of_plog_eq
    simp only [step]
    unfold restart
    dsimp only
    unfold configurePool
    dsimp only
    split
    · rfl
    · show (dropAll _ _).plog = s.plog
      rw [(dropAll_fields _ _).2.2.2.2.2.2.2]; rfl

/-! ### statements used by Props/C04 and Props/C01 -/

/-- the address is stored (memory and store) under the pod's key and uid -/
def OwnedBy (s : State) (q : Pod) (ip : IP) : Prop :=
  ∃ r, Tbl.get s.alloc ip = some r ∧ r.key = keyOf q ∧ r.uid = q.uid ∧ Tbl.get s.store ip = some r

/-- the provider requests the last move appended -/
def newRequests (s s' : State) : List PCall := s'.plog.drop s.plog.length

theorem inv_owned {s : State} (h : Inv s) (q : Pod) (hq : LiveBound s.pods q) (hd : HInfo) (hm : hd ∈ q.handed) :
    OwnedBy s q hd.ip := by
  obtain ⟨r, h1, h2, h3⟩ := h.safe.own q hq hd hm
  exact ⟨r, h1, h2, h3, by rw [h.coh.agree]; exact h1⟩

theorem inv_no_shared {s : State} (h : Inv s) (q1 q2 : Pod) (h1 : LiveBound s.pods q1) (h2 : LiveBound s.pods q2)
    (ip : IP) (m1 : ip ∈ q1.ips) (m2 : ip ∈ q2.ips) : q1 = q2 := by
  simp only [Pod.ips, List.mem_map] at m1 m2
  obtain ⟨d1, dm1, e1⟩ := m1
  obtain ⟨d2, dm2, e2⟩ := m2
  obtain ⟨r1, g1, k1, _⟩ := h.safe.own q1 h1 d1 dm1
  obtain ⟨r2, g2, k2, _⟩ := h.safe.own q2 h2 d2 dm2
  rw [e1] at g1; rw [e2, g1] at g2; cases g2
  have w1 := (h.podsWF _ q1 h1.1).2.2.2
  have w2 := (h.podsWF _ q2 h2.1).2.2.2
  have := keyOf_inj q1 q2 w1 w2 (k1.symm.trans k2)
  have a := h1.1
  rw [this, h2.1] at a
  cases a; rfl

theorem unassign_next (s : State) (m : Move) (h : Inv s) (ha : assumed s m = true) (node : String) (ip : IP) (ok : Bool)
    (hm : PCall.unassign node ip ok ∈ newRequests s (next Facts.good s m)) : NoLive s.pods ip := by
  unfold next at hm
  dsimp only at hm
  split at hm
  · simp [newRequests] at hm
  · obtain ⟨l, hl, hp⟩ := unassign_step s m h ha
    unfold newRequests at hm
    rw [hl] at hm
    simp at hm
    exact hp _ hm node ip ok rfl

end Galaxy.Plugin
