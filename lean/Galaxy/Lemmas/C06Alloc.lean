/-
  C06 lemmas, part 5: `AllocateInSubnetsAndIPRange` finds a pick for every requested range list whenever every
  range list has a free address in a pool listing the node subnet and the range lists are pairwise disjoint
  (the documented TODO of ipam_crd.go is exactly the overlapping case), and then succeeds.
-/
import Galaxy.Lemmas.C06Ops

namespace Galaxy.Plugin.C06
open Galaxy Galaxy.Plugin

theorem rangesDisjoint_spec {a b : Ranges} (h : rangesDisjoint a b = true) {x : Nat} (hx : x ∈ enumRanges a) :
    x ∉ enumRanges b := by
  unfold rangesDisjoint at h
  rw [List.all_eq_true] at h
  simpa using h x hx

theorem wfRequest_cons {rs : Ranges} {t : List Ranges} (h : wfRequest (rs :: t) = true) :
    (∀ r, r ∈ t → rangesDisjoint rs r = true) ∧ wfRequest t = true := by
  unfold wfRequest at h
  simp only [Bool.and_eq_true, List.all_eq_true] at h
  exact h

/-- what a pick is: either carried over, or a free address of a pool listing the subnet out of one of the range lists -/
theorem pickRanges_post (s : State) (n : Subnet) : ∀ (rss : List Ranges) (acc picks : List IP),
    pickRanges s n rss acc = some picks → ∀ x, x ∈ picks →
      x ∈ acc ∨ (x ∈ s.free ∧ hasSubnet s x n = true ∧ ∃ rs, rs ∈ rss ∧ x ∈ enumRanges rs) := by
  intro rss
  induction rss with
  | nil =>
    intro acc picks h x hx
    simp [pickRanges] at h; subst h; exact Or.inl hx
  | cons rs t ih =>
    intro acc picks h x hx
    unfold pickRanges at h
    split at h
    · cases h
    · rename_i ip hf
      have hp := List.find?_some hf
      have hmem := List.mem_of_find?_eq_some hf
      simp only [Bool.and_eq_true, List.contains_eq_mem, decide_eq_true_eq] at hp
      rcases ih _ _ h x hx with h1 | ⟨h1, h2, r, hr, hxr⟩
      · rcases List.mem_append.mp h1 with h1 | h1
        · exact Or.inl h1
        · simp at h1; subst h1
          exact Or.inr ⟨hp.1.1, hp.1.2, rs, by simp, hmem⟩
      · exact Or.inr ⟨h1, h2, r, by simp [hr], hxr⟩

/-- pairwise disjoint range lists, each with a free address in a pool listing the subnet: every list gets a pick -/
theorem pickRanges_succeeds (s : State) (n : Subnet) : ∀ (rss : List Ranges) (acc : List IP),
    wfRequest rss = true → (∀ rs, rs ∈ rss → FreeIn s n rs) →
    (∀ rs, rs ∈ rss → ∀ x, x ∈ acc → x ∉ enumRanges rs) → ∃ picks, pickRanges s n rss acc = some picks := by
  intro rss
  induction rss with
  | nil => intro acc _ _ _; exact ⟨acc, rfl⟩
  | cons rs t ih =>
    intro acc hwf hfree hacc
    obtain ⟨hd, hwt⟩ := wfRequest_cons hwf
    obtain ⟨ip, h1, h2, h3⟩ := hfree rs (by simp)
    unfold pickRanges
    cases hf : List.find? (fun ip => s.free.contains ip && hasSubnet s ip n && !acc.contains ip) (enumRanges rs) with
    | none =>
      rw [List.find?_eq_none] at hf
      have := hf ip h1
      have hna : ip ∉ acc := fun hm => hacc rs (by simp) ip hm h1
      simp [h2, h3, hna] at this
    | some j =>
      have hj := List.mem_of_find?_eq_some hf
      apply ih (acc ++ [j]) hwt (fun r hr => hfree r (by simp [hr]))
      intro r hr x hx
      rcases List.mem_append.mp hx with hx | hx
      · exact hacc r (by simp [hr]) x hx
      · simp at hx; subst hx
        exact rangesDisjoint_spec (hd r hr) hj

/-- without a fault every create of a fresh address succeeds -/
theorem createAll_ok (r : Rec) : ∀ (todo done : List IP) (s : State), FaultSpent s →
    (∀ j, j ∈ todo → Tbl.get s.store j = none) → todo.Nodup → (createAll s r done todo).2 = true := by
  intro todo
  induction todo with
  | nil => intro done s _ _ _; rfl
  | cons ip t ih =>
    intro done s hs hT hN
    have hN' : ip ∉ t ∧ t.Nodup := by simpa using hN
    have hok := stCreate_ok_of_spent s ip r hs (hT ip (by simp))
    unfold createAll
    simp only [hok, Bool.not_true, Bool.false_eq_true, if_false]
    apply ih _ _ (stCreate_spent s ip r hs) _ hN'.2
    intro j hj
    rw [(stCreate_store s ip r).1 hok, Tbl.get_set]
    have : ip ≠ j := fun e => hN'.1 (e ▸ hj)
    simp [this, hT j (by simp [hj])]

/-- `AllocateInSubnetsAndIPRange` with picks at hand succeeds and stores exactly the picks under the key -/
theorem allocRanges_ok {s : State} (hc : Coherent s) (hf : NoFault s) (k : Key) (n : Subnet) (a : Attr) (pick : Option IP)
    (rss : List Ranges) (hne : rss ≠ []) (picks : List IP) (hp : pickRanges s n rss [] = some picks) :
    (allocateInSubnetsAndRanges s k n rss a pick).2 = .ok ∧
      ∀ j, Tbl.get (allocateInSubnetsAndRanges s k n rss a pick).1.alloc j =
        if j ∈ picks then some (mkRec k a s.clock) else Tbl.get s.alloc j := by
  have hne' : rss.isEmpty = false := by cases rss with
    | nil => exact absurd rfl hne
    | cons _ _ => rfl
  obtain ⟨hfree, hnd⟩ := pickRanges_spec s n rss [] picks hp (by simp) (by simp)
  have hst : ∀ j, j ∈ picks → Tbl.get s.store j = none := fun j hj => by
    rw [hc.agree]; exact hc.disjoint j (hfree j hj)
  have hok := createAll_ok (mkRec k a s.clock) picks [] s hf.spent hst hnd
  have hm0 : Mid s s (mkRec k a s.clock) [] := ⟨⟨Frame.refl s, rfl, rfl⟩, fun j => by simp⟩
  have sp := (createAll_spec s (mkRec k a s.clock) picks [] s hm0 (fun j hj => ⟨hst j hj, by simp⟩) hnd).1 hok
  unfold allocateInSubnetsAndRanges
  simp only [hne', Bool.false_eq_true, if_false, hp, hok, Bool.not_true]
  refine ⟨trivial, fun j => ?_⟩
  rw [memAllocAll_get, sp.step.alloc]

/-- the other fields after `AllocateInSubnetsAndIPRange` -/
theorem allocRanges_frame {s : State} (hc : Coherent s) (k : Key) (n : Subnet) (a : Attr) (pick : Option IP)
    (rss : List Ranges) : Frame s (allocateInSubnetsAndRanges s k n rss a pick).1 :=
  (allocateInSubnetsAndRanges_chg s k n rss a pick hc).frame

end Galaxy.Plugin.C06
