/-
  `Inv`, part 4: admin moves; `Inv` is preserved by every admissible move in an environment satisfying `EnvOK`,
  holds in every reachable state, and implies `Agree`.
-/
import Galaxy.Lemmas.IpamInv3

namespace Galaxy.Ipam
open Tbl

theorem pend_nil_of_env {s : State} {ip : IP} (h : s.pending.all (fun e => e.ip != ip) = true) : pend s ip = [] := by
  unfold pend
  apply List.filter_eq_nil_iff.mpr
  intro e he
  have := List.all_eq_true.mp h e he
  simpa using this

theorem pinv_finish_setReserved {s : State} (h : Inv s) (ip : IP) (r : Rec) (hr : r.reserved = true)
    (hn : r.node = "") (hu : r.uid = "") (hst : s.store.get ip = none)
    (henv : s.pending.all (fun e => e.ip != ip) = true) : PInv (finish s { s with store := Tbl.set s.store ip r }) := by
  intro j
  show PAt (configured s.pools j) (pend (finish s { s with store := Tbl.set s.store ip r }) j) (s.alloc.get j)
    ((Tbl.set s.store ip r).get j)
  rw [pend_finish]
  have hN := newEv_storeEvents s.store (Tbl.set s.store ip r) j
  have hps : pend ({ s with store := Tbl.set s.store ip r } : State) j = pend s j := rfl
  rw [hps]
  by_cases hj : j = ip
  · subst hj
    rw [pend_nil_of_env henv, List.nil_append]
    rw [hst, Tbl.get_set_self] at hN
    obtain ⟨g1, g2⟩ := hN.allA_of rfl hr rfl
    have hold := h.pinv j
    rw [pend_nil_of_env henv, pat_nil, hst] at hold
    rw [Tbl.get_set_self]
    rw [pat_addShape g1 (lastIsU_allA (fun x hx => by rw [g2 x hx]; rfl))]
    refine ⟨_, _, g2, rfl, hr, fun hc => Or.inl ⟨optEq_none_right (hold hc), ?_⟩⟩
    exact ⟨rfl, rfl, hn.symm, hu.symm, hr.symm⟩
  · have hne : ip ≠ j := fun e => hj e.symm
    rw [Tbl.get_set_ne _ _ hne] at hN ⊢
    exact pat_local (h.pinv j) (LocD.loc (Loc.id rfl rfl)) hN

theorem pinv_finish_adminReserve {s : State} (h : Inv s) (ip : IP) (key : String) (policy : Nat)
    (henv : s.pending.all (fun e => e.ip != ip) = true) : PInv (finish s (adminCreateReserved s ip key policy).1) := by
  unfold adminCreateReserved
  cases hst : s.store.get ip with
  | some r => exact pinv_finish_loc h.pinv rfl rfl (fun _ => LocD.loc (Loc.id rfl rfl))
  | none => exact pinv_finish_setReserved h ip _ rfl rfl rfl hst henv

theorem pat_unreserve {c : Bool} {l N : List Event} {a : Option Rec} {r : Rec} (h : PAt c l a (some r))
    (hr : r.reserved = true) (hN : N ≠ []) (hU : ∀ x ∈ N, x.assign = false) : PAt c (l ++ N) a none := by
  have hne : l ++ N ≠ [] := by simp [hN]
  rw [pat_lastU hne (lastIsU_append_allU hN hU)]
  refine ⟨fun r0 k => (by cases k), fun hc => Or.inl ⟨rfl, ?_⟩⟩
  -- the cache holds the reservation (or nothing yet)
  have hres : optEq a (some r) → ∀ x, a = some x → x.reserved = true := by
    intro k x hx
    subst hx
    simp only [optEq, recEq] at k
    rw [k.2.2.2.2]; exact hr
  by_cases hl : l = []
  · subst hl; rw [pat_nil] at h; exact hres (h hc)
  · by_cases hu : lastIsU l = true
    · rw [pat_lastU hl hu] at h
      have := h.1 r rfl
      rw [hr] at this; cases this
    · have hu' : lastIsU l = false := by simpa using hu
      rw [pat_addShape hl hu'] at h
      obtain ⟨_, _, _, _, _, k4⟩ := h
      rcases k4 hc with ⟨k, _⟩ | k
      · intro x hx; rw [k] at hx; cases hx
      · exact hres k

theorem pinv_finish_adminUnreserve {s : State} (h : Inv s) (ip : IP) : PInv (finish s (adminDeleteReserved s ip).1) := by
  unfold adminDeleteReserved
  cases hst : s.store.get ip with
  | none => exact pinv_finish_loc h.pinv rfl rfl (fun _ => LocD.loc (Loc.id rfl rfl))
  | some r =>
    simp only
    by_cases hr : r.reserved = true
    · rw [if_pos hr]
      intro j
      show PAt (configured s.pools j) (pend (finish s _) j) (s.alloc.get j) ((Tbl.erase s.store ip).get j)
      rw [pend_finish]
      have hN := newEv_storeEvents s.store (Tbl.erase s.store ip) j
      by_cases hj : j = ip
      · subst hj
        rw [hst, Tbl.get_erase_self] at hN
        obtain ⟨g1, g2⟩ := hN.allU_of rfl hr rfl
        rw [Tbl.get_erase_self]
        have hold := h.pinv j
        rw [hst] at hold
        exact pat_unreserve hold hr g1 g2
      · have hne : ip ≠ j := fun e => hj e.symm
        rw [Tbl.get_erase_ne _ hne] at hN ⊢
        exact pat_local (h.pinv j) (LocD.loc (Loc.id rfl rfl)) hN
    · rw [if_neg hr]
      exact pinv_finish_loc h.pinv rfl rfl (fun _ => LocD.loc (Loc.id rfl rfl))

/-- the generic mutators: from `Holds (Loc since s)` to `PInv` of the finished step -/
theorem pinv_of_holds {s s1 : State} (h : PInv s)
    (hh : Holds (fun ip a' st' => Loc (s.alloc.get ip) (s.store.get ip) a' st') s.pools s.pending s1) : PInv (finish s s1) :=
  pinv_finish_loc h hh.1 hh.2.1 (fun ip => LocD.loc (hh.2.2 ip))

theorem pinv_step {s : State} (h : Inv s) (op : Op) (hadm : op.admissible s = true) (henv : EnvOK s op = true) :
    PInv (step s op).1 := by
  rw [step_eq_finish]
  unfold afterCrash
  by_cases hcr : (op.run s).2.err = some .crashed
  · rw [if_pos hcr]; exact pinv_finish_restart _ _
  · rw [if_neg hcr]
    have hc := loc_closed s
    have h0 := holds_loc_self s
    cases op with
    | configure pools order pl =>
      simp only [Op.admissible] at hadm
      rw [run_configure] at hcr ⊢
      exact pinv_finish_configure h.pinv _ _ _ hadm hcr
    | allocSpecific key ip a pl =>
      rw [run_allocSpecific] at hcr ⊢
      exact pinv_of_holds h.pinv (holds_allocateSpecific hc h0 key ip a pl hcr)
    | allocSubnet key subnet a choice pl =>
      exact pinv_of_holds h.pinv (holds_allocateInSubnet hc h0 key subnet a choice pl hcr)
    | allocWithKey old new subnet a choice pl =>
      exact pinv_of_holds h.pinv (holds_allocateInSubnetWithKey hc h0 old new subnet a choice pl hcr)
    | allocRanges key subnet ranges a choice pl =>
      exact pinv_of_holds h.pinv (holds_allocateInSubnetsAndRanges hc h0 key subnet ranges a choice pl hcr)
    | reserve old new a order pl =>
      exact pinv_of_holds h.pinv (holds_reserveLoop hc s.clock old new a pl order 0 s false h0 hcr)
    | updateAttr key ip a pl =>
      exact pinv_of_holds h.pinv (holds_updateAttr hc h0 key ip a pl hcr)
    | release key ip pl =>
      obtain ⟨k1, k2, k3⟩ := locD_release s key ip pl hcr
      exact pinv_finish_loc h.pinv k1 k2 k3
    | releaseIPs req pl =>
      simp only [Op.admissible, decide_eq_true_eq] at hadm
      simp only [Op.run, releaseIPs] at hcr ⊢
      by_cases he : s.alloc.isEmpty = true
      · rw [if_pos he]
        exact pinv_finish_loc h.pinv rfl rfl (fun _ => LocD.loc (Loc.id rfl rfl))
      · rw [if_neg he] at hcr ⊢
        obtain ⟨k1, k2, _⟩ := releaseLoop_frame pl req 0 s [] req
        exact pinv_finish_loc h.pinv k1 k2 (locD_releaseLoop pl req 0 s [] req hadm hcr)
    | adminReserve ip key policy =>
      simp only [EnvOK] at henv
      exact pinv_finish_adminReserve h ip key policy henv
    | adminUnreserve ip => exact pinv_finish_adminUnreserve h ip
    | deliver => exact pinv_finish_deliver h
    | restart => exact pinv_finish_restart s s

/-- `Inv` is preserved by every admissible move (every mutator, argument, choice, fault plan, crash plan; admin moves;
    event delivery; restart) in an environment satisfying `EnvOK` -/
theorem inv_step {s : State} (h : Inv s) (op : Op) (hadm : op.admissible s = true) (henv : EnvOK s op = true) :
    Inv (step s op).1 :=
  ⟨memOK_step h.mem op hadm, pinv_step h op hadm henv⟩

theorem inv_init : Inv init := by
  refine ⟨memOK_init, ?_⟩
  intro ip
  show PAt (configured [] ip) [] none none
  rw [pat_nil]; intro _; trivial

theorem inv_reach {s : State} (h : Reach s) : Inv s := by
  induction h with
  | init => exact inv_init
  | step op _ hadm henv ih => exact inv_step ih op hadm henv

theorem agree_of_inv {s : State} (h : Inv s) : Agree s := by
  refine ⟨h.mem, ?_⟩
  intro ip hc
  by_cases hl : pend s ip = []
  · right
    have := h.pinv ip
    rw [hl, pat_nil] at this
    exact this hc
  · left
    obtain ⟨e, he⟩ := List.exists_mem_of_ne_nil _ hl
    simp only [pend, List.mem_filter, beq_iff_eq] at he
    exact ⟨e, he.1, he.2⟩

theorem agree_reach {s : State} (h : Reach s) : Agree s := agree_of_inv (inv_reach h)

end Galaxy.Ipam
