/-
  M4-core proofs, part 18: the bind-level clause of C08.  A pod that requests k range lists and is bound successfully
  has a binding annotation with exactly k entries IN REQUEST ORDER: the i-th entry is an address of the i-th requested
  range list - whichever lists the pod's key owned before (none, all, or any subset, a later one without an earlier one
  included) and whichever were allocated by this Bind.  The reply is built from `ByKeyAndIPRanges(key, ranges)`, queried
  again after the allocation, in index order (regenerated fact `bindReplyInRequestOrder`).
-/
import Galaxy.Lemmas.PluginMain

namespace Galaxy.Plugin
open Galaxy

/-- regenerated from allocateIP: the annotation's ipinfos are the entries of `ByKeyAndIPRanges(key, requested ranges)`
    (queried again after the allocation), appended in index order, unconditionally -/
theorem fact_bind_reply_in_request_order : Generated.Plugin.bindReplyInRequestOrder = true := by decide

/-- two lists of the same length whose entries are related position by position -/
inductive All₂ {α β : Type} (R : α → β → Prop) : List α → List β → Prop
  | nil : All₂ R [] []
  | cons {a b as bs} : R a b → All₂ R as bs → All₂ R (a :: as) (b :: bs)

theorem All₂.length_eq {α β : Type} {R : α → β → Prop} {as : List α} {bs : List β} (h : All₂ R as bs) :
    as.length = bs.length := by
  induction h with
  | nil => rfl
  | cons _ _ ih => simp [ih]

theorem All₂.imp {α β : Type} {R S : α → β → Prop} {as : List α} {bs : List β} (h : All₂ R as bs)
    (f : ∀ a b, R a b → S a b) : All₂ S as bs := by
  induction h with
  | nil => exact All₂.nil
  | cons hab _ ih => exact All₂.cons (f _ _ hab) ih

/-- entry i of `ByKeyAndIPRanges(key, rss)` is, if any, an address of range list i that the key owns -/
theorem byKeyAndRanges_entry (s : State) (k : Key) : ∀ (rss : List (List (Nat × Nat))), rss ≠ [] →
    All₂ (fun rs o => ∀ ip, o = some ip → ip ∈ enumRanges rs ∧ ownsB s k ip = true) rss (byKeyAndRanges s k rss) := by
  intro rss hne
  unfold byKeyAndRanges
  have : rss.isEmpty = false := by cases rss <;> simp_all
  simp only [this, Bool.false_eq_true, if_false]
  clear hne this
  induction rss with
  | nil => exact All₂.nil
  | cons rs t ih =>
    refine All₂.cons (fun ip h => ?_) ih
    exact ⟨List.mem_of_find?_eq_some h, by simpa using List.find?_some h⟩

/-- a list of entries that are all present, filtered: still one per range list, in order -/
theorem all₂_filterMap_of_all_some {α β : Type} (R : α → β → Prop) : ∀ (as : List α) (os : List (Option β)),
    All₂ (fun a o => ∀ b, o = some b → R a b) as os → (∀ o, o ∈ os → o.isSome = true) →
    All₂ R as (os.filterMap id) := by
  intro as os h
  induction h with
  | nil => intro _; exact All₂.nil
  | @cons a o as' os' hab _ ih =>
    intro hs
    cases ho : o with
    | none => have := hs o (by simp); rw [ho] at this; cases this
    | some b =>
      simp only [List.filterMap_cons, id]
      exact All₂.cons (hab b ho) (ih (fun o' ho' => hs o' (by simp [ho'])))

/-- the range lists still to be served are those whose entry is missing -/
theorem unfoundRanges_map (f : List (Nat × Nat) → Option IP) : ∀ (rss : List (List (Nat × Nat))),
    unfoundRanges (rss.map f) rss = rss.filter (fun rs => (f rs).isNone) := by
  intro rss
  unfold unfoundRanges
  induction rss with
  | nil => rfl
  | cons rs t ih =>
    simp only [List.map_cons, List.zip_cons_cons, List.filterMap_cons, List.filter_cons]
    cases hf : (f rs).isNone with
    | true => simp only [if_true]; rw [ih]
    | false => simp only [Bool.false_eq_true, if_false]; rw [ih]

/-- the picks of `AllocateInSubnetsAndIPRange` serve every range list: each list contains one of them -/
theorem pickRanges_covers (s : State) (n : Subnet) : ∀ (rss : List (List (Nat × Nat))) (acc res : List IP),
    pickRanges s n rss acc = some res →
    (∀ x, x ∈ acc → x ∈ res) ∧ ∀ rs, rs ∈ rss → ∃ ip, ip ∈ res ∧ ip ∈ enumRanges rs := by
  intro rss
  induction rss with
  | nil =>
    intro acc res h
    simp [pickRanges] at h; subst h
    exact ⟨fun _ hx => hx, fun _ h => by cases h⟩
  | cons rs t ih =>
    intro acc res h
    unfold pickRanges at h
    split at h
    · cases h
    · rename_i ip hf
      obtain ⟨h1, h2⟩ := ih (acc ++ [ip]) res h
      refine ⟨fun x hx => h1 x (by simp [hx]), fun rs' hrs' => ?_⟩
      rcases List.mem_cons.mp hrs' with e | hm
      · subst e
        exact ⟨ip, h1 ip (by simp), List.mem_of_find?_eq_some hf⟩
      · exact h2 rs' hm

/-- memory after a successful `AllocateInSubnetsAndIPRange` for a non-empty list of range lists: the picks (one in every
    list, all unallocated before) now belong to the key, nothing else changed -/
theorem allocateInSubnetsAndRanges_ok (s : State) (key : Key) (n : Subnet) (rss : List (List (Nat × Nat))) (a : Attr)
    (ch : Option IP) (h : Coherent s) (hne : rss ≠ [])
    (hok : (allocateInSubnetsAndRanges s key n rss a ch).2 = .ok) :
    ∃ picks : List IP, (∀ rs, rs ∈ rss → ∃ ip, ip ∈ picks ∧ ip ∈ enumRanges rs) ∧
      (∀ ip, ip ∈ picks → Tbl.get s.alloc ip = none) ∧
      ∀ j, Tbl.get (allocateInSubnetsAndRanges s key n rss a ch).1.alloc j =
        if j ∈ picks then some (mkRec key a s.clock) else Tbl.get s.alloc j := by
  have hemp : rss.isEmpty = false := by cases rss <;> simp_all
  revert hok
  unfold allocateInSubnetsAndRanges
  simp only [hemp, Bool.false_eq_true, if_false]
  split
  · intro hok; cases hok
  · rename_i picks hp
    obtain ⟨hfree, hnd⟩ := pickRanges_spec s n rss [] picks hp (by simp) (by simp)
    have hm0 : Mid s s (mkRec key a s.clock) [] := ⟨⟨Frame.refl s, rfl, rfl⟩, fun j => by simp⟩
    have hT : ∀ j, j ∈ picks → Tbl.get s.store j = none ∧ j ∉ ([] : List IP) := fun j hj =>
      ⟨by rw [h.agree]; exact h.disjoint j (hfree j hj), by simp⟩
    have sp := createAll_spec s (mkRec key a s.clock) picks [] s hm0 hT hnd
    split
    · intro hok; cases hok
    · rename_i hc
      intro _
      have hc' : (createAll s (mkRec key a s.clock) [] picks).2 = true := by simpa using hc
      have hm := sp.1 hc'
      refine ⟨picks, (pickRanges_covers s n rss [] picks hp).2, fun ip hip => h.disjoint ip (hfree ip hip), fun j => ?_⟩
      rw [memAllocAll_get, hm.step.alloc]

/-- after the allocation step of a successful Bind every requested range list has its entry -/
theorem bindAlloc_all_some (s : State) (pod : Pod) (node : String) (a : Attr) (pick : Option IP) (h : Coherent s)
    (hne : pod.ranges ≠ [])
    (hok : (bindAlloc s pod node a (byKeyAndRanges s (keyOf pod) pod.ranges) pick).2.1 = .ok) :
    (bindAlloc s pod node a (byKeyAndRanges s (keyOf pod) pod.ranges) pick).2.2 =
      byKeyAndRanges (bindAlloc s pod node a (byKeyAndRanges s (keyOf pod) pod.ranges) pick).1 (keyOf pod) pod.ranges ∧
    ∀ o, o ∈ (bindAlloc s pod node a (byKeyAndRanges s (keyOf pod) pod.ranges) pick).2.2 → o.isSome = true := by
  have hemp : pod.ranges.isEmpty = false := by cases hr : pod.ranges <;> simp_all
  have hinfos : byKeyAndRanges s (keyOf pod) pod.ranges =
      pod.ranges.map (fun rs => (enumRanges rs).find? (ownsB s (keyOf pod))) := by
    unfold byKeyAndRanges; simp [hemp]
  have hinfosNE : (byKeyAndRanges s (keyOf pod) pod.ranges).isEmpty = false := by
    rw [hinfos]; cases hr : pod.ranges <;> simp_all
  revert hok
  unfold bindAlloc
  split
  · rename_i hcond
    split
    · intro hok; cases hok
    · rename_i n hn
      intro hok
      have q := (queryNodeSubnet_quiet s node).1
      have h1 : Coherent (queryNodeSubnet s node).1 := q.coherent h
      have hune : unfoundRanges (byKeyAndRanges s (keyOf pod) pod.ranges) pod.ranges ≠ [] := by
        intro e
        simp [e, hinfosNE] at hcond
      obtain ⟨picks, hcov, hfree, hget⟩ := allocateInSubnetsAndRanges_ok (queryNodeSubnet s node).1 (keyOf pod) n _ a pick h1 hune hok
      refine ⟨rfl, fun o ho => ?_⟩
      dsimp only at ho
      generalize (allocateInSubnetsAndRanges (queryNodeSubnet s node).1 (keyOf pod) n
        (unfoundRanges (byKeyAndRanges s (keyOf pod) pod.ranges) pod.ranges) a pick).1 = S2 at hget ho
      unfold byKeyAndRanges at ho
      simp only [hemp, Bool.false_eq_true, if_false, List.mem_map] at ho
      obtain ⟨rs, hrs, e⟩ := ho
      subst e
      rw [List.find?_isSome]
      cases hf : (enumRanges rs).find? (ownsB s (keyOf pod)) with
      | some ip =>
        -- owned before: still owned
        have hmem := List.mem_of_find?_eq_some hf
        have hown : ownsB s (keyOf pod) ip = true := by simpa using List.find?_some hf
        refine ⟨ip, hmem, ?_⟩
        unfold ownsB at hown ⊢
        rw [hget]
        have hnp : ip ∉ picks := by
          intro hp
          have := hfree ip hp
          rw [q.alloc] at this
          rw [this] at hown; cases hown
        simp only [hnp, if_false]
        rw [q.alloc]; exact hown
      | none =>
        -- not owned before: one of the picks
        have hin : rs ∈ unfoundRanges (byKeyAndRanges s (keyOf pod) pod.ranges) pod.ranges := by
          rw [hinfos, unfoundRanges_map]
          simp [hrs, hf]
        obtain ⟨ip, hp, hm⟩ := hcov rs hin
        refine ⟨ip, hm, ?_⟩
        unfold ownsB
        rw [hget]
        simp [hp, mkRec]
  · rename_i hcond
    intro _
    refine ⟨?_, fun o ho => ?_⟩
    · rfl
    · dsimp only at ho
      have hu : unfoundRanges (byKeyAndRanges s (keyOf pod) pod.ranges) pod.ranges = [] := by
        simp only [Bool.or_eq_true, Bool.not_eq_true', not_or, Bool.not_eq_true] at hcond
        simpa using hcond.1
      rw [hinfos, unfoundRanges_map] at hu
      rw [hinfos] at ho
      simp only [List.mem_map] at ho
      obtain ⟨rs, hrs, e⟩ := ho
      subst e
      have := List.filter_eq_nil_iff.mp hu rs hrs
      cases hf : (enumRanges rs).find? (ownsB s (keyOf pod)) with
      | some _ => rfl
      | none => simp [hf] at this

theorem All₂.map_right {α β γ : Type} {R : α → γ → Prop} (f : β → γ) {as : List α} {bs : List β}
    (h : All₂ (fun a b => R a (f b)) as bs) : All₂ R as (bs.map f) := by
  induction h with
  | nil => exact All₂.nil
  | cons hab _ ih => exact All₂.cons hab ih

theorem toHInfo_ip (s : State) (ip : IP) : (toHInfo s ip).ip = ip := by
  unfold toHInfo; split <;> rfl

/-- a Binding that went through wrote exactly the given addresses, in the given order -/
theorem bindCommitX_ok_ips (s : State) (pod : Pod) (ns name : String) (uid : Nat) (node : String) (ips : List IP)
    (hok : (bindCommitX s pod ns name uid node ips).2.res = .ok) :
    (bindCommitX s pod ns name uid node ips).2.ips = ips.map (toHInfo s) := by
  revert hok
  unfold bindCommitX
  split
  · intro h; cases h
  · unfold bindCommit
    split
    · intro h; cases h
    · split
      · intro h; cases h
      · intro _; rfl

/-- C08, bind-level clause: a pod that requests k range lists and is bound successfully gets a binding annotation with
    exactly k entries in REQUEST ORDER - the i-th entry is an address of the i-th requested range list - whatever subset
    of the lists its key owned before (none, all, a later one without an earlier one, …), whatever the allocation picked
    for the others, whatever the fate of the Binding call, under any fault plan.  (That a live bound pod OWNS the addresses
    of its annotation, under its key and uid, in memory and store, is `inv_owned`; that they are pairwise different
    follows from it for pairwise disjoint lists.) -/
theorem bind_reports_request_order (s : State) (ns name : String) (uid : Nat) (node : String) (ch : Choice) (pod : Pod)
    (h : Coherent s) (hl : Tbl.get s.vPods (ns, name) = some pod) (hne : pod.ranges ≠ [])
    (hok : (bind Facts.good s ns name uid node ch).2.res = .ok) :
    All₂ (fun rs hd => hd.ip ∈ enumRanges rs) pod.ranges (bind Facts.good s ns name uid node ch).2.ips := by
  have hemp : pod.ranges.isEmpty = false := by cases hr : pod.ranges <;> simp_all
  have hbi : bindInfos s pod ch = some (byKeyAndRanges s (keyOf pod) pod.ranges) := by
    unfold bindInfos; simp [hemp]
  generalize hB : bind Facts.good s ns name uid node ch = B at hok ⊢
  unfold bind at hB
  rw [hl] at hB
  dsimp only at hB
  split at hB
  · rw [← hB] at hok; cases hok
  · split at hB
    · rw [← hB] at hok; cases hok
    · rw [hbi] at hB
      dsimp only at hB
      split at hB
      · rw [← hB] at hok; cases hok
      · split at hB
        · rw [← hB] at hok; cases hok
        · rw [← hB] at hok; cases hok
        · rename_i hA
          have sp := bindAlloc_all_some s pod node { policy := policyOf pod, node := node, uid := pod.uid } ch.pick h hne hA
          split at hB
          · rename_i hL
            subst hB
            have e1 := bindFinish_ok_eq _ _ _ _ _ _ _ _ _ hok
            rw [e1] at hok ⊢
            rw [bindCommitX_ok_ips _ _ _ _ _ _ _ hok]
            apply All₂.map_right
            have e := byKeyAndRanges_entry (bindAlloc s pod node { policy := policyOf pod, node := node, uid := pod.uid }
              (byKeyAndRanges s (keyOf pod) pod.ranges) ch.pick).1 (keyOf pod) pod.ranges hne
            rw [← sp.1] at e
            have := all₂_filterMap_of_all_some (fun rs ip => ip ∈ enumRanges rs) _ _ (e.imp (fun _ _ hx ip hip => (hx ip hip).1)) sp.2
            exact this.imp (fun rs ip hx => by rw [toHInfo_ip]; exact hx)
          · rw [← hB] at hok
            rename_i hne'
            exact (hne' hok).elim

/-- ... in particular the annotation has exactly as many entries as range lists were requested -/
theorem bind_reports_one_per_range (s : State) (ns name : String) (uid : Nat) (node : String) (ch : Choice) (pod : Pod)
    (h : Coherent s) (hl : Tbl.get s.vPods (ns, name) = some pod) (hne : pod.ranges ≠ [])
    (hok : (bind Facts.good s ns name uid node ch).2.res = .ok) :
    (bind Facts.good s ns name uid node ch).2.ips.length = pod.ranges.length :=
  (bind_reports_request_order s ns name uid node ch pod h hl hne hok).length_eq.symm

/-- the same after every history within the property's scope, for a Bind under any fault plan -/
theorem bind_reports_request_order_after_history (c : Conf) (ms : List Move) (hok : allAssumed facts (init c) ms = true)
    (ns name : String) (uid : Nat) (node : String) (ch : Choice) (f pf : Nat) (pod : Pod)
    (hl : Tbl.get (run facts (init c) ms).vPods (ns, name) = some pod) (hne : pod.ranges ≠ [])
    (hb : (step facts (run facts (init c) ms) (.bind ns name uid node ch f pf)).2.res = .ok) :
    All₂ (fun rs hd => hd.ip ∈ enumRanges rs) pod.ranges
      (step facts (run facts (init c) ms) (.bind ns name uid node ch f pf)).2.ips := by
  have hf : facts = Facts.good := by decide
  rw [hf] at hok hl hb ⊢
  have hi := inv_withFaults _ f pf (inv_run ms _ (inv_init c) hok)
  exact bind_reports_request_order _ ns name uid node ch pod hi.coh hl hne hb

def rangesPool : Pool := { nodeSubnets := [⟨168362240, 24⟩], ranges := [(168427522, 168427529)], gateway := 168427521, bits := 24, vlan := 0 }
def rangesConf : Conf := { pools := [rangesPool], nodes := [("n1", 168362245)], provider := false }

/-- the first incarnation asks for one range list, the second for that list preceded by a new one -/
def rangesHistory : List Move := [
  .scale .sts "ns1" "a" 2,
  .createPod "ns1" "a-0" .sts "a" "" 2 [[(168427526, 168427527)]] true,
  .listerSync true true,
  .bind "ns1" "a-0" 1 "n1" {} 0 0,
  .deletePod "ns1" "a-0",
  .listerSync true true,
  .deliver 0 0 0,
  .createPod "ns1" "a-0" .sts "a" "" 2 [[(168427522, 168427523)], [(168427526, 168427527)]] true,
  .listerSync true true,
  .bind "ns1" "a-0" 2 "n1" {} 0 0]

set_option maxRecDepth 100000 in
/-- not vacuous: a pod that owns an address of its SECOND range list only is bound with [an address of list 1, the
    owned address of list 2] - request order, not "reused first" -/
theorem bind_reports_request_order_example :
    allAssumed facts (init rangesConf) rangesHistory = true ∧
    ((run facts (init rangesConf) rangesHistory).pods.get ("ns1", "a-0")).map (·.ips) = some [168427522, 168427526] := by
  decide

end Galaxy.Plugin
