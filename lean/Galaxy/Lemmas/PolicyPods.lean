/-
  Lemmas about the synchronisation part of model M7 (C15), part 5: SyncPodChains and the loop over the pods.
  Table-level library (keys, entries, references), then the view-level specification of one SyncPodChains call under
  the invariant `PodInv`, then the induction over the pod list.
-/
import Galaxy.Lemmas.PolicySyncSets

namespace Galaxy.Policy

/-! ### keys and entries of a table under the chain updates -/

theorem keys_map_upd (t : Table) (c : Chain) (rs : List PRule) :
    Tbl.keys (t.map (fun kv => if kv.1 = c then (kv.1, rs) else kv)) = Tbl.keys t := by
  induction t with
  | nil => rfl
  | cons x t ih =>
    simp only [Tbl.keys, List.map_cons] at ih ⊢
    by_cases h : x.1 = c <;> simp [h, ih]

theorem not_mem_keys_of_get_none {t : Table} {c : Chain} (h : Tbl.get t c = none) : c ∉ Tbl.keys t := by
  intro hm
  have := Tbl.get_isSome_of_mem_keys hm
  rw [h] at this; cases this

theorem nodup_setChain (t : Table) (c : Chain) (rs : List PRule) (h : (Tbl.keys t).Nodup) :
    (Tbl.keys (setChain t c rs)).Nodup := by
  unfold setChain chainExists
  cases hg : Tbl.get t c with
  | none =>
    simp only [Option.isSome_none, Bool.false_eq_true, if_false, Tbl.keys, List.map_append, List.map_cons, List.map_nil]
    have hn := not_mem_keys_of_get_none hg
    simp only [Tbl.keys] at hn h
    rw [List.nodup_append]
    exact ⟨h, by simp, fun a ha b hb => by simp at hb; subst hb; exact fun e => hn (e ▸ ha)⟩
  | some v =>
    simp only [Option.isSome_some, if_true]
    rw [keys_map_upd]; exact h

theorem keys_erase (t : Table) (c : Chain) : Tbl.keys (Tbl.erase t c) = (Tbl.keys t).filter (fun x => x != c) := by
  induction t with
  | nil => rfl
  | cons x t ih =>
    obtain ⟨k, v⟩ := x
    simp only [Tbl.keys] at ih ⊢
    by_cases h : k = c <;> simp [Tbl.erase, h, ih, List.filter_cons]

theorem nodup_erase (t : Table) (c : Chain) (h : (Tbl.keys t).Nodup) : (Tbl.keys (Tbl.erase t c)).Nodup := by
  rw [keys_erase]; exact nodup_filter' _ h

/-- with distinct chain names an entry of the table is what `get` returns -/
theorem get_of_mem {t : Table} (h : (Tbl.keys t).Nodup) {c : Chain} {rs : List PRule} (hm : (c, rs) ∈ t) :
    Tbl.get t c = some rs := by
  induction t with
  | nil => cases hm
  | cons x t ih =>
    obtain ⟨k, v⟩ := x
    simp only [Tbl.keys, List.map_cons, List.nodup_cons] at h
    rcases List.mem_cons.mp hm with e | hm'
    · cases e; simp [Tbl.get]
    · have hk : k ≠ c := by
        intro e; subst e
        exact h.1 (List.mem_map.mpr ⟨(k, rs), hm', rfl⟩)
      simp only [Tbl.get, hk, if_false]
      exact ih h.2 hm'

/-- a chain is referenced iff some chain holds a rule that jumps to it -/
theorem referenced_iff {t : Table} (h : (Tbl.keys t).Nodup) (pc : Chain) :
    chainReferenced t pc = true ↔ ∃ c rs, Tbl.get t c = some rs ∧ ∃ r ∈ rs, r.jumpsTo pc = true := by
  unfold chainReferenced
  simp only [List.any_eq_true]
  constructor
  · rintro ⟨⟨c, rs⟩, hm, r, hr, hj⟩
    exact ⟨c, rs, get_of_mem h hm, r, hr, hj⟩
  · rintro ⟨c, rs, hg, r, hr, hj⟩
    exact ⟨(c, rs), Tbl.get_mem hg, r, hr, hj⟩

/-- the rules of a hook chain (a missing chain has none) -/
def hooks (t : Table) (c : Chain) : List PRule := (Tbl.get t c).getD []

theorem chainExists_iff {t : Table} {c : Chain} : chainExists t c = true ↔ ∃ rs, Tbl.get t c = some rs := by
  unfold chainExists
  cases Tbl.get t c <;> simp

/-! ### the primitive commands when their references exist -/

theorem checkRefs_jump (k : Kern) (t : Table) (r : PRule) (c : Chain) (ht : r.tgt = .jump c) (hs : r.setRefs = [])
    (he : chainExists t c = true) (hp : r.portsOK = true) : checkRefs k t r = none := by
  simp [checkRefs, ht, hs, he, hp]

theorem checkRefs_plain (k : Kern) (t : Table) (r : PRule) (hs : r.setRefs = []) (ht : ∀ c, r.tgt ≠ .jump c)
    (hp : r.portsOK = true) : checkRefs k t r = none := by
  unfold checkRefs
  cases hr : r.tgt with
  | jump c => exact absurd hr (ht c)
  | _ => simp [hs, hp]

theorem ensureRule_ok (k : Kern) (prepend : Bool) (c : Chain) (r : PRule) (rs : List PRule)
    (hc : checkRefs k k.tbl r = none) (hg : Tbl.get k.tbl c = some rs) :
    (ensureRule k prepend c r).2 = [] ∧ (ensureRule k prepend c r).1.sets = k.sets ∧
    (ensureRule k prepend c r).1.tbl =
      if rs.contains r then k.tbl else setChain k.tbl c (if prepend then r :: rs else rs ++ [r]) := by
  unfold ensureRule
  simp only [hc, hg]
  split <;> simp

theorem deleteRule_ok (k : Kern) (c : Chain) (r : PRule) (hc : checkRefs k k.tbl r = none) :
    (deleteRule k c r).2 = [] ∧ (deleteRule k c r).1.sets = k.sets ∧
    (deleteRule k c r).1.tbl =
      match Tbl.get k.tbl c with
      | none => k.tbl
      | some rs => setChain k.tbl c (rs.erase r) := by
  unfold deleteRule
  simp only [hc]
  cases Tbl.get k.tbl c <;> simp [eraseFirst]

theorem hooks_setChain (t : Table) (c c' : Chain) (rs : List PRule) :
    hooks (setChain t c rs) c' = if c' = c then rs else hooks t c' := by
  unfold hooks; rw [get_setChain]; by_cases e : c' = c <;> simp [e]

theorem chainExists_setChain' (t : Table) (c c' : Chain) (rs : List PRule) :
    chainExists (setChain t c rs) c' = (decide (c' = c) || chainExists t c') := by
  unfold chainExists; rw [get_setChain]; by_cases e : c' = c <;> simp [e]

theorem chainExists_erase (t : Table) (c c' : Chain) :
    chainExists (Tbl.erase t c) c' = (!decide (c = c') && chainExists t c') := by
  unfold chainExists; rw [Tbl.get_erase]; by_cases e : c = c' <;> simp [e]

/-! ### ensureBasicChain -/

/-- relation between the table before ensureBasicChain's EnsureRule steps and a table reached by some of them -/
structure BaseRel (t0 t : Table) : Prop where
  keys : (Tbl.keys t).Nodup
  other : ∀ c, c.isBuiltin = false → Tbl.get t c = Tbl.get t0 c
  builtin : ∀ b, b.isBuiltin = true → ∀ rs0, Tbl.get t0 b = some rs0 →
    ∃ rs, Tbl.get t b = some rs ∧ (∀ r ∈ rs0, r ∈ rs) ∧ ∀ r ∈ rs, r ∈ rs0 ∨ glxBaseRules.contains (b, r) = true

theorem baseRules_shape : ∀ cr ∈ glxBaseRules, cr.1.isBuiltin = true ∧ cr.2.setRefs = [] ∧
    (cr.2.tgt = .jump .glxIngress ∨ cr.2.tgt = .jump .glxEgress) := by
  decide

theorem baseRules_ports : ∀ cr ∈ glxBaseRules, cr.2.portsOK = true := by decide

theorem ensureBase_step (k0 k : Kern) (cr : Chain × PRule) (hcr : cr ∈ glxBaseRules)
    (hrel : BaseRel k0.tbl k.tbl) (hb : ∀ b, b.isBuiltin = true → chainExists k0.tbl b = true)
    (hg : chainExists k0.tbl .glxIngress = true ∧ chainExists k0.tbl .glxEgress = true) :
    (ensureRule k true cr.1 cr.2).2 = [] ∧ (ensureRule k true cr.1 cr.2).1.sets = k.sets ∧
    BaseRel k0.tbl (ensureRule k true cr.1 cr.2).1.tbl ∧
    ∃ rs, Tbl.get (ensureRule k true cr.1 cr.2).1.tbl cr.1 = some rs ∧ cr.2 ∈ rs := by
  obtain ⟨hbi, hsr, htg⟩ := baseRules_shape cr hcr
  obtain ⟨rs0, hrs0⟩ := chainExists_iff.mp (hb cr.1 hbi)
  obtain ⟨rs, hrs, hsub, hsup⟩ := hrel.builtin cr.1 hbi rs0 hrs0
  have hex : ∀ g, (g = Chain.glxIngress ∨ g = Chain.glxEgress) → chainExists k.tbl g = true := by
    intro g hgg
    unfold chainExists
    rw [hrel.other g (by rcases hgg with rfl | rfl <;> rfl)]
    rcases hgg with rfl | rfl
    · exact hg.1
    · exact hg.2
  have hc : checkRefs k k.tbl cr.2 = none := by
    rcases htg with h | h
    · exact checkRefs_jump k k.tbl cr.2 _ h hsr (hex _ (Or.inl rfl)) (baseRules_ports cr hcr)
    · exact checkRefs_jump k k.tbl cr.2 _ h hsr (hex _ (Or.inr rfl)) (baseRules_ports cr hcr)
  obtain ⟨e1, e2, e3⟩ := ensureRule_ok k true cr.1 cr.2 rs hc hrs
  refine ⟨e1, e2, ?_, ?_⟩
  · rw [e3]
    by_cases hcont : rs.contains cr.2 = true
    · simp only [hcont, if_true]; exact hrel
    · simp only [hcont, Bool.false_eq_true, if_false, if_true]
      refine ⟨nodup_setChain _ _ _ hrel.keys, ?_, ?_⟩
      · intro c hc'
        rw [get_setChain]
        have : c ≠ cr.1 := fun e => by rw [e, hbi] at hc'; cases hc'
        simp [this, hrel.other c hc']
      · intro b hbb rsb hrsb
        rw [get_setChain]
        by_cases e : b = cr.1
        · subst e
          rw [hrs0] at hrsb; cases hrsb
          refine ⟨cr.2 :: rs, by simp, fun r hr => List.mem_cons_of_mem _ (hsub r hr), ?_⟩
          intro r hr
          rcases List.mem_cons.mp hr with rfl | hr'
          · right; exact List.contains_iff_mem.mpr hcr
          · exact hsup r hr'
        · simp only [e, if_false]
          exact hrel.builtin b hbb rsb hrsb
  · rw [e3]
    by_cases hcont : rs.contains cr.2 = true
    · simp only [hcont, if_true]; exact ⟨rs, hrs, List.contains_iff_mem.mp hcont⟩
    · simp only [hcont, Bool.false_eq_true, if_false, if_true]
      exact ⟨cr.2 :: rs, by rw [get_setChain]; simp, by simp⟩

theorem ensureChainK_spec (k : Kern) (c : Chain) (hk : (Tbl.keys k.tbl).Nodup) :
    (ensureChainK k c).sets = k.sets ∧ (Tbl.keys (ensureChainK k c).tbl).Nodup ∧
    chainExists (ensureChainK k c).tbl c = true ∧
    (∀ c', c' ≠ c → Tbl.get (ensureChainK k c).tbl c' = Tbl.get k.tbl c') ∧
    hooks (ensureChainK k c).tbl c = hooks k.tbl c := by
  unfold ensureChainK
  by_cases h : chainExists k.tbl c = true
  · rw [if_pos h]
    exact ⟨rfl, hk, h, fun _ _ => rfl, rfl⟩
  · rw [if_neg h]
    refine ⟨rfl, nodup_setChain _ _ _ hk, by rw [chainExists_setChain']; simp, ?_, ?_⟩
    · intro c' hne; rw [get_setChain]; simp [hne]
    · rw [hooks_setChain]; simp only [if_true]
      unfold hooks
      have : Tbl.get k.tbl c = none := by
        unfold chainExists at h
        cases hg : Tbl.get k.tbl c with
        | none => rfl
        | some v => simp [hg] at h
      rw [this]; rfl

/-- ensureBasicChain on a table with distinct chain names and the built-in chains: never fails, creates the two hook
    chains if missing (their rules are unchanged), leaves every other user chain alone, and only ADDS the four
    documented jumps to the built-in chains -/
theorem ensureBasic_spec (k : Kern) (hk : (Tbl.keys k.tbl).Nodup)
    (hb : ∀ b, b.isBuiltin = true → chainExists k.tbl b = true) :
    (ensureBasic k).2 = [] ∧ (ensureBasic k).1.sets = k.sets ∧ (Tbl.keys (ensureBasic k).1.tbl).Nodup ∧
    chainExists (ensureBasic k).1.tbl .glxIngress = true ∧ chainExists (ensureBasic k).1.tbl .glxEgress = true ∧
    (∀ c, c.isBuiltin = false → c ≠ .glxIngress → c ≠ .glxEgress → Tbl.get (ensureBasic k).1.tbl c = Tbl.get k.tbl c) ∧
    hooks (ensureBasic k).1.tbl .glxIngress = hooks k.tbl .glxIngress ∧
    hooks (ensureBasic k).1.tbl .glxEgress = hooks k.tbl .glxEgress ∧
    (∀ b, b.isBuiltin = true → ∀ rs0, Tbl.get k.tbl b = some rs0 →
      ∃ rs, Tbl.get (ensureBasic k).1.tbl b = some rs ∧ (∀ r ∈ rs0, r ∈ rs) ∧
        (∀ r ∈ rs, r ∈ rs0 ∨ glxBaseRules.contains (b, r) = true) ∧
        ∀ r, (b, r) ∈ glxBaseRules → r ∈ rs) := by
  obtain ⟨s1, n1, x1, o1, h1⟩ := ensureChainK_spec k .glxIngress hk
  obtain ⟨s2, n2, x2, o2, h2⟩ := ensureChainK_spec (ensureChainK k .glxIngress) .glxEgress n1
  generalize hk1 : ensureChainK (ensureChainK k .glxIngress) .glxEgress = k1 at *
  have hx1 : chainExists k1.tbl .glxIngress = true := by
    unfold chainExists; rw [o2 .glxIngress (by decide)]; exact x1
  have hb1 : ∀ b, b.isBuiltin = true → chainExists k1.tbl b = true := by
    intro b hbb; unfold chainExists
    rw [o2 b (by intro e; subst e; cases hbb), o1 b (by intro e; subst e; cases hbb)]
    exact hb b hbb
  -- the fold over the four base rules
  have fold : ∀ (l : List (Chain × PRule)) (acc : Kern × List Fail), (∀ cr ∈ l, cr ∈ glxBaseRules) →
      acc.2 = [] → acc.1.sets = k1.sets → BaseRel k1.tbl acc.1.tbl →
      let res := l.foldl (fun (acc : Kern × List Fail) cr =>
        ((ensureRule acc.1 true cr.1 cr.2).1, acc.2 ++ (ensureRule acc.1 true cr.1 cr.2).2)) acc
      res.2 = [] ∧ res.1.sets = k1.sets ∧ BaseRel k1.tbl res.1.tbl ∧
      ∀ cr ∈ l, ∃ rs, Tbl.get res.1.tbl cr.1 = some rs ∧ cr.2 ∈ rs := by
    intro l
    induction l with
    | nil => intro acc _ h1 h2 h3; exact ⟨h1, h2, h3, fun _ h => (by cases h)⟩
    | cons cr rest ih =>
      intro acc hl hf hs hrel
      obtain ⟨e1, e2, e3, e4⟩ := ensureBase_step k1 acc.1 cr (hl cr (List.mem_cons_self ..)) hrel hb1 ⟨hx1, x2⟩
      simp only [List.foldl_cons]
      obtain ⟨r1, r2, r3, r4⟩ := ih ((ensureRule acc.1 true cr.1 cr.2).1, acc.2 ++ (ensureRule acc.1 true cr.1 cr.2).2)
        (fun x hx => hl x (List.mem_cons_of_mem _ hx)) (by simp [hf, e1]) (by simpa [hs] using e2) e3
      refine ⟨r1, r2, r3, ?_⟩
      intro x hx
      rcases List.mem_cons.mp hx with rfl | hx'
      · -- present after its own step, and later steps only add to the built-in chains
        obtain ⟨rs, hrs, hmem⟩ := e4
        obtain ⟨hbi, _, _⟩ := baseRules_shape x (hl x (List.mem_cons_self ..))
        -- r3 relates k1 to the end; relate the intermediate table through a second BaseRel from it
        have : ∀ (l : List (Chain × PRule)) (a : Kern × List Fail), (∀ cr ∈ l, cr ∈ glxBaseRules) →
            (∃ rs, Tbl.get a.1.tbl x.1 = some rs ∧ x.2 ∈ rs) → BaseRel k1.tbl a.1.tbl →
            ∃ rs, Tbl.get (l.foldl (fun (acc : Kern × List Fail) cr =>
              ((ensureRule acc.1 true cr.1 cr.2).1, acc.2 ++ (ensureRule acc.1 true cr.1 cr.2).2)) a).1.tbl x.1 = some rs ∧ x.2 ∈ rs := by
          intro l
          induction l with
          | nil => intro a _ h _; exact h
          | cons y ys ihy =>
            intro a hly hpres hrela
            simp only [List.foldl_cons]
            obtain ⟨_, _, f3, _⟩ := ensureBase_step k1 a.1 y (hly y (List.mem_cons_self ..)) hrela hb1 ⟨hx1, x2⟩
            apply ihy ((ensureRule a.1 true y.1 y.2).1, a.2 ++ (ensureRule a.1 true y.1 y.2).2)
              (fun z hz => hly z (List.mem_cons_of_mem _ hz)) _ f3
            obtain ⟨rsa, hrsa, hma⟩ := hpres
            obtain ⟨ybi, ysr, ytg⟩ := baseRules_shape y (hly y (List.mem_cons_self ..))
            obtain ⟨rsy0, hrsy0⟩ := chainExists_iff.mp (hb1 y.1 ybi)
            obtain ⟨rsy, hrsy, _, _⟩ := hrela.builtin y.1 ybi rsy0 hrsy0
            have hcy : checkRefs a.1 a.1.tbl y.2 = none := by
              have hex : ∀ g, (g = Chain.glxIngress ∨ g = Chain.glxEgress) → chainExists a.1.tbl g = true := by
                intro g hgg; unfold chainExists
                rw [hrela.other g (by rcases hgg with rfl | rfl <;> rfl)]
                rcases hgg with rfl | rfl
                · exact hx1
                · exact x2
              rcases ytg with h | h
              · exact checkRefs_jump _ _ _ _ h ysr (hex _ (Or.inl rfl)) (baseRules_ports y (hly y (List.mem_cons_self ..)))
              · exact checkRefs_jump _ _ _ _ h ysr (hex _ (Or.inr rfl)) (baseRules_ports y (hly y (List.mem_cons_self ..)))
            obtain ⟨_, _, t3⟩ := ensureRule_ok a.1 true y.1 y.2 rsy hcy hrsy
            simp only
            rw [t3]
            by_cases hcont : rsy.contains y.2 = true
            · simp only [hcont, if_true]; exact ⟨rsa, hrsa, hma⟩
            · simp only [hcont, Bool.false_eq_true, if_false, if_true]
              rw [get_setChain]
              by_cases e : x.1 = y.1
              · rw [e] at hrsa; rw [hrsy] at hrsa; cases hrsa
                simp only [e, if_true]; exact ⟨_, rfl, List.mem_cons_of_mem _ hma⟩
              · simp only [e, if_false]; exact ⟨rsa, hrsa, hma⟩
        exact this rest _ (fun z hz => hl z (List.mem_cons_of_mem _ hz)) ⟨rs, hrs, hmem⟩ e3
      · exact r4 x hx'
  have hrel0 : BaseRel k1.tbl k1.tbl := by
    refine ⟨n2, fun _ _ => rfl, ?_⟩
    intro b _ rs0 h0
    exact ⟨rs0, h0, fun _ h => h, fun _ h => Or.inl h⟩
  obtain ⟨f1, f2, f3, f4⟩ := fold glxBaseRules (k1, []) (fun _ h => h) rfl rfl hrel0
  unfold ensureBasic
  rw [hk1]
  refine ⟨f1, by rw [f2, s2, s1], f3.keys, ?_, ?_, ?_, ?_, ?_, ?_⟩
  · unfold chainExists; rw [f3.other _ rfl]; exact hx1
  · unfold chainExists; rw [f3.other _ rfl]; exact x2
  · intro c hc hi he
    rw [f3.other c hc, o2 c he, o1 c hi]
  · unfold hooks; rw [f3.other _ rfl]
    have : hooks k1.tbl .glxIngress = hooks k.tbl .glxIngress := by
      unfold hooks; rw [o2 .glxIngress (by decide)]; exact h1
    exact this
  · unfold hooks; rw [f3.other _ rfl]
    have : hooks k1.tbl .glxEgress = hooks k.tbl .glxEgress := by
      rw [h2]; unfold hooks; rw [o1 .glxEgress (by decide)]
    exact this
  · intro b hbb rs0 hrs0
    have hk1b : Tbl.get k1.tbl b = some rs0 := by
      rw [o2 b (by intro e; subst e; cases hbb), o1 b (by intro e; subst e; cases hbb)]; exact hrs0
    obtain ⟨rs, hrs, hsub, hsup⟩ := f3.builtin b hbb rs0 hk1b
    refine ⟨rs, hrs, hsub, hsup, ?_⟩
    intro r hr
    obtain ⟨rs', hrs', hm⟩ := f4 (b, r) hr
    simp only at hrs'
    rw [hrs] at hrs'; cases hrs'; exact hm

/-! ### the pod-chain batch -/

theorem apps_ok' (k : Kern) (c : Chain) (rs : List PRule) (t : Table) (hc : chainExists t c = true)
    (hrs : ∀ r ∈ rs, r.setRefs = [] ∧ ∀ c', r.tgt = .jump c' → chainExists t c' = true) (hn : (Tbl.keys t).Nodup)
    (hpo : ∀ r ∈ rs, r.portsOK = true) :
    ∃ t', (rs.map (Cmd.app c)).foldlM (applyCmd k) t = .ok t' ∧ (Tbl.keys t').Nodup ∧
      ∀ c', Tbl.get t' c' = if c' = c then (Tbl.get t c).map (· ++ rs) else Tbl.get t c' := by
  induction rs generalizing t with
  | nil =>
    refine ⟨t, rfl, hn, fun c' => ?_⟩
    by_cases e : c' = c <;> simp [e]
  | cons r rest ih =>
    obtain ⟨old, hold⟩ := chainExists_iff.mp hc
    obtain ⟨hsr, htg⟩ := hrs r (List.mem_cons_self ..)
    have hcr : checkRefs k t r = none := by
      cases hr : r.tgt with
      | jump c' => exact checkRefs_jump k t r c' hr hsr (htg c' hr) (hpo r (List.mem_cons_self ..))
      | accept => exact checkRefs_plain k t r hsr (by intro c' e; rw [hr] at e; cases e) (hpo r (List.mem_cons_self ..))
      | drop => exact checkRefs_plain k t r hsr (by intro c' e; rw [hr] at e; cases e) (hpo r (List.mem_cons_self ..))
      | ret => exact checkRefs_plain k t r hsr (by intro c' e; rw [hr] at e; cases e) (hpo r (List.mem_cons_self ..))
    have hstep : applyCmd k t (.app c r) = .ok (setChain t c (old ++ [r])) := by
      simp [applyCmd, hcr, hold]
    obtain ⟨t', h1, h2, h3⟩ := ih (setChain t c (old ++ [r])) (by rw [chainExists_setChain']; simp)
      (fun x hx => ⟨(hrs x (List.mem_cons_of_mem _ hx)).1, fun c' hc' => by
        rw [chainExists_setChain', (hrs x (List.mem_cons_of_mem _ hx)).2 c' hc']; simp⟩)
      (nodup_setChain _ _ _ hn) (fun x hx => hpo x (List.mem_cons_of_mem _ hx))
    refine ⟨t', ?_, h2, ?_⟩
    · simp only [List.map_cons, List.foldlM_cons, hstep]; exact h1
    · intro c'
      rw [h3 c']
      by_cases e : c' = c
      · subst e; rw [get_setChain]; simp [hold]
      · simp only [e, if_false]; rw [get_setChain]; simp [e]

/-- the batch of SyncPodChains (declare = create or flush the chain, append its rules) succeeds whenever the jump
    targets of the rules exist, and then the chain holds exactly the rules; nothing else changes -/
theorem podBatch_spec (k : Kern) (pc : Chain) (rules : List PRule) (hb : pc.isBuiltin = false)
    (hn : (Tbl.keys k.tbl).Nodup)
    (hrs : ∀ r ∈ rules, r.setRefs = [] ∧ ∀ c', r.tgt = .jump c' → chainExists k.tbl c' = true)
    (hpo : ∀ r ∈ rules, r.portsOK = true) :
    ∃ t2, restore k (Cmd.decl pc :: rules.map (Cmd.app pc)) = .ok t2 ∧ (Tbl.keys t2).Nodup ∧
      ∀ c', Tbl.get t2 c' = if c' = pc then some rules else Tbl.get k.tbl c' := by
  obtain ⟨t2, h1, h2, h3⟩ := apps_ok' k pc rules (setChain k.tbl pc []) (by rw [chainExists_setChain']; simp)
    (fun r hr => ⟨(hrs r hr).1, fun c' hc' => by rw [chainExists_setChain', (hrs r hr).2 c' hc']; simp⟩)
    (nodup_setChain _ _ _ hn) hpo
  refine ⟨t2, ?_, h2, ?_⟩
  · unfold restore
    simp only [List.foldlM_cons, applyCmd_decl k k.tbl pc hb]
    exact h1
  · intro c'
    rw [h3 c']
    by_cases e : c' = pc
    · subst e; rw [get_setChain]; simp
    · simp only [e, if_false]; rw [get_setChain]; simp [e]

theorem podChain_ports (ps : List NetPol) (q : Pod) : ∀ r ∈ podChain ps q, r.portsOK = true := by
  intro r hr
  simp only [podChain, List.mem_cons, List.mem_append, List.mem_map, List.mem_filter] at hr
  rcases hr with rfl | ⟨p, _, rfl⟩ | rfl | hr
  · rfl
  · rfl
  · rfl
  · cases hr

theorem hookRule_ports {d : Bool} {q : Pod} {r : PRule} (h : hookRule d q = [r]) : r.portsOK = true := by
  unfold hookRule at h
  cases hip : q.ip with
  | none => simp [hip] at h
  | some a =>
    simp only [hip, List.cons.injEq, and_true] at h
    subst h
    cases d <;> rfl

theorem podChain_rules (ps : List NetPol) (q : Pod) :
    ∀ r ∈ podChain ps q, r.setRefs = [] ∧ ∀ c', r.tgt = .jump c' → ∃ p ∈ ps, c' = .plcy p.hash := by
  intro r hr
  simp only [podChain, List.mem_cons, List.mem_append, List.mem_map, List.mem_filter, List.mem_singleton] at hr
  rcases hr with rfl | ⟨p, ⟨hp, _⟩, rfl⟩ | rfl | hr
  · exact ⟨rfl, fun c' h => by cases h⟩
  · exact ⟨rfl, fun c' h => ⟨p, hp, by injection h with h; exact h.symm⟩⟩
  · exact ⟨rfl, fun c' h => by cases h⟩
  · cases hr

/-! ### the invariant of the loop over the pods, and what one SyncPodChains call does to it -/

/-- selected in some direction and with an address: the pods for which chains / hooks are installed -/
def activePod (ps : List NetPol) (q : Pod) : Bool := q.ip.isSome && (hookedIngress ps q || hookedEgress ps q)

/-- kernel-table invariant of syncPods (L = the pods of the cluster on this node): distinct chain names, built-in
    chains and all policy chains present, every GLX-POD chain belongs to a pod of L with an address, every hook rule
    is the canonical hook of a pod of L (with its CURRENT address) whose chain exists, no hook twice, and nothing but
    the two hook chains jumps to a pod chain -/
structure PodInv (ps : List NetPol) (L : List Pod) (t : Table) : Prop where
  keys : (Tbl.keys t).Nodup
  builtin : ∀ b, b.isBuiltin = true → chainExists t b = true
  plcy : ∀ p ∈ ps, chainExists t (.plcy p.hash) = true
  podchains : ∀ h, chainExists t (.pod h) = true → ∃ q ∈ L, q.hash = h ∧ q.ip.isSome = true
  hooksI : ∀ r ∈ hooks t .glxIngress, ∃ q ∈ L, hookRule true q = [r] ∧ chainExists t (.pod q.hash) = true
  hooksE : ∀ r ∈ hooks t .glxEgress, ∃ q ∈ L, hookRule false q = [r] ∧ chainExists t (.pod q.hash) = true
  nodupI : (hooks t .glxIngress).Nodup
  nodupE : (hooks t .glxEgress).Nodup
  refs : ∀ cn rs, Tbl.get t cn = some rs → cn ≠ .glxIngress → cn ≠ .glxEgress →
    ∀ r ∈ rs, ∀ h, r.jumpsTo (.pod h) = false

/-- the pod's own pieces are as compiled -/
def PodOK (ps : List NetPol) (t : Table) (q : Pod) : Prop :=
  Tbl.get t (.pod q.hash) = (if activePod ps q then some (podChain ps q) else none) ∧
  (∀ r, hookRule true q = [r] → (r ∈ hooks t .glxIngress ↔ hookedIngress ps q = true)) ∧
  (∀ r, hookRule false q = [r] → (r ∈ hooks t .glxEgress ↔ hookedEgress ps q = true))

/-- what one SyncPodChains call for q does, at the level of the views -/
structure PodStep (ps : List NetPol) (q : Pod) (t t' : Table) : Prop where
  keys : (Tbl.keys t').Nodup
  other : ∀ c, c ≠ .glxIngress → c ≠ .glxEgress → c ≠ .pod q.hash → c.isBuiltin = false → Tbl.get t' c = Tbl.get t c
  builtin : ∀ b, b.isBuiltin = true → ∀ rs0, Tbl.get t b = some rs0 →
    ∃ rs, Tbl.get t' b = some rs ∧ ∀ r ∈ rs, r ∈ rs0 ∨ glxBaseRules.contains (b, r) = true
  pod : Tbl.get t' (.pod q.hash) = (if activePod ps q then some (podChain ps q) else none)
  hkI : ∀ r, r ∈ hooks t' .glxIngress ↔
    (hookRule true q = [r] ∧ hookedIngress ps q = true) ∨ (hookRule true q ≠ [r] ∧ r ∈ hooks t .glxIngress)
  hkE : ∀ r, r ∈ hooks t' .glxEgress ↔
    (hookRule false q = [r] ∧ hookedEgress ps q = true) ∨ (hookRule false q ≠ [r] ∧ r ∈ hooks t .glxEgress)
  ndI : (hooks t' .glxIngress).Nodup
  ndE : (hooks t' .glxEgress).Nodup

theorem hookRule_tgt {d : Bool} {q : Pod} {r : PRule} (h : hookRule d q = [r]) :
    r.tgt = .jump (.pod q.hash) ∧ r.setRefs = [] ∧ q.ip.isSome = true := by
  unfold hookRule at h
  cases hip : q.ip with
  | none => simp [hip] at h
  | some a =>
    simp only [hip, List.cons.injEq, and_true] at h
    subst h
    cases d <;> simp [PRule.setRefs]

theorem jumpsTo_iff (r : PRule) (c : Chain) : r.jumpsTo c = true ↔ r.tgt = .jump c := by
  simp [PRule.jumpsTo]

theorem baseRule_no_pod (b : Chain) (r : PRule) (h : glxBaseRules.contains (b, r) = true) (hh : String) :
    r.jumpsTo (.pod hh) = false := by
  have hm := List.contains_iff_mem.mp h
  simp only [glxBaseRules, List.mem_cons, Prod.mk.injEq, List.mem_nil_iff, or_false] at hm
  rcases hm with ⟨_, rfl⟩ | ⟨_, rfl⟩ | ⟨_, rfl⟩ | ⟨_, rfl⟩ <;> simp [PRule.jumpsTo]

/-- consequences of a step: the invariant is kept, q's pieces are as compiled, the other pods' pieces are untouched -/
theorem PodStep.inv {ps : List NetPol} {L : List Pod} {q : Pod} {t t' : Table} (st : PodStep ps q t t')
    (inv : PodInv ps L t) (hq : q ∈ L) (hL : (L.map (·.hash)).Nodup) : PodInv ps L t' := by
  have hplcy : ∀ p ∈ ps, Tbl.get t' (.plcy p.hash) = Tbl.get t (.plcy p.hash) :=
    fun p _ => st.other _ (by simp) (by simp) (by simp) rfl
  have hpodother : ∀ h, h ≠ q.hash → Tbl.get t' (.pod h) = Tbl.get t (.pod h) :=
    fun h hne => st.other _ (by simp) (by simp) (by simp [hne]) rfl
  have hactive : ∀ {d r}, hookRule d q = [r] → (if d then hookedIngress ps q else hookedEgress ps q) = true →
      chainExists t' (.pod q.hash) = true := by
    intro d r hr hh
    have hip := (hookRule_tgt hr).2.2
    have : activePod ps q = true := by
      cases d <;> simp_all [activePod]
    unfold chainExists; rw [st.pod, this]; rfl
  refine ⟨st.keys, ?_, ?_, ?_, ?_, ?_, st.ndI, st.ndE, ?_⟩
  · intro b hb
    obtain ⟨rs0, h0⟩ := chainExists_iff.mp (inv.builtin b hb)
    obtain ⟨rs, h1, _⟩ := st.builtin b hb rs0 h0
    exact chainExists_iff.mpr ⟨rs, h1⟩
  · intro p hp
    unfold chainExists; rw [hplcy p hp]; exact inv.plcy p hp
  · intro h hex
    by_cases e : h = q.hash
    · subst e
      unfold chainExists at hex
      rw [st.pod] at hex
      cases ha : activePod ps q
      · simp [ha] at hex
      · refine ⟨q, hq, rfl, ?_⟩
        simp only [activePod, Bool.and_eq_true] at ha; exact ha.1
    · unfold chainExists at hex; rw [hpodother h e] at hex
      exact inv.podchains h hex
  · intro r hr
    rcases (st.hkI r).mp hr with ⟨h1, h2⟩ | ⟨h1, h2⟩
    · exact ⟨q, hq, h1, hactive (d := true) h1 h2⟩
    · obtain ⟨q2, hq2, hr2, hex2⟩ := inv.hooksI r h2
      refine ⟨q2, hq2, hr2, ?_⟩
      have hne : q2.hash ≠ q.hash := by
        intro e
        have : q2 = q := inj_of_nodup_map (·.hash) hL hq2 hq e
        subst this; exact h1 hr2
      unfold chainExists; rw [hpodother _ hne]; exact hex2
  · intro r hr
    rcases (st.hkE r).mp hr with ⟨h1, h2⟩ | ⟨h1, h2⟩
    · exact ⟨q, hq, h1, hactive (d := false) h1 h2⟩
    · obtain ⟨q2, hq2, hr2, hex2⟩ := inv.hooksE r h2
      refine ⟨q2, hq2, hr2, ?_⟩
      have hne : q2.hash ≠ q.hash := by
        intro e
        have : q2 = q := inj_of_nodup_map (·.hash) hL hq2 hq e
        subst this; exact h1 hr2
      unfold chainExists; rw [hpodother _ hne]; exact hex2
  · intro cn rs hg hi he r hr hh
    by_cases e1 : cn = .pod q.hash
    · subst e1
      rw [st.pod] at hg
      cases ha : activePod ps q
      · simp [ha] at hg
      · simp only [ha, if_true, Option.some.injEq] at hg
        subst hg
        obtain ⟨_, hj⟩ := podChain_rules ps q r hr
        cases hjt : r.jumpsTo (.pod hh)
        · rfl
        · obtain ⟨p, _, hp⟩ := hj _ ((jumpsTo_iff r _).mp hjt)
          cases hp
    · by_cases e2 : cn.isBuiltin = true
      · obtain ⟨rs0, h0⟩ := chainExists_iff.mp (inv.builtin cn e2)
        obtain ⟨rs', h1, h2⟩ := st.builtin cn e2 rs0 h0
        rw [hg] at h1; cases h1
        rcases h2 r hr with h3 | h3
        · exact inv.refs cn rs0 h0 hi he r h3 hh
        · exact baseRule_no_pod cn r h3 hh
      · have e2' : cn.isBuiltin = false := by cases h : cn.isBuiltin <;> simp_all
        rw [st.other cn hi he e1 e2'] at hg
        exact inv.refs cn rs hg hi he r hr hh

theorem PodStep.ok {ps : List NetPol} {q : Pod} {t t' : Table} (st : PodStep ps q t t') : PodOK ps t' q := by
  refine ⟨st.pod, fun r hr => ?_, fun r hr => ?_⟩
  · rw [st.hkI r]
    constructor
    · rintro (⟨_, h⟩ | ⟨h, _⟩)
      · exact h
      · exact absurd hr h
    · intro h; exact Or.inl ⟨hr, h⟩
  · rw [st.hkE r]
    constructor
    · rintro (⟨_, h⟩ | ⟨h, _⟩)
      · exact h
      · exact absurd hr h
    · intro h; exact Or.inl ⟨hr, h⟩

theorem PodStep.frame {ps : List NetPol} {q q' : Pod} {t t' : Table} (st : PodStep ps q t t')
    (hne : q'.hash ≠ q.hash) (hok : PodOK ps t q') : PodOK ps t' q' := by
  obtain ⟨h1, h2, h3⟩ := hok
  have hdiff : ∀ {d r}, hookRule d q' = [r] → hookRule d q ≠ [r] := by
    intro d r hr hr'
    have a := (hookRule_tgt hr).1
    have b := (hookRule_tgt hr').1
    rw [a] at b; injection b with b; injection b with b; exact hne b
  refine ⟨?_, fun r hr => ?_, fun r hr => ?_⟩
  · rw [st.other _ (by simp) (by simp) (by simp [hne]) rfl]; exact h1
  · rw [st.hkI r, ← h2 r hr]
    constructor
    · rintro (⟨h, _⟩ | ⟨_, h⟩)
      · exact absurd h (hdiff hr)
      · exact h
    · intro h; exact Or.inr ⟨hdiff hr, h⟩
  · rw [st.hkE r, ← h3 r hr]
    constructor
    · rintro (⟨h, _⟩ | ⟨_, h⟩)
      · exact absurd h (hdiff hr)
      · exact h
    · intro h; exact Or.inr ⟨hdiff hr, h⟩

/-! ### deletePodChains -/

theorem hooks_of_get {t : Table} {c : Chain} {rs : List PRule} (h : Tbl.get t c = some rs) : hooks t c = rs := by
  simp [hooks, h]

theorem hooks_of_none {t : Table} {c : Chain} (h : Tbl.get t c = none) : hooks t c = [] := by
  simp [hooks, h]

/-- deletePodRuleByKeyword on a hook chain whose rules are canonical hooks: removes exactly q's hook -/
theorem deleteHook_spec (k : Kern) (d : Bool) (c : Chain) (q : Pod) (L : List Pod)
    (hk : (Tbl.keys k.tbl).Nodup) (hq : q ∈ L) (hL : (L.map (·.hash)).Nodup)
    (hH : ∀ r ∈ hooks k.tbl c, ∃ q2 ∈ L, hookRule d q2 = [r] ∧ chainExists k.tbl (.pod q2.hash) = true)
    (hN : (hooks k.tbl c).Nodup) :
    (deleteHookByKeyword k c (.pod q.hash)).2 = [] ∧ (deleteHookByKeyword k c (.pod q.hash)).1.sets = k.sets ∧
    (Tbl.keys (deleteHookByKeyword k c (.pod q.hash)).1.tbl).Nodup ∧
    (∀ c', c' ≠ c → Tbl.get (deleteHookByKeyword k c (.pod q.hash)).1.tbl c' = Tbl.get k.tbl c') ∧
    (∀ x, x ∈ hooks (deleteHookByKeyword k c (.pod q.hash)).1.tbl c ↔ x ∈ hooks k.tbl c ∧ hookRule d q ≠ [x]) ∧
    (hooks (deleteHookByKeyword k c (.pod q.hash)).1.tbl c).Nodup := by
  -- a hook that jumps to q's chain is q's hook
  have hown : ∀ x ∈ hooks k.tbl c, x.jumpsTo (.pod q.hash) = true →
      hookRule d q = [x] ∧ chainExists k.tbl (.pod q.hash) = true := by
    intro x hx hj
    obtain ⟨q2, hq2, hr2, hex⟩ := hH x hx
    have ht := (hookRule_tgt hr2).1
    rw [(jumpsTo_iff x _).mp hj] at ht
    injection ht with ht; injection ht with ht
    have : q2 = q := inj_of_nodup_map (·.hash) hL hq2 hq ht.symm
    subst this; exact ⟨hr2, hex⟩
  unfold deleteHookByKeyword
  cases hg : Tbl.get k.tbl c with
  | none =>
    simp only
    refine ⟨by first | rfl | trivial, by first | rfl | trivial, hk, by intros; first | rfl | trivial, fun x => ?_, hN⟩
    rw [hooks_of_none hg]; simp
  | some rs =>
    simp only
    have hrs : hooks k.tbl c = rs := hooks_of_get hg
    cases hf : rs.find? (fun r => r.jumpsTo (.pod q.hash)) with
    | none =>
      simp only
      refine ⟨by first | rfl | trivial, by first | rfl | trivial, hk, by intros; first | rfl | trivial, fun x => ?_, hN⟩
      constructor
      · intro hx
        refine ⟨hx, fun hr => ?_⟩
        have := (List.find?_eq_none.mp hf) x (hrs ▸ hx)
        exact this ((jumpsTo_iff x _).mpr (hookRule_tgt hr).1)
      · exact fun h => h.1
    | some r =>
      simp only
      have hr : r ∈ rs := List.mem_of_find?_eq_some hf
      have hj : r.jumpsTo (.pod q.hash) = true := by simpa using List.find?_some hf
      obtain ⟨hrq, hex⟩ := hown r (hrs ▸ hr) hj
      have hc : checkRefs k k.tbl r = none :=
        checkRefs_jump k k.tbl r _ (hookRule_tgt hrq).1 (hookRule_tgt hrq).2.1 hex (hookRule_ports hrq)
      obtain ⟨e1, e2, e3⟩ := deleteRule_ok k c r hc
      rw [hg] at e3
      simp only at e3
      refine ⟨e1, e2, by rw [e3]; exact nodup_setChain _ _ _ hk, ?_, ?_, ?_⟩
      · intro c' hne; rw [e3, get_setChain]; simp [hne]
      · intro x
        rw [e3, hooks_setChain]; simp only [if_true]
        rw [hrs] at hN ⊢
        rw [hN.mem_erase_iff]
        constructor
        · rintro ⟨h1, h2⟩
          refine ⟨h2, fun h => h1 ?_⟩
          rw [hrq] at h; injection h with h
          exact h.symm
        · rintro ⟨h1, h2⟩
          refine ⟨fun e => h2 (e ▸ hrq), h1⟩
      · rw [e3, hooks_setChain]; simp only [if_true]
        rw [hrs] at hN; exact hN.erase r

/-- flushing and deleting a pod chain nothing jumps to -/
theorem dropPodChain_spec (k : Kern) (pc : Chain) (hk : (Tbl.keys k.tbl).Nodup)
    (hno : ∀ c rs, Tbl.get k.tbl c = some rs → ∀ r ∈ rs, r.jumpsTo pc = false) :
    (dropPodChain k pc).sets = k.sets ∧ (Tbl.keys (dropPodChain k pc).tbl).Nodup ∧
    Tbl.get (dropPodChain k pc).tbl pc = none ∧
    ∀ c', c' ≠ pc → Tbl.get (dropPodChain k pc).tbl c' = Tbl.get k.tbl c' := by
  unfold dropPodChain
  cases hg : Tbl.get k.tbl pc with
  | none => exact ⟨rfl, hk, hg, fun _ _ => rfl⟩
  | some v =>
    simp only
    have hn3 := nodup_setChain k.tbl pc [] hk
    have hnr : chainReferenced (setChain k.tbl pc []) pc = false := by
      cases hr : chainReferenced (setChain k.tbl pc []) pc
      · rfl
      · obtain ⟨c, rs, hgc, r, hr', hj⟩ := (referenced_iff hn3 pc).mp hr
        rw [get_setChain] at hgc
        by_cases e : c = pc
        · simp only [e, if_true, Option.some.injEq] at hgc; subst hgc; cases hr'
        · simp only [e, if_false] at hgc
          rw [hno c rs hgc r hr'] at hj; cases hj
    simp only [hnr, Bool.false_eq_true, if_false]
    refine ⟨by first | rfl | trivial, nodup_erase _ _ hn3, by simp, ?_⟩
    intro c' hne
    rw [Tbl.get_erase_ne _ (fun e => hne e.symm), get_setChain]; simp [hne]

/-! ### one SyncPodChains call -/

theorem hookRule_eq_iff {d : Bool} {q : Pod} {r x : PRule} (h : hookRule d q = [r]) : hookRule d q = [x] ↔ x = r := by
  rw [h]; constructor
  · intro e; injection e with e; exact e.symm
  · intro e; rw [e]

/-- the hook step of one direction on a hook chain that exists -/
theorem hookStep_spec (k : Kern) (sel d : Bool) (c : Chain) (q : Pod) (h : PRule) (rs : List PRule)
    (hh : hookRule d q = [h]) (hk : (Tbl.keys k.tbl).Nodup) (hg : Tbl.get k.tbl c = some rs) (hN : rs.Nodup)
    (hex : chainExists k.tbl (.pod q.hash) = true) :
    (hookStep k sel c h).2 = [] ∧ (hookStep k sel c h).1.sets = k.sets ∧ (Tbl.keys (hookStep k sel c h).1.tbl).Nodup ∧
    (∀ c', c' ≠ c → Tbl.get (hookStep k sel c h).1.tbl c' = Tbl.get k.tbl c') ∧
    (∃ rs', Tbl.get (hookStep k sel c h).1.tbl c = some rs' ∧ rs'.Nodup ∧
      ∀ x, x ∈ rs' ↔ (hookRule d q = [x] ∧ sel = true) ∨ (hookRule d q ≠ [x] ∧ x ∈ rs)) := by
  have hc : checkRefs k k.tbl h = none := checkRefs_jump k k.tbl h _ (hookRule_tgt hh).1 (hookRule_tgt hh).2.1 hex
    (hookRule_ports hh)
  unfold hookStep
  cases sel with
  | true =>
    simp only [if_true]
    obtain ⟨e1, e2, e3⟩ := ensureRule_ok k false c h rs hc hg
    by_cases hcont : rs.contains h = true
    · simp only [hcont, if_true] at e3
      refine ⟨e1, e2, by rw [e3]; exact hk, fun c' _ => by rw [e3], rs, by rw [e3]; exact hg, hN, ?_⟩
      intro x
      simp only [hookRule_eq_iff hh, ne_eq]
      have hm := List.contains_iff_mem.mp hcont
      by_cases e : x = h
      · subst e; simp [hm]
      · simp [e]
    · simp only [hcont, Bool.false_eq_true, if_false] at e3
      have hnm : h ∉ rs := fun hm => hcont (List.contains_iff_mem.mpr hm)
      refine ⟨e1, e2, by rw [e3]; exact nodup_setChain _ _ _ hk, ?_, rs ++ [h], by rw [e3, get_setChain]; simp, ?_, ?_⟩
      · intro c' hne; rw [e3, get_setChain]; simp [hne]
      · rw [List.nodup_append]
        exact ⟨hN, by simp, fun a ha b hb => by simp at hb; subst hb; exact fun e => hnm (e ▸ ha)⟩
      · intro x
        simp only [hookRule_eq_iff hh, ne_eq, List.mem_append, List.mem_singleton]
        by_cases e : x = h
        · subst e; simp
        · simp [e]
  | false =>
    simp only [Bool.false_eq_true, if_false]
    obtain ⟨e1, e2, e3⟩ := deleteRule_ok k c h hc
    rw [hg] at e3; simp only at e3
    refine ⟨e1, e2, by rw [e3]; exact nodup_setChain _ _ _ hk, ?_, rs.erase h, by rw [e3, get_setChain]; simp,
      hN.erase h, ?_⟩
    · intro c' hne; rw [e3, get_setChain]; simp [hne]
    · intro x
      rw [hN.mem_erase_iff]
      simp only [hookRule_eq_iff hh, ne_eq]
      by_cases e : x = h
      · subst e; simp
      · simp [e]

/-- ONE SyncPodChains CALL under the invariant: never fails, keeps the ipsets, and acts on the views as `PodStep` says -/
theorem syncPod_step (k : Kern) (ps : List NetPol) (L : List Pod) (q : Pod) (inv : PodInv ps L k.tbl) (hq : q ∈ L)
    (hL : (L.map (·.hash)).Nodup) :
    (syncPod k ps q).2 = [] ∧ (syncPod k ps q).1.sets = k.sets ∧ PodStep ps q k.tbl (syncPod k ps q).1.tbl := by
  unfold syncPod
  by_cases hsel : (hookedIngress ps q || hookedEgress ps q) = true
  · simp only [hsel, Bool.not_true, Bool.false_eq_true, if_false]
    cases hip : q.ip with
    | none =>
      -- selected but no address yet: nothing happens (and no chain / hook of q can exist)
      simp only
      have hact : activePod ps q = false := by simp [activePod, hip]
      refine ⟨by first | rfl | trivial, by first | rfl | trivial, inv.keys, by intros; first | rfl | trivial,
        fun b _ rs0 h0 => ⟨rs0, h0, fun _ h => Or.inl h⟩, ?_, ?_, ?_, inv.nodupI, inv.nodupE⟩
      · rw [hact]; simp only [Bool.false_eq_true, if_false]
        cases hg : Tbl.get k.tbl (.pod q.hash) with
        | none => rfl
        | some v =>
          obtain ⟨q2, hq2, hh, hi⟩ := inv.podchains q.hash (chainExists_iff.mpr ⟨v, hg⟩)
          have : q2 = q := inj_of_nodup_map (·.hash) hL hq2 hq hh
          subst this; rw [hip] at hi; cases hi
      · intro r
        have : hookRule true q = [] := by simp [hookRule, hip]
        simp [this]
      · intro r
        have : hookRule false q = [] := by simp [hookRule, hip]
        simp [this]
    | some a =>
      simp only
      have hact : activePod ps q = true := by simp [activePod, hip, hsel]
      obtain ⟨b1, b2, b3, b4, b5, b6, b7, b8, b9⟩ := ensureBasic_spec k inv.keys inv.builtin
      simp only [b1, ne_eq, not_true_eq_false, if_false]
      generalize hk1 : (ensureBasic k).1 = k1 at *
      -- the pod batch
      have hrules : ∀ r ∈ podChain ps q, r.setRefs = [] ∧ ∀ c', r.tgt = .jump c' → chainExists k1.tbl c' = true := by
        intro r hr
        obtain ⟨h1, h2⟩ := podChain_rules ps q r hr
        refine ⟨h1, fun c' hc' => ?_⟩
        obtain ⟨p, hp, rfl⟩ := h2 c' hc'
        unfold chainExists; rw [b6 _ rfl (by simp) (by simp)]; exact inv.plcy p hp
      obtain ⟨t2, hr2, n2, g2⟩ := podBatch_spec k1 (.pod q.hash) (podChain ps q) rfl b3 hrules (podChain_ports ps q)
      unfold syncPodChain
      rw [hr2]
      simp only
      have hI : hookRule true q = [⟨[.dst ⟨a, 32⟩, .comment (comment q.name q.ns)], .jump (.pod q.hash)⟩] := by
        simp [hookRule, hip]
      have hE : hookRule false q = [⟨[.src ⟨a, 32⟩, .comment (comment q.name q.ns)], .jump (.pod q.hash)⟩] := by
        simp [hookRule, hip]
      rw [hI, hE]
      simp only
      generalize hhi : (⟨[.dst ⟨a, 32⟩, .comment (comment q.name q.ns)], .jump (.pod q.hash)⟩ : PRule) = hi at hI ⊢
      generalize hhe : (⟨[.src ⟨a, 32⟩, .comment (comment q.name q.ns)], .jump (.pod q.hash)⟩ : PRule) = he at hE ⊢
      -- the ingress hook step
      have hexpod : chainExists t2 (.pod q.hash) = true := by unfold chainExists; rw [g2]; simp
      obtain ⟨rsI, hrsI⟩ := chainExists_iff.mp b4
      have hrsI2 : Tbl.get t2 .glxIngress = some rsI := by rw [g2]; simpa using hrsI
      have hNI : rsI.Nodup := by
        have := inv.nodupI; rw [← b7, hooks_of_get hrsI] at this; exact this
      obtain ⟨s1, s2, s3, s4, rsI', s5, s6, s7⟩ := hookStep_spec { k1 with tbl := t2 } (hookedIngress ps q) true
        .glxIngress q hi rsI hI n2 hrsI2 hNI hexpod
      simp only [s1, ne_eq, not_true_eq_false, if_false]
      generalize hk3 : (hookStep { k1 with tbl := t2 } (hookedIngress ps q) .glxIngress hi).1 = k3 at *
      -- the egress hook step
      obtain ⟨rsE, hrsE⟩ := chainExists_iff.mp b5
      have hrsE3 : Tbl.get k3.tbl .glxEgress = some rsE := by
        rw [s4 _ (by decide), g2]; simpa using hrsE
      have hNE : rsE.Nodup := by
        have := inv.nodupE; rw [← b8, hooks_of_get hrsE] at this; exact this
      have hexpod3 : chainExists k3.tbl (.pod q.hash) = true := by
        unfold chainExists; rw [s4 _ (by simp)]; exact hexpod
      obtain ⟨u1, u2, u3, u4, rsE', u5, u6, u7⟩ := hookStep_spec k3 (hookedEgress ps q) false .glxEgress q he rsE hE s3
        hrsE3 hNE hexpod3
      refine ⟨u1, by rw [u2, s2, b2], u3, ?_, ?_, ?_, ?_, ?_, ?_, ?_⟩
      · intro c h1 h2 h3 h4
        rw [u4 c h2, s4 c h1, g2]; simp only [h3, if_false]
        exact b6 c h4 h1 h2
      · intro b hb rs0 h0
        obtain ⟨rs, hrs, _, hsup, _⟩ := b9 b hb rs0 h0
        refine ⟨rs, ?_, hsup⟩
        have nb1 : b ≠ .glxEgress := by intro e; subst e; cases hb
        have nb2 : b ≠ .glxIngress := by intro e; subst e; cases hb
        have nb3 : b ≠ .pod q.hash := by intro e; subst e; cases hb
        rw [u4 b nb1, s4 b nb2, g2]; simp only [nb3, if_false]; exact hrs
      · rw [u4 _ (by simp), s4 _ (by simp), g2, hact]; simp
      · intro r
        have : hooks (hookStep k3 (hookedEgress ps q) .glxEgress he).1.tbl .glxIngress = rsI' := by
          unfold hooks; rw [u4 _ (by decide), s5]; rfl
        rw [this, s7 r, ← b7, hooks_of_get hrsI]
      · intro r
        rw [hooks_of_get u5, u7 r, ← b8, hooks_of_get hrsE]
      · have : hooks (hookStep k3 (hookedEgress ps q) .glxEgress he).1.tbl .glxIngress = rsI' := by
          unfold hooks; rw [u4 _ (by decide), s5]; rfl
        rw [this]; exact s6
      · rw [hooks_of_get u5]; exact u6
  · -- not selected by any policy: deletePodChains
    have hsel' : (hookedIngress ps q || hookedEgress ps q) = false := by
      cases h : (hookedIngress ps q || hookedEgress ps q) <;> simp_all
    simp only [hsel', Bool.not_false, if_true]
    have hhI : hookedIngress ps q = false := by cases h : hookedIngress ps q <;> simp_all
    have hhE : hookedEgress ps q = false := by cases h : hookedEgress ps q <;> simp_all
    have hact : activePod ps q = false := by simp [activePod, hsel']
    have hdp : deletePodChains k q =
        (dropPodChain (deleteHookByKeyword (deleteHookByKeyword k .glxIngress (.pod q.hash)).1 .glxEgress (.pod q.hash)).1
          (.pod q.hash),
         (deleteHookByKeyword k .glxIngress (.pod q.hash)).2 ++
          (deleteHookByKeyword (deleteHookByKeyword k .glxIngress (.pod q.hash)).1 .glxEgress (.pod q.hash)).2) := rfl
    rw [hdp]
    obtain ⟨a1, a2, a3, a4, a5, a6⟩ := deleteHook_spec k true .glxIngress q L inv.keys hq hL inv.hooksI inv.nodupI
    generalize hk1 : (deleteHookByKeyword k .glxIngress (.pod q.hash)) = r1 at *
    have hHE1 : ∀ r ∈ hooks r1.1.tbl .glxEgress, ∃ q2 ∈ L, hookRule false q2 = [r] ∧
        chainExists r1.1.tbl (.pod q2.hash) = true := by
      intro r hr
      have : hooks r1.1.tbl .glxEgress = hooks k.tbl .glxEgress := by unfold hooks; rw [a4 _ (by decide)]
      rw [this] at hr
      obtain ⟨q2, h1, h2, h3⟩ := inv.hooksE r hr
      exact ⟨q2, h1, h2, by unfold chainExists; rw [a4 _ (by simp)]; exact h3⟩
    have hNE1 : (hooks r1.1.tbl .glxEgress).Nodup := by
      have : hooks r1.1.tbl .glxEgress = hooks k.tbl .glxEgress := by unfold hooks; rw [a4 _ (by decide)]
      rw [this]; exact inv.nodupE
    obtain ⟨c1, c2, c3, c4, c5, c6⟩ := deleteHook_spec r1.1 false .glxEgress q L a3 hq hL hHE1 hNE1
    generalize hk2 : (deleteHookByKeyword r1.1 .glxEgress (.pod q.hash)) = r2 at *
    -- views after the two deletions
    have hI2 : ∀ x, x ∈ hooks r2.1.tbl .glxIngress ↔ x ∈ hooks k.tbl .glxIngress ∧ hookRule true q ≠ [x] := by
      intro x
      have : hooks r2.1.tbl .glxIngress = hooks r1.1.tbl .glxIngress := by unfold hooks; rw [c4 _ (by decide)]
      rw [this]; exact a5 x
    have hE2 : ∀ x, x ∈ hooks r2.1.tbl .glxEgress ↔ x ∈ hooks k.tbl .glxEgress ∧ hookRule false q ≠ [x] := by
      intro x
      have : hooks r1.1.tbl .glxEgress = hooks k.tbl .glxEgress := by unfold hooks; rw [a4 _ (by decide)]
      rw [c5 x, this]
    have hoth : ∀ c, c ≠ .glxIngress → c ≠ .glxEgress → Tbl.get r2.1.tbl c = Tbl.get k.tbl c := by
      intro c h1 h2; rw [c4 c h2, a4 c h1]
    -- nothing jumps to q's chain any more
    have hno : ∀ c rs, Tbl.get r2.1.tbl c = some rs → ∀ r ∈ rs, r.jumpsTo (.pod q.hash) = false := by
      intro c rs hg r hr
      cases hj : r.jumpsTo (.pod q.hash)
      · rfl
      · exfalso
        by_cases e1 : c = .glxIngress
        · subst e1
          have hm : r ∈ hooks r2.1.tbl .glxIngress := by rw [hooks_of_get hg]; exact hr
          obtain ⟨hm1, hm2⟩ := (hI2 r).mp hm
          obtain ⟨q2, hq2, hr2, _⟩ := inv.hooksI r hm1
          have ht := (hookRule_tgt hr2).1
          rw [(jumpsTo_iff r _).mp hj] at ht
          injection ht with ht; injection ht with ht
          have : q2 = q := inj_of_nodup_map (·.hash) hL hq2 hq ht.symm
          subst this; exact hm2 hr2
        · by_cases e2 : c = .glxEgress
          · subst e2
            have hm : r ∈ hooks r2.1.tbl .glxEgress := by rw [hooks_of_get hg]; exact hr
            obtain ⟨hm1, hm2⟩ := (hE2 r).mp hm
            obtain ⟨q2, hq2, hr2, _⟩ := inv.hooksE r hm1
            have ht := (hookRule_tgt hr2).1
            rw [(jumpsTo_iff r _).mp hj] at ht
            injection ht with ht; injection ht with ht
            have : q2 = q := inj_of_nodup_map (·.hash) hL hq2 hq ht.symm
            subst this; exact hm2 hr2
          · rw [hoth c e1 e2] at hg
            rw [inv.refs c rs hg e1 e2 r hr q.hash] at hj; cases hj
    obtain ⟨d1, d2, d3, d4⟩ := dropPodChain_spec r2.1 (.pod q.hash) c3 hno
    refine ⟨by simp [a1, c1], by rw [d1, c2, a2], d2, ?_, ?_, ?_, ?_, ?_, ?_, ?_⟩
    · intro c h1 h2 h3 _
      rw [d4 c h3, hoth c h1 h2]
    · intro b hb rs0 h0
      have nb1 : b ≠ .glxEgress := by intro e; subst e; cases hb
      have nb2 : b ≠ .glxIngress := by intro e; subst e; cases hb
      have nb3 : b ≠ .pod q.hash := by intro e; subst e; cases hb
      exact ⟨rs0, by rw [d4 b nb3, hoth b nb2 nb1]; exact h0, fun _ h => Or.inl h⟩
    · rw [d3, hact]; rfl
    · intro r
      have : hooks (dropPodChain r2.1 (.pod q.hash)).tbl .glxIngress = hooks r2.1.tbl .glxIngress := by
        unfold hooks; rw [d4 _ (by simp)]
      rw [this, hI2 r, hhI]
      constructor
      · rintro ⟨h1, h2⟩; exact Or.inr ⟨h2, h1⟩
      · rintro (⟨_, h⟩ | ⟨h1, h2⟩)
        · cases h
        · exact ⟨h2, h1⟩
    · intro r
      have : hooks (dropPodChain r2.1 (.pod q.hash)).tbl .glxEgress = hooks r2.1.tbl .glxEgress := by
        unfold hooks; rw [d4 _ (by simp)]
      rw [this, hE2 r, hhE]
      constructor
      · rintro ⟨h1, h2⟩; exact Or.inr ⟨h2, h1⟩
      · rintro (⟨_, h⟩ | ⟨h1, h2⟩)
        · cases h
        · exact ⟨h2, h1⟩
    · have : hooks (dropPodChain r2.1 (.pod q.hash)).tbl .glxIngress = hooks r1.1.tbl .glxIngress := by
        unfold hooks; rw [d4 _ (by simp), c4 _ (by decide)]
      rw [this]; exact a6
    · have : hooks (dropPodChain r2.1 (.pod q.hash)).tbl .glxEgress = hooks r2.1.tbl .glxEgress := by
        unfold hooks; rw [d4 _ (by simp)]
      rw [this]; exact c6

/-! ### the loop over the pods -/

theorem syncPods_loop (ps : List NetPol) (L : List Pod) (hL : (L.map (·.hash)).Nodup) :
    ∀ (l pre : List Pod) (acc : Kern × List Fail), L = pre ++ l → acc.2 = [] → PodInv ps L acc.1.tbl →
      (∀ q ∈ pre, PodOK ps acc.1.tbl q) →
      let res := l.foldl (fun (acc : Kern × List Fail) q =>
        ((syncPod acc.1 ps q).1, acc.2 ++ (syncPod acc.1 ps q).2)) acc
      res.2 = [] ∧ res.1.sets = acc.1.sets ∧ PodInv ps L res.1.tbl ∧ (∀ q ∈ L, PodOK ps res.1.tbl q) ∧
      ∀ h, Tbl.get res.1.tbl (.plcy h) = Tbl.get acc.1.tbl (.plcy h) := by
  intro l
  induction l with
  | nil =>
    intro pre acc hLe hf inv hpre
    simp only [List.foldl_nil]
    refine ⟨hf, by first | rfl | trivial, inv, fun q hq => hpre q ?_, by intros; first | rfl | trivial⟩
    rw [hLe] at hq; simpa using hq
  | cons q rest ih =>
    intro pre acc hLe hf inv hpre
    have hq : q ∈ L := by rw [hLe]; simp
    obtain ⟨s1, s2, st⟩ := syncPod_step acc.1 ps L q inv hq hL
    simp only [List.foldl_cons]
    have hne : ∀ q' ∈ pre, q'.hash ≠ q.hash := by
      intro q' hq' e
      rw [hLe, List.map_append, List.map_cons, List.nodup_append] at hL
      exact hL.2.2 q'.hash (List.mem_map.mpr ⟨q', hq', rfl⟩) q.hash (by simp) e
    obtain ⟨r1, r2, r3, r4, r5⟩ := ih (pre ++ [q]) ((syncPod acc.1 ps q).1, acc.2 ++ (syncPod acc.1 ps q).2)
      (by rw [hLe]; simp) (by simp [hf, s1]) (st.inv inv hq hL)
      (by
        intro q' hq'
        rcases List.mem_append.mp hq' with h | h
        · exact st.frame (hne q' h) (hpre q' h)
        · simp at h; subst h; exact st.ok)
    exact ⟨r1, by rw [r2]; exact s2, r3, r4, fun h => by
      rw [r5 h]; exact st.other _ (by simp) (by simp) (by simp) rfl⟩

/-- the pods of the cluster on this node -/
def localPods (c : Cluster) (node : String) : List Pod := c.pods.filter (fun q => q.node == node)

/-- THE LOOP OVER ALL LOCAL PODS, from any table satisfying the invariant: no failure, ipsets untouched, the invariant
    holds again, and every local pod's chain and hooks are as compiled -/
theorem syncPods_spec (k : Kern) (c : Cluster) (ps : List NetPol) (node : String)
    (hL : ((localPods c node).map (·.hash)).Nodup) (inv : PodInv ps (localPods c node) k.tbl) :
    (syncPods k c ps node).2 = [] ∧ (syncPods k c ps node).1.sets = k.sets ∧
    PodInv ps (localPods c node) (syncPods k c ps node).1.tbl ∧
    (∀ q ∈ localPods c node, PodOK ps (syncPods k c ps node).1.tbl q) ∧
    ∀ h, Tbl.get (syncPods k c ps node).1.tbl (.plcy h) = Tbl.get k.tbl (.plcy h) := by
  have := syncPods_loop ps (localPods c node) hL (localPods c node) [] (k, []) (by simp) rfl inv
    (fun _ h => by cases h)
  exact this

/-- exactness in closed form: which GLX-POD chains exist and what they hold; which hook rules exist -/
theorem pods_exact_of_inv {ps : List NetPol} {L : List Pod} {t : Table} (inv : PodInv ps L t)
    (hL : (L.map (·.hash)).Nodup) (hok : ∀ q ∈ L, PodOK ps t q) :
    (∀ h rs, Tbl.get t (.pod h) = some rs ↔ ∃ q ∈ L, q.hash = h ∧ activePod ps q = true ∧ rs = podChain ps q) ∧
    (∀ r, r ∈ hooks t .glxIngress ↔ ∃ q ∈ L, hookRule true q = [r] ∧ hookedIngress ps q = true) ∧
    (∀ r, r ∈ hooks t .glxEgress ↔ ∃ q ∈ L, hookRule false q = [r] ∧ hookedEgress ps q = true) := by
  refine ⟨fun h rs => ?_, fun r => ?_, fun r => ?_⟩
  · constructor
    · intro hg
      obtain ⟨q, hq, hh, _⟩ := inv.podchains h (chainExists_iff.mpr ⟨rs, hg⟩)
      subst hh
      have := (hok q hq).1
      rw [hg] at this
      cases ha : activePod ps q
      · simp [ha] at this
      · simp only [ha, if_true, Option.some.injEq] at this
        exact ⟨q, hq, rfl, ha, this⟩
    · rintro ⟨q, hq, rfl, ha, rfl⟩
      rw [(hok q hq).1, ha]; rfl
  · constructor
    · intro hr
      obtain ⟨q, hq, hrq, _⟩ := inv.hooksI r hr
      exact ⟨q, hq, hrq, ((hok q hq).2.1 r hrq).mp hr⟩
    · rintro ⟨q, hq, hrq, hh⟩
      exact ((hok q hq).2.1 r hrq).mpr hh
  · constructor
    · intro hr
      obtain ⟨q, hq, hrq, _⟩ := inv.hooksE r hr
      exact ⟨q, hq, hrq, ((hok q hq).2.2 r hrq).mp hr⟩
    · rintro ⟨q, hq, hrq, hh⟩
      exact ((hok q hq).2.2 r hrq).mpr hh

end Galaxy.Policy
