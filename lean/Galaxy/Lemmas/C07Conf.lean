/-
  C07 proofs, part 3b: the moves that rebuild or repair the IPAM tables - reload and restart (`ConfigurePool`: memory is
  rebuilt from the listed store objects) and the pod-IP sync pass (`AllocateSpecificIP` for Running pods) - and the
  general form of Bind's effect on the pool counts.
-/
import Galaxy.Lemmas.C07Filter
import Galaxy.Lemmas.PluginReload

namespace Galaxy.PluginC07
open Galaxy Galaxy.Plugin

/-! ### counting a table that is pointwise below another one -/

/-- every record of `t'` that satisfies `m` is the record `t` has for that address: then `t'` has no more of them -/
theorem cntp_le_of_sub (m : Key → Bool) : ∀ (t' t : Tbl IP Rec), (Tbl.keys t').Nodup →
    (∀ ip r, Tbl.get t' ip = some r → m r.key = true → Tbl.get t ip = some r) → cntp m t' ≤ cntp m t := by
  intro t'
  induction t' with
  | nil => intro t _ _; rw [cntp_nil]; exact Nat.zero_le _
  | cons e rest ih =>
    intro t hn hsub
    obtain ⟨k, v⟩ := e
    have hn' : k ∉ Tbl.keys rest ∧ (Tbl.keys rest).Nodup := by simpa [Tbl.keys] using hn
    have hrest : ∀ ip r, Tbl.get rest ip = some r → Tbl.get ((k, v) :: rest) ip = some r := by
      intro ip r hr
      have hne : k ≠ ip := by
        intro e; subst e
        exact hn'.1 (Tbl.mem_keys_of_get hr)
      simp [Tbl.get, hne, hr]
    rw [cntp_cons]
    by_cases hm : m v.key = true
    · have hk : Tbl.get t k = some v := hsub k v (by simp [Tbl.get]) hm
      have h1 := cntp_erase_lt m t k v hk hm
      have h2 := ih (Tbl.erase t k) hn'.2 (fun ip r hr hmr => by
        have hne : k ≠ ip := by
          intro e; subst e
          exact hn'.1 (Tbl.mem_keys_of_get hr)
        rw [Tbl.get_erase_ne _ hne]
        exact hsub ip r (hrest ip r hr) hmr)
      simp only [hm, ↓reduceIte]
      omega
    · have h2 := ih t hn'.2 (fun ip r hr hmr => hsub ip r (hrest ip r hr) hmr)
      simp only [hm]
      simpa using h2

theorem get_append (a b : Tbl IP Rec) (k : IP) :
    Tbl.get (a ++ b) k = match Tbl.get a k with | some v => some v | none => Tbl.get b k := by
  induction a with
  | nil => rfl
  | cons e t ih =>
    obtain ⟨k', v⟩ := e
    by_cases h : k' = k
    · simp [Tbl.get, h]
    · simp only [List.cons_append, Tbl.get, h, ↓reduceIte]; exact ih

/-! ### ConfigurePool -/

/-- no store object orphaned by a failed delete of an earlier reload belongs to a pool -/
def orphanFree (s : State) : Bool := s.orphans.all (fun e => e.2.key.pool == "")

/-- every pool of the new configuration has a node subnet (the decoder rejects a pool without) -/
def wfPoolsB (ps : List Pool) : Bool := ps.all (fun p => !p.nodeSubnets.isEmpty)

theorem wfPools_of_bool (ps : List Pool) (h : wfPoolsB ps = true) : WFPools ps := by
  intro p hp
  have := List.all_eq_true.mp h p hp
  intro e; rw [e] at this; simp at this

/-- a successful ConfigurePool over coherent tables without pool orphans raises no pool's count -/
theorem configurePool_cnt (s : State) (ps : List Pool) (hc : Coherent s) (ho : orphanFree s = true)
    (hok : (configurePool s ps).2 = true) (P : String) (hP : P ≠ "") :
    cntp (mP P) (configurePool s ps).1.alloc ≤ cntp (mP P) s.alloc := by
  have rc := configurePool_ok' s ps hok
  apply cntp_le_of_sub (mP P) _ _ rc.coherent.allocNodup
  intro ip r hr hm
  rw [rc.alloc ip] at hr
  by_cases hcf : configured ps ip = true
  · rw [if_pos hcf] at hr
    rw [listed_eq] at hr
    rw [get_append] at hr
    cases hs : Tbl.get s.store ip with
    | some v =>
      rw [hs] at hr
      dsimp only at hr
      rw [← hc.agree ip, hs]; exact hr
    | none =>
      rw [hs] at hr
      dsimp only at hr
      exfalso
      have := List.all_eq_true.mp ho (ip, r) (Tbl.get_mem hr)
      simp only [beq_iff_eq] at this
      unfold mP at hm
      simp only [beq_iff_eq] at hm
      exact hP (hm.symm.trans this)
  · rw [if_neg hcf] at hr; cases hr

/-- a state change that keeps every pool routable, keeps the coherence and raises no pool's count (the configuration
    itself may change: reload) -/
structure Soft7 (s s' : State) : Prop where
  wf : WFPools s.pools → WFPools s'.pools
  coh : Coherent s → Coherent s'
  cnt : Coherent s → ∀ P, P ≠ "" → cntp (mP P) s'.alloc ≤ cntp (mP P) s.alloc

theorem Quiet7.soft {s s' : State} (q : Quiet7 s s') : Soft7 s s' :=
  ⟨fun h => by rw [q.pools]; exact h, q.coh, fun _ => q.cnt⟩

theorem Soft7.trans {a b c : State} (h1 : Soft7 a b) (h2 : Soft7 b c) : Soft7 a c :=
  ⟨fun h => h2.wf (h1.wf h), fun h => h2.coh (h1.coh h),
    fun hc P hP => Nat.le_trans (h2.cnt (h1.coh hc) P hP) (h1.cnt hc P hP)⟩

theorem wfPools_sort (ps : List Pool) (h : WFPools ps) : WFPools (sortPools ps) :=
  fun p hp => h p ((mem_sortPools p ps).mp hp)

/-- ConfigurePool over coherent tables without pool orphans, whatever its outcome -/
theorem configurePool_soft (s : State) (ps : List Pool) (ho : orphanFree s = true) :
    (WFPools ps → WFPools s.pools → WFPools (configurePool s ps).1.pools) ∧ (Coherent s → Coherent (configurePool s ps).1) ∧
    (Coherent s → ∀ P, P ≠ "" → cntp (mP P) (configurePool s ps).1.alloc ≤ cntp (mP P) s.alloc) := by
  by_cases hok : (configurePool s ps).2 = true
  · have rc := configurePool_ok' s ps hok
    exact ⟨fun hwf _ => by rw [rc.pools]; exact wfPools_sort ps hwf, fun _ => rc.coherent,
      fun hc P hP => configurePool_cnt s ps hc ho hok P hP⟩
  · have hf : (configurePool s ps).2 = false := by simpa using hok
    rw [configurePool_fail s ps hf]
    have q := Quiet7.of_quiet (api_quiet s)
    exact ⟨fun _ h => by rw [q.pools]; exact h, q.coh, fun _ => q.cnt⟩

/-- a configuration reload whose new pools are routable, started without pool orphans, raises no pool's count -/
theorem reload_soft (s : State) (pools : List Pool) (hwf : wfPoolsB pools = true) (ho : orphanFree s = true) :
    Soft7 s (reload s pools).1 := by
  have qa := Quiet7.of_quiet (api_quiet s)
  unfold reload
  dsimp only
  split
  · exact qa.soft
  · split
    · exact qa.soft
    · have cp := configurePool_soft s.api.1 pools ho
      have sf : Soft7 s (configurePool s.api.1 pools).1 :=
        ⟨fun h => cp.1 (wfPools_of_bool pools hwf) (qa.soft.wf h), fun h => cp.2.1 (qa.coh h),
          fun hc P hP => Nat.le_trans (cp.2.2 (qa.coh hc) P hP) (qa.cnt P hP)⟩
      split
      · exact sf
      · refine sf.trans (Quiet7.soft ?_)
        exact Quiet7.of_eq rfl rfl rfl rfl

/-- a process restart without pool orphans raises no pool's count -/
theorem restart_soft (s : State) (ho : orphanFree s = true) : Soft7 s (restart s).1 := by
  have qb : Quiet7 s (restartBase s) := Quiet7.of_eq rfl rfl rfl rfl
  have cp := configurePool_soft (restartBase s) s.pools ho
  unfold restart
  dsimp only
  exact ⟨fun h => cp.1 h h, fun h => cp.2.1 (qb.coh h), fun hc P hP => cp.2.2 (qb.coh hc) P hP⟩

/-- an administrator's reservation / its removal: a record without pool, nothing else -/
theorem adminReserve_q (F : Plugin.Facts) (s : State) (ip : IP) (text : String) (policy : Nat) :
    Quiet7 s (step F s (.adminReserve ip text policy)).1 := by
  dsimp only [step]
  split
  · exact Quiet7.refl s
  · split
    · exact Quiet7.refl s
    · rename_i _ hfree
      have hin : ip ∈ s.free := by simpa using hfree
      refine ⟨rfl, fun hc => coherent_alloc ip _ hc hin rfl rfl rfl rfl, fun P hP => ?_⟩
      have := cntp_set_le (mP P) s.alloc ip
        { key := adminKey text, policy := policy, node := "", uid := 0, reserved := true, ts := s.clock }
      have hm : mP P (adminKey text) = false := by
        unfold mP adminKey; simpa using fun e => hP e
      rw [hm] at this
      exact this

theorem adminUnreserve_q (F : Plugin.Facts) (s : State) (ip : IP) : Quiet7 s (step F s (.adminUnreserve ip)).1 := by
  dsimp only [step]
  split
  · exact Quiet7.refl s
  · rename_i r0 ha
    split
    · exact Quiet7.refl s
    · exact ⟨rfl, fun hc => coherent_erase ip r0 hc ha rfl rfl rfl rfl, fun P _ => cntp_erase_le (mP P) s.alloc ip⟩

/-! ### the pod-IP sync pass -/

theorem allocateSpecific_eff (s : State) (key : Key) (ip : IP) (a : Attr) :
    (allocateSpecific s key ip a).1.pools = s.pools ∧
    (∀ m : Key → Bool, cntp m (allocateSpecific s key ip a).1.alloc ≤ cntp m s.alloc + (if m key then 1 else 0)) ∧
    (∀ j, (Tbl.get s.alloc j).isSome = true → (Tbl.get (allocateSpecific s key ip a).1.alloc j).isSome = true) := by
  unfold allocateSpecific
  dsimp only
  split
  · exact ⟨rfl, fun m => Nat.le_add_right _ _, fun _ h => h⟩
  · have st := stCreate_step s ip (mkRec key a s.clock)
    split
    · exact ⟨st.frame.pools, fun m => by rw [st.alloc]; exact Nat.le_add_right _ _, fun j h => by rw [st.alloc]; exact h⟩
    · refine ⟨st.frame.pools, fun m => ?_, fun j h => ?_⟩
      · have := memAlloc_cntp m (stCreate s ip (mkRec key a s.clock)).1 ip (mkRec key a s.clock)
        rw [st.alloc] at this
        exact this
      · show (Tbl.get (Tbl.set (stCreate s ip (mkRec key a s.clock)).1.alloc ip _) j).isSome = true
        rw [st.alloc, Tbl.get_set]
        split
        · rfl
        · exact h

/-- the sync of one pod: nothing for a pod all of whose addresses are allocated; addresses outside every pool for a pod
    without pool annotation -/
theorem syncIPs_q (pod : Pod) : ∀ (ips : List IP) (s : State),
    ((keyOf pod).pool = "" ∨ ∀ ip, ip ∈ ips → (Tbl.get s.alloc ip).isSome = true) →
    Quiet7 s (syncIPs s pod ips) ∧
    (∀ j, (Tbl.get s.alloc j).isSome = true → (Tbl.get (syncIPs s pod ips).alloc j).isSome = true) := by
  intro ips
  induction ips with
  | nil => intro s _; exact ⟨Quiet7.refl s, fun _ h => h⟩
  | cons ip t ih =>
    intro s h
    unfold syncIPs
    split
    · exact ih s (h.imp id (fun h' j hj => h' j (List.mem_cons_of_mem _ hj)))
    · rename_i hnone
      rcases h with hp | hall
      · have e := allocateSpecific_eff s (keyOf pod) ip { policy := policyOf pod, node := pod.node, uid := pod.uid }
        have q : Quiet7 s (allocateSpecific s (keyOf pod) ip { policy := policyOf pod, node := pod.node, uid := pod.uid }).1 :=
          ⟨e.1, allocateSpecific_coherent s _ ip _, fun P hP => by
            have := e.2.1 (mP P)
            have hm : mP P (keyOf pod) = false := by unfold mP; rw [hp]; simpa using fun x => hP x
            simpa [hm] using this⟩
        have r := ih (allocateSpecific s (keyOf pod) ip { policy := policyOf pod, node := pod.node, uid := pod.uid }).1 (Or.inl hp)
        exact ⟨q.trans r.1, fun j hj => r.2 j (e.2.2 j hj)⟩
      · have := hall ip (by simp)
        rw [hnone] at this; simp at this

/-- side condition of the pod-IP sync pass in the C07 theorems: it re-creates no record of a pool - every Running pod of
    the lister that carries a pool annotation has all addresses of its binding annotation allocated (by whom ever) -/
def syncOK (s : State) : Bool :=
  s.vPods.vals.all (fun p => !(p.wants && p.phase == .running) || (keyOf p).pool == "" ||
    p.ips.all (fun ip => (s.alloc.get ip).isSome))

/-- side condition of `markTerminating` (UpdatePod runs `syncPodIP` for a Running pod): the pod carries no pool
    annotation or every address of its binding annotation is allocated - what C04 proves for every live bound pod -/
def termOK (s : State) (ns name : String) : Bool :=
  match s.pods.get (ns, name) with
  | none => true
  | some p => (keyOf p).pool == "" || p.ips.all (fun ip => (s.alloc.get ip).isSome)

theorem markTerminating_q (F : Plugin.Facts) (s : State) (ns name : String) (fault : Nat) (h : termOK s ns name = true) :
    Quiet7 s (step F s (.markTerminating ns name fault)).1 := by
  dsimp only [step]
  cases hp : Tbl.get s.pods (ns, name) with
  | none => exact Quiet7.refl s
  | some p =>
    dsimp only
    split
    · exact Quiet7.refl s
    · split
      · exact Quiet7.of_eq rfl rfl rfl rfl
      · split
        · exact Quiet7.of_eq rfl rfl rfl rfl
        · split
          · have q0 : Quiet7 s (withFaults { s with pods := s.pods.set (ns, name) { p with terminating := true } } fault 0) :=
              Quiet7.of_eq rfl rfl rfl rfl
            refine q0.trans (syncIPs_q { p with terminating := true } p.ips _ ?_).1
            unfold termOK at h
            have hp' : s.pods.get (ns, name) = some p := hp
            rw [hp'] at h
            simp only [Bool.or_eq_true, beq_iff_eq, List.all_eq_true] at h
            rcases h with h | h
            · exact Or.inl h
            · exact Or.inr h
          · exact Quiet7.of_eq rfl rfl rfl rfl

theorem syncPods_q : ∀ (l : List Pod) (s : State),
    (∀ p, p ∈ l → (p.wants && p.phase == .running) = true →
      (keyOf p).pool = "" ∨ ∀ ip, ip ∈ p.ips → (Tbl.get s.alloc ip).isSome = true) →
    Quiet7 s (syncPods s l) := by
  intro l
  induction l with
  | nil => intro s _; exact Quiet7.refl s
  | cons p t ih =>
    intro s h
    unfold syncPods
    split
    · rename_i hrun
      have r := syncIPs_q p p.ips s (h p (by simp) hrun)
      refine r.1.trans (ih _ (fun q hq hqr => ?_))
      exact (h q (List.mem_cons_of_mem _ hq) hqr).imp id (fun hall ip hip => r.2 ip (hall ip hip))
    · exact ih s (fun q hq hqr => h q (List.mem_cons_of_mem _ hq) hqr)

theorem syncPodIPs_q (s : State) (h : syncOK s = true) : Quiet7 s (syncPodIPs s).1 := by
  unfold syncPodIPs
  apply syncPods_q
  intro p hp hrun
  unfold syncOK at h
  have := List.all_eq_true.mp h p hp
  simp only [hrun, Bool.not_true, Bool.false_or, Bool.or_eq_true, beq_iff_eq, List.all_eq_true] at this
  exact this

end Galaxy.PluginC07
