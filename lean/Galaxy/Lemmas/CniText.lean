/-
  Text-level lemmas for the CNI argument string: Split / SplitN / TrimRight / Join, and the proof that the
  accumulated `k=v;…` string parses (ParseCNIArgs, last occurrence wins) to the intended map.
-/
import Galaxy.Model.Cni

namespace Galaxy.Cni
open Galaxy.Generated.Cni

/-! ### splitOn -/

theorem splitOn_ne_nil (sep : Char) (s : Str) : splitOn sep s ≠ [] := by
  cases s with
  | nil => simp [splitOn]
  | cons c t => by_cases h : c = sep <;> simp [splitOn, h]

theorem splitOn_append_sep (sep : Char) (a b : Str) :
    splitOn sep (a ++ sep :: b) = splitOn sep a ++ splitOn sep b := by
  induction a with
  | nil => simp [splitOn]
  | cons c t ih =>
    by_cases h : c = sep
    · simp [splitOn, h, ih]
    · have hne := splitOn_ne_nil sep t
      cases hs : splitOn sep t with
      | nil => exact absurd hs hne
      | cons x r => simp [splitOn, h, ih, hs]

theorem splitOn_no_sep (sep : Char) (s : Str) (h : sep ∉ s) : splitOn sep s = [s] := by
  induction s with
  | nil => simp [splitOn]
  | cons c t ih =>
    have hc : c ≠ sep := fun e => h (by simp [e])
    have ht : sep ∉ t := fun e => h (by simp [e])
    simp [splitOn, hc, ih ht]

/-! ### cut -/

theorem cut_none (sep : Char) (s : Str) (h : sep ∉ s) : cut sep s = none := by
  induction s with
  | nil => simp [cut]
  | cons c t ih =>
    have hc : c ≠ sep := fun e => h (by simp [e])
    have ht : sep ∉ t := fun e => h (by simp [e])
    simp [cut, hc, ih ht]

theorem cut_append (sep : Char) (k v : Str) (h : sep ∉ k) : cut sep (k ++ sep :: v) = some (k, v) := by
  induction k with
  | nil => simp [cut]
  | cons c t ih =>
    have hc : c ≠ sep := fun e => h (by simp [e])
    have ht : sep ∉ t := fun e => h (by simp [e])
    simp [cut, hc, ih ht]

/-! ### TrimRight -/

theorem mem_takeWhile_holds (p : Char → Bool) (l : Str) (c : Char) (h : c ∈ l.takeWhile p) : p c = true := by
  induction l with
  | nil => simp at h
  | cons x t ih =>
    by_cases hx : p x
    · simp only [List.takeWhile_cons, hx, if_true, List.mem_cons] at h
      rcases h with h | h
      · subst h; exact hx
      · exact ih h
    · simp [hx] at h

theorem dropRightWhile_decomp (p : Char → Bool) (s : Str) :
    ∃ r, s = dropRightWhile p s ++ r ∧ ∀ c ∈ r, p c = true := by
  refine ⟨(s.reverse.takeWhile p).reverse, ?_, ?_⟩
  · unfold dropRightWhile
    rw [← List.reverse_append, List.takeWhile_append_dropWhile, List.reverse_reverse]
  · intro c hc
    have : c ∈ s.reverse.takeWhile p := by simpa using hc
    exact mem_takeWhile_holds p _ c this

/-! ### ParseCNIArgs as a fold that can be restarted -/

/-- `ParseCNIArgs` continuing from a table -/
def parseFrom (t : Tbl Str Str) (s : Str) : Tbl Str Str := (splitOn parseArgSep s).foldl parseSeg t

theorem parseArgs_eq (s : Str) : parseArgs s = parseFrom [] s := rfl

theorem parseFrom_append_sep (t : Tbl Str Str) (a b : Str) :
    parseFrom t (a ++ parseArgSep :: b) = parseFrom (parseFrom t a) b := by
  simp [parseFrom, splitOn_append_sep, List.foldl_append]

theorem parseFrom_nil (t : Tbl Str Str) : parseFrom t [] = t := by
  simp [parseFrom, splitOn, parseSeg, cut]

theorem parseFrom_seps (t : Tbl Str Str) (r : Str) (h : ∀ c ∈ r, c = parseArgSep) : parseFrom t r = t := by
  induction r generalizing t with
  | nil => exact parseFrom_nil t
  | cons c r' ih =>
    have hc : c = parseArgSep := h c (by simp)
    subst hc
    have := parseFrom_append_sep t [] r'
    simp only [List.nil_append] at this
    rw [this, parseFrom_nil]
    exact ih t (fun c hc => h c (by simp [hc]))

theorem parseFrom_append_seps (t : Tbl Str Str) (s r : Str) (h : ∀ c ∈ r, c = parseArgSep) :
    parseFrom t (s ++ r) = parseFrom t s := by
  cases r with
  | nil => simp
  | cons c r' =>
    have hc : c = parseArgSep := h c (by simp)
    subst hc
    rw [parseFrom_append_sep, parseFrom_seps _ r' (fun c hc => h c (by simp [hc]))]

/-- the entries of `m` inserted in order -/
def insertAll (t : Tbl Str Str) (m : Args) : Tbl Str Str := m.foldl (fun t p => t.set p.1 p.2) t

theorem sep_facts : buildArgSep = parseArgSep ∧ buildKvSep = parseKvSep ∧ accumSepAdd = parseArgSep ∧
    accumSepDel = parseArgSep ∧ accumCutAdd = [parseArgSep] ∧ accumCutDel = [parseArgSep] ∧
    parseKvSep ≠ parseArgSep := by decide

theorem parseFrom_entry (t : Tbl Str Str) (p : Str × Str)
    (h : buildArgSep ∉ p.1 ∧ buildKvSep ∉ p.1 ∧ buildArgSep ∉ p.2 ∧ trim p.1 = p.1 ∧ trim p.2 = p.2) :
    parseFrom t (kvEntry p) = t.set p.1 p.2 := by
  obtain ⟨h1, h2, h3, h4, h5⟩ := h
  obtain ⟨e1, e2, _, _, _, _, e7⟩ := sep_facts
  rw [e1] at h1 h3
  rw [e2] at h2
  have hno : parseArgSep ∉ kvEntry p := by
    unfold kvEntry
    rw [e2]
    intro hm
    simp only [List.mem_append, List.mem_cons] at hm
    rcases hm with hm | hm | hm
    · exact h1 hm
    · exact e7 hm.symm
    · exact h3 hm
  unfold parseFrom
  rw [splitOn_no_sep _ _ hno]
  simp only [List.foldl_cons, List.foldl_nil, parseSeg, kvEntry]
  rw [e2, cut_append _ _ _ h2]
  simp [h4, h5]

theorem parseFrom_build (t : Tbl Str Str) (m : Args) (h : WFArgs m) :
    parseFrom t (buildArgs m) = insertAll t m := by
  induction m generalizing t with
  | nil => simp [buildArgs, joinSep, parseFrom_nil, insertAll]
  | cons p q ih =>
    have hp := h p (by simp)
    have hq : WFArgs q := fun x hx => h x (by simp [hx])
    cases q with
    | nil => simp [buildArgs, joinSep, parseFrom_entry t p hp, insertAll]
    | cons p' q' =>
      have e1 := sep_facts.1
      have : buildArgs (p :: p' :: q') = kvEntry p ++ parseArgSep :: buildArgs (p' :: q') := by
        simp [buildArgs, joinSep, e1]
      rw [this, parseFrom_append_sep, parseFrom_entry t p hp, ih _ hq]
      simp [insertAll]

theorem insertAll_get (t : Tbl Str Str) (m : Args) (k : Str) : (insertAll t m).get k = overlay t m k := by
  induction m generalizing t with
  | nil => simp [insertAll, overlay, lastLookup]
  | cons p q ih =>
    have : insertAll t (p :: q) = insertAll (t.set p.1 p.2) q := by simp [insertAll]
    rw [this, ih]
    obtain ⟨k', v⟩ := p
    unfold overlay
    simp only [lastLookup]
    cases lastLookup q k with
    | some w => simp
    | none =>
      by_cases hk : k' = k
      · subst hk; simp
      · simp [hk]

/-- one accumulation step, parsed: the previous map overlaid by the new entries -/
theorem parse_accum (cutset : List Char) (sep : Char) (hcut : cutset = [parseArgSep]) (hsep : sep = parseArgSep)
    (a : Str) (m : Args) (h : WFArgs m) :
    parseArgs (trimRightSet cutset (a ++ sep :: buildArgs m)) = insertAll (parseArgs a) m := by
  subst hcut hsep
  obtain ⟨r, hr, hall⟩ := dropRightWhile_decomp (fun c => [parseArgSep].contains c) (a ++ parseArgSep :: buildArgs m)
  have hall' : ∀ c ∈ r, c = parseArgSep := by
    intro c hc
    have := hall c hc
    simpa using this
  have h1 : parseFrom [] (trimRightSet [parseArgSep] (a ++ parseArgSep :: buildArgs m)) =
      parseFrom [] (a ++ parseArgSep :: buildArgs m) := by
    conv => rhs; rw [hr]
    rw [parseFrom_append_seps _ _ _ hall']
    rfl
  rw [parseArgs_eq, h1, parseFrom_append_sep, parseFrom_build _ _ h, parseArgs_eq]

theorem parse_accumAdd (a : Str) (m : Args) (h : WFArgs m) (k : Str) :
    (parseArgs (accumAdd a m)).get k = overlay (parseArgs a) m k := by
  unfold accumAdd
  rw [parse_accum _ _ sep_facts.2.2.2.2.1 sep_facts.2.2.1 a m h, insertAll_get]

theorem parse_accumDel (a : Str) (m : Args) (h : WFArgs m) (k : Str) :
    (parseArgs (accumDel a m)).get k = overlay (parseArgs a) m k := by
  unfold accumDel
  rw [parse_accum _ _ sep_facts.2.2.2.2.2.1 sep_facts.2.2.2.1 a m h, insertAll_get]

/-- overlaying the same entries twice is the same as once -/
theorem overlay_idem (base : Tbl Str Str) (m : Args) (a : Str) (k : Str)
    (h : ∀ k, (parseArgs a).get k = overlay base m k) :
    overlay (parseArgs a) m k = overlay base m k := by
  unfold overlay
  cases hl : lastLookup m k with
  | some v => rfl
  | none =>
    simp only
    rw [h k]
    simp [overlay, hl]

end Galaxy.Cni
