/-
  C06 lemmas, part 3: what the decidable well-formedness predicate `WF` buys -
  * node subnets identical or disjoint: "the pool lists a subnet containing the node's address" is the same as
    "the pool lists nodeSubnet(node)" (the test Filter and AllocateInSubnet* perform on CIDR strings);
  * pools pairwise disjoint: an address hangs off exactly one pool, so "belongs to a pool that …" and
    "the pool the model / the code attached to the address …" coincide.
-/
import Galaxy.Lemmas.C06Sets

namespace Galaxy.Plugin.C06
open Galaxy Galaxy.Plugin

/-! ### CIDR arithmetic -/

theorem div_pow_of_le (x y ka kb : Nat) (hk : ka ≤ kb) (h : x / 2 ^ ka = y / 2 ^ ka) : x / 2 ^ kb = y / 2 ^ kb := by
  have e : 2 ^ kb = 2 ^ ka * 2 ^ (kb - ka) := by rw [← Nat.pow_add]; congr 1; omega
  rw [e, ← Nat.div_div_eq_div_mul, ← Nat.div_div_eq_div_mul, h]

/-- two CIDRs that share an address overlap in the decidable sense (one contains the other's base) -/
theorem overlaps_of_common (a b : Subnet) (ip : Nat) (ha : a.contains ip = true) (hb : b.contains ip = true) :
    overlaps a b = true := by
  unfold Subnet.contains at ha hb
  have ha' : ip / 2 ^ (32 - a.bits) = a.base / 2 ^ (32 - a.bits) := by simpa using ha
  have hb' : ip / 2 ^ (32 - b.bits) = b.base / 2 ^ (32 - b.bits) := by simpa using hb
  unfold overlaps Subnet.contains
  by_cases hk : 32 - a.bits ≤ 32 - b.bits
  · have := div_pow_of_le _ _ _ _ hk ha'
    have e : a.base / 2 ^ (32 - b.bits) = b.base / 2 ^ (32 - b.bits) := by rw [← this, hb']
    simp [e]
  · have hk' : 32 - b.bits ≤ 32 - a.bits := by omega
    have := div_pow_of_le _ _ _ _ hk' hb'
    have e : b.base / 2 ^ (32 - a.bits) = a.base / 2 ^ (32 - a.bits) := by rw [← this, ha']
    simp [e]

/-! ### nodeSubnet(node) -/

theorem nodeSubnetOf_some {ps : List Pool} {nip : Nat} {sn : Subnet} (h : nodeSubnetOf ps nip = some sn) :
    sn ∈ allNodeSubnets ps ∧ sn.contains nip = true := by
  unfold nodeSubnetOf at h
  exact ⟨List.mem_of_find?_eq_some h, List.find?_some (p := fun (n : Subnet) => n.contains nip) h⟩

theorem nodeSubnetOf_isSome {ps : List Pool} {nip : Nat} {sn : Subnet} (hm : sn ∈ allNodeSubnets ps)
    (hc : sn.contains nip = true) : ∃ sn', nodeSubnetOf ps nip = some sn' := by
  unfold nodeSubnetOf
  cases h : List.find? (fun n => n.contains nip) (List.flatMap (fun x => x.nodeSubnets) ps) with
  | some x => exact ⟨x, rfl⟩
  | none =>
    rw [List.find?_eq_none] at h
    exact absurd hc (by simpa using h sn hm)

theorem mem_allNodeSubnets {ps : List Pool} {p : Pool} {sn : Subnet} (hp : p ∈ ps) (h : sn ∈ p.nodeSubnets) :
    sn ∈ allNodeSubnets ps := by
  unfold allNodeSubnets
  exact List.mem_flatMap.mpr ⟨p, hp, h⟩

/-- identical or disjoint: a configured node subnet containing the node's address IS nodeSubnet(node) -/
theorem eq_nodeSubnetOf {ps : List Pool} (hwf : subnetsIdenticalOrDisjoint ps = true) {nip : Nat} {sn sn' : Subnet}
    (h : nodeSubnetOf ps nip = some sn) (hm : sn' ∈ allNodeSubnets ps) (hc : sn'.contains nip = true) : sn' = sn := by
  obtain ⟨h1, h2⟩ := nodeSubnetOf_some h
  unfold subnetsIdenticalOrDisjoint at hwf
  rw [List.all_eq_true] at hwf
  have := hwf sn' hm
  rw [List.all_eq_true] at this
  have := this sn h1
  simp only [Bool.or_eq_true, beq_iff_eq, Bool.not_eq_eq_eq_not, Bool.not_true] at this
  rcases this with e | e
  · exact e
  · rw [overlaps_of_common sn' sn nip hc h2] at e; cases e

/-- "the pool lists a subnet that contains the node's address" ⇔ "the pool lists nodeSubnet(node)" -/
theorem lists_containing_iff {ps : List Pool} (hwf : subnetsIdenticalOrDisjoint ps = true) {p : Pool} (hp : p ∈ ps)
    {nip : Nat} {sn : Subnet} (h : nodeSubnetOf ps nip = some sn) :
    (∃ sn', sn' ∈ p.nodeSubnets ∧ sn'.contains nip = true) ↔ sn ∈ p.nodeSubnets := by
  constructor
  · rintro ⟨sn', hm, hc⟩
    rw [← eq_nodeSubnetOf hwf h (mem_allNodeSubnets hp hm) hc]; exact hm
  · intro hm
    exact ⟨sn, hm, (nodeSubnetOf_some h).2⟩

/-! ### one pool per address -/

theorem mem_range' (a n x : Nat) : x ∈ List.range' a n ↔ a ≤ x ∧ x < a + n := by
  simp [List.mem_range'_1]

theorem mem_enumRanges (rs : Ranges) (ip : Nat) : ip ∈ enumRanges rs ↔ inRanges rs ip = true := by
  induction rs with
  | nil => simp [enumRanges, inRanges]
  | cons r t ih =>
    obtain ⟨a, b⟩ := r
    unfold enumRanges
    rw [List.mem_append, ih, mem_range']
    unfold inRanges
    simp only [List.any_cons, Bool.or_eq_true, Bool.and_eq_true, decide_eq_true_eq]
    constructor
    · rintro (h | h)
      · left; omega
      · right; exact h
    · rintro (h | h)
      · left; omega
      · right; exact h

theorem has_mem_enum {p : Pool} {ip : Nat} (h : p.has ip = true) : ip ∈ enumRanges p.ranges := by
  -- relies on the regenerated fact `configurePoolMatchesSubnetAndRanges = true` (ConfigurePool attaches an address to
  -- the pool whose subnet AND ranges contain it)
  unfold Pool.has at h
  rw [mem_enumRanges]
  simp only [Bool.and_eq_true, Generated.Plugin.configurePoolMatchesSubnetAndRanges, Bool.not_true, Bool.or_false] at h
  exact h.2

theorem poolDisjoint_spec {p q : Pool} (h : poolDisjoint p q = true) {ip : Nat} (hp : p.has ip = true) : q.has ip = false := by
  unfold poolDisjoint at h
  rw [List.all_eq_true] at h
  have := h ip (has_mem_enum hp)
  simpa [hp] using this

/-- pools pairwise disjoint: the pool the address hangs off is THE pool containing it -/
theorem poolOf_unique : ∀ {ps : List Pool}, poolsDisjoint ps = true → ∀ {ip : Nat} {p q : Pool},
    poolOf ps ip = some q → p ∈ ps → p.has ip = true → p = q := by
  intro ps
  induction ps with
  | nil => intro _ ip p q _ hp _; cases hp
  | cons x t ih =>
    intro hd ip p q hq hp hh
    unfold poolsDisjoint at hd
    simp only [Bool.and_eq_true] at hd
    unfold poolOf at hq
    rw [List.find?_cons] at hq
    cases hx : x.has ip with
    | true =>
      simp only [hx] at hq
      cases hq
      rcases List.mem_cons.mp hp with e | hm
      · exact e
      · have := List.all_eq_true.mp hd.1 p hm
        rw [poolDisjoint_spec this hx] at hh; cases hh
    | false =>
      simp only [hx] at hq
      rcases List.mem_cons.mp hp with e | hm
      · subst e; rw [hx] at hh; cases hh
      · exact ih hd.2 hq hm hh

theorem poolOf_isSome {ps : List Pool} {ip : Nat} {p : Pool} (hp : p ∈ ps) (hh : p.has ip = true) :
    ∃ q, poolOf ps ip = some q := by
  unfold poolOf
  cases h : List.find? (fun p => p.has ip) ps with
  | some x => exact ⟨x, rfl⟩
  | none =>
    rw [List.find?_eq_none] at h
    exact absurd hh (by simpa using h p hp)

/-- "belongs to a pool that lists `sn`" ⇔ the model's / the code's test on the pool object of the address -/
theorem routableVia_iff {s : State} (hd : poolsDisjoint s.pools = true) (ip : IP) (sn : Subnet) :
    RoutableVia s ip sn ↔ hasSubnet s ip sn = true := by
  rw [hasSubnet_iff]
  constructor
  · rintro ⟨p, hp, hh, hs⟩
    obtain ⟨q, hq⟩ := poolOf_isSome hp hh
    have := poolOf_unique hd hq hp hh
    subst this
    exact ⟨p, hq, hs⟩
  · rintro ⟨p, hp, hs⟩
    exact ⟨p, (poolOf_mem hp).1, (poolOf_mem hp).2, hs⟩

theorem wfConf_parts {ps : List Pool} (h : wfConf ps = true) :
    ps.all wfPool = true ∧ poolsDisjoint ps = true ∧ subnetsIdenticalOrDisjoint ps = true := by
  unfold wfConf at h
  simp only [Bool.and_eq_true] at h
  exact ⟨h.1.1, h.1.2, h.2⟩

theorem WF_parts {s : State} {pod : Pod} (h : WF s pod = true) :
    wfConf s.pools = true ∧ wfRequest pod.ranges = true ∧ wfNames pod = true := by
  unfold WF at h
  simp only [Bool.and_eq_true] at h
  exact ⟨h.1.1, h.1.2, h.2⟩

/-- Under `WF`: "the address belongs to a pool whose node subnets contain the node's address" ⇔ the node has a
    configured subnet `nodeSubnet(node)` and the pool of the address lists it. -/
theorem routable_iff {s : State} (hwf : wfConf s.pools = true) (ip : IP) (node : String) :
    Routable s ip node ↔ ∃ sn, nodeSubnetOfNode s node = some sn ∧ hasSubnet s ip sn = true := by
  obtain ⟨_, hd, hs⟩ := wfConf_parts hwf
  unfold Routable nodeSubnetOfNode
  constructor
  · rintro ⟨p, nip, sn', hp, hh, hn, hm, hc⟩
    obtain ⟨sn, hsn⟩ := nodeSubnetOf_isSome (mem_allNodeSubnets hp hm) hc
    refine ⟨sn, by simp [hn, hsn], ?_⟩
    rw [← routableVia_iff hd]
    exact ⟨p, hp, hh, (lists_containing_iff hs hp hsn).mp ⟨sn', hm, hc⟩⟩
  · rintro ⟨sn, hn, hv⟩
    cases hnip : Tbl.get s.nodes node with
    | none => simp [hnip] at hn
    | some nip =>
      simp only [hnip] at hn
      obtain ⟨p, hp, hh, hm⟩ := (routableVia_iff hd ip sn).mpr hv
      exact ⟨p, nip, sn, hp, hh, rfl, hm, (nodeSubnetOf_some hn).2⟩

end Galaxy.Plugin.C06
