/-
  Table lemmas used by the M4-core proofs (on top of Galaxy.Model.Tbl): lookups in filtered tables, key lists.
-/
import Galaxy.Model.Tbl

namespace Galaxy.Tbl
variable {κ α : Type} [DecidableEq κ]

/-- filtering by a predicate on the key commutes with lookup -/
theorem get_filter_key (t : Tbl κ α) (p : κ → Bool) (k : κ) :
    get (List.filter (fun e => p e.1) t) k = if p k then get t k else none := by
  induction t with
  | nil => simp [get]
  | cons e t ih =>
    obtain ⟨k', v⟩ := e
    by_cases hp : p k' = true
    · by_cases hk : k' = k
      · subst hk; simp [List.filter, hp, get]
      · simp [List.filter, hp, get, hk, ih]
    · have hp' : p k' = false := by simpa using hp
      by_cases hk : k' = k
      · subst hk; simp [List.filter, hp', get, ih]
      · simp [List.filter, hp', get, hk, ih]

theorem mem_of_get {t : Tbl κ α} {k : κ} {v : α} (h : get t k = some v) : (k, v) ∈ t := get_mem h

/-- an entry found by `get` is in every filter whose predicate it satisfies -/
theorem mem_filter_of_get {t : Tbl κ α} {k : κ} {v : α} (p : κ × α → Bool) (h : get t k = some v) (hp : p (k, v) = true) :
    (k, v) ∈ List.filter p t := by
  simp [List.mem_filter, get_mem h, hp]

theorem keys_erase_subset (t : Tbl κ α) (k k' : κ) (h : k' ∈ keys (erase t k)) : k' ∈ keys t ∧ k' ≠ k := by
  induction t with
  | nil => simp [erase, keys] at h
  | cons e t ih =>
    obtain ⟨k0, v⟩ := e
    by_cases hk : k0 = k
    · simp [erase, hk] at h
      have := ih h
      exact ⟨by simp [keys] at this ⊢; exact Or.inr this.1, this.2⟩
    · simp [erase, hk, keys] at h
      rcases h with h | h
      · subst h; exact ⟨by simp [keys], hk⟩
      · have := ih (by simpa [keys] using h)
        exact ⟨by simp [keys] at this ⊢; exact Or.inr this.1, this.2⟩

theorem nodup_keys_erase {t : Tbl κ α} (k : κ) (h : (keys t).Nodup) : (keys (erase t k)).Nodup := by
  induction t with
  | nil => simp [erase, keys]
  | cons e t ih =>
    obtain ⟨k0, v⟩ := e
    have h' : k0 ∉ keys t ∧ (keys t).Nodup := by simpa [keys] using h
    by_cases hk : k0 = k
    · simp [erase, hk]; exact ih h'.2
    · simp only [erase, hk, if_false]
      have : k0 ∉ keys (erase t k) := fun hm => h'.1 (keys_erase_subset t k k0 hm).1
      have ih' := ih h'.2
      simp [keys] at this ih' ⊢
      exact ⟨this, ih'⟩

theorem nodup_keys_set {t : Tbl κ α} (k : κ) (v : α) (h : (keys t).Nodup) : (keys (set t k v)).Nodup := by
  have h1 := nodup_keys_erase k h
  have h2 : k ∉ keys (erase t k) := fun hm => (keys_erase_subset t k k hm).2 rfl
  simp [set, keys] at h1 h2 ⊢
  exact ⟨h2, h1⟩

theorem nodup_keys_filter {t : Tbl κ α} (p : κ × α → Bool) (h : (keys t).Nodup) : (keys (List.filter p t)).Nodup := by
  induction t with
  | nil => simp [keys]
  | cons e t ih =>
    have h' : e.1 ∉ keys t ∧ (keys t).Nodup := by simpa [keys] using h
    by_cases hp : p e = true
    · simp only [List.filter, hp]
      have hn : e.1 ∉ keys (List.filter p t) := by
        intro hm
        apply h'.1
        simp only [keys, List.mem_map] at hm ⊢
        obtain ⟨x, hx, hxe⟩ := hm
        exact ⟨x, (List.mem_filter.mp hx).1, hxe⟩
      have ih' := ih h'.2
      simp [keys] at hn ih' ⊢
      exact ⟨hn, ih'⟩
    · have hp' : p e = false := by simpa using hp
      simp only [List.filter, hp']
      exact ih h'.2

/-- with distinct keys every listed entry is the one `get` finds -/
theorem get_of_mem_nodup {t : Tbl κ α} {k : κ} {v : α} (hn : (keys t).Nodup) (h : (k, v) ∈ t) : get t k = some v := by
  induction t with
  | nil => simp at h
  | cons e t ih =>
    obtain ⟨k0, v0⟩ := e
    have hn' : k0 ∉ keys t ∧ (keys t).Nodup := by simpa [keys] using hn
    rcases List.mem_cons.mp h with h | h
    · cases h; simp [get]
    · by_cases hk : k0 = k
      · subst hk
        exfalso; apply hn'.1
        simp only [keys, List.mem_map]
        exact ⟨(k0, v), h, rfl⟩
      · simp [get, hk]; exact ih hn'.2 h

theorem get_append (a b : Tbl κ α) (k : κ) : get (a ++ b) k = (get a k).orElse (fun _ => get b k) := by
  induction a with
  | nil => simp [get]
  | cons e t ih =>
    obtain ⟨k0, v0⟩ := e
    by_cases hk : k0 = k
    · simp [get, hk]
    · simp [get, hk, ih]

theorem get_dedup (t : Tbl κ α) (k : κ) : get (dedup t) k = get t k := by
  induction t with
  | nil => rfl
  | cons e t ih =>
    obtain ⟨k0, v0⟩ := e
    by_cases hk : k0 = k
    · simp [dedup, get, hk]
    · simp only [dedup, get, hk, if_false]
      rw [get_erase_ne _ hk, ih]

theorem nodup_keys_dedup (t : Tbl κ α) : (keys (dedup t)).Nodup := by
  induction t with
  | nil => simp [dedup, keys]
  | cons e t ih =>
    obtain ⟨k0, v0⟩ := e
    have h1 := nodup_keys_erase k0 ih
    have h2 : k0 ∉ keys (erase (dedup t) k0) := fun hm => (keys_erase_subset _ k0 k0 hm).2 rfl
    simp [dedup, keys] at h1 h2 ⊢
    exact ⟨h2, h1⟩

end Galaxy.Tbl
