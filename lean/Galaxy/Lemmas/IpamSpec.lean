/-
  Specification vocabulary of C05 / C08 / C09 over the M3 model: what "memory and store agree" means, which
  states are reachable, which side conditions the (known) deviations need.  Definitions only.
-/
import Galaxy.Model.Ipam

namespace Galaxy.Ipam

/-- owner, policy and attributes of two records coincide (timestamps are not compared) -/
def recEq (a b : Rec) : Prop :=
  a.key = b.key ∧ a.policy = b.policy ∧ a.node = b.node ∧ a.uid = b.uid ∧ a.reserved = b.reserved

/-- both absent, or both present with equal owner / policy / attributes -/
def optEq : Option Rec → Option Rec → Prop
  | none, none => True
  | some a, some b => recEq a b
  | _, _ => False

/-- a watch event of a labelled object for this address has not been delivered yet -/
def isPending (s : State) (ip : IP) : Prop := ∃ e ∈ s.pending, e.ip = ip

/-- the cache tables are consistent with the configuration:
    free = configured \ dom alloc, and nothing outside the configuration is allocated (C09, second clause) -/
structure MemOK (s : State) : Prop where
  free_iff : ∀ ip, ip ∈ s.free ↔ (configured s.pools ip = true ∧ s.alloc.get ip = none)
  alloc_conf : ∀ ip r, s.alloc.get ip = some r → configured s.pools ip = true

/-- memory and store agree on every configured address, except those with an undelivered admin event -/
def Sync (s : State) : Prop :=
  ∀ ip, configured s.pools ip = true → isPending s ip ∨ optEq (s.alloc.get ip) (s.store.get ip)

/-- C05's `Agree` -/
structure Agree (s : State) : Prop where
  mem : MemOK s
  sync : Sync s

/-- the record `handleFIPAssign` writes for an event -/
def eventRec (e : Event) (now : Nat) : Rec :=
  { key := e.key, policy := e.policy, node := "", uid := "", reserved := true, ts := now }

/-- a delete event is current when the store holds nothing for the address — or, if the cache holds a record which is
    not a reservation (the event is then ignored), when that record is what the store holds -/
def unassignCurrent : Option Rec → Option Rec → Prop
  | some r, st => if r.reserved = true then st = none else optEq (some r) st
  | none, st => st = none

/-- the watch event about to be delivered (head of the queue) still describes the store — nobody deleted / replaced /
    re-used the object it announces meanwhile — or further events for the address are still on their way.
    add event: the store holds what the cache holds, resp. (address still free) the announced reservation;
    delete event: see `unassignCurrent`. -/
def currentOf (s : State) : List Event → Prop
  | [] => True
  | e :: rest =>
    (∃ e' ∈ rest, e'.ip = e.ip) ∨
    (if e.assign = true then optEq (some ((s.alloc.get e.ip).getD (eventRec e s.clock))) (s.store.get e.ip)
     else unassignCurrent (s.alloc.get e.ip) (s.store.get e.ip))

def Current (s : State) : Prop := currentOf s s.pending

instance recEq.dec (a b : Rec) : Decidable (recEq a b) :=
  inferInstanceAs (Decidable (a.key = b.key ∧ a.policy = b.policy ∧ a.node = b.node ∧ a.uid = b.uid ∧ a.reserved = b.reserved))

instance optEq.dec : (a b : Option Rec) → Decidable (optEq a b)
  | none, none => isTrue trivial
  | some a, some b => recEq.dec a b
  | none, some _ => isFalse (fun h => h)
  | some _, none => isFalse (fun h => h)

instance unassignCurrent.dec : (a st : Option Rec) → Decidable (unassignCurrent a st)
  | some r, st => inferInstanceAs (Decidable (if r.reserved = true then st = none else optEq (some r) st))
  | none, st => inferInstanceAs (Decidable (st = none))

instance currentOf.dec (s : State) : (l : List Event) → Decidable (currentOf s l)
  | [] => isTrue trivial
  | e :: rest =>
    inferInstanceAs (Decidable ((∃ e' ∈ rest, e'.ip = e.ip) ∨
      (if e.assign = true then optEq (some ((s.alloc.get e.ip).getD (eventRec e s.clock))) (s.store.get e.ip)
       else unassignCurrent (s.alloc.get e.ip) (s.store.get e.ip))))

instance (s : State) : Decidable (Current s) := currentOf.dec s s.pending

/-- no free address has a stored object (true whenever no admin event is pending, see `freeUnstored_of_agree`) -/
def FreeUnstored (s : State) : Prop := ∀ ip ∈ s.free, s.store.get ip = none

/-- side condition of the ONE-STEP theorem `agree_step` (which only assumes `Agree`, an invariant that says nothing about
    addresses with pending events): `True` for every move except `deliver`, whose event must be `Current`.  The
    history-level theorems do not need it: the stronger invariant `Inv` implies `Current` wherever it matters. -/
def StepOK (s : State) : Op → Prop
  | .deliver => Current s
  | _ => True

/-! ### the history-level invariant: what is known about addresses WITH pending watch events -/

/-- the undelivered watch events of one address, oldest first -/
def pend (s : State) (ip : IP) : List Event := s.pending.filter (fun e => e.ip == ip)

/-- the youngest pending event is a delete event -/
def lastIsU (l : List Event) : Bool := match l.getLast? with | some e => !e.assign | none => false

/-- youngest pending event = delete: the labelled object is gone; the cache holds the (stale) reservation or nothing
    while the store holds nothing, or both already hold the same ordinary record (the address was re-used) -/
def SU (a st : Option Rec) : Prop :=
  (st = none ∧ ∀ r, a = some r → r.reserved = true) ∨ (optEq a st ∧ ∀ r, a = some r → r.reserved = false)

/-- the invariant for one address: `c` = configured, `l` = its pending events, `a` / `st` = cache / store entry.
    * nothing pending: cache = store (if configured);
    * youngest event is a delete: no labelled object is stored; `SU` (if configured);
    * otherwise all pending events are one and the same add event: the labelled object is stored, and the cache holds
      nothing yet (the object is exactly what the event announces) or already the same as the store (after a reload). -/
def PAt (c : Bool) (l : List Event) (a st : Option Rec) : Prop :=
  if l = [] then (c = true → optEq a st)
  else if lastIsU l = true then (∀ r0, st = some r0 → r0.reserved = false) ∧ (c = true → SU a st)
  else ∃ e r0, (∀ x ∈ l, x = e) ∧ st = some r0 ∧ r0.reserved = true ∧
        (c = true → (a = none ∧ recEq (eventRec e 0) r0) ∨ optEq a st)

def PInv (s : State) : Prop := ∀ ip, PAt (configured s.pools ip) (pend s ip) (s.alloc.get ip) (s.store.get ip)

/-- the inductive invariant behind C05: `MemOK` and `PInv`; it implies `Agree` (lemma `agree_of_inv`) -/
structure Inv (s : State) : Prop where
  mem : MemOK s
  pinv : PInv s

/-- ENVIRONMENT assumption (about the administrator, not about galaxy): a reservation for an address is not created
    while a watch event for that address is still on its way (create / delete / re-create faster than the watch
    latency).  Without it a stale add event can overwrite what IPAM wrote meanwhile: `admin_recreate_race_counter`. -/
def EnvOK (s : State) : Op → Bool
  | .adminReserve ip _ _ => s.pending.all (fun e => e.ip != ip)
  | _ => true

/-- states reachable by admissible moves in an environment satisfying `EnvOK` -/
inductive Reach : State → Prop
  | init : Reach init
  | step {s : State} (op : Op) : Reach s → op.admissible s = true → EnvOK s op = true → Reach (step s op).1

/-- states reachable by admissible moves, no side condition -/
inductive ReachAny : State → Prop
  | init : ReachAny init
  | step {s : State} (op : Op) : ReachAny s → op.admissible s = true → ReachAny (step s op).1

/-- element-wise relation between two lists of the same length -/
inductive Forall2 {α β : Type} (R : α → β → Prop) : List α → List β → Prop
  | nil : Forall2 R [] []
  | cons {a : α} {b : β} {l₁ : List α} {l₂ : List β} : R a b → Forall2 R l₁ l₂ → Forall2 R (a :: l₁) (b :: l₂)

/-- the requested range lists are pairwise disjoint as address sets -/
def DisjointRanges (ranges : List (List Range)) : Prop :=
  ∀ i j (hi : i < ranges.length) (hj : j < ranges.length), i ≠ j → ∀ x, x ∈ walk ranges[i] → x ∉ walk ranges[j]

/-- the moves which hand out a free address -/
def Op.isAlloc : Op → Bool
  | .allocSpecific .. | .allocSubnet .. | .allocRanges .. => true
  | _ => false

/-- the moves whose `StepOK` is `True` -/
def Op.plain : Op → Bool
  | .deliver => false
  | _ => true

/-- the store looks the same (as a map) -/
def SameStore (a b : Store) : Prop := ∀ ip, a.get ip = b.get ip

end Galaxy.Ipam
