/-
  Specification vocabulary of C05 / C08 / C09 over the M3 model: what "memory and store agree" means, which
  states are reachable, which side conditions the (known) deviations need.  Definitions only.
-/
import Galaxy.Model.Ipam

namespace Galaxy.Ipam

/-- owner, policy and attributes of two records coincide (timestamps are not compared) -/
def recEq (a b : Rec) : Prop :=
  a.key = b.key ∧ a.policy = b.policy ∧ a.node = b.node ∧ a.uid = b.uid ∧ a.reserved = b.reserved

/-- both absent, or both present with equal owner / policy / attributes -/
def optEq : Option Rec → Option Rec → Prop
  | none, none => True
  | some a, some b => recEq a b
  | _, _ => False

/-- a watch event of a labelled object for this address has not been delivered yet -/
def isPending (s : State) (ip : IP) : Prop := ∃ e ∈ s.pending, e.ip = ip

/-- the cache tables are consistent with the configuration:
    free = configured \ dom alloc, and nothing outside the configuration is allocated (C09, second clause) -/
structure MemOK (s : State) : Prop where
  free_iff : ∀ ip, ip ∈ s.free ↔ (configured s.pools ip = true ∧ s.alloc.get ip = none)
  alloc_conf : ∀ ip r, s.alloc.get ip = some r → configured s.pools ip = true

/-- memory and store agree on every configured address, except those with an undelivered admin event -/
def Sync (s : State) : Prop :=
  ∀ ip, configured s.pools ip = true → isPending s ip ∨ optEq (s.alloc.get ip) (s.store.get ip)

/-- C05's `Agree` -/
structure Agree (s : State) : Prop where
  mem : MemOK s
  sync : Sync s

/-- the record `handleFIPAssign` writes for an event -/
def eventRec (e : Event) (now : Nat) : Rec :=
  { key := e.key, policy := e.policy, node := "", uid := "", reserved := true, ts := now }

/-- the watch event about to be delivered (head of the queue) still describes the store — nobody deleted / replaced /
    re-used the object it announces meanwhile — or further events for the address are still on their way.
    add event: the store holds what the cache holds, resp. (address still free) the announced reservation;
    delete event: the store holds nothing for the address. -/
def currentOf (s : State) : List Event → Prop
  | [] => True
  | e :: rest =>
    (∃ e' ∈ rest, e'.ip = e.ip) ∨
    (if e.assign = true then optEq (some ((s.alloc.get e.ip).getD (eventRec e s.clock))) (s.store.get e.ip)
     else s.store.get e.ip = none)

def Current (s : State) : Prop := currentOf s s.pending

instance recEq.dec (a b : Rec) : Decidable (recEq a b) :=
  inferInstanceAs (Decidable (a.key = b.key ∧ a.policy = b.policy ∧ a.node = b.node ∧ a.uid = b.uid ∧ a.reserved = b.reserved))

instance optEq.dec : (a b : Option Rec) → Decidable (optEq a b)
  | none, none => isTrue trivial
  | some a, some b => recEq.dec a b
  | none, some _ => isFalse (fun h => h)
  | some _, none => isFalse (fun h => h)

instance currentOf.dec (s : State) : (l : List Event) → Decidable (currentOf s l)
  | [] => isTrue trivial
  | e :: rest =>
    inferInstanceAs (Decidable ((∃ e' ∈ rest, e'.ip = e.ip) ∨
      (if e.assign = true then optEq (some ((s.alloc.get e.ip).getD (eventRec e s.clock))) (s.store.get e.ip)
       else s.store.get e.ip = none)))

instance (s : State) : Decidable (Current s) := currentOf.dec s s.pending

/-- no free address has a stored object (true whenever no admin event is pending, see `freeUnstored_of_agree`) -/
def FreeUnstored (s : State) : Prop := ∀ ip ∈ s.free, s.store.get ip = none

/-- side conditions under which a move preserves `Agree`; `True` for every mutator except
    * `deliver`: the event must be `Current` (known finding: a stale delete event frees a re-allocated address),
    * multi-range allocation: no fault may hit the rollback deletes, whose errors the code ignores — guaranteed by
      "no fault at all", or by "a single fault and no create can conflict" (known finding otherwise). -/
def StepOK (s : State) : Op → Prop
  | .deliver => Current s
  | .allocRanges _ _ _ _ _ pl => pl.fails = [] ∨ (pl.fails.length ≤ 1 ∧ FreeUnstored s)
  | _ => True

/-- states reachable by admissible moves satisfying the side conditions -/
inductive Reach : State → Prop
  | init : Reach init
  | step {s : State} (op : Op) : Reach s → op.admissible s = true → StepOK s op → Reach (step s op).1

/-- states reachable by admissible moves, no side condition -/
inductive ReachAny : State → Prop
  | init : ReachAny init
  | step {s : State} (op : Op) : ReachAny s → op.admissible s = true → ReachAny (step s op).1

/-- element-wise relation between two lists of the same length -/
inductive Forall2 {α β : Type} (R : α → β → Prop) : List α → List β → Prop
  | nil : Forall2 R [] []
  | cons {a : α} {b : β} {l₁ : List α} {l₂ : List β} : R a b → Forall2 R l₁ l₂ → Forall2 R (a :: l₁) (b :: l₂)

/-- the requested range lists are pairwise disjoint as address sets -/
def DisjointRanges (ranges : List (List Range)) : Prop :=
  ∀ i j (hi : i < ranges.length) (hj : j < ranges.length), i ≠ j → ∀ x, x ∈ walk ranges[i] → x ∉ walk ranges[j]

/-- the moves which hand out a free address -/
def Op.isAlloc : Op → Bool
  | .allocSpecific .. | .allocSubnet .. | .allocRanges .. => true
  | _ => false

/-- the moves whose `StepOK` is `True` -/
def Op.plain : Op → Bool
  | .deliver | .allocRanges .. => false
  | _ => true

/-- the store looks the same (as a map) -/
def SameStore (a b : Store) : Prop := ∀ ip, a.get ip = b.get ip

end Galaxy.Ipam
