/-
  Chain names: the hash input `hostPort ++ protocol ++ containerPort ++ podName` is injective on ports
  with distinct (hostPort, protocol); with a collision-free hash the chain names (and therefore the
  KUBE-HOSTPORTS rules) of a well-formed port list are pairwise distinct.
-/
import Galaxy.Lemmas.NetfilterRules

namespace Galaxy.Netfilter

/-- two strings `digits ++ rest` whose rests start with a non-digit agree piecewise -/
theorem digit_prefix_unique : ∀ (a a' r r' : List Char),
    (∀ c ∈ a, c.isDigit = true) → (∀ c ∈ a', c.isDigit = true) →
    (∃ x t, r = x :: t ∧ x.isDigit = false) → (∃ y t, r' = y :: t ∧ y.isDigit = false) →
    a ++ r = a' ++ r' → a = a' ∧ r = r'
  | [], [], _, _, _, _, _, _, h => ⟨rfl, by simpa using h⟩
  | [], d :: a', r, r', _, ha', ⟨x, t, hr, hx⟩, _, h => by
    subst hr
    simp at h
    have := ha' d (List.mem_cons_self ..)
    rw [← h.1] at this; rw [this] at hx; cases hx
  | d :: a, [], r, r', ha, _, _, ⟨y, t, hr', hy⟩, h => by
    subst hr'
    simp at h
    have := ha d (List.mem_cons_self ..)
    rw [h.1] at this; rw [this] at hy; cases hy
  | d :: a, d' :: a', r, r', ha, ha', hr, hr', h => by
    simp at h
    obtain ⟨h1, h2⟩ := h
    have := digit_prefix_unique a a' r r' (fun c hc => ha c (List.mem_cons_of_mem _ hc))
      (fun c hc => ha' c (List.mem_cons_of_mem _ hc)) hr hr' h2
    exact ⟨by rw [h1, this.1], this.2⟩

theorem toDigits_inj {n m : Nat} (h : Nat.toDigits 10 n = Nat.toDigits 10 m) : n = m := by
  have := congrArg (fun l => Nat.ofDigitChars 10 l 0) h
  simpa [Nat.ofDigitChars_ten_toDigits] using this

theorem protoOk_cases {s : String} (h : protoOk s = true) : s = "TCP" ∨ s = "UDP" ∨ s = "tcp" ∨ s = "udp" := by
  simpa [protoOk] using h

/-- the hash input determines (hostPort, protocol) -/
theorem encode_key {p q : Port} (hp : protoOk p.protocol = true) (hq : protoOk q.protocol = true)
    (h : encode p = encode q) : p.hostPort = q.hostPort ∧ p.protocol = q.protocol := by
  have h' := congrArg String.toList h
  simp only [encode, Generated.Netfilter.hashInput, List.map_cons, List.map_nil, hashField] at h'
  simp only [String.join, List.foldl_cons, List.foldl_nil, String.toList_append, Nat.toString_eq_repr,
    Nat.toList_repr, String.empty_append, List.append_assoc] at h'
  have hnd : ∀ s : String, protoOk s = true → ∀ t : List Char, ∃ x u, s.toList ++ t = x :: u ∧ x.isDigit = false := by
    intro s hs t
    rcases protoOk_cases hs with rfl | rfl | rfl | rfl
    · exact ⟨'T', 'C' :: 'P' :: t, by simp, by decide⟩
    · exact ⟨'U', 'D' :: 'P' :: t, by simp, by decide⟩
    · exact ⟨'t', 'c' :: 'p' :: t, by simp, by decide⟩
    · exact ⟨'u', 'd' :: 'p' :: t, by simp, by decide⟩
  obtain ⟨h1, h2⟩ := digit_prefix_unique _ _ _ _
    (fun c hc => Nat.isDigit_of_mem_toDigits (by decide) (by decide) hc)
    (fun c hc => Nat.isDigit_of_mem_toDigits (by decide) (by decide) hc)
    (hnd _ hp _) (hnd _ hq _) h'
  refine ⟨toDigits_inj h1, ?_⟩
  rcases protoOk_cases hp with e1 | e1 | e1 | e1 <;> rcases protoOk_cases hq with e2 | e2 | e2 | e2 <;>
    rw [e1, e2] at h2 ⊢ <;> first | rfl | (simp at h2)

theorem append_left_cancel_str {a x y : String} (h : a ++ x = a ++ y) : x = y := by
  have := congrArg String.toList h
  simp at this
  exact String.toList_injective this

theorem chainName_key {hash : String → String} {ps : List Port} {p q : Port}
    (hinj : HashInjOn hash (ps.map encode)) (hp : p ∈ ps) (hq : q ∈ ps)
    (hpo : protoOk p.protocol = true) (hqo : protoOk q.protocol = true)
    (h : chainName hash p = chainName hash q) : p.hostPort = q.hostPort ∧ p.protocol = q.protocol := by
  unfold chainName at h
  have := append_left_cancel_str h
  exact encode_key hpo hqo (hinj _ (List.mem_map_of_mem hp) _ (List.mem_map_of_mem hq) this)

theorem wfPorts_cons {p : Port} {ps : List Port} (h : wfPorts (p :: ps) = true) :
    portOk p = true ∧ wfPorts ps = true ∧
      ∀ q ∈ ps, ¬ (q.hostPort = p.hostPort ∧ lower q.protocol = lower p.protocol) := by
  simp only [wfPorts, List.all_cons, portsDistinct, Bool.and_eq_true, List.all_eq_true, Bool.not_eq_true',
    decide_eq_true_eq, Bool.and_eq_false_imp] at h
  obtain ⟨⟨h1, h2⟩, h3, h4⟩ := h
  refine ⟨h1, ?_, ?_⟩
  · simp only [wfPorts, Bool.and_eq_true, List.all_eq_true]; exact ⟨h2, h4⟩
  · intro q hq ⟨e1, e2⟩
    have := h3 q hq
    simp [e1, e2] at this

theorem wfPorts_protoOk {ps : List Port} (h : wfPorts ps = true) : ∀ p ∈ ps, protoOk p.protocol = true := by
  intro p hp
  simp only [wfPorts, Bool.and_eq_true, List.all_eq_true] at h
  have := h.1 p hp
  simp only [portOk, Bool.and_eq_true] at this
  exact this.1.1

theorem HashInjOn_tail {hash : String → String} {a : String} {l : List String} (h : HashInjOn hash (a :: l)) :
    HashInjOn hash l :=
  fun x hx y hy e => h x (List.mem_cons_of_mem _ hx) y (List.mem_cons_of_mem _ hy) e

/-- the chain names of a well-formed port list are pairwise distinct -/
theorem chainNames_nodup {hash : String → String} : ∀ {ps : List Port}, wfPorts ps = true →
    HashInjOn hash (ps.map encode) → (ps.map (chainName hash)).Nodup
  | [], _, _ => List.nodup_nil
  | p :: ps, hwf, hinj => by
    obtain ⟨hp, hwf', hdist⟩ := wfPorts_cons hwf
    simp only [List.map_cons, List.nodup_cons]
    refine ⟨?_, chainNames_nodup hwf' (HashInjOn_tail hinj)⟩
    intro hmem
    obtain ⟨q, hq, heq⟩ := List.mem_map.mp hmem
    have hk := chainName_key hinj (List.mem_cons_of_mem _ hq) (List.mem_cons_self ..)
      (wfPorts_protoOk hwf q (List.mem_cons_of_mem _ hq)) (wfPorts_protoOk hwf p (List.mem_cons_self ..)) heq
    exact hdist q hq ⟨hk.1, by rw [hk.2]⟩

theorem nodup_map_of_nodup_map {α β γ : Type} (f : α → β) (g : α → γ) (hfg : ∀ x y, f x = f y → g x = g y) :
    ∀ {l : List α}, (l.map g).Nodup → (l.map f).Nodup
  | [], _ => List.nodup_nil
  | a :: l, h => by
    simp only [List.map_cons, List.nodup_cons] at h ⊢
    refine ⟨?_, nodup_map_of_nodup_map f g hfg h.2⟩
    intro hm
    obtain ⟨b, hb, e⟩ := List.mem_map.mp hm
    exact h.1 (List.mem_map.mpr ⟨b, hb, hfg _ _ e⟩)

theorem jumpRules_nodup {hash : String → String} {ps : List Port} (h : (ps.map (chainName hash)).Nodup) :
    (ps.map (jumpRule hash)).Nodup :=
  nodup_map_of_nodup_map _ _ (fun x y e => by
    have := congrArg chainRef e
    simpa [chainRef_jump] using this) h

theorem jumpRulesR_nodup {hash : String → String} {ps : List Port} (h : (ps.map (chainName hash)).Nodup) :
    (ps.map (jumpRuleR hash)).Nodup :=
  nodup_map_of_nodup_map _ _ (fun x y e => by
    have := congrArg chainRef e
    simpa [chainRef_jumpR] using this) h

end Galaxy.Netfilter
