/-
  C06 lemmas, part 9: from a Filter that approved a node to the state Bind starts from.
-/
import Galaxy.Lemmas.C06Main

namespace Galaxy.Plugin.C06
open Galaxy Galaxy.Plugin

/-- the hypotheses on the state Filter starts from: coherent IPAM (what every reachable state satisfies, C05 / the
    invariant of C04), a truthful node-subnet cache, the lister shows the pod the API server has, the pod asks for a
    floating IP -/
structure Scene (s : State) (ns name : String) (pod : Pod) : Prop where
  coh : Coherent s
  cache : CacheOK s
  truth : Tbl.get s.pods (ns, name) = some pod
  lister : Tbl.get s.vPods (ns, name) = some pod
  wants : pod.wants = true
  pending : pod.node = ""

/-- "an identity without requested ranges holds at most one address" (else `ipInfos[0]` / `ipInfos[:1]` are arbitrary) -/
def AtMostOneWithoutRanges (s : State) (pod : Pod) : Prop :=
  pod.ranges = [] → (ipsOfKey s (keyOf pod)).length ≤ 1

/-- what `getSubnet` established for every subnet it answered -/
structure Prepared (s g : State) (pod : Pod) (sn : Subnet) : Prop where
  free : (unfound g pod ≠ [] ∨ held g pod = []) → FreeRoutable g sn (unfound g pod)
  routable : AtMostOneWithoutRanges s pod → ∀ ip, ip ∈ held g pod → hasSubnet g ip sn = true
  routablePre : AtMostOneWithoutRanges s pod → ∀ ip, ip ∈ held s pod → hasSubnet s ip sn = true

theorem held_ne_of_allFound (s : State) (pod : Pod) (hr : pod.ranges ≠ []) (hu : unfound s pod = []) :
    held s pod ≠ [] := by
  unfold unfound at hu
  unfold held
  have hlen := length_byKeyAndRanges s (keyOf pod) pod.ranges hr
  cases hi : byKeyAndRanges s (keyOf pod) pod.ranges with
  | nil =>
    rw [hi] at hlen
    cases h2 : pod.ranges with
    | nil => exact absurd h2 hr
    | cons _ _ => rw [h2] at hlen; simp at hlen
  | cons o t =>
    cases h2 : pod.ranges with
    | nil => exact absurd h2 hr
    | cons r u =>
      rw [hi, h2, unfoundRanges_cons] at hu
      cases o with
      | none => simp at hu
      | some x => simp

theorem ipsOfKey_set {s : State} (k : Key) (ip : IP) (r : Rec) (hk : r.key = k) (hn : ipsOfKey s k = [])
    (alloc' : Tbl IP Rec) (ha : alloc' = Tbl.set s.alloc ip r) (s' : State) (hs : s'.alloc = alloc')
    (hnd : (Tbl.keys s'.alloc).Nodup) : ∀ j, j ∈ ipsOfKey s' k ↔ j = ip := by
  intro j
  constructor
  · intro hj
    obtain ⟨r', hr', hk'⟩ := owns_of_mem_ipsOfKey hnd hj
    rw [hs, ha, Tbl.get_set] at hr'
    by_cases e : ip = j
    · exact e.symm
    · simp [e] at hr'
      have : j ∈ ipsOfKey s k := mem_ipsOfKey_of_owns ⟨r', hr', hk'⟩
      rw [hn] at this; cases this
  · intro e
    subst e
    apply mem_ipsOfKey_of_owns
    exact ⟨r, by rw [hs, ha]; simp, hk⟩

/-- every way `getSubnet` answers a set leaves a coherent state in which Bind is prepared for each subnet of the set -/
theorem getSubnet_prepared {s : State} {pod : Pod} {ch : Choice} {g : State} {set : List Subnet}
    (hc : Coherent s) (h : getSubnet s pod ch = (g, .ok set)) :
    Coherent g ∧ Frame s g ∧ g.nodeCache = s.nodeCache ∧ ∀ sn, sn ∈ set → Prepared s g pod sn := by
  have hn := hc.allocNodup
  rcases getSubnet_cases s pod ch g set h with
    ⟨ip, hr, hip, hg, hs⟩ | ⟨hr, hu, hg, hs⟩ | ⟨hg, hs⟩ | ⟨hh, hu, hg, hs⟩ | ⟨n, resv, hr, hh, hs, ha⟩
  · -- one owned address, no ranges
    subst hg
    refine ⟨hc, Frame.refl _, rfl, fun sn hsn => ?_⟩
    have hheld := held_nil g pod hr
    have key : AtMostOneWithoutRanges g pod → ∀ j, j ∈ held g pod → hasSubnet g j sn = true := by
      intro hone j hj
      rw [hheld] at hj
      have hl := hone hr
      have : j = ip := by
        cases hl' : ipsOfKey g (keyOf pod) with
        | nil => rw [hl'] at hj; cases hj
        | cons x t =>
          rw [hl'] at hl hj hip
          have ht : t = [] := by cases t with
            | nil => rfl
            | cons _ _ => simp at hl
          subst ht
          simp at hj hip
          rw [hj, hip]
      subst this
      rw [hs] at hsn
      exact (mem_subnetsOf g j sn).mp hsn
    refine ⟨fun hcase => ?_, key, key⟩
    rcases hcase with hcase | hcase
    · exfalso; apply hcase; unfold unfound; rw [hr]; simp [unfoundRanges]
    · rw [hheld] at hcase; rw [hcase] at hip; cases hip
  · -- every range list owned
    subst hg
    refine ⟨hc, Frame.refl _, rfl, fun sn hsn => ?_⟩
    have hne := held_ne_of_allFound g pod hr hu
    have key : ∀ j, j ∈ held g pod → hasSubnet g j sn = true := by
      rw [hs] at hsn
      exact (mem_allocatedSubnets g sn _ hne).mp hsn
    refine ⟨fun hcase => ?_, fun _ => key, fun _ => key⟩
    rcases hcase with hcase | hcase
    · exact absurd hu hcase
    · exact absurd hcase hne
  · subst hg
    refine ⟨hc, Frame.refl _, rfl, fun sn hsn => ?_⟩
    rw [hs] at hsn; cases hsn
  · -- available subnets
    subst hg
    refine ⟨hc, Frame.refl _, rfl, fun sn hsn => ?_⟩
    rw [hs] at hsn
    unfold offered at hsn
    by_cases he : held g pod = []
    · simp only [he, List.isEmpty_nil, if_true] at hsn
      refine ⟨fun _ => (mem_nodeSubnetsByRanges g sn _).mp hsn, fun _ j hj => ?_, fun _ j hj => ?_⟩ <;>
        (rw [he] at hj; cases hj)
    · have he' : (held g pod).isEmpty = false := list_isEmpty_false he
      simp only [he', Bool.false_eq_true, if_false] at hsn
      rw [mem_sinter] at hsn
      have key := (mem_allocatedSubnets g sn _ he).mp hsn.2
      exact ⟨fun _ => (mem_nodeSubnetsByRanges g sn _).mp hsn.1, fun _ => key, fun _ => key⟩
  · -- an address was allocated during the filter
    have hpre : held s pod = [] := by rw [held_nil s pod hr, hh]
    have hheldg : held g pod = ipsOfKey g (keyOf pod) := held_nil g pod hr
    have hunf : unfound g pod = [] := by unfold unfound; rw [hr]; simp [unfoundRanges]
    have hgeq : g = (allocateDuringFilter s (keyOf pod) resv n (fAttr pod) ch.pick).1 := by rw [ha]
    have hok : (allocateDuringFilter s (keyOf pod) resv n (fAttr pod) ch.pick).2 = .ok := by rw [ha]
    unfold allocateDuringFilter at hgeq hok
    cases resv with
    | true =>
      simp only [if_true] at hgeq hok
      have hcg : Coherent g := by rw [hgeq]; exact allocateInSubnetWithKey_coherent _ _ _ _ _ _ hc
      have hfr : Frame s g := by rw [hgeq]; exact (allocateInSubnetWithKey_chg _ _ _ _ _ _).frame
      have hcache : g.nodeCache = s.nodeCache := by rw [hgeq]; exact allocateInSubnetWithKey_cache _ _ _ _ _ _
      obtain ⟨ip, r, _, hsub, halloc⟩ := allocateInSubnetWithKey_ok _ _ _ _ _ hok
      rw [← hgeq] at halloc
      have hmem := ipsOfKey_set (keyOf pod) ip (r.assign (keyOf pod) (fAttr pod) s.clock) rfl hh _ rfl g halloc
        hcg.allocNodup
      refine ⟨hcg, hfr, hcache, fun sn hsn => ?_⟩
      rw [hs] at hsn; simp at hsn; subst hsn
      refine ⟨fun hcase => ?_, fun _ j hj => ?_, fun _ j hj => by rw [hpre] at hj; cases hj⟩
      · rcases hcase with hcase | hcase
        · exact absurd hunf hcase
        · rw [hheldg] at hcase
          have := (hmem ip).mpr rfl
          rw [hcase] at this; cases this
      · rw [hheldg] at hj
        have := (hmem j).mp hj
        subst this
        unfold hasSubnet at hsub ⊢
        rw [hfr.pools]; exact hsub
    | false =>
      simp only [Bool.false_eq_true, if_false] at hgeq hok
      have hcg : Coherent g := by rw [hgeq]; exact allocateInSubnet_coherent _ _ _ _ _ hc
      have hfr : Frame s g := by rw [hgeq]; exact (allocateInSubnet_chg _ _ _ _ _ hc).frame
      have hcache : g.nodeCache = s.nodeCache := by rw [hgeq]; exact allocateInSubnet_cache _ _ _ _ _
      obtain ⟨ip, _, hsub, halloc⟩ := allocateInSubnet_ok _ _ _ _ hok
      rw [← hgeq] at halloc
      have hmem := ipsOfKey_set (keyOf pod) ip (mkRec (keyOf pod) (fAttr pod) s.clock) rfl hh _ rfl g halloc
        hcg.allocNodup
      refine ⟨hcg, hfr, hcache, fun sn hsn => ?_⟩
      rw [hs] at hsn; simp at hsn; subst hsn
      refine ⟨fun hcase => ?_, fun _ j hj => ?_, fun _ j hj => by rw [hpre] at hj; cases hj⟩
      · rcases hcase with hcase | hcase
        · exact absurd hunf hcase
        · rw [hheldg] at hcase
          have := (hmem ip).mpr rfl
          rw [hcase] at this; cases this
      · rw [hheldg] at hj
        have := (hmem j).mp hj
        subst this
        unfold hasSubnet at hsub ⊢
        rw [hfr.pools]; exact hsub

/-- what holds after a Filter that approved `node` -/
structure Approved (s f : State) (ns name : String) (pod : Pod) (nodes : List String) (node : String) (sn : Subnet) :
    Prop where
  coh : Coherent f
  lister : Tbl.get f.vPods (ns, name) = some pod
  truth : Tbl.get f.pods (ns, name) = some pod
  pools : f.pools = s.pools
  nodesEq : f.nodes = s.nodes
  fault : f.fault = s.fault
  pfault : f.pfault = s.pfault
  cacheOK : CacheOK f
  mem : node ∈ nodes
  subnet : nodeSubnetOfNode s node = some sn
  cached : Tbl.get f.nodeCache node = some sn
  prepared : Prepared s f pod sn

theorem cacheOK_of_frame {s g : State} (h : CacheOK s) (fr : Frame s g) (hc : g.nodeCache = s.nodeCache) : CacheOK g := by
  intro n sn hn
  rw [hc] at hn
  have := h n sn hn
  unfold nodeSubnetOfNode at this ⊢
  rw [fr.nodes, fr.pools]; exact this

theorem nodeSubnetOfNode_frame {s g : State} (fr : Frame s g) (n : String) : nodeSubnetOfNode g n = nodeSubnetOfNode s n := by
  unfold nodeSubnetOfNode
  rw [fr.nodes, fr.pools]

theorem filter_approved {s : State} {ns name : String} {pod : Pod} (h : Scene s ns name pod) (nodes : List String)
    (ch : Choice) (node : String) (hn : node ∈ (filter s ns name nodes ch).2.nodes) :
    ∃ sn, Approved s (filter s ns name nodes ch).1 ns name pod nodes node sn := by
  unfold filter at hn ⊢
  simp only [h.truth, h.wants, Bool.not_true, Bool.false_eq_true, if_false] at hn ⊢
  cases hg : getSubnet s pod ch with
  | mk g res =>
    cases res with
    | error e =>
      rw [hg] at hn
      cases e <;> simp [Out.bad] at hn
    | ok set =>
      rw [hg] at hn
      dsimp only at hn ⊢
      obtain ⟨hcg, hfr, hcache, hprep⟩ := getSubnet_prepared h.coh hg
      have hcok : CacheOK g := cacheOK_of_frame h.cache hfr hcache
      obtain ⟨f1, f2, f3, _, f5⟩ := filterNodes_spec set nodes [] g hcok
      rw [f3] at hn
      rcases hn with hn | ⟨hmem, sn, hsn, hin⟩
      · cases hn
      · obtain ⟨c, hc⟩ := f1
        refine ⟨sn, ?_⟩
        have hp := hprep sn hin
        have hcached := f5 node sn hmem hsn
        rw [nodeSubnetOfNode_frame hfr] at hsn
        revert f2 hcached
        rw [hc]
        intro f2 hcached
        exact {
          coh := ⟨hcg.agree, hcg.disjoint, hcg.allocConf, hcg.freeConf, hcg.allocNodup, hcg.storeNodup⟩
          lister := by show Tbl.get g.vPods _ = _; rw [hfr.vPods]; exact h.lister
          truth := by show Tbl.get g.pods _ = _; rw [hfr.pods]; exact h.truth
          pools := hfr.pools
          nodesEq := hfr.nodes
          fault := hfr.fault
          pfault := hfr.pfault
          cacheOK := f2
          mem := hmem
          subnet := hsn
          cached := hcached
          prepared := ⟨hp.free, hp.routable, hp.routablePre⟩ }

end Galaxy.Plugin.C06
