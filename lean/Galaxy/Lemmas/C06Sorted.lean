/-
  C06 lemmas, part 12: a pod WITHOUT requested ranges whose key holds addresses - which one Filter looks at and which
  one Bind writes (the address `Choice.first` resolves to), and the consequence of a sorted `ByKeyAndIPRanges(key, nil)`
  (`choiceIsMin`): it is the lowest one in both places.
-/
import Galaxy.Lemmas.C06Dec

namespace Galaxy.Plugin.C06
open Galaxy Galaxy.Plugin

theorem minIP_spec : ∀ (l : List Nat) (m : Nat), minIP l = some m → m ∈ l ∧ ∀ x : Nat, x ∈ l → m ≤ x := by
  intro l
  induction l with
  | nil => intro m h; cases h
  | cons x t ih =>
    intro m h
    unfold minIP at h
    cases ht : minIP t with
    | none =>
      rw [ht] at h; cases h
      have : t = [] := by
        cases t with
        | nil => rfl
        | cons y u => unfold minIP at ht; split at ht <;> cases ht
      subst this
      exact ⟨by simp, fun y hy => by simp at hy; omega⟩
    | some m' =>
      rw [ht] at h
      obtain ⟨h1, h2⟩ := ih m' ht
      simp only [Option.some.injEq] at h
      by_cases hx : x ≤ m'
      · rw [if_pos hx] at h; subst h
        exact ⟨by simp, fun y hy => by
          rcases List.mem_cons.mp hy with e | hm
          · omega
          · have := h2 y hm; omega⟩
      · rw [if_neg hx] at h; subst h
        exact ⟨List.mem_cons_of_mem _ h1, fun y hy => by
          rcases List.mem_cons.mp hy with e | hm
          · omega
          · exact h2 y hm⟩

theorem minIP_isSome {l : List IP} (h : l ≠ []) : ∃ m, minIP l = some m := by
  cases l with
  | nil => exact absurd rfl h
  | cons x t =>
    unfold minIP
    cases minIP t with
    | none => exact ⟨x, rfl⟩
    | some m => exact ⟨_, rfl⟩

/-- under the sorted fact the address `Choice.first` resolves to is the lowest address of the key -/
theorem choiceIsMin_first {s : State} {pod : Pod} {ch : Choice} (h : choiceIsMin true s pod ch = true)
    (hr : pod.ranges = []) (hk : ipsOfKey s (keyOf pod) ≠ []) {ip : IP}
    (hp : pickFirst ((ipsOfKey s (keyOf pod)).map some) ch.first = some ip) :
    minIP (ipsOfKey s (keyOf pod)) = some ip := by
  unfold choiceIsMin at h
  have h1 : pod.ranges.isEmpty = true := by rw [hr]; rfl
  have h2 : (ipsOfKey s (keyOf pod)).isEmpty = false := list_isEmpty_false hk
  simp only [Bool.not_true, Bool.false_or, h1, h2, beq_iff_eq] at h
  rw [← h, hp]

/-- Filter for a pod without ranges whose key holds addresses: approved nodes are exactly the candidates whose subnet is
    listed by the pool of the address `Choice.first` resolves to; nothing but the node-subnet cache changes -/
theorem filter_reuse {s : State} {ns name : String} {pod : Pod} (h : Scene s ns name pod) (nodes : List String)
    (ch : Choice) (hr : pod.ranges = []) (hk : ipsOfKey s (keyOf pod) ≠ []) (node : String)
    (hn : node ∈ (filter s ns name nodes ch).2.nodes) :
    ∃ ip sn, pickFirst ((ipsOfKey s (keyOf pod)).map some) ch.first = some ip ∧
      nodeSubnetOfNode s node = some sn ∧ hasSubnet s ip sn = true ∧ CacheOnly s (filter s ns name nodes ch).1 := by
  have hne : (ipsOfKey s (keyOf pod)).map some ≠ [] := by
    intro e; apply hk
    cases hl : ipsOfKey s (keyOf pod) with
    | nil => rfl
    | cons _ _ => rw [hl] at e; cases e
  have hg : getSubnet s pod ch = match pickFirst ((ipsOfKey s (keyOf pod)).map some) ch.first with
      | none => (s, .error .inadmissible)
      | some ip => (s, .ok (subnetsOf s.pools ip)) := by
    unfold getSubnet
    simp only [hr, List.isEmpty_nil, if_true, byKeyAndRanges_nil]
    cases hm : List.map some (ipsOfKey s (keyOf pod)) with
    | nil => exact absurd hm hne
    | cons _ _ => rfl
  unfold filter at hn ⊢
  simp only [h.truth, h.wants, Bool.not_true, Bool.false_eq_true, if_false, hg] at hn ⊢
  cases hp : pickFirst ((ipsOfKey s (keyOf pod)).map some) ch.first with
  | none => rw [hp] at hn; simp [Out.bad] at hn
  | some ip =>
    rw [hp] at hn
    simp only at hn ⊢
    obtain ⟨f1, _, f3, _, _⟩ := filterNodes_spec (subnetsOf s.pools ip) nodes [] s h.cache
    rw [f3] at hn
    rcases hn with hn | ⟨_, sn, hsn, hin⟩
    · cases hn
    · exact ⟨ip, sn, rfl, hsn, (mem_subnetsOf s ip sn).mp hin, f1⟩

/-- Bind for a pod without ranges whose key holds addresses: ok or waiting (or the named first address is not one of
    the key's), and when ok the annotation is exactly the address `Choice.first` resolves to -/
theorem bind_reuse (F : Facts) {t : State} {ns name : String} {pod : Pod} {uid : Nat} (node : String)
    (hs : BindScene t ns name pod uid) (ch : Choice) (hans : ch.answer = .truthful) (hr : pod.ranges = [])
    (hk : ipsOfKey t (keyOf pod) ≠ []) (hok : (bind F t ns name uid node ch).2.res = .ok) :
    ∃ ip, pickFirst ((ipsOfKey t (keyOf pod)).map some) ch.first = some ip ∧
      (bind F t ns name uid node ch).2.ips = [toHInfo t ip] := by
  have hne : (List.map some (ipsOfKey t (keyOf pod))).isEmpty = false := by
    cases h : ipsOfKey t (keyOf pod) with
    | nil => exact absurd h hk
    | cons _ _ => rfl
  cases hp : pickFirst ((ipsOfKey t (keyOf pod)).map some) ch.first with
  | none =>
    have hi : bindInfos t pod ch = none := by
      unfold bindInfos
      simp only [hr, List.isEmpty_nil, Bool.true_and, byKeyAndRanges_nil, hne, Bool.not_false, if_true, hp, Option.map_none]
    rw [bind_bad F t ns name uid node ch pod hs.lister hs.wants hs.uid hi] at hok; cases hok
  | some ip0 =>
    have hi : bindInfos t pod ch = some [some ip0] := by
      unfold bindInfos
      simp only [hr, List.isEmpty_nil, Bool.true_and, byKeyAndRanges_nil, hne, Bool.not_false, if_true, hp, Option.map_some]
    have hmem : ip0 ∈ ipsOfKey t (keyOf pod) := by simpa using pickFirst_mem hp
    cases hu : (F.bindChecksUID && uidConflict F t pod [some ip0]) with
    | true => rw [bind_waiting F t ns name uid node ch pod hs.lister hs.wants hs.uid _ hi hu] at hok; cases hok
    | false =>
      have hAeq : bindAlloc t pod node { policy := policyOf pod, node := node, uid := pod.uid } [some ip0] ch.pick =
          (t, .ok, [some ip0]) := by
        unfold bindAlloc
        simp [hr, unfoundRanges]
      have fin := bind_finish F node hs ch hans [some ip0] hi hu _ _ hAeq hs.coh (Frame.refl t)
        (fun j hj _ => by
          simp at hj; subst hj
          exact owns_of_mem_ipsOfKey hs.coh.allocNodup hmem)
      exact ⟨ip0, rfl, by rw [fin.2]; rfl⟩

end Galaxy.Plugin.C06
