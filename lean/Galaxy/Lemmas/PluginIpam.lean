/-
  M4-core proofs, part 3: every IPAM operation keeps the tables coherent and changes records only in the way its
  guard allows (`Evolves` for operations that stay away from live keys, `Touched` for the operations of Bind).
-/
import Galaxy.Lemmas.PluginStore

namespace Galaxy.Plugin
open Galaxy

/-- under key `k` a record with uid `u` may appear -/
def NewOKKey (_P : Pods) (_k : Key) (_u : Uid) : Prop := True

theorem newOK_mkRec {P : Pods} {k : Key} {a : Attr} (ts : Nat) (_h : NewOKKey P k a.uid) : NewOK P (mkRec k a ts) :=
  trivial

theorem newOK_assign {P : Pods} {k : Key} {a : Attr} (r : Rec) (ts : Nat) (_h : NewOKKey P k a.uid) :
    NewOK P (r.assign k a ts) := trivial

/-- the safety of the live bound pods of `P` in the record table of `s` -/
structure Safe (P : Pods) (s : State) : Prop where
  own : ∀ q, LiveBound P q → ∀ h, h ∈ q.handed →
    ∃ r, Tbl.get s.alloc h.ip = some r ∧ r.key = keyOf q ∧ r.uid = q.uid
  -- an administrator's reservation is in the record table, under its own (non-pod) key
  admin : ∀ ip r, Tbl.get s.admin ip = some r → Tbl.get s.alloc ip = some r ∧ r.key.isAdmin = true

theorem Safe.evolves {P : Pods} {s s' : State} (h : Safe P s) (e : Evolves P s s') : Safe P s' := by
  refine ⟨fun q hq hd hmem => ?_, fun ip r hr => ?_⟩
  · obtain ⟨r, hr, hk, hu⟩ := h.own q hq hd hmem
    rcases e.recs hd.ip with e1 | c1
    · exact ⟨r, by rw [e1]; exact hr, hk, hu⟩
    · exact absurd (Or.inl ⟨q, hq, hk.symm⟩) (c1.1 r hr)
  · rw [e.frame.admin] at hr
    obtain ⟨ha, hk⟩ := h.admin ip r hr
    rcases e.recs ip with e1 | c1
    · exact ⟨by rw [e1]; exact ha, hk⟩
    · exact absurd (Or.inr hk) (c1.1 r ha)

/-- no pod's key is the key of an administrator's reservation -/
theorem keyOf_not_admin (q : Pod) : (keyOf q).isAdmin = false := by
  have h1 : Generated.Plugin.statefulsetPrefixKey ≠ "" := by decide
  have h2 : Generated.Plugin.deploymentPrefixKey ≠ "" := by decide
  have h3 : Generated.Plugin.noRefAppTypePrefix ≠ "" := by decide
  unfold keyOf mkKey Key.isAdmin
  cases q.kind <;> simp [Kind.prefix] <;> (repeat' split) <;> simp_all [Key.empty]

theorem keyOf_poolPrefix_not_admin (q : Pod) : (keyOf q).poolPrefix.isAdmin = false := by
  have h1 : Generated.Plugin.statefulsetPrefixKey ≠ "" := by decide
  have h2 : Generated.Plugin.deploymentPrefixKey ≠ "" := by decide
  have h3 : Generated.Plugin.noRefAppTypePrefix ≠ "" := by decide
  unfold keyOf mkKey Key.poolPrefix Key.isAdmin
  cases q.kind <;> simp [Kind.prefix] <;> (repeat' split) <;> simp_all [Key.empty]

theorem keyOf_poolAppPrefix_not_admin (q : Pod) : (keyOf q).poolAppPrefix.isAdmin = false := by
  have h1 : Generated.Plugin.statefulsetPrefixKey ≠ "" := by decide
  have h2 : Generated.Plugin.deploymentPrefixKey ≠ "" := by decide
  have h3 : Generated.Plugin.noRefAppTypePrefix ≠ "" := by decide
  unfold keyOf mkKey Key.poolAppPrefix Key.poolPrefix Key.isAdmin
  cases q.kind <;> simp [Kind.prefix] <;> (repeat' split) <;> simp_all [Key.empty]

/-- records are only created under / refreshed within key `K`, always with uid `u` -/
structure Touched (K : Key) (u : Uid) (s s' : State) : Prop where
  frame : Frame s s'
  recs : ∀ ip, Tbl.get s'.alloc ip = Tbl.get s.alloc ip ∨
    ∃ r', Tbl.get s'.alloc ip = some r' ∧ r'.key = K ∧ r'.uid = u ∧
      (Tbl.get s.alloc ip = none ∨ ∃ r, Tbl.get s.alloc ip = some r ∧ r.key = K)

theorem Touched.refl (K : Key) (u : Uid) (s : State) : Touched K u s s := ⟨Frame.refl s, fun _ => Or.inl rfl⟩

theorem Touched.of_alloc_eq {K : Key} {u : Uid} {s s' : State} (hf : Frame s s') (ha : s'.alloc = s.alloc) :
    Touched K u s s' := ⟨hf, fun _ => Or.inl (by rw [ha])⟩

theorem Touched.trans {K : Key} {u : Uid} {a b c : State} (h1 : Touched K u a b) (h2 : Touched K u b c) :
    Touched K u a c := by
  refine ⟨h1.frame.trans h2.frame, fun ip => ?_⟩
  rcases h1.recs ip with e1 | ⟨r1, g1, k1, u1, o1⟩ <;> rcases h2.recs ip with e2 | ⟨r2, g2, k2, u2, o2⟩
  · exact Or.inl (e2.trans e1)
  · exact Or.inr ⟨r2, g2, k2, u2, by rw [← e1]; exact o2⟩
  · exact Or.inr ⟨r1, by rw [e2]; exact g1, k1, u1, o1⟩
  · exact Or.inr ⟨r2, g2, k2, u2, o1⟩

theorem Safe.touched {P : Pods} {K : Key} {u : Uid} {s s' : State} (h : Safe P s) (t : Touched K u s s')
    (hu : ∀ q, LiveBound P q → keyOf q = K → q.uid = u) (hna : K.isAdmin = false) : Safe P s' := by
  refine ⟨fun q hq hd hmem => ?_, fun ip r hr => ?_⟩
  · obtain ⟨r, hr, hk, hqu⟩ := h.own q hq hd hmem
    rcases t.recs hd.ip with e1 | ⟨r', g', k', u', o'⟩
    · exact ⟨r, by rw [e1]; exact hr, hk, hqu⟩
    · rcases o' with o' | ⟨r0, g0, k0⟩
      · rw [hr] at o'; cases o'
      · rw [hr] at g0; cases g0
        exact ⟨r', g', by rw [k', ← k0, hk], by rw [u', hu q hq (by rw [← hk, k0])]⟩
  · rw [t.frame.admin] at hr
    obtain ⟨ha, hk⟩ := h.admin ip r hr
    rcases t.recs ip with e1 | ⟨r', g', k', u', o'⟩
    · exact ⟨by rw [e1]; exact ha, hk⟩
    · rcases o' with o' | ⟨r0, g0, k0⟩
      · rw [ha] at o'; cases o'
      · rw [ha] at g0; cases g0
        rw [k0, hna] at hk; cases hk

/-! ### the general shape of a change -/

/-- every address whose record differs had an old value satisfying `old` and has a new value satisfying `new` -/
structure Chg (old new : Option Rec → Prop) (s s' : State) : Prop where
  frame : Frame s s'
  recs : ∀ ip, Tbl.get s'.alloc ip = Tbl.get s.alloc ip ∨ (old (Tbl.get s.alloc ip) ∧ new (Tbl.get s'.alloc ip))

theorem Chg.refl (old new : Option Rec → Prop) (s : State) : Chg old new s s := ⟨Frame.refl s, fun _ => Or.inl rfl⟩

theorem Chg.of_alloc_eq {old new : Option Rec → Prop} {s s' : State} (hf : Frame s s') (ha : s'.alloc = s.alloc) :
    Chg old new s s' := ⟨hf, fun _ => Or.inl (by rw [ha])⟩

theorem Chg.trans {old new : Option Rec → Prop} {a b c : State} (h1 : Chg old new a b) (h2 : Chg old new b c) :
    Chg old new a c := by
  refine ⟨h1.frame.trans h2.frame, fun ip => ?_⟩
  rcases h1.recs ip with e1 | c1 <;> rcases h2.recs ip with e2 | c2
  · exact Or.inl (e2.trans e1)
  · exact Or.inr ⟨e1 ▸ c2.1, c2.2⟩
  · exact Or.inr ⟨c1.1, e2 ▸ c1.2⟩
  · exact Or.inr ⟨c1.1, c2.2⟩

theorem Chg.mono {old new old' new' : Option Rec → Prop} {s s' : State} (h : Chg old new s s')
    (ho : ∀ o, old o → old' o) (hn : ∀ n, new n → new' n) : Chg old' new' s s' :=
  ⟨h.frame, fun ip => (h.recs ip).imp id (fun c => ⟨ho _ c.1, hn _ c.2⟩)⟩

/-- one address changes -/
theorem Chg.single {old new : Option Rec → Prop} {s s' : State} (ip : IP) (t : Tbl IP Rec) (hf : Frame s s')
    (ha : ∀ j, ip ≠ j → Tbl.get s'.alloc j = Tbl.get s.alloc j) (ho : old (Tbl.get s.alloc ip))
    (hn : new (Tbl.get s'.alloc ip)) : Chg old new s s' := by
  refine ⟨hf, fun j => ?_⟩
  by_cases hj : ip = j
  · subst hj; exact Or.inr ⟨ho, hn⟩
  · exact Or.inl (ha j hj)

theorem Chg.evolves {P : Pods} {old new : Option Rec → Prop} {s s' : State} (h : Chg old new s s')
    (ho : ∀ o, old o → ∀ r, o = some r → ¬ LiveKey P r.key) (hn : ∀ n, new n → ∀ r, n = some r → NewOK P r) :
    Evolves P s s' :=
  ⟨h.frame, fun ip => (h.recs ip).imp id (fun c => ⟨ho _ c.1, hn _ c.2⟩)⟩

theorem Chg.touched {K : Key} {u : Uid} {old new : Option Rec → Prop} {s s' : State} (h : Chg old new s s')
    (ho : ∀ o, old o → o = none ∨ ∃ r, o = some r ∧ r.key = K)
    (hn : ∀ n, new n → ∃ r, n = some r ∧ r.key = K ∧ r.uid = u) : Touched K u s s' :=
  ⟨h.frame, fun ip => (h.recs ip).imp id (fun c => by
    obtain ⟨r, hr, hk, hu⟩ := hn _ c.2
    exact ⟨r, hr, hk, hu, ho _ c.1⟩)⟩

/-- predicates on old / new values used below -/
def isFree : Option Rec → Prop := fun o => o = none
def hasKey (k : Key) : Option Rec → Prop := fun o => ∃ r, o = some r ∧ r.key = k
def hasKeyUid (k : Key) (u : Uid) : Option Rec → Prop := fun o => ∃ r, o = some r ∧ r.key = k ∧ r.uid = u

/-! ### single-address operations -/

theorem allocateSpecific_coherent (s : State) (key : Key) (ip : IP) (a : Attr) (h : Coherent s) :
    Coherent (allocateSpecific s key ip a).1 := by
  unfold allocateSpecific
  dsimp only
  split
  · exact h
  · rename_i hin
    have hin' : ip ∈ s.free := by simpa using hin
    have st := stCreate_step s ip (mkRec key a s.clock)
    have ss := stCreate_store s ip (mkRec key a s.clock)
    split
    · rename_i hc
      have hc' : (stCreate s ip (mkRec key a s.clock)).2 = false := by simpa using hc
      exact coherent_of_eq h st.frame.pools st.alloc (ss.2 hc') st.free
    · rename_i hc
      have hc' : (stCreate s ip (mkRec key a s.clock)).2 = true := by simpa using hc
      exact coherent_alloc ip (mkRec key a s.clock) h hin' (by simp [st.frame.pools]) (by simp [st.alloc])
        (by simp [ss.1 hc']) (by simp [st.free])

theorem allocateSpecific_chg (s : State) (key : Key) (ip : IP) (a : Attr) (h : Coherent s) :
    Chg isFree (hasKeyUid key a.uid) s (allocateSpecific s key ip a).1 := by
  unfold allocateSpecific
  dsimp only
  split
  · exact Chg.refl _ _ s
  · rename_i hin
    have hin' : ip ∈ s.free := by simpa using hin
    have st := stCreate_step s ip (mkRec key a s.clock)
    split
    · exact Chg.of_alloc_eq st.frame st.alloc
    · exact Chg.single ip s.alloc (st.frame.trans (memAlloc_frame _ _ _)) (fun j hj => by simp [st.alloc, hj])
        (h.disjoint ip hin') ⟨mkRec key a s.clock, by simp [st.alloc], rfl, rfl⟩

theorem allocateInSubnet_coherent (s : State) (key : Key) (n : Subnet) (a : Attr) (ch : Option IP) (h : Coherent s) :
    Coherent (allocateInSubnet s key n a ch).1 := by
  unfold allocateInSubnet
  dsimp only
  split
  · exact h
  · split
    · exact h
    · rename_i ip
      split
      · exact h
      · rename_i hin
        have hin' : ip ∈ s.free := by
          have : ip ∈ s.free.filter (fun ip => hasSubnet s ip n) := by simpa using hin
          exact (List.mem_filter.mp this).1
        have st := stCreate_step s ip (mkRec key a s.clock)
        have ss := stCreate_store s ip (mkRec key a s.clock)
        split
        · rename_i hc
          have hc' : (stCreate s ip (mkRec key a s.clock)).2 = false := by simpa using hc
          exact coherent_of_eq h st.frame.pools st.alloc (ss.2 hc') st.free
        · rename_i hc
          have hc' : (stCreate s ip (mkRec key a s.clock)).2 = true := by simpa using hc
          exact coherent_alloc ip (mkRec key a s.clock) h hin' (by simp [st.frame.pools]) (by simp [st.alloc])
            (by simp [ss.1 hc']) (by simp [st.free])

theorem allocateInSubnet_chg (s : State) (key : Key) (n : Subnet) (a : Attr) (ch : Option IP) (h : Coherent s) :
    Chg isFree (hasKeyUid key a.uid) s (allocateInSubnet s key n a ch).1 := by
  unfold allocateInSubnet
  dsimp only
  split
  · exact Chg.refl _ _ s
  · split
    · exact Chg.refl _ _ s
    · rename_i ip
      split
      · exact Chg.refl _ _ s
      · rename_i hin
        have hin' : ip ∈ s.free := by
          have : ip ∈ s.free.filter (fun ip => hasSubnet s ip n) := by simpa using hin
          exact (List.mem_filter.mp this).1
        have st := stCreate_step s ip (mkRec key a s.clock)
        split
        · exact Chg.of_alloc_eq st.frame st.alloc
        · exact Chg.single ip s.alloc (st.frame.trans (memAlloc_frame _ _ _)) (fun j hj => by simp [st.alloc, hj])
            (h.disjoint ip hin') ⟨mkRec key a s.clock, by simp [st.alloc], rfl, rfl⟩

theorem allocateInSubnetWithKey_coherent (s : State) (oldK newK : Key) (n : Subnet) (a : Attr) (ch : Option IP)
    (h : Coherent s) : Coherent (allocateInSubnetWithKey s oldK newK n a ch).1 := by
  unfold allocateInSubnetWithKey
  dsimp only
  split
  · exact h
  · split
    · exact h
    · rename_i ip
      split
      · exact h
      · rename_i r hr
        split
        · exact h
        · have st := stUpdate_step s ip (r.assign newK a s.clock)
          have ss := stUpdate_store s ip (r.assign newK a s.clock)
          split
          · rename_i hc
            have hc' : (stUpdate s ip (r.assign newK a s.clock)).2 = false := by simpa using hc
            exact coherent_of_eq h st.frame.pools st.alloc (ss.2 hc') st.free
          · rename_i hc
            have hc' : (stUpdate s ip (r.assign newK a s.clock)).2 = true := by simpa using hc
            exact coherent_set ip r (r.assign newK a s.clock) h hr (by simp [st.frame.pools]) (by simp [st.alloc])
              (by simp [ss.1 hc']) (by simp [st.free])

theorem allocateInSubnetWithKey_chg (s : State) (oldK newK : Key) (n : Subnet) (a : Attr) (ch : Option IP) :
    Chg (hasKey oldK) (hasKeyUid newK a.uid) s (allocateInSubnetWithKey s oldK newK n a ch).1 := by
  unfold allocateInSubnetWithKey
  dsimp only
  split
  · exact Chg.refl _ _ s
  · split
    · exact Chg.refl _ _ s
    · rename_i ip
      split
      · exact Chg.refl _ _ s
      · rename_i r hr
        split
        · exact Chg.refl _ _ s
        · rename_i hadm
          have hk : r.key = oldK := by
            simp only [Bool.not_eq_true, Bool.not_eq_eq_eq_not, Bool.not_true, Bool.not_eq_false, Bool.and_eq_true,
              decide_eq_true_eq] at hadm
            exact hadm.1.1
          have st := stUpdate_step s ip (r.assign newK a s.clock)
          split
          · exact Chg.of_alloc_eq st.frame st.alloc
          · exact Chg.single ip s.alloc
              ⟨st.frame.pods, st.frame.vPods, st.frame.events, st.frame.nextUid, st.frame.pools, st.frame.nodes,
               st.frame.apps, st.frame.vApps, st.frame.poolObjs, st.frame.vPoolObjs, st.frame.provOn, st.frame.fault,
               st.frame.pfault, st.frame.clock, st.frame.callsMono, st.frame.admin⟩
              (fun j hj => by simp [st.alloc, hj]) ⟨r, hr, hk⟩ ⟨r.assign newK a s.clock, by simp [st.alloc], rfl, rfl⟩

theorem updateAttr_coherent (s : State) (key : Key) (ip : IP) (a : Attr) (h : Coherent s) :
    Coherent (updateAttr s key ip a).1 := by
  unfold updateAttr
  dsimp only
  split
  · exact h
  · rename_i r hr
    split
    · exact h
    · have st := stUpdate_step s ip (r.assign r.key a s.clock)
      have ss := stUpdate_store s ip (r.assign r.key a s.clock)
      split
      · rename_i hc
        have hc' : (stUpdate s ip (r.assign r.key a s.clock)).2 = false := by simpa using hc
        exact coherent_of_eq h st.frame.pools st.alloc (ss.2 hc') st.free
      · rename_i hc
        have hc' : (stUpdate s ip (r.assign r.key a s.clock)).2 = true := by simpa using hc
        exact coherent_set ip r (r.assign r.key a s.clock) h hr (by simp [st.frame.pools]) (by simp [st.alloc])
          (by simp [ss.1 hc']) (by simp [st.free])

theorem updateAttr_chg (s : State) (key : Key) (ip : IP) (a : Attr) :
    Chg (hasKey key) (hasKeyUid key a.uid) s (updateAttr s key ip a).1 := by
  unfold updateAttr
  dsimp only
  split
  · exact Chg.refl _ _ s
  · rename_i r hr
    split
    · exact Chg.refl _ _ s
    · rename_i hk
      have hk' : r.key = key := by simpa using hk
      have st := stUpdate_step s ip (r.assign r.key a s.clock)
      split
      · exact Chg.of_alloc_eq st.frame st.alloc
      · exact Chg.single ip s.alloc
          ⟨st.frame.pods, st.frame.vPods, st.frame.events, st.frame.nextUid, st.frame.pools, st.frame.nodes,
           st.frame.apps, st.frame.vApps, st.frame.poolObjs, st.frame.vPoolObjs, st.frame.provOn, st.frame.fault,
           st.frame.pfault, st.frame.clock, st.frame.callsMono, st.frame.admin⟩
          (fun j hj => by simp [st.alloc, hj]) ⟨r, hr, hk'⟩ ⟨r.assign r.key a s.clock, by simp [st.alloc], hk', rfl⟩

/-- after a successful `updateAttr` the address is stored under the key with the new uid -/
theorem updateAttr_ok (s : State) (key : Key) (ip : IP) (a : Attr) (h : (updateAttr s key ip a).2 = .ok) :
    hasKeyUid key a.uid (Tbl.get (updateAttr s key ip a).1.alloc ip) := by
  revert h
  unfold updateAttr
  dsimp only
  split
  · intro h; cases h
  · rename_i r hr
    split
    · intro h; cases h
    · rename_i hk
      have hk' : r.key = key := by simpa using hk
      split
      · intro h; cases h
      · intro _; exact ⟨r.assign r.key a s.clock, by simp, hk', rfl⟩

theorem release_coherent (s : State) (key : Key) (ip : IP) (h : Coherent s) : Coherent (release s key ip).1 := by
  unfold release
  dsimp only
  split
  · exact h
  · rename_i r hr
    split
    · exact h
    · have st := stDelete_step s ip
      have ss := stDelete_store s ip
      split
      · rename_i hc
        have hc' : (stDelete s ip).2 = false := by simpa using hc
        exact coherent_of_eq h st.frame.pools st.alloc (ss.2 hc') st.free
      · rename_i hc
        have hc' : (stDelete s ip).2 = true := by simpa using hc
        exact coherent_erase ip r h hr (by simp [st.frame.pools]) (by simp [st.alloc]) (by simp [ss.1 hc'])
          (by simp [st.free])

theorem release_chg (s : State) (key : Key) (ip : IP) : Chg (hasKey key) isFree s (release s key ip).1 := by
  unfold release
  dsimp only
  split
  · exact Chg.refl _ _ s
  · rename_i r hr
    split
    · exact Chg.refl _ _ s
    · rename_i hk
      have hk' : r.key = key := by simpa using hk
      have st := stDelete_step s ip
      split
      · exact Chg.of_alloc_eq st.frame st.alloc
      · exact Chg.single ip s.alloc (st.frame.trans (memFree_frame _ _)) (fun j hj => by simp [st.alloc, hj])
          ⟨r, hr, hk'⟩ (by simp [isFree, st.alloc])

end Galaxy.Plugin
