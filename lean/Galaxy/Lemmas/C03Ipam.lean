/-
  C03 proofs, part 2: what `ReserveIP` and `ReleaseIPs` do to the records - policy and key of every surviving record
  (memory and store), and, when no call fails, that they do ALL of their work.
-/
import Galaxy.Lemmas.C03Decision

namespace Galaxy.Plugin.C03
open Galaxy Galaxy.Plugin

/-! ### store update without a pending fault -/

theorem stUpdate_spent (s : State) (ip : IP) (r : Rec) (h : FaultSpent s) : FaultSpent (stUpdate s ip r).1 := by
  have h1 := api_spent s (Or.inl h)
  have h2 := api_spent s.api.1 (Or.inl h1)
  unfold stUpdate
  dsimp only
  split
  · exact h1
  · split
    · exact h1
    · split
      · exact h2
      · exact h2

theorem stUpdate_ok_of_spent (s : State) (ip : IP) (r : Rec) (h : FaultSpent s) (hs : (Tbl.get s.store ip).isSome) :
    (stUpdate s ip r).2 = true := by
  have h1 := api_spent s (Or.inl h)
  unfold stUpdate
  dsimp only
  have e1 : Tbl.get s.api.1.store ip = Tbl.get s.store ip := rfl
  cases hg : Tbl.get s.store ip with
  | none => simp [hg] at hs
  | some v => simp [api_ok_of_spent h, api_ok_of_spent h1, e1, hg]

theorem faultSpent_of_zero {s : State} (h : s.fault = 0) : FaultSpent s := Or.inl h

/-! ### records under `ReserveIP` -/

/-- memory: every record after `ReserveIP` comes from a record before it, with the SAME policy, and its key is the old
    one or `newK` - whatever the attributes, whichever store call fails -/
theorem reserveLoop_recs (oldK newK : Key) (a : Attr) (ips : List IP) :
    ∀ s ip r', Tbl.get (reserveLoop s oldK newK a ips).1.alloc ip = some r' →
      ∃ r, Tbl.get s.alloc ip = some r ∧ r'.policy = r.policy ∧ (r'.key = r.key ∨ (r.key = oldK ∧ r'.key = newK)) := by
  induction ips with
  | nil => intro s ip r' h; exact ⟨r', h, rfl, Or.inl rfl⟩
  | cons j t ih =>
    intro s ip r' h
    unfold reserveLoop at h
    split at h
    · exact ih s ip r' h
    · rename_i r hr
      dsimp only at h
      split at h
      · exact ih s ip r' h
      · rename_i hk
        have hk' : r.key = oldK := by simpa using hk
        split at h
        · exact ih s ip r' h
        · have st := stUpdate_step s j (r.assign newK { a with policy := r.policy } s.clock)
          split at h
          · rw [st.alloc] at h; exact ⟨r', h, rfl, Or.inl rfl⟩
          · obtain ⟨r1, g1, p1, k1⟩ := ih _ ip r' h
            simp only [st.alloc] at g1
            by_cases hij : j = ip
            · subst hij
              simp at g1
              subst g1
              refine ⟨r, hr, p1, ?_⟩
              rcases k1 with k1 | ⟨_, k1⟩
              · right; exact ⟨hk', k1⟩
              · right; exact ⟨hk', k1⟩
            · rw [Tbl.get_set_ne _ _ hij] at g1
              exact ⟨r1, g1, p1, k1⟩

/-- store: every object after `ReserveIP` is an object from before, or the persisted clone of a memory record with that
    record's policy -/
theorem reserveLoop_store (oldK newK : Key) (a : Attr) (ips : List IP) :
    ∀ s ip r', Tbl.get (reserveLoop s oldK newK a ips).1.store ip = some r' →
      Tbl.get s.store ip = some r' ∨ ∃ r, Tbl.get s.alloc ip = some r ∧ r'.policy = r.policy := by
  induction ips with
  | nil => intro s ip r' h; exact Or.inl h
  | cons j t ih =>
    intro s ip r' h
    unfold reserveLoop at h
    split at h
    · exact ih s ip r' h
    · rename_i r hr
      dsimp only at h
      split at h
      · exact ih s ip r' h
      · split at h
        · exact ih s ip r' h
        · have st := stUpdate_step s j (r.assign newK { a with policy := r.policy } s.clock)
          have ss := stUpdate_store s j (r.assign newK { a with policy := r.policy } s.clock)
          split at h
          · rename_i hc
            have hc' : (stUpdate s j (r.assign newK { a with policy := r.policy } s.clock)).2 = false := by simpa using hc
            rw [ss.2 hc'] at h; exact Or.inl h
          · rename_i hc
            have hc' : (stUpdate s j (r.assign newK { a with policy := r.policy } s.clock)).2 = true := by simpa using hc
            rcases ih _ ip r' h with g | ⟨r1, g1, p1⟩
            · simp only [ss.1 hc'] at g
              by_cases hij : j = ip
              · subst hij
                simp at g
                subst g
                exact Or.inr ⟨r, hr, rfl⟩
              · rw [Tbl.get_set_ne _ _ hij] at g
                exact Or.inl g
            · simp only [st.alloc] at g1
              by_cases hij : j = ip
              · subst hij
                simp at g1
                subst g1
                exact Or.inr ⟨r, hr, p1⟩
              · rw [Tbl.get_set_ne _ _ hij] at g1
                exact Or.inr ⟨r1, g1, p1⟩

/-- no record is lost by `ReserveIP` -/
theorem reserveLoop_keeps (oldK newK : Key) (a : Attr) (ips : List IP) :
    ∀ s ip r, Tbl.get s.alloc ip = some r → ∃ r', Tbl.get (reserveLoop s oldK newK a ips).1.alloc ip = some r' := by
  induction ips with
  | nil => intro s ip r h; exact ⟨r, h⟩
  | cons j t ih =>
    intro s ip r0 h
    unfold reserveLoop
    split
    · exact ih s ip r0 h
    · rename_i r hr
      dsimp only
      split
      · exact ih s ip r0 h
      · split
        · exact ih s ip r0 h
        · have st := stUpdate_step s j (r.assign newK { a with policy := r.policy } s.clock)
          split
          · rw [st.alloc]; exact ⟨r0, h⟩
          · apply ih _ ip (if j = ip then r.assign newK { a with policy := r.policy } s.clock else r0)
            simp only [st.alloc]
            by_cases hij : j = ip
            · subst hij; simp
            · simp [hij, h]

/-- with no call left to fail and coherent tables, `ReserveIP(oldK → newK)`, `oldK ≠ newK`, re-keys EVERY record of
    `oldK` it is asked about -/
theorem reserveLoop_done (oldK newK : Key) (a : Attr) (hne : oldK ≠ newK) (ips : List IP) :
    ∀ s, Coherent s → FaultSpent s →
      (reserveLoop s oldK newK a ips).2 = true ∧ Coherent (reserveLoop s oldK newK a ips).1 ∧
      FaultSpent (reserveLoop s oldK newK a ips).1 ∧
      ∀ ip, ip ∈ ips → ∀ r, Tbl.get (reserveLoop s oldK newK a ips).1.alloc ip = some r → r.key ≠ oldK := by
  induction ips with
  | nil => intro s hc hf; exact ⟨rfl, hc, hf, fun ip hm => by cases hm⟩
  | cons j t ih =>
    intro s hc hf
    have hrecs := reserveLoop_recs oldK newK a (j :: t) s
    have self : ∀ r0, Tbl.get s.alloc j = some r0 → r0.key ≠ oldK →
        ∀ r, Tbl.get (reserveLoop s oldK newK a (j :: t)).1.alloc j = some r → r.key ≠ oldK := by
      intro r0 h0 hk0 r hr
      obtain ⟨r1, g1, _, k1⟩ := hrecs j r hr
      rw [h0] at g1; cases g1
      rcases k1 with k1 | ⟨k1, _⟩
      · rw [k1]; exact hk0
      · exact absurd k1 hk0
    unfold reserveLoop
    split
    · rename_i hn
      obtain ⟨h1, h2, h3, h4⟩ := ih s hc hf
      refine ⟨h1, h2, h3, fun ip hm r hr => ?_⟩
      rcases List.mem_cons.mp hm with e | hm'
      · subst e
        obtain ⟨r1, g1, _, _⟩ := reserveLoop_recs oldK newK a t s ip r hr
        rw [hn] at g1; cases g1
      · exact h4 ip hm' r hr
    · rename_i r hr
      dsimp only
      split
      · rename_i hk
        have hk' : r.key ≠ oldK := by simpa using hk
        obtain ⟨h1, h2, h3, h4⟩ := ih s hc hf
        refine ⟨h1, h2, h3, fun ip hm r' hr' => ?_⟩
        rcases List.mem_cons.mp hm with e | hm'
        · subst e
          obtain ⟨r1, g1, _, k1⟩ := reserveLoop_recs oldK newK a t s ip r' hr'
          rw [hr] at g1; cases g1
          rcases k1 with k1 | ⟨k1, _⟩
          · rw [k1]; exact hk'
          · exact absurd k1 hk'
        · exact h4 ip hm' r' hr'
      · rename_i hk
        have hk' : r.key = oldK := by simpa using hk
        split
        · rename_i hsame; exact absurd hsame.1 hne
        · have st := stUpdate_step s j (r.assign newK { a with policy := r.policy } s.clock)
          have ss := stUpdate_store s j (r.assign newK { a with policy := r.policy } s.clock)
          have hok : (stUpdate s j (r.assign newK { a with policy := r.policy } s.clock)).2 = true :=
            stUpdate_ok_of_spent s j _ hf (by rw [hc.agree, hr]; rfl)
          simp only [hok, Bool.not_true, Bool.false_eq_true, if_false]
          have hc1 : Coherent { (stUpdate s j (r.assign newK { a with policy := r.policy } s.clock)).1 with
              alloc := Tbl.set (stUpdate s j (r.assign newK { a with policy := r.policy } s.clock)).1.alloc j
                (r.assign newK { a with policy := r.policy } s.clock) } :=
            coherent_set j r (r.assign newK { a with policy := r.policy } s.clock) hc hr
              (by simp [st.frame.pools]) (by simp [st.alloc]) (by simp [ss.1 hok]) (by simp [st.free])
          have hf1 : FaultSpent { (stUpdate s j (r.assign newK { a with policy := r.policy } s.clock)).1 with
              alloc := Tbl.set (stUpdate s j (r.assign newK { a with policy := r.policy } s.clock)).1.alloc j
                (r.assign newK { a with policy := r.policy } s.clock) } := stUpdate_spent s j _ hf
          obtain ⟨h1, h2, h3, h4⟩ := ih _ hc1 hf1
          refine ⟨h1, h2, h3, fun ip hm r' hr' => ?_⟩
          rcases List.mem_cons.mp hm with e | hm'
          · subst e
            obtain ⟨r1, g1, _, k1⟩ := reserveLoop_recs oldK newK a t _ ip r' hr'
            simp only [st.alloc, Tbl.get_set_self] at g1
            cases g1
            rcases k1 with k1 | ⟨_, k1⟩
            · rw [k1]; exact fun e => hne e.symm
            · rw [k1]; exact fun e => hne e.symm
          · exact h4 ip hm' r' hr'

/-! ### records under `ReleaseIPs` -/

/-- memory: `ReleaseIPs` only removes records -/
theorem releaseIPsLoop_recs (key : Key) (ips : List IP) :
    ∀ s ip r', Tbl.get (releaseIPsLoop s key ips).1.alloc ip = some r' → Tbl.get s.alloc ip = some r' := by
  induction ips with
  | nil => intro s ip r' h; exact h
  | cons j t ih =>
    intro s ip r' h
    unfold releaseIPsLoop at h
    split at h
    · exact ih s ip r' h
    · rename_i r hr
      dsimp only at h
      split at h
      · exact ih s ip r' h
      · have st := stDelete_step s j
        split at h
        · rw [st.alloc] at h; exact h
        · have := ih _ ip r' h
          simp only [memFree_alloc, st.alloc] at this
          by_cases hij : j = ip
          · subst hij; simp at this
          · rw [Tbl.get_erase_ne _ hij] at this; exact this

/-- records of other keys are untouched -/
theorem releaseIPsLoop_other (key : Key) (ips : List IP) :
    ∀ s ip r, Tbl.get s.alloc ip = some r → r.key ≠ key → Tbl.get (releaseIPsLoop s key ips).1.alloc ip = some r := by
  induction ips with
  | nil => intro s ip r h _; exact h
  | cons j t ih =>
    intro s ip r0 h hk0
    unfold releaseIPsLoop
    split
    · exact ih s ip r0 h hk0
    · rename_i r hr
      dsimp only
      split
      · exact ih s ip r0 h hk0
      · rename_i hk
        have hk' : r.key = key := by simpa using hk
        have st := stDelete_step s j
        split
        · rw [st.alloc]; exact h
        · apply ih _ ip r0 _ hk0
          simp only [memFree_alloc, st.alloc]
          have hij : j ≠ ip := by
            intro e; subst e; rw [hr] at h; cases h; exact hk0 hk'
          rw [Tbl.get_erase_ne _ hij]; exact h

/-- with no call left to fail and coherent tables, `ReleaseIPs` releases EVERY record of the key it is asked about -/
theorem releaseIPsLoop_done (key : Key) (ips : List IP) :
    ∀ s, Coherent s → FaultSpent s →
      (releaseIPsLoop s key ips).2 = true ∧ Coherent (releaseIPsLoop s key ips).1 ∧ FaultSpent (releaseIPsLoop s key ips).1 ∧
      ∀ ip, ip ∈ ips → ∀ r, Tbl.get (releaseIPsLoop s key ips).1.alloc ip = some r → r.key ≠ key := by
  induction ips with
  | nil => intro s hc hf; exact ⟨rfl, hc, hf, fun ip hm => by cases hm⟩
  | cons j t ih =>
    intro s hc hf
    unfold releaseIPsLoop
    split
    · rename_i hn
      obtain ⟨h1, h2, h3, h4⟩ := ih s hc hf
      refine ⟨h1, h2, h3, fun ip hm r hr => ?_⟩
      rcases List.mem_cons.mp hm with e | hm'
      · subst e
        have := releaseIPsLoop_recs key t s ip r hr
        rw [hn] at this; cases this
      · exact h4 ip hm' r hr
    · rename_i r hr
      dsimp only
      split
      · rename_i hk
        have hk' : r.key ≠ key := by simpa using hk
        obtain ⟨h1, h2, h3, h4⟩ := ih s hc hf
        refine ⟨h1, h2, h3, fun ip hm r' hr' => ?_⟩
        rcases List.mem_cons.mp hm with e | hm'
        · subst e
          have := releaseIPsLoop_recs key t s ip r' hr'
          rw [hr] at this; cases this; exact hk'
        · exact h4 ip hm' r' hr'
      · have st := stDelete_step s j
        have ss := stDelete_store s j
        have hok : (stDelete s j).2 = true := stDelete_ok_of_spent s j hf (by rw [hc.agree, hr]; rfl)
        simp only [hok, Bool.not_true, Bool.false_eq_true, if_false]
        have hc1 : Coherent (memFree (stDelete s j).1 j) :=
          coherent_erase j r hc hr (by simp [st.frame.pools]) (by simp [st.alloc]) (by simp [ss.1 hok]) (by simp [st.free])
        have hf1 : FaultSpent (memFree (stDelete s j).1 j) := stDelete_spent s j hf
        obtain ⟨h1, h2, h3, h4⟩ := ih _ hc1 hf1
        refine ⟨h1, h2, h3, fun ip hm r' hr' => ?_⟩
        rcases List.mem_cons.mp hm with e | hm'
        · subst e
          have := releaseIPsLoop_recs key t _ ip r' hr'
          simp [st.alloc] at this
        · exact h4 ip hm' r' hr'

/-! ### `releaseIP(key)` / `reserveIP(key, newKey)` of the plugin -/

/-- fault-free `releaseIP(key)`: afterwards no record carries the key; nothing else changed -/
theorem releaseIP_done (s : State) (k : Key) (hc : Coherent s) (hf : FaultSpent s) :
    (releaseIP s k).2 = true ∧ Coherent (releaseIP s k).1 ∧ FaultSpent (releaseIP s k).1 ∧
    ∀ ip r, Tbl.get (releaseIP s k).1.alloc ip = some r → Tbl.get s.alloc ip = some r ∧ r.key ≠ k := by
  obtain ⟨h1, h2, h3, h4⟩ := releaseIPsLoop_done k (ipsOfKey s k) s hc hf
  refine ⟨h1, h2, h3, fun ip r hr => ?_⟩
  have h0 := releaseIPsLoop_recs k (ipsOfKey s k) s ip r hr
  refine ⟨h0, fun hk => ?_⟩
  exact h4 ip (mem_ipsOfKey_of_get h0 hk) r hr hk

/-- fault-free `reserveIP(key, newKey)`, `key ≠ newKey`: afterwards no record carries the old key -/
theorem reserve_done (s : State) (k newK : Key) (a : Attr) (hne : k ≠ newK) (hc : Coherent s) (hf : FaultSpent s) :
    (reserve s k newK a).2 = true ∧ Coherent (reserve s k newK a).1 ∧ FaultSpent (reserve s k newK a).1 ∧
    ∀ ip r', Tbl.get (reserve s k newK a).1.alloc ip = some r' → r'.key ≠ k := by
  obtain ⟨h1, h2, h3, h4⟩ := reserveLoop_done k newK a hne (ipsOfKey s k) s hc hf
  refine ⟨h1, h2, h3, fun ip r' hr' hk => ?_⟩
  obtain ⟨r, g, _, kk⟩ := reserveLoop_recs k newK a (ipsOfKey s k) s ip r' hr'
  have hrk : r.key = k := by
    rcases kk with kk | ⟨kk, _⟩
    · rw [← kk]; exact hk
    · exact kk
  exact h4 ip (mem_ipsOfKey_of_get g hrk) r' hr' hk

theorem reserve_recs (s : State) (k newK : Key) (a : Attr) (ip : IP) (r' : Rec)
    (h : Tbl.get (reserve s k newK a).1.alloc ip = some r') :
    ∃ r, Tbl.get s.alloc ip = some r ∧ r'.policy = r.policy ∧ (r'.key = r.key ∨ (r.key = k ∧ r'.key = newK)) :=
  reserveLoop_recs k newK a _ s ip r' h

theorem reserve_store (s : State) (k newK : Key) (a : Attr) (ip : IP) (r' : Rec)
    (h : Tbl.get (reserve s k newK a).1.store ip = some r') :
    Tbl.get s.store ip = some r' ∨ ∃ r, Tbl.get s.alloc ip = some r ∧ r'.policy = r.policy :=
  reserveLoop_store k newK a _ s ip r' h

theorem reserve_keeps (s : State) (k newK : Key) (a : Attr) (ip : IP) (r : Rec) (h : Tbl.get s.alloc ip = some r) :
    ∃ r', Tbl.get (reserve s k newK a).1.alloc ip = some r' := reserveLoop_keeps k newK a _ s ip r h

theorem releaseIP_recs (s : State) (k : Key) (ip : IP) (r' : Rec) (h : Tbl.get (releaseIP s k).1.alloc ip = some r') :
    Tbl.get s.alloc ip = some r' := releaseIPsLoop_recs k _ s ip r' h

theorem releaseIP_other (s : State) (k : Key) (ip : IP) (r : Rec) (h : Tbl.get s.alloc ip = some r) (hk : r.key ≠ k) :
    Tbl.get (releaseIP s k).1.alloc ip = some r := releaseIPsLoop_other k _ s ip r h hk

end Galaxy.Plugin.C03
