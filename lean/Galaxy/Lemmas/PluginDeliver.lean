/-
  M4-core proofs, part 11: event delivery (unbind with the UID guard).
-/
import Galaxy.Lemmas.PluginFilter

namespace Galaxy.Plugin
open Galaxy

/-- the address is in no live bound pod's binding annotation -/
def NoLive (P : Pods) (ip : IP) : Prop := ¬ ∃ q, LiveBound P q ∧ ip ∈ q.ips

theorem mem_ipsOfKey_of_get {s : State} {ip : IP} {r : Rec} {k : Key} (h : Tbl.get s.alloc ip = some r) (hk : r.key = k) :
    ip ∈ ipsOfKey s k := by
  unfold ipsOfKey
  simp only [List.mem_map, List.mem_filter]
  exact ⟨(ip, r), ⟨Tbl.get_mem h, by simp [hk]⟩, rfl⟩

theorem get_of_mem_ipsOfKey {s : State} {ip : IP} {k : Key} (hn : (Tbl.keys s.alloc).Nodup) (h : ip ∈ ipsOfKey s k) :
    ∃ r, Tbl.get s.alloc ip = some r ∧ r.key = k := by
  unfold ipsOfKey at h
  simp only [List.mem_map, List.mem_filter] at h
  obtain ⟨⟨ip', r⟩, ⟨hm, hk⟩, he⟩ := h
  simp at he hk; subst he
  exact ⟨r, Tbl.get_of_mem_nodup hn hm, hk⟩

theorem noLive_of_key {P : Pods} {s : State} {ip : IP} {r : Rec} (hs : Safe P s) (hg : Tbl.get s.alloc ip = some r)
    (hk : ¬ LiveKey P r.key) : NoLive P ip := by
  rintro ⟨q, hq, hm⟩
  simp only [Pod.ips, List.mem_map] at hm
  obtain ⟨hd, hmem, hip⟩ := hm
  obtain ⟨r', h1, h2, _⟩ := hs.own q hq hd hmem
  rw [hip, hg] at h1; cases h1
  exact hk (Or.inl ⟨q, hq, h2.symm⟩)

theorem uidZero_newOK {P : Pods} (n : Option Rec) (_h : uidZero n) : ∀ r, n = some r → NewOK P r :=
  fun _ _ => trivial

/-- an IPAM-level change of records under a key no live bound pod has -/
theorem Inv.step_of_chg_key {s s' : State} (h : Inv s) (k : Key) (hk : ¬ LiveKey s.pods k) (hc : Coherent s')
    (c : Chg (hasKey k) uidZero s s') : Inv s' := by
  apply h.step_of_evolves hc
  apply c.evolves
  · intro o ho r hr
    obtain ⟨r', h1, h2⟩ := ho
    rw [h1] at hr; cases hr; rw [h2]; exact hk
  · exact fun n hn => uidZero_newOK n hn

theorem Inv.quiet {s s' : State} (h : Inv s) (q : QuietStep s s') : Inv s' :=
  h.of_fields q.frame.pools q.alloc q.free q.store q.frame.pods q.frame.vPods q.frame.events q.frame.nextUid q.frame.admin

/-- the pod of a pending event belongs to no live pod: with the UID guard, delivering it cannot touch a live bound
    pod's address -/
theorem unbind_spec (s : State) (pod : Pod) (h : Inv s) (huid : pod.uid ≠ 0)
    (hdead : ∀ id q, Tbl.get s.pods id = some q → q.uid = pod.uid → q.finished = true) :
    Inv (unbind Facts.good s pod).1 ∧ Frame s (unbind Facts.good s pod).1 ∧
      UnassignsWithin s (unbind Facts.good s pod).1 (NoLive s.pods) := by
  unfold unbind
  simp only [Facts.good, Bool.true_and]
  split
  · exact ⟨h, Frame.refl s, UnassignsWithin.refl s _⟩
  · rename_i hguard
    have hnl : ¬ LiveKey s.pods (keyOf pod) := by
      rintro (⟨q, hq, hk⟩ | hadm)
      · apply hguard
        obtain ⟨hd, hmem⟩ := List.exists_mem_of_ne_nil _ hq.2.2
        obtain ⟨r, h1, h2, h3⟩ := h.safe.own q hq hd hmem
        rw [List.any_eq_true]
        refine ⟨hd.ip, mem_ipsOfKey_of_get h1 (h2.trans hk), ?_⟩
        rw [h1]
        have hq0 : q.uid ≠ 0 := (h.podsWF _ q hq.1).2.1
        have hne : q.uid ≠ pod.uid := by
          intro e
          have := hdead _ q hq.1 e
          rw [hq.2.1] at this; cases this
        simp [h3, hq0, huid, hne]
      · rw [keyOf_not_admin] at hadm; cases hadm
    have qs := unassignAll_quiet (ipsOfKey s (keyOf pod)) s
    have hu : Inv (unassignAll s (ipsOfKey s (keyOf pod))).1 := h.quiet qs
    have lg : UnassignsWithin s (unassignAll s (ipsOfKey s (keyOf pod))).1 (NoLive s.pods) := by
      apply (unassignAll_log (ipsOfKey s (keyOf pod)) s).mono
      intro ip hip
      obtain ⟨r, hr, hk⟩ := get_of_mem_ipsOfKey h.coh.allocNodup hip
      exact noLive_of_key h.safe hr (by rw [hk]; exact hnl)
    have hnl' : ¬ LiveKey (unassignAll s (ipsOfKey s (keyOf pod))).1.pods (keyOf pod) := by rw [qs.frame.pods]; exact hnl
    split
    · exact ⟨hu, qs.frame, lg⟩
    · split
      · have c := unbindDp_chg (unassignAll s (ipsOfKey s (keyOf pod))).1 (keyOf pod) (policyOf pod)
        exact ⟨hu.step_of_chg_key _ hnl' (unbindDp_coherent _ _ _ hu.coh) c, qs.frame.trans c.frame,
          lg.trans (UnassignsWithin.of_plog_eq _ (unbindDp_plog _ _ _))⟩
      · have c := unbindOther_chg (unassignAll s (ipsOfKey s (keyOf pod))).1 (keyOf pod) (policyOf pod)
        exact ⟨hu.step_of_chg_key _ hnl' (unbindOther_coherent _ _ _ hu.coh) c, qs.frame.trans c.frame,
          lg.trans (UnassignsWithin.of_plog_eq _ (unbindOther_plog _ _ _))⟩

/-- replacing the event list by events that are all dead keeps the invariant -/
theorem Inv.setEvents {s : State} (h : Inv s) (evs : List Event)
    (hev : ∀ e, e ∈ evs → e.pod.uid ≠ 0 ∧ e.pod.uid < s.nextUid ∧
      ∀ id q, Tbl.get s.pods id = some q → q.uid = e.pod.uid → q.finished = true) :
    Inv { s with events := evs } :=
  ⟨coherent_of_eq h.coh rfl rfl rfl rfl, h.safe.of_alloc_eq rfl, h.podsWF, h.uidUniq, h.lister, hev, h.listerLive, h.uidPos,
   h.podsNodup, h.vPodsNodup⟩

theorem deliver_spec (s : State) (i : Nat) (h : Inv s) :
    Inv (deliver Facts.good s i).1 ∧
      ((deliver Facts.good s i).1.pods = s.pods ∧ (deliver Facts.good s i).1.admin = s.admin) ∧
      UnassignsWithin s (deliver Facts.good s i).1 (NoLive s.pods) := by
  unfold deliver
  split
  · exact ⟨h, ⟨rfl, rfl⟩, UnassignsWithin.refl s _⟩
  · rename_i e he
    have hmem : e ∈ s.events := List.mem_of_getElem? he
    obtain ⟨e1, e2, e3⟩ := h.events e hmem
    have h1 : Inv { s with events := s.events.eraseIdx i } :=
      h.setEvents _ (fun e' he' => h.events e' (List.mem_of_mem_eraseIdx he'))
    have sp := unbind_spec { s with events := s.events.eraseIdx i } e.pod h1 e1 e3
    dsimp only
    split
    · exact ⟨sp.1, ⟨sp.2.1.pods, sp.2.1.admin⟩, sp.2.2⟩
    · split
      · exact ⟨sp.1, ⟨sp.2.1.pods, sp.2.1.admin⟩, sp.2.2⟩
      · refine ⟨?_, ⟨sp.2.1.pods, sp.2.1.admin⟩, ?_⟩
        · apply sp.1.setEvents
          intro e' he'
          rcases List.mem_append.mp he' with h2 | h2
          · exact sp.1.events e' h2
          · simp at h2; subst h2
            refine ⟨e1, by rw [sp.2.1.nextUid]; exact e2, fun id q hq hu => ?_⟩
            rw [sp.2.1.pods] at hq; exact e3 id q hq hu
        · obtain ⟨l, hl, hp⟩ := sp.2.2
          exact ⟨l, hl, hp⟩

theorem inv_deliver (s : State) (i f pf : Nat) (h : Inv s) : Inv (step Facts.good s (.deliver i f pf)).1 :=
  (deliver_spec _ i (inv_withFaults s f pf h)).1

end Galaxy.Plugin
