/-
  Lemmas about the synchronisation part of model M7 (C15), part 2: what a SUCCESSFUL sync step installs,
  regardless of the prior kernel state.
-/
import Galaxy.Lemmas.PolicySync

namespace Galaxy.Policy

theorem except_bind_ok {ε α β : Type} {x : Except ε α} {f : α → Except ε β} {b : β}
    (h : (x >>= f) = .ok b) : ∃ a, x = .ok a ∧ f a = .ok b := by
  cases x with
  | error e => cases h
  | ok a => exact ⟨a, rfl, h⟩

/-! ### get-level effect of the commands of a batch -/

theorem applyCmd_decl (k : Kern) (t : Table) (c : Chain) (hb : c.isBuiltin = false) :
    applyCmd k t (.decl c) = .ok (setChain t c []) := by
  simp [applyCmd, hb]

theorem applyCmd_app_get {k : Kern} {t t' : Table} {c : Chain} {r : PRule} (h : applyCmd k t (.app c r) = .ok t') :
    ∃ rs, Tbl.get t c = some rs ∧ ∀ c', Tbl.get t' c' = if c' = c then some (rs ++ [r]) else Tbl.get t c' := by
  simp only [applyCmd] at h
  split at h
  · cases h
  · cases h
  · cases h
  · split at h
    · cases h
    · rename_i rs hg
      cases h
      exact ⟨rs, hg, fun c' => get_setChain t c c' _⟩

theorem applyCmd_del_get {k : Kern} {t t' : Table} {c : Chain} (hb : c.isBuiltin = false)
    (h : applyCmd k t (.del c) = .ok t') : ∀ c', Tbl.get t' c' = if c' = c then none else Tbl.get t c' := by
  simp only [applyCmd, hb, Bool.false_and, Bool.false_eq_true, if_false] at h
  split at h
  · cases h
  · split at h
    · cases h
    · cases h
      intro c'
      rw [Tbl.get_erase]
      by_cases e : c = c'
      · simp [e]
      · have : ¬ c' = c := fun x => e x.symm
        simp [e, this]

theorem decls_get (k : Kern) (cs : List Chain) (hb : ∀ c ∈ cs, c.isBuiltin = false) (t : Table) :
    ∃ t', (cs.map Cmd.decl).foldlM (applyCmd k) t = .ok t' ∧
      ∀ c', Tbl.get t' c' = if c' ∈ cs then some [] else Tbl.get t c' := by
  induction cs generalizing t with
  | nil => exact ⟨t, rfl, fun c' => by simp⟩
  | cons c rest ih =>
    obtain ⟨t', h1, h2⟩ := ih (fun x hx => hb x (List.mem_cons_of_mem _ hx)) (setChain t c [])
    refine ⟨t', ?_, ?_⟩
    · simp only [List.map_cons, List.foldlM_cons, applyCmd_decl k t c (hb c (List.mem_cons_self ..))]
      exact h1
    · intro c'
      rw [h2 c', get_setChain]
      by_cases e1 : c' ∈ rest <;> by_cases e2 : c' = c <;> simp [e1, e2]

theorem apps_get (k : Kern) (c : Chain) (rs : List PRule) (t t' : Table)
    (h : (rs.map (Cmd.app c)).foldlM (applyCmd k) t = .ok t') :
    ∀ c', Tbl.get t' c' = if c' = c then (Tbl.get t c).map (· ++ rs) else Tbl.get t c' := by
  induction rs generalizing t with
  | nil =>
    simp [List.foldlM] at h; cases h
    intro c'; by_cases e : c' = c <;> simp [e]
  | cons r rest ih =>
    simp only [List.map_cons, List.foldlM_cons] at h
    obtain ⟨t1, h1, h2⟩ := except_bind_ok h
    obtain ⟨old, hold, hg⟩ := applyCmd_app_get h1
    intro c'
    rw [ih t1 h2 c']
    by_cases e : c' = c
    · simp [e, hg c, hold]
    · simp [e, hg c']

theorem dels_get (k : Kern) (cs : List Chain) (hb : ∀ c ∈ cs, c.isBuiltin = false) (t t' : Table)
    (h : (cs.map Cmd.del).foldlM (applyCmd k) t = .ok t') :
    ∀ c', Tbl.get t' c' = if c' ∈ cs then none else Tbl.get t c' := by
  induction cs generalizing t with
  | nil => simp [List.foldlM] at h; cases h; intro c'; simp
  | cons c rest ih =>
    simp only [List.map_cons, List.foldlM_cons] at h
    obtain ⟨t1, h1, h2⟩ := except_bind_ok h
    have hg := applyCmd_del_get (hb c (List.mem_cons_self ..)) h1
    intro c'
    rw [ih (fun x hx => hb x (List.mem_cons_of_mem _ hx)) t1 h2 c', hg c']
    by_cases e1 : c' ∈ rest <;> by_cases e2 : c' = c <;> simp [e1, e2]

/-- the rule lines of the policy batch: every policy's chain receives exactly its rules, appended -/
theorem apps_flat_get (k : Kern) (ps : List NetPol) (hn : (ps.map (·.hash)).Nodup) (t t' : Table)
    (h : (ps.flatMap (fun p => (policyChain p).map (Cmd.app (.plcy p.hash)))).foldlM (applyCmd k) t = .ok t') :
    ∀ hh, Tbl.get t' (.plcy hh) =
      match ps.find? (fun p => p.hash == hh) with
      | some p => (Tbl.get t (.plcy hh)).map (· ++ policyChain p)
      | none => Tbl.get t (.plcy hh) := by
  induction ps generalizing t with
  | nil => simp [List.foldlM] at h; cases h; intro hh; simp
  | cons p rest ih =>
    simp only [List.flatMap_cons, List.foldlM_append] at h
    obtain ⟨t1, h1, h2⟩ := except_bind_ok h
    simp only [List.map_cons, List.nodup_cons, List.mem_map, not_exists, not_and] at hn
    have hg := apps_get k (.plcy p.hash) (policyChain p) t t1 h1
    intro hh
    rw [ih hn.2 t1 h2 hh]
    by_cases e : p.hash = hh
    · have hnone : rest.find? (fun q => q.hash == hh) = none := by
        rw [List.find?_eq_none]; intro q hq hqe
        simp only [beq_iff_eq] at hqe
        exact hn.1 q hq (hqe.trans e.symm)
      simp [List.find?_cons, e, hnone, hg (.plcy hh)]
    · have : ¬ Chain.plcy hh = Chain.plcy p.hash := fun x => e (by injection x with x; exact x.symm)
      have hb : (p.hash == hh) = false := by simp [e]
      simp only [List.find?_cons, hb, hg (.plcy hh), this, if_false]

/-- WHAT A SUCCESSFUL POLICY BATCH INSTALLS, from any prior table: chain GLX-PLCY-<h> exists iff a current policy
    has hash h, and then holds exactly that policy's compiled rules -/
theorem syncIptables_exact (k : Kern) (ps : List NetPol) (hn : (ps.map (·.hash)).Nodup)
    (hok : (syncIptables k ps).2 = []) :
    ∀ hh, Tbl.get (syncIptables k ps).1 (.plcy hh) = (ps.find? (fun p => p.hash == hh)).map policyChain := by
  unfold syncIptables at hok ⊢
  cases hr : restore k (policyBatch k.tbl ps) with
  | error e => rw [hr] at hok; simp at hok
  | ok t' =>
    simp only
    intro hh
    unfold restore policyBatch at hr
    simp only at hr
    generalize hst : (List.map (fun x => x.1) k.tbl).filter (fun c => match c with
      | .plcy _ => !(ps.map (fun p => Chain.plcy p.hash)).contains c
      | _ => false) = stale at hr
    have hstale : ∀ c, c ∈ stale ↔ (c ∈ Tbl.keys k.tbl ∧ (∃ h, c = .plcy h) ∧ c ∉ ps.map (fun p => Chain.plcy p.hash)) := by
      intro c; rw [← hst, List.mem_filter]
      constructor
      · rintro ⟨h1, h2⟩
        refine ⟨h1, ?_⟩
        cases c <;> simp_all
      · rintro ⟨h1, ⟨h, rfl⟩, h3⟩
        exact ⟨h1, by simpa using h3⟩
    have hb : ∀ c ∈ ps.map (fun p => Chain.plcy p.hash) ++ stale, c.isBuiltin = false := by
      intro c hc
      rcases List.mem_append.mp hc with hc | hc
      · obtain ⟨p, _, rfl⟩ := List.mem_map.mp hc; rfl
      · obtain ⟨_, ⟨h, rfl⟩, _⟩ := (hstale c).mp hc; rfl
    have hdecl : ps.map (fun p => Cmd.decl (.plcy p.hash)) ++ stale.map Cmd.decl =
        (ps.map (fun p => Chain.plcy p.hash) ++ stale).map Cmd.decl := by simp [List.map_append, List.map_map]
    rw [hdecl, List.foldlM_append, List.foldlM_append] at hr
    obtain ⟨t2, h12, hX⟩ := except_bind_ok hr
    obtain ⟨t1, hD, hA⟩ := except_bind_ok h12
    obtain ⟨t1', hD', hgD⟩ := decls_get k _ hb k.tbl
    have ht1 : t1 = t1' := by rw [hD'] at hD; cases hD; rfl
    subst ht1
    have hgA := apps_flat_get k ps hn t1 t2 hA hh
    have hgX := dels_get k stale (fun c hc => hb c (List.mem_append_right _ hc)) t2 t' hX (.plcy hh)
    rw [hgX, hgA, hgD]
    cases hf : ps.find? (fun p => p.hash == hh) with
    | some p =>
      have hp : p ∈ ps ∧ p.hash = hh := ⟨List.mem_of_find?_eq_some hf, by simpa using List.find?_some hf⟩
      have hact : Chain.plcy hh ∈ ps.map (fun p => Chain.plcy p.hash) := List.mem_map.mpr ⟨p, hp.1, by rw [hp.2]⟩
      have hns : Chain.plcy hh ∉ stale := fun x => ((hstale _).mp x).2.2 hact
      simp [hns, hact]
    | none =>
      have hnact : Chain.plcy hh ∉ ps.map (fun p => Chain.plcy p.hash) := by
        intro x
        obtain ⟨p, hp, he⟩ := List.mem_map.mp x
        have := (List.find?_eq_none.mp hf) p hp
        injection he with he
        simp [he] at this
      by_cases hs : Chain.plcy hh ∈ stale
      · simp [hs]
      · have hk : Chain.plcy hh ∉ Tbl.keys k.tbl := fun x => hs ((hstale _).mpr ⟨x, ⟨hh, rfl⟩, hnact⟩)
        have hg : Tbl.get k.tbl (.plcy hh) = none := by
          cases hg : Tbl.get k.tbl (.plcy hh) with
          | none => rfl
          | some v => exact absurd (Tbl.mem_keys_of_get hg) hk
        simp [hs, hnact, hg]

/-! ### SyncPodChains: what a successful call installs, from any prior table -/

theorem ensureRule_get (k : Kern) (prepend : Bool) (c : Chain) (r : PRule) :
    ∀ c', c' ≠ c → Tbl.get (ensureRule k prepend c r).1.tbl c' = Tbl.get k.tbl c' := by
  intro c' hne
  unfold ensureRule
  split
  · rfl
  · rfl
  · rfl
  · split
    · rfl
    · split
      · rfl
      · simp only; rw [get_setChain]; simp [hne]

theorem deleteRule_get (k : Kern) (c : Chain) (r : PRule) :
    ∀ c', c' ≠ c → Tbl.get (deleteRule k c r).1.tbl c' = Tbl.get k.tbl c' := by
  intro c' hne
  unfold deleteRule
  split
  · rfl
  · rfl
  · rfl
  · split
    · rfl
    · simp only; rw [get_setChain]; simp [hne]

theorem hookStep_get (k : Kern) (sel : Bool) (c : Chain) (r : PRule) :
    ∀ c', c' ≠ c → Tbl.get (hookStep k sel c r).1.tbl c' = Tbl.get k.tbl c' := by
  intro c' hne
  unfold hookStep
  split
  · exact ensureRule_get k false c r c' hne
  · exact deleteRule_get k c r c' hne

/-- a successful EnsureRule leaves the rule in the chain -/
theorem ensureRule_mem (k : Kern) (prepend : Bool) (c : Chain) (r : PRule) (hok : (ensureRule k prepend c r).2 = []) :
    ∃ rs, Tbl.get (ensureRule k prepend c r).1.tbl c = some rs ∧ r ∈ rs := by
  unfold ensureRule at hok ⊢
  split
  · rename_i h; rw [h] at hok; simp at hok
  · rename_i h; rw [h] at hok; simp at hok
  · rename_i h; rw [h] at hok; simp at hok
  · rename_i h
    rw [h] at hok
    split
    · rename_i hg; simp only [hg] at hok; simp at hok
    · rename_i rs hg
      split
      · rename_i hc
        exact ⟨rs, hg, List.contains_iff_mem.mp hc⟩
      · simp only
        rw [get_setChain]
        simp only [if_true]
        cases prepend
        · exact ⟨_, rfl, by simp⟩
        · exact ⟨_, rfl, by simp⟩

/-- WHAT A SUCCESSFUL SyncPodChains INSTALLS (the part after ensureBasicChain), from any prior table: the pod's
    chain holds exactly the compiled rules, and the hook rule is present in GLX-INGRESS / GLX-EGRESS for every
    direction in which the pod is selected -/
theorem syncPodChain_exact (k : Kern) (ps : List NetPol) (q : Pod) (a : IP) (hip : q.ip = some a)
    (hok : (syncPodChain k ps q).2 = []) :
    Tbl.get (syncPodChain k ps q).1.tbl (.pod q.hash) = some (podChain ps q) ∧
    (hookedIngress ps q = true → ∃ rs, Tbl.get (syncPodChain k ps q).1.tbl .glxIngress = some rs ∧
      (⟨[.dst ⟨a, 32⟩, .comment (comment q.name q.ns)], .jump (.pod q.hash)⟩ : PRule) ∈ rs) ∧
    (hookedEgress ps q = true → ∃ rs, Tbl.get (syncPodChain k ps q).1.tbl .glxEgress = some rs ∧
      (⟨[.src ⟨a, 32⟩, .comment (comment q.name q.ns)], .jump (.pod q.hash)⟩ : PRule) ∈ rs) := by
  unfold syncPodChain at hok ⊢
  cases hr : restore k (Cmd.decl (.pod q.hash) :: (podChain ps q).map (Cmd.app (.pod q.hash))) with
  | error e => rw [hr] at hok; simp at hok
  | ok t2 =>
    rw [hr] at hok
    simp only at hok ⊢
    -- the batch: declare (create / flush) the chain, append the rules
    have hpod : Tbl.get t2 (.pod q.hash) = some (podChain ps q) := by
      unfold restore at hr
      simp only [List.foldlM_cons, applyCmd_decl k k.tbl (.pod q.hash) rfl] at hr
      have := apps_get k (.pod q.hash) (podChain ps q) _ t2 hr (.pod q.hash)
      rw [this, get_setChain]; simp
    have hI : hookRule true q = [⟨[.dst ⟨a, 32⟩, .comment (comment q.name q.ns)], .jump (.pod q.hash)⟩] := by
      simp [hookRule, hip]
    have hE : hookRule false q = [⟨[.src ⟨a, 32⟩, .comment (comment q.name q.ns)], .jump (.pod q.hash)⟩] := by
      simp [hookRule, hip]
    rw [hI, hE] at hok ⊢
    simp only at hok ⊢
    generalize hhi : (⟨[.dst ⟨a, 32⟩, .comment (comment q.name q.ns)], .jump (.pod q.hash)⟩ : PRule) = hi at hok ⊢
    generalize hhe : (⟨[.src ⟨a, 32⟩, .comment (comment q.name q.ns)], .jump (.pod q.hash)⟩ : PRule) = he at hok ⊢
    by_cases h3 : (hookStep { k with tbl := t2 } (hookedIngress ps q) .glxIngress hi).2 = []
    · simp only [h3, ne_eq, not_true_eq_false, if_false] at hok ⊢
      refine ⟨?_, ?_, ?_⟩
      · rw [hookStep_get _ _ .glxEgress he _ (by simp), hookStep_get _ _ .glxIngress hi _ (by simp)]
        exact hpod
      · intro hsel
        rw [hookStep_get _ _ .glxEgress he _ (by simp)]
        simp only [hookStep, hsel, if_true] at h3 ⊢
        exact ensureRule_mem _ false .glxIngress hi h3
      · intro hsel
        simp only [hookStep, hsel, if_true] at hok ⊢
        exact ensureRule_mem _ false .glxEgress he hok
    · simp only [ne_eq, h3, not_false_eq_true, if_true] at hok

end Galaxy.Policy
