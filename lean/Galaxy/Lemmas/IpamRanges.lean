/-
  AllocateInSubnetsAndIPRange: first-fit pick, create loop, rollback, cache update (C08, and the C05 / C09 lemmas of
  this mutator).
-/
import Galaxy.Lemmas.IpamAgree

namespace Galaxy.Ipam
open Tbl

theorem failsAt_mem {pl : Plan} {n : Nat} (h : pl.failsAt n = true) : n ∈ pl.fails := by
  simpa [Plan.failsAt] using h

/-! ## rollback -/

/-- what a rollback which did not crash leaves behind: every listed object is gone except the `kept` ones (their delete
    failed with an injected fault), which are untouched; without a fault at or after index `n` nothing is kept -/
theorem rollback_spec (pl : Plan) :
    ∀ (l : List IP) (n : Nat) (st : Store), l.Nodup → (∀ d ∈ l, ∃ r, st.get d = some r) →
      (rollback pl l n st).2.2 = false →
      (∀ j, (rollback pl l n st).1.get j = if j ∈ l ∧ j ∉ (rollback pl l n st).2.1 then none else st.get j) ∧
      (∀ j ∈ (rollback pl l n st).2.1, j ∈ l) ∧
      ((∀ k ∈ pl.fails, k < n) → (rollback pl l n st).2.1 = []) := by
  intro l
  induction l with
  | nil => intro n st _ _ _; simp [rollback]
  | cons ip rest ih =>
    intro n st hnd hpres hnc
    have hnd' := List.nodup_cons.mp hnd
    unfold rollback at hnc ⊢
    by_cases hc : (sDelete pl n st ip).2 = some Err.crashed
    · rw [if_pos hc] at hnc; simp at hnc
    · rw [if_neg hc] at hnc ⊢
      simp only at hnc ⊢
      obtain ⟨r0, hr0⟩ := hpres ip (by simp)
      rcases sDelete_cases pl n st ip with ⟨e, hec, heq, hcause⟩ | ⟨_, heq⟩ | ⟨st', heq⟩
      · -- the delete failed cleanly: the store is untouched
        have hinj : e = Err.injected ∧ pl.failsAt n = true := by
          rcases hcause with h | ⟨_, hnone⟩
          · exact h
          · rw [hnone] at hr0; cases hr0
        obtain ⟨he, hf⟩ := hinj
        subst he
        rw [heq] at hnc ⊢
        simp only [if_true] at hnc ⊢
        have hpres' : ∀ d ∈ rest, ∃ r, st.get d = some r := fun d hd => hpres d (List.mem_cons_of_mem _ hd)
        obtain ⟨h1, h2, h3⟩ := ih (n + 1) st hnd'.2 hpres' hnc
        refine ⟨?_, ?_, ?_⟩
        · intro j
          rw [h1 j]
          by_cases hj : j = ip
          · subst hj; simp [hnd'.1]
          · simp [hj]
        · intro j hj
          rcases List.mem_cons.mp hj with h | h
          · subst h; simp
          · exact List.mem_cons_of_mem _ (h2 j h)
        · intro hcl
          exact absurd (hcl n (failsAt_mem hf)) (Nat.lt_irrefl _)
      · rw [heq] at hnc ⊢
        simp only [reduceCtorEq, if_false] at hnc ⊢
        have hpres' : ∀ d ∈ rest, ∃ r, (st.erase ip).get d = some r := by
          intro d hd
          have hne' : ip ≠ d := by intro e; subst e; exact hnd'.1 hd
          obtain ⟨r, hr⟩ := hpres d (List.mem_cons_of_mem _ hd)
          exact ⟨r, by rw [Tbl.get_erase_ne _ hne']; exact hr⟩
        obtain ⟨h1, h2, h3⟩ := ih (n + 1) (st.erase ip) hnd'.2 hpres' hnc
        refine ⟨?_, ?_, ?_⟩
        · intro j
          rw [h1 j]
          by_cases hj : j = ip
          · subst hj
            have : j ∉ (rollback pl rest (n + 1) (Tbl.erase st j)).2.1 := fun hin => hnd'.1 (h2 j hin)
            simp [hnd'.1, this]
          · have hne' : ip ≠ j := fun e => hj e.symm
            simp [hj, Tbl.get_erase_ne _ hne']
        · intro j hj; exact List.mem_cons_of_mem _ (h2 j hj)
        · intro hcl; exact h3 (fun k hk => Nat.lt_succ_of_lt (hcl k hk))
      · rw [heq] at hc; exact absurd rfl hc

/-! ## the create loop -/

theorem createAll_ok (rb : Bool) (pl : Plan) (r : Rec) :
    ∀ (todo done : List IP) (n : Nat) (st st' : Store) (kept : List IP), createAll rb pl r todo done n st = (st', none, kept) →
      (∀ p ∈ todo, st.get p = none) ∧ todo.Nodup ∧ (∀ j, st'.get j = if j ∈ todo then some r else st.get j) := by
  intro todo
  induction todo with
  | nil =>
    intro done n st st' kept h
    simp only [createAll, Prod.mk.injEq] at h
    simp [h.1]
  | cons ip rest ih =>
    intro done n st st' kept h
    unfold createAll at h
    rcases sCreate_cases pl n st ip r with ⟨e, hec, heq, _⟩ | ⟨hn, heq⟩ | ⟨st1, heq⟩
    · rw [heq] at h
      simp only [if_neg hec] at h
      split at h
      · split at h <;> simp at h
      · simp at h
    · rw [heq] at h
      simp only at h
      obtain ⟨h1, h2, h3⟩ := ih _ _ _ _ _ h
      have hnotin : ip ∉ rest := by
        intro hin
        have := h1 ip hin
        simp at this
      refine ⟨?_, List.nodup_cons.mpr ⟨hnotin, h2⟩, ?_⟩
      · intro p hp
        rcases List.mem_cons.mp hp with hp | hp
        · subst hp; exact hn
        · have hne : ip ≠ p := by intro e; subst e; exact hnotin hp
          have := h1 p hp
          rwa [Tbl.get_set_ne _ _ hne] at this
      · intro j
        rw [h3 j]
        by_cases hj : j = ip
        · subst hj; simp [hnotin]
        · have hne : ip ≠ j := fun e => hj e.symm
          simp [hj, Tbl.get_set_ne _ _ hne]
    · rw [heq] at h
      simp at h

/-- a failed (not crashed) create loop: every created object is rolled back except the `kept` ones, which are stored
    with the new record; under the clean-rollback condition nothing is kept -/
theorem createAll_fail (pl : Plan) (r : Rec) :
    ∀ (todo done : List IP) (n : Nat) (st st' : Store) (e : Err) (kept : List IP),
      createAll true pl r todo done n st = (st', some e, kept) → e ≠ .crashed →
      (done ++ todo).Nodup → (∀ d ∈ done, st.get d = some r) →
      (∀ j, j ∉ kept → st'.get j = if j ∈ done then none else st.get j) ∧
      (∀ j ∈ kept, st'.get j = some r ∧ (j ∈ done ∨ (j ∈ todo ∧ st.get j = none))) ∧
      ((pl.fails = [] ∨ (pl.fails.length ≤ 1 ∧ ∀ p ∈ todo, st.get p = none)) → kept = []) := by
  intro todo
  induction todo with
  | nil => intro done n st st' e kept h; simp [createAll] at h
  | cons ip rest ih =>
    intro done n st st' e kept h hec hnd hpres
    unfold createAll at h
    have hnd1 : done.Nodup := (List.nodup_append.mp hnd).1
    rcases sCreate_cases pl n st ip r with ⟨e0, hec0, heq, hcause⟩ | ⟨hn, heq⟩ | ⟨st1, heq⟩
    · rw [heq] at h
      simp only [if_neg hec0, if_true] at h
      by_cases hrb : (rollback pl done (n + 1) st).2.2 = true
      · rw [if_pos hrb] at h
        simp only [Prod.mk.injEq, Option.some.injEq] at h
        exact absurd h.2.1.symm hec
      · have hrb' : (rollback pl done (n + 1) st).2.2 = false := by simpa using hrb
        rw [if_neg hrb] at h
        simp only [Prod.mk.injEq] at h
        obtain ⟨hs1, _, hs3⟩ := h
        subst hs1; subst hs3
        obtain ⟨g1, g2, g3⟩ := rollback_spec pl done (n + 1) st hnd1 (fun d hd => ⟨r, hpres d hd⟩) hrb'
        refine ⟨?_, ?_, ?_⟩
        · intro j hj; rw [g1 j]; simp [hj]
        · intro j hj
          have hjd := g2 j hj
          refine ⟨?_, Or.inl hjd⟩
          rw [g1 j]; simp [hj, hpres j hjd]
        · intro hclean
          apply g3
          rcases hclean with h0 | ⟨hlen, hfree⟩
          · intro k hk; rw [h0] at hk; simp at hk
          · rcases hcause with ⟨_, hf⟩ | ⟨_, r0, hr0⟩
            · have hmem := failsAt_mem hf
              intro k hk
              have : k = n := by
                match hfl : pl.fails, hlen, hmem, hk with
                | [x], _, hm, hk' =>
                  simp at hm hk'
                  omega
              omega
            · have := hfree ip (by simp)
              rw [this] at hr0; cases hr0
    · rw [heq] at h
      simp only at h
      have hipnd : ip ∉ done := by
        intro hin
        have := (List.nodup_append.mp hnd).2.2 ip hin ip (by simp)
        exact this rfl
      have hnd' : ((done ++ [ip]) ++ rest).Nodup := by simpa [List.append_assoc] using hnd
      have hpres' : ∀ d ∈ done ++ [ip], (st.set ip r).get d = some r := by
        intro d hd
        rcases List.mem_append.mp hd with hd | hd
        · have hne : ip ≠ d := by intro e; subst e; exact hipnd hd
          rw [Tbl.get_set_ne _ _ hne]; exact hpres d hd
        · simp at hd; subst hd; simp
      have hiprest : ip ∉ rest := by
        intro hin
        have h2 := (List.nodup_append.mp hnd).2.1
        exact (List.nodup_cons.mp h2).1 hin
      obtain ⟨g1, g2, g3⟩ := ih _ _ _ _ e kept h hec hnd' hpres'
      refine ⟨?_, ?_, ?_⟩
      · intro j hj
        rw [g1 j hj]
        by_cases hji : j = ip
        · subst hji; simp [hipnd, hn]
        · have hne : ip ≠ j := fun e => hji e.symm
          simp [hji, Tbl.get_set_ne _ _ hne]
      · intro j hj
        obtain ⟨k1, k2⟩ := g2 j hj
        refine ⟨k1, ?_⟩
        rcases k2 with k2 | ⟨k2, k3⟩
        · rcases List.mem_append.mp k2 with k2 | k2
          · exact Or.inl k2
          · simp at k2; subst k2; exact Or.inr ⟨by simp, hn⟩
        · have hne : ip ≠ j := by intro e; subst e; exact hiprest k2
          rw [Tbl.get_set_ne _ _ hne] at k3
          exact Or.inr ⟨List.mem_cons_of_mem _ k2, k3⟩
      · intro hclean
        apply g3
        rcases hclean with h0 | ⟨hlen, hfree⟩
        · exact Or.inl h0
        · refine Or.inr ⟨hlen, ?_⟩
          intro p hp
          have hne : ip ≠ p := by intro e; subst e; exact hiprest hp
          rw [Tbl.get_set_ne _ _ hne]
          exact hfree p (List.mem_cons_of_mem _ hp)
    · rw [heq] at h
      simp at h
      exact absurd h.2.1.symm hec

/-! ## the cache update of all picks -/

theorem memAllocAll_frame (r : Rec) : ∀ (l : List IP) (s : State),
    (memAllocAll s r l).pools = s.pools ∧ (memAllocAll s r l).pending = s.pending ∧ (memAllocAll s r l).store = s.store ∧
      (memAllocAll s r l).clock = s.clock := by
  intro l
  induction l with
  | nil => intro s; simp [memAllocAll]
  | cons ip rest ih => intro s; simpa [memAllocAll, memAlloc] using ih (memAlloc s ip r)

theorem memAllocAll_alloc (r : Rec) : ∀ (l : List IP) (s : State) (j : IP),
    (memAllocAll s r l).alloc.get j = if j ∈ l then some r else s.alloc.get j := by
  intro l
  induction l with
  | nil => intro s j; simp [memAllocAll]
  | cons ip rest ih =>
    intro s j
    simp only [memAllocAll]
    rw [ih]
    by_cases hj : j = ip
    · subst hj; simp [memAlloc]
    · have hne : ip ≠ j := fun e => hj e.symm
      simp [hj, memAlloc, Tbl.get_set_ne _ _ hne]

theorem memAllocAll_free (r : Rec) : ∀ (l : List IP) (s : State) (j : IP),
    j ∈ (memAllocAll s r l).free ↔ (j ∈ s.free ∧ j ∉ l) := by
  intro l
  induction l with
  | nil => intro s j; simp [memAllocAll]
  | cons ip rest ih =>
    intro s j
    simp only [memAllocAll]
    rw [ih]
    simp only [memAlloc, List.mem_filter, List.mem_cons, not_or]
    constructor
    · rintro ⟨⟨h1, h2⟩, h3⟩; exact ⟨h1, by simpa using h2, h3⟩
    · rintro ⟨h1, h2, h3⟩; exact ⟨⟨h1, by simpa using h2⟩, h3⟩

theorem memOK_memAllocAll {s : State} (h : MemOK s) (r : Rec) (l : List IP) (hl : ∀ p ∈ l, p ∈ s.free) :
    MemOK (memAllocAll s r l) := by
  constructor
  · intro j
    rw [memAllocAll_free, memAllocAll_alloc, (memAllocAll_frame r l s).1, h.free_iff j]
    by_cases hj : j ∈ l <;> simp [hj]
  · intro j r' hg
    rw [memAllocAll_alloc] at hg
    rw [(memAllocAll_frame r l s).1]
    by_cases hj : j ∈ l
    · exact ((h.free_iff j).mp (hl j hj)).1
    · simp only [hj, if_false] at hg; exact h.alloc_conf j r' hg

/-! ## the first-fit pick -/

def PickOK (s : State) (subnet : String) (ip : IP) (rs : List Range) : Prop :=
  ip ∈ walk rs ∧ ip ∈ s.free ∧ hasSubnet s.pools ip subnet = true ∧ ip ∈ walkConfigured s.pools rs

theorem pickRanges_spec (s : State) (subnet : String) :
    ∀ (ranges : List (List Range)) (picked picks : List IP), pickRanges s subnet ranges picked = some picks →
      ∃ new, picks = picked ++ new ∧ Forall2 (PickOK s subnet) new ranges ∧ (picked.Nodup → picks.Nodup) := by
  intro ranges
  induction ranges with
  | nil =>
    intro picked picks h
    simp only [pickRanges, Option.some.injEq] at h
    exact ⟨[], by simp [h], Forall2.nil, fun hn => h ▸ hn⟩
  | cons rs rest ih =>
    intro picked picks h
    unfold pickRanges at h
    split at h
    · cases h
    · next ip hfind =>
      have hp := List.find?_some hfind
      have hmem := List.mem_of_find?_eq_some hfind
      simp only [Bool.and_eq_true, decide_eq_true_eq, Bool.not_eq_true', List.contains_eq_mem, decide_eq_false_iff_not] at hp
      obtain ⟨new, hpk, hfa, hnd⟩ := ih _ _ h
      refine ⟨ip :: new, by simp [hpk], Forall2.cons ⟨mem_walk_of_walkConfigured hmem, hp.1.1, hp.1.2, hmem⟩ hfa, ?_⟩
      intro hn
      apply hnd
      rw [List.nodup_append]
      refine ⟨hn, by simp, ?_⟩
      intro a ha b hb
      simp at hb; subst hb
      intro e; subst e; exact hp.2 ha

theorem forall₂_length {α β : Type} {R : α → β → Prop} {l₁ : List α} {l₂ : List β} (h : Forall2 R l₁ l₂) :
    l₁.length = l₂.length := by
  induction h with
  | nil => rfl
  | cons _ _ ih => simp [ih]

theorem forall₂_get {α β : Type} {R : α → β → Prop} {l₁ : List α} {l₂ : List β} (h : Forall2 R l₁ l₂) :
    ∀ i (h1 : i < l₁.length) (h2 : i < l₂.length), R l₁[i] l₂[i] := by
  induction h with
  | nil => intro i h1; simp at h1
  | cons hd _ ih =>
    intro i h1 h2
    cases i with
    | zero => simpa using hd
    | succ k => simpa using ih k (by simpa using h1) (by simpa using h2)

theorem forall₂_mem_left {α β : Type} {R : α → β → Prop} {l₁ : List α} {l₂ : List β} (h : Forall2 R l₁ l₂) :
    ∀ a ∈ l₁, ∃ b ∈ l₂, R a b := by
  induction h with
  | nil => intro a ha; simp at ha
  | cons hd _ ih =>
    intro a ha
    rcases List.mem_cons.mp ha with ha | ha
    · subst ha; exact ⟨_, by simp, hd⟩
    · obtain ⟨b, hb, hr⟩ := ih a ha; exact ⟨b, List.mem_cons_of_mem _ hb, hr⟩

/-! ## the mutator -/

theorem sync_sameStore {s : State} (h : Sync s) (st : Store) (hst : ∀ j, st.get j = s.store.get j) :
    Sync { s with store := st } := by
  intro j hc
  rcases h j hc with hp | he
  · exact Or.inl hp
  · right; show optEq (s.alloc.get j) (st.get j); rw [hst j]; exact he

theorem fact_keeps : Generated.Ipam.rollbackKeepsUndeletedInMemory = true := rfl
theorem fact_rollback' : Generated.Ipam.rollbackOnCreateFailure = true := rfl

/-- a crashed create loop keeps nothing (the memory is garbage anyway) -/
theorem createAll_crashed_kept (rb : Bool) (pl : Plan) (r : Rec) :
    ∀ (todo done : List IP) (n : Nat) (st st' : Store) (kept : List IP),
      createAll rb pl r todo done n st = (st', some Err.crashed, kept) → kept = [] := by
  intro todo
  induction todo with
  | nil => intro done n st st' kept h; simp [createAll] at h
  | cons ip rest ih =>
    intro done n st st' kept h
    unfold createAll at h
    cases hc : sCreate pl n st ip r with
    | mk st1 eo =>
      rw [hc] at h
      cases eo with
      | none => exact ih _ _ _ _ _ h
      | some e =>
        simp only at h
        by_cases he : e = Err.crashed
        · rw [if_pos he] at h
          simp only [Prod.mk.injEq] at h
          exact h.2.2.symm
        · rw [if_neg he] at h
          cases rb with
          | false =>
            simp only [Bool.false_eq_true, if_false, Prod.mk.injEq, Option.some.injEq] at h
            exact absurd h.2.1 he
          | true =>
            simp only [if_true] at h
            by_cases hr : (rollback pl done (n + 1) st1).2.2 = true
            · rw [if_pos hr] at h
              simp only [Prod.mk.injEq] at h
              exact h.2.2.symm
            · rw [if_neg hr] at h
              simp only [Prod.mk.injEq, Option.some.injEq] at h
              exact absurd h.2.1 he

theorem memOK_allocateInSubnetsAndRanges {s : State} (h : MemOK s) (key subnet : String) (ranges : List (List Range)) (a : Attr)
    (choice : Option IP) (pl : Plan) (hadm : ranges = [] → admissibleInSubnet s subnet choice = true) :
    MemOK (allocateInSubnetsAndRanges s key subnet ranges a choice pl).1 := by
  unfold allocateInSubnetsAndRanges
  split
  · exact memOK_allocateInSubnet h _ _ _ _ _ (hadm rfl)
  · split
    · exact h
    · next picks hpick =>
      obtain ⟨new, hpk, hfa, hnd⟩ := pickRanges_spec s subnet _ _ _ hpick
      simp only [List.nil_append] at hpk
      subst hpk
      have hfree : ∀ p ∈ picks, p ∈ s.free := by
        intro p hp
        obtain ⟨_, _, hr⟩ := forall₂_mem_left hfa p hp
        exact hr.2.1
      rw [fact_keeps, fact_rollback']
      cases hc : createAll true pl (mkRec key a s.clock) picks [] 0 s.store with
      | mk st rest =>
        obtain ⟨eo, kept⟩ := rest
        cases eo with
        | none => exact memOK_store (memOK_memAllocAll h _ _ hfree) _
        | some e =>
          simp only [allocRangesFinish, if_true]
          by_cases hec : e = Err.crashed
          · subst hec
            -- crashed: kept = [] by construction
            have hk : kept = [] := createAll_crashed_kept _ _ _ _ _ _ _ _ _ hc
            subst hk
            exact memOK_store h _
          · obtain ⟨_, g2, _⟩ := createAll_fail pl _ picks [] 0 s.store st e kept hc hec (by simpa using hnd (by simp)) (by simp)
            refine memOK_store (memOK_memAllocAll h _ _ ?_) _
            intro p hp
            rcases (g2 p hp).2 with h1 | ⟨h1, _⟩
            · simp at h1
            · exact hfree p h1

theorem sync_allocateInSubnetsAndRanges {s : State} (h : Agree s) (key subnet : String) (ranges : List (List Range)) (a : Attr)
    (choice : Option IP) (pl : Plan)
    (hne : (allocateInSubnetsAndRanges s key subnet ranges a choice pl).2.err ≠ some .crashed) :
    Sync (allocateInSubnetsAndRanges s key subnet ranges a choice pl).1 := by
  cases ranges with
  | nil =>
    simp only [allocateInSubnetsAndRanges] at hne ⊢
    exact sync_allocateInSubnet h.sync _ _ _ _ _ hne
  | cons rs rest =>
    simp only [allocateInSubnetsAndRanges] at hne ⊢
    cases hpick : pickRanges s subnet (rs :: rest) [] with
    | none => simp only [hpick]; exact h.sync
    | some picks =>
      simp only [hpick] at hne ⊢
      obtain ⟨new, hpk, hfa, hnd⟩ := pickRanges_spec s subnet _ _ _ hpick
      simp only [List.nil_append] at hpk
      subst hpk
      rw [fact_keeps, fact_rollback'] at hne ⊢
      cases hc : createAll true pl (mkRec key a s.clock) picks [] 0 s.store with
      | mk st rest2 =>
        obtain ⟨eo, kept⟩ := rest2
        rw [hc] at hne
        -- in both branches: memory and store get the same record on a set of addresses, nothing else changes
        have hgen : ∀ (l : List IP), (∀ j, st.get j = if j ∈ l then some (mkRec key a s.clock) else s.store.get j) →
            Sync { memAllocAll s (mkRec key a s.clock) l with store := st } := by
          intro l hst j hcf
          have hfr := memAllocAll_frame (mkRec key a s.clock) l s
          have hcf' : configured s.pools j = true := by simpa [hfr.1] using hcf
          by_cases hj : j ∈ l
          · right
            show optEq ((memAllocAll s (mkRec key a s.clock) l).alloc.get j) (st.get j)
            rw [memAllocAll_alloc, hst j]
            simp [hj, optEq_refl]
          · rcases h.sync j hcf' with hp | he
            · left
              obtain ⟨e, he, hip⟩ := hp
              exact ⟨e, by simpa [hfr.2.1] using he, hip⟩
            · right
              show optEq ((memAllocAll s (mkRec key a s.clock) l).alloc.get j) (st.get j)
              rw [memAllocAll_alloc, hst j]
              simpa [hj] using he
        cases eo with
        | some e =>
          simp only [allocRangesFinish, if_true] at hne ⊢
          have hec : e ≠ .crashed := by intro he; subst he; simp [Out.fail] at hne
          obtain ⟨g1, g2, _⟩ := createAll_fail pl _ picks [] 0 s.store st e kept hc hec (by simpa using hnd (by simp)) (by simp)
          apply hgen kept
          intro j
          by_cases hj : j ∈ kept
          · rw [if_pos hj]; exact (g2 j hj).1
          · rw [if_neg hj]; simpa using g1 j hj
        | none =>
          simp only [allocRangesFinish]
          obtain ⟨_, _, hst⟩ := createAll_ok _ _ _ _ _ _ _ _ _ hc
          exact hgen picks hst

end Galaxy.Ipam
