/-
  AllocateInSubnetsAndIPRange: first-fit pick, create loop, rollback, cache update (C08, and the C05 / C09 lemmas of
  this mutator).
-/
import Galaxy.Lemmas.IpamAgree

namespace Galaxy.Ipam
open Tbl

theorem failsAt_mem {pl : Plan} {n : Nat} (h : pl.failsAt n = true) : n ∈ pl.fails := by
  simpa [Plan.failsAt] using h

/-! ## rollback -/

theorem rollback_spec (pl : Plan) :
    ∀ (l : List IP) (n : Nat) (st : Store), l.Nodup → (∀ d ∈ l, ∃ r, st.get d = some r) → (∀ k ∈ pl.fails, k < n) →
      (rollback pl l n st).2 = false →
      ∀ j, (rollback pl l n st).1.get j = if j ∈ l then none else st.get j := by
  intro l
  induction l with
  | nil => intro n st _ _ _ _ j; simp [rollback]
  | cons ip rest ih =>
    intro n st hnd hpres hclean hnc j
    have hnd' := List.nodup_cons.mp hnd
    unfold rollback at hnc ⊢
    rcases sDelete_cases pl n st ip with ⟨e, hec, heq, hcause⟩ | ⟨⟨r0, hr0⟩, heq⟩ | ⟨st', heq⟩
    · exfalso
      rcases hcause with ⟨_, hf⟩ | ⟨_, hnone⟩
      · exact Nat.lt_irrefl _ (hclean n (failsAt_mem hf))
      · obtain ⟨r, hr⟩ := hpres ip (by simp)
        rw [hnone] at hr; cases hr
    · have hne : (sDelete pl n st ip).2 ≠ some Err.crashed := by rw [heq]; simp
      rw [if_neg hne] at hnc ⊢
      rw [heq] at hnc ⊢
      have hpres' : ∀ d ∈ rest, ∃ r, (st.erase ip).get d = some r := by
        intro d hd
        have hne' : ip ≠ d := by intro e; subst e; exact hnd'.1 hd
        obtain ⟨r, hr⟩ := hpres d (List.mem_cons_of_mem _ hd)
        exact ⟨r, by rw [Tbl.get_erase_ne _ hne']; exact hr⟩
      have := ih (n + 1) (st.erase ip) hnd'.2 hpres' (fun k hk => Nat.lt_succ_of_lt (hclean k hk)) hnc j
      rw [this]
      by_cases hj : j = ip
      · subst hj; simp [hnd'.1]
      · have hne' : ip ≠ j := fun e => hj e.symm
        simp [hj, Tbl.get_erase_ne _ hne']
    · have hc : (sDelete pl n st ip).2 = some Err.crashed := by rw [heq]
      rw [if_pos hc] at hnc
      simp at hnc

/-! ## the create loop -/

theorem createAll_ok (rb : Bool) (pl : Plan) (r : Rec) :
    ∀ (todo done : List IP) (n : Nat) (st st' : Store), createAll rb pl r todo done n st = (st', none) →
      (∀ p ∈ todo, st.get p = none) ∧ todo.Nodup ∧ (∀ j, st'.get j = if j ∈ todo then some r else st.get j) := by
  intro todo
  induction todo with
  | nil =>
    intro done n st st' h
    simp only [createAll, Prod.mk.injEq] at h
    simp [h.1]
  | cons ip rest ih =>
    intro done n st st' h
    unfold createAll at h
    rcases sCreate_cases pl n st ip r with ⟨e, hec, heq, _⟩ | ⟨hn, heq⟩ | ⟨st1, heq⟩
    · rw [heq] at h
      simp only [if_neg hec] at h
      split at h
      · split at h <;> simp at h
      · simp at h
    · rw [heq] at h
      simp only at h
      obtain ⟨h1, h2, h3⟩ := ih _ _ _ _ h
      have hnotin : ip ∉ rest := by
        intro hin
        have := h1 ip hin
        simp at this
      refine ⟨?_, List.nodup_cons.mpr ⟨hnotin, h2⟩, ?_⟩
      · intro p hp
        rcases List.mem_cons.mp hp with hp | hp
        · subst hp; exact hn
        · have hne : ip ≠ p := by intro e; subst e; exact hnotin hp
          have := h1 p hp
          rwa [Tbl.get_set_ne _ _ hne] at this
      · intro j
        rw [h3 j]
        by_cases hj : j = ip
        · subst hj; simp [hnotin]
        · have hne : ip ≠ j := fun e => hj e.symm
          simp [hj, Tbl.get_set_ne _ _ hne]
    · rw [heq] at h
      simp at h

theorem createAll_fail (pl : Plan) (r : Rec) :
    ∀ (todo done : List IP) (n : Nat) (st st' : Store) (e : Err),
      createAll true pl r todo done n st = (st', some e) → e ≠ .crashed →
      (done ++ todo).Nodup → (∀ d ∈ done, ∃ r', st.get d = some r') →
      (pl.fails = [] ∨ (pl.fails.length ≤ 1 ∧ ∀ p ∈ todo, st.get p = none)) →
      ∀ j, st'.get j = if j ∈ done then none else st.get j := by
  intro todo
  induction todo with
  | nil => intro done n st st' e h; simp [createAll] at h
  | cons ip rest ih =>
    intro done n st st' e h hec hnd hpres hclean j
    unfold createAll at h
    have hnd1 : done.Nodup := (List.nodup_append.mp hnd).1
    rcases sCreate_cases pl n st ip r with ⟨e0, hec0, heq, hcause⟩ | ⟨hn, heq⟩ | ⟨st1, heq⟩
    · rw [heq] at h
      simp only [if_neg hec0, if_true] at h
      have hcl : ∀ k ∈ pl.fails, k < n + 1 := by
        rcases hclean with h0 | ⟨hlen, hfree⟩
        · intro k hk; rw [h0] at hk; simp at hk
        · rcases hcause with ⟨_, hf⟩ | ⟨_, r0, hr0⟩
          · have hmem := failsAt_mem hf
            intro k hk
            have : k = n := by
              match hfl : pl.fails, hlen, hmem, hk with
              | [x], _, hm, hk' =>
                simp at hm hk'
                omega
            omega
          · have := hfree ip (by simp)
            rw [this] at hr0; cases hr0
      by_cases hrb : (rollback pl done (n + 1) st).2 = true
      · rw [if_pos hrb] at h
        simp only [Prod.mk.injEq, Option.some.injEq] at h
        exact absurd h.2.symm hec
      · have hrb' : (rollback pl done (n + 1) st).2 = false := by simpa using hrb
        rw [if_neg hrb] at h
        simp only [Prod.mk.injEq] at h
        rw [← h.1]
        exact rollback_spec pl done (n + 1) st hnd1 hpres hcl hrb' j
    · rw [heq] at h
      simp only at h
      have hipnd : ip ∉ done := by
        intro hin
        have := (List.nodup_append.mp hnd).2.2 ip hin ip (by simp)
        exact this rfl
      have hnd' : ((done ++ [ip]) ++ rest).Nodup := by simpa [List.append_assoc] using hnd
      have hpres' : ∀ d ∈ done ++ [ip], ∃ r', (st.set ip r).get d = some r' := by
        intro d hd
        rcases List.mem_append.mp hd with hd | hd
        · have hne : ip ≠ d := by intro e; subst e; exact hipnd hd
          obtain ⟨r', hr'⟩ := hpres d hd
          exact ⟨r', by rw [Tbl.get_set_ne _ _ hne]; exact hr'⟩
        · simp at hd; subst hd; exact ⟨r, by simp⟩
      have hiprest : ip ∉ rest := by
        intro hin
        have h2 := (List.nodup_append.mp hnd).2.1
        exact (List.nodup_cons.mp h2).1 hin
      have hclean' : pl.fails = [] ∨ (pl.fails.length ≤ 1 ∧ ∀ p ∈ rest, (st.set ip r).get p = none) := by
        rcases hclean with h0 | ⟨hlen, hfree⟩
        · exact Or.inl h0
        · refine Or.inr ⟨hlen, ?_⟩
          intro p hp
          have hne : ip ≠ p := by intro e; subst e; exact hiprest hp
          rw [Tbl.get_set_ne _ _ hne]
          exact hfree p (List.mem_cons_of_mem _ hp)
      have := ih _ _ _ _ e h hec hnd' hpres' hclean' j
      rw [this]
      by_cases hj : j = ip
      · subst hj; simp [hipnd, hn]
      · have hne : ip ≠ j := fun e => hj e.symm
        simp [hj, Tbl.get_set_ne _ _ hne]
    · rw [heq] at h
      simp at h
      exact absurd h.2.symm hec

/-! ## the cache update of all picks -/

theorem memAllocAll_frame (r : Rec) : ∀ (l : List IP) (s : State),
    (memAllocAll s r l).pools = s.pools ∧ (memAllocAll s r l).pending = s.pending ∧ (memAllocAll s r l).store = s.store ∧
      (memAllocAll s r l).clock = s.clock := by
  intro l
  induction l with
  | nil => intro s; simp [memAllocAll]
  | cons ip rest ih => intro s; simpa [memAllocAll, memAlloc] using ih (memAlloc s ip r)

theorem memAllocAll_alloc (r : Rec) : ∀ (l : List IP) (s : State) (j : IP),
    (memAllocAll s r l).alloc.get j = if j ∈ l then some r else s.alloc.get j := by
  intro l
  induction l with
  | nil => intro s j; simp [memAllocAll]
  | cons ip rest ih =>
    intro s j
    simp only [memAllocAll]
    rw [ih]
    by_cases hj : j = ip
    · subst hj; simp [memAlloc]
    · have hne : ip ≠ j := fun e => hj e.symm
      simp [hj, memAlloc, Tbl.get_set_ne _ _ hne]

theorem memAllocAll_free (r : Rec) : ∀ (l : List IP) (s : State) (j : IP),
    j ∈ (memAllocAll s r l).free ↔ (j ∈ s.free ∧ j ∉ l) := by
  intro l
  induction l with
  | nil => intro s j; simp [memAllocAll]
  | cons ip rest ih =>
    intro s j
    simp only [memAllocAll]
    rw [ih]
    simp only [memAlloc, List.mem_filter, List.mem_cons, not_or]
    constructor
    · rintro ⟨⟨h1, h2⟩, h3⟩; exact ⟨h1, by simpa using h2, h3⟩
    · rintro ⟨h1, h2, h3⟩; exact ⟨⟨h1, by simpa using h2⟩, h3⟩

theorem memOK_memAllocAll {s : State} (h : MemOK s) (r : Rec) (l : List IP) (hl : ∀ p ∈ l, p ∈ s.free) :
    MemOK (memAllocAll s r l) := by
  constructor
  · intro j
    rw [memAllocAll_free, memAllocAll_alloc, (memAllocAll_frame r l s).1, h.free_iff j]
    by_cases hj : j ∈ l <;> simp [hj]
  · intro j r' hg
    rw [memAllocAll_alloc] at hg
    rw [(memAllocAll_frame r l s).1]
    by_cases hj : j ∈ l
    · exact ((h.free_iff j).mp (hl j hj)).1
    · simp only [hj, if_false] at hg; exact h.alloc_conf j r' hg

/-! ## the first-fit pick -/

def PickOK (s : State) (subnet : String) (ip : IP) (rs : List Range) : Prop :=
  ip ∈ walk rs ∧ ip ∈ s.free ∧ hasSubnet s.pools ip subnet = true

theorem pickRanges_spec (s : State) (subnet : String) :
    ∀ (ranges : List (List Range)) (picked picks : List IP), pickRanges s subnet ranges picked = some picks →
      ∃ new, picks = picked ++ new ∧ Forall2 (PickOK s subnet) new ranges ∧ (picked.Nodup → picks.Nodup) := by
  intro ranges
  induction ranges with
  | nil =>
    intro picked picks h
    simp only [pickRanges, Option.some.injEq] at h
    exact ⟨[], by simp [h], Forall2.nil, fun hn => h ▸ hn⟩
  | cons rs rest ih =>
    intro picked picks h
    unfold pickRanges at h
    split at h
    · cases h
    · next ip hfind =>
      have hp := List.find?_some hfind
      have hmem := List.mem_of_find?_eq_some hfind
      simp only [Bool.and_eq_true, decide_eq_true_eq, Bool.not_eq_true', List.contains_eq_mem, decide_eq_false_iff_not] at hp
      obtain ⟨new, hpk, hfa, hnd⟩ := ih _ _ h
      refine ⟨ip :: new, by simp [hpk], Forall2.cons ⟨hmem, hp.1.1, hp.1.2⟩ hfa, ?_⟩
      intro hn
      apply hnd
      rw [List.nodup_append]
      refine ⟨hn, by simp, ?_⟩
      intro a ha b hb
      simp at hb; subst hb
      intro e; subst e; exact hp.2 ha

theorem forall₂_length {α β : Type} {R : α → β → Prop} {l₁ : List α} {l₂ : List β} (h : Forall2 R l₁ l₂) :
    l₁.length = l₂.length := by
  induction h with
  | nil => rfl
  | cons _ _ ih => simp [ih]

theorem forall₂_get {α β : Type} {R : α → β → Prop} {l₁ : List α} {l₂ : List β} (h : Forall2 R l₁ l₂) :
    ∀ i (h1 : i < l₁.length) (h2 : i < l₂.length), R l₁[i] l₂[i] := by
  induction h with
  | nil => intro i h1; simp at h1
  | cons hd _ ih =>
    intro i h1 h2
    cases i with
    | zero => simpa using hd
    | succ k => simpa using ih k (by simpa using h1) (by simpa using h2)

theorem forall₂_mem_left {α β : Type} {R : α → β → Prop} {l₁ : List α} {l₂ : List β} (h : Forall2 R l₁ l₂) :
    ∀ a ∈ l₁, ∃ b ∈ l₂, R a b := by
  induction h with
  | nil => intro a ha; simp at ha
  | cons hd _ ih =>
    intro a ha
    rcases List.mem_cons.mp ha with ha | ha
    · subst ha; exact ⟨_, by simp, hd⟩
    · obtain ⟨b, hb, hr⟩ := ih a ha; exact ⟨b, List.mem_cons_of_mem _ hb, hr⟩

/-! ## the mutator -/

theorem sync_sameStore {s : State} (h : Sync s) (st : Store) (hst : ∀ j, st.get j = s.store.get j) :
    Sync { s with store := st } := by
  intro j hc
  rcases h j hc with hp | he
  · exact Or.inl hp
  · right; show optEq (s.alloc.get j) (st.get j); rw [hst j]; exact he

theorem memOK_allocateInSubnetsAndRanges {s : State} (h : MemOK s) (key subnet : String) (ranges : List (List Range)) (a : Attr)
    (choice : Option IP) (pl : Plan) (hadm : ranges = [] → admissibleInSubnet s subnet choice = true) :
    MemOK (allocateInSubnetsAndRanges s key subnet ranges a choice pl).1 := by
  unfold allocateInSubnetsAndRanges
  split
  · exact memOK_allocateInSubnet h _ _ _ _ _ (hadm rfl)
  · split
    · exact h
    · next picks hpick =>
      obtain ⟨new, hpk, hfa, _⟩ := pickRanges_spec s subnet _ _ _ hpick
      simp only [List.nil_append] at hpk
      subst hpk
      split
      · exact memOK_store h _
      · refine memOK_store (memOK_memAllocAll h _ _ ?_) _
        intro p hp
        obtain ⟨_, _, hr⟩ := forall₂_mem_left hfa p hp
        exact hr.2.1

theorem sync_allocateInSubnetsAndRanges {s : State} (h : Agree s) (key subnet : String) (ranges : List (List Range)) (a : Attr)
    (choice : Option IP) (pl : Plan)
    (hok : pl.fails = [] ∨ (pl.fails.length ≤ 1 ∧ FreeUnstored s))
    (hne : (allocateInSubnetsAndRanges s key subnet ranges a choice pl).2.err ≠ some .crashed) :
    Sync (allocateInSubnetsAndRanges s key subnet ranges a choice pl).1 := by
  cases ranges with
  | nil =>
    simp only [allocateInSubnetsAndRanges] at hne ⊢
    exact sync_allocateInSubnet h.sync _ _ _ _ _ hne
  | cons rs rest =>
    simp only [allocateInSubnetsAndRanges] at hne ⊢
    cases hpick : pickRanges s subnet (rs :: rest) [] with
    | none => simp only [hpick]; exact h.sync
    | some picks =>
      simp only [hpick] at hne ⊢
      obtain ⟨new, hpk, hfa, hnd⟩ := pickRanges_spec s subnet _ _ _ hpick
      simp only [List.nil_append] at hpk
      subst hpk
      have hfree : ∀ p ∈ picks, p ∈ s.free := by
        intro p hp
        obtain ⟨_, _, hr⟩ := forall₂_mem_left hfa p hp
        exact hr.2.1
      have hfact : Generated.Ipam.rollbackOnCreateFailure = true := rfl
      rw [hfact] at hne ⊢
      cases hc : createAll true pl (mkRec key a s.clock) picks [] 0 s.store with
      | mk st eo =>
        rw [hc] at hne
        cases eo with
        | some e =>
          simp only at hne ⊢
          have hec : e ≠ .crashed := by intro he; subst he; simp [Out.fail] at hne
          have hclean : pl.fails = [] ∨ (pl.fails.length ≤ 1 ∧ ∀ p ∈ picks, s.store.get p = none) := by
            rcases hok with h0 | ⟨h1, h2⟩
            · exact Or.inl h0
            · exact Or.inr ⟨h1, fun p hp => h2 p (hfree p hp)⟩
          have := createAll_fail pl _ picks [] 0 s.store st e hc hec (by simpa using hnd (by simp)) (by simp) hclean
          exact sync_sameStore h.sync st (by intro j; simpa using this j)
        | none =>
          simp only
          obtain ⟨_, _, hst⟩ := createAll_ok _ _ _ _ _ _ _ _ hc
          intro j hcf
          have hfr := memAllocAll_frame (mkRec key a s.clock) picks s
          have hcf' : configured s.pools j = true := by simpa [hfr.1] using hcf
          by_cases hj : j ∈ picks
          · right
            show optEq ((memAllocAll s (mkRec key a s.clock) picks).alloc.get j) (st.get j)
            rw [memAllocAll_alloc, hst j]
            simp [hj, optEq_refl]
          · rcases h.sync j hcf' with hp | he
            · left
              obtain ⟨e, he, hip⟩ := hp
              exact ⟨e, by simpa [hfr.2.1] using he, hip⟩
            · right
              show optEq ((memAllocAll s (mkRec key a s.clock) picks).alloc.get j) (st.get j)
              rw [memAllocAll_alloc, hst j]
              simpa [hj] using he

end Galaxy.Ipam
