/-
  M4-core proofs, part 6: `ConfigurePool` (reload, restart).
-/
import Galaxy.Lemmas.PluginMulti

namespace Galaxy.Plugin
open Galaxy

theorem mem_insertByGw (p q : Pool) : ∀ l : List Pool, q ∈ insertByGw p l ↔ q = p ∨ q ∈ l := by
  intro l
  induction l with
  | nil => simp [insertByGw]
  | cons x t ih =>
    unfold insertByGw
    split
    · simp
    · simp [ih]; constructor
      · rintro (h | h | h)
        · exact Or.inr (Or.inl h)
        · exact Or.inl h
        · exact Or.inr (Or.inr h)
      · rintro (h | h | h)
        · exact Or.inr (Or.inl h)
        · exact Or.inl h
        · exact Or.inr (Or.inr h)

theorem mem_sortPools (q : Pool) : ∀ ps : List Pool, q ∈ sortPools ps ↔ q ∈ ps := by
  intro ps
  induction ps with
  | nil => simp [sortPools]
  | cons x t ih =>
    have : sortPools (x :: t) = insertByGw x (sortPools t) := rfl
    rw [this, mem_insertByGw, ih]; simp

theorem configured_sortPools (ps : List Pool) (ip : Nat) : configured (sortPools ps) ip = configured ps ip := by
  unfold configured
  rw [Bool.eq_iff_iff]
  simp only [List.any_eq_true]
  constructor
  · rintro ⟨p, hp, h⟩; exact ⟨p, (mem_sortPools p ps).mp hp, h⟩
  · rintro ⟨p, hp, h⟩; exact ⟨p, (mem_sortPools p ps).mpr hp, h⟩

theorem mem_dedupNat : ∀ (l : List Nat) (x : Nat), x ∈ dedupNat l → x ∈ l := by
  intro l
  induction l with
  | nil => intro x h; simp [dedupNat] at h
  | cons y t ih =>
    intro x h
    simp only [dedupNat, List.mem_cons, List.mem_filter] at h
    rcases h with h | h
    · simp [h]
    · exact List.mem_cons_of_mem _ (ih x h.1)

theorem allIPs_configured (ps : List Pool) (ip : Nat) (h : ip ∈ allIPs ps) : configured ps ip = true := by
  have h1 := mem_dedupNat _ _ h
  simp only [List.mem_flatMap, List.mem_filter] at h1
  obtain ⟨p, hp, _, hh⟩ := h1
  unfold configured
  simp only [List.any_eq_true]
  exact ⟨p, hp, hh⟩

/-- what a successful `ConfigurePool` leaves behind (no store delete may fail: the fault, if any, is spent) -/
structure Reconfigured (s s' : State) (ps : List Pool) : Prop where
  pods : s'.pods = s.pods
  vPods : s'.vPods = s.vPods
  events : s'.events = s.events
  nextUid : s'.nextUid = s.nextUid
  pools : s'.pools = sortPools ps
  alloc : ∀ j, Tbl.get s'.alloc j = if configured ps j then Tbl.get s.alloc j else none
  coherent : Coherent s'

theorem configurePool_fail (s : State) (ps : List Pool) (hf : (configurePool s ps).2 = false) :
    (configurePool s ps).1 = s.api.1 := by
  revert hf
  unfold configurePool
  dsimp only
  split
  · intro _; rfl
  · intro h; cases h

theorem configurePool_ok (s : State) (ps : List Pool) (h : Coherent s) (hsp : s.fault = 0 ∨ s.fault ≤ s.calls + 1)
    (hok : (configurePool s ps).2 = true) : Reconfigured s (configurePool s ps).1 ps := by
  revert hok
  unfold configurePool
  dsimp only
  split
  · intro h; cases h
  · intro _
    have hspent : FaultSpent (confBase s.api.1 (sortPools ps)) := by
      unfold FaultSpent confBase; simp only [State.api]; omega
    have d := deleteAll_step (confDrop s.api.1 (sortPools ps)) (confBase s.api.1 (sortPools ps))
    have dg := deleteAll_get (confDrop s.api.1 (sortPools ps)) (confBase s.api.1 (sortPools ps)) hspent
    have hbase : (confBase s.api.1 (sortPools ps)).alloc = List.filter (fun e => configured (sortPools ps) e.1) s.store := rfl
    have hbs : (confBase s.api.1 (sortPools ps)).store = s.store := rfl
    have hbp : (confBase s.api.1 (sortPools ps)).pools = sortPools ps := rfl
    have halloc : ∀ j, Tbl.get (List.filter (fun e => configured (sortPools ps) e.1) s.store) j =
        if configured ps j then Tbl.get s.alloc j else none := by
      intro j
      rw [Tbl.get_filter_key s.store (fun k => configured (sortPools ps) k) j, configured_sortPools, h.agree]
    refine ⟨d.frame.pods, d.frame.vPods, d.frame.events, d.frame.nextUid, d.frame.pools.trans hbp, fun j => ?_, ?_⟩
    · show Tbl.get (deleteAll _ _).alloc j = _
      rw [d.alloc, hbase]; exact halloc j
    · refine ⟨fun j => ?_, fun j hj => ?_, fun j r hj => ?_, fun j hj => ?_, ?_, ?_⟩
      rotate_left 4
      · show (Tbl.keys (deleteAll _ _).alloc).Nodup
        rw [d.alloc, hbase]; exact Tbl.nodup_keys_filter _ h.storeNodup
      · show (Tbl.keys (deleteAll _ _).store).Nodup
        exact deleteAll_storeNodup _ _ (by rw [hbs]; exact h.storeNodup)
      · show Tbl.get (deleteAll _ _).store j = Tbl.get (deleteAll _ _).alloc j
        rw [d.alloc, dg j, hbase, hbs, halloc j, ← h.agree]
        by_cases hc : configured ps j = true
        · have hnd : j ∉ confDrop s.api.1 (sortPools ps) := by
            intro hm
            simp only [confDrop, List.mem_map, List.mem_filter] at hm
            obtain ⟨e, ⟨_, he⟩, hej⟩ := hm
            rw [hej, configured_sortPools, hc] at he; simp at he
          simp [hnd, hc]
        · have hc' : configured ps j = false := by simpa using hc
          simp only [hc', Bool.false_eq_true, if_false]
          split
          · rfl
          · rename_i hnd
            cases hg : Tbl.get s.store j with
            | none => rfl
            | some v =>
              exfalso; apply hnd
              simp only [confDrop, List.mem_map, List.mem_filter]
              exact ⟨(j, v), ⟨Tbl.get_mem hg, by simp [configured_sortPools, hc']⟩, rfl⟩
      · show Tbl.get (deleteAll _ _).alloc j = none
        rw [d.alloc, hbase]
        have hj' : j ∈ confFree s.api.1 (sortPools ps) := hj
        have := (List.mem_filter.mp hj').2
        simpa using this
      · show configured (deleteAll _ _).pools j = true
        rw [d.frame.pools, hbp]
        have hj' : Tbl.get (deleteAll _ _).alloc j = some r := hj
        rw [d.alloc, hbase, Tbl.get_filter_key s.store (fun k => configured (sortPools ps) k) j] at hj'
        by_cases hc : configured (sortPools ps) j = true
        · exact hc
        · simp [hc] at hj'
      · show configured (deleteAll _ _).pools j = true
        rw [d.frame.pools, hbp]
        have hj' : j ∈ confFree s.api.1 (sortPools ps) := hj
        exact allIPs_configured _ _ (List.mem_filter.mp hj').1

end Galaxy.Plugin
