/-
  M4-core proofs, part 6: `ConfigurePool` (reload, restart).
-/
import Galaxy.Lemmas.PluginMulti

namespace Galaxy.Plugin
open Galaxy

theorem mem_insertByGw (p q : Pool) : ∀ l : List Pool, q ∈ insertByGw p l ↔ q = p ∨ q ∈ l := by
  intro l
  induction l with
  | nil => simp [insertByGw]
  | cons x t ih =>
    unfold insertByGw
    split
    · simp
    · simp [ih]; constructor
      · rintro (h | h | h)
        · exact Or.inr (Or.inl h)
        · exact Or.inl h
        · exact Or.inr (Or.inr h)
      · rintro (h | h | h)
        · exact Or.inr (Or.inl h)
        · exact Or.inl h
        · exact Or.inr (Or.inr h)

theorem mem_sortPools (q : Pool) : ∀ ps : List Pool, q ∈ sortPools ps ↔ q ∈ ps := by
  intro ps
  induction ps with
  | nil => simp [sortPools]
  | cons x t ih =>
    have : sortPools (x :: t) = insertByGw x (sortPools t) := rfl
    rw [this, mem_insertByGw, ih]; simp

theorem configured_sortPools (ps : List Pool) (ip : Nat) : configured (sortPools ps) ip = configured ps ip := by
  unfold configured
  rw [Bool.eq_iff_iff]
  simp only [List.any_eq_true]
  constructor
  · rintro ⟨p, hp, h⟩; exact ⟨p, (mem_sortPools p ps).mp hp, h⟩
  · rintro ⟨p, hp, h⟩; exact ⟨p, (mem_sortPools p ps).mpr hp, h⟩

theorem mem_dedupNat : ∀ (l : List Nat) (x : Nat), x ∈ dedupNat l → x ∈ l := by
  intro l
  induction l with
  | nil => intro x h; simp [dedupNat] at h
  | cons y t ih =>
    intro x h
    simp only [dedupNat, List.mem_cons, List.mem_filter] at h
    rcases h with h | h
    · simp [h]
    · exact List.mem_cons_of_mem _ (ih x h.1)

theorem allIPs_configured (ps : List Pool) (ip : Nat) (h : ip ∈ allIPs ps) : configured ps ip = true := by
  have h1 := mem_dedupNat _ _ h
  simp only [List.mem_flatMap, List.mem_filter] at h1
  obtain ⟨p, hp, _, hh⟩ := h1
  unfold configured
  simp only [List.any_eq_true]
  exact ⟨p, hp, hh⟩

/-- what a successful `ConfigurePool` leaves behind: memory is rebuilt from the objects the store lists
    (`listed s` = the regular ones and the orphans of earlier failed deletes) -/
structure Reconfigured (s s' : State) (ps : List Pool) : Prop where
  pods : s'.pods = s.pods
  vPods : s'.vPods = s.vPods
  events : s'.events = s.events
  nextUid : s'.nextUid = s.nextUid
  pools : s'.pools = sortPools ps
  alloc : ∀ j, Tbl.get s'.alloc j = if configured ps j then Tbl.get (listed s) j else none
  coherent : Coherent s'

/-- `ConfigurePool` lists the store itself (the regenerated fact `reloadListsApiserver`): the regular objects and the
    orphans of earlier failed deletes - not an informer's view of them -/
theorem listed_eq (s : State) : listed s = s.store ++ s.orphans := rfl

theorem configurePool_fail (s : State) (ps : List Pool) (hf : (configurePool s ps).2 = false) :
    (configurePool s ps).1 = s.api.1 := by
  revert hf
  unfold configurePool
  dsimp only
  split
  · intro _; rfl
  · intro h; cases h

/-- the deletes of ConfigurePool touch the orphans (and the call counter) only -/
theorem dropAll_fields : ∀ (l : List IP) (s : State),
    (dropAll s l).alloc = s.alloc ∧ (dropAll s l).store = s.store ∧ (dropAll s l).pools = s.pools ∧
    (dropAll s l).pods = s.pods ∧ (dropAll s l).vPods = s.vPods ∧ (dropAll s l).events = s.events ∧
    (dropAll s l).nextUid = s.nextUid ∧ (dropAll s l).plog = s.plog := by
  intro l
  induction l with
  | nil => intro s; exact ⟨rfl, rfl, rfl, rfl, rfl, rfl, rfl, rfl⟩
  | cons ip t ih =>
    intro s
    unfold dropAll
    split
    · exact ih _
    · exact ih _

theorem get_confKeep (s : State) (ps : List Pool) (j : IP) :
    Tbl.get (confKeep s ps) j = if configured ps j then Tbl.get (listed s) j else none := by
  unfold confKeep
  rw [Tbl.get_dedup, Tbl.get_filter_key (listed s) (fun k => configured ps k) j]

/-- `ConfigurePool` succeeded (the list call did not fail); a failing delete just leaves an orphan -/
theorem configurePool_ok' (s : State) (ps : List Pool)
    (hok : (configurePool s ps).2 = true) : Reconfigured s (configurePool s ps).1 ps := by
  revert hok
  unfold configurePool
  dsimp only
  split
  · intro h; cases h
  · intro _
    have d := dropAll_fields (confDrop s.api.1 (sortPools ps)) (confBase s.api.1 (sortPools ps))
    have hkeep : ∀ j, Tbl.get (confKeep s.api.1 (sortPools ps)) j = if configured ps j then Tbl.get (listed s) j else none := by
      intro j; rw [get_confKeep, configured_sortPools]; rfl
    refine ⟨d.2.2.2.1, d.2.2.2.2.1, d.2.2.2.2.2.1, d.2.2.2.2.2.2.1, d.2.2.1, fun j => ?_, ?_⟩
    · show Tbl.get (dropAll _ _).alloc j = _
      rw [d.1]; exact hkeep j
    · refine ⟨fun j => ?_, fun j hj => ?_, fun j r hj => ?_, fun j hj => ?_, ?_, ?_⟩
      · show Tbl.get (dropAll _ _).store j = Tbl.get (dropAll _ _).alloc j
        rw [d.1, d.2.1]; rfl
      · show Tbl.get (dropAll _ _).alloc j = none
        rw [d.1]
        have hj' : j ∈ confFree s.api.1 (sortPools ps) := hj
        have := (List.mem_filter.mp hj').2
        show Tbl.get (confKeep s.api.1 (sortPools ps)) j = none
        simpa using this
      · show configured (dropAll _ _).pools j = true
        rw [d.2.2.1]
        have hj' : Tbl.get (dropAll _ _).alloc j = some r := hj
        rw [d.1] at hj'
        have hj'' : Tbl.get (confKeep s.api.1 (sortPools ps)) j = some r := hj'
        rw [get_confKeep] at hj''
        by_cases hc : configured (sortPools ps) j = true
        · exact hc
        · simp [hc] at hj''
      · show configured (dropAll _ _).pools j = true
        rw [d.2.2.1]
        have hj' : j ∈ confFree s.api.1 (sortPools ps) := hj
        exact allIPs_configured _ _ (List.mem_filter.mp hj').1
      · show (Tbl.keys (dropAll _ _).alloc).Nodup
        rw [d.1]; exact Tbl.nodup_keys_dedup _
      · show (Tbl.keys (dropAll _ _).store).Nodup
        rw [d.2.1]; exact Tbl.nodup_keys_dedup _

theorem dropAll_admin : ∀ (l : List IP) (s : State), (dropAll s l).admin = s.admin := by
  intro l
  induction l with
  | nil => intro s; rfl
  | cons ip t ih =>
    intro s
    unfold dropAll
    split
    · exact ih _
    · exact ih _

/-- a successful `ConfigurePool` forgets the reservations on addresses that are no longer configured -/
theorem configurePool_admin (s : State) (ps : List Pool) (hok : (configurePool s ps).2 = true) (j : IP) :
    Tbl.get (configurePool s ps).1.admin j = if configured ps j then Tbl.get s.admin j else none := by
  revert hok
  unfold configurePool
  dsimp only
  split
  · intro h; cases h
  · intro _
    show Tbl.get (dropAll _ _).admin j = _
    rw [dropAll_admin]
    show Tbl.get (List.filter (fun e => configured (sortPools ps) e.1) s.admin) j = _
    rw [Tbl.get_filter_key s.admin (fun k => configured (sortPools ps) k) j, configured_sortPools]

/-- earlier signature (the two hypotheses are no longer needed), kept so that callers need no change -/
theorem configurePool_ok (s : State) (ps : List Pool) (_h : Coherent s) (_hsp : s.fault = 0 ∨ s.fault ≤ s.calls + 1)
    (hok : (configurePool s ps).2 = true) : Reconfigured s (configurePool s ps).1 ps := configurePool_ok' s ps hok

end Galaxy.Plugin
