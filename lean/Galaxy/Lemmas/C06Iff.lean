/-
  C06 lemmas, part 10: for a default-policy pod, Filter offers EXACTLY the candidate nodes whose subnet is listed by the
  pool of every held address and, for every range list without a held address, by the pool of a free address.
-/
import Galaxy.Lemmas.C06Top

namespace Galaxy.Plugin.C06
open Galaxy Galaxy.Plugin

/-- the node subnet `sn` serves the pod's request in state `s` -/
def OfferSpec (s : State) (pod : Pod) (sn : Subnet) : Prop :=
  (∀ ip, ip ∈ held s pod → hasSubnet s ip sn = true) ∧
    ((unfound s pod ≠ [] ∨ held s pod = []) → FreeRoutable s sn (unfound s pod))

theorem unfoundRanges_all_none : ∀ (rss : List Ranges) (infos : List (Option IP)), infos.length = rss.length →
    infos.filterMap id = [] → unfoundRanges infos rss = rss := by
  intro rss
  induction rss with
  | nil => intro infos _ _; simp [unfoundRanges]
  | cons r u ih =>
    intro infos hl hf
    cases infos with
    | nil => simp at hl
    | cons o t =>
      cases o with
      | some x => simp at hf
      | none =>
        rw [unfoundRanges_cons]
        simp only [Option.isNone_none, if_true, List.singleton_append, List.cons.injEq, true_and]
        exact ih t (by simpa using hl) (by simpa using hf)

/-- a pod that holds nothing has all of its request unfound -/
theorem unfound_of_fresh (s : State) (pod : Pod) (h : held s pod = []) : unfound s pod = pod.ranges := by
  unfold unfound
  by_cases hr : pod.ranges = []
  · rw [hr]; simp [unfoundRanges]
  · exact unfoundRanges_all_none _ _ (length_byKeyAndRanges s (keyOf pod) pod.ranges hr) h

theorem offerSpec_fresh (s : State) (pod : Pod) (sn : Subnet) (h : held s pod = []) :
    OfferSpec s pod sn ↔ FreeRoutable s sn pod.ranges := by
  unfold OfferSpec
  rw [unfound_of_fresh s pod h, h]
  constructor
  · intro hh; exact hh.2 (Or.inr rfl)
  · intro hh; exact ⟨fun _ hip => (by cases hip), fun _ => hh⟩

/-- the set `getSubnet` answers for a default-policy pod (that holds nothing if it requests no ranges) -/
theorem getSubnet_default {s : State} {pod : Pod} (ch : Choice) (hp : policyOf pod = 0)
    (hh : pod.ranges = [] → ipsOfKey s (keyOf pod) = []) :
    ∃ set, getSubnet s pod ch = (s, .ok set) ∧ ∀ sn, sn ∈ set ↔ OfferSpec s pod sn := by
  by_cases hr : pod.ranges = []
  · have hk := hh hr
    have hheld : held s pod = [] := by rw [held_nil s pod hr, hk]
    refine ⟨_, getSubnet_default_fresh s pod ch hp hr hk, fun sn => ?_⟩
    rw [offerSpec_fresh s pod sn hheld, hr, mem_nodeSubnetsByRanges]
  · refine ⟨_, getSubnet_default_ranges s pod ch hp hr, fun sn => ?_⟩
    unfold OfferSpec
    by_cases hu : unfound s pod = []
    · have hne := held_ne_of_allFound s pod hr hu
      simp only [hu, if_true]
      rw [mem_allocatedSubnets s sn _ hne]
      constructor
      · intro h; exact ⟨h, fun hc => by rcases hc with hc | hc; exact absurd rfl hc; exact absurd hc hne⟩
      · intro h; exact h.1
    · simp only [hu, if_false]
      unfold offered
      by_cases he : held s pod = []
      · simp only [he, List.isEmpty_nil, if_true]
        rw [mem_nodeSubnetsByRanges]
        constructor
        · intro h; exact ⟨fun _ hip => (by cases hip), fun _ => h⟩
        · intro h; exact h.2 (Or.inr trivial)
      · have he' : (held s pod).isEmpty = false := list_isEmpty_false he
        simp only [he', Bool.false_eq_true, if_false]
        rw [mem_sinter, mem_nodeSubnetsByRanges, mem_allocatedSubnets s sn _ he]
        constructor
        · intro h; exact ⟨h.2, fun _ => h.1⟩
        · intro h; exact ⟨h.2 (Or.inl hu), h.1⟩

/-- Filter for a default-policy pod: the approved nodes are exactly the candidates with a serving subnet -/
theorem filter_default_iff {s : State} {ns name : String} {pod : Pod} (h : Scene s ns name pod) (nodes : List String)
    (ch : Choice) (hp : policyOf pod = 0) (hh : pod.ranges = [] → ipsOfKey s (keyOf pod) = []) (node : String) :
    node ∈ (filter s ns name nodes ch).2.nodes ↔
      node ∈ nodes ∧ ∃ sn, nodeSubnetOfNode s node = some sn ∧ OfferSpec s pod sn := by
  obtain ⟨set, hg, hset⟩ := getSubnet_default ch hp hh
  unfold filter
  simp only [h.truth, h.wants, Bool.not_true, Bool.false_eq_true, if_false, hg]
  obtain ⟨_, _, f3, _, _⟩ := filterNodes_spec set nodes [] s h.cache
  rw [f3]
  simp only [List.not_mem_nil, false_or]
  constructor
  · rintro ⟨hm, sn, h1, h2⟩; exact ⟨hm, sn, h1, (hset sn).mp h2⟩
  · rintro ⟨hm, sn, h1, h2⟩; exact ⟨hm, sn, h1, (hset sn).mpr h2⟩

/-- a default-policy Filter always answers ok -/
theorem filter_default_ok {s : State} {ns name : String} {pod : Pod} (h : Scene s ns name pod) (nodes : List String)
    (ch : Choice) (hp : policyOf pod = 0) (hh : pod.ranges = [] → ipsOfKey s (keyOf pod) = []) :
    (filter s ns name nodes ch).2.res = .ok := by
  obtain ⟨set, hg, _⟩ := getSubnet_default ch hp hh
  unfold filter
  simp only [h.truth, h.wants, Bool.not_true, Bool.false_eq_true, if_false, hg]

/-! ### the step function with fault arguments 0 -/

theorem coherent_withFaults {s : State} (h : Coherent s) (f pf : Nat) : Coherent (withFaults s f pf) :=
  ⟨h.agree, h.disjoint, h.allocConf, h.freeConf, h.allocNodup, h.storeNodup⟩

theorem scene_withFaults {s : State} {ns name : String} {pod : Pod} (h : Scene s ns name pod) (f pf : Nat) :
    Scene (withFaults s f pf) ns name pod :=
  ⟨coherent_withFaults h.coh f pf, h.cache, h.truth, h.lister, h.wants, h.pending⟩

theorem noFault_withFaults (s : State) : NoFault (withFaults s 0 0) := ⟨rfl, rfl⟩

end Galaxy.Plugin.C06
