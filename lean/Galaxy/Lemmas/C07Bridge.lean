/-
  C07 proofs, part 5: the link between the wording of the property ("every bind is preceded by a filter that saw the Pool
  object") and the state-level side condition `bindOK` of the theorems: a Filter of a deployment pod that saw the Pool
  object and approved at least one node leaves the pod owning an address for every request, so a bind that follows
  allocates nothing.
-/
import Galaxy.Lemmas.C07Inter

namespace Galaxy.PluginC07
open Galaxy Galaxy.Plugin

theorem sminStr_none (l : List Subnet) (h : sminStr l = none) : l = [] := by
  cases l with
  | nil => rfl
  | cons x t =>
    unfold sminStr at h
    cases hm : sminStr t with
    | none => rw [hm] at h; cases h
    | some y => rw [hm] at h; dsimp only at h; split at h <;> cases h

theorem filterNodes_nil_set : ∀ (nodes acc : List String) (s : State), (filterNodes s [] nodes acc).2 = acc := by
  intro nodes
  induction nodes with
  | nil => intro acc s; rfl
  | cons n t ih =>
    intro acc s
    unfold filterNodes
    dsimp only
    split
    · exact ih acc _
    · simp only [List.contains_nil, Bool.false_eq_true, ↓reduceIte]
      exact ih acc _

/-- the key owns an address after a successful `allocateDuringFilter` -/
theorem allocateDuringFilter_owns (s : State) (k : Key) (resv : Bool) (n : Subnet) (a : Attr) (pick : Option IP)
    (h : (allocateDuringFilter s k resv n a pick).2 = .ok) : ipsOfKey (allocateDuringFilter s k resv n a pick).1 k ≠ [] := by
  have own : ∀ (s' : State) (ip : IP) (r : Rec), Tbl.get s'.alloc ip = some r → r.key = k → ipsOfKey s' k ≠ [] := by
    intro s' ip r hr hk hnil
    have := mem_ipsOfKey_of_get hr hk
    rw [hnil] at this; cases this
  unfold allocateDuringFilter at h ⊢
  cases resv with
  | true =>
    simp only [↓reduceIte] at h ⊢
    unfold allocateInSubnetWithKey at h ⊢
    dsimp only at h ⊢
    split
    · rename_i hc; rw [if_pos hc] at h; cases h
    · rename_i hc
      rw [if_neg hc] at h
      split
      · simp at h
      · rename_i ip
        split
        · rename_i hg; simp [hg] at h
        · rename_i r hr
          simp only [hr] at h
          split
          · rename_i hadm; rw [if_pos hadm] at h; cases h
          · rename_i hadm
            rw [if_neg hadm] at h
            split
            · rename_i hst; rw [if_pos hst] at h; cases h
            · exact own _ ip (r.assign k a s.clock) (by simp) rfl
  | false =>
    simp only [Bool.false_eq_true, ↓reduceIte] at h ⊢
    unfold allocateInSubnet at h ⊢
    dsimp only at h ⊢
    split
    · rename_i hc; rw [if_pos hc] at h; cases h
    · rename_i hc
      rw [if_neg hc] at h
      split
      · simp at h
      · rename_i ip
        dsimp only at h
        split
        · rename_i hin; rw [if_pos hin] at h; cases h
        · rename_i hin
          rw [if_neg hin] at h
          split
          · rename_i hst; rw [if_pos hst] at h; cases h
          · exact own _ ip (mkRec k a s.clock) (by simp [memAlloc]) rfl

theorem byKeyAndRanges_alloc (s s' : State) (k : Key) (rss : List (List (Nat × Nat))) (h : s'.alloc = s.alloc) :
    byKeyAndRanges s' k rss = byKeyAndRanges s k rss := by
  unfold byKeyAndRanges ipsOfKey ownsB
  rw [h]

theorem bindInfos_alloc (s s' : State) (pod : Pod) (ch : Choice) (h : s'.alloc = s.alloc) :
    bindInfos s' pod ch = bindInfos s pod ch := by
  unfold bindInfos
  rw [byKeyAndRanges_alloc s s' _ _ h]

/-- "the pod owns an address for every request": the bind's allocation step has nothing to do -/
def Owns (s : State) (pod : Pod) : Prop :=
  ∀ ch' infos, bindInfos s pod ch' = some infos → bindAllocates infos pod = false

theorem owns_of_alloc_eq {s s' : State} {pod : Pod} (h : s'.alloc = s.alloc) (ho : Owns s pod) : Owns s' pod := by
  intro ch' infos hi
  rw [bindInfos_alloc s s' pod ch' h] at hi
  exact ho ch' infos hi

/-- no requested ranges and at least one address under the key -/
theorem owns_of_ips (s : State) (pod : Pod) (hr : pod.ranges = []) (hips : ipsOfKey s (keyOf pod) ≠ []) : Owns s pod := by
  intro ch' infos hi
  unfold bindInfos at hi
  have hne : (byKeyAndRanges s (keyOf pod) pod.ranges).isEmpty = false := by
    unfold byKeyAndRanges
    rw [hr]
    simp only [List.isEmpty_nil, ↓reduceIte, List.isEmpty_eq_false_iff, ne_eq, List.map_eq_nil_iff]
    exact hips
  rw [hr] at hi hne
  simp only [List.isEmpty_nil, hne, Bool.not_false, Bool.and_self, ↓reduceIte] at hi
  cases hp : pickFirst (byKeyAndRanges s (keyOf pod) []) ch'.first with
  | none => rw [hp] at hi; simp at hi
  | some ip =>
    rw [hp] at hi
    simp only [Option.map_some, Option.some.injEq] at hi
    subst hi
    unfold bindAllocates unfoundRanges
    rw [hr]
    simp

/-- requested ranges, an address found for each of them -/
theorem owns_of_found (s : State) (pod : Pod) (hr : pod.ranges ≠ [])
    (hu : (unfoundRanges (byKeyAndRanges s (keyOf pod) pod.ranges) pod.ranges).isEmpty = true) : Owns s pod := by
  intro ch' infos hi
  unfold bindInfos at hi
  have hre : pod.ranges.isEmpty = false := by simpa using hr
  simp only [hre, Bool.false_and, Bool.false_eq_true, ↓reduceIte, Option.some.injEq] at hi
  subst hi
  unfold bindAllocates
  rw [hu]
  have : (byKeyAndRanges s (keyOf pod) pod.ranges).isEmpty = false := by
    unfold byKeyAndRanges
    rw [if_neg (by simp [hre])]
    simpa using hr
  simp [this]

theorem bindOK_of_owns (s : State) (ns name : String) (pod : Pod) (hv : Tbl.get s.vPods (ns, name) = some pod)
    (ho : Owns s pod) (ch' : Choice) : bindOK s ns name ch' = true := by
  unfold bindOK
  rw [hv]
  dsimp only
  cases hb : bindInfos s pod ch' with
  | none => rfl
  | some infos => simp [ho ch' infos hb]

theorem decideCont_fail (G : Facts) (s : State) (pod : Pod) (rss : List (List (Nat × Nat))) (ha : Bool) (al : List Subnet)
    (r : Res) (h : decideCont G s pod rss ha al = .fail r) : ∃ c, r = .err c := by
  unfold decideCont at h
  by_cases hpol : policyOf pod ≠ 0 ∧ (!supportReserve (keyOf pod) (policyOf pod)) = true
  · rw [if_pos hpol] at h; cases h; exact ⟨_, rfl⟩
  · rw [if_neg hpol] at h
    cases hg : getAvailableSubnet7 G s (keyOf pod) (policyOf pod) (replicasOf s pod).1 (replicasOf s pod).2 rss with
    | error c => rw [hg] at h; cases h; exact ⟨_, rfl⟩
    | ok p =>
      obtain ⟨set0, resv⟩ := p
      rw [hg] at h
      dsimp only at h
      by_cases hc : ((resv || (G.allocatesWhenReserveOrSized && (replicasOf s pod).2)) &&
          !(if ha = true then sinter set0 al else set0).isEmpty) = true
      · rw [if_pos hc] at h
        cases hm : sminStr (if ha = true then sinter set0 al else set0) with
        | none => rw [hm] at h; cases h
        | some n => rw [hm] at h; cases h
      · rw [if_neg hc] at h; cases h

/-- with a size defined, "no allocation" means "no subnet" -/
theorem decideCont_pass_sized (s : State) (pod : Pod) (rss : List (List (Nat × Nat))) (ha : Bool) (al : List Subnet)
    (set : List Subnet) (hsz : (replicasOf s pod).2 = true) (h : decideCont Facts.good s pod rss ha al = .pass set) :
    set = [] := by
  unfold decideCont at h
  by_cases hpol : policyOf pod ≠ 0 ∧ (!supportReserve (keyOf pod) (policyOf pod)) = true
  · rw [if_pos hpol] at h; cases h
  · rw [if_neg hpol] at h
    cases hg : getAvailableSubnet7 Facts.good s (keyOf pod) (policyOf pod) (replicasOf s pod).1 (replicasOf s pod).2 rss with
    | error c => rw [hg] at h; cases h
    | ok p =>
      obtain ⟨set0, resv⟩ := p
      rw [hg] at h
      dsimp only at h
      by_cases hc : ((resv || (Facts.good.allocatesWhenReserveOrSized && (replicasOf s pod).2)) &&
          !(if ha = true then sinter set0 al else set0).isEmpty) = true
      · rw [if_pos hc] at h
        cases hm : sminStr (if ha = true then sinter set0 al else set0) with
        | none =>
          have := sminStr_none _ hm
          rw [this] at hc
          simp at hc
        | some n => rw [hm] at h; cases h
      · rw [if_neg hc] at h
        cases h
        simp only [hsz, Facts.good, Bool.and_self, Bool.or_true, Bool.true_and, Bool.not_eq_true'] at hc
        cases hx : (if ha = true then sinter set0 al else set0) with
        | nil => rfl
        | cons a t => rw [hx] at hc; simp at hc

/-- a deployment pod with a reserving policy and requested ranges is refused -/
theorem decideCont_dp_ranges (s : State) (pod : Pod) (rss : List (List (Nat × Nat))) (ha : Bool) (al : List Subnet)
    (hdp : (keyOf pod).isDp = true) (hpol : policyOf pod = 2) (hr : rss ≠ []) :
    decideCont Facts.good s pod rss ha al = .fail (.err "bad-input") := by
  have hsup : supportReserve (keyOf pod) 2 = true := by unfold supportReserve; simp [hdp]
  unfold decideCont
  rw [hpol]
  have h1 : ¬ ((2 : Nat) ≠ 0 ∧ (!supportReserve (keyOf pod) 2) = true) := by simp [hsup]
  rw [if_neg h1]
  have hg : getAvailableSubnet7 Facts.good s (keyOf pod) 2 (replicasOf s pod).1 (replicasOf s pod).2 rss = .error "bad-input" := by
    unfold getAvailableSubnet7
    have hre : rss.isEmpty = false := by simpa using hr
    simp [hdp, hre]
  rw [hg]

/-- "every bind is preceded by a filter that saw the Pool object": a Filter of a deployment pod of a named pool whose
    Pool object is in the lister, answering ok with at least one node, leaves the pod owning an address for every
    request - the side condition `bindOK` of the bind that follows holds (until somebody takes the address away). -/
theorem sized_filter_establishes_bindOK (s : State) (hc : Coherent s) (ns name : String) (nodes : List String)
    (ch : Choice) (pod : Pod) (z : Nat)
    (hpod : Tbl.get s.pods (ns, name) = some pod) (hv : Tbl.get s.vPods (ns, name) = some pod)
    (hw : pod.wants = true) (hdp : (keyOf pod).isDp = true) (hpool : (keyOf pod).pool ≠ "")
    (hz : Tbl.get s.vPoolObjs (keyOf pod).pool = some z)
    (hok : (filter7 Facts.good s ns name nodes ch).2.res = .ok)
    (hnodes : (filter7 Facts.good s ns name nodes ch).2.nodes ≠ []) (ch' : Choice) :
    bindOK (filter7 Facts.good s ns name nodes ch).1 ns name ch' = true := by
  -- the sized flag and the policy the Filter works with
  have hsz : replicasOf s pod = (z, true) := by
    unfold replicasOf getDpReplicas
    rw [if_pos hdp, if_pos hpool, hz]
  have hpp : pod.pool ≠ "" := by
    rcases isDp_pool pod with h0 | h0
    · exact absurd h0 hpool
    · rw [← h0]; exact hpool
  have hpol : policyOf pod = 2 := policyOf_pool pod hpp
  have hsup : supportReserve (keyOf pod) 2 = true := by unfold supportReserve; simp [hdp]
  unfold filter7 at hok hnodes ⊢
  rw [hpod] at hok hnodes ⊢
  have hw' : (!pod.wants) = false := by simp [hw]
  simp only [hw', Bool.false_eq_true, ↓reduceIte] at hok hnodes ⊢
  -- what the final state and answer look like for each decision
  have fin : ∀ (d : Decision),
      (filterFinish s nodes (applyDecision s pod ch d)).2.res = .ok →
      (filterFinish s nodes (applyDecision s pod ch d)).2.nodes ≠ [] →
      (Owns s pod ∨ ∃ resv n, d = .alloc resv n) →
      (∀ resv n, d = .alloc resv n → pod.ranges = []) →
      Owns (filterFinish s nodes (applyDecision s pod ch d)).1 pod ∧
      (filterFinish s nodes (applyDecision s pod ch d)).1.vPods = s.vPods := by
    intro d hres hnd hcase hnoranges
    have hown0 : (∀ resv n, d ≠ .alloc resv n) → Owns s pod := by
      intro hna
      rcases hcase with h | ⟨resv, n, h⟩
      · exact h
      · exact absurd h (hna resv n)
    cases d with
    | fail r =>
      have ho := hown0 (fun _ _ h => by cases h)
      unfold applyDecision filterFinish at hres ⊢
      cases r with
      | ok => exact ⟨ho, rfl⟩
      | err c => simp at hres
      | inadmissible => simp [Out.bad] at hres
    | pass set =>
      have ho := hown0 (fun _ _ h => by cases h)
      unfold applyDecision filterFinish
      dsimp only
      have q := (filterNodes_quiet set nodes [] s).1
      exact ⟨owns_of_alloc_eq q.alloc ho, q.frame.vPods⟩
    | alloc resv n =>
      unfold applyDecision filterFinish at hres hnd ⊢
      dsimp only at hres hnd ⊢
      generalize hr : (allocateDuringFilter s (keyOf pod) resv n (filterAttr pod) ch.pick) = a at hres hnd ⊢
      obtain ⟨a1, a2⟩ := a
      cases a2 with
      | ok =>
        dsimp only
        have q := (filterNodes_quiet [n] nodes [] a1).1
        have c := allocateDuringFilter_chg s (keyOf pod) resv n (filterAttr pod) ch.pick hc
        have hown := allocateDuringFilter_owns s (keyOf pod) resv n (filterAttr pod) ch.pick (by rw [hr])
        rw [hr] at c hown
        dsimp only at c hown
        refine ⟨owns_of_alloc_eq q.alloc ?_, q.frame.vPods.trans c.frame.vPods⟩
        exact owns_of_ips a1 pod (hnoranges resv n rfl) hown
      | err c => simp at hres
      | inadmissible => simp [Out.bad] at hres
  have key : (Owns s pod ∨ ∃ resv n, decide7 Facts.good s pod ch = .alloc resv n) ∧
      (∀ resv n, decide7 Facts.good s pod ch = .alloc resv n → pod.ranges = []) := by
    -- a decision that neither allocates nor leaves the pod owning its addresses contradicts "ok with a node"
    have notfail : ∀ r, decide7 Facts.good s pod ch = .fail r → r ≠ .ok → False := by
      intro r hd hne
      rw [hd] at hok
      unfold applyDecision filterFinish at hok
      cases r with
      | ok => exact hne rfl
      | err c => simp at hok
      | inadmissible => simp [Out.bad] at hok
    have notempty : decide7 Facts.good s pod ch = .pass [] → False := by
      intro hd
      rw [hd] at hnodes
      unfold applyDecision filterFinish at hnodes
      dsimp only at hnodes
      exact hnodes (filterNodes_nil_set nodes [] s)
    by_cases hr : pod.ranges = []
    · refine ⟨?_, fun _ _ _ => hr⟩
      have hre : pod.ranges.isEmpty = true := by simp [hr]
      unfold decide7 at notfail notempty ⊢
      rw [if_pos hre] at notfail notempty ⊢
      cases hi : byKeyAndRanges s (keyOf pod) pod.ranges with
      | nil =>
        rw [hi] at notfail notempty
        dsimp only at notfail notempty ⊢
        cases hd : decideCont Facts.good s pod [] false [] with
        | fail r =>
          obtain ⟨c, hc'⟩ := decideCont_fail _ s pod _ _ _ r hd
          exact absurd (notfail r hd (by rw [hc']; intro h; cases h)) id
        | pass set =>
          have := decideCont_pass_sized s pod _ _ _ set (by rw [hsz]) hd
          subst this
          exact absurd (notempty hd) id
        | alloc resv n => exact Or.inr ⟨resv, n, rfl⟩
      | cons a t =>
        left
        apply owns_of_ips s pod hr
        intro hnil
        unfold byKeyAndRanges at hi
        rw [hr] at hi
        simp only [List.isEmpty_nil, ↓reduceIte, hnil, List.map_nil] at hi
        cases hi
    · have hre : pod.ranges.isEmpty = false := by simpa using hr
      unfold decide7 at notfail ⊢
      rw [if_neg (by simp [hre])] at notfail ⊢
      by_cases hu : (unfoundRanges (byKeyAndRanges s (keyOf pod) pod.ranges) pod.ranges).isEmpty = true
      · rw [if_pos hu]
        refine ⟨Or.inl (owns_of_found s pod hr hu), fun _ _ h => by cases h⟩
      · rw [if_neg hu] at notfail ⊢
        have hne : unfoundRanges (byKeyAndRanges s (keyOf pod) pod.ranges) pod.ranges ≠ [] := by simpa using hu
        have := decideCont_dp_ranges s pod _ (!((byKeyAndRanges s (keyOf pod) pod.ranges).filterMap id).isEmpty)
          (allocatedSubnets s ((byKeyAndRanges s (keyOf pod) pod.ranges).filterMap id)) hdp hpol hne
        exact absurd (notfail _ this (by intro h; cases h)) id
  have r := fin (decide7 Facts.good s pod ch) hok hnodes key.1 key.2
  exact bindOK_of_owns _ ns name pod (by rw [r.2]; exact hv) r.1 ch'

end Galaxy.PluginC07
