/-
  Specification vocabulary for C11 (well-formed key parts, the five key shapes) and the codec lemmas:
  `parseKey ∘ genKey = id` on well-formed parts, app-type round trip, pod-key suffix decomposition.
-/
import Galaxy.Lemmas.Keys

namespace Galaxy.Keys
open Galaxy.Generated.Keys

/-- the string does not contain the key separator `_` (true of every DNS-1123 name) -/
def noSep (s : Str) : Prop := sep ∉ s

instance (s : Str) : Decidable (noSep s) := inferInstanceAs (Decidable (sep ∉ s))

/-- the fields a key is generated from (`genKey`'s inputs) -/
structure Parts where
  tp : Str
  ns : Str
  app : Str
  pod : Str
  pool : Str
  deriving DecidableEq, Repr

/-- the key `genKey` produces for the parts -/
def Parts.key (p : Parts) : Str := genKey p.tp p.ns p.app p.pod p.pool

/-- the `KeyObj` carrying the parts and their key -/
def Parts.obj (p : Parts) : KeyObj := newKeyObj p.tp p.ns p.app p.pod p.pool

/-- an app-type prefix as `FormatKey` produces them: a separator-free body followed by `_` -/
def WFType (tp : Str) : Prop := ∃ body, noSep body ∧ tp = body ++ resolveTypeSuffix

/-- Well-formed parts.  Names contain no `_`.  Either an app is named — then the namespace is non-empty and
    the type prefix is `body_` — or no app is named and then type, namespace and pod are empty too (the key is
    a bare pool prefix, or the empty key of an unallocated ip). -/
structure WF (p : Parts) : Prop where
  ns : noSep p.ns
  app : noSep p.app
  pod : noSep p.pod
  pool : noSep p.pool
  full : p.app ≠ [] → p.ns ≠ [] ∧ WFType p.tp
  bare : p.app = [] → p.tp = [] ∧ p.ns = [] ∧ p.pod = []

/-! The five key shapes of the code base. -/

/-- `<type>_<ns>_<app>_<pod>`: a pod's key -/
def podKey (tp ns app pod : Str) : Parts := ⟨tp, ns, app, pod, []⟩
/-- `<type>_<ns>_<app>_`: an app's prefix key (reserved deployment ips) -/
def appPrefixKey (tp ns app : Str) : Parts := ⟨tp, ns, app, [], []⟩
/-- `pool__<pool>_`: a pool's prefix key -/
def poolKey (pool : Str) : Parts := ⟨[], [], [], [], pool⟩
/-- `pool__<pool>_<type>_<ns>_<app>_`: pool + app prefix key -/
def poolAppKey (pool tp ns app : Str) : Parts := ⟨tp, ns, app, [], pool⟩
/-- `pool__<pool>_<type>_<ns>_<app>_<pod>`: key of a pod in a pool -/
def poolPodKey (pool tp ns app pod : Str) : Parts := ⟨tp, ns, app, pod, pool⟩

/-! ### facts about the generated constants the codec proofs rest on -/

theorem suffix_is_sep : resolveTypeSuffix = [sep] := by decide
theorem typeSuffix_is_sep : appTypePrefixSuffix = [sep] := by decide
theorem poolPrefix_shape : poolPrefix = ['p', 'o', 'o', 'l'] ++ [sep, sep] ∧ sep ∉ ['p', 'o', 'o', 'l'] := by decide
theorem genKeyPoolPrefix_eq (pool : Str) : genKeyPoolPrefix pool = poolPrefix ++ (pool ++ [sep]) := by
  simp [genKeyPoolPrefix, sep]
theorem genKeyFull_eq (pfx body ns app pod : Str) :
    genKeyFull pfx (body ++ [sep]) ns app pod = pfx ++ (body ++ sep :: (ns ++ sep :: (app ++ sep :: pod))) := by
  simp [genKeyFull, sep]

theorem resolvePodKey_nil : resolvePodKey [] = ([], [], [], []) := by decide

theorem resolvePodKey_full {body ns app pod : Str} (hb : noSep body) (hn : noSep ns) (ha : noSep app)
    (hp : noSep pod) :
    resolvePodKey (body ++ sep :: (ns ++ sep :: (app ++ sep :: pod))) = (body ++ [sep], app, pod, ns) := by
  unfold resolvePodKey
  rw [splitOn_append _ hb, splitOn_append _ hn, splitOn_append _ ha, splitOn_noSep hp]
  simp [partCount, resolveIdx, suffix_is_sep]

theorem stripPrefix_pool_full_none {body ns rest : Str} (hb : noSep body) (hn : noSep ns) (hne : ns ≠ []) :
    stripPrefix poolPrefix (body ++ sep :: (ns ++ rest)) = none := by
  cases ns with
  | nil => exact absurd rfl hne
  | cons n ns' =>
    have hn' : n ≠ sep := fun e => hn (by simp [e])
    rw [poolPrefix_shape.1]
    exact stripPrefix_double_sep_none poolPrefix_shape.2 hb hn'

/-- `ParseKey` inverts `genKey` on well-formed parts -/
theorem parseKey_genKey (p : Parts) (h : WF p) : parseKey p.key = p.obj := by
  obtain ⟨tp, ns, app, pod, pool⟩ := p
  have hns := h.ns; have happ := h.app; have hpod := h.pod; have hpool := h.pool
  simp only at hns happ hpod hpool
  by_cases ha : app = []
  · obtain ⟨h1, h2, h3⟩ := h.bare ha
    simp only at h1 h2 h3
    subst ha h1 h2 h3
    by_cases hp : pool = []
    · subst hp; decide
    · simp only [Parts.key, Parts.obj, newKeyObj, genKey, hp, ne_eq, not_false_eq_true, and_self, if_true]
      simp only [parseKey, genKeyPoolPrefix_eq, stripPrefix_append]
      rw [cut_append _ hpool]
      simp [resolvePodKey_nil]
  · obtain ⟨hnsne, body, hbody, htp⟩ := h.full ha
    simp only at hnsne htp
    rw [suffix_is_sep] at htp
    subst htp
    by_cases hp : pool = []
    · subst hp
      simp only [Parts.key, Parts.obj, newKeyObj, genKey, ha, ne_eq, not_true_eq_false, false_and, if_false,
        and_false, genKeyFull_eq, List.nil_append]
      simp only [parseKey]
      rw [stripPrefix_pool_full_none hbody hns hnsne, resolvePodKey_full hbody hns happ hpod]
    · simp only [Parts.key, Parts.obj, newKeyObj, genKey, ha, hp, ne_eq, not_false_eq_true, and_false, if_false,
        if_true, false_and, genKeyFull_eq, genKeyPoolPrefix_eq]
      simp only [parseKey, List.append_assoc, stripPrefix_append]
      have : pool ++ ([sep] ++ (body ++ sep :: (ns ++ sep :: (app ++ sep :: pod))))
          = pool ++ sep :: (body ++ sep :: (ns ++ sep :: (app ++ sep :: pod))) := by simp
      rw [this, cut_append _ hpool]
      simp only [resolvePodKey_full hbody hns happ hpod]

/-- `genKey` is injective on well-formed parts -/
theorem genKey_injective {p q : Parts} (hp : WF p) (hq : WF q) (h : p.key = q.key) : p = q := by
  have e : p.obj = q.obj := by rw [← parseKey_genKey p hp, ← parseKey_genKey q hq, h]
  obtain ⟨a1, a2, a3, a4, a5⟩ := p
  obtain ⟨b1, b2, b3, b4, b5⟩ := q
  simp only [Parts.obj, newKeyObj, KeyObj.mk.injEq] at e
  simp [e]

/-! ### app types -/

theorem assoc_lower_table_none_of (k : Str) :
    assoc appTypePrefixLower k = none ∨
      (assoc appTypePrefixLower k = some stsPrefix ∨ assoc appTypePrefixLower k = some dpPrefix) := by
  simp only [appTypePrefixLower, assoc]
  repeat' split
  all_goals simp [stsPrefix, dpPrefix]

/-- every value of `GetAppTypePrefix` is `body_` with a separator-free body when the kind is separator-free -/
theorem getAppTypePrefix_wf {kind : Str} (h : noSep kind) : WFType (getAppTypePrefix kind) := by
  unfold getAppTypePrefix getAppTypePrefixT
  simp only [appTypePrefixExact, assoc]
  split
  · rename_i r hr
    split at hr
    · cases hr; exact ⟨['N', 'U', 'L', 'L'], by decide, by decide⟩
    · cases hr
  · split
    · rename_i r hr
      rcases assoc_lower_table_none_of (lower kind) with h0 | h0 | h0
      · rw [h0] at hr; cases hr
      · rw [h0] at hr; cases hr; exact ⟨['s', 't', 's'], by decide, by decide⟩
      · rw [h0] at hr; cases hr; exact ⟨['d', 'p'], by decide, by decide⟩
    · exact ⟨lower kind, lower_noSep h, by rw [typeSuffix_is_sep, suffix_is_sep]⟩

theorem getAppTypePrefix_ne_nil (kind : Str) : getAppTypePrefix kind ≠ [] := by
  unfold getAppTypePrefix getAppTypePrefixT
  simp only [appTypePrefixExact, assoc]
  split
  · rename_i r hr
    split at hr
    · cases hr; decide
    · cases hr
  · split
    · rename_i r hr
      rcases assoc_lower_table_none_of (lower kind) with h0 | h0 | h0
      · rw [h0] at hr; cases hr
      · rw [h0] at hr; cases hr; decide
      · rw [h0] at hr; cases hr; decide
    · simp [appTypePrefixSuffix]

theorem getAppType_default {b : Str} (h : assoc appTypeTable (b ++ [sep]) = none) :
    getAppType (b ++ [sep]) = b := by
  unfold getAppType
  rw [h]
  simp [appTypeDrop]

theorem lower_ne_NULL (s : Str) : lower s ≠ noRefAppName := by
  unfold noRefAppName
  exact lower_ne_of_upper_head (by decide)

/-- the prefix tables invert the type tables on every prefix `GetAppTypePrefix` can return -/
theorem getAppTypePrefix_getAppType (kind : Str) :
    getAppTypePrefix (getAppType (getAppTypePrefix kind)) = getAppTypePrefix kind := by
  by_cases h0 : kind = noRefAppName
  · subst h0; decide
  · have hex : assoc appTypePrefixExact kind = none := by
      simp only [appTypePrefixExact, assoc]
      have : ¬ (['N', 'U', 'L', 'L'] = kind) := fun e => h0 (by rw [← e]; rfl)
      simp [this]
    have hpre : getAppTypePrefix kind =
        match assoc appTypePrefixLower (lower kind) with
        | some r => r
        | none => lower kind ++ [sep] := by
      unfold getAppTypePrefix getAppTypePrefixT
      rw [hex, typeSuffix_is_sep]
      rfl
    rcases assoc_lower_table_none_of (lower kind) with h1 | h1 | h1
    · -- default branch: the prefix is lower(kind)_
      have hpre' : getAppTypePrefix kind = lower kind ++ [sep] := by rw [hpre, h1]
      rw [hpre']
      cases h2 : assoc appTypeTable (lower kind ++ [sep]) with
      | none =>
        rw [getAppType_default h2]
        have hex2 : assoc appTypePrefixExact (lower kind) = none := by
          simp only [appTypePrefixExact, assoc]
          have : ¬ (['N', 'U', 'L', 'L'] = lower kind) := fun e => lower_ne_NULL kind (by rw [← e]; rfl)
          simp [this]
        unfold getAppTypePrefix getAppTypePrefixT
        rw [hex2, lower_idem, h1, typeSuffix_is_sep]
      | some r =>
        -- lower(kind)_ happens to be dp_ or sts_: the listed type maps back to the same prefix
        have hr : getAppType (lower kind ++ [sep]) = r := by unfold getAppType; rw [h2]
        rw [hr]
        simp only [appTypeTable, assoc] at h2
        split at h2
        · rename_i e; cases h2; rw [← e]; decide
        · split at h2
          · rename_i e; cases h2; rw [← e]; decide
          · cases h2
    · have : getAppTypePrefix kind = stsPrefix := by rw [hpre, h1]
      rw [this]; decide
    · have : getAppTypePrefix kind = dpPrefix := by rw [hpre, h1]
      rw [this]; decide

/-- the listed app type of a pod with a non-empty owner kind is never empty -/
theorem getAppType_getAppTypePrefix_ne_nil {kind : Str} (hk : kind ≠ []) :
    getAppType (getAppTypePrefix kind) ≠ [] := by
  intro h
  have e := getAppTypePrefix_getAppType kind
  rw [h] at e
  -- GetAppTypePrefix "" = "_"
  have e0 : getAppTypePrefix [] = [sep] := by decide
  rw [e0] at e
  -- so the prefix of `kind` would be "_", i.e. lower kind = []
  by_cases h0 : kind = noRefAppName
  · subst h0; revert e; decide
  · have hex : assoc appTypePrefixExact kind = none := by
      simp only [appTypePrefixExact, assoc]
      have : ¬ (['N', 'U', 'L', 'L'] = kind) := fun e => h0 (by rw [← e]; rfl)
      simp [this]
    have hpre : getAppTypePrefix kind =
        match assoc appTypePrefixLower (lower kind) with
        | some r => r
        | none => lower kind ++ [sep] := by
      unfold getAppTypePrefix getAppTypePrefixT
      rw [hex, typeSuffix_is_sep]
      rfl
    rcases assoc_lower_table_none_of (lower kind) with h1 | h1 | h1
    · rw [hpre, h1] at e
      have : lower kind = [] := by
        have := congrArg List.length e
        simpa using this
      exact hk (lower_eq_nil.mp this)
    · rw [hpre, h1] at e; simp [stsPrefix, sep] at e
    · rw [hpre, h1] at e; simp [dpPrefix, sep] at e

/-! ### pod keys: the last three fields -/

/-- every key with an app is `<something>_<ns>_<app>_<pod>` -/
theorem genKey_suffix {tp ns app pod pool : Str} (ha : app ≠ []) (ht : ∃ b, tp = b ++ [sep]) :
    ∃ pre, genKey tp ns app pod pool = pre ++ sep :: (ns ++ sep :: (app ++ sep :: pod)) := by
  obtain ⟨b, rfl⟩ := ht
  by_cases hp : pool = []
  · subst hp
    exact ⟨b, by simp [genKey, ha, genKeyFull_eq]⟩
  · exact ⟨genKeyPoolPrefix pool ++ b, by simp [genKey, ha, hp, genKeyFull_eq]⟩

/-- reading a key from the right: pod, app and namespace are determined whatever precedes them -/
theorem suffix_inj {pre pre' ns ns' app app' pod pod' : Str}
    (hn : noSep ns) (hn' : noSep ns') (ha : noSep app) (ha' : noSep app') (hp : noSep pod) (hp' : noSep pod')
    (h : pre ++ sep :: (ns ++ sep :: (app ++ sep :: pod)) = pre' ++ sep :: (ns' ++ sep :: (app' ++ sep :: pod'))) :
    ns = ns' ∧ pod = pod' := by
  have hr := congrArg List.reverse h
  simp only [List.reverse_append, List.reverse_cons, List.append_assoc,
    List.cons_append, List.nil_append] at hr
  have rn {s : Str} (hs : noSep s) : sep ∉ s.reverse := by simpa [noSep] using hs
  have h1 := append_sep_inj (rn hp) (rn hp') hr
  have h2 := append_sep_inj (rn ha) (rn ha') h1.2
  have h3 := append_sep_inj (rn hn) (rn hn') h2.2
  exact ⟨List.reverse_inj.mp h3.1, List.reverse_inj.mp h1.1⟩

end Galaxy.Keys
