/-
  M4-core proofs, part 16: crash plans (C05, second sentence, at plugin level).

  `crashAt F k j s m`: the process runs move `m` in state `s`, dies after `k` apiserver calls and `j` provider requests of
  that move (no later call happens, memory updates after the last call are irrelevant), and is started again: memory,
  informer caches, the event queue (pending delete / finish events are LOST) and a resync pass in progress are gone;
  the new process rebuilds memory from the store (`ConfigurePool`), its informers are synced.
  `crash_restart_resync_safe`: for every reachable state, every move within the property's scope, EVERY crash point
  (k, j) and every resync order: after restart + one resync pass the full invariant holds again - tables coherent
  (one owner per address, store = memory in both directions), every live bound pod owns the addresses of its binding
  annotation.  The documented-policy clause is in Lemmas/PluginCrashC03.lean (it imports c03c02's lemmas).
-/
import Galaxy.Lemmas.PluginMain

namespace Galaxy.Plugin
open Galaxy

/-- The start order of the galaxy-ipam daemon (regenerated from pkg/ipam/server/server.go) - hypotheses of the model's
    faithfulness that no move covers:
    * `plugin.Init` - the first `ConfigurePool`, the allocation cache rebuilt from the store - runs first thing in
      `Server.Run`, and `Run` is reached only without an election or from `OnStartedLeading`; nothing rebuilds the cache
      earlier.  This is what makes the model's `init` / `restart` / `crashAt` faithful: a process that takes over serves
      with memory rebuilt from the store AT TAKE-OVER TIME, never with a cache built while it was a standby;
    * `NewFloatingIPPlugin` (hence `NewCrdIPAM`'s `AddEventHandler` on the FloatingIP informer) precedes
      `StartInformers`: the informer exists when the factories start, so the administrator's reservation events reach
      memory - the model's `adminReserve` / `adminUnreserve` moves deliver them;
    * the API's release function is the plugin's `Release`, the pool API's lock function the plugin's `LockDpPool` (the
      moves `apiRelease` and the pool operations are the plugin's own, under its locks). -/
theorem fact_server_start_order :
    Generated.Plugin.initRunsAfterLeadershipAcquired = true ∧ Generated.Plugin.informersStartAfterPluginConstructed = true ∧
      Generated.Plugin.releaseFuncIsPluginRelease = true ∧ Generated.Plugin.lockPoolFuncIsPluginLockDpPool = true := by decide

theorem inv_withCrash (s : State) (k j : Nat) (h : Inv s) : Inv (withCrash s k j) :=
  h.of_fields rfl rfl rfl rfl rfl rfl rfl rfl

/-- every move, executed under any crash plan, leaves the persistent part of the invariant intact -/
theorem pinv_stepCrash (s : State) (m : Move) (k j : Nat) (h : Inv s) (ha : assumed s m = true) :
    PInv (stepCrash Facts.good k j s m).1 := by
  have hc := inv_withCrash s k j h
  cases m with
  | filter ns name nodes ch fault => exact (inv_filter_core _ ns name nodes ch hc).toPInv
  | preempt ns name nodes ch fault => exact (inv_preempt_core _ ns name nodes ch hc).toPInv
  | bind ns name uid node ch f pf => exact (bind_spec _ ns name uid node ch hc (assumed_bind ha)).1
  | deliver i f pf => exact (deliver_spec _ i hc).1.toPInv
  | resync order f pf => exact (resync_spec _ order hc).1.toPInv
  | resyncRec ip f pf =>
    simp only [stepCrash]
    split
    · exact h.toPInv
    · rename_i r0 _
      split
      · exact h.toPInv
      · rename_i hin
        have hin' : inChecklist r0 = true := by simpa using hin
        have hi : Inv { resyncOne Facts.good (withCrash s k j) ip r0 with resyncSnap := Tbl.erase s.resyncSnap ip } :=
          (resyncOne_spec _ ip r0 hc (inChecklist_not_admin r0 hin')).1.of_fields rfl rfl rfl rfl rfl rfl rfl rfl
        exact hi.toPInv
  | syncPodIPs f => exact (syncPodIPs_spec _ hc).1.toPInv
  | apiRelease ip key f pf => exact (apiRelease_spec _ ip key hc (assumed_apiRelease ha)).1.toPInv
  | adminReserve ip text policy => exact (inv_step s _ h ha).toPInv
  | adminUnreserve ip => exact (inv_step s _ h ha).toPInv
  | reload pools fault => exact (reload_spec _ pools hc (assumed_reload (s := s) ha)).1.toPInv
  | createPod ns name kind app pool policy ranges wants => exact (inv_step s _ h ha).toPInv
  | deletePod ns name => exact (inv_step s _ h ha).toPInv
  | finishPod ns name => exact (inv_step s _ h ha).toPInv
  | runPod ns name => exact (inv_step s _ h ha).toPInv
  | markTerminating ns name fault => exact (inv_step s _ h ha).toPInv
  | scale kind ns app n => exact (inv_step s _ h ha).toPInv
  | deleteApp kind ns app => exact (inv_step s _ h ha).toPInv
  | setPool name size => exact (inv_step s _ h ha).toPInv
  | listerSync pods apps => exact (inv_step s _ h ha).toPInv
  | fipSync => exact (inv_step s _ h ha).toPInv
  | dropEvent i => exact (inv_step s _ h ha).toPInv
  | resyncSnap => exact (inv_step s _ h ha).toPInv
  | restart => exact (inv_step s _ h ha).toPInv

/-- the configuration the restarted process loads still contains the addresses of the live bound pods -/
theorem pinv_confAfter (s : State) (m : Move) (k j : Nat) (h : Inv s) (ha : assumed s m = true) :
    PInv { (stepCrash Facts.good k j s m).1 with pools := confAfter (stepCrash Facts.good k j s m).1 m } := by
  have hp := pinv_stepCrash s m k j h ha
  cases m with
  | reload pools fault =>
    have hkeep := assumed_reload (s := s) ha
    have hpods : (stepCrash Facts.good k j s (.reload pools fault)).1.pods = s.pods :=
      (reload_spec _ pools (inv_withCrash s k j h) hkeep).2.1
    refine ⟨hp.podsWF, hp.uidUniq, hp.uidPos, hp.podsNodup, fun q hq hd hm => ?_, hp.adminStore⟩
    obtain ⟨r, g1, g2, g3, _⟩ := hp.storeOwn q hq hd hm
    refine ⟨r, g1, g2, g3, ?_⟩
    show configured (sortPools pools) hd.ip = true
    rw [configured_sortPools]
    have hq' : LiveBound s.pods q := by
      have : LiveBound (stepCrash Facts.good k j s (.reload pools fault)).1.pods q := hq
      rw [hpods] at this; exact this
    exact hkeep q hq' hd hm
  | filter ns name nodes ch fault => exact hp
  | preempt ns name nodes ch fault => exact hp
  | bind ns name uid node ch f pf => exact hp
  | deliver i f pf => exact hp
  | resync order f pf => exact hp
  | resyncRec ip f pf => exact hp
  | syncPodIPs f => exact hp
  | apiRelease ip key f pf => exact hp
  | adminReserve ip text policy => exact hp
  | adminUnreserve ip => exact hp
  | createPod ns name kind app pool policy ranges wants => exact hp
  | deletePod ns name => exact hp
  | finishPod ns name => exact hp
  | runPod ns name => exact hp
  | markTerminating ns name fault => exact hp
  | scale kind ns app n => exact hp
  | deleteApp kind ns app => exact hp
  | setPool name size => exact hp
  | listerSync pods apps => exact hp
  | fipSync => exact hp
  | dropEvent i => exact hp
  | resyncSnap => exact hp
  | restart => exact hp

/-- a restart rebuilds the full invariant from the persistent part -/
theorem inv_restart_of_pinv (s : State) (hp : PInv s) : Inv (restart (withFaults s 0 0)).1 := by
  unfold restart
  dsimp only
  have hok : (configurePool (restartBase (withFaults s 0 0)) (withFaults s 0 0).pools).2 = true := by
    unfold configurePool
    dsimp only
    have : (restartBase (withFaults s 0 0)).api.2 = false := by simp [State.api, restartBase, withFaults]
    simp [this]
  have rc := configurePool_ok' _ _ hok
  have hpods : (restartBase (withFaults s 0 0)).pods = s.pods := rfl
  refine ⟨rc.coherent, ?_, ?_, ?_, ?_, ?_, ?_, ?_, ?_, ?_⟩
  · rw [rc.pods, hpods]
    refine ⟨fun q hq hd hm => ?_, fun ip r hr => ?_⟩
    · obtain ⟨r, g1, g2, g3, g4⟩ := hp.storeOwn q hq hd hm
      refine ⟨r, ?_, g2, g3⟩
      rw [rc.alloc]
      have hc : configured (withFaults s 0 0).pools hd.ip = true := g4
      have hl : Tbl.get (listed (restartBase (withFaults s 0 0))) hd.ip = some r := by
        show Tbl.get (s.store ++ s.orphans) hd.ip = some r
        rw [Tbl.get_append, g1]; rfl
      simp [hc, hl]
    · rw [configurePool_admin _ _ hok] at hr
      by_cases hc : configured (withFaults s 0 0).pools ip = true
      · rw [if_pos hc] at hr
        have hr' : Tbl.get s.admin ip = some r := hr
        obtain ⟨g1, g2⟩ := hp.adminStore ip r hr'
        refine ⟨?_, g2⟩
        rw [rc.alloc, if_pos hc]
        show Tbl.get (s.store ++ s.orphans) ip = some r
        rw [Tbl.get_append, g1]; rfl
      · rw [if_neg hc] at hr; cases hr
  · rw [rc.pods, rc.nextUid]; exact hp.podsWF
  · rw [rc.pods]; exact hp.uidUniq
  · rw [rc.pods, rc.vPods, rc.nextUid]
    intro id l hl
    have hl' : Tbl.get s.pods id = some l := hl
    obtain ⟨a, b, c, d⟩ := hp.podsWF id l hl'
    refine ⟨a, b, c, d, fun id' q hq hu => ?_⟩
    have hq' : Tbl.get s.pods id' = some q := hq
    have := hp.uidUniq id' id q l hq' hl' hu
    subst this
    rw [hl'] at hq'; cases hq'; exact ⟨rfl, rfl⟩
  · rw [rc.events]; intro e he; cases he
  · rw [rc.pods, rc.vPods]
    intro q hq l hl
    have h1 : Tbl.get s.pods q.id = some l := hl
    have h2 : Tbl.get s.pods q.id = some q := hq.1
    rw [h2] at h1; cases h1; rfl
  · rw [rc.nextUid]; exact hp.uidPos
  · rw [rc.pods]; exact hp.podsNodup
  · rw [rc.vPods]; exact hp.podsNodup

/-- after a crash at ANY point of ANY move and the restart, the full invariant holds -/
theorem inv_crashAt (s : State) (m : Move) (k j : Nat) (h : Inv s) (ha : assumed s m = true) :
    Inv (crashAt Facts.good k j s m) := by
  unfold crashAt
  exact inv_restart_of_pinv _ (pinv_confAfter s m k j h ha)

/-- the restarted process' informers are in sync and nothing is queued -/
theorem crashAt_synced (F : Facts) (s : State) (m : Move) (k j : Nat) :
    (crashAt F k j s m).vPods = (crashAt F k j s m).pods ∧ (crashAt F k j s m).events = [] ∧
      (crashAt F k j s m).pods = (stepCrash F k j s m).1.pods := by
  unfold crashAt restart
  dsimp only
  unfold configurePool
  dsimp only
  split
  · exact ⟨rfl, rfl, rfl⟩
  · have d := dropAll_fields (confDrop (restartBase (withFaults { (stepCrash F k j s m).1 with
        pools := confAfter (stepCrash F k j s m).1 m } 0 0)).api.1 (sortPools (withFaults { (stepCrash F k j s m).1 with
        pools := confAfter (stepCrash F k j s m).1 m } 0 0).pools))
      (confBase (restartBase (withFaults { (stepCrash F k j s m).1 with
        pools := confAfter (stepCrash F k j s m).1 m } 0 0)).api.1 (sortPools (withFaults { (stepCrash F k j s m).1 with
        pools := confAfter (stepCrash F k j s m).1 m } 0 0).pools))
    refine ⟨?_, ?_, ?_⟩
    · show (dropAll _ _).vPods = (dropAll _ _).pods
      rw [d.2.2.2.2.1, d.2.2.2.1]; rfl
    · show (dropAll _ _).events = []
      rw [d.2.2.2.2.2.1]; rfl
    · show (dropAll _ _).pods = _
      rw [d.2.2.2.1]; rfl

/-- C05, second sentence, at plugin level: "If the process dies between any two API calls, a restart followed by resync
    leaves no leaked IP, no doubly owned IP, and every existing pod keeps the IP it was bound with."
    For every history `ms` within the property's scope, every further move `m`, EVERY crash point (after `k` apiserver
    calls and `j` provider requests of `m`) and every admissible order of the resync pass of the restarted process:
    (i) the tables are coherent - one record per address in memory and in the store, allocated and unallocated
        disjoint, only configured addresses;
    (ii) every live bound pod owns each address of its binding annotation (memory and store, its key, its uid) - and
        the pods are exactly those the API server had when the process died;
    (iv) the store holds an object for an address iff memory has it allocated, with the same record. -/
theorem crash_restart_resync_safe (c : Conf) (ms : List Move) (hok : allAssumed facts (init c) ms = true)
    (m : Move) (hm : assumed (run facts (init c) ms) m = true) (k j : Nat) (order : List IP) :
    Coherent (step facts (crashAt facts k j (run facts (init c) ms) m) (.resync order 0 0)).1 ∧
    (∀ q, LiveBound (step facts (crashAt facts k j (run facts (init c) ms) m) (.resync order 0 0)).1.pods q →
      ∀ hd, hd ∈ q.handed → OwnedBy (step facts (crashAt facts k j (run facts (init c) ms) m) (.resync order 0 0)).1 q hd.ip) ∧
    (step facts (crashAt facts k j (run facts (init c) ms) m) (.resync order 0 0)).1.pods =
      (stepCrash facts k j (run facts (init c) ms) m).1.pods ∧
    (∀ ip, Tbl.get (step facts (crashAt facts k j (run facts (init c) ms) m) (.resync order 0 0)).1.store ip =
      Tbl.get (step facts (crashAt facts k j (run facts (init c) ms) m) (.resync order 0 0)).1.alloc ip) := by
  have hf : facts = Facts.good := by decide
  rw [hf] at hok hm ⊢
  have h0 := inv_run ms _ (inv_init c) hok
  have h1 := inv_crashAt _ m k j h0 hm
  have h2 := inv_step _ (.resync order 0 0) h1 rfl
  refine ⟨h2.coh, fun q hq hd hmem => inv_owned h2 q hq hd hmem, ?_, h2.coh.agree⟩
  have r := resync_spec (withFaults (crashAt Facts.good k j (run Facts.good (init c) ms) m) 0 0) order
    (inv_withFaults _ 0 0 h1)
  have : (step Facts.good (crashAt Facts.good k j (run Facts.good (init c) ms) m) (.resync order 0 0)).1.pods =
      (crashAt Facts.good k j (run Facts.good (init c) ms) m).pods := r.2.1.1
  rw [this]
  exact (crashAt_synced Facts.good _ m k j).2.2

end Galaxy.Plugin
