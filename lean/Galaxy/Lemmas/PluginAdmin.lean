/-
  M4-core proofs, part 14b: an administrator's reservation (a labelled FloatingIP object created by hand, and its watch
  event) and its withdrawal keep the invariant.
-/
import Galaxy.Lemmas.PluginReload

namespace Galaxy.Plugin
open Galaxy

theorem adminKey_isAdmin (text : String) (h : text ≠ "") : (adminKey text).isAdmin = true := by
  simp [adminKey, Key.isAdmin, h]

/-- a state that differs in the three IPAM tables and the reservations only -/
theorem Inv.of_tables {s s' : State} (h : Inv s) (hc : Coherent s') (hs : Safe s.pods s') (h5 : s'.pods = s.pods)
    (h6 : s'.vPods = s.vPods) (h7 : s'.events = s.events) (h8 : s'.nextUid = s.nextUid) : Inv s' := by
  refine ⟨hc, by rw [h5]; exact hs, ?_, ?_, ?_, ?_, ?_, ?_, by rw [h5]; exact h.podsNodup, by rw [h6]; exact h.vPodsNodup⟩
  · rw [h5, h8]; exact h.podsWF
  · rw [h5]; exact h.uidUniq
  · rw [h5, h6, h8]; exact h.lister
  · rw [h5, h7, h8]; exact h.events
  · rw [h5, h6]; exact h.listerLive
  · rw [h8]; exact h.uidPos

theorem inv_adminReserve (s : State) (ip : IP) (text : String) (policy : Nat) (h : Inv s) :
    Inv (step Facts.good s (.adminReserve ip text policy)).1 := by
  simp only [step]
  split
  · exact h
  · rename_i htext
    split
    · exact h
    · rename_i hfree
      have hin : ip ∈ s.free := by simpa using hfree
      have hnone : Tbl.get s.alloc ip = none := h.coh.disjoint ip hin
      refine h.of_tables ?_ ?_ rfl rfl rfl rfl
      · exact coherent_alloc ip _ h.coh hin rfl rfl rfl rfl
      refine ⟨fun q hq hd hm => ?_, fun j r hr => ?_⟩
      · obtain ⟨r, g1, g2, g3⟩ := h.safe.own q hq hd hm
        have hne : ip ≠ hd.ip := by
          intro e; rw [← e, hnone] at g1; cases g1
        exact ⟨r, by show Tbl.get (Tbl.set s.alloc ip _) hd.ip = some r; rw [Tbl.get_set_ne _ _ hne]; exact g1, g2, g3⟩
      · have hr' : Tbl.get (Tbl.set s.admin ip _) j = some r := hr
        show Tbl.get (Tbl.set s.alloc ip _) j = some r ∧ _
        by_cases e : ip = j
        · subst e
          rw [Tbl.get_set_self] at hr' ⊢
          cases hr'
          exact ⟨rfl, adminKey_isAdmin text htext⟩
        · rw [Tbl.get_set_ne _ _ e] at hr' ⊢
          exact h.safe.admin j r hr'

theorem inv_adminUnreserve (s : State) (ip : IP) (h : Inv s) : Inv (step Facts.good s (.adminUnreserve ip)).1 := by
  simp only [step]
  split
  · exact h
  · rename_i r0 ha
    split
    · exact h
    · rename_i hres
      have hk : r0.key.isAdmin = true := by
        simp only [Bool.not_eq_true, Bool.not_eq_eq_eq_not, Bool.not_true, Bool.not_eq_false, Bool.and_eq_true] at hres
        exact hres.2
      refine h.of_tables ?_ ?_ rfl rfl rfl rfl
      · exact coherent_erase ip r0 h.coh ha rfl rfl rfl rfl
      refine ⟨fun q hq hd hm => ?_, fun j r hr => ?_⟩
      · obtain ⟨r, g1, g2, g3⟩ := h.safe.own q hq hd hm
        have hne : ip ≠ hd.ip := by
          intro e
          rw [← e, ha] at g1; cases g1
          rw [g2, keyOf_not_admin] at hk; cases hk
        exact ⟨r, by show Tbl.get (Tbl.erase s.alloc ip) hd.ip = some r; rw [Tbl.get_erase_ne _ hne]; exact g1, g2, g3⟩
      · have hr' : Tbl.get (Tbl.erase s.admin ip) j = some r := hr
        show Tbl.get (Tbl.erase s.alloc ip) j = some r ∧ _
        by_cases e : ip = j
        · subst e; rw [Tbl.get_erase_self] at hr'; cases hr'
        · rw [Tbl.get_erase_ne _ e] at hr' ⊢
          exact h.safe.admin j r hr'

end Galaxy.Plugin
