/-
  The per-pod protocol of pkg/galaxy/server.go (M6 `addPod`, `delPod`, `gcPod`): whatever iptables call of
  SetupPortMapping / CleanPortMapping fails, the cleanup driven by the port file removes everything of the pod.
-/
import Galaxy.Lemmas.NetfilterPorts

namespace Galaxy.Netfilter

open Galaxy

/-! ## list facts about the KUBE-HOSTPORTS loops -/

theorem eraseAll_sub : ∀ (js rs l : List Rule), (∀ j ∈ js, j ∉ rs) → l.Nodup → (∀ x ∈ l, x ∈ js) →
    eraseAll (rs ++ l) js = rs
  | [], rs, l, _, _, hsub => by
    have : l = [] := List.eq_nil_iff_forall_not_mem.mpr (fun x hx => by simpa using hsub x hx)
    subst this; simp [eraseAll]
  | j :: js, rs, l, h, hl, hsub => by
    have hj : j ∉ rs := h j (List.mem_cons_self ..)
    simp only [eraseAll]
    rw [List.erase_append_right _ hj]
    apply eraseAll_sub js rs (l.erase j) (fun j' hj' => h j' (List.mem_cons_of_mem _ hj')) (hl.erase _)
    intro x hx
    have hx' := (List.Nodup.mem_erase_iff hl).mp hx
    rcases List.mem_cons.mp (hsub x hx'.2) with e | e
    · exact absurd e hx'.1
    · exact e

theorem eraseAll_partial : ∀ (ds rs l0 : List Rule), (∀ d ∈ ds, d ∉ rs) → l0.Nodup →
    ∃ l, eraseAll (rs ++ l0) ds = rs ++ l ∧ l.Nodup ∧ ∀ x ∈ l, x ∈ l0
  | [], rs, l0, _, hl => ⟨l0, by simp [eraseAll], hl, fun _ h => h⟩
  | d :: ds, rs, l0, h, hl => by
    have hd : d ∉ rs := h d (List.mem_cons_self ..)
    obtain ⟨l, h1, h2, h3⟩ := eraseAll_partial ds rs (l0.erase d) (fun d' hd' => h d' (List.mem_cons_of_mem _ hd'))
      (hl.erase _)
    refine ⟨l, ?_, h2, fun x hx => List.mem_of_mem_erase (h3 x hx)⟩
    simp only [eraseAll]
    rw [List.erase_append_right _ hd]; exact h1

theorem checkRefs_noTarget {setOk : String → Bool} {T : Table} {r : Rule} {t : String}
    (h1 : chainRef r = some t) (h2 : Tbl.has T t = false) : checkRefs setOk T r = some .noTarget := by
  unfold checkRefs
  rw [h1]; simp [h2]

/-! ## cleaning a table in which the pod is (partly) set up -/

/-- `T2` = the prior table `T` plus the pod's chains and some of its KUBE-HOSTPORTS rules (`l`): CleanPortMapping
    succeeds and leaves `T` (with galaxy's KUBE-MARK-MASQ) -/
theorem clean_spec_partial (hash : String → String) (T T2 : Table) (ps : List Port) (rs l : List Rule)
    (hk : Tbl.get T hostportsChain = some rs)
    (hnd : (ps.map (chainName hash)).Nodup)
    (hunref : ∀ p ∈ ps, referenced T (chainName hash p) = false)
    (hl : l.Nodup) (hlsub : ∀ x ∈ l, x ∈ ps.map (jumpRule hash))
    (g2 : ∀ c, Tbl.get T2 c =
      if c = markMasqChain then some [markRule]
      else if c ∈ ps.map (chainName hash) then some (hpRules hash ps c)
      else if c = hostportsChain then some (rs ++ l) else Tbl.get T c) :
    ∃ T4, clean hash T2 ps = (T4, none) ∧
      ∀ c, Tbl.get T4 c =
        if c ∈ ps.map (chainName hash) then none
        else if c = markMasqChain then some [markRule] else Tbl.get T c := by
  have hkn : hostportsChain ∉ ps.map (chainName hash) := by
    intro h
    have := names_prefix h
    rw [hostports_no_prefix] at this; cases this
  have hfresh := jump_not_in_prior hk hunref
  have hk2 : Tbl.get T2 hostportsChain = some (rs ++ l) := by
    rw [g2]; simp [hkn, markMasq_ne_hostports.symm]
  have hn2 : ∀ p ∈ ps, Tbl.has T2 (chainName hash p) = true := by
    intro p hp
    simp [Tbl.has, g2, chainName_ne_markMasq, List.mem_map_of_mem hp]
  obtain ⟨T3, h3, g3k, g3⟩ := deleteJumps_spec hash ps T2 _ hk2 hn2
  rw [eraseAll_sub _ _ _ hfresh hl hlsub] at g3k
  obtain ⟨T4, h4, g4⟩ := cleanBatch_spec (fun _ => true) hash T3 ps hnd (by
    intro k rs' r c hkr hr hc hcn
    by_cases hkn' : k ∈ ps.map (chainName hash)
    · exact hkn'
    · exfalso
      obtain ⟨p, hp, rfl⟩ := List.mem_map.mp hcn
      by_cases hkh : k = hostportsChain
      · subst hkh
        rw [g3k] at hkr; cases hkr
        exact referenced_false_iff.mp (hunref p hp) _ _ _ hk hr hc
      · rw [g3 k hkh, g2 k] at hkr
        by_cases hkm : k = markMasqChain
        · subst hkm
          simp at hkr; subst hkr
          simp only [List.mem_cons, List.mem_nil_iff, or_false] at hr
          subst hr; rw [chainRef_mark] at hc; cases hc
        · simp only [hkm, hkn', hkh, if_false] at hkr
          exact referenced_false_iff.mp (hunref p hp) _ _ _ hkr hr hc)
  refine ⟨T4, ?_, ?_⟩
  · simp [clean, Generated.Netfilter.cleanDeletesJumpRulesBeforeRestore, h3, Generated.Netfilter.cleanRestores,
      commit, h4]
  · intro c
    rw [g4 c]
    by_cases hcn : c ∈ ps.map (chainName hash)
    · simp [hcn]
    · simp only [hcn, if_false]
      by_cases hch : c = hostportsChain
      · subst hch
        rw [g3k]; simp [markMasq_ne_hostports.symm, hk]
      · rw [g3 c hch, g2 c]; simp [hcn, hch]

/-- the table after the restore of SetupPortMapping and the EnsureRule calls of the first `i` ports -/
theorem setup_prefix_spec (hash : String → String) (T : Table) (ps : List Port) (rs : List Rule) (i : Nat)
    (hk : Tbl.get T hostportsChain = some rs)
    (hnd : (ps.map (chainName hash)).Nodup)
    (hunref : ∀ p ∈ ps, referenced T (chainName hash p) = false) :
    ∃ T1 T2, commit (fun _ => true) T (setupBatch hash ps) = (T1, none) ∧
      ensureJumps hash T1 (ps.take i) = (T2, none) ∧
      ∀ c, Tbl.get T2 c =
        if c = markMasqChain then some [markRule]
        else if c ∈ ps.map (chainName hash) then some (hpRules hash ps c)
        else if c = hostportsChain then some (rs ++ (ps.map (jumpRule hash)).take i) else Tbl.get T c := by
  obtain ⟨T1, h1, g1⟩ := setupBatch_spec (fun _ => true) hash T ps
  have hkn : hostportsChain ∉ ps.map (chainName hash) := by
    intro h
    have := names_prefix h
    rw [hostports_no_prefix] at this; cases this
  have hk1 : Tbl.get T1 hostportsChain = some rs := by
    rw [g1]; simp [hkn, hk, markMasq_ne_hostports.symm]
  have hn1 : ∀ p ∈ ps.take i, Tbl.has T1 (chainName hash p) = true := by
    intro p hp
    simp [Tbl.has, g1, chainName_ne_markMasq, List.mem_map_of_mem (List.mem_of_mem_take hp)]
  obtain ⟨T2, h2, g2k, g2⟩ := ensureJumps_spec hash (ps.take i) T1 rs hk1 hn1
  have hfresh := jump_not_in_prior hk hunref
  have hjnd := jumpRules_nodup hnd
  have hens : ensureAll rs ((ps.take i).map (jumpRule hash)) = rs ++ (ps.map (jumpRule hash)).take i := by
    rw [List.map_take]
    exact ensureAll_fresh _ _ (fun j hj => hfresh j (List.mem_of_mem_take hj))
      (hjnd.sublist (List.take_sublist _ _))
  refine ⟨T1, T2, by simp [commit, h1], h2, ?_⟩
  intro c
  by_cases hc : c = hostportsChain
  · subst hc
    rw [g2k, hens]
    simp [markMasq_ne_hostports.symm, hkn]
  · rw [g2 c hc, g1 c]; simp [hc]

/-! ## the ADD with a fault at call `k`, then its cleanup -/

theorem failedAdd_spec (hash : String → String) (T : Table) (ps : List Port) (rs : List Rule) (k : Nat)
    (hne : ps ≠ []) (hkl : k ≤ ps.length)
    (hk : Tbl.get T hostportsChain = some rs)
    (hnd : (ps.map (chainName hash)).Nodup)
    (habs : ∀ p ∈ ps, Tbl.get T (chainName hash p) = none)
    (hunref : ∀ p ∈ ps, referenced T (chainName hash p) = false) :
    (addPod hash (some k) ⟨T, none⟩ ps).2 = false ∧
    (addPod hash (some k) ⟨T, none⟩ ps).1.file = (if k = 0 then some ps else none) ∧
    ∀ c, Tbl.get (addPod hash (some k) ⟨T, none⟩ ps).1.T c =
      if c ∈ ps.map (chainName hash) then none
      else if c = markMasqChain then (if k = 0 then Tbl.get T c else some [markRule]) else Tbl.get T c := by
  cases k with
  | zero =>
    -- the restore failed: nothing was created; the cleanup fails at its first `iptables -C`
    obtain ⟨p, rest, rfl⟩ := List.exists_cons_of_ne_nil hne
    have hrefs : checkRefs (fun _ => true) T (jumpRule hash p) = some .noTarget :=
      checkRefs_noTarget (chainRef_jump hash p) (has_false_iff.mpr (habs p (List.mem_cons_self ..)))
    have hdj : deleteJumps hash T (p :: rest) = (T, some .noTarget) := by
      show (match deleteRule (fun _ => true) T hostportsChain (jumpRule hash p) with
        | .error e => (T, some e)
        | .ok T' => deleteJumps hash T' rest) = _
      unfold deleteRule; rw [hrefs]
    have hcl : clean hash T (p :: rest) = (T, some .noTarget) := by
      simp [clean, Generated.Netfilter.cleanDeletesJumpRulesBeforeRestore, hdj]
    have : addPod hash (some 0) ⟨T, none⟩ (p :: rest) = (⟨T, some (p :: rest)⟩, false) := by
      simp [addPod, setupFault, Generated.Netfilter.portFileSavedBeforeSetup,
        Generated.Netfilter.addFailureRunsCleanup, cleanupPort, hcl]
    rw [this]
    refine ⟨rfl, by simp, ?_⟩
    intro c
    by_cases hcn : c ∈ (p :: rest).map (chainName hash)
    · obtain ⟨q, hq, rfl⟩ := List.mem_map.mp hcn
      simp [hcn, habs q hq]
    · rw [if_neg hcn]
      by_cases hcm : c = markMasqChain <;> simp [hcm]
  | succ i =>
    have hi : i < ps.length := hkl
    obtain ⟨T1, T2, h1, h2, g2⟩ := setup_prefix_spec hash T ps rs i hk hnd hunref
    have hjnd := jumpRules_nodup hnd
    obtain ⟨T4, h4, g4⟩ := clean_spec_partial hash T T2 ps rs ((ps.map (jumpRule hash)).take i) hk hnd hunref
      (hjnd.sublist (List.take_sublist _ _)) (fun x hx => List.mem_of_mem_take hx) g2
    have hsf : setupFault hash (i + 1) T ps = (T2, some .fault) := by
      simp [setupFault, h1, Generated.Netfilter.setupEnsuresJumpRulesAfterRestore, hi, h2]
    have : addPod hash (some (i + 1)) ⟨T, none⟩ ps = (⟨T4, none⟩, false) := by
      simp [addPod, hne, hsf, Generated.Netfilter.portFileSavedBeforeSetup,
        Generated.Netfilter.addFailureRunsCleanup, cleanupPort, h4, Generated.Netfilter.cleanupRemovesFileAfterClean]
    rw [this]
    refine ⟨rfl, by simp, ?_⟩
    intro c
    rw [g4 c]; simp

/-! ## ADD, then DEL (possibly failing once at call `j`, then retried) -/

theorem add_spec (hash : String → String) (T : Table) (ps : List Port) (rs : List Rule)
    (hne : ps ≠ []) (hk : Tbl.get T hostportsChain = some rs)
    (hnd : (ps.map (chainName hash)).Nodup)
    (hunref : ∀ p ∈ ps, referenced T (chainName hash p) = false) :
    ∃ T2, addPod hash none ⟨T, none⟩ ps = (⟨T2, some ps⟩, true) ∧
      ∀ c, Tbl.get T2 c =
        if c = markMasqChain then some [markRule]
        else if c ∈ ps.map (chainName hash) then some (hpRules hash ps c)
        else if c = hostportsChain then some (rs ++ ps.map (jumpRule hash)) else Tbl.get T c := by
  obtain ⟨T2, h2, g2⟩ := setup_spec hash T ps rs hk
  have hfresh := jump_not_in_prior hk hunref
  have hjnd := jumpRules_nodup hnd
  refine ⟨T2, by simp [addPod, hne, h2], ?_⟩
  intro c
  rw [g2 c, ensureAll_fresh _ _ hfresh hjnd]

theorem del_spec (hash : String → String) (T T2 : Table) (ps : List Port) (rs l : List Rule)
    (hne : ps ≠ []) (hk : Tbl.get T hostportsChain = some rs)
    (hnd : (ps.map (chainName hash)).Nodup)
    (hunref : ∀ p ∈ ps, referenced T (chainName hash p) = false)
    (hl : l.Nodup) (hlsub : ∀ x ∈ l, x ∈ ps.map (jumpRule hash))
    (g2 : ∀ c, Tbl.get T2 c =
      if c = markMasqChain then some [markRule]
      else if c ∈ ps.map (chainName hash) then some (hpRules hash ps c)
      else if c = hostportsChain then some (rs ++ l) else Tbl.get T c) :
    ∃ T4, delPod hash none ⟨T2, some ps⟩ = (⟨T4, none⟩, true) ∧
      ∀ c, Tbl.get T4 c =
        if c ∈ ps.map (chainName hash) then none
        else if c = markMasqChain then some [markRule] else Tbl.get T c := by
  obtain ⟨T4, h4, g4⟩ := clean_spec_partial hash T T2 ps rs l hk hnd hunref hl hlsub g2
  exact ⟨T4, by simp [delPod, Generated.Netfilter.delRunsCleanup, cleanupPort, hne, h4,
    Generated.Netfilter.cleanupRemovesFileAfterClean], g4⟩

/-- a DEL whose iptables call `j` fails keeps the port file and leaves a table of the shape `del_spec` accepts -/
theorem faultyDel_spec (hash : String → String) (T T2 : Table) (ps : List Port) (rs : List Rule) (j : Nat)
    (hne : ps ≠ []) (hjl : j ≤ ps.length)
    (hk : Tbl.get T hostportsChain = some rs)
    (hnd : (ps.map (chainName hash)).Nodup)
    (hunref : ∀ p ∈ ps, referenced T (chainName hash p) = false)
    (g2 : ∀ c, Tbl.get T2 c =
      if c = markMasqChain then some [markRule]
      else if c ∈ ps.map (chainName hash) then some (hpRules hash ps c)
      else if c = hostportsChain then some (rs ++ ps.map (jumpRule hash)) else Tbl.get T c) :
    ∃ T3 l, delPod hash (some j) ⟨T2, some ps⟩ = (⟨T3, some ps⟩, false) ∧ l.Nodup ∧
      (∀ x ∈ l, x ∈ ps.map (jumpRule hash)) ∧
      ∀ c, Tbl.get T3 c =
        if c = markMasqChain then some [markRule]
        else if c ∈ ps.map (chainName hash) then some (hpRules hash ps c)
        else if c = hostportsChain then some (rs ++ l) else Tbl.get T c := by
  have hkn : hostportsChain ∉ ps.map (chainName hash) := by
    intro h
    have := names_prefix h
    rw [hostports_no_prefix] at this; cases this
  have hfresh := jump_not_in_prior hk hunref
  have hjnd := jumpRules_nodup hnd
  have hk2 : Tbl.get T2 hostportsChain = some (rs ++ ps.map (jumpRule hash)) := by
    rw [g2]; simp [hkn, markMasq_ne_hostports.symm]
  have hn2 : ∀ p ∈ ps.take j, Tbl.has T2 (chainName hash p) = true := by
    intro p hp
    simp [Tbl.has, g2, chainName_ne_markMasq, List.mem_map_of_mem (List.mem_of_mem_take hp)]
  obtain ⟨T3, h3, g3k, g3⟩ := deleteJumps_spec hash (ps.take j) T2 _ hk2 hn2
  obtain ⟨l, hl1, hl2, hl3⟩ := eraseAll_partial ((ps.take j).map (jumpRule hash)) rs (ps.map (jumpRule hash))
    (fun d hd => by
      rw [List.map_take] at hd
      exact hfresh d (List.mem_of_mem_take hd)) hjnd
  rw [hl1] at g3k
  refine ⟨T3, l, ?_, hl2, hl3, ?_⟩
  · simp [delPod, Generated.Netfilter.delRunsCleanup, cleanupPort, hne, cleanFault, hjl, h3]
  · intro c
    by_cases hc : c = hostportsChain
    · subst hc
      simp [g3k, markMasq_ne_hostports.symm, hkn]
    · rw [g3 c hc, g2 c]; simp [hc]

end Galaxy.Netfilter
