/-
  The per-pod protocol of pkg/galaxy/server.go (M6 `addPod`, `delPod`, `gcPod`): whatever iptables call of
  SetupPortMapping / CleanPortMapping fails, the cleanup driven by the port file removes everything of the pod.
-/
import Galaxy.Lemmas.NetfilterPorts

namespace Galaxy.Netfilter

open Galaxy

/-! ## list facts about the KUBE-HOSTPORTS loops -/

theorem eraseAll_partial : ∀ (ds rs l0 : List Rule), (∀ d ∈ ds, d ∉ rs) → l0.Nodup →
    ∃ l, eraseAll (rs ++ l0) ds = rs ++ l ∧ l.Nodup ∧ ∀ x ∈ l, x ∈ l0
  | [], rs, l0, _, hl => ⟨l0, by simp [eraseAll], hl, fun _ h => h⟩
  | d :: ds, rs, l0, h, hl => by
    have hd : d ∉ rs := h d (List.mem_cons_self ..)
    obtain ⟨l, h1, h2, h3⟩ := eraseAll_partial ds rs (l0.erase d) (fun d' hd' => h d' (List.mem_cons_of_mem _ hd'))
      (hl.erase _)
    refine ⟨l, ?_, h2, fun x hx => List.mem_of_mem_erase (h3 x hx)⟩
    simp only [eraseAll]
    rw [List.erase_append_right _ hd]; exact h1

theorem checkRefs_noTarget {setOk : String → Bool} {T : Table} {r : Rule} {t : String}
    (h1 : chainRef r = some t) (h2 : Tbl.has T t = false) : checkRefs setOk T r = some .noTarget := by
  unfold checkRefs
  rw [h1]; simp [h2]

/-! ## cleaning when the pod is not (or no longer) set up -/

theorem ensureChains_noop (hash : String → String) (T : Table) (qs : List Port)
    (h : ∀ p ∈ qs, Tbl.has T (chainName hash p) = true) (c : String) :
    Tbl.get (ensureChains hash T qs) c = Tbl.get T c := by
  rw [ensureChains_get]
  by_cases hc : c ∈ qs.map (chainName hash)
  · obtain ⟨p, hp, rfl⟩ := List.mem_map.mp hc
    obtain ⟨rs, hrs⟩ := has_iff.mp (h p hp)
    simp [hc, hrs]
  · simp [hc]

/-- CleanPortMapping from any table with KUBE-HOSTPORTS in which no rule refers to the pod's chains — whether the
    chains exist (left by a half-done setup) or not (restore failed, or an earlier cleanup removed them): it
    succeeds and the result is the table without those chains. -/
theorem clean_unreferenced (hash : String → String) (T : Table) (ps : List Port) (rs : List Rule)
    (hk : Tbl.get T hostportsChain = some rs)
    (hnd : (ps.map (chainName hash)).Nodup)
    (hunref : ∀ p ∈ ps, referenced T (chainName hash p) = false) :
    ∃ T4, clean hash T ps = (T4, none) ∧
      ∀ c, Tbl.get T4 c = if c ∈ ps.map (chainName hash) then none else Tbl.get T c := by
  have hkn : hostportsChain ∉ ps.map (chainName hash) := by
    intro h
    have := names_prefix h
    rw [hostports_no_prefix] at this; cases this
  obtain ⟨T4, h4, g4⟩ := clean_spec_partial hash T T ps rs [] (Tbl.get T markMasqChain) (fun c => Tbl.get T c)
    hk hnd hunref List.nodup_nil (by simp) (Or.inr rfl) (by
      intro c
      by_cases h1 : c = markMasqChain
      · subst h1; simp
      · by_cases h2 : c ∈ ps.map (chainName hash)
        · simp [h1, h2]
        · by_cases h3 : c = hostportsChain
          · subst h3; simp [h1, h2, hk]
          · simp [h1, h2, h3])
  refine ⟨T4, h4, ?_⟩
  intro c
  rw [g4 c]
  by_cases h2 : c ∈ ps.map (chainName hash)
  · simp [h2]
  · by_cases h1 : c = markMasqChain
    · subst h1; simp [h2]
    · simp [h1, h2]

/-- the table after the restore of SetupPortMapping and the EnsureRule calls of the first `i` ports -/
theorem setup_prefix_spec (hash : String → String) (T : Table) (ps : List Port) (rs : List Rule) (i : Nat)
    (hk : Tbl.get T hostportsChain = some rs)
    (hnd : (ps.map (chainName hash)).Nodup)
    (hunref : ∀ p ∈ ps, referenced T (chainName hash p) = false) :
    ∃ T1 T2, commit (fun _ => true) T (setupBatch hash ps) = (T1, none) ∧
      ensureJumps hash T1 (ps.take i) = (T2, none) ∧
      ∀ c, Tbl.get T2 c =
        if c = markMasqChain then some [markRule]
        else if c ∈ ps.map (chainName hash) then some (hpRules hash ps c)
        else if c = hostportsChain then some (rs ++ (ps.map (jumpRule hash)).take i) else Tbl.get T c := by
  obtain ⟨T1, h1, g1⟩ := setupBatch_spec (fun _ => true) hash T ps
  have hkn : hostportsChain ∉ ps.map (chainName hash) := by
    intro h
    have := names_prefix h
    rw [hostports_no_prefix] at this; cases this
  have hk1 : Tbl.get T1 hostportsChain = some rs := by
    rw [g1]; simp [hkn, hk, markMasq_ne_hostports.symm]
  have hn1 : ∀ p ∈ ps.take i, Tbl.has T1 (chainName hash p) = true := by
    intro p hp
    simp [Tbl.has, g1, chainName_ne_markMasq, List.mem_map_of_mem (List.mem_of_mem_take hp)]
  obtain ⟨T2, h2, g2k, g2⟩ := ensureJumps_spec hash (ps.take i) T1 rs hk1 hn1
  have hfresh := jump_not_in_prior hk hunref
  have hjnd := jumpRules_nodup hnd
  have hens : ensureAll rs ((ps.take i).map (jumpRule hash)) = rs ++ (ps.map (jumpRule hash)).take i := by
    rw [List.map_take]
    exact ensureAll_fresh _ _ (fun j hj => hfresh j (List.mem_of_mem_take hj))
      (hjnd.sublist (List.take_sublist _ _))
  refine ⟨T1, T2, by simp [commit, h1], h2, ?_⟩
  intro c
  by_cases hc : c = hostportsChain
  · subst hc
    rw [g2k, hens]
    simp [markMasq_ne_hostports.symm, hkn]
  · rw [g2 c hc, g1 c]; simp [hc]

/-! ## the ADD with a fault at call `k`, then its cleanup -/

theorem failedAdd_spec (hash : String → String) (T : Table) (ps : List Port) (rs : List Rule) (k : Nat)
    (hne : ps ≠ []) (hkl : k ≤ ps.length)
    (hk : Tbl.get T hostportsChain = some rs)
    (hnd : (ps.map (chainName hash)).Nodup)
    (hunref : ∀ p ∈ ps, referenced T (chainName hash p) = false) :
    (addPod hash (some k) ⟨T, none⟩ ps).2 = false ∧
    (addPod hash (some k) ⟨T, none⟩ ps).1.file = none ∧
    ∀ c, Tbl.get (addPod hash (some k) ⟨T, none⟩ ps).1.T c =
      if c ∈ ps.map (chainName hash) then none
      else if c = markMasqChain then (if k = 0 then Tbl.get T c else some [markRule]) else Tbl.get T c := by
  cases k with
  | zero =>
    -- the restore failed: nothing was created; the cleanup re-creates the chains, finds no rule and deletes them
    obtain ⟨T4, h4, g4⟩ := clean_unreferenced hash T ps rs hk hnd hunref
    rw [clean_eq_cleanWith] at h4
    have : addPod hash (some 0) ⟨T, none⟩ ps = (⟨T4, none⟩, false) := by
      simp [addPod, addPodWith, hne, setupFault, Generated.Netfilter.portFileSavedBeforeSetup,
        Generated.Netfilter.addFailureRunsCleanup, cleanupPortWith, Generated.Netfilter.cleanEnsuresChainsFirst, h4,
        Generated.Netfilter.cleanupRemovesFileAfterClean]
    rw [this]
    refine ⟨rfl, rfl, ?_⟩
    intro c
    rw [g4 c]
    by_cases hcn : c ∈ ps.map (chainName hash)
    · simp [hcn]
    · by_cases hcm : c = markMasqChain <;> simp [hcn, hcm]
  | succ i =>
    have hi : i < ps.length := hkl
    obtain ⟨T1, T2, h1, h2, g2⟩ := setup_prefix_spec hash T ps rs i hk hnd hunref
    have hjnd := jumpRules_nodup hnd
    obtain ⟨T4, h4, g4⟩ := clean_spec_partial hash T T2 ps rs ((ps.map (jumpRule hash)).take i) (some [markRule])
      (fun c => some (hpRules hash ps c)) hk hnd hunref
      (hjnd.sublist (List.take_sublist _ _)) (fun x hx => List.mem_of_mem_take hx) (Or.inl rfl) g2
    rw [clean_eq_cleanWith] at h4
    have hsf : setupFault hash (i + 1) T ps = (T2, some .fault) := by
      simp [setupFault, h1, Generated.Netfilter.setupEnsuresJumpRulesAfterRestore, hi, h2]
    have : addPod hash (some (i + 1)) ⟨T, none⟩ ps = (⟨T4, none⟩, false) := by
      simp [addPod, addPodWith, hne, hsf, Generated.Netfilter.portFileSavedBeforeSetup,
        Generated.Netfilter.addFailureRunsCleanup, cleanupPortWith, Generated.Netfilter.cleanEnsuresChainsFirst, h4,
        Generated.Netfilter.cleanupRemovesFileAfterClean]
    rw [this]
    refine ⟨rfl, rfl, ?_⟩
    intro c
    rw [g4 c]; simp

/-- the code BEFORE the fix (no EnsureChain loop in CleanPortMapping): when the restore itself fails, the cleanup
    fails at its first `iptables -C` (jump target chain missing) and the port file stays -/
theorem failedRestore_prefix_spec (hash : String → String) (T : Table) (ps : List Port)
    (hne : ps ≠ []) (habs : ∀ p ∈ ps, Tbl.get T (chainName hash p) = none) :
    addPodWith false hash (some 0) ⟨T, none⟩ ps = (⟨T, some ps⟩, false) ∧
    delPodWith false hash none ⟨T, some ps⟩ = (⟨T, some ps⟩, false) := by
  obtain ⟨p, rest, rfl⟩ := List.exists_cons_of_ne_nil hne
  have hrefs : checkRefs (fun _ => true) T (jumpRule hash p) = some .noTarget :=
    checkRefs_noTarget (chainRef_jump hash p) (has_false_iff.mpr (habs p (List.mem_cons_self ..)))
  have hdj : deleteJumps hash T (p :: rest) = (T, some .noTarget) := by
    show (match deleteRule (fun _ => true) T hostportsChain (jumpRule hash p) with
      | .error e => (T, some e)
      | .ok T' => deleteJumps hash T' rest) = _
    unfold deleteRule; rw [hrefs]
  have hcl : cleanWith false hash T (p :: rest) = (T, some .noTarget) := by
    simp [cleanWith, Generated.Netfilter.cleanDeletesJumpRulesBeforeRestore, hdj]
  constructor
  · simp [addPodWith, setupFault, Generated.Netfilter.portFileSavedBeforeSetup,
      Generated.Netfilter.addFailureRunsCleanup, cleanupPortWith, hcl]
  · simp [delPodWith, Generated.Netfilter.delRunsCleanup, cleanupPortWith, hcl]

/-! ## ADD, then DEL (possibly failing once at call `j`, then retried) -/

theorem add_spec (hash : String → String) (T : Table) (ps : List Port) (rs : List Rule)
    (hne : ps ≠ []) (hk : Tbl.get T hostportsChain = some rs)
    (hnd : (ps.map (chainName hash)).Nodup)
    (hunref : ∀ p ∈ ps, referenced T (chainName hash p) = false) :
    ∃ T2, addPod hash none ⟨T, none⟩ ps = (⟨T2, some ps⟩, true) ∧
      ∀ c, Tbl.get T2 c =
        if c = markMasqChain then some [markRule]
        else if c ∈ ps.map (chainName hash) then some (hpRules hash ps c)
        else if c = hostportsChain then some (rs ++ ps.map (jumpRule hash)) else Tbl.get T c := by
  obtain ⟨T2, h2, g2⟩ := setup_spec hash T ps rs hk
  have hfresh := jump_not_in_prior hk hunref
  have hjnd := jumpRules_nodup hnd
  refine ⟨T2, by simp [addPod, addPodWith, hne, h2], ?_⟩
  intro c
  rw [g2 c, ensureAll_fresh _ _ hfresh hjnd]

theorem del_spec (hash : String → String) (T T2 : Table) (ps : List Port) (rs l : List Rule)
    (hne : ps ≠ []) (hk : Tbl.get T hostportsChain = some rs)
    (hnd : (ps.map (chainName hash)).Nodup)
    (hunref : ∀ p ∈ ps, referenced T (chainName hash p) = false)
    (hl : l.Nodup) (hlsub : ∀ x ∈ l, x ∈ ps.map (jumpRule hash))
    (g2 : ∀ c, Tbl.get T2 c =
      if c = markMasqChain then some [markRule]
      else if c ∈ ps.map (chainName hash) then some (hpRules hash ps c)
      else if c = hostportsChain then some (rs ++ l) else Tbl.get T c) :
    ∃ T4, delPod hash none ⟨T2, some ps⟩ = (⟨T4, none⟩, true) ∧
      ∀ c, Tbl.get T4 c =
        if c ∈ ps.map (chainName hash) then none
        else if c = markMasqChain then some [markRule] else Tbl.get T c := by
  obtain ⟨T4, h4, g4⟩ := clean_spec_partial hash T T2 ps rs l (some [markRule]) (fun c => some (hpRules hash ps c))
    hk hnd hunref hl hlsub (Or.inl rfl) g2
  rw [clean_eq_cleanWith] at h4
  exact ⟨T4, by simp [delPod, delPodWith, Generated.Netfilter.delRunsCleanup, cleanupPortWith, hne,
    Generated.Netfilter.cleanEnsuresChainsFirst, h4, Generated.Netfilter.cleanupRemovesFileAfterClean], g4⟩

/-- a DEL whose iptables call `j` fails (j < n an EnsureChain, n ≤ j < 2n a DeleteRule, j = 2n the restore) keeps
    the port file and leaves a table of the shape `del_spec` accepts -/
theorem faultyDel_spec (hash : String → String) (T T2 : Table) (ps : List Port) (rs : List Rule) (j : Nat)
    (hne : ps ≠ []) (hjl : j ≤ 2 * ps.length)
    (hk : Tbl.get T hostportsChain = some rs)
    (hnd : (ps.map (chainName hash)).Nodup)
    (hunref : ∀ p ∈ ps, referenced T (chainName hash p) = false)
    (g2 : ∀ c, Tbl.get T2 c =
      if c = markMasqChain then some [markRule]
      else if c ∈ ps.map (chainName hash) then some (hpRules hash ps c)
      else if c = hostportsChain then some (rs ++ ps.map (jumpRule hash)) else Tbl.get T c) :
    ∃ T3 l, delPod hash (some j) ⟨T2, some ps⟩ = (⟨T3, some ps⟩, false) ∧ l.Nodup ∧
      (∀ x ∈ l, x ∈ ps.map (jumpRule hash)) ∧
      ∀ c, Tbl.get T3 c =
        if c = markMasqChain then some [markRule]
        else if c ∈ ps.map (chainName hash) then some (hpRules hash ps c)
        else if c = hostportsChain then some (rs ++ l) else Tbl.get T c := by
  have hkn : hostportsChain ∉ ps.map (chainName hash) := by
    intro h
    have := names_prefix h
    rw [hostports_no_prefix] at this; cases this
  have hfresh := jump_not_in_prior hk hunref
  have hjnd := jumpRules_nodup hnd
  have hn2 : ∀ p ∈ ps, Tbl.has T2 (chainName hash p) = true := by
    intro p hp
    simp [Tbl.has, g2, chainName_ne_markMasq, List.mem_map_of_mem hp]
  by_cases hjn : j < ps.length
  · -- an EnsureChain fails: the chains exist already, nothing changed
    refine ⟨ensureChains hash T2 (ps.take j), ps.map (jumpRule hash), ?_, hjnd, fun _ h => h, ?_⟩
    · simp [delPod, delPodWith, Generated.Netfilter.delRunsCleanup, cleanupPortWith, hne,
        Generated.Netfilter.cleanEnsuresChainsFirst, cleanFaultWith, hjn]
    · intro c
      rw [ensureChains_noop hash T2 _ (fun p hp => hn2 p (List.mem_of_mem_take hp)) c, g2 c]
  · have hjn' : ps.length ≤ j := Nat.le_of_not_lt hjn
    have g0 : ∀ c, Tbl.get (ensureChains hash T2 ps) c = Tbl.get T2 c := ensureChains_noop hash T2 ps hn2
    have hk2 : Tbl.get (ensureChains hash T2 ps) hostportsChain = some (rs ++ ps.map (jumpRule hash)) := by
      rw [g0, g2]; simp [hkn, markMasq_ne_hostports.symm]
    have hn0 : ∀ p ∈ ps.take (j - ps.length), Tbl.has (ensureChains hash T2 ps) (chainName hash p) = true := by
      intro p hp
      have := hn2 p (List.mem_of_mem_take hp)
      simpa [Tbl.has, g0] using this
    obtain ⟨T3, h3, g3k, g3⟩ := deleteJumps_spec hash (ps.take (j - ps.length)) _ _ hk2 hn0
    obtain ⟨l, hl1, hl2, hl3⟩ := eraseAll_partial ((ps.take (j - ps.length)).map (jumpRule hash)) rs
      (ps.map (jumpRule hash))
      (fun d hd => by
        rw [List.map_take] at hd
        exact hfresh d (List.mem_of_mem_take hd)) hjnd
    rw [hl1] at g3k
    refine ⟨T3, l, ?_, hl2, hl3, ?_⟩
    · simp [delPod, delPodWith, Generated.Netfilter.delRunsCleanup, cleanupPortWith, hne,
        Generated.Netfilter.cleanEnsuresChainsFirst, cleanFaultWith, hjn, hjl, h3]
    · intro c
      by_cases hc : c = hostportsChain
      · subst hc
        simp [g3k, markMasq_ne_hostports.symm, hkn]
      · rw [g3 c hc, g0 c, g2 c]; simp [hc]

end Galaxy.Netfilter
