/-
  C03 proofs, part 6: the history D12 (DESIGN §7) evaluated on the model.  `decide` cannot run the model through a
  deployment unbind (`Key.hasPrefix` uses `String.isPrefixOf`, which the kernel does not reduce), so the one step that
  counts the records under the app prefix is done by hand; everything else is evaluation.
-/
import Galaxy.Lemmas.C03Unbind

namespace Galaxy.Plugin.C03.D12
open Galaxy Galaxy.Plugin Galaxy.Plugin.C03

theorem isPrefixOf_empty (s : String) : "".isPrefixOf s = true := by
  unfold String.isPrefixOf String.startsWith String.Slice.startsWith
  exact String.Slice.Pattern.ForwardSliceSearcher.startsWith_of_isEmpty (by simp)

def pool2 : Pool := { nodeSubnets := [⟨168362240, 24⟩], ranges := [(168427522, 168427523)], gateway := 168427521, bits := 24, vlan := 0 }
def conf2 : Conf := { pools := [pool2], nodes := [("n1", 168362245)], provider := false }

/-- the moves up to and including the deletion of the pod (its delete event is pending) -/
def d12a : List Move := [
  .scale .dp "ns1" "d" 1,
  .createPod "ns1" "d-x1" .dp "d" "" 1 [] true,
  .listerSync true true,
  .filter "ns1" "d-x1" ["n1"] {} 0,
  .bind "ns1" "d-x1" 1 "n1" { pick := some 168427522 } 0 0,
  .deletePod "ns1" "d-x1" ]

/-- the deployment is deleted, the listers catch up, two resync passes run -/
def d12b : List Move := [
  .deleteApp .dp "ns1" "d",
  .listerSync true true,
  .resync [] 0 0,
  .resync [] 0 0 ]

/-- DESIGN §7 D12: an immutable deployment pod is unbound while the deployment exists (its address is re-keyed to the
    app prefix), then the deployment is deleted; two resync passes follow -/
def d12 : List Move := d12a ++ [.deliver 0 0 0] ++ d12b

def podKey : Key := ⟨"", "dp_", "ns1", "d", "d-x1"⟩
def dpPrefixKey : Key := ⟨"", "dp_", "ns1", "d", ""⟩

def pod6 : Pod :=
  { ns := "ns1", name := "d-x1", uid := 1, kind := .dp, app := "d", pool := "", policy := 1, ranges := [], wants := true,
    phase := .pending, node := "n1", handed := [⟨168427522, 24, 168427521, 0⟩] }

def lpod : Pod := { pod6 with node := "", handed := [] }

/-- the state in which `unbind` runs: after the first six moves, event taken off the queue, counters reset -/
def s1 : State :=
  { pools := [pool2]
    alloc := [(168427522, { key := podKey, policy := 1, node := "n1", uid := 1, reserved := false, ts := 2 })]
    free := [168427523]
    store := [(168427522, { key := podKey, policy := 1, node := "n1", uid := 1, reserved := false, ts := 2 })]
    clock := 3
    apps := [((Kind.dp, "ns1", "d"), 1)]
    nodes := [("n1", 168362245)]
    vPods := [(("ns1", "d-x1"), lpod)]
    vApps := [((Kind.dp, "ns1", "d"), 1)]
    events := []
    nodeCache := [("n1", ⟨168362240, 24⟩)]
    nextUid := 2 }

/-- the state after the delivery of the delete event: the address is held under `dp_ns1_d_` -/
def s7 : State :=
  { s1 with
    alloc := [(168427522, { key := dpPrefixKey, policy := 1, node := "", uid := 0, reserved := false, ts := 3 })]
    store := [(168427522, { key := dpPrefixKey, policy := 1, node := "", uid := 0, reserved := false, ts := 3 })]
    calls := 2 }

set_option maxRecDepth 100000 in
theorem s6_events : (withFaults (run Facts.good (init conf2) d12a) 0 0).events = [{ pod := pod6 }] := by decide

set_option maxRecDepth 100000 in
theorem s6_rest : { withFaults (run Facts.good (init conf2) d12a) 0 0 with events := [] } = s1 := by rfl

theorem countPrefix_s1 : countPrefix s1 dpPrefixKey = 1 := by
  have h : Key.hasPrefix podKey dpPrefixKey = true := by
    unfold Key.hasPrefix
    have e1 : ¬ dpPrefixKey = Key.empty := by decide
    have e2 : ¬ (dpPrefixKey.typ = "" ∧ dpPrefixKey.ns = "" ∧ dpPrefixKey.app = "" ∧ dpPrefixKey.pod = "") := by decide
    rw [if_neg e1, if_neg e2]
    have e3 : (podKey.pool == dpPrefixKey.pool && podKey.typ == dpPrefixKey.typ && podKey.ns == dpPrefixKey.ns &&
      podKey.app == dpPrefixKey.app) = true := by decide
    rw [e3, Bool.true_and]
    exact isPrefixOf_empty _
  unfold countPrefix
  show (List.filter (fun e => e.2.key.hasPrefix dpPrefixKey)
    [(168427522, ({ key := podKey, policy := 1, node := "n1", uid := 1, reserved := false, ts := 2 } : Rec))]).length = 1
  simp [h]

theorem decision_s1 : codeAction (dinOf CRs.none s1 podKey 1) = .reservePrefix := by
  have hk : podKey.isDp = true := by decide
  unfold codeAction
  rw [dinOf_isDp, hk]
  simp only [if_true]
  unfold codeActionDp
  rw [gen_policies.1, gen_policies.2.2, gen_dpNoReplicas, gen_dpExceeds]
  have hrep : (dinOf CRs.none s1 podKey 1).replicas = 1 := by decide
  have hpre : podKey.poolPrefix = dpPrefixKey := by decide
  have hkp : (dinOf CRs.none s1 podKey 1).keyIsPrefix = false := by decide
  rw [dinOf_policy, dinOf_nPrefix, hrep, hpre, countPrefix_s1, hkp]
  decide

set_option maxRecDepth 100000 in
theorem unbind_s1 : unbind Facts.good s1 pod6 = (s7, .ok) := by
  have hg : guardPasses s1 pod6 := by
    intro ip hm r hr
    have : ipsOfKey s1 (keyOf pod6) = [168427522] := by decide
    rw [this] at hm
    simp at hm
    subst hm
    have : Tbl.get s1.alloc 168427522 = some { key := podKey, policy := 1, node := "n1", uid := 1, reserved := false, ts := 2 } := by
      decide
    rw [this] at hr
    cases hr
    right; right; rfl
  have hu : unassignAll s1 (ipsOfKey s1 (keyOf pod6)) = (s1, true) := by rfl
  rw [unbind_eq s1 pod6 hg (by rw [hu]), hu]
  have hk : keyOf pod6 = podKey := by decide
  have hp : policyOf pod6 = 1 := by decide
  rw [hk, hp, decision_s1]
  rfl

set_option maxRecDepth 100000 in
theorem deliver_s6 : next Facts.good (run Facts.good (init conf2) d12a) (.deliver 0 0 0) = s7 := by
  have hd : deliver Facts.good (withFaults (run Facts.good (init conf2) d12a) 0 0) 0 = (s7, {}) := by
    unfold deliver
    have h0 : (withFaults (run Facts.good (init conf2) d12a) 0 0).events[0]? = some { pod := pod6 } := by
      rw [s6_events]; rfl
    rw [h0]
    simp only []
    have he : (withFaults (run Facts.good (init conf2) d12a) 0 0).events.eraseIdx 0 = [] := by rw [s6_events]; rfl
    rw [he, s6_rest, unbind_s1]
  unfold next
  simp only [step, hd]

theorem run_append (F : Facts) (s : State) (a b : List Move) : run F s (a ++ b) = run F (run F s a) b := by
  unfold run; rw [List.foldl_append]

theorem run_d12 : run Facts.good (init conf2) d12 = run Facts.good s7 d12b := by
  unfold d12
  rw [run_append, run_append]
  have h : run Facts.good (run Facts.good (init conf2) d12a) [.deliver 0 0 0] = s7 := deliver_s6
  rw [h]

end Galaxy.Plugin.C03.D12
