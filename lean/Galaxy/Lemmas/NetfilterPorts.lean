/-
  `get`-level specifications of the port-mapping procedures of M6:
  SetupPortMapping, CleanPortMapping, EnsureBasicRule, SetupPortMappingForAllPods.
-/
import Galaxy.Lemmas.Netfilter
import Galaxy.Lemmas.NetfilterNames

namespace Galaxy.Netfilter

open Galaxy

/-! ## names -/

theorem markMasq_not_builtin : isBuiltin markMasqChain = false := by decide
theorem hostports_not_builtin : isBuiltin hostportsChain = false := by decide
theorem markMasq_ne_hostports : markMasqChain ≠ hostportsChain := by decide
theorem markMasq_no_prefix : hasPrefix hpPrefix markMasqChain = false := by decide
theorem hostports_no_prefix : hasPrefix hpPrefix hostportsChain = false := by decide

theorem chainName_ne_markMasq (hash : String → String) (p : Port) : chainName hash p ≠ markMasqChain :=
  prefix_ne_markMasq (chainName_prefix hash p)

theorem chainName_ne_hostports (hash : String → String) (p : Port) : chainName hash p ≠ hostportsChain :=
  prefix_ne_hostports (chainName_prefix hash p)

theorem names_prefix {hash : String → String} {ps : List Port} {c : String}
    (h : c ∈ ps.map (chainName hash)) : hasPrefix hpPrefix c = true := by
  obtain ⟨p, _, rfl⟩ := List.mem_map.mp h
  exact chainName_prefix hash p

/-! ## hpRules -/

theorem hpRules_not_mem {hash : String → String} {ps : List Port} {c : String}
    (h : c ∉ ps.map (chainName hash)) : hpRules hash ps c = [] := by
  induction ps with
  | nil => rfl
  | cons p ps ih =>
    simp only [List.map_cons, List.mem_cons, not_or] at h
    have hne : ¬ chainName hash p = c := fun e => h.1 e.symm
    simp only [hpRules, List.flatMap_cons, hne, if_false, List.nil_append]
    exact ih h.2

theorem hpRules_mem {hash : String → String} : ∀ {ps : List Port} {p : Port},
    (ps.map (chainName hash)).Nodup → p ∈ ps →
    hpRules hash ps (chainName hash p) = [masqRule hash p, dnatRule hash p]
  | q :: ps, p, hnd, hp => by
    simp only [List.map_cons, List.nodup_cons] at hnd
    rcases List.mem_cons.mp hp with rfl | hp'
    · have : hpRules hash ps (chainName hash p) = [] := hpRules_not_mem hnd.1
      simp only [hpRules, List.flatMap_cons, if_true] at this ⊢
      rw [this]; rfl
    · have hne : ¬ chainName hash q = chainName hash p := fun e => hnd.1 (e ▸ List.mem_map_of_mem hp')
      have := hpRules_mem hnd.2 hp'
      simp only [hpRules, List.flatMap_cons, hne, if_false, List.nil_append] at this ⊢
      exact this

/-- the two `-A` lines of every port -/
def hpApps (hash : String → String) (ps : List Port) : Batch :=
  ps.flatMap (fun p => [.app (chainName hash p) (masqRule hash p), .app (chainName hash p) (dnatRule hash p)])

theorem appsFor_hpApps (hash : String → String) (ps : List Port) (c : String) :
    appsFor c (hpApps hash ps) = hpRules hash ps c := by
  induction ps with
  | nil => rfl
  | cons p ps ih =>
    simp only [hpApps, hpRules, List.flatMap_cons] at ih ⊢
    rw [appsFor_append, ih]
    by_cases h : chainName hash p = c <;> simp [appsFor, h]

/-! ## SetupPortMapping: the restore batch -/

theorem setupBatch_eq (hash : String → String) (ps : List Port) :
    setupBatch hash ps =
      (markMasqChain :: ps.map (chainName hash)).map .decl
        ++ (.app markMasqChain markRule :: hpApps hash ps) := by
  simp [setupBatch, when, Generated.Netfilter.setupWritesMark, Generated.Netfilter.setupDeclaresChain,
    Generated.Netfilter.setupWritesHpRules, markCmd_eq, masqCmd_eq, dnatCmd_eq, hpApps, Function.comp_def]

theorem mem_hpApps {hash : String → String} {ps : List Port} {cmd : Cmd} (h : cmd ∈ hpApps hash ps) :
    ∃ p ∈ ps, cmd = .app (chainName hash p) (masqRule hash p) ∨ cmd = .app (chainName hash p) (dnatRule hash p) := by
  simp only [hpApps, List.mem_flatMap, List.mem_cons, List.mem_nil_iff, or_false] at h
  exact h

theorem hpApps_ok {setOk : String → Bool} {hash : String → String} {ps : List Port} {T : Table}
    (hmm : Tbl.has T markMasqChain = true) (hn : ∀ p ∈ ps, Tbl.has T (chainName hash p) = true) :
    ∀ cmd ∈ hpApps hash ps, AppOk setOk T cmd := by
  intro cmd hcmd
  obtain ⟨p, hp, h | h⟩ := mem_hpApps hcmd
  · refine ⟨_, _, h, hn p hp, ?_, by simp [matchSets_masq]⟩
    intro t ht
    rw [chainRef_masq] at ht
    cases ht; exact hmm
  · refine ⟨_, _, h, hn p hp, ?_, by simp [matchSets_dnat]⟩
    intro t ht
    rw [chainRef_dnat] at ht
    cases ht

theorem setupBatch_spec (setOk : String → Bool) (hash : String → String) (T : Table) (ps : List Port) :
    ∃ T1, restoreIn setOk T (setupBatch hash ps) = .ok T1 ∧
      ∀ c, Tbl.get T1 c =
        if c = markMasqChain then some [markRule]
        else if c ∈ ps.map (chainName hash) then some (hpRules hash ps c) else Tbl.get T c := by
  rw [setupBatch_eq]
  obtain ⟨T0, h0, g0⟩ := restore_decls setOk T (markMasqChain :: ps.map (chainName hash)) (by
    intro c hc
    rcases List.mem_cons.mp hc with rfl | hc
    · exact markMasq_not_builtin
    · exact prefix_not_builtin (names_prefix hc))
  rw [restoreIn_append_ok _ h0]
  have hmm : Tbl.has T0 markMasqChain = true := by simp [Tbl.has, g0]
  have hn : ∀ p ∈ ps, Tbl.has T0 (chainName hash p) = true := by
    intro p hp
    have : chainName hash p ∈ markMasqChain :: ps.map (chainName hash) :=
      List.mem_cons_of_mem _ (List.mem_map_of_mem hp)
    simp [Tbl.has, g0, this]
  obtain ⟨T1, h1, g1⟩ := restore_apps setOk T0 (.app markMasqChain markRule :: hpApps hash ps) (by
    intro cmd hcmd
    rcases List.mem_cons.mp hcmd with rfl | hcmd
    · exact ⟨_, _, rfl, hmm, by simp [chainRef_mark], by simp [matchSets_mark]⟩
    · exact hpApps_ok hmm hn cmd hcmd)
  refine ⟨T1, h1, ?_⟩
  intro c
  rw [g1 c, g0 c]
  by_cases hc : c = markMasqChain
  · subst hc
    have : hpRules hash ps markMasqChain = [] := hpRules_not_mem (by
      intro h
      have := names_prefix h
      rw [markMasq_no_prefix] at this; cases this)
    simp [appsFor, appsFor_hpApps, this]
  · have hne : ¬ markMasqChain = c := fun e => hc e.symm
    by_cases hm : c ∈ ps.map (chainName hash)
    · simp [hc, hm, appsFor, hne, appsFor_hpApps]
    · simp [hc, hm, appsFor, hne, appsFor_hpApps, hpRules_not_mem hm]

/-! ## the KUBE-HOSTPORTS loops -/

/-- what the `EnsureRule(Append, …)` loop does to the rule list of KUBE-HOSTPORTS -/
def ensureAll (rs : List Rule) : List Rule → List Rule
  | [] => rs
  | j :: js => ensureAll (if j ∈ rs then rs else rs ++ [j]) js

/-- what the `DeleteRule` loop does to it -/
def eraseAll (rs : List Rule) : List Rule → List Rule
  | [] => rs
  | j :: js => eraseAll (rs.erase j) js

theorem ensureAll_fresh : ∀ (js rs : List Rule), (∀ j ∈ js, j ∉ rs) → js.Nodup → ensureAll rs js = rs ++ js
  | [], rs, _, _ => by simp [ensureAll]
  | j :: js, rs, h, hnd => by
    have hj : j ∉ rs := h j (List.mem_cons_self ..)
    have hnd' := List.nodup_cons.mp hnd
    simp only [ensureAll, hj, if_false]
    rw [ensureAll_fresh js (rs ++ [j]) ?_ hnd'.2]
    · simp
    · intro j' hj' hmem
      rcases List.mem_append.mp hmem with h1 | h1
      · exact h j' (List.mem_cons_of_mem _ hj') h1
      · simp only [List.mem_cons, List.mem_nil_iff, or_false] at h1
        subst h1; exact hnd'.1 hj'

theorem eraseAll_append : ∀ (js rs : List Rule), (∀ j ∈ js, j ∉ rs) → js.Nodup → eraseAll (rs ++ js) js = rs
  | [], rs, _, _ => by simp [eraseAll]
  | j :: js, rs, h, hnd => by
    have hj : j ∉ rs := h j (List.mem_cons_self ..)
    have hnd' := List.nodup_cons.mp hnd
    simp only [eraseAll]
    rw [List.erase_append_right _ hj, List.erase_cons_head]
    exact eraseAll_append js rs (fun j' hj' => h j' (List.mem_cons_of_mem _ hj')) hnd'.2

theorem eraseAll_not_mem : ∀ (js rs : List Rule) (x : Rule), x ∈ js → rs.Nodup → x ∉ eraseAll rs js
  | j :: js, rs, x, hx, hnd => by
    simp only [eraseAll]
    rcases List.mem_cons.mp hx with rfl | hx'
    · intro hmem
      have hsub : ∀ (l : List Rule) (r : List Rule) (y : Rule), y ∈ eraseAll r l → y ∈ r := by
        intro l
        induction l with
        | nil => intro r y h; simpa [eraseAll] using h
        | cons a l ih => intro r y h; exact List.mem_of_mem_erase (ih _ _ h)
      have := hsub _ _ _ hmem
      exact (List.Nodup.mem_erase_iff hnd).mp this |>.1 rfl
    · exact eraseAll_not_mem js _ x hx' (hnd.erase _)

theorem ensureJumps_spec (hash : String → String) : ∀ (ps : List Port) (T : Table) (rs : List Rule),
    Tbl.get T hostportsChain = some rs → (∀ p ∈ ps, Tbl.has T (chainName hash p) = true) →
    ∃ T', ensureJumps hash T ps = (T', none) ∧
      Tbl.get T' hostportsChain = some (ensureAll rs (ps.map (jumpRule hash))) ∧
      ∀ c, c ≠ hostportsChain → Tbl.get T' c = Tbl.get T c
  | [], T, rs, hk, _ => ⟨T, rfl, by simpa [ensureAll] using hk, fun _ _ => rfl⟩
  | p :: ps, T, rs, hk, hn => by
    have hrefs : checkRefs (fun _ => true) T (jumpRule hash p) = none :=
      checkRefs_none (fun t ht => by
        rw [chainRef_jump] at ht; cases ht; exact hn p (List.mem_cons_self ..)) (by simp [matchSets_jump])
    by_cases hj : jumpRule hash p ∈ rs
    · obtain ⟨T', h1, h2, h3⟩ := ensureJumps_spec hash ps T rs hk (fun q hq => hn q (List.mem_cons_of_mem _ hq))
      refine ⟨T', ?_, ?_, h3⟩
      · show (match ensureRule false (fun _ => true) T hostportsChain (jumpRule hash p) with
          | .error e => (T, some e)
          | .ok (_, T') => ensureJumps hash T' ps) = _
        rw [ensureRule_existing hrefs hk hj]; exact h1
      · show _ = some (ensureAll (if jumpRule hash p ∈ rs then rs else rs ++ [jumpRule hash p]) _)
        rw [if_pos hj]; exact h2
    · have hk' : Tbl.get (Tbl.set T hostportsChain (rs ++ [jumpRule hash p])) hostportsChain =
          some (rs ++ [jumpRule hash p]) := by simp
      have hn' : ∀ q ∈ ps, Tbl.has (Tbl.set T hostportsChain (rs ++ [jumpRule hash p])) (chainName hash q) = true := by
        intro q hq
        rw [has_set]; simp [hn q (List.mem_cons_of_mem _ hq)]
      obtain ⟨T', h1, h2, h3⟩ := ensureJumps_spec hash ps _ _ hk' hn'
      refine ⟨T', ?_, ?_, ?_⟩
      · show (match ensureRule false (fun _ => true) T hostportsChain (jumpRule hash p) with
          | .error e => (T, some e)
          | .ok (_, T') => ensureJumps hash T' ps) = _
        rw [ensureRule_append hrefs hk hj]; exact h1
      · show _ = some (ensureAll (if jumpRule hash p ∈ rs then rs else rs ++ [jumpRule hash p]) _)
        rw [if_neg hj]; exact h2
      · intro c hc
        rw [h3 c hc, Tbl.get_set_ne _ _ (fun e => hc e.symm)]

theorem deleteJumps_spec (hash : String → String) : ∀ (ps : List Port) (T : Table) (rs : List Rule),
    Tbl.get T hostportsChain = some rs → (∀ p ∈ ps, Tbl.has T (chainName hash p) = true) →
    ∃ T', deleteJumps hash T ps = (T', none) ∧
      Tbl.get T' hostportsChain = some (eraseAll rs (ps.map (jumpRule hash))) ∧
      ∀ c, c ≠ hostportsChain → Tbl.get T' c = Tbl.get T c
  | [], T, rs, hk, _ => ⟨T, rfl, by simpa [eraseAll] using hk, fun _ _ => rfl⟩
  | p :: ps, T, rs, hk, hn => by
    have hrefs : checkRefs (fun _ => true) T (jumpRule hash p) = none :=
      checkRefs_none (fun t ht => by
        rw [chainRef_jump] at ht; cases ht; exact hn p (List.mem_cons_self ..)) (by simp [matchSets_jump])
    by_cases hj : jumpRule hash p ∈ rs
    · have hk' : Tbl.get (Tbl.set T hostportsChain (rs.erase (jumpRule hash p))) hostportsChain =
          some (rs.erase (jumpRule hash p)) := by simp
      have hn' : ∀ q ∈ ps, Tbl.has (Tbl.set T hostportsChain (rs.erase (jumpRule hash p))) (chainName hash q) = true := by
        intro q hq
        rw [has_set]; simp [hn q (List.mem_cons_of_mem _ hq)]
      obtain ⟨T', h1, h2, h3⟩ := deleteJumps_spec hash ps _ _ hk' hn'
      refine ⟨T', ?_, ?_, ?_⟩
      · show (match deleteRule (fun _ => true) T hostportsChain (jumpRule hash p) with
          | .error e => (T, some e)
          | .ok T' => deleteJumps hash T' ps) = _
        rw [deleteRule_present hrefs hk hj]; exact h1
      · exact h2
      · intro c hc
        rw [h3 c hc, Tbl.get_set_ne _ _ (fun e => hc e.symm)]
    · obtain ⟨T', h1, h2, h3⟩ := deleteJumps_spec hash ps T rs hk (fun q hq => hn q (List.mem_cons_of_mem _ hq))
      refine ⟨T', ?_, ?_, h3⟩
      · show (match deleteRule (fun _ => true) T hostportsChain (jumpRule hash p) with
          | .error e => (T, some e)
          | .ok T' => deleteJumps hash T' ps) = _
        rw [deleteRule_absent hrefs hk hj]; exact h1
      · show _ = some (eraseAll (rs.erase (jumpRule hash p)) _)
        rw [List.erase_of_not_mem hj]; exact h2

/-! ## CleanPortMapping: the restore batch -/

theorem cleanBatch_eq (hash : String → String) (ps : List Port) :
    cleanBatch hash ps = (ps.map (chainName hash)).map .decl ++ (ps.map (chainName hash)).map .del := by
  simp [cleanBatch, when, Generated.Netfilter.cleanWritesMark, Generated.Netfilter.cleanDeclaresChain,
    Generated.Netfilter.cleanDeletesChain, Function.comp_def]

/-- if every reference to a chain of `ps` comes from a chain of `ps`, the clean batch succeeds and removes
    exactly those chains -/
theorem cleanBatch_spec (setOk : String → Bool) (hash : String → String) (T : Table) (ps : List Port)
    (hnd : (ps.map (chainName hash)).Nodup)
    (href : ∀ k rs r c, Tbl.get T k = some rs → r ∈ rs → chainRef r = some c →
      c ∈ ps.map (chainName hash) → k ∈ ps.map (chainName hash)) :
    ∃ T', restoreIn setOk T (cleanBatch hash ps) = .ok T' ∧
      ∀ c, Tbl.get T' c = if c ∈ ps.map (chainName hash) then none else Tbl.get T c := by
  rw [cleanBatch_eq]
  obtain ⟨T0, h0, g0⟩ := restore_decls setOk T (ps.map (chainName hash))
    (fun c hc => prefix_not_builtin (names_prefix hc))
  rw [restoreIn_append_ok _ h0]
  obtain ⟨T1, h1, g1⟩ := restore_dels setOk T0 (ps.map (chainName hash)) hnd (by
    intro d hd
    refine ⟨by simp [g0, hd], prefix_not_builtin (names_prefix hd), ?_⟩
    rw [referenced_false_iff]
    intro k rs r hk hr hc
    rw [g0 k] at hk
    by_cases hkn : k ∈ ps.map (chainName hash)
    · simp [hkn] at hk; subst hk; cases hr
    · simp only [hkn, if_false] at hk
      exact hkn (href k rs r d hk hr hc hd))
  refine ⟨T1, h1, ?_⟩
  intro c
  rw [g1 c]
  by_cases hc : c ∈ ps.map (chainName hash)
  · simp [hc]
  · simp [hc, g0]

/-! ## CleanPortMapping as a whole -/

theorem ensureChain_get (T : Table) (k c : String) :
    Tbl.get (ensureChain T k).2 c = if c = k then some ((Tbl.get T k).getD []) else Tbl.get T c := by
  unfold ensureChain
  by_cases hh : Tbl.has T k = true
  · obtain ⟨rs, hrs⟩ := has_iff.mp hh
    by_cases hc : c = k
    · subst hc; simp [hh, hrs]
    · simp [hh, hc]
  · have hn : Tbl.get T k = none := has_false_iff.mp (by simpa using hh)
    by_cases hc : c = k
    · subst hc; simp [hh, hn]
    · have hne : ¬ k = c := fun e => hc e.symm
      simp [hh, hc, Tbl.get_set, hne]

theorem ensureChains_get (hash : String → String) : ∀ (qs : List Port) (T : Table) (c : String),
    Tbl.get (ensureChains hash T qs) c =
      if c ∈ qs.map (chainName hash) then some ((Tbl.get T c).getD []) else Tbl.get T c
  | [], _, _ => by simp [ensureChains]
  | q :: qs, T, c => by
    simp only [ensureChains]
    rw [ensureChains_get hash qs _ c, ensureChain_get]
    by_cases h1 : c ∈ qs.map (chainName hash)
    · by_cases h2 : c = chainName hash q
      · subst h2; simp [h1]
      · simp [h1, h2]
    · by_cases h2 : c = chainName hash q
      · subst h2; simp [h1]
      · simp [h1, h2]

/-- CleanPortMapping (with the EnsureChain loop) from ANY table with KUBE-HOSTPORTS: it succeeds as soon as nothing
    but the pod's own KUBE-HOSTPORTS rules (one copy each) refers to the pod's chains — whether those chains exist
    or not — and removes exactly the pod's chains and rules. -/
theorem clean_general (hash : String → String) (T : Table) (ps : List Port) (kh : List Rule)
    (hk : Tbl.get T hostportsChain = some kh)
    (hnd : (ps.map (chainName hash)).Nodup)
    (href : ∀ k rs r c, k ≠ hostportsChain → k ∉ ps.map (chainName hash) → Tbl.get T k = some rs → r ∈ rs →
      chainRef r = some c → c ∉ ps.map (chainName hash))
    (hkh : ∀ r ∈ eraseAll kh (ps.map (jumpRule hash)), ∀ c, chainRef r = some c → c ∉ ps.map (chainName hash)) :
    ∃ T4, cleanWith true hash T ps = (T4, none) ∧
      ∀ c, Tbl.get T4 c =
        if c ∈ ps.map (chainName hash) then none
        else if c = hostportsChain then some (eraseAll kh (ps.map (jumpRule hash))) else Tbl.get T c := by
  have hkn : hostportsChain ∉ ps.map (chainName hash) := by
    intro h
    have := names_prefix h
    rw [hostports_no_prefix] at this; cases this
  have g0 := ensureChains_get hash ps T
  have hk0 : Tbl.get (ensureChains hash T ps) hostportsChain = some kh := by rw [g0]; simp [hkn, hk]
  have hn0 : ∀ p ∈ ps, Tbl.has (ensureChains hash T ps) (chainName hash p) = true := by
    intro p hp
    simp [Tbl.has, g0, List.mem_map_of_mem hp]
  obtain ⟨T3, h3, g3k, g3⟩ := deleteJumps_spec hash ps _ _ hk0 hn0
  obtain ⟨T4, h4, g4⟩ := cleanBatch_spec (fun _ => true) hash T3 ps hnd (by
    intro k rs' r c hkr hr hc hcn
    by_cases hkn' : k ∈ ps.map (chainName hash)
    · exact hkn'
    · exfalso
      by_cases hkh' : k = hostportsChain
      · subst hkh'
        rw [g3k] at hkr; cases hkr
        exact hkh r hr c hc hcn
      · rw [g3 k hkh', g0 k] at hkr
        simp only [hkn', if_false] at hkr
        exact href k rs' r c hkh' hkn' hkr hr hc hcn)
  refine ⟨T4, ?_, ?_⟩
  · simp [cleanWith, Generated.Netfilter.cleanDeletesJumpRulesBeforeRestore, h3, Generated.Netfilter.cleanRestores,
      commit, h4]
  · intro c
    rw [g4 c]
    by_cases hcn : c ∈ ps.map (chainName hash)
    · simp [hcn]
    · simp only [hcn, if_false]
      by_cases hch : c = hostportsChain
      · subst hch; rw [g3k]; simp
      · rw [g3 c hch, g0 c]; simp [hcn, hch]

theorem clean_eq_cleanWith (hash : String → String) (T : Table) (ps : List Port) :
    clean hash T ps = cleanWith true hash T ps := by
  simp [clean, Generated.Netfilter.cleanEnsuresChainsFirst]

theorem jump_not_in_prior {hash : String → String} {T : Table} {ps : List Port} {rs : List Rule}
    (hk : Tbl.get T hostportsChain = some rs)
    (hunref : ∀ p ∈ ps, referenced T (chainName hash p) = false) :
    ∀ j ∈ ps.map (jumpRule hash), j ∉ rs := by
  intro j hj hmem
  obtain ⟨p, hp, rfl⟩ := List.mem_map.mp hj
  have := referenced_false_iff.mp (hunref p hp) hostportsChain rs _ hk hmem
  exact this (chainRef_jump hash p)

theorem eraseAll_sub : ∀ (js rs l : List Rule), (∀ j ∈ js, j ∉ rs) → l.Nodup → (∀ x ∈ l, x ∈ js) →
    eraseAll (rs ++ l) js = rs
  | [], rs, l, _, _, hsub => by
    have : l = [] := List.eq_nil_iff_forall_not_mem.mpr (fun x hx => by simpa using hsub x hx)
    subst this; simp [eraseAll]
  | j :: js, rs, l, h, hl, hsub => by
    have hj : j ∉ rs := h j (List.mem_cons_self ..)
    simp only [eraseAll]
    rw [List.erase_append_right _ hj]
    apply eraseAll_sub js rs (l.erase j) (fun j' hj' => h j' (List.mem_cons_of_mem _ hj')) (hl.erase _)
    intro x hx
    have hx' := (List.Nodup.mem_erase_iff hl).mp hx
    rcases List.mem_cons.mp (hsub x hx'.2) with e | e
    · exact absurd e hx'.1
    · exact e

/-- `T2` = the prior table `T` (in which nothing refers to the pod's chains) plus galaxy's KUBE-MARK-MASQ, possibly
    the pod's chains (`body`: any content) and some of its KUBE-HOSTPORTS rules (`l`): CleanPortMapping succeeds and
    leaves `T` (with galaxy's KUBE-MARK-MASQ) -/
theorem clean_spec_partial (hash : String → String) (T T2 : Table) (ps : List Port) (rs l : List Rule)
    (mm : Option (List Rule)) (body : String → Option (List Rule))
    (hk : Tbl.get T hostportsChain = some rs)
    (hnd : (ps.map (chainName hash)).Nodup)
    (hunref : ∀ p ∈ ps, referenced T (chainName hash p) = false)
    (hl : l.Nodup) (hlsub : ∀ x ∈ l, x ∈ ps.map (jumpRule hash))
    (hmm : mm = some [markRule] ∨ mm = Tbl.get T markMasqChain)
    (g2 : ∀ c, Tbl.get T2 c =
      if c = markMasqChain then mm
      else if c ∈ ps.map (chainName hash) then body c
      else if c = hostportsChain then some (rs ++ l) else Tbl.get T c) :
    ∃ T4, clean hash T2 ps = (T4, none) ∧
      ∀ c, Tbl.get T4 c =
        if c ∈ ps.map (chainName hash) then none
        else if c = markMasqChain then mm else Tbl.get T c := by
  have hkn : hostportsChain ∉ ps.map (chainName hash) := by
    intro h
    have := names_prefix h
    rw [hostports_no_prefix] at this; cases this
  have hfresh := jump_not_in_prior hk hunref
  have hk2 : Tbl.get T2 hostportsChain = some (rs ++ l) := by
    rw [g2]; simp [hkn, markMasq_ne_hostports.symm]
  have hunrefT : ∀ k rs' r c, Tbl.get T k = some rs' → r ∈ rs' → chainRef r = some c →
      c ∉ ps.map (chainName hash) := by
    intro k rs' r c hg hr hc hcn
    obtain ⟨p, hp, rfl⟩ := List.mem_map.mp hcn
    exact referenced_false_iff.mp (hunref p hp) _ _ _ hg hr hc
  obtain ⟨T4, h4, g4⟩ := clean_general hash T2 ps (rs ++ l) hk2 hnd (by
    intro k rs' r c hkh hkn' hg hr hc
    rw [g2 k] at hg
    by_cases hkm : k = markMasqChain
    · simp only [hkm, if_true] at hg
      rcases hmm with e | e
      · rw [e] at hg; cases hg
        simp only [List.mem_cons, List.mem_nil_iff, or_false] at hr
        subst hr; rw [chainRef_mark] at hc; cases hc
      · rw [e] at hg; exact hunrefT _ _ _ _ hg hr hc
    · simp only [hkm, hkn', hkh, if_false] at hg
      exact hunrefT _ _ _ _ hg hr hc) (by
    rw [eraseAll_sub _ _ _ hfresh hl hlsub]
    intro r hr c hc
    exact hunrefT _ _ _ _ hk hr hc)
  rw [eraseAll_sub _ _ _ hfresh hl hlsub] at g4
  refine ⟨T4, by rw [clean_eq_cleanWith]; exact h4, ?_⟩
  intro c
  rw [g4 c]
  by_cases hcn : c ∈ ps.map (chainName hash)
  · simp [hcn]
  · simp only [hcn, if_false]
    by_cases hch : c = hostportsChain
    · subst hch; simp [markMasq_ne_hostports.symm, hk]
    · rw [g2 c]; simp [hcn, hch]

/-! ## SetupPortMapping and CleanPortMapping as a whole -/

theorem setup_spec (hash : String → String) (T : Table) (ps : List Port) (rs : List Rule)
    (hk : Tbl.get T hostportsChain = some rs) :
    ∃ T2, setup hash T ps = (T2, none) ∧
      ∀ c, Tbl.get T2 c =
        if c = markMasqChain then some [markRule]
        else if c ∈ ps.map (chainName hash) then some (hpRules hash ps c)
        else if c = hostportsChain then some (ensureAll rs (ps.map (jumpRule hash)))
        else Tbl.get T c := by
  obtain ⟨T1, h1, g1⟩ := setupBatch_spec (fun _ => true) hash T ps
  have hkn : hostportsChain ∉ ps.map (chainName hash) := by
    intro h
    have := names_prefix h
    rw [hostports_no_prefix] at this; cases this
  have hk1 : Tbl.get T1 hostportsChain = some rs := by
    rw [g1]; simp [hkn, hk, markMasq_ne_hostports.symm]
  have hn1 : ∀ p ∈ ps, Tbl.has T1 (chainName hash p) = true := by
    intro p hp
    simp [Tbl.has, g1, chainName_ne_markMasq, List.mem_map_of_mem hp]
  obtain ⟨T2, h2, g2k, g2⟩ := ensureJumps_spec hash ps T1 rs hk1 hn1
  refine ⟨T2, ?_, ?_⟩
  · simp [setup, commit, h1, Generated.Netfilter.setupEnsuresJumpRulesAfterRestore, h2]
  · intro c
    by_cases hc : c = hostportsChain
    · subst hc
      simp [g2k, markMasq_ne_hostports.symm, hkn]
    · rw [g2 c hc, g1 c]; simp [hc]

/-- clean after setup: the pod's chains are gone, KUBE-MARK-MASQ holds galaxy's mark rule, everything
    else (KUBE-HOSTPORTS included) is what it was -/
theorem setup_clean_spec (hash : String → String) (T : Table) (ps : List Port) (rs : List Rule)
    (hk : Tbl.get T hostportsChain = some rs)
    (hnd : (ps.map (chainName hash)).Nodup)
    (hunref : ∀ p ∈ ps, referenced T (chainName hash p) = false) :
    ∃ T2 T4, setup hash T ps = (T2, none) ∧ clean hash T2 ps = (T4, none) ∧
      ∀ c, Tbl.get T4 c =
        if c ∈ ps.map (chainName hash) then none
        else if c = markMasqChain then some [markRule] else Tbl.get T c := by
  obtain ⟨T2, h2, g2⟩ := setup_spec hash T ps rs hk
  have hfresh := jump_not_in_prior hk hunref
  have hjnd := jumpRules_nodup hnd
  obtain ⟨T4, h4, g4⟩ := clean_spec_partial hash T T2 ps rs (ps.map (jumpRule hash)) (some [markRule])
    (fun c => some (hpRules hash ps c)) hk hnd hunref hjnd (fun _ h => h) (Or.inl rfl) (by
      intro c; rw [g2 c, ensureAll_fresh _ _ hfresh hjnd])
  exact ⟨T2, T4, h2, h4, g4⟩

end Galaxy.Netfilter
