/-
  Helper lemmas for `walkConfigured` (model of `crdIpam.walkConfiguredIPRanges`, D22).  Core Lean only.
-/
import Galaxy.Model.Total

namespace Galaxy.Total

theorem clip_spec {first last : Nat} {r p : Nat × Nat} (h : clip first last r = some p) :
    first ≤ p.1 ∧ p.2 ≤ last ∧ r.1 ≤ p.1 ∧ p.2 ≤ r.2 ∧ p.1 ≤ p.2 ∧ (p.1 = r.1 ∨ p.1 = first) ∧ (p.2 = r.2 ∨ p.2 = last) := by
  unfold clip at h
  by_cases h1 : r.1 < first <;> by_cases h2 : r.2 > last <;>
    simp only [h1, h2, if_true, if_false, Option.ite_none_right_eq_some, Option.some.injEq] at h <;>
    (obtain ⟨hle, rfl⟩ := h; dsimp only; omega)

theorem clip_size_le {first last : Nat} {r p : Nat × Nat} (h : clip first last r = some p) : rangeSize p ≤ rangeSize r := by
  have := clip_spec h
  unfold rangeSize
  omega

theorem mem_rangeIPs {r : Nat × Nat} {ip : Nat} : ip ∈ rangeIPs r ↔ r.1 ≤ ip ∧ ip ≤ r.2 := by
  unfold rangeIPs rangeSize
  simp only [List.mem_range'_1]
  omega

theorem clip_mem {first last : Nat} {r : Nat × Nat} {ip : Nat} :
    (∃ p, clip first last r = some p ∧ ip ∈ rangeIPs p) ↔ (first ≤ ip ∧ ip ≤ last ∧ r.1 ≤ ip ∧ ip ≤ r.2) := by
  constructor
  · rintro ⟨p, hp, hip⟩
    have := clip_spec hp
    rw [mem_rangeIPs] at hip
    omega
  · intro h
    unfold clip
    by_cases h1 : r.1 < first <;> by_cases h2 : r.2 > last <;>
      simp only [h1, h2, if_true, if_false, Option.ite_none_right_eq_some, Option.some.injEq] <;>
      (refine ⟨_, ⟨?_, rfl⟩, ?_⟩ <;> (try rw [mem_rangeIPs]) <;> (try dsimp only) <;> omega)

theorem length_flatMap_rangeIPs (l : List (Nat × Nat)) : (l.flatMap rangeIPs).length = (l.map rangeSize).sum := by
  induction l with
  | nil => rfl
  | cons a t ih => simp [List.flatMap_cons, ih, rangeIPs]

theorem sum_filterMap_clip_le (conf : List (Nat × Nat)) (first last : Nat) :
    ((conf.filterMap (clip first last)).map rangeSize).sum ≤ (conf.map rangeSize).sum := by
  induction conf with
  | nil => simp
  | cons a t ih =>
    simp only [List.filterMap_cons]
    split
    · simp only [List.map_cons, List.sum_cons]; omega
    · rename_i p hp
      have := clip_size_le hp
      simp only [List.map_cons, List.sum_cons]
      omega

theorem insertPart_perm (p : Nat × Nat) (l : List (Nat × Nat)) : (insertPart p l).Perm (p :: l) := by
  induction l with
  | nil => exact List.Perm.refl _
  | cons q t ih =>
    unfold insertPart
    split
    · exact List.Perm.refl _
    · exact ((List.Perm.cons q ih).trans (List.Perm.swap p q t))

theorem sortParts_perm (l : List (Nat × Nat)) : (sortParts l).Perm l := by
  induction l with
  | nil => exact List.Perm.refl _
  | cons a t ih =>
    show (insertPart a (sortParts t)).Perm (a :: t)
    exact (insertPart_perm a _).trans (List.Perm.cons a ih)

theorem insertPart_sorted (p : Nat × Nat) (l : List (Nat × Nat)) (h : l.Pairwise fun a b => a.1 ≤ b.1) :
    (insertPart p l).Pairwise fun a b => a.1 ≤ b.1 := by
  induction l with
  | nil => simp [insertPart]
  | cons q t ih =>
    rw [List.pairwise_cons] at h
    unfold insertPart
    split
    · rename_i hpq
      rw [List.pairwise_cons]
      refine ⟨?_, List.pairwise_cons.mpr h⟩
      intro b hb
      rcases List.mem_cons.mp hb with rfl | hb
      · exact hpq
      · exact Nat.le_trans hpq (h.1 b hb)
    · rename_i hpq
      rw [List.pairwise_cons]
      refine ⟨?_, ih h.2⟩
      intro b hb
      rcases List.mem_cons.mp ((insertPart_perm p t).mem_iff.mp hb) with rfl | hb
      · omega
      · exact h.1 b hb

theorem sortParts_sorted (l : List (Nat × Nat)) : (sortParts l).Pairwise fun a b => a.1 ≤ b.1 := by
  induction l with
  | nil => simp [sortParts]
  | cons a t ih => exact insertPart_sorted a _ ih

theorem clippedParts_perm (conf : List (Nat × Nat)) (first last : Nat) :
    (clippedParts conf first last).Perm (conf.filterMap (clip first last)) :=
  sortParts_perm _

theorem walkConfigured_length_le (conf : List (Nat × Nat)) (first last : Nat) :
    (walkConfigured conf first last).length ≤ confSize conf := by
  unfold walkConfigured confSize
  rw [length_flatMap_rangeIPs]
  have hp := (clippedParts_perm conf first last).map rangeSize
  rw [hp.sum_nat]
  exact sum_filterMap_clip_le conf first last

theorem mem_walkConfigured {conf : List (Nat × Nat)} {first last ip : Nat} :
    ip ∈ walkConfigured conf first last ↔ first ≤ ip ∧ ip ≤ last ∧ ∃ r ∈ conf, r.1 ≤ ip ∧ ip ≤ r.2 := by
  unfold walkConfigured
  simp only [List.mem_flatMap]
  constructor
  · rintro ⟨p, hp, hip⟩
    rw [(clippedParts_perm conf first last).mem_iff, List.mem_filterMap] at hp
    obtain ⟨r, hr, hc⟩ := hp
    have := (clip_mem (first := first) (last := last) (r := r) (ip := ip)).mp ⟨p, hc, hip⟩
    exact ⟨this.1, this.2.1, r, hr, this.2.2⟩
  · rintro ⟨h1, h2, r, hr, h3⟩
    obtain ⟨p, hc, hip⟩ := (clip_mem (first := first) (last := last) (r := r) (ip := ip)).mpr ⟨h1, h2, h3.1, h3.2⟩
    refine ⟨p, ?_, hip⟩
    rw [(clippedParts_perm conf first last).mem_iff, List.mem_filterMap]
    exact ⟨r, hr, hc⟩

/-- clipping keeps the ranges disjoint and makes them non-empty -/
theorem filterMap_clip_pairwise {conf : List (Nat × Nat)} (first last : Nat) (h : Disjoint conf) :
    (conf.filterMap (clip first last)).Pairwise fun a b => a.2 < b.1 ∨ b.2 < a.1 := by
  unfold Disjoint at h
  induction conf with
  | nil => simp
  | cons a t ih =>
    rw [List.pairwise_cons] at h
    simp only [List.filterMap_cons]
    split
    · exact ih h.2
    · rename_i p hp
      rw [List.pairwise_cons]
      refine ⟨?_, ih h.2⟩
      intro q hq
      rw [List.mem_filterMap] at hq
      obtain ⟨b, hb, hcb⟩ := hq
      have h1 := clip_spec hp
      have h2 := clip_spec hcb
      have := h.1 b hb
      omega

theorem nonempty_of_mem_parts {conf : List (Nat × Nat)} {first last : Nat} {p : Nat × Nat}
    (hp : p ∈ clippedParts conf first last) : p.1 ≤ p.2 := by
  rw [(clippedParts_perm conf first last).mem_iff, List.mem_filterMap] at hp
  obtain ⟨r, _, hc⟩ := hp
  exact (clip_spec hc).2.2.2.2.1

theorem walkConfigured_ascending {conf : List (Nat × Nat)} (first last : Nat) (h : Disjoint conf) :
    (walkConfigured conf first last).Pairwise (· < ·) := by
  unfold walkConfigured
  rw [List.pairwise_flatMap]
  constructor
  · intro r _
    unfold rangeIPs
    exact List.pairwise_lt_range'
  · -- sorted by first address + disjoint + non-empty  =>  each part ends before the next begins
    have hsorted : (clippedParts conf first last).Pairwise (fun a b => a.1 ≤ b.1) := sortParts_sorted _
    have hdis : (clippedParts conf first last).Pairwise (fun a b => a.2 < b.1 ∨ b.2 < a.1) := by
      have hsymm : ∀ {a b : Nat × Nat}, (a.2 < b.1 ∨ b.2 < a.1) → (b.2 < a.1 ∨ a.2 < b.1) := fun h => h.symm
      exact ((clippedParts_perm conf first last).pairwise_iff (fun {a b} h => hsymm h)).mpr
        (filterMap_clip_pairwise first last h)
    have hall : ∀ p ∈ clippedParts conf first last, p.1 ≤ p.2 := fun p hp => nonempty_of_mem_parts hp
    have hboth := hsorted.and hdis
    refine (hboth.imp_of_mem ?_)
    intro a b ha hb hab x hx y hy
    rw [mem_rangeIPs] at hx hy
    have h1 := hall a ha
    have h2 := hall b hb
    have hle : a.1 ≤ b.1 := hab.1
    rcases hab.2 with h3 | h3 <;> omega

end Galaxy.Total
