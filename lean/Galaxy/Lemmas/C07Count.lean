/-
  C07 proofs, part 1: how the IPAM functions of the core model change the number of records whose key satisfies a
  predicate (`cntp m`), in particular the number of members of a pool (`cnt s P`).
-/
import Galaxy.Model.PluginC07
import Galaxy.Lemmas.PluginUnbind
import Galaxy.Lemmas.PluginMulti

namespace Galaxy.PluginC07
open Galaxy Galaxy.Plugin

/-! ### tables -/

theorem cntp_nil (m : Key → Bool) : cntp m [] = 0 := rfl

theorem cntp_cons (m : Key → Bool) (e : IP × Rec) (t : Tbl IP Rec) :
    cntp m (e :: t) = (if m e.2.key then 1 else 0) + cntp m t := by
  unfold cntp
  by_cases h : m e.2.key = true
  · simp [h]; omega
  · simp [h]

theorem cntp_erase_le (m : Key → Bool) (t : Tbl IP Rec) (ip : IP) : cntp m (Tbl.erase t ip) ≤ cntp m t := by
  induction t with
  | nil => exact Nat.le_refl _
  | cons e t ih =>
    obtain ⟨k, v⟩ := e
    by_cases h : k = ip
    · simp only [Tbl.erase, h, ↓reduceIte]
      rw [cntp_cons]; omega
    · simp only [Tbl.erase, h, ↓reduceIte]
      rw [cntp_cons, cntp_cons]; omega

/-- erasing an address whose (first) record satisfies `m` lowers the count -/
theorem cntp_erase_lt (m : Key → Bool) (t : Tbl IP Rec) (ip : IP) (r : Rec) (hg : Tbl.get t ip = some r)
    (hm : m r.key = true) : cntp m (Tbl.erase t ip) + 1 ≤ cntp m t := by
  induction t with
  | nil => simp [Tbl.get] at hg
  | cons e t ih =>
    obtain ⟨k, v⟩ := e
    by_cases h : k = ip
    · simp only [Tbl.get, h, ↓reduceIte, Option.some.injEq] at hg
      subst hg
      simp only [Tbl.erase, h, ↓reduceIte]
      rw [cntp_cons]
      have := cntp_erase_le m t ip
      simp only [hm, ↓reduceIte]; omega
    · simp only [Tbl.get, h, ↓reduceIte] at hg
      simp only [Tbl.erase, h, ↓reduceIte]
      rw [cntp_cons, cntp_cons]
      have := ih hg
      omega

theorem cntp_set_le (m : Key → Bool) (t : Tbl IP Rec) (ip : IP) (r : Rec) :
    cntp m (Tbl.set t ip r) ≤ cntp m t + (if m r.key then 1 else 0) := by
  unfold Tbl.set
  rw [cntp_cons]
  have := cntp_erase_le m t ip
  dsimp only
  omega

/-- replacing a record by one that satisfies `m` only if the old one did does not raise the count -/
theorem cntp_set_le_of_get (m : Key → Bool) (t : Tbl IP Rec) (ip : IP) (r0 r : Rec) (hg : Tbl.get t ip = some r0)
    (himp : m r.key = true → m r0.key = true) : cntp m (Tbl.set t ip r) ≤ cntp m t := by
  unfold Tbl.set
  rw [cntp_cons]
  dsimp only
  by_cases h : m r.key = true
  · have := cntp_erase_lt m t ip r0 hg (himp h)
    simp only [h, ↓reduceIte]; omega
  · have := cntp_erase_le m t ip
    simp only [h]; simpa using this

/-! ### the pool predicate -/

/-- membership in pool `P` -/
def mP (P : String) : Key → Bool := fun k => k.pool == P

theorem poolKey_ne_empty (P : String) (hP : P ≠ "") : poolKey P ≠ Key.empty := by
  intro h
  have : (poolKey P).pool = Key.empty.pool := by rw [h]
  exact hP this

theorem hasPrefix_poolKey (k : Key) (P : String) (hP : P ≠ "") : k.hasPrefix (poolKey P) = mP P k := by
  unfold Key.hasPrefix
  rw [if_neg (poolKey_ne_empty P hP)]
  simp [poolKey, mP]

theorem cnt_eq (s : State) (P : String) (hP : P ≠ "") : cnt s P = cntp (mP P) s.alloc := by
  unfold cnt countPrefix cntp
  congr 1
  apply List.filter_congr
  intro e _
  exact hasPrefix_poolKey e.2.key P hP

theorem mP_poolPrefix (P : String) (k : Key) : mP P k.poolPrefix = mP P k := by
  unfold Key.poolPrefix mP
  by_cases h : k.pool ≠ ""
  · simp [h]
  · have h' : k.pool = "" := by simpa using h
    simp [h']

/-! ### store calls and memory updates -/

theorem memAlloc_cntp (m : Key → Bool) (s : State) (ip : IP) (r : Rec) :
    cntp m (memAlloc s ip r).alloc ≤ cntp m s.alloc + (if m r.key then 1 else 0) := cntp_set_le m s.alloc ip r

theorem memFree_cntp (m : Key → Bool) (s : State) (ip : IP) : cntp m (memFree s ip).alloc ≤ cntp m s.alloc :=
  cntp_erase_le m s.alloc ip

/-! ### IPAM functions -/

theorem allocateInSubnet_cntp (m : Key → Bool) (s : State) (key : Key) (n : Subnet) (a : Attr) (ch : Option IP) :
    cntp m (allocateInSubnet s key n a ch).1.alloc ≤ cntp m s.alloc + (if m key then 1 else 0) := by
  unfold allocateInSubnet
  dsimp only
  split
  · exact Nat.le_add_right _ _
  · split
    · exact Nat.le_add_right _ _
    · rename_i ip
      split
      · exact Nat.le_add_right _ _
      · have st := stCreate_step s ip (mkRec key a s.clock)
        split
        · rw [st.alloc]; exact Nat.le_add_right _ _
        · have := memAlloc_cntp m (stCreate s ip (mkRec key a s.clock)).1 ip (mkRec key a s.clock)
          rw [st.alloc] at this
          exact this

theorem allocateInSubnetWithKey_cntp (m : Key → Bool) (s : State) (oldK newK : Key) (n : Subnet) (a : Attr)
    (ch : Option IP) (himp : m newK = true → m oldK = true) :
    cntp m (allocateInSubnetWithKey s oldK newK n a ch).1.alloc ≤ cntp m s.alloc := by
  unfold allocateInSubnetWithKey
  dsimp only
  split
  · exact Nat.le_refl _
  · split
    · exact Nat.le_refl _
    · rename_i ip
      split
      · exact Nat.le_refl _
      · rename_i r hr
        split
        · exact Nat.le_refl _
        · rename_i hadm
          have hk : r.key = oldK := by
            simp only [Bool.not_eq_eq_eq_not, Bool.not_true, Bool.not_eq_false, Bool.and_eq_true,
              decide_eq_true_eq] at hadm
            exact hadm.1.1
          have st := stUpdate_step s ip (r.assign newK a s.clock)
          split
          · rw [st.alloc]; exact Nat.le_refl _
          · show cntp m (Tbl.set (stUpdate s ip (r.assign newK a s.clock)).1.alloc ip (r.assign newK a s.clock)) ≤ _
            rw [st.alloc]
            exact cntp_set_le_of_get m s.alloc ip r _ hr (by rw [hk]; exact himp)

theorem updateAttr_cntp (m : Key → Bool) (s : State) (key : Key) (ip : IP) (a : Attr) :
    cntp m (updateAttr s key ip a).1.alloc ≤ cntp m s.alloc := by
  unfold updateAttr
  split
  · exact Nat.le_refl _
  · rename_i r hr
    dsimp only
    split
    · exact Nat.le_refl _
    · have st := stUpdate_step s ip (r.assign r.key a s.clock)
      split
      · rw [st.alloc]; exact Nat.le_refl _
      · show cntp m (Tbl.set (stUpdate s ip (r.assign r.key a s.clock)).1.alloc ip (r.assign r.key a s.clock)) ≤ _
        rw [st.alloc]
        exact cntp_set_le_of_get m s.alloc ip r _ hr (fun h => h)

theorem release_cntp (m : Key → Bool) (s : State) (key : Key) (ip : IP) :
    cntp m (release s key ip).1.alloc ≤ cntp m s.alloc := by
  unfold release
  split
  · exact Nat.le_refl _
  · dsimp only
    split
    · exact Nat.le_refl _
    · have st := stDelete_step s ip
      split
      · rw [st.alloc]; exact Nat.le_refl _
      · have := memFree_cntp m (stDelete s ip).1 ip
        rw [st.alloc] at this
        exact this

theorem reserveLoop_cntp (m : Key → Bool) (oldK newK : Key) (a : Attr) (himp : m newK = true → m oldK = true)
    (ips : List IP) : ∀ s, cntp m (reserveLoop s oldK newK a ips).1.alloc ≤ cntp m s.alloc := by
  induction ips with
  | nil => intro s; exact Nat.le_refl _
  | cons ip t ih =>
    intro s
    unfold reserveLoop
    split
    · exact ih s
    · rename_i r hr
      dsimp only
      split
      · exact ih s
      · rename_i hk
        have hk' : r.key = oldK := by simpa using hk
        split
        · exact ih s
        · have st := stUpdate_step s ip (r.assign newK { a with policy := r.policy } s.clock)
          split
          · rw [st.alloc]; exact Nat.le_refl _
          · refine Nat.le_trans (ih _) ?_
            show cntp m (Tbl.set (stUpdate s ip (r.assign newK { a with policy := r.policy } s.clock)).1.alloc ip
              (r.assign newK { a with policy := r.policy } s.clock)) ≤ _
            rw [st.alloc]
            exact cntp_set_le_of_get m s.alloc ip r _ hr (by rw [hk']; exact himp)

theorem reserve_cntp (m : Key → Bool) (s : State) (oldK newK : Key) (a : Attr) (himp : m newK = true → m oldK = true) :
    cntp m (reserve s oldK newK a).1.alloc ≤ cntp m s.alloc := reserveLoop_cntp m oldK newK a himp _ s

theorem releaseIPsLoop_cntp (m : Key → Bool) (key : Key) (ips : List IP) :
    ∀ s, cntp m (releaseIPsLoop s key ips).1.alloc ≤ cntp m s.alloc := by
  induction ips with
  | nil => intro s; exact Nat.le_refl _
  | cons ip t ih =>
    intro s
    unfold releaseIPsLoop
    split
    · exact ih s
    · dsimp only
      split
      · exact ih s
      · have st := stDelete_step s ip
        split
        · rw [st.alloc]; exact Nat.le_refl _
        · refine Nat.le_trans (ih _) ?_
          have := memFree_cntp m (stDelete s ip).1 ip
          rw [st.alloc] at this
          exact this

theorem releaseIP_cntp (m : Key → Bool) (s : State) (key : Key) :
    cntp m (releaseIP s key).1.alloc ≤ cntp m s.alloc := releaseIPsLoop_cntp m key _ s

theorem memAllocAll_cntp (m : Key → Bool) (r : Rec) (hm : m r.key = false) :
    ∀ (l : List IP) (s : State), cntp m (memAllocAll s r l).alloc ≤ cntp m s.alloc := by
  intro l
  induction l with
  | nil => intro s; exact Nat.le_refl _
  | cons ip t ih =>
    intro s
    unfold memAllocAll
    refine Nat.le_trans (ih _) ?_
    have := memAlloc_cntp m s ip r
    simp only [hm] at this
    simpa using this

theorem deleteAll_alloc : ∀ (l : List IP) (s : State), (deleteAll s l).alloc = s.alloc := by
  intro l s
  exact (deleteAll_step l s).alloc

theorem createAll_alloc (r : Rec) : ∀ (todo done : List IP) (s : State), (createAll s r done todo).1.alloc = s.alloc := by
  intro todo
  induction todo with
  | nil => intro done s; rfl
  | cons ip t ih =>
    intro done s
    unfold createAll
    dsimp only
    have st := stCreate_step s ip r
    split
    · rw [deleteAll_alloc, st.alloc]
    · rw [ih, st.alloc]

/-- a multi-range allocation under a key outside the pool leaves the pool count alone -/
theorem allocateInSubnetsAndRanges_cntp (m : Key → Bool) (s : State) (key : Key) (n : Subnet)
    (rss : List (List (Nat × Nat))) (a : Attr) (ch : Option IP) (hm : m key = false) :
    cntp m (allocateInSubnetsAndRanges s key n rss a ch).1.alloc ≤ cntp m s.alloc := by
  unfold allocateInSubnetsAndRanges
  split
  · have := allocateInSubnet_cntp m s key n a ch
    simp only [hm] at this
    simpa using this
  · split
    · exact Nat.le_refl _
    · rename_i picks _
      dsimp only
      split
      · rw [createAll_alloc]; exact Nat.le_refl _
      · have := memAllocAll_cntp m (mkRec key a s.clock) hm picks (createAll s (mkRec key a s.clock) [] picks).1
        rw [createAll_alloc] at this
        exact this

/-! ### unbind -/

theorem unbindOther_cntp (m : Key → Bool) (s : State) (k : Key) (policy : Nat) :
    cntp m (unbindOther s k policy).1.alloc ≤ cntp m s.alloc := by
  unfold unbindOther
  split
  · exact releaseIP_cntp m s k
  · split
    · exact reserve_cntp m s k k {} (fun h => h)
    · split
      · split
        · exact Nat.le_refl _
        · split
          · exact releaseIP_cntp m s k
          · split
            · exact Nat.le_refl _
            · split
              · exact releaseIP_cntp m s k
              · exact reserve_cntp m s k k {} (fun h => h)
      · exact Nat.le_refl _

theorem unbindDp_cntp (P : String) (s : State) (k : Key) (policy : Nat) :
    cntp (mP P) (unbindDp s k policy).1.alloc ≤ cntp (mP P) s.alloc := by
  have himp : mP P k.poolPrefix = true → mP P k = true := by rw [mP_poolPrefix]; exact fun h => h
  unfold unbindDp
  dsimp only
  split
  · exact releaseIP_cntp _ s k
  · split
    · split
      · exact reserve_cntp _ s k _ {} himp
      · exact Nat.le_refl _
    · split
      · exact releaseIP_cntp _ s k
      · split
        · exact releaseIP_cntp _ s k
        · split
          · exact reserve_cntp _ s k _ {} himp
          · exact Nat.le_refl _

theorem unassignAll_alloc (l : List IP) (s : State) : (unassignAll s l).1.alloc = s.alloc :=
  (unassignAll_quiet l s).alloc

end Galaxy.PluginC07
