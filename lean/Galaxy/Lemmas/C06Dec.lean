/-
  C06 lemmas, part 11: decidable versions of the hypotheses and conclusions (to evaluate them on concrete states in
  the non-vacuity examples and counter theorems), and the property's wording "a pool listing a subnet that contains
  the node's address" for the fresh-pod statement.
-/
import Galaxy.Lemmas.C06Iff

namespace Galaxy.Plugin.C06
open Galaxy Galaxy.Plugin

/-- `Coherent` as a Boolean -/
def coherentB (s : State) : Bool :=
  (Tbl.keys s.alloc ++ Tbl.keys s.store).all (fun ip => Tbl.get s.store ip == Tbl.get s.alloc ip) &&
  s.free.all (fun ip => (Tbl.get s.alloc ip).isNone && configured s.pools ip) &&
  s.alloc.all (fun e => configured s.pools e.1) &&
  decide (Tbl.keys s.alloc).Nodup && decide (Tbl.keys s.store).Nodup

theorem get_none_of_not_mem_keys {α : Type} (t : Tbl IP α) (ip : IP) (h : ip ∉ Tbl.keys t) : Tbl.get t ip = none := by
  cases hg : Tbl.get t ip with
  | none => rfl
  | some v => exact absurd (Tbl.mem_keys_of_get hg) h

theorem coherent_of_b {s : State} (h : coherentB s = true) : Coherent s := by
  unfold coherentB at h
  simp only [Bool.and_eq_true, List.all_eq_true, decide_eq_true_eq, beq_iff_eq] at h
  obtain ⟨⟨⟨⟨h1, h2⟩, h3⟩, h4⟩, h5⟩ := h
  refine ⟨fun ip => ?_, fun ip hip => ?_, fun ip r hr => ?_, fun ip hip => (h2 ip hip).2, h4, h5⟩
  · by_cases hm : ip ∈ Tbl.keys s.alloc ++ Tbl.keys s.store
    · exact h1 ip hm
    · simp only [List.mem_append, not_or] at hm
      rw [get_none_of_not_mem_keys _ _ hm.1, get_none_of_not_mem_keys _ _ hm.2]
  · have := (h2 ip hip).1
    cases hg : Tbl.get s.alloc ip with
    | none => rfl
    | some v => rw [hg] at this; cases this
  · exact h3 (ip, r) (Tbl.get_mem hr)

/-- `CacheOK` as a Boolean -/
def cacheOKB (s : State) : Bool := s.nodeCache.all (fun e => nodeSubnetOfNode s e.1 == some e.2)

theorem cacheOK_of_b {s : State} (h : cacheOKB s = true) : CacheOK s := by
  intro n sn hn
  unfold cacheOKB at h
  rw [List.all_eq_true] at h
  simpa using h (n, sn) (Tbl.get_mem hn)

/-- `Scene` as a Boolean -/
def sceneB (s : State) (ns name : String) (pod : Pod) : Bool :=
  coherentB s && cacheOKB s && decide (Tbl.get s.pods (ns, name) = some pod) &&
    decide (Tbl.get s.vPods (ns, name) = some pod) && pod.wants && pod.node == ""

theorem scene_of_b {s : State} {ns name : String} {pod : Pod} (h : sceneB s ns name pod = true) : Scene s ns name pod := by
  unfold sceneB at h
  simp only [Bool.and_eq_true, decide_eq_true_eq] at h
  simp only [beq_iff_eq] at h
  exact ⟨coherent_of_b h.1.1.1.1.1, cacheOK_of_b h.1.1.1.1.2, h.1.1.1.2, h.1.1.2, h.1.2, h.2⟩

/-- `Routable` as a Boolean (meaningful under `WF`) -/
def routableB (s : State) (ip : IP) (node : String) : Bool :=
  match nodeSubnetOfNode s node with
  | some sn => hasSubnet s ip sn
  | none => false

theorem routable_iff_b {s : State} (hwf : wfConf s.pools = true) (ip : IP) (node : String) :
    Routable s ip node ↔ routableB s ip node = true := by
  rw [routable_iff hwf]
  unfold routableB
  cases h : nodeSubnetOfNode s node with
  | none => simp
  | some sn => simp

/-! ### the property's wording for "still has a free routable IP" -/

/-- of the addresses of the range list, a free one is routable from the node -/
def FreeInNode (s : State) (node : String) (rs : Ranges) : Prop :=
  ∃ ip, ip ∈ enumRanges rs ∧ ip ∈ s.free ∧ Routable s ip node

/-- "the node still has a free routable IP": per requested range list; without a request, any free address -/
def FreeRoutableNode (s : State) (node : String) (rss : List Ranges) : Prop :=
  if rss = [] then ∃ ip, ip ∈ s.free ∧ Routable s ip node else ∀ rs, rs ∈ rss → FreeInNode s node rs

theorem freeRoutableNode_iff {s : State} (hwf : wfConf s.pools = true) (node : String) (rss : List Ranges) :
    FreeRoutableNode s node rss ↔ ∃ sn, nodeSubnetOfNode s node = some sn ∧ FreeRoutable s sn rss := by
  unfold FreeRoutableNode FreeRoutable
  by_cases hr : rss = []
  · simp only [hr, if_true]
    constructor
    · rintro ⟨ip, hf, hrt⟩
      obtain ⟨sn, h1, h2⟩ := (routable_iff hwf ip node).mp hrt
      exact ⟨sn, h1, ip, hf, h2⟩
    · rintro ⟨sn, h1, ip, hf, h2⟩
      exact ⟨ip, hf, (routable_iff hwf ip node).mpr ⟨sn, h1, h2⟩⟩
  · simp only [hr, if_false]
    constructor
    · intro h
      cases hrs : rss with
      | nil => exact absurd hrs hr
      | cons r0 t =>
        obtain ⟨ip0, _, _, hrt0⟩ := h r0 (by rw [hrs]; simp)
        obtain ⟨sn, h1, _⟩ := (routable_iff hwf ip0 node).mp hrt0
        refine ⟨sn, h1, fun rs hm => ?_⟩
        obtain ⟨ip, hi, hf, hrt⟩ := h rs (by rw [hrs]; exact hm)
        obtain ⟨sn', h1', h2'⟩ := (routable_iff hwf ip node).mp hrt
        rw [h1] at h1'; cases h1'
        exact ⟨ip, hi, hf, h2'⟩
    · rintro ⟨sn, h1, h⟩ rs hm
      obtain ⟨ip, hi, hf, h2⟩ := h rs hm
      exact ⟨ip, hi, hf, (routable_iff hwf ip node).mpr ⟨sn, h1, h2⟩⟩

theorem toHInfo_ip (s : State) (ip : IP) : (toHInfo s ip).ip = ip := by
  unfold toHInfo; split <;> rfl

theorem hasSubnet_pools {s s' : State} (h : s'.pools = s.pools) (ip : IP) (sn : Subnet) :
    hasSubnet s' ip sn = hasSubnet s ip sn := by
  unfold hasSubnet; rw [h]

theorem configured_exists {ps : List Pool} {ip : IP} (h : configured ps ip = true) : ∃ p, p ∈ ps ∧ p.has ip = true := by
  unfold configured at h
  simpa using h

/-- the ipinfo of a configured address is that of THE pool containing it (pools pairwise disjoint) -/
theorem toHInfo_of_pool {s : State} (hd : poolsDisjoint s.pools = true) {ip : IP} {p : Pool} (hp : p ∈ s.pools)
    (hh : p.has ip = true) : toHInfo s ip = { ip := ip, bits := p.bits, gw := p.gateway, vlan := p.vlan } := by
  obtain ⟨q, hq⟩ := poolOf_isSome hp hh
  have := poolOf_unique hd hq hp hh
  subst this
  unfold toHInfo
  rw [hq]

end Galaxy.Plugin.C06
