/-
  C10 proofs, part 6: which moves change the KEY of a stored record, and how ("unassigned before it is freed or handed
  to a different owner"): unbind / resync / API release only release records or clear them (uid 0, no node); Filter
  re-keys only records of a bare deployment / pool prefix and sends no provider request; Bind changes no key.
-/
import Galaxy.Lemmas.C10Main

namespace Galaxy.PluginC10
open Galaxy Galaxy.Plugin

/-- there is a record -/
def isSomeRec : Option Rec → Prop := fun o => o ≠ none
/-- released, or cleared: no incarnation, no node -/
def ClearedAny : Option Rec → Prop := fun o => o = none ∨ ∃ r, o = some r ∧ r.uid = 0 ∧ r.node = ""

theorem cleared_any (k : Key) (o : Option Rec) (h : Cleared k o) : ClearedAny o := by
  rcases h with h | ⟨r, h1, _, h3, h4⟩ | ⟨r, h1, _, h3, h4⟩
  · exact Or.inl h
  · exact Or.inr ⟨r, h1, h4, h3⟩
  · exact Or.inr ⟨r, h1, h4, h3⟩

/-- every record that differs after the step was there before and is released or cleared now -/
def RChg (s s' : State) : Prop :=
  ∀ ip, Tbl.get s'.alloc ip = Tbl.get s.alloc ip ∨ (isSomeRec (Tbl.get s.alloc ip) ∧ ClearedAny (Tbl.get s'.alloc ip))

theorem RChg.refl (s : State) : RChg s s := fun _ => Or.inl rfl

theorem RChg.of_alloc_eq {s s' : State} (h : s'.alloc = s.alloc) : RChg s s' := fun _ => Or.inl (by rw [h])

theorem RChg.trans {a b c : State} (h1 : RChg a b) (h2 : RChg b c) : RChg a c := by
  intro ip
  rcases h1 ip with e1 | c1 <;> rcases h2 ip with e2 | c2
  · exact Or.inl (e2.trans e1)
  · exact Or.inr ⟨e1 ▸ c2.1, c2.2⟩
  · exact Or.inr ⟨c1.1, e2 ▸ c1.2⟩
  · exact Or.inr ⟨c1.1, c2.2⟩

theorem chgA_of_cleared {s s' : State} {k : Key} (c : Chg (hasKey k) (Cleared k) s s') : RChg s s' := by
  intro ip
  rcases c.recs ip with e | ⟨⟨r, hr, _⟩, hn⟩
  · exact Or.inl e
  · refine Or.inr ⟨?_, cleared_any k _ hn⟩
    rw [hr]; intro h; cases h

theorem chgA_quiet {s s' : State} (q : QuietStep s s') : RChg s s' := RChg.of_alloc_eq q.alloc

theorem unbind_chgA (F : Plugin.Facts) (s : State) (pod : Pod) : RChg s (unbind F s pod).1 := by
  unfold unbind
  try dsimp only
  split
  · exact RChg.refl s
  · have u := chgA_quiet (unassignAll_quiet (ipsOfKey s (keyOf pod)) s)
    split
    · exact u
    · split
      · exact u.trans (chgA_of_cleared (unbindDp_chgC _ _ _))
      · exact u.trans (chgA_of_cleared (unbindOther_chgC _ _ _))

theorem deliver_chgA (F : Plugin.Facts) (s : State) (i : Nat) : RChg s (deliver F s i).1 := by
  unfold deliver
  split
  · exact RChg.refl s
  · rename_i e _
    dsimp only
    have h1 : RChg s { s with events := s.events.eraseIdx i } := RChg.of_alloc_eq rfl
    have h2 := h1.trans (unbind_chgA F _ e.pod)
    split
    · exact h2
    · split
      · exact h2
      · exact h2.trans (RChg.of_alloc_eq rfl)

theorem resyncAct_chgA (s : State) (ip : IP) (k : Key) (r : Rec) : RChg s (resyncAct s ip k r) := by
  unfold resyncAct
  split
  · have pu := chgA_quiet (provUnassign_quiet s r.node ip)
    split
    · exact pu
    · have rs := pu.trans (chgA_of_cleared (reserveSelf_chgC _ k))
      split
      · exact rs.trans (chgA_of_cleared (unbindDp_chgC _ _ _))
      · exact rs.trans (chgA_of_cleared (unbindOther_chgC _ _ _))
  · split
    · exact chgA_of_cleared (unbindDp_chgC _ _ _)
    · exact chgA_of_cleared (unbindOther_chgC _ _ _)

theorem resyncOne_chgA (F : Plugin.Facts) (s : State) (ip : IP) (r0 : Rec) : RChg s (resyncOne F s ip r0) := by
  unfold resyncOne
  split
  · exact RChg.refl s
  · rename_i r _
    split
    · exact RChg.refl s
    · have pr := chgA_quiet (podRunning_quiet F s r0.key.pod r0.key.ns r.uid).1
      split
      · exact pr
      · have ko := pr.trans (chgA_quiet (keyOwned_quiet F (podRunning F s r0.key.pod r0.key.ns r.uid).1 r0.key r.uid).1)
        split
        · exact ko
        · exact ko.trans (resyncAct_chgA _ ip r0.key r)

theorem resyncLoop_chgA (F : Plugin.Facts) (snap : Tbl IP Rec) : ∀ (l : List IP) (s : State),
    RChg s (resyncLoop F snap s l) := by
  intro l
  induction l with
  | nil => intro s; exact RChg.refl s
  | cons ip t ih =>
    intro s
    unfold resyncLoop
    split
    · exact ih s
    · exact (resyncOne_chgA F s ip _).trans (ih _)

theorem resync_chgA (F : Plugin.Facts) (s : State) (order : List IP) : RChg s (resync F s order).1 := by
  unfold resync
  dsimp only
  split
  · exact RChg.refl s
  · exact resyncLoop_chgA F _ order s

theorem releasePre_chgA (s : State) (node : String) (ip : IP) (k : Key) : RChg s (releasePre s node ip k).1 := by
  unfold releasePre
  split
  · have pu := chgA_quiet (provUnassign_quiet s node ip)
    split
    · exact pu
    · exact pu.trans (chgA_of_cleared (reserveSelf_chgC _ k))
  · exact RChg.refl s

theorem releaseAct_chgA (F : Plugin.Facts) (s : State) (ip : IP) (k : Key) (uid : Nat) (node : String) :
    RChg s (releaseAct F s ip k uid node).1 := by
  unfold releaseAct
  have ko := chgA_quiet (keyOwned_quiet F s k uid).1
  split
  · exact ko
  · generalize (keyOwnedByRunningPod F s k uid).1 = t at ko ⊢
    have rp := ko.trans (releasePre_chgA t node ip k)
    generalize releasePre t node ip k = x at rp ⊢
    split
    · exact rp.trans (chgA_of_cleared (release_chgC x.1 k ip))
    · exact rp

theorem apiRelease_chgA (F : Plugin.Facts) (s : State) (ip : IP) (k : Key) : RChg s (apiRelease F s ip k).1 := by
  unfold apiRelease
  split
  · exact RChg.refl s
  · have pr := chgA_quiet (podRunning_quiet F s k.pod k.ns (((Tbl.get s.alloc ip).map (·.uid)).getD 0)).1
    split
    · exact pr
    · exact pr.trans (releaseAct_chgA F _ ip k _ _)

/-- Filter changes only free addresses and records of a bare deployment / pool prefix -/
theorem filter_chgP (s : State) (hc : Coherent s) (ns name : String) (nodes : List String) (ch : Choice) :
    ∀ ip r, Tbl.get s.alloc ip = some r → Tbl.get (Plugin.filter s ns name nodes ch).1.alloc ip ≠ some r → r.key.pod = "" := by
  intro ip r hr hne
  unfold Plugin.filter at hne
  split at hne
  · exact absurd hr hne
  · rename_i pod _
    split at hne
    · exact absurd hr hne
    · dsimp only at hne
      have key : Tbl.get (getSubnet s pod ch).1.alloc ip ≠ some r → r.key.pod = "" := by
        intro hne'
        rcases getSubnet_state s pod ch with e | ⟨resv, n, e⟩
        · rw [e] at hne'; exact absurd hr hne'
        · rw [e] at hne'
          rcases (allocateDuringFilter_chg s (keyOf pod) resv n _ ch.pick hc).recs ip with e' | ⟨ho, _⟩
          · rw [e'] at hne'; exact absurd hr hne'
          · rcases ho with ho | ⟨r0, hr0, hk0⟩
            · rw [hr] at ho; cases ho
            · rw [hr] at hr0; cases hr0; rw [hk0]; exact poolPrefix_pod _
      split at hne
      · exact absurd hr hne
      · exact key hne
      · rename_i set _
        rw [(filterNodes_quiet set nodes [] (getSubnet s pod ch).1).1.alloc] at hne
        exact key hne

theorem preempt_chgP (s : State) (hc : Coherent s) (ns name : String) (nodes : List String) (ch : Choice) :
    ∀ ip r, Tbl.get s.alloc ip = some r → Tbl.get (Plugin.preempt s ns name nodes ch).1.alloc ip ≠ some r → r.key.pod = "" := by
  intro ip r hr hne
  unfold Plugin.preempt at hne
  split at hne
  · exact absurd hr hne
  · rename_i pod _
    split at hne
    · exact absurd hr hne
    · have key : Tbl.get (getSubnet s pod ch).1.alloc ip ≠ some r → r.key.pod = "" := by
        intro hne'
        rcases getSubnet_state s pod ch with e | ⟨resv, n, e⟩
        · rw [e] at hne'; exact absurd hr hne'
        · rw [e] at hne'
          rcases (allocateDuringFilter_chg s (keyOf pod) resv n _ ch.pick hc).recs ip with e' | ⟨ho, _⟩
          · rw [e'] at hne'; exact absurd hr hne'
          · rcases ho with ho | ⟨r0, hr0, hk0⟩
            · rw [hr] at ho; cases ho
            · rw [hr] at hr0; cases hr0; rw [hk0]; exact poolPrefix_pod _
      split at hne
      · exact absurd hr hne
      · exact key hne
      · rename_i set _
        rw [(filterNodes_quiet set nodes [] (getSubnet s pod ch).1).1.alloc] at hne
        exact key hne

theorem filter_plog' (s : State) (ns name : String) (nodes : List String) (ch : Choice) :
    (Plugin.filter s ns name nodes ch).1.plog = s.plog := filter_plog s ns name nodes ch

/-- Bind changes no key: it allocates free addresses and updates records of its own key in place -/
theorem bind_keys (s : State) (hc : Coherent s) (hcm : s.crashMode = false) (ns name : String) (uid : Nat) (node : String) (ch : Choice) :
    ∀ ip r r', Tbl.get s.alloc ip = some r → Tbl.get (Plugin.bind Facts.good s ns name uid node ch).1.alloc ip = some r' →
      r'.key = r.key := by
  intro ip r r' hr hr'
  have same : Tbl.get s.alloc ip = some r' → r'.key = r.key := fun h => by rw [hr] at h; cases h; rfl
  unfold Plugin.bind at hr'
  split at hr'
  · exact same hr'
  · rename_i pod hpod
    split at hr'
    · exact same hr'
    · split at hr'
      · exact same hr'
      · split at hr'
        · exact same hr'
        · rename_i infos hinf
          split at hr'
          · exact same hr'
          · have hshape : infos = byKeyAndRanges s (keyOf pod) pod.ranges ∨ (pod.ranges.isEmpty = true ∧ ¬ infos.isEmpty = true) := by
              unfold bindInfos at hinf
              split at hinf
              · rename_i hcnd
                right
                simp only [Bool.and_eq_true] at hcnd
                refine ⟨hcnd.1, ?_⟩
                cases hp : pickFirst (byKeyAndRanges s (keyOf pod) pod.ranges) ch.first with
                | none => rw [hp] at hinf; simp at hinf
                | some j => rw [hp] at hinf; simp at hinf; subst hinf; simp
              · left; simpa using hinf.symm
            have spec := bindAlloc_spec s pod node (policyOf pod) infos ch.pick hc hshape
            generalize bindAlloc s pod node { policy := policyOf pod, node := node, uid := pod.uid } infos ch.pick = ba at *
            -- the record survives the allocation step unchanged
            have hb : Tbl.get ba.1.alloc ip = some r := by
              rcases spec.chg.recs ip with e | ⟨hfree, _⟩
              · rw [e]; exact hr
              · rw [hr] at hfree; cases hfree
            have loop : ∀ r'', Tbl.get (bindLoop ba.1 (keyOf pod) node { policy := policyOf pod, node := node, uid := pod.uid }
                (infos.filterMap id) (ba.2.2.filterMap id)).1.alloc ip = some r'' → r''.key = r.key := by
              intro r'' hr''
              have lspec := bindLoop_spec (keyOf pod) node { policy := policyOf pod, node := node, uid := pod.uid }
                (infos.filterMap id) (ba.2.2.filterMap id) ba.1 (spec.coherent (Or.inl hcm))
              rcases lspec.2.1.recs ip with e | ⟨⟨r0, hr0, hk0⟩, ⟨r1, hr1, hk1, _⟩⟩
              · rw [e, hb] at hr''; cases hr''; rfl
              · rw [hb] at hr0; cases hr0
                rw [hr''] at hr1; cases hr1
                rw [hk1, hk0]
            split at hr'
            · exact same hr'
            · rw [hb] at hr'; cases hr'; rfl
            · split at hr'
              · rcases bindFinish_good_state (bindLoop ba.1 (keyOf pod) node { policy := policyOf pod, node := node, uid := pod.uid }
                    (infos.filterMap id) (ba.2.2.filterMap id)).1 pod ns name uid node (ba.2.2.filterMap id) ch.answer with e | e
                · rw [e] at hr'
                  exact loop r' (by rw [← (api_quiet _).alloc]; exact hr')
                · rw [e, (bindCommit_eff _ pod ns name uid node _).1] at hr'
                  exact loop r' hr'
              · exact loop r' hr'

/-- "an IP is unassigned before it is freed or handed to a different owner", for one move -/
theorem freed_or_rekeyed_step (s : State) (m : Move) (h : Inv10 s) (ha : assumedAll s m = true) (ip : IP) (r : Rec)
    (hr : Tbl.get s.alloc ip = some r)
    (hch : Tbl.get (step Facts.good s m).1.alloc ip = none ∨
      ∃ r', Tbl.get (step Facts.good s m).1.alloc ip = some r' ∧ r'.key ≠ r.key) :
    Tbl.get (prov (step Facts.good s m).1) ip = none := by
  have h' := inv10_step s m h ha
  rcases hch with hnone | ⟨r', hr', hk⟩
  · exact (h'.core.j ip).unassigned_of_free hnone
  · have same : Tbl.get (step Facts.good s m).1.alloc ip = Tbl.get s.alloc ip → False := by
      intro e; rw [e, hr] at hr'; cases hr'; exact hk rfl
    have cleared : RChg s (step Facts.good s m).1 → Tbl.get (prov (step Facts.good s m).1) ip = none := by
      intro c
      rcases c ip with e | ⟨_, hn⟩
      · exact absurd e same
      · rcases hn with hn | ⟨r1, h1, _, h3⟩
        · rw [hn] at hr'; cases hr'
        · exact (h'.core.j ip).unassigned_of_node r1 h1 h3
    obtain ⟨_, ha2⟩ := Bool.and_eq_true_iff.mp ha
    cases m with
    | createPod ns name kind app pool policy ranges wants => exfalso; apply same; dsimp only [step]; split <;> rfl
    | deletePod ns name => exfalso; apply same; dsimp only [step]; split <;> rfl
    | finishPod ns name =>
      exfalso; apply same; dsimp only [step]
      split
      · rfl
      · split <;> rfl
    | markTerminating ns name fault =>
      exfalso; apply same; dsimp only [step]
      cases hp : Tbl.get s.pods (ns, name) with
      | none => rfl
      | some p =>
        dsimp only
        obtain ⟨_, pu0, _, pwf⟩ := h.base.podsWF (ns, name) p hp
        split
        · rfl
        · split
          · rfl
          · split
            · rfl
            · split
              · have c0 : Core (withFaults { s with pods := s.pods.set (ns, name) { p with terminating := true } } fault 0) :=
                  h.core.of_eq rfl rfl rfl rfl rfl rfl
                have hk : (keyOf { p with terminating := true }).pod ≠ "" := by
                  show (keyOf p).pod ≠ ""
                  rw [(keyOf_fields p pwf).2]; exact pwf.2.1
                rw [hr]
                exact (syncIPs_core { p with terminating := true } hk pu0 p.ips _ c0).2.2 ip r hr
              · rfl
    | runPod ns name =>
      exfalso; apply same; dsimp only [step]
      split
      · rfl
      · split <;> rfl
    | scale kind ns app n => exact absurd rfl same
    | deleteApp kind ns app => exact absurd rfl same
    | setPool name size => exfalso; apply same; dsimp only [step]; split <;> rfl
    | listerSync pods apps => exfalso; apply same; dsimp only [step]; split <;> split <;> rfl
    | fipSync => exact absurd rfl same
    | dropEvent i => exfalso; apply same; dsimp only [step]; split <;> rfl
    | filter ns name nodes ch fault =>
      have hc0 : Coherent (withFaults s fault 0) := coherent_of_eq h.core.coh rfl rfl rfl rfl
      have hp := filter_chgP (withFaults s fault 0) hc0 ns name nodes ch ip r hr
        (fun e => by
          have : Tbl.get (step Facts.good s (.filter ns name nodes ch fault)).1.alloc ip = some r := e
          rw [this] at hr'; cases hr'; exact hk rfl)
      have hnode := (h.core.j ip).2 r hr (Or.inl hp)
      have hun := (h.core.j ip).unassigned_of_node r hr hnode
      have hpl : (step Facts.good s (.filter ns name nodes ch fault)).1.plog = s.plog :=
        filter_plog' (withFaults s fault 0) ns name nodes ch
      unfold prov at hun ⊢
      rw [hpl]; exact hun
    | bind ns name uid node ch fault pfault =>
      have hc0 : Coherent (withFaults s fault pfault) := coherent_of_eq h.core.coh rfl rfl rfl rfl
      exact absurd (bind_keys (withFaults s fault pfault) hc0 rfl ns name uid node ch ip r r' hr hr') hk
    | deliver i fault pfault =>
      exact cleared ((RChg.of_alloc_eq (s' := withFaults s fault pfault) rfl).trans (deliver_chgA _ _ i))
    | resync order fault pfault =>
      exact cleared ((RChg.of_alloc_eq (s' := withFaults s fault pfault) rfl).trans (resync_chgA _ _ order))
    | syncPodIPs fault =>
      have c0 : Core (withFaults s fault 0) := h.core.of_eq rfl rfl rfl rfl rfl rfl
      have := (syncPods_core _ (withFaults s fault 0) (lister_vals s h.base) c0).2.2 ip r hr
      have e : Tbl.get (step Facts.good s (.syncPodIPs fault)).1.alloc ip = some r := this
      rw [e] at hr'; cases hr'; exact absurd rfl hk
    | apiRelease ip' k fault pfault =>
      exact cleared ((RChg.of_alloc_eq (s' := withFaults s fault pfault) rfl).trans (apiRelease_chgA _ _ ip' k))
    | reload pools fault => simp [assumed10] at ha2
    | restart =>
      have ho : s.orphans = [] := by simpa [assumed10] using ha2
      have c0 : Core (withFaults s 0 0) := h.core.of_eq rfl rfl rfl rfl rfl rfl
      exact absurd ((restart_same (withFaults s 0 0) c0.coh ho).1 ip) same
    | resyncSnap => exact absurd rfl same
    | resyncRec ip' fault pfault =>
      apply cleared
      dsimp only [step]
      split
      · exact RChg.refl s
      · split
        · exact RChg.refl s
        · exact ((RChg.of_alloc_eq (s' := withFaults s fault pfault) rfl).trans (resyncOne_chgA _ _ ip' _)).trans
            (RChg.of_alloc_eq rfl)
    | preempt ns name nodes ch fault =>
      have hc0 : Coherent (withFaults s fault 0) := coherent_of_eq h.core.coh rfl rfl rfl rfl
      have hp := preempt_chgP (withFaults s fault 0) hc0 ns name nodes ch ip r hr
        (fun e => by
          have : Tbl.get (step Facts.good s (.preempt ns name nodes ch fault)).1.alloc ip = some r := e
          rw [this] at hr'; cases hr'; exact hk rfl)
      have hnode := (h.core.j ip).2 r hr (Or.inl hp)
      have hun := (h.core.j ip).unassigned_of_node r hr hnode
      have hpl : (step Facts.good s (.preempt ns name nodes ch fault)).1.plog = s.plog :=
        preempt_plog (withFaults s fault 0) ns name nodes ch
      unfold prov at hun ⊢
      rw [hpl]; exact hun
    | adminReserve ip' text policy =>
      exfalso; apply same
      dsimp only [step]
      split
      · rfl
      · split
        · rfl
        · rename_i _ hfree
          have hin : ip' ∈ s.free := by simpa using hfree
          have hnone : Tbl.get s.alloc ip' = none := h.core.coh.disjoint ip' hin
          show Tbl.get (Tbl.set s.alloc ip' _) ip = _
          rw [Tbl.get_set]
          by_cases hij : ip' = ip
          · rw [hij, hr] at hnone; cases hnone
          · rw [if_neg hij]
    | adminUnreserve ip' =>
      exfalso; apply same
      dsimp only [step]
      split
      · rfl
      · split
        · rfl
        · show Tbl.get (Tbl.erase s.alloc ip') ip = _
          rw [Tbl.get_erase]
          by_cases hij : ip' = ip
          · exfalso
            have : Tbl.get (step Facts.good s (.adminUnreserve ip')).1.alloc ip = none := by
              dsimp only [step]
              rename_i r0 hr0 hres
              rw [hr0]
              dsimp only
              rw [if_neg hres]
              show Tbl.get (Tbl.erase s.alloc ip') ip = none
              rw [Tbl.get_erase, if_pos hij]
            rw [this] at hr'; cases hr'
          · rw [if_neg hij]

end Galaxy.PluginC10
