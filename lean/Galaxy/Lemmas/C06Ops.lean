/-
  C06 lemmas, part 4: the IPAM operations Bind and Filter use SUCCEED when nothing else changes
  (no injected apiserver / provider fault, memory and store coherent).
-/
import Galaxy.Lemmas.PluginMulti
import Galaxy.Lemmas.C06Wf

namespace Galaxy.Plugin.C06
open Galaxy Galaxy.Plugin

/-- "provider and API faults excluded": the move runs without an injected fault -/
structure NoFault (s : State) : Prop where
  fault : s.fault = 0
  pfault : s.pfault = 0

theorem NoFault.spent {s : State} (h : NoFault s) : FaultSpent s := Or.inl h.fault

theorem NoFault.of_frame {s s' : State} (h : NoFault s) (f : Frame s s') : NoFault s' :=
  ⟨f.fault.trans h.fault, f.pfault.trans h.pfault⟩

theorem api_ok {s : State} (h : NoFault s) : s.api.2 = false := api_ok_of_spent h.spent

/-! ### store calls -/

theorem stUpdate_ok {s : State} (h : NoFault s) (ip : IP) (r : Rec) (hs : (Tbl.get s.store ip).isSome = true) :
    (stUpdate s ip r).2 = true := by
  unfold stUpdate
  dsimp only
  have h1 := api_ok h
  have h2 : s.api.1.api.2 = false := api_ok (h.of_frame (api_frame s))
  cases hg : Tbl.get s.store ip with
  | none => simp [hg] at hs
  | some v => simp [h1, h2, hg]

theorem stCreate_cache (s : State) (ip : IP) (r : Rec) : (stCreate s ip r).1.nodeCache = s.nodeCache := by
  unfold stCreate
  dsimp only
  split
  · rfl
  · split <;> rfl

theorem stUpdate_cache (s : State) (ip : IP) (r : Rec) : (stUpdate s ip r).1.nodeCache = s.nodeCache := by
  unfold stUpdate
  dsimp only
  split
  · rfl
  · split
    · rfl
    · split <;> rfl

/-! ### provider -/

theorem provAssign_ok {s : State} (h : NoFault s) (node : String) (ip : IP) : (provAssign s node ip).2 = true := by
  unfold provAssign
  split
  · rfl
  · simp [h.pfault]

theorem provAssign_frame (s : State) (node : String) (ip : IP) : Frame s (provAssign s node ip).1 := by
  unfold provAssign
  split
  · exact Frame.refl s
  · split
    · exact Frame.refl s
    · exact ⟨rfl, rfl, rfl, rfl, rfl, rfl, rfl, rfl, rfl, rfl, rfl, rfl, rfl, rfl, Nat.le_refl _, rfl⟩

theorem provAssign_alloc (s : State) (node : String) (ip : IP) : (provAssign s node ip).1.alloc = s.alloc := by
  unfold provAssign; split <;> (try split) <;> rfl

theorem provAssign_store (s : State) (node : String) (ip : IP) : (provAssign s node ip).1.store = s.store := by
  unfold provAssign; split <;> (try split) <;> rfl

theorem provAssign_free (s : State) (node : String) (ip : IP) : (provAssign s node ip).1.free = s.free := by
  unfold provAssign; split <;> (try split) <;> rfl

theorem provAssign_coherent {s : State} (h : Coherent s) (node : String) (ip : IP) : Coherent (provAssign s node ip).1 :=
  coherent_of_eq h (provAssign_frame s node ip).pools (provAssign_alloc s node ip) (provAssign_store s node ip)
    (provAssign_free s node ip)

/-! ### UpdateAttr -/

theorem updateAttr_succeeds {s : State} (hc : Coherent s) (hf : NoFault s) (k : Key) (ip : IP) (a : Attr) (r : Rec)
    (hg : Tbl.get s.alloc ip = some r) (hk : r.key = k) : (updateAttr s k ip a).2 = .ok := by
  unfold updateAttr
  simp only [hg]
  have hs : (Tbl.get s.store ip).isSome = true := by rw [hc.agree, hg]; rfl
  simp [hk, stUpdate_ok hf ip _ hs]

/-- after UpdateAttr every address keeps the key it had -/
theorem updateAttr_keeps_key (s : State) (k : Key) (ip : IP) (a : Attr) (j : IP) (k' : Key)
    (h : ∃ r, Tbl.get s.alloc j = some r ∧ r.key = k') :
    ∃ r, Tbl.get (updateAttr s k ip a).1.alloc j = some r ∧ r.key = k' := by
  have st := stUpdate_step
  unfold updateAttr
  split
  · exact h
  · rename_i r0 hr0
    dsimp only
    split
    · exact h
    · split
      · rw [(st s ip _).alloc]; exact h
      · show ∃ r, Tbl.get (Tbl.set (stUpdate s ip _).1.alloc ip _) j = some r ∧ r.key = k'
        rw [(st s ip _).alloc, Tbl.get_set]
        by_cases e : ip = j
        · subst e
          obtain ⟨r, hr, hrk⟩ := h
          rw [hr0] at hr; cases hr
          simp [Rec.assign, hrk]
        · simp [e]; exact h

/-! ### AllocateInSubnet -/

/-- the candidates of `AllocateInSubnet` -/
def cands (s : State) (n : Subnet) : List IP := s.free.filter (fun ip => hasSubnet s ip n)

theorem mem_cands (s : State) (n : Subnet) (ip : IP) : ip ∈ cands s n ↔ ip ∈ s.free ∧ hasSubnet s ip n = true := by
  simp [cands]

/-- AllocateInSubnet with a candidate at hand: ok for an admissible pick, otherwise the pick is inadmissible;
    never an error -/
theorem allocateInSubnet_cases {s : State} (hc : Coherent s) (hf : NoFault s) (k : Key) (n : Subnet) (a : Attr)
    (pick : Option IP) (hne : cands s n ≠ []) :
    ((allocateInSubnet s k n a pick).2 = .inadmissible ∧ ¬ ∃ ip, pick = some ip ∧ ip ∈ cands s n) ∨
    (∃ ip, pick = some ip ∧ ip ∈ cands s n ∧ (allocateInSubnet s k n a pick).2 = .ok ∧
      (allocateInSubnet s k n a pick).1.alloc = Tbl.set s.alloc ip (mkRec k a s.clock)) := by
  unfold allocateInSubnet
  have hne' : (List.filter (fun ip => hasSubnet s ip n) s.free).isEmpty = false := by
    cases hh : List.filter (fun ip => hasSubnet s ip n) s.free with
    | nil => exact absurd hh hne
    | cons _ _ => rfl
  simp only [hne', Bool.false_eq_true, if_false]
  cases pick with
  | none => left; exact ⟨rfl, by simp⟩
  | some ip =>
    by_cases hm : ip ∈ cands s n
    · right
      have hm' : (List.filter (fun ip => hasSubnet s ip n) s.free).contains ip = true := by
        simpa [cands] using hm
      have hfree := ((mem_cands s n ip).mp hm).1
      have hst : Tbl.get s.store ip = none := by rw [hc.agree]; exact hc.disjoint ip hfree
      have hok := stCreate_ok_of_spent s ip (mkRec k a s.clock) hf.spent hst
      refine ⟨ip, rfl, hm, ?_, ?_⟩
      · simp only [hm', Bool.not_true, Bool.false_eq_true, if_false, hok]
      · simp only [hm', Bool.not_true, Bool.false_eq_true, if_false, hok]
        show Tbl.set (stCreate s ip _).1.alloc ip _ = _
        rw [(stCreate_step s ip _).alloc]
    · left
      have hm' : (List.filter (fun ip => hasSubnet s ip n) s.free).contains ip = false := by
        simpa [cands] using hm
      refine ⟨by simp only [hm', Bool.not_false, if_true], ?_⟩
      rintro ⟨j, hj, hjm⟩
      cases hj; exact hm hjm

theorem allocateInSubnet_cache (s : State) (k : Key) (n : Subnet) (a : Attr) (pick : Option IP) :
    (allocateInSubnet s k n a pick).1.nodeCache = s.nodeCache := by
  unfold allocateInSubnet
  dsimp only
  split
  · rfl
  · split
    · rfl
    · split
      · rfl
      · split
        · exact stCreate_cache _ _ _
        · show (stCreate s _ _).1.nodeCache = _
          exact stCreate_cache _ _ _

/-- a successful AllocateInSubnet: a free address of a pool listing the subnet is now stored under the key -/
theorem allocateInSubnet_ok {s : State} (k : Key) (n : Subnet) (a : Attr) (pick : Option IP)
    (h : (allocateInSubnet s k n a pick).2 = .ok) :
    ∃ ip, ip ∈ s.free ∧ hasSubnet s ip n = true ∧
      (allocateInSubnet s k n a pick).1.alloc = Tbl.set s.alloc ip (mkRec k a s.clock) := by
  unfold allocateInSubnet at h ⊢
  dsimp only at h ⊢
  split at h
  · cases h
  · split at h
    · cases h
    · rename_i ip
      split at h
      · cases h
      · rename_i hm
        split at h
        · cases h
        · rename_i hok
          have hm' : ip ∈ cands s n := by simpa [cands] using hm
          have := (mem_cands s n ip).mp hm'
          refine ⟨ip, this.1, this.2, ?_⟩
          rename_i hne _
          simp only [hne, hm, hok, Bool.false_eq_true, if_false]
          show Tbl.set (stCreate s ip _).1.alloc ip _ = _
          rw [(stCreate_step s ip _).alloc]

/-! ### AllocateInSubnetWithKey -/

theorem allocateInSubnetWithKey_cache (s : State) (o k : Key) (n : Subnet) (a : Attr) (pick : Option IP) :
    (allocateInSubnetWithKey s o k n a pick).1.nodeCache = s.nodeCache := by
  unfold allocateInSubnetWithKey
  dsimp only
  split
  · rfl
  · split
    · rfl
    · split
      · rfl
      · split
        · rfl
        · split
          · exact stUpdate_cache _ _ _
          · show (stUpdate s _ _).1.nodeCache = _
            exact stUpdate_cache _ _ _

/-- a successful AllocateInSubnetWithKey: an address of a pool listing the subnet is re-keyed -/
theorem allocateInSubnetWithKey_ok {s : State} (o k : Key) (n : Subnet) (a : Attr) (pick : Option IP)
    (h : (allocateInSubnetWithKey s o k n a pick).2 = .ok) :
    ∃ ip r, Tbl.get s.alloc ip = some r ∧ hasSubnet s ip n = true ∧
      (allocateInSubnetWithKey s o k n a pick).1.alloc = Tbl.set s.alloc ip (r.assign k a s.clock) := by
  unfold allocateInSubnetWithKey at h ⊢
  dsimp only at h ⊢
  split at h
  · cases h
  · split at h
    · cases h
    · rename_i ip
      split at h
      · cases h
      · rename_i r hr
        split at h
        · cases h
        · rename_i hm
          split at h
          · cases h
          · rename_i hok
            have hm' : r.key = o ∧ hasSubnet s ip n = true := by
              cases h1 : decide (r.key = o) with
              | false => simp [h1] at hm
              | true =>
                cases h2 : hasSubnet s ip n with
                | false => simp [h2] at hm
                | true => exact ⟨by simpa using h1, rfl⟩
            refine ⟨ip, r, hr, hm'.2, ?_⟩
            rename_i hne _ _
            simp only [hne, hr, hm, hok, Bool.false_eq_true, if_false]
            show Tbl.set (stUpdate s ip _).1.alloc ip _ = _
            rw [(stUpdate_step s ip _).alloc]

end Galaxy.Plugin.C06
