/-
  `Inv`, part 3: reload, restart, admin moves, event delivery; `Inv` is preserved by `step` and holds in every reachable
  state; it implies `Agree`.
-/
import Galaxy.Lemmas.IpamInv2

namespace Galaxy.Ipam
open Tbl

/-- what `step` does after the operation proper -/
def finish (s0 s1 : State) : State :=
  { s1 with pending := s1.pending ++ storeEvents s0.store s1.store, clock := s0.clock + 1 }

theorem step_eq_finish (s : State) (op : Op) : (step s op).1 = finish s (afterCrash (op.run s)) := rfl

theorem pend_finish (s0 s1 : State) (ip : IP) :
    pend (finish s0 s1) ip = pend s1 ip ++ (storeEvents s0.store s1.store).filter (fun e => e.ip == ip) := by
  simp [pend, finish, List.filter_append]

theorem pinv_finish_loc {s s1 : State} (h : PInv s) (hpools : s1.pools = s.pools) (hpend : s1.pending = s.pending)
    (hloc : ∀ ip, LocD (s.alloc.get ip) (s.store.get ip) (s1.alloc.get ip) (s1.store.get ip)) : PInv (finish s s1) := by
  intro ip
  show PAt (configured s1.pools ip) (pend (finish s s1) ip) (s1.alloc.get ip) (s1.store.get ip)
  have hp : pend s1 ip = pend s ip := by simp [pend, hpend]
  rw [pend_finish, hpools, hp]
  exact pat_local (h ip) (hloc ip) (newEv_storeEvents _ _ ip)

/-! ## restart: fresh caches, no pending events -/

theorem pat_fresh {ip : IP} {c' : Bool} {stOld v st' : Option Rec} {N : List Event}
    (hst : st' = v ∨ (st' = none ∧ c' = false)) (hN : NewEv ip stOld st' N) :
    PAt c' N (if c' = true then v else none) st' := by
  by_cases hl : N = []
  · subst hl
    rw [pat_nil]
    intro hc
    rcases hst with h | ⟨_, h⟩
    · rw [if_pos hc, h]; exact optEq_refl _
    · rw [hc] at h; cases h
  · by_cases hu : lastIsU N = true
    · -- a delete event is among the new events: the store entry is gone
      have hnone : st' = none := by
        unfold lastIsU at hu
        cases hg : N.getLast? with
        | none => rw [hg] at hu; cases hu
        | some x =>
          rw [hg] at hu
          have hx := List.mem_of_getLast? hg
          exact (hN.dels x hx (by simpa using hu)).2
      rw [pat_lastU hl hu]
      refine ⟨fun r0 k => (by rw [hnone] at k; cases k), fun hc => Or.inl ⟨hnone, ?_⟩⟩
      intro r hr
      rcases hst with h | ⟨_, h⟩
      · rw [if_pos hc, ← h, hnone] at hr; cases hr
      · rw [hc] at h; cases h
    · have hu' : lastIsU N = false := by simpa using hu
      rw [pat_addShape hl hu']
      -- the last event is an add event, so the object is there and every new event is that add event
      have hlast : ∃ x ∈ N, x.assign = true := by
        unfold lastIsU at hu'
        cases hg : N.getLast? with
        | none => exact absurd (List.getLast?_eq_none_iff.mp hg) hl
        | some x => rw [hg] at hu'; exact ⟨x, List.mem_of_getLast? hg, by simpa using hu'⟩
      obtain ⟨x, hx, hxa⟩ := hlast
      obtain ⟨r, k1, k2, k3, _⟩ := hN.adds x hx hxa
      obtain ⟨_, hall⟩ := hN.allA_of k1 k2 k3
      refine ⟨addEvent ip r, r, hall, k1, k2, fun hc => Or.inr ?_⟩
      rcases hst with h | ⟨_, h⟩
      · rw [if_pos hc, h]; exact optEq_refl _
      · rw [hc] at h; cases h

theorem pend_restart (s : State) (ip : IP) : pend (restart s) ip = [] := by
  rw [restart_eq]; rfl

theorem pinv_finish_restart (s0 s1 : State) : PInv (finish s0 (restart s1)) := by
  intro ip
  show PAt (configured (restart s1).pools ip) (pend (finish s0 (restart s1)) ip) ((restart s1).alloc.get ip)
    ((restart s1).store.get ip)
  rw [pend_finish, pend_restart, List.nil_append, restart_pools, restart_alloc_get]
  apply pat_fresh (stOld := s0.store.get ip) (v := s1.store.get ip)
  · by_cases hc : configured s1.pools ip = true
    · exact Or.inl (restart_store_get s1 ip hc)
    · rw [restart_eq]
      rcases deleteLoop_get {} (staleKeys s1.pools s1.store) 1 s1.store ip with h | ⟨h, _⟩
      · exact Or.inl h
      · exact Or.inr ⟨h, by simpa using hc⟩
  · exact newEv_storeEvents _ _ ip

/-! ## reload: the pending events stay -/

theorem pat_reload {ip : IP} {c c' : Bool} {l N : List Event} {a st st' : Option Rec} (h : PAt c l a st)
    (hst : st' = st ∨ (st' = none ∧ c' = false)) (hN : NewEv ip st st' N) :
    PAt c' (l ++ N) (if c' = true then st else none) st' := by
  have hsame : st' = st → PAt c' (l ++ N) (if c' = true then st else none) st' := by
    intro he
    subst he
    have : N = [] := hN.nil_of
      (by rintro ⟨⟨r0, k1, _⟩, k3⟩; rw [k3] at k1; cases k1)
      (by rintro ⟨r, k1, _, k3⟩; rw [k3] at k1; cases k1)
    rw [this, List.append_nil]
    by_cases hl : l = []
    · subst hl; rw [pat_nil]; intro hc; rw [if_pos hc]; exact optEq_refl _
    · by_cases hu : lastIsU l = true
      · rw [pat_lastU hl hu] at h ⊢
        refine ⟨h.1, fun hc => ?_⟩
        rw [if_pos hc]
        cases hs : st' with
        | none => exact Or.inl ⟨rfl, fun r k => (by cases k)⟩
        | some r0 => exact Or.inr ⟨optEq_refl _, fun r k => (by cases k; exact h.1 r0 hs)⟩
      · have hu' : lastIsU l = false := by simpa using hu
        rw [pat_addShape hl hu'] at h ⊢
        obtain ⟨e, r0, k1, k2, k3, _⟩ := h
        exact ⟨e, r0, k1, k2, k3, fun hc => Or.inr (by rw [if_pos hc]; exact optEq_refl _)⟩
  rcases hst with he | ⟨hnone, hc'⟩
  · exact hsame he
  · by_cases hlab : ∃ r0, st = some r0 ∧ r0.reserved = true
    · obtain ⟨r0, k1, k2⟩ := hlab
      obtain ⟨g1, g2⟩ := hN.allU_of k1 k2 hnone
      rw [hc', hnone]
      exact pat_gone g1 g2
    · by_cases hs : st = none
      · exact hsame (by rw [hnone, hs])
      · have : N = [] := hN.nil_of (fun k => hlab k.1) (by rintro ⟨r, k1, _⟩; rw [hnone] at k1; cases k1)
        rw [this, List.append_nil, hc', hnone]
        simp only [Bool.false_eq_true, if_false]
        by_cases hl : l = []
        · subst hl; rw [pat_nil]; intro k; cases k
        · by_cases hu : lastIsU l = true
          · rw [pat_lastU hl hu]
            exact ⟨fun r0 k => (by cases k), fun k => (by cases k)⟩
          · have hu' : lastIsU l = false := by simpa using hu
            rw [pat_addShape hl hu'] at h
            obtain ⟨_, r0, _, k2, k3, _⟩ := h
            exact absurd ⟨r0, k2, k3⟩ hlab

theorem pinv_finish_configure {s : State} (h : PInv s) (pools : List Pool) (order : List IP) (pl : Plan)
    (hadm : admissibleDeletes pools s.store order = true)
    (hne : (configurePool s pools order pl).2.err ≠ some .crashed) : PInv (finish s (configurePool s pools order pl).1) := by
  unfold configurePool at hne ⊢
  cases hl : sList pl 0 with
  | some e =>
    exact pinv_finish_loc h rfl rfl (fun _ => LocD.loc (Loc.id rfl rfl))
  | none =>
    rw [hl] at hne
    simp only at hne ⊢
    unfold configurePoolApply at hne ⊢
    by_cases hcr : (deleteLoop pl order 1 s.store).2 = true
    · rw [if_pos hcr] at hne; simp [Out.fail] at hne
    · rw [if_neg hcr]
      intro ip
      show PAt (configured (sortPools pools) ip) (pend (finish s _) ip) ((keepConfigured (sortPools pools) s.store).get ip)
        ((deleteLoop pl order 1 s.store).1.get ip)
      rw [pend_finish, keepConfigured_get]
      apply pat_reload (h ip)
      · rcases deleteLoop_get pl order 1 s.store ip with k | ⟨k, hin⟩
        · exact Or.inl k
        · refine Or.inr ⟨k, ?_⟩
          cases hc : configured (sortPools pools) ip with
          | false => rfl
          | true => exact absurd hin (admissibleDeletes_notin hadm hc)
      · exact newEv_storeEvents _ _ ip

/-! ## event delivery -/

theorem recEq_eventRec (e : Event) (n m : Nat) {r0 : Rec} (h : recEq (eventRec e n) r0) : recEq (eventRec e m) r0 := h

theorem lastIsU_single (e : Event) : lastIsU [e] = !e.assign := rfl

/-- what `handleFIPUnassign` (with the reserved-label check) leaves in the cache -/
def afterUnassign : Option Rec → Option Rec
  | some r => if r.reserved = true then none else some r
  | none => none

theorem pat_deliver {c : Bool} {e : Event} {l' : List Event} {a a' st : Option Rec} {now : Nat}
    (h : PAt c (e :: l') a st)
    (hA : e.assign = true → (a = none → c = true → a' = some (eventRec e now)) ∧ ((a ≠ none ∨ c = false) → a' = a))
    (hU : e.assign = false → a' = afterUnassign a) :
    PAt c l' a' st := by
  have hne : e :: l' ≠ [] := by simp
  have hev : ∀ r0, recEq (eventRec e 0) r0 → optEq (some (eventRec e now)) (some r0) := fun r0 k => k
  -- the cache entry after an add event, when the add-shape held before
  have addNew : ∀ r0, st = some r0 → (c = true → (a = none ∧ recEq (eventRec e 0) r0) ∨ optEq a st) → e.assign = true →
      c = true → optEq a' st := by
    intro r0 k2 k4 hea hc
    obtain ⟨hA1, hA2⟩ := hA hea
    cases ha : a with
    | some r =>
      rw [hA2 (Or.inl (by rw [ha]; simp)), ha]
      rcases k4 hc with ⟨g, _⟩ | g
      · rw [ha] at g; cases g
      · rw [ha] at g; exact g
    | none =>
      rw [hA1 ha hc, k2]
      rcases k4 hc with ⟨_, g⟩ | g
      · exact hev r0 g
      · rw [ha, k2] at g; cases g
  -- the cache entry after any event, when `SU` held before
  have suNew : SU a st → c = true → SU a' st := by
    intro hsu hc
    cases hea : e.assign with
    | false =>
      rw [hU hea]
      rcases hsu with ⟨k1, k2⟩ | ⟨k1, k2⟩
      · refine Or.inl ⟨k1, ?_⟩
        cases a with
        | none => intro r k; cases k
        | some r => simp only [afterUnassign, k2 r rfl, if_true]; intro r k; cases k
      · cases a with
        | none => exact Or.inr ⟨k1, k2⟩
        | some r => simp only [afterUnassign, k2 r rfl]; exact Or.inr ⟨by simpa using k1, by simpa using k2⟩
    | true =>
      obtain ⟨hA1, hA2⟩ := hA hea
      cases ha : a with
      | some r => rw [hA2 (Or.inl (by rw [ha]; simp))]; exact hsu
      | none =>
        rw [hA1 ha hc]
        have hst : st = none := by
          rcases hsu with ⟨k1, _⟩ | ⟨k1, _⟩
          · exact k1
          · rw [ha] at k1; exact optEq_none_left k1
        exact Or.inl ⟨hst, fun r k => (by cases k; rfl)⟩
  cases l' with
  | nil =>
    rw [pat_nil]
    cases hea : e.assign with
    | false =>
      have hu : lastIsU [e] = true := by simp [lastIsU_single, hea]
      rw [pat_lastU hne hu] at h
      intro hc
      rw [hU hea]
      rcases h.2 hc with ⟨k1, k2⟩ | ⟨k1, k2⟩
      · cases a with
        | none => rw [k1]; trivial
        | some r => simp only [afterUnassign, k2 r rfl, if_true]; rw [k1]; trivial
      · cases a with
        | none => exact k1
        | some r => simp only [afterUnassign, k2 r rfl]; simpa using k1
    | true =>
      have hu : lastIsU [e] = false := by simp [lastIsU_single, hea]
      rw [pat_addShape hne hu] at h
      obtain ⟨e0, r0, k1, k2, k3, k4⟩ := h
      have he0 : e = e0 := k1 e (by simp)
      subst he0
      exact addNew r0 k2 k4 hea
  | cons e' t =>
    have hl : e' :: t ≠ [] := by simp
    by_cases hu : lastIsU (e' :: t) = true
    · have hu0 : lastIsU (e :: e' :: t) = true := by rw [lastIsU_cons_cons]; exact hu
      rw [pat_lastU hne hu0] at h
      rw [pat_lastU hl hu]
      exact ⟨h.1, fun hc => suNew (h.2 hc) hc⟩
    · have hu' : lastIsU (e' :: t) = false := by simpa using hu
      have hu0 : lastIsU (e :: e' :: t) = false := by rw [lastIsU_cons_cons]; exact hu'
      rw [pat_addShape hne hu0] at h
      rw [pat_addShape hl hu']
      obtain ⟨e0, r0, k1, k2, k3, k4⟩ := h
      have he0 : e = e0 := k1 e (by simp)
      subst he0
      have hea : e.assign = true := by
        cases hx : e.assign with
        | true => rfl
        | false =>
          have : lastIsU ([] ++ (e' :: t)) = true :=
            lastIsU_append_allU hl (fun x hx' => by rw [k1 x (List.mem_cons_of_mem _ hx')]; exact hx)
          rw [List.nil_append, hu'] at this; cases this
      exact ⟨e, r0, fun x hx => k1 x (List.mem_cons_of_mem _ hx), k2, k3, fun hc => Or.inr (addNew r0 k2 k4 hea hc)⟩

theorem storeEvents_self_filter (st : Store) (ip : IP) : (storeEvents st st).filter (fun e => e.ip == ip) = [] :=
  (newEv_storeEvents st st ip).nil_of
    (by rintro ⟨⟨r0, k1, _⟩, k3⟩; rw [k3] at k1; cases k1)
    (by rintro ⟨r, k1, _, k3⟩; rw [k3] at k1; cases k1)

theorem pinv_finish_deliver {s : State} (h : Inv s) : PInv (finish s (deliver s).1) := by
  have hfact : Generated.Ipam.unassignEventChecksReserved = true := rfl
  unfold deliver
  cases hp : s.pending with
  | nil =>
    simp only
    exact pinv_finish_loc h.pinv rfl rfl (fun _ => LocD.loc (Loc.id rfl rfl))
  | cons e rest =>
    simp only
    -- the handlers only touch the cache entry of e.ip and never the store
    have key : ∀ (s2 : State), s2.pools = s.pools → s2.pending = rest → s2.store = s.store →
        (∀ j, j ≠ e.ip → s2.alloc.get j = s.alloc.get j) →
        (e.assign = true → (s.alloc.get e.ip = none → configured s.pools e.ip = true →
              s2.alloc.get e.ip = some (eventRec e s.clock)) ∧
            ((s.alloc.get e.ip ≠ none ∨ configured s.pools e.ip = false) → s2.alloc.get e.ip = s.alloc.get e.ip)) →
        (e.assign = false → s2.alloc.get e.ip = afterUnassign (s.alloc.get e.ip)) →
        PInv (finish s s2) := by
      intro s2 h1 h2 h3 h4 h5 h6 ip
      show PAt (configured s2.pools ip) (pend (finish s s2) ip) (s2.alloc.get ip) (s2.store.get ip)
      rw [pend_finish, h3, storeEvents_self_filter, List.append_nil, h1]
      have hold := h.pinv ip
      by_cases hip : ip = e.ip
      · subst hip
        have hpe : pend s e.ip = e :: pend s2 e.ip := by simp [pend, hp, h2]
        rw [hpe] at hold
        exact pat_deliver hold h5 h6
      · have hpe : pend s ip = pend s2 ip := by
          have : (e.ip == ip) = false := by simpa using fun x => hip x.symm
          simp [pend, hp, h2, this]
        rw [hpe, ← h4 ip hip] at hold
        exact hold
    by_cases hass : e.assign = true
    · rw [if_pos hass]
      unfold fipAssignEvent
      cases hal : s.alloc.get e.ip with
      | some r =>
        apply key { s with pending := rest } rfl rfl rfl (fun _ _ => rfl)
        · intro _; exact ⟨fun k => (by rw [hal] at k; cases k), fun _ => rfl⟩
        · intro k; rw [hass] at k; cases k
      | none =>
        simp only
        by_cases hin : e.ip ∈ s.free
        · have hin' : e.ip ∈ ({ s with pending := rest } : State).free := hin
          rw [if_pos hin']
          apply key (memAlloc { s with pending := rest } e.ip _) rfl rfl rfl
          · intro j hj
            have hne : e.ip ≠ j := fun x => hj x.symm
            simp [memAlloc, Tbl.get_set_ne _ _ hne]
          · intro _
            refine ⟨fun _ _ => (by simp [memAlloc, eventRec]), ?_⟩
            rintro (k | k)
            · exact absurd hal k
            · have := ((h.mem.free_iff e.ip).mp hin).1
              rw [k] at this; cases this
          · intro k; rw [hass] at k; cases k
        · have hin' : e.ip ∉ ({ s with pending := rest } : State).free := hin
          rw [if_neg hin']
          apply key { s with pending := rest } rfl rfl rfl (fun _ _ => rfl)
          · intro _
            refine ⟨fun _ hc => absurd ((h.mem.free_iff e.ip).mpr ⟨hc, hal⟩) hin, fun _ => rfl⟩
          · intro k; rw [hass] at k; cases k
    · have hass' : e.assign = false := by simpa using hass
      rw [if_neg hass]
      unfold fipUnassignEvent fipUnassignEventG
      rw [hfact]
      cases hal : s.alloc.get e.ip with
      | none =>
        apply key { s with pending := rest } rfl rfl rfl (fun _ _ => rfl)
        · intro k; rw [hass'] at k; cases k
        · intro _; show s.alloc.get e.ip = _; rw [hal]; rfl
      | some r =>
        simp only [Bool.true_and]
        by_cases hr : r.reserved = true
        · have hnr : (!r.reserved) = false := by simp [hr]
          rw [hnr]
          simp only [Bool.false_eq_true, if_false]
          apply key (memFree { s with pending := rest } e.ip) rfl rfl rfl
          · intro j hj
            have hne : e.ip ≠ j := fun x => hj x.symm
            simp [memFree, Tbl.get_erase_ne _ hne]
          · intro k; rw [hass'] at k; cases k
          · intro _; rw [hal]; simp [memFree, afterUnassign, hr]
        · have hnr : (!r.reserved) = true := by simpa using hr
          rw [hnr]
          simp only [if_true]
          apply key { s with pending := rest } rfl rfl rfl (fun _ _ => rfl)
          · intro k; rw [hass'] at k; cases k
          · intro _; show s.alloc.get e.ip = _; rw [hal]; simp [afterUnassign, hr]

end Galaxy.Ipam
