/-
  C02 proofs, part 2: Filter.
  * an identity that owns addresses is offered only nodes from which they are routable, and nothing is allocated;
  * `getAvailableSubnet` of the model IS `getAvailableSubnetG`, the version over the regenerated expressions
    (`usedCount >= replicas`, which records count as used / as held in reserve);
  * a deployment / pool pod with a reserving policy whose app holds addresses in reserve and has quota left takes one
    of them - the most recently updated one routable from the chosen subnet - and never a free address, also when the
    store update fails.
-/
import Galaxy.Lemmas.C02Bind

namespace Galaxy.Plugin.C02
open Galaxy Galaxy.Plugin Galaxy.Plugin.C03

/-! ### node subnets as Filter sees them -/

/-- the subnet Filter finds for a node: the cached one, else `NodeSubnet(InternalIP)` -/
def nodeSub (s : State) (n : String) : Option Subnet :=
  match s.nodeCache.get n with
  | some x => some x
  | none =>
    match s.nodes.get n with
    | none => none
    | some nip => nodeSubnetOf s.pools nip

theorem getNodeSubnet_val (s : State) (n : String) : (getNodeSubnet s n).2 = nodeSub s n := by
  unfold getNodeSubnet nodeSub
  cases h1 : s.nodeCache.get n with
  | some x => simp
  | none =>
    cases h2 : s.nodes.get n with
    | none => simp
    | some nip => cases h3 : nodeSubnetOf s.pools nip <;> simp [h3]

theorem getNodeSubnet_view (s : State) (m n : String) : nodeSub (getNodeSubnet s m).1 n = nodeSub s n := by
  unfold getNodeSubnet
  split
  · rfl
  · rename_i hc
    split
    · rfl
    · rename_i nip hn
      split
      · rfl
      · rename_i x hx
        unfold nodeSub
        by_cases hmn : m = n
        · subst hmn
          simp [hc, hn, hx]
        · simp only [Tbl.get_set_ne _ _ hmn]

theorem filterNodes_mem (set : List Subnet) : ∀ (nodes acc : List String) (s : State) (n : String),
    n ∈ (filterNodes s set nodes acc).2 →
      n ∈ acc ∨ (n ∈ nodes ∧ ∃ sn, nodeSub s n = some sn ∧ set.contains sn = true) := by
  intro nodes
  induction nodes with
  | nil => intro acc s n h; exact Or.inl h
  | cons m t ih =>
    intro acc s n h
    unfold filterNodes at h
    dsimp only at h
    have hv := getNodeSubnet_val s m
    have lift : ∀ acc', n ∈ (filterNodes (getNodeSubnet s m).1 set t acc').2 →
        n ∈ acc' ∨ (n ∈ m :: t ∧ ∃ sn, nodeSub s n = some sn ∧ set.contains sn = true) := by
      intro acc' h'
      rcases ih acc' _ n h' with h1 | ⟨h1, sn, h2, h3⟩
      · exact Or.inl h1
      · exact Or.inr ⟨List.mem_cons_of_mem _ h1, sn, by rw [← getNodeSubnet_view s m n]; exact h2, h3⟩
    split at h
    · exact lift acc h
    · rename_i sn hsn
      split at h
      · rename_i hc
        rcases lift (acc ++ [m]) h with h1 | h1
        · rcases List.mem_append.mp h1 with h2 | h2
          · exact Or.inl h2
          · have : n = m := by simpa using h2
            subst this
            exact Or.inr ⟨List.mem_cons_self, sn, by rw [← hv, hsn], hc⟩
        · exact Or.inr h1
      · exact lift acc h

theorem mem_foldl_sinter (f : IP → List Subnet) (x : Subnet) : ∀ (t : List IP) (init : List Subnet),
    x ∈ t.foldl (fun acc j => sinter acc (f j)) init → x ∈ init ∧ ∀ j, j ∈ t → (f j).contains x = true := by
  intro t
  induction t with
  | nil => intro init h; exact ⟨h, fun j hj => by cases hj⟩
  | cons a t ih =>
    intro init h
    simp only [List.foldl_cons] at h
    obtain ⟨h1, h2⟩ := ih _ h
    unfold sinter at h1
    have := List.mem_filter.mp h1
    refine ⟨this.1, fun j hj => ?_⟩
    rcases List.mem_cons.mp hj with e | e
    · subst e; exact this.2
    · exact h2 j e

/-! ### Filter of an identity that owns its addresses -/

/-- no requested ranges, the key owns addresses: `ipInfos[0].NodeSubnets` - Filter offers only nodes from which the
    (chosen) owned address is routable and changes neither memory table -/
theorem filter_owned (s : State) (ns name : String) (nodes : List String) (ch : Choice) (pod : Pod)
    (hp : Tbl.get s.pods (ns, name) = some pod) (hw : pod.wants = true) (hr : pod.ranges = [])
    (hne : ipsOfKey s (keyOf pod) ≠ []) (hok : (filter s ns name nodes ch).2.res = .ok) :
    ∃ i, i ∈ ipsOfKey s (keyOf pod) ∧
      (∀ n, n ∈ (filter s ns name nodes ch).2.nodes → n ∈ nodes ∧ ∃ sn, nodeSub s n = some sn ∧ hasSubnet s i sn = true) ∧
      (filter s ns name nodes ch).1.alloc = s.alloc ∧ (filter s ns name nodes ch).1.free = s.free := by
  have hb : byKeyAndRanges s (keyOf pod) [] = (ipsOfKey s (keyOf pod)).map some := by
    unfold byKeyAndRanges; simp
  obtain ⟨a, t, hat⟩ : ∃ a t, ipsOfKey s (keyOf pod) = a :: t := by
    cases hx : ipsOfKey s (keyOf pod) with
    | nil => exact absurd hx hne
    | cons a t => exact ⟨a, t, rfl⟩
  have hmem : ∀ i, pickFirst (some a :: t.map some) ch.first = some i → i ∈ ipsOfKey s (keyOf pod) := by
    intro i hpf
    rw [hat]
    unfold pickFirst at hpf
    split at hpf
    · split at hpf
      · rename_i hc
        simp at hpf; subst hpf
        simpa using hc
      · cases hpf
    · split at hpf
      · rename_i ip heq
        simp at hpf; subst hpf
        have : some ip ∈ (some a :: t.map some) := by rw [heq]; simp
        simpa using this
      · cases hpf
  unfold filter at hok ⊢
  simp only [hp, hw, Bool.not_true, Bool.false_eq_true, if_false] at hok ⊢
  unfold getSubnet at hok ⊢
  simp only [hr, List.isEmpty_nil, if_true, hb, hat, List.map_cons] at hok ⊢
  cases hpf : pickFirst (some a :: t.map some) ch.first with
  | none =>
    rw [hpf] at hok
    simp [Out.bad] at hok
  | some i =>
    rw [hpf] at hok
    simp only at hok ⊢
    refine ⟨i, hat ▸ hmem i hpf, ?_, ?_, ?_⟩
    · intro n hn
      rcases filterNodes_mem (subnetsOf s.pools i) nodes [] s n hn with h | ⟨h1, sn, h2, h3⟩
      · cases h
      · exact ⟨h1, sn, h2, h3⟩
    · exact (filterNodes_quiet (subnetsOf s.pools i) nodes [] s).1.alloc
    · exact (filterNodes_quiet (subnetsOf s.pools i) nodes [] s).1.free

/-- every requested range already has its address: Filter offers only nodes from which ALL of them are routable -/
theorem filter_owned_ranges (s : State) (ns name : String) (nodes : List String) (ch : Choice) (pod : Pod) (ips : List IP)
    (hp : Tbl.get s.pods (ns, name) = some pod) (hw : pod.wants = true) (hr : pod.ranges ≠ [])
    (hown : byKeyAndRanges s (keyOf pod) pod.ranges = ips.map some) :
    (∀ n, n ∈ (filter s ns name nodes ch).2.nodes →
      n ∈ nodes ∧ ∃ sn, nodeSub s n = some sn ∧ ∀ i, i ∈ ips → hasSubnet s i sn = true) ∧
    (filter s ns name nodes ch).1.alloc = s.alloc ∧ (filter s ns name nodes ch).1.free = s.free := by
  have hre : pod.ranges.isEmpty = false := by cases hx : pod.ranges <;> simp_all
  have hg : getSubnet s pod ch = (s, .ok (allocatedSubnets s ips)) := by
    unfold getSubnet
    rw [hown]
    simp [hre, unfound_all_some, filterMap_map_some]
  unfold filter
  simp only [hp, hw, Bool.not_true, Bool.false_eq_true, if_false, hg]
  refine ⟨fun n hn => ?_, (filterNodes_quiet _ nodes [] s).1.alloc, (filterNodes_quiet _ nodes [] s).1.free⟩
  rcases filterNodes_mem (allocatedSubnets s ips) nodes [] s n hn with h | ⟨h1, sn, h2, h3⟩
  · cases h
  · refine ⟨h1, sn, h2, fun i hi => ?_⟩
    have hm : sn ∈ allocatedSubnets s ips := by simpa using h3
    unfold allocatedSubnets at hm
    cases ips with
    | nil => cases hi
    | cons a t =>
      simp only at hm
      obtain ⟨h4, h5⟩ := mem_foldl_sinter (subnetsOf s.pools) sn t _ hm
      unfold hasSubnet
      rcases List.mem_cons.mp hi with e | e
      · subst e; simpa using h4
      · exact h5 i e

/-! ### `getAvailableSubnet` over the regenerated expressions -/

theorem countsAsUsed_eq (kp sized noPool hp : Bool) :
    Generated.C03.countsAsUsed kp sized noPool hp = (!kp && (sized || noPool || hp)) := by
  unfold Generated.C03.countsAsUsed
  cases kp <;> cases sized <;> cases noPool <;> cases hp <;> rfl

theorem countsAsUnused_eq (kp sized noPool hp : Bool) : Generated.C03.countsAsUnused kp sized noPool hp = kp := by
  unfold Generated.C03.countsAsUnused
  cases kp <;> rfl

theorem reserveLookupApplies_eq (d : Bool) (p : Nat) : Generated.C03.reserveLookupApplies d p = (d && p != 0) := by
  unfold Generated.C03.reserveLookupApplies
  rw [gen_policies.1]

/-- the model's `getAvailableSubnet` is the one written over the regenerated comparison / counting expressions -/
theorem getAvailableSubnet_eq_G (s : State) (k : Key) (policy replicas : Nat) (sized : Bool) (rss : List (List (Nat × Nat))) :
    getAvailableSubnet s k policy replicas sized rss = getAvailableSubnetG s k policy replicas sized rss := by
  unfold getAvailableSubnet getAvailableSubnetG usedCountG reservedSubnets reservedRecs prefixRecs
  rw [reserveLookupApplies_eq, gen_sizeLimit]
  have hu : (fun (e : IP × Rec) => Generated.C03.countsAsUsed (e.2.key == k.poolPrefix) sized (k.pool == "")
        (e.2.key.hasPrefix k.poolAppPrefix)) =
      (fun e => decide (e.2.key ≠ k.poolPrefix) && (sized || decide (k.pool = "") || e.2.key.hasPrefix k.poolAppPrefix)) := by
    funext e
    rw [countsAsUsed_eq]
    have e1 : decide (e.2.key ≠ k.poolPrefix) = !(e.2.key == k.poolPrefix) := by
      by_cases h : e.2.key = k.poolPrefix <;> simp [h]
    have e2 : decide (k.pool = "") = (k.pool == "") := by by_cases h : k.pool = "" <;> simp [h]
    rw [e1, e2]
  have hn : (fun (e : IP × Rec) => Generated.C03.countsAsUnused (e.2.key == k.poolPrefix) false (k.pool == "")
        (e.2.key.hasPrefix k.poolAppPrefix)) = (fun e => decide (e.2.key = k.poolPrefix)) := by
    funext e
    rw [countsAsUnused_eq]
    by_cases h1 : e.2.key = k.poolPrefix <;> simp [h1]
  rw [hu, hn]
  cases hd : (k.isDp && policy != 0) with
  | false => simp
  | true =>
    simp only [if_true]
    cases hr : rss.isEmpty with
    | false => simp
    | true =>
      simp only [Bool.not_true, Bool.false_eq_true, if_false]
      by_cases hlim : (List.filter (fun (e : IP × Rec) => decide (e.2.key ≠ k.poolPrefix) &&
          (sized || decide (k.pool = "") || e.2.key.hasPrefix k.poolAppPrefix))
          (List.filter (fun e => e.2.key.hasPrefix k.poolPrefix) s.alloc)).length ≥ replicas
      · simp [hlim]
      · simp only [hlim, if_false, decide_false, Bool.false_eq_true]

/-! ### a replacement pod of a deployment / pool takes a reserved address -/

theorem mem_sinsert (l : List Subnet) (x y : Subnet) : y ∈ sinsert l x ↔ y ∈ l ∨ y = x := by
  unfold sinsert
  split
  · rename_i h
    constructor
    · exact Or.inl
    · rintro (h1 | h1)
      · exact h1
      · subst h1; simpa using h
  · simp

theorem mem_sunion (a b : List Subnet) (y : Subnet) : y ∈ sunion a b ↔ y ∈ a ∨ y ∈ b := by
  unfold sunion
  induction b generalizing a with
  | nil => simp
  | cons x t ih =>
    simp only [List.foldl_cons]
    rw [ih, mem_sinsert]
    simp only [List.mem_cons]
    constructor
    · rintro ((h | h) | h)
      · exact Or.inl h
      · exact Or.inr (Or.inl h)
      · exact Or.inr (Or.inr h)
    · rintro (h | h | h)
      · exact Or.inl (Or.inl h)
      · exact Or.inl (Or.inr h)
      · exact Or.inr h

theorem mem_reserved_fold (ps : List Pool) (y : Subnet) : ∀ (l : Tbl IP Rec) (init : List Subnet),
    y ∈ l.foldl (fun acc e => sunion acc (subnetsOf ps e.1)) init → y ∈ init ∨ ∃ e, e ∈ l ∧ y ∈ subnetsOf ps e.1 := by
  intro l
  induction l with
  | nil => intro init h; exact Or.inl h
  | cons a t ih =>
    intro init h
    simp only [List.foldl_cons] at h
    rcases ih _ h with h1 | ⟨e, he, hy⟩
    · rcases (mem_sunion _ _ _).mp h1 with h2 | h2
      · exact Or.inl h2
      · exact Or.inr ⟨a, List.mem_cons_self, h2⟩
    · exact Or.inr ⟨e, List.mem_cons_of_mem _ he, hy⟩

theorem sminStr_mem : ∀ (l : List Subnet) (n : Subnet), sminStr l = some n → n ∈ l := by
  intro l
  induction l with
  | nil => intro n h; cases h
  | cons x t ih =>
    intro n h
    unfold sminStr at h
    split at h
    · simp at h; subst h; exact List.mem_cons_self
    · rename_i y hy
      split at h
      · simp at h; subst h; exact List.mem_cons_self
      · simp at h; subst h; exact List.mem_cons_of_mem _ (ih y hy)

theorem sminStr_some (l : List Subnet) (h : l ≠ []) : ∃ n, sminStr l = some n := by
  cases l with
  | nil => exact absurd rfl h
  | cons x t =>
    unfold sminStr
    split
    · exact ⟨x, rfl⟩
    · split
      · exact ⟨x, rfl⟩
      · rename_i y _ _; exact ⟨y, rfl⟩

/-- `AllocateInSubnetWithKey`: never touches the free list; an admissible choice is a record of `oldK` routable from the
    subnet that no candidate was updated after; on a store failure nothing changes -/
theorem allocateWithKey_spec (s : State) (oldK newK : Key) (n : Subnet) (a : Attr) (ch : Option IP) :
    (allocateInSubnetWithKey s oldK newK n a ch).1.free = s.free ∧
    ((allocateInSubnetWithKey s oldK newK n a ch).2 = .ok →
      ∃ ip r, ch = some ip ∧ Tbl.get s.alloc ip = some r ∧ r.key = oldK ∧ hasSubnet s ip n = true ∧
        (∀ e, e ∈ s.alloc → e.2.key = oldK → hasSubnet s e.1 n = true → e.2.ts ≤ r.ts) ∧
        (allocateInSubnetWithKey s oldK newK n a ch).1.alloc = Tbl.set s.alloc ip (r.assign newK a s.clock)) ∧
    ((allocateInSubnetWithKey s oldK newK n a ch).2 ≠ .ok → (allocateInSubnetWithKey s oldK newK n a ch).1.alloc = s.alloc) := by
  unfold allocateInSubnetWithKey
  dsimp only
  split
  · exact ⟨rfl, fun h => by simp at h, fun _ => rfl⟩
  · split
    · exact ⟨rfl, fun h => by simp at h, fun _ => rfl⟩
    · rename_i ip
      split
      · exact ⟨rfl, fun h => by simp at h, fun _ => rfl⟩
      · rename_i r hr
        split
        · exact ⟨rfl, fun h => by simp at h, fun _ => rfl⟩
        · rename_i hadm
          have st := stUpdate_step s ip (r.assign newK a s.clock)
          simp only [Bool.not_eq_true, Bool.not_eq_false', Bool.and_eq_true, decide_eq_true_eq] at hadm
          split
          · exact ⟨st.free, fun h => by simp at h, fun _ => st.alloc⟩
          · refine ⟨st.free, fun _ => ⟨ip, r, rfl, hr, hadm.1.1, hadm.1.2, ?_, by simp [st.alloc]⟩, fun h => absurd rfl h⟩
            intro e he hk hs
            have := List.all_eq_true.mp hadm.2 e (List.mem_filter.mpr ⟨he, by simp [hk, hs]⟩)
            simpa using this

/-- the state of `getSubnet` for a pod that owns nothing and requests no ranges is that of `getSubnetCont` -/
theorem getSubnet_fresh (s : State) (pod : Pod) (ch : Choice) (hr : pod.ranges = []) (hown : ipsOfKey s (keyOf pod) = []) :
    getSubnet s pod ch = getSubnetCont s pod ch [] false [] := by
  unfold getSubnet
  have hb : byKeyAndRanges s (keyOf pod) pod.ranges = [] := by unfold byKeyAndRanges; simp [hr, hown]
  rw [hb]
  simp [hr]

/-- "A replacement pod of a deployment (or named IP pool) with such a policy takes one of the IPs its app already holds in
    reserve, not a fresh one."  The pod owns nothing, requests no ranges, its app / pool holds addresses in reserve that
    are routable from some node subnet, and the quota (`usedCount < replicas / pool size`) is not exhausted.  Then
    Filter never allocates a free address; if it answers ok it has re-keyed exactly one reserved address to the pod's
    key - a most recently updated one among those routable from the chosen subnet - and offers only nodes of that
    subnet; if it fails (e.g. the store update failed) no record changed and no node is offered. -/
theorem filter_takes_reserved (s : State) (ns name : String) (nodes : List String) (ch : Choice) (pod : Pod)
    (hp : Tbl.get s.pods (ns, name) = some pod) (hw : pod.wants = true) (hr : pod.ranges = [])
    (hown : ipsOfKey s (keyOf pod) = []) (hdp : (keyOf pod).isDp = true) (hpol : policyOf pod ≠ 0)
    (hres : reservedSubnets s (keyOf pod) ≠ [])
    (hquota : usedCountG s (keyOf pod) (getDpReplicas s (keyOf pod)).2 < (getDpReplicas s (keyOf pod)).1) :
    (filter s ns name nodes ch).1.free = s.free ∧
    ((filter s ns name nodes ch).2.res = .ok →
      ∃ ip r n, Tbl.get s.alloc ip = some r ∧ r.key = (keyOf pod).poolPrefix ∧ hasSubnet s ip n = true ∧
        (∀ e, e ∈ s.alloc → e.2.key = (keyOf pod).poolPrefix → hasSubnet s e.1 n = true → e.2.ts ≤ r.ts) ∧
        (filter s ns name nodes ch).1.alloc =
          Tbl.set s.alloc ip (r.assign (keyOf pod) { policy := policyOf pod, node := "", uid := pod.uid } s.clock) ∧
        ∀ m, m ∈ (filter s ns name nodes ch).2.nodes → m ∈ nodes ∧ nodeSub s m = some n) ∧
    ((filter s ns name nodes ch).2.res ≠ .ok →
      (filter s ns name nodes ch).1.alloc = s.alloc ∧ (filter s ns name nodes ch).2.nodes = []) := by
  have hsup : supportReserve (keyOf pod) (policyOf pod) = true := by unfold supportReserve; simp [hdp]
  have hav : getAvailableSubnet s (keyOf pod) (policyOf pod) (getDpReplicas s (keyOf pod)).1 (getDpReplicas s (keyOf pod)).2 [] =
      .ok (reservedSubnets s (keyOf pod), true) := by
    rw [getAvailableSubnet_eq_G]
    unfold getAvailableSubnetG
    rw [reserveLookupApplies_eq, gen_sizeLimit]
    have h0 : (policyOf pod != 0) = true := by simpa using hpol
    have hq : ¬ usedCountG s (keyOf pod) (getDpReplicas s (keyOf pod)).2 ≥ (getDpReplicas s (keyOf pod)).1 := by omega
    have hne : (reservedSubnets s (keyOf pod)).isEmpty = false := by
      cases hx : reservedSubnets s (keyOf pod) with
      | nil => exact absurd hx hres
      | cons a t => rfl
    simp [hdp, h0, hq, hne]
  obtain ⟨n, hn⟩ := sminStr_some _ hres
  have hnm := sminStr_mem _ n hn
  have hne : (reservedSubnets s (keyOf pod)).isEmpty = false := by
    cases hx : reservedSubnets s (keyOf pod) with
    | nil => exact absurd hx hres
    | cons a t => rfl
  have sp := allocateWithKey_spec s (keyOf pod).poolPrefix (keyOf pod) n { policy := policyOf pod, node := "", uid := pod.uid } ch.pick
  unfold filter
  simp only [hp, hw, Bool.not_true, Bool.false_eq_true, if_false]
  rw [getSubnet_fresh s pod ch hr hown]
  unfold getSubnetCont
  simp only [hsup, hdp, if_true, hav, Bool.not_true, and_false, if_false, Bool.true_or, Bool.false_eq_true, hne,
    Bool.not_false, Bool.and_self, hn, allocateDuringFilter]
  cases hres2 : (allocateInSubnetWithKey s (keyOf pod).poolPrefix (keyOf pod) n
      { policy := policyOf pod, node := "", uid := pod.uid } ch.pick).2 with
  | ok =>
    simp only
    have fq := (filterNodes_quiet [n] nodes [] (allocateInSubnetWithKey s (keyOf pod).poolPrefix (keyOf pod) n
      { policy := policyOf pod, node := "", uid := pod.uid } ch.pick).1).1
    obtain ⟨ip, r, _, h1, h2, h3, h4, h5⟩ := sp.2.1 hres2
    refine ⟨fq.free.trans sp.1, fun _ => ⟨ip, r, n, h1, h2, h3, h4, fq.alloc.trans h5, fun m hm => ?_⟩, fun h => absurd rfl h⟩
    rcases filterNodes_mem [n] nodes [] _ m hm with h | ⟨hm1, sn, hs1, hs2⟩
    · cases h
    · refine ⟨hm1, ?_⟩
      have : sn = n := by simpa using hs2
      subst this
      -- the node-subnet view depends on cache, nodes and pools only, none of which the re-keying touches
      have fr := (allocateInSubnetWithKey_chg s (keyOf pod).poolPrefix (keyOf pod) sn
        { policy := policyOf pod, node := "", uid := pod.uid } ch.pick).frame
      have hc : (allocateInSubnetWithKey s (keyOf pod).poolPrefix (keyOf pod) sn
          { policy := policyOf pod, node := "", uid := pod.uid } ch.pick).1.nodeCache = s.nodeCache := by
        unfold allocateInSubnetWithKey
        dsimp only
        repeat' split
        all_goals first | rfl | (unfold stUpdate; dsimp only; repeat' split) <;> rfl
      unfold nodeSub at hs1 ⊢
      rw [hc, fr.nodes, fr.pools] at hs1
      exact hs1
  | err c =>
    simp only
    refine ⟨sp.1, fun h => absurd h (by simp), fun _ => ⟨sp.2.2 (by rw [hres2]; simp), ?_⟩⟩
    trivial
  | inadmissible =>
    simp only
    exact ⟨trivial, fun h => absurd h (by simp [Out.bad]), fun _ => ⟨trivial, rfl⟩⟩

/-- the quota gate: a deployment / pool pod with a reserving policy that owns nothing, while its app already uses its
    whole quota, is refused with "size-limit" ("wait for releasing"); Filter changes nothing -/
theorem filter_at_quota_waits (s : State) (ns name : String) (nodes : List String) (ch : Choice) (pod : Pod)
    (hp : Tbl.get s.pods (ns, name) = some pod) (hw : pod.wants = true) (hr : pod.ranges = [])
    (hown : ipsOfKey s (keyOf pod) = []) (hdp : (keyOf pod).isDp = true) (hpol : policyOf pod ≠ 0)
    (hquota : (getDpReplicas s (keyOf pod)).1 ≤ usedCountG s (keyOf pod) (getDpReplicas s (keyOf pod)).2) :
    filter s ns name nodes ch = (s, Out.err "size-limit") := by
  have hsup : supportReserve (keyOf pod) (policyOf pod) = true := by unfold supportReserve; simp [hdp]
  have hav : getAvailableSubnet s (keyOf pod) (policyOf pod) (getDpReplicas s (keyOf pod)).1 (getDpReplicas s (keyOf pod)).2 [] =
      .error "size-limit" := by
    rw [getAvailableSubnet_eq_G]
    unfold getAvailableSubnetG
    rw [reserveLookupApplies_eq, gen_sizeLimit]
    have h0 : (policyOf pod != 0) = true := by simpa using hpol
    have hq : usedCountG s (keyOf pod) (getDpReplicas s (keyOf pod)).2 ≥ (getDpReplicas s (keyOf pod)).1 := hquota
    simp [hdp, h0, hq]
  unfold filter
  simp only [hp, hw, Bool.not_true, Bool.false_eq_true, if_false]
  rw [getSubnet_fresh s pod ch hr hown]
  unfold getSubnetCont
  simp only [hsup, hdp, if_true, hav, Bool.not_true]
  have hf : ¬ (policyOf pod ≠ 0 ∧ false = true) := by simp
  simp only [if_neg hf]
  rfl

end Galaxy.Plugin.C02
