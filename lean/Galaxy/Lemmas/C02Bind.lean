/-
  C02 proofs, part 1: Bind reuses what the key owns.
  * `bind_found`: when every requested range (or, without ranges, the chosen owned address) is already owned, `bind`
    allocates nothing and hands exactly the owned addresses in request order - or waits for the old incarnation's
    delete event;
  * `reserve_own_keeps`: `reserveIP(key, key)` (what a delete event / resync does for an immutable / never identity)
    keeps every address of the key under the key, with its policy, and clears the uid - so the next bind passes the UID
    guard.
-/
import Galaxy.Lemmas.C03Unbind

namespace Galaxy.Plugin.C02
open Galaxy Galaxy.Plugin Galaxy.Plugin.C03

theorem toHInfo_ip (s : State) (ip : IP) : (toHInfo s ip).ip = ip := by
  unfold toHInfo; split <;> rfl

theorem map_toHInfo_ip (s : State) (l : List IP) : (l.map (toHInfo s)).map (·.ip) = l := by
  induction l with
  | nil => rfl
  | cons a t ih => simp [toHInfo_ip, ih]

theorem unfound_all_some : ∀ (ips : List IP) (rss : List (List (Nat × Nat))), unfoundRanges (ips.map some) rss = []
  | [], _ => by simp [unfoundRanges]
  | _ :: _, [] => by simp [unfoundRanges]
  | a :: t, r :: rs => by
    have ih := unfound_all_some t rs
    unfold unfoundRanges at ih ⊢
    simp only [List.map_cons, List.zip_cons_cons, List.filterMap_cons, Option.isNone_some, Bool.false_eq_true, if_false]
    exact ih

theorem filterMap_map_some (ips : List IP) : (ips.map some).filterMap id = ips := by
  induction ips with
  | nil => rfl
  | cons a t ih => simp [ih]

/-- nothing is missing: the allocation step of Bind does nothing -/
theorem bindAlloc_found (s : State) (pod : Pod) (node : String) (a : Attr) (ips : List IP) (pick : Option IP) (hne : ips ≠ []) :
    bindAlloc s pod node a (ips.map some) pick = (s, .ok, ips.map some) := by
  unfold bindAlloc
  rw [unfound_all_some]
  have : (ips.map some).isEmpty = false := by cases ips <;> simp_all
  simp [this]

/-- the pods/binding call answers ok only with the addresses it was given -/
theorem bindCommit_ips (s : State) (pod : Pod) (ns name : String) (uid : Nat) (node : String) (ips : List IP)
    (h : (bindCommit s pod ns name uid node ips).2.res = .ok) :
    (bindCommit s pod ns name uid node ips).2.ips.map (·.ip) = ips := by
  unfold bindCommit at h ⊢
  split
  · rename_i hn; simp [hn, Out.err] at h
  · rename_i tp htp
    simp only [htp] at h
    split
    · rename_i hc; simp [hc, Out.err] at h
    · exact map_toHInfo_ip s ips

theorem bindCommitX_ips (s : State) (pod : Pod) (ns name : String) (uid : Nat) (node : String) (ips : List IP)
    (h : (bindCommitX s pod ns name uid node ips).2.res = .ok) :
    (bindCommitX s pod ns name uid node ips).2.ips.map (·.ip) = ips := by
  unfold bindCommitX at h ⊢
  split
  · rename_i hc; simp [hc, Out.err] at h
  · rename_i hc
    rw [if_neg hc] at h
    exact bindCommit_ips _ _ _ _ _ _ _ h

theorem bindFinish_ips (F : Facts) (s : State) (pod : Pod) (ns name : String) (uid : Nat) (node : String) (ips : List IP)
    (ans : BindAnswer) (h : (bindFinish F s pod ns name uid node ips ans).2.res = .ok) :
    (bindFinish F s pod ns name uid node ips ans).2.ips.map (·.ip) = ips := by
  have e := bindFinish_ok_eq F s pod ns name uid node ips ans h
  rw [e] at h ⊢
  exact bindCommitX_ips s pod ns name uid node ips h

/-- Bind when the addresses `ips` (one per requested range, or the one chosen owned address) are already owned: no
    allocation; "waiting for delete event" if a record of the key carries another incarnation's uid; otherwise the
    answer, if ok, lists exactly `ips` in request order -/
theorem bind_found (s : State) (ns name : String) (uid : Nat) (node : String) (ch : Choice) (pod : Pod) (ips : List IP)
    (hl : Tbl.get s.vPods (ns, name) = some pod) (hw : pod.wants = true)
    (hinfos : bindInfos s pod ch = some (ips.map some)) (hne : ips ≠ [])
    (hok : (bind Facts.good s ns name uid node ch).2.res = .ok) :
    (bind Facts.good s ns name uid node ch).2.ips.map (·.ip) = ips ∧
    (∀ ip, ip ∈ ipsOfKey s (keyOf pod) → ∀ r, Tbl.get s.alloc ip = some r → r.uid = 0 ∨ r.uid = pod.uid) := by
  unfold bind at hok ⊢
  simp only [hl, hw, Bool.not_true, Bool.false_eq_true, if_false] at hok ⊢
  split at hok
  · exact absurd hok (by simp [Out.err])
  · rename_i hls
    rw [if_neg hls]
    simp only [hinfos, good_bindChecksUID, Bool.true_and, bindGuardIPs, good_bindUidGuardCoversWholeKey, if_true,
      bindAlloc_found s pod node _ ips ch.pick hne, filterMap_map_some] at hok ⊢
    split at hok
    · exact absurd hok (by simp [Out.err])
    · rename_i hg
      rw [if_neg hg]
      constructor
      · cases hr : (bindLoop s (keyOf pod) node { policy := policyOf pod, node := node, uid := pod.uid } ips ips).2 with
        | ok =>
          simp only [hr] at hok ⊢
          exact bindFinish_ips _ _ _ _ _ _ _ _ _ hok
        | err c => simp only [hr] at hok; cases hok
        | inadmissible => simp only [hr] at hok; cases hok
      · intro ip hm r hr
        rw [List.any_eq_true] at hg
        by_cases h0 : r.uid = 0
        · exact Or.inl h0
        · by_cases h1 : r.uid = pod.uid
          · exact Or.inr h1
          · exfalso
            apply hg
            refine ⟨ip, hm, ?_⟩
            rw [hr]
            simp [h0, h1]

/-- the UID-guard wait: a record of the key that still carries the uid of another incarnation makes Bind answer
    "waiting for delete event" and change nothing - the new incarnation is NOT given another address -/
theorem bind_waits (s : State) (ns name : String) (uid : Nat) (node : String) (ch : Choice) (pod : Pod)
    (infos : List (Option IP))
    (hl : Tbl.get s.vPods (ns, name) = some pod) (hw : pod.wants = true) (hu : uid = 0 ∨ uid = pod.uid)
    (hinfos : bindInfos s pod ch = some infos)
    (ip : IP) (r : Rec) (hm : ip ∈ ipsOfKey s (keyOf pod)) (hr : Tbl.get s.alloc ip = some r) (h0 : r.uid ≠ 0)
    (h1 : r.uid ≠ pod.uid) :
    bind Facts.good s ns name uid node ch = (s, Out.err "waiting-for-delete") := by
  unfold bind
  simp only [hl, hw, Bool.not_true, Bool.false_eq_true, if_false]
  split
  · rename_i hls
    exfalso
    simp only [good_bindChecksListerUID, Bool.true_and, Bool.and_eq_true, bne_iff_ne, ne_eq] at hls
    rcases hu with hu | hu
    · exact hls.1.1 hu
    · exact hls.2 hu.symm
  · simp only [hinfos, good_bindChecksUID, Bool.true_and, bindGuardIPs, good_bindUidGuardCoversWholeKey, if_true]
    split
    · rfl
    · rename_i hg
      exfalso
      apply hg
      rw [List.any_eq_true]
      refine ⟨ip, hm, ?_⟩
      rw [hr]; simp [h0, h1]

/-- without requested ranges Bind looks at ONE owned address: any of them (`ipInfos[:1]`, map order) -/
theorem bindInfos_noranges (s : State) (pod : Pod) (ch : Choice) (hr : pod.ranges = []) (infos : List (Option IP))
    (h : bindInfos s pod ch = some infos) (hown : ipsOfKey s (keyOf pod) ≠ []) :
    ∃ i, i ∈ ipsOfKey s (keyOf pod) ∧ infos = [some i] := by
  unfold bindInfos at h
  have hb : byKeyAndRanges s (keyOf pod) pod.ranges = (ipsOfKey s (keyOf pod)).map some := by
    unfold byKeyAndRanges; simp [hr]
  have hne : ((ipsOfKey s (keyOf pod)).map some).isEmpty = false := by
    cases hx : ipsOfKey s (keyOf pod) with
    | nil => exact absurd hx hown
    | cons a t => simp
  rw [hb] at h
  simp only [hr, List.isEmpty_nil, hne, Bool.not_false, Bool.and_self, if_true] at h
  unfold pickFirst at h
  cases hf : ch.first with
  | some ip =>
    rw [hf] at h
    simp only at h
    split at h
    · rename_i hc
      simp at h
      refine ⟨ip, ?_, h.symm⟩
      simpa using hc
    · simp at h
  | none =>
    rw [hf] at h
    simp only at h
    split at h
    · rename_i ip heq
      simp at h
      refine ⟨ip, ?_, h.symm⟩
      have : some ip ∈ (ipsOfKey s (keyOf pod)).map some := by rw [heq]; simp
      simpa using this
    · simp at h

/-- with requested ranges Bind looks at the first owned address of every range -/
theorem bindInfos_ranges (s : State) (pod : Pod) (ch : Choice) (hr : pod.ranges ≠ []) :
    bindInfos s pod ch = some (byKeyAndRanges s (keyOf pod) pod.ranges) := by
  unfold bindInfos
  have : pod.ranges.isEmpty = false := by cases hx : pod.ranges <;> simp_all
  simp [this]

/-! ### `reserveIP(key, key)` keeps the reservation -/

/-- `ReserveIP(k, k, {})` - whichever store call fails - keeps every record of every key under its key with its policy;
    only node and uid change -/
theorem reserve_own_keeps (s : State) (k : Key) (ip : IP) :
    (∀ r', Tbl.get (reserve s k k {}).1.alloc ip = some r' →
      ∃ r, Tbl.get s.alloc ip = some r ∧ r'.key = r.key ∧ r'.policy = r.policy) ∧
    (∀ r, Tbl.get s.alloc ip = some r → ∃ r', Tbl.get (reserve s k k {}).1.alloc ip = some r' ∧ r'.key = r.key ∧ r'.policy = r.policy) := by
  constructor
  · intro r' h
    obtain ⟨r, g, p, kk⟩ := reserve_recs s k k {} ip r' h
    refine ⟨r, g, ?_, p⟩
    rcases kk with kk | ⟨k1, k2⟩
    · exact kk
    · rw [k1, k2]
  · intro r h
    obtain ⟨r', g'⟩ := reserve_keeps s k k {} ip r h
    obtain ⟨r0, g0, p, kk⟩ := reserve_recs s k k {} ip r' g'
    rw [h] at g0; cases g0
    refine ⟨r', g', ?_, p⟩
    rcases kk with kk | ⟨k1, k2⟩
    · exact kk
    · rw [k1, k2]

/-- a record whose uid is already the one `ReserveIP` writes keeps it -/
theorem reserveLoop_uid_stable (k : Key) (A : Attr) (ip : IP) : ∀ (l : List IP) (s0 : State) (r0 : Rec),
    Tbl.get s0.alloc ip = some r0 → r0.uid = A.uid →
    ∀ r1, Tbl.get (reserveLoop s0 k k A l).1.alloc ip = some r1 → r1.uid = A.uid := by
  intro l
  induction l with
  | nil =>
    intro s0 r0 h0 hu r1 h1
    simp only [reserveLoop] at h1
    rw [h0] at h1; cases h1; exact hu
  | cons x l ihl =>
    intro s0 r0 h0 hu r1 h1
    unfold reserveLoop at h1
    split at h1
    · exact ihl s0 r0 h0 hu r1 h1
    · rename_i rx hrx
      dsimp only at h1
      split at h1
      · exact ihl s0 r0 h0 hu r1 h1
      · split at h1
        · exact ihl s0 r0 h0 hu r1 h1
        · have st := stUpdate_step s0 x (rx.assign k { A with policy := rx.policy } s0.clock)
          split at h1
          · rw [st.alloc, h0] at h1; cases h1; exact hu
          · by_cases hxi : x = ip
            · subst hxi
              exact ihl _ (rx.assign k { A with policy := rx.policy } s0.clock) (Tbl.get_set_self _ _ _) rfl r1 h1
            · exact ihl _ r0 (by
                show Tbl.get (Tbl.set _ _ _) _ = _
                rw [Tbl.get_set_ne _ _ hxi, st.alloc]; exact h0) hu r1 h1

/-- with coherent tables and no failing call `ReserveIP(k, k, A)` writes `A.uid` into every record of the key -/
theorem reserveLoop_uid (k : Key) (A : Attr) (ips : List IP) :
    ∀ s, Coherent s → FaultSpent s →
      ∀ ip, ip ∈ ips → ∀ r, Tbl.get (reserveLoop s k k A ips).1.alloc ip = some r → r.key = k → r.uid = A.uid := by
  induction ips with
  | nil => intro s _ _ ip hm; cases hm
  | cons j t ih =>
    intro s hc hf ip hm r hr hk
    unfold reserveLoop at hr
    split at hr
    · rename_i hn
      rcases List.mem_cons.mp hm with e | hm'
      · subst e
        obtain ⟨r1, g1, _, _⟩ := reserveLoop_recs k k A t s ip r hr
        rw [hn] at g1; cases g1
      · exact ih s hc hf ip hm' r hr hk
    · rename_i rj hrj
      dsimp only at hr
      split at hr
      · rename_i hkj
        have hkj' : rj.key ≠ k := by simpa using hkj
        rcases List.mem_cons.mp hm with e | hm'
        · subst e
          obtain ⟨r1, g1, _, kk⟩ := reserveLoop_recs k k A t s ip r hr
          rw [hrj] at g1; cases g1
          exfalso
          rcases kk with kk | ⟨k1, _⟩
          · exact hkj' (kk ▸ hk)
          · exact hkj' k1
        · exact ih s hc hf ip hm' r hr hk
      · split at hr
        · rename_i hsame
          rcases List.mem_cons.mp hm with e | hm'
          · subst e
            exact reserveLoop_uid_stable k A ip t s rj hrj hsame.2.1 r hr
          · exact ih s hc hf ip hm' r hr hk
        · have st := stUpdate_step s j (rj.assign k { A with policy := rj.policy } s.clock)
          have ss := stUpdate_store s j (rj.assign k { A with policy := rj.policy } s.clock)
          have hok : (stUpdate s j (rj.assign k { A with policy := rj.policy } s.clock)).2 = true :=
            stUpdate_ok_of_spent s j _ hf (by rw [hc.agree, hrj]; rfl)
          simp only [hok, Bool.not_true, Bool.false_eq_true, if_false] at hr
          have hc1 : Coherent { (stUpdate s j (rj.assign k { A with policy := rj.policy } s.clock)).1 with
              alloc := Tbl.set (stUpdate s j (rj.assign k { A with policy := rj.policy } s.clock)).1.alloc j
                (rj.assign k { A with policy := rj.policy } s.clock) } :=
            coherent_set j rj _ hc hrj st.frame.pools (congrArg (fun t => Tbl.set t j _) st.alloc) (ss.1 hok) st.free
          have hf1 : FaultSpent { (stUpdate s j (rj.assign k { A with policy := rj.policy } s.clock)).1 with
              alloc := Tbl.set (stUpdate s j (rj.assign k { A with policy := rj.policy } s.clock)).1.alloc j
                (rj.assign k { A with policy := rj.policy } s.clock) } := stUpdate_spent s j _ hf
          rcases List.mem_cons.mp hm with e | hm'
          · subst e
            exact reserveLoop_uid_stable k A ip t _ (rj.assign k { A with policy := rj.policy } s.clock)
              (Tbl.get_set_self _ _ _) rfl r hr
          · exact ih _ hc1 hf1 ip hm' r hr hk

theorem reserve_own_clears_uid (s : State) (k : Key) (hc : Coherent s) (hf : FaultSpent s) (ip : IP) (r' : Rec)
    (h : Tbl.get (reserve s k k {}).1.alloc ip = some r') (hk : r'.key = k) : r'.uid = 0 := by
  obtain ⟨r, g, kk, _⟩ := (reserve_own_keeps s k ip).1 r' h
  exact reserveLoop_uid k {} (ipsOfKey s k) s hc hf ip (mem_ipsOfKey_of_get g (kk ▸ hk)) r' h hk

end Galaxy.Plugin.C02
