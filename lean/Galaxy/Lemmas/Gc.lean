/-
  Helper lemmas for the GC model (C17).
-/
import Galaxy.Model.Gc

namespace Galaxy.Gc
open Galaxy.Generated.Gc

theorem contains_exited (hst : exitedStates = ["dead", "exited"]) (s : String) :
    exitedStates.contains s = true ↔ s = "exited" ∨ s = "dead" := by
  rw [hst]
  simp only [List.contains_iff_mem, List.mem_cons, List.not_mem_nil, or_false]
  exact Or.comm

theorem any_active_iff (sts : List CState) :
    (!(sts.any (fun s => s.waiting || s.running))) = true ↔ ∀ s ∈ sts, s.waiting = false ∧ s.running = false := by
  induction sts with
  | nil => simp
  | cons a t ih =>
    simp only [List.any_cons, Bool.not_or, Bool.and_eq_true, Bool.not_eq_true',
      List.mem_cons, forall_eq_or_imp]
    constructor
    · intro ⟨h1, h2⟩
      refine ⟨h1, ?_⟩
      apply ih.mp; simp [h2]
    · intro ⟨h1, h2⟩
      refine ⟨h1, ?_⟩
      have := ih.mpr h2
      simpa using this

theorem shouldCleanup_of_dead (hst : exitedStates = ["dead", "exited"]) {o : InspectOutcome} (h : Dead o) :
    shouldCleanup o = true := by
  cases h with
  | dockerNotFound => rfl
  | dockerExited => simp [shouldCleanup, hst]
  | dockerDead => simp [shouldCleanup, hst]
  | criNotFound => rfl
  | criPodGone => rfl
  | criAllTerminated sts h => simp only [shouldCleanup]; exact (any_active_iff sts).mpr h

theorem dead_of_shouldCleanup (hst : exitedStates = ["dead", "exited"]) {o : InspectOutcome}
    (h : shouldCleanup o = true) : Dead o := by
  match o, h with
  | .docker .notFound, _ => exact .dockerNotFound
  | .docker (.state (some s)), h =>
    simp only [shouldCleanup] at h
    rcases (contains_exited hst s).mp h with e | e
    · subst e; exact .dockerExited
    · subst e; exact .dockerDead
  | .cri .notFound, _ => exact .criNotFound
  | .cri (.notReady .notFound), _ => exact .criPodGone
  | .cri (.notReady (.found sts)), h =>
    simp only [shouldCleanup] at h
    exact .criAllTerminated sts ((any_active_iff sts).mp h)

theorem not_shouldCleanup_of_error {o : InspectOutcome} (h : RuntimeError o) : shouldCleanup o = false := by
  cases h <;> rfl

theorem not_shouldCleanup_of_alive (hst : exitedStates = ["dead", "exited"]) {o : InspectOutcome} (h : Alive o) :
    shouldCleanup o = false := by
  cases h with
  | dockerState s h1 h2 =>
    cases hc : shouldCleanup (.docker (.state (some s))) with
    | false => rfl
    | true =>
      simp only [shouldCleanup] at hc
      rcases (contains_exited hst s).mp hc with e | e
      · exact absurd e h1
      · exact absurd e h2
  | criReady => rfl
  | criContainerActive sts s hm h =>
    cases hc : shouldCleanup (.cri (.notReady (.found sts))) with
    | false => rfl
    | true =>
      simp only [shouldCleanup] at hc
      have := (any_active_iff sts).mp hc s hm
      rcases h with h | h
      · rw [this.1] at h; exact absurd h (by simp)
      · rw [this.2] at h; exact absurd h (by simp)

theorem classification (o : InspectOutcome) :
    Dead o ∨ Alive o ∨ RuntimeError o ∨ o = .docker (.state none) ∨ o = .cri .nilStatus := by
  match o with
  | .docker .notFound => exact Or.inl .dockerNotFound
  | .docker .error => exact Or.inr (Or.inr (Or.inl .docker))
  | .docker (.state none) => simp
  | .docker (.state (some s)) =>
    by_cases h1 : s = "exited"
    · subst h1; exact Or.inl .dockerExited
    · by_cases h2 : s = "dead"
      · subst h2; exact Or.inl .dockerDead
      · exact Or.inr (Or.inl (.dockerState s h1 h2))
  | .cri .notFound => exact Or.inl .criNotFound
  | .cri .error => exact Or.inr (Or.inr (Or.inl .cri))
  | .cri .nilStatus => simp
  | .cri .ready => exact Or.inr (Or.inl .criReady)
  | .cri (.notReady .notFound) => exact Or.inl .criPodGone
  | .cri (.notReady .error) => exact Or.inr (Or.inr (Or.inl .pod))
  | .cri (.notReady (.found sts)) =>
    by_cases h : ∀ s ∈ sts, s.waiting = false ∧ s.running = false
    · exact Or.inl (.criAllTerminated sts h)
    · refine Or.inr (Or.inl ?_)
      have : ∃ s, s ∈ sts ∧ ¬ (s.waiting = false ∧ s.running = false) := by
        simpa using h
      obtain ⟨s, hm, hs⟩ := this
      refine .criContainerActive sts s hm ?_
      cases hw : s.waiting <;> cases hr : s.running <;> simp_all

/-! ### the files a sweep takes, in the property's vocabulary -/

/-- an IP reservation file of a dead container: regular file, IP name, non-empty content naming a dead container -/
def IsDeadIPFile (rt : Runtime) (e : Entry) : Prop :=
  ∃ content, e.kind = .file content ∧ e.isIPName = true ∧ content ≠ "" ∧ Dead (rt (cidOfContent content))

/-- a state file (network / port state) of a dead container: regular file whose name is a dead container's id -/
def IsDeadStateFile (rt : Runtime) (e : Entry) : Prop :=
  ∃ content, e.kind = .file content ∧ Dead (rt e.name)

theorem removesIP_iff (hst : exitedStates = ["dead", "exited"]) (rt : Runtime) (e : Entry) :
    removesIP rt e = true ↔ IsDeadIPFile rt e := by
  unfold removesIP IsDeadIPFile
  cases hk : e.kind with
  | dir => simp
  | file content =>
    simp only [Bool.and_eq_true, Bool.not_eq_true', Kind.file.injEq, exists_eq_left']
    constructor
    · intro ⟨⟨h1, h2⟩, h3⟩
      refine ⟨h1, ?_, dead_of_shouldCleanup hst h3⟩
      intro hc; subst hc; simp at h2
    · intro ⟨h1, h2, h3⟩
      refine ⟨⟨h1, ?_⟩, shouldCleanup_of_dead hst h3⟩
      cases hce : content.isEmpty with
      | false => rfl
      | true => exact absurd (String.isEmpty_iff.mp hce) h2

theorem removesGC_iff (hst : exitedStates = ["dead", "exited"]) (rt : Runtime) (e : Entry) :
    removesGC rt e = true ↔ IsDeadStateFile rt e := by
  unfold removesGC IsDeadStateFile
  cases hk : e.kind with
  | dir => simp
  | file content =>
    simp only [Kind.file.injEq, exists_eq_left']
    exact ⟨dead_of_shouldCleanup hst, shouldCleanup_of_dead hst⟩

theorem filter_filter_self {α : Type} (p : α → Bool) (l : List α) : (l.filter p).filter p = l.filter p := by
  simp [List.filter_filter]

theorem applyCallbacks_not_mem (ms calls : List String) (cid : String) (h : cid ∈ calls) :
    cid ∉ applyCallbacks (fun _ => false) ms calls := by
  unfold applyCallbacks
  induction calls generalizing ms with
  | nil => simp at h
  | cons c t ih =>
    simp only [List.foldl_cons, Bool.false_eq_true, if_false]
    rcases List.mem_cons.mp h with e | e
    · subst e
      -- once removed, a mapping never comes back
      have stay : ∀ (l : List String) (ms : List String), cid ∉ ms →
          cid ∉ l.foldl (fun ms c => if (false = true) then ms else ms.filter (· != c)) ms := by
        intro l
        induction l with
        | nil => intro ms h; simpa using h
        | cons a r ihr =>
          intro ms h
          simp only [List.foldl_cons, Bool.false_eq_true, if_false]
          apply ihr
          intro hm; exact h (List.mem_filter.mp hm).1
      have := stay t (ms.filter (· != cid)) (by simp)
      simpa using this
    · exact ih _ e

end Galaxy.Gc

namespace Galaxy.Gc
open Galaxy.Generated.Gc

/-! ### the sweep interleaved with environment moves -/

theorem lookup_write (d : Dir) (e : Entry) (n : String) :
    Dir.lookup (Dir.write d e) n = if e.name = n then some e else Dir.lookup d n := by
  induction d with
  | nil => simp [Dir.write, Dir.lookup]
  | cons x t ih =>
    by_cases h1 : x.name = e.name
    · by_cases h2 : e.name = n
      · simp [Dir.write, Dir.lookup, h1, h2]
      · have h3 : x.name ≠ n := by rw [h1]; exact h2
        simp [Dir.write, Dir.lookup, h1, h2]
    · by_cases h2 : x.name = n
      · have h3 : e.name ≠ n := by intro e'; exact h1 (h2.trans e'.symm)
        have h1' : ¬ n = e.name := fun e' => h3 e'.symm
        simp [Dir.write, Dir.lookup, h2, h3, h1']
      · simp [Dir.write, Dir.lookup, h1, h2, ih]

theorem lookup_remove (d : Dir) (m n : String) :
    Dir.lookup (Dir.remove d m) n = if m = n then none else Dir.lookup d n := by
  induction d with
  | nil => simp [Dir.remove, Dir.lookup]
  | cons x t ih =>
    by_cases h1 : x.name = m
    · by_cases h2 : m = n
      · subst h2
        simp [Dir.remove, h1, ih]
      · simp [Dir.remove, Dir.lookup, h1, ih, h2]
    · by_cases h2 : x.name = n
      · have h3 : m ≠ n := by intro e'; exact h1 (h2.trans e'.symm)
        have h1' : ¬ n = m := fun e' => h3 e'.symm
        simp [Dir.remove, Dir.lookup, h2, h3, h1']
      · simp [Dir.remove, Dir.lookup, h1, h2, ih]

theorem dirAt_modifyAt (f : Dir → Dir) (fs : FS) (i j : Nat) :
    dirAt (modifyAt f fs i) j = if i = j then (dirAt fs j).map f else dirAt fs j := by
  induction fs generalizing i j with
  | nil => cases i <;> simp [modifyAt, dirAt]
  | cons x t ih =>
    cases i with
    | zero =>
      cases j with
      | zero => simp [modifyAt, dirAt]
      | succ j => simp [modifyAt, dirAt]
    | succ i =>
      cases j with
      | zero => simp [modifyAt, dirAt]
      | succ j => simp [modifyAt, dirAt, ih]

/-- a move that does not hit file `n` of directory `j` leaves its content alone -/
theorem contentOf_apply (fs : FS) (m : EnvMove) (j : Nat) (n : String) (h : m.targets j n = false) :
    contentOf (FS.apply fs m) j n = contentOf fs j n := by
  cases m with
  | write d n' c ip6 =>
    simp only [EnvMove.targets, Bool.and_eq_false_iff, beq_eq_false_iff_ne] at h
    unfold contentOf FS.apply
    rw [dirAt_modifyAt]
    by_cases hd : d = j
    · subst hd
      have hn : n' ≠ n := by rcases h with h | h; exact absurd rfl h; exact h
      cases hda : dirAt fs d with
      | none => simp
      | some dir => simp [lookup_write, hn]
    · simp [hd]
  | delete d n' =>
    simp only [EnvMove.targets, Bool.and_eq_false_iff, beq_eq_false_iff_ne] at h
    unfold contentOf FS.apply
    rw [dirAt_modifyAt]
    by_cases hd : d = j
    · subst hd
      have hn : n' ≠ n := by rcases h with h | h; exact absurd rfl h; exact h
      cases hda : dirAt fs d with
      | none => simp
      | some dir => simp [lookup_remove, hn]
    · simp [hd]

theorem contentOf_foldl_apply (ms : List EnvMove) (fs : FS) (j : Nat) (n : String)
    (h : ∀ m ∈ ms, m.targets j n = false) : contentOf (ms.foldl FS.apply fs) j n = contentOf fs j n := by
  induction ms generalizing fs with
  | nil => rfl
  | cons m t ih =>
    simp only [List.foldl_cons]
    rw [ih _ (fun m' hm' => h m' (by simp [hm'])), contentOf_apply fs m j n (h m (by simp))]

/-- every removal of the log took a file whose content at the moment of removal was the content the collector had
    read in the same iteration, and the container named there was judged dead -/
def LogOK (rt : Runtime) (log : List Removal) : Prop :=
  ∀ r ∈ log, r.contentAtRemoval = some r.readContent ∧ Dead (rt (cidOfContent r.readContent))

theorem stepIPFile_logOK (hst : exitedStates = ["dead", "exited"]) (rt : Runtime) (sched : Nat → List EnvMove) (j : Nat)
    (st : SweepState) (e : Entry) (h : LogOK rt st.log) : LogOK rt (stepIPFile rt sched j st e).log := by
  unfold stepIPFile
  cases e.kind with
  | dir => exact h
  | file _ =>
    simp only
    split
    · exact h
    · cases hc : contentOf st.fs j e.name with
      | none => exact h
      | some c =>
        simp only
        split
        · exact h
        · split
          · rename_i hclean
            intro r hr
            simp only [List.mem_append, List.mem_singleton] at hr
            rcases hr with hr | hr
            · exact h r hr
            · subst hr
              refine ⟨?_, dead_of_shouldCleanup hst hclean⟩
              simp only
              rw [contentOf_foldl_apply _ _ _ _ (by
                intro m hm
                have := (List.mem_filter.mp hm).2
                simpa using this), hc]
          · exact h

theorem foldl_stepIPFile_logOK (hst : exitedStates = ["dead", "exited"]) (rt : Runtime) (sched : Nat → List EnvMove) (j : Nat)
    (l : List Entry) (st : SweepState) (h : LogOK rt st.log) : LogOK rt (l.foldl (stepIPFile rt sched j) st).log := by
  induction l generalizing st with
  | nil => exact h
  | cons e t ih => exact ih _ (stepIPFile_logOK hst rt sched j st e h)

theorem sweepIPDirI_logOK (hst : exitedStates = ["dead", "exited"]) (rt : Runtime) (sched : Nat → List EnvMove)
    (st : SweepState) (j : Nat) (h : LogOK rt st.log) : LogOK rt (sweepIPDirI rt sched st j).log := by
  unfold sweepIPDirI
  cases dirAt st.fs j with
  | none => exact h
  | some l => exact foldl_stepIPFile_logOK hst rt sched j _ st h

theorem sweepIPDirsI_logOK (hst : exitedStates = ["dead", "exited"]) (rt : Runtime) (sched : Nat → List EnvMove) (fs : FS) :
    LogOK rt (sweepIPDirsI rt sched fs).log := by
  unfold sweepIPDirsI
  have : ∀ (js : List Nat) (st : SweepState), LogOK rt st.log → LogOK rt (js.foldl (sweepIPDirI rt sched) st).log := by
    intro js
    induction js with
    | nil => intro st h; exact h
    | cons j t ih => intro st h; exact ih _ (sweepIPDirI_logOK hst rt sched st j h)
  exact this _ _ (by intro r hr; simp at hr)

end Galaxy.Gc
