/-
  Helper lemmas for the GC model (C17).
-/
import Galaxy.Model.Gc

namespace Galaxy.Gc
open Galaxy.Generated.Gc

theorem contains_exited (hst : exitedStates = ["dead", "exited"]) (s : String) :
    exitedStates.contains s = true ↔ s = "exited" ∨ s = "dead" := by
  rw [hst]
  simp only [List.contains_iff_mem, List.mem_cons, List.not_mem_nil, or_false]
  exact Or.comm

theorem any_active_iff (sts : List CState) :
    (!(sts.any (fun s => s.waiting || s.running))) = true ↔ ∀ s ∈ sts, s.waiting = false ∧ s.running = false := by
  induction sts with
  | nil => simp
  | cons a t ih =>
    simp only [List.any_cons, Bool.not_or, Bool.and_eq_true, Bool.not_eq_true',
      List.mem_cons, forall_eq_or_imp]
    constructor
    · intro ⟨h1, h2⟩
      refine ⟨h1, ?_⟩
      apply ih.mp; simp [h2]
    · intro ⟨h1, h2⟩
      refine ⟨h1, ?_⟩
      have := ih.mpr h2
      simpa using this

theorem shouldCleanup_of_dead (hst : exitedStates = ["dead", "exited"]) {o : InspectOutcome} (h : Dead o) :
    shouldCleanup o = true := by
  cases h with
  | dockerNotFound => rfl
  | dockerExited => simp [shouldCleanup, hst]
  | dockerDead => simp [shouldCleanup, hst]
  | criNotFound => rfl
  | criPodGone => rfl
  | criAllTerminated sts h => simp only [shouldCleanup]; exact (any_active_iff sts).mpr h

theorem dead_of_shouldCleanup (hst : exitedStates = ["dead", "exited"]) {o : InspectOutcome}
    (h : shouldCleanup o = true) : Dead o := by
  match o, h with
  | .docker .notFound, _ => exact .dockerNotFound
  | .docker (.state (some s)), h =>
    simp only [shouldCleanup] at h
    rcases (contains_exited hst s).mp h with e | e
    · subst e; exact .dockerExited
    · subst e; exact .dockerDead
  | .cri .notFound, _ => exact .criNotFound
  | .cri (.notReady .notFound), _ => exact .criPodGone
  | .cri (.notReady (.found sts)), h =>
    simp only [shouldCleanup] at h
    exact .criAllTerminated sts ((any_active_iff sts).mp h)

theorem not_shouldCleanup_of_error {o : InspectOutcome} (h : RuntimeError o) : shouldCleanup o = false := by
  cases h <;> rfl

theorem not_shouldCleanup_of_alive (hst : exitedStates = ["dead", "exited"]) {o : InspectOutcome} (h : Alive o) :
    shouldCleanup o = false := by
  cases h with
  | dockerState s h1 h2 =>
    cases hc : shouldCleanup (.docker (.state (some s))) with
    | false => rfl
    | true =>
      simp only [shouldCleanup] at hc
      rcases (contains_exited hst s).mp hc with e | e
      · exact absurd e h1
      · exact absurd e h2
  | criReady => rfl
  | criContainerActive sts s hm h =>
    cases hc : shouldCleanup (.cri (.notReady (.found sts))) with
    | false => rfl
    | true =>
      simp only [shouldCleanup] at hc
      have := (any_active_iff sts).mp hc s hm
      rcases h with h | h
      · rw [this.1] at h; exact absurd h (by simp)
      · rw [this.2] at h; exact absurd h (by simp)

theorem classification (o : InspectOutcome) :
    Dead o ∨ Alive o ∨ RuntimeError o ∨ o = .docker (.state none) ∨ o = .cri .nilStatus := by
  match o with
  | .docker .notFound => exact Or.inl .dockerNotFound
  | .docker .error => exact Or.inr (Or.inr (Or.inl .docker))
  | .docker (.state none) => simp
  | .docker (.state (some s)) =>
    by_cases h1 : s = "exited"
    · subst h1; exact Or.inl .dockerExited
    · by_cases h2 : s = "dead"
      · subst h2; exact Or.inl .dockerDead
      · exact Or.inr (Or.inl (.dockerState s h1 h2))
  | .cri .notFound => exact Or.inl .criNotFound
  | .cri .error => exact Or.inr (Or.inr (Or.inl .cri))
  | .cri .nilStatus => simp
  | .cri .ready => exact Or.inr (Or.inl .criReady)
  | .cri (.notReady .notFound) => exact Or.inl .criPodGone
  | .cri (.notReady .error) => exact Or.inr (Or.inr (Or.inl .pod))
  | .cri (.notReady (.found sts)) =>
    by_cases h : ∀ s ∈ sts, s.waiting = false ∧ s.running = false
    · exact Or.inl (.criAllTerminated sts h)
    · refine Or.inr (Or.inl ?_)
      have : ∃ s, s ∈ sts ∧ ¬ (s.waiting = false ∧ s.running = false) := by
        simpa using h
      obtain ⟨s, hm, hs⟩ := this
      refine .criContainerActive sts s hm ?_
      cases hw : s.waiting <;> cases hr : s.running <;> simp_all

/-! ### the files a sweep takes, in the property's vocabulary -/

/-- an IP reservation file of a dead container: regular file, IP name, non-empty content naming a dead container -/
def IsDeadIPFile (rt : Runtime) (e : Entry) : Prop :=
  ∃ content, e.kind = .file content ∧ e.isIPName = true ∧ content ≠ "" ∧ Dead (rt (cidOfContent content))

/-- a state file (network / port state) of a dead container: regular file whose name is a dead container's id -/
def IsDeadStateFile (rt : Runtime) (e : Entry) : Prop :=
  ∃ content, e.kind = .file content ∧ Dead (rt e.name)

theorem removesIP_iff (hst : exitedStates = ["dead", "exited"]) (rt : Runtime) (e : Entry) :
    removesIP rt e = true ↔ IsDeadIPFile rt e := by
  unfold removesIP IsDeadIPFile
  cases hk : e.kind with
  | dir => simp
  | file content =>
    simp only [Bool.and_eq_true, Bool.not_eq_true', Kind.file.injEq, exists_eq_left']
    constructor
    · intro ⟨⟨h1, h2⟩, h3⟩
      refine ⟨h1, ?_, dead_of_shouldCleanup hst h3⟩
      intro hc; subst hc; simp at h2
    · intro ⟨h1, h2, h3⟩
      refine ⟨⟨h1, ?_⟩, shouldCleanup_of_dead hst h3⟩
      cases hce : content.isEmpty with
      | false => rfl
      | true => exact absurd (String.isEmpty_iff.mp hce) h2

theorem removesGC_iff (hst : exitedStates = ["dead", "exited"]) (rt : Runtime) (e : Entry) :
    removesGC rt e = true ↔ IsDeadStateFile rt e := by
  unfold removesGC IsDeadStateFile
  cases hk : e.kind with
  | dir => simp
  | file content =>
    simp only [Kind.file.injEq, exists_eq_left']
    exact ⟨dead_of_shouldCleanup hst, shouldCleanup_of_dead hst⟩

theorem filter_filter_self {α : Type} (p : α → Bool) (l : List α) : (l.filter p).filter p = l.filter p := by
  simp [List.filter_filter]

theorem applyCallbacks_not_mem (ms calls : List String) (cid : String) (h : cid ∈ calls) :
    cid ∉ applyCallbacks (fun _ => false) ms calls := by
  unfold applyCallbacks
  induction calls generalizing ms with
  | nil => simp at h
  | cons c t ih =>
    simp only [List.foldl_cons, Bool.false_eq_true, if_false]
    rcases List.mem_cons.mp h with e | e
    · subst e
      -- once removed, a mapping never comes back
      have stay : ∀ (l : List String) (ms : List String), cid ∉ ms →
          cid ∉ l.foldl (fun ms c => if (false = true) then ms else ms.filter (· != c)) ms := by
        intro l
        induction l with
        | nil => intro ms h; simpa using h
        | cons a r ihr =>
          intro ms h
          simp only [List.foldl_cons, Bool.false_eq_true, if_false]
          apply ihr
          intro hm; exact h (List.mem_filter.mp hm).1
      have := stay t (ms.filter (· != cid)) (by simp)
      simpa using this
    · exact ih _ e

end Galaxy.Gc
