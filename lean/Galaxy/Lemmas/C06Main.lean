/-
  C06 lemmas, part 8: Bind on a node Filter approved - the case analysis behind `filter_then_bind_succeeds`,
  `bound_ip_routable` and `ipinfo_from_pool`.
-/
import Galaxy.Lemmas.C06Bind

namespace Galaxy.Plugin.C06
open Galaxy Galaxy.Plugin

/-- the state Bind starts from: coherent IPAM, no injected fault, the lister shows the pod the API server has, the
    scheduler binds that pod -/
structure BindScene (t : State) (ns name : String) (pod : Pod) (uid : Nat) : Prop where
  coh : Coherent t
  nf : NoFault t
  lister : Tbl.get t.vPods (ns, name) = some pod
  truth : Tbl.get t.pods (ns, name) = some pod
  uid : uid = 0 ∨ pod.uid = uid
  wants : pod.wants = true
  pending : pod.node = ""

/-- what Filter established for an approved node: its subnet is cached, and if Bind has to allocate, every range list
    it will allocate from still has a free address in a pool listing that subnet -/
structure Ready (t : State) (pod : Pod) (node : String) (sn : Subnet) : Prop where
  cache : Tbl.get t.nodeCache node = some sn
  free : (unfound t pod ≠ [] ∨ held t pod = []) → FreeRoutable t sn (unfound t pod)

/-- the only ways the choice arguments of a bind move can be inadmissible: no ranges requested and either the named
    "first owned address" is not an owned address, or the named pick is not a candidate of AllocateInSubnet -/
def BadChoice (t : State) (pod : Pod) (sn : Subnet) (ch : Choice) : Prop :=
  pod.ranges = [] ∧
    ((ipsOfKey t (keyOf pod) ≠ [] ∧ pickFirst ((ipsOfKey t (keyOf pod)).map some) ch.first = none) ∨
     (ipsOfKey t (keyOf pod) = [] ∧ ¬ ∃ ip, ch.pick = some ip ∧ ip ∈ cands t sn))

/-- the answers of a Bind after Filter: inadmissible choice, "waiting for delete event", or ok with an annotation whose
    addresses were held before or were free addresses of pools listing the node subnet -/
def BindGood (t : State) (pod : Pod) (sn : Subnet) (ch : Choice) (o : Out) : Prop :=
  (o.res = .inadmissible ∧ BadChoice t pod sn ch) ∨ o.res = .err "waiting-for-delete" ∨
    (o.res = .ok ∧ ∃ ips : List IP, o.ips = ips.map (toHInfo t) ∧
      ∀ ip, ip ∈ ips → ip ∈ held t pod ∨ (ip ∈ t.free ∧ hasSubnet t ip sn = true))

theorem bind_finish (F : Facts) {t : State} {ns name : String} {pod : Pod} {uid : Nat} (node : String)
    (hs : BindScene t ns name pod uid) (ch : Choice) (hans : ch.answer = .truthful) (infos : List (Option IP))
    (hi : bindInfos t pod ch = some infos) (hu : (F.bindChecksUID && uidConflict F t pod infos) = false)
    (t2 : State) (infos2 : List (Option IP))
    (hA : bindAlloc t pod node { policy := policyOf pod, node := node, uid := pod.uid } infos ch.pick = (t2, .ok, infos2))
    (hc2 : Coherent t2) (fr : Frame t t2)
    (hown : ∀ ip, ip ∈ infos2.filterMap id → ip ∈ infos.filterMap id → Owns t2 (keyOf pod) ip) :
    (bind F t ns name uid node ch).2.res = .ok ∧
      (bind F t ns name uid node ch).2.ips = (infos2.filterMap id).map (toHInfo t) := by
  rw [bind_eq F t ns name uid node ch pod hs.lister hs.wants hs.uid infos hi hu _ hA]
  dsimp only
  have hl := bindLoop_ok (keyOf pod) node { policy := policyOf pod, node := node, uid := pod.uid }
    (infos.filterMap id) (infos2.filterMap id) t2 hc2 (hs.nf.of_frame fr) hown
  simp only [hl.1]
  have fr3 := fr.trans hl.2
  have hp : Tbl.get (bindLoop t2 (keyOf pod) node { policy := policyOf pod, node := node, uid := pod.uid }
      (infos.filterMap id) (infos2.filterMap id)).1.pods (ns, name) = some pod := by rw [fr3.pods]; exact hs.truth
  rw [hans, bindFinish_plain F (hs.nf.of_frame fr3) pod ns name uid node _ pod hp hs.uid hs.pending]
  have := bindCommit_ok (hs.nf.of_frame fr3) pod ns name uid node (infos2.filterMap id) pod hp hs.uid hs.pending
  refine ⟨this.1, ?_⟩
  rw [this.2]
  apply List.map_congr_left
  intro ip _
  exact toHInfo_pools fr3.pools ip

theorem queryNodeSubnet_hit {t : State} {node : String} {sn : Subnet} (h : Tbl.get t.nodeCache node = some sn) :
    queryNodeSubnet t node = (t, some sn) := by
  unfold queryNodeSubnet
  simp [h]

theorem length_byKeyAndRanges (s : State) (k : Key) (rss : List Ranges) (hne : rss ≠ []) :
    (byKeyAndRanges s k rss).length = rss.length := by
  unfold byKeyAndRanges
  cases rss with
  | nil => exact absurd rfl hne
  | cons _ _ => simp

theorem ranges_isEmpty_false {rss : List Ranges} (hne : rss ≠ []) : rss.isEmpty = false := by
  cases rss with
  | nil => exact absurd rfl hne
  | cons _ _ => rfl

theorem list_isEmpty_false {α : Type} {l : List α} (hne : l ≠ []) : l.isEmpty = false := by
  cases l with
  | nil => exact absurd rfl hne
  | cons _ _ => rfl

/-- every answer of a Bind on an approved node is ok / waiting / an inadmissible choice -/
theorem bind_good (F : Facts) {t : State} {ns name : String} {pod : Pod} {uid : Nat} {node : String} {sn : Subnet}
    (hs : BindScene t ns name pod uid) (hr : Ready t pod node sn) (hwf : wfRequest pod.ranges = true) (ch : Choice)
    (hans : ch.answer = .truthful) :
    BindGood t pod sn ch (bind F t ns name uid node ch).2 := by
  unfold BindGood
  have hn := hs.coh.allocNodup
  cases hi : bindInfos t pod ch with
  | none =>
    refine Or.inl ⟨bind_bad F t ns name uid node ch pod hs.lister hs.wants hs.uid hi, ?_⟩
    unfold bindInfos at hi
    split at hi
    · rename_i hcond
      simp only [Bool.and_eq_true, Bool.not_eq_eq_eq_not, Bool.not_true] at hcond
      have hre : pod.ranges = [] := isEmpty_eq_nil hcond.1
      rw [hre, byKeyAndRanges_nil] at hi hcond
      refine ⟨hre, Or.inl ⟨fun e => ?_, by simpa using hi⟩⟩
      rw [e] at hcond; simp at hcond
    · cases hi
  | some infos =>
    cases hu : (F.bindChecksUID && uidConflict F t pod infos) with
    | true => exact Or.inr (Or.inl (bind_waiting F t ns name uid node ch pod hs.lister hs.wants hs.uid infos hi hu))
    | false =>
      by_cases hre : pod.ranges = []
      · -- no ranges requested
        have hheld : held t pod = ipsOfKey t (keyOf pod) := held_nil t pod hre
        have hunf : unfound t pod = [] := by unfold unfound; rw [hre]; simp [unfoundRanges]
        by_cases hk : ipsOfKey t (keyOf pod) = []
        · -- the key owns nothing: AllocateInSubnet
          have hinfos : infos = [] := by
            unfold bindInfos at hi
            simp [hre, byKeyAndRanges_nil, hk] at hi
            exact hi
          subst hinfos
          obtain ⟨ip0, hip0, hsub0⟩ : ∃ ip, ip ∈ t.free ∧ hasSubnet t ip sn = true := by
            have := hr.free (Or.inr (by rw [hheld, hk]))
            rw [hunf] at this
            simpa [FreeRoutable] using this
          have hcne : cands t sn ≠ [] := by
            intro e
            have : ip0 ∈ cands t sn := (mem_cands t sn ip0).mpr ⟨hip0, hsub0⟩
            rw [e] at this; cases this
          have hq := queryNodeSubnet_hit hr.cache
          have hAeq : bindAlloc t pod node { policy := policyOf pod, node := node, uid := pod.uid } [] ch.pick =
              ((allocateInSubnet t (keyOf pod) sn { policy := policyOf pod, node := node, uid := pod.uid } ch.pick).1,
               (allocateInSubnet t (keyOf pod) sn { policy := policyOf pod, node := node, uid := pod.uid } ch.pick).2,
               byKeyAndRanges (allocateInSubnet t (keyOf pod) sn
                 { policy := policyOf pod, node := node, uid := pod.uid } ch.pick).1 (keyOf pod) pod.ranges) := by
            unfold bindAlloc
            simp [hq, hre, unfoundRanges, allocateInSubnetsAndRanges]
          rcases allocateInSubnet_cases hs.coh hs.nf (keyOf pod) sn
              { policy := policyOf pod, node := node, uid := pod.uid } ch.pick hcne with ⟨hbad, hno⟩ | ⟨ip, _, hipc, hok, halloc⟩
          · left
            refine ⟨?_, hre, Or.inr ⟨hk, hno⟩⟩
            rw [bind_eq F t ns name uid node ch pod hs.lister hs.wants hs.uid [] hi hu _ hAeq]
            simp only [hbad]
            rfl
          · right; right
            have hc2 := allocateInSubnet_coherent t (keyOf pod) sn
              { policy := policyOf pod, node := node, uid := pod.uid } ch.pick hs.coh
            have fr := (allocateInSubnet_chg t (keyOf pod) sn
              { policy := policyOf pod, node := node, uid := pod.uid } ch.pick hs.coh).frame
            rw [hok] at hAeq
            have fin := bind_finish F node hs ch hans [] hi hu _ _ hAeq hc2 fr (fun _ _ h => by cases h)
            refine ⟨fin.1, _, fin.2, fun j hj => ?_⟩
            right
            have hj' := byKeyAndRanges_owns hc2.allocNodup _ _ j hj
            obtain ⟨r, hr2, hrk⟩ := hj'
            rw [halloc, Tbl.get_set] at hr2
            by_cases e : ip = j
            · subst e; exact (mem_cands t sn ip).mp hipc
            · simp [e] at hr2
              have : j ∈ ipsOfKey t (keyOf pod) := mem_ipsOfKey_of_owns ⟨r, hr2, hrk⟩
              rw [hk] at this; cases this
        · -- the key owns addresses: one of them is reused
          have hne : (byKeyAndRanges t (keyOf pod) pod.ranges).isEmpty = false := by
            rw [hre, byKeyAndRanges_nil]
            cases h : ipsOfKey t (keyOf pod) with
            | nil => exact absurd h hk
            | cons _ _ => rfl
          unfold bindInfos at hi
          simp only [hre, List.isEmpty_nil, Bool.true_and] at hi
          rw [hre] at hne
          simp only [hne, Bool.not_false, if_true, Option.map_eq_some_iff] at hi
          obtain ⟨ip0, hpf, hinf⟩ := hi
          subst hinf
          have hmem : ip0 ∈ ipsOfKey t (keyOf pod) := by
            have := pickFirst_mem hpf
            rw [byKeyAndRanges_nil] at this
            simpa using this
          have hi' : bindInfos t pod ch = some [some ip0] := by
            unfold bindInfos
            simp only [hre, List.isEmpty_nil, Bool.true_and, hne, Bool.not_false, if_true, hpf, Option.map_some]
          have hAeq : bindAlloc t pod node { policy := policyOf pod, node := node, uid := pod.uid } [some ip0] ch.pick =
              (t, .ok, [some ip0]) := by
            unfold bindAlloc
            simp [hre, unfoundRanges]
          right; right
          have fin := bind_finish F node hs ch hans [some ip0] hi' hu _ _ hAeq hs.coh (Frame.refl t)
            (fun j hj _ => by
              simp at hj; subst hj
              exact owns_of_mem_ipsOfKey hn hmem)
          refine ⟨fin.1, _, fin.2, fun j hj => ?_⟩
          left
          simp at hj; subst hj
          rw [hheld]; exact hmem
      · -- ranges requested
        have hre' := ranges_isEmpty_false hre
        have hinfos : infos = byKeyAndRanges t (keyOf pod) pod.ranges := by
          unfold bindInfos at hi
          simp only [hre', Bool.false_and, Bool.false_eq_true, if_false, Option.some.injEq] at hi
          exact hi.symm
        subst hinfos
        have hlen := length_byKeyAndRanges t (keyOf pod) pod.ranges hre
        have hinfne : (byKeyAndRanges t (keyOf pod) pod.ranges).isEmpty = false := by
          cases h : byKeyAndRanges t (keyOf pod) pod.ranges with
          | nil =>
            rw [h] at hlen
            cases h2 : pod.ranges with
            | nil => exact absurd h2 hre
            | cons _ _ => rw [h2] at hlen; simp at hlen
          | cons _ _ => rfl
        by_cases hun : unfound t pod = []
        · -- every range list has an owned address: nothing is allocated
          have hAeq : bindAlloc t pod node { policy := policyOf pod, node := node, uid := pod.uid }
              (byKeyAndRanges t (keyOf pod) pod.ranges) ch.pick =
              (t, .ok, byKeyAndRanges t (keyOf pod) pod.ranges) := by
            unfold bindAlloc
            unfold unfound at hun
            simp [hun, hinfne]
          right; right
          have fin := bind_finish F node hs ch hans _ hi hu _ _ hAeq hs.coh (Frame.refl t)
            (fun j hj _ => byKeyAndRanges_owns hn _ _ j hj)
          exact ⟨fin.1, _, fin.2, fun j hj => Or.inl hj⟩
        · -- AllocateInSubnetsAndIPRange for the range lists without an owned address
          have hfr : ∀ rs, rs ∈ unfound t pod → FreeIn t sn rs := by
            have := hr.free (Or.inl hun)
            unfold FreeRoutable at this
            simpa [hun] using this
          have hwfu : wfRequest (unfound t pod) = true := wfRequest_unfound _ _ hwf
          obtain ⟨picks, hpicks⟩ := pickRanges_succeeds t sn (unfound t pod) [] hwfu hfr (fun _ _ _ h => by cases h)
          have hq := queryNodeSubnet_hit hr.cache
          have hal := allocRanges_ok hs.coh hs.nf (keyOf pod) sn { policy := policyOf pod, node := node, uid := pod.uid }
            ch.pick (unfound t pod) hun picks hpicks
          have hc2 := allocateInSubnetsAndRanges_coherent t (keyOf pod) sn (unfound t pod)
            { policy := policyOf pod, node := node, uid := pod.uid } ch.pick hs.coh (Or.inr hal.1)
          have fr := allocRanges_frame hs.coh (keyOf pod) sn { policy := policyOf pod, node := node, uid := pod.uid }
            ch.pick (unfound t pod)
          have hune : (unfoundRanges (byKeyAndRanges t (keyOf pod) pod.ranges) pod.ranges).isEmpty = false :=
            list_isEmpty_false hun
          have hAeq : bindAlloc t pod node { policy := policyOf pod, node := node, uid := pod.uid }
              (byKeyAndRanges t (keyOf pod) pod.ranges) ch.pick =
              ((allocateInSubnetsAndRanges t (keyOf pod) sn (unfound t pod)
                  { policy := policyOf pod, node := node, uid := pod.uid } ch.pick).1, .ok,
               byKeyAndRanges (allocateInSubnetsAndRanges t (keyOf pod) sn (unfound t pod)
                  { policy := policyOf pod, node := node, uid := pod.uid } ch.pick).1 (keyOf pod) pod.ranges) := by
            unfold bindAlloc
            simp only [hune, Bool.not_false, Bool.true_or, if_true, hq]
            rw [← hal.1]
            rfl
          have hpost := pickRanges_post t sn (unfound t pod) [] picks hpicks
          have hpickfree : ∀ j, j ∈ picks → j ∈ t.free ∧ hasSubnet t j sn = true := by
            intro j hj
            rcases hpost j hj with h | ⟨h1, h2, _⟩
            · cases h
            · exact ⟨h1, h2⟩
          have hmono : ∀ x, Owns t (keyOf pod) x → Owns (allocateInSubnetsAndRanges t (keyOf pod) sn (unfound t pod)
              { policy := policyOf pod, node := node, uid := pod.uid } ch.pick).1 (keyOf pod) x := by
            intro x ⟨r, hr1, hr2⟩
            refine ⟨r, ?_, hr2⟩
            rw [hal.2]
            have : x ∉ picks := fun hx => by
              have := hs.coh.disjoint x (hpickfree x hx).1
              rw [hr1] at this; cases this
            simp [this, hr1]
          right; right
          have fin := bind_finish F node hs ch hans _ hi hu _ _ hAeq hc2 fr
            (fun j _ hj => hmono j (byKeyAndRanges_owns hn _ _ j hj))
          refine ⟨fin.1, _, fin.2, fun j hj => ?_⟩
          obtain ⟨r, hr1, hr2⟩ := byKeyAndRanges_owns hc2.allocNodup _ _ j hj
          rw [hal.2] at hr1
          by_cases hjp : j ∈ picks
          · exact Or.inr (hpickfree j hjp)
          · left
            simp only [hjp, if_false] at hr1
            exact byKeyAndRanges_earlier t _ (keyOf pod) pod.ranges hre hmono j hj ⟨r, hr1, hr2⟩

/-- some choice is admissible: Bind on an approved node does answer ok or waiting -/
theorem bind_good_exists (F : Facts) {t : State} {ns name : String} {pod : Pod} {uid : Nat} {node : String} {sn : Subnet}
    (hs : BindScene t ns name pod uid) (hr : Ready t pod node sn) (hwf : wfRequest pod.ranges = true) :
    ∃ ch, okOrWaiting (bind F t ns name uid node ch).2.res := by
  -- first = some owned address, pick = some candidate
  refine ⟨{ first := (ipsOfKey t (keyOf pod)).head?, pick := (cands t sn).head? }, ?_⟩
  have hg := bind_good F hs hr hwf { first := (ipsOfKey t (keyOf pod)).head?, pick := (cands t sn).head? } rfl
  unfold BindGood at hg
  rcases hg with ⟨_, hre, hbad⟩ | hw | ⟨hok, _⟩
  · exfalso
    rcases hbad with ⟨hk, hpf⟩ | ⟨hk, hno⟩
    · cases hl : ipsOfKey t (keyOf pod) with
      | nil => exact absurd hl hk
      | cons x rest =>
        rw [hl] at hpf
        simp [pickFirst] at hpf
    · have hheld : held t pod = [] := by rw [held_nil t pod hre, hk]
      have hunf : unfound t pod = [] := by unfold unfound; rw [hre]; simp [unfoundRanges]
      obtain ⟨ip0, hip0, hsub0⟩ : ∃ ip, ip ∈ t.free ∧ hasSubnet t ip sn = true := by
        have := hr.free (Or.inr hheld)
        rw [hunf] at this
        simpa [FreeRoutable] using this
      have hm : ip0 ∈ cands t sn := (mem_cands t sn ip0).mpr ⟨hip0, hsub0⟩
      apply hno
      cases hc : cands t sn with
      | nil => rw [hc] at hm; cases hm
      | cons x rest => exact ⟨x, by simp, by simp⟩
  · exact Or.inr hw
  · exact Or.inl hok

end Galaxy.Plugin.C06
