/-
  Pod-level lemmas for C11: what `FormatKey` produces for a pod with DNS-1123 names.
-/
import Galaxy.Lemmas.KeysApi

namespace Galaxy.Keys
open Galaxy.Generated.Keys

/-- names as the API server admits them: namespace, pod name and owner names are non-empty and contain no `_`
    (DNS-1123); nothing is assumed about owner kinds or the pool annotation -/
structure WFPod (p : Pod) : Prop where
  ns : noSep p.ns
  nsNe : p.ns ≠ []
  name : noSep p.name
  nameNe : p.name ≠ []
  owners : ∀ o ∈ p.owners, noSep o.name ∧ o.name ≠ []

/-- owner kinds are non-empty and contain no `_` (Kubernetes kinds are CamelCase identifiers) and the pool
    annotation contains no `_` — the extra hypotheses needed for decoding (not for distinctness) -/
structure WFKinds (p : Pod) : Prop where
  kinds : ∀ o ∈ p.owners, noSep o.kind ∧ o.kind ≠ []
  pool : noSep p.pool

theorem getAppTypePrefix_ends_sep (kind : Str) : ∃ b, getAppTypePrefix kind = b ++ [sep] := by
  unfold getAppTypePrefix getAppTypePrefixT
  simp only [appTypePrefixExact, assoc]
  split
  · rename_i r hr
    split at hr
    · cases hr; exact ⟨['N', 'U', 'L', 'L'], by decide⟩
    · cases hr
  · split
    · rename_i r hr
      rcases assoc_lower_table_none_of (lower kind) with h0 | h0 | h0
      · rw [h0] at hr; cases hr
      · rw [h0] at hr; cases hr; exact ⟨['s', 't', 's'], by decide⟩
      · rw [h0] at hr; cases hr; exact ⟨['d', 'p'], by decide⟩
    · exact ⟨lower kind, by rw [typeSuffix_is_sep]⟩

theorem resolveDeploymentName_noSep {p : Pod} (h : WFPod p) : noSep (resolveDeploymentName p) := by
  unfold resolveDeploymentName
  split
  · rename_i o ho
    have hw := (h.owners o (by rw [ho]; simp)).1
    split
    · split
      · exact hw
      · rename_i r hr
        intro m
        exact hw (beforeLast_subset hr _ m)
    · simp [noSep]
  · simp [noSep]

/-- the key of a pod: its type prefix ends in `_`, its app is non-empty and separator-free, and
    namespace / pod / pool are the pod's own -/
theorem formatKey_shape {p : Pod} {k : KeyObj} (h : WFPod p) (hk : formatKey p = some k) :
    ∃ tp app, k = newKeyObj tp p.ns app p.name p.pool ∧ app ≠ [] ∧ noSep app ∧ (∃ b, tp = b ++ [sep]) := by
  unfold formatKey at hk
  split at hk
  · cases hk
    exact ⟨noRefAppTypePrefix, noRefAppName, rfl, by decide, by decide, ⟨['N', 'U', 'L', 'L'], by decide⟩⟩
  · rename_i o os ho
    have hw := h.owners o (by rw [ho]; simp)
    split at hk
    · cases hk
      exact ⟨stsPrefix, o.name, rfl, hw.2, hw.1, ⟨['s', 't', 's'], by decide⟩⟩
    · split at hk
      · cases hk
        exact ⟨getAppTypePrefix o.kind, o.name, rfl, hw.2, hw.1, getAppTypePrefix_ends_sep _⟩
      · dsimp only at hk
        split at hk
        · cases hk
        · rename_i hd
          cases hk
          exact ⟨dpPrefix, resolveDeploymentName p, rfl, hd, resolveDeploymentName_noSep h, ⟨['d', 'p'], by decide⟩⟩

/-- with well-formed kinds and pool the type prefix is moreover producible, so the parts are well formed -/
theorem formatKey_parts {p : Pod} {k : KeyObj} (h : WFPod p) (hkd : WFKinds p) (hk : formatKey p = some k) :
    ∃ q : Parts, k = q.obj ∧ WF q ∧ q.app ≠ [] ∧ Producible q.tp ∧ q.ns = p.ns ∧ q.pod = p.name ∧ q.pool = p.pool := by
  have mk (tp app : Str) (ha : app ≠ []) (hs : noSep app) (ht : Producible tp) :
      ∃ q : Parts, newKeyObj tp p.ns app p.name p.pool = q.obj ∧ WF q ∧ q.app ≠ [] ∧ Producible q.tp ∧
        q.ns = p.ns ∧ q.pod = p.name ∧ q.pool = p.pool :=
    ⟨⟨tp, p.ns, app, p.name, p.pool⟩, rfl,
      ⟨h.ns, hs, h.name, hkd.pool, fun _ => ⟨h.nsNe, ht.wfType⟩, fun e => absurd e ha⟩, ha, ht, rfl, rfl, rfl⟩
  unfold formatKey at hk
  split at hk
  · cases hk
    exact mk _ _ (by decide) (by decide) producible_null
  · rename_i o os ho
    have hw := h.owners o (by rw [ho]; simp)
    have hkk := hkd.kinds o (by rw [ho]; simp)
    split at hk
    · cases hk
      exact mk _ _ hw.2 hw.1 producible_sts
    · split at hk
      · cases hk
        exact mk _ _ hw.2 hw.1 ⟨o.kind, hkk.2, hkk.1, rfl⟩
      · dsimp only at hk
        split at hk
        · cases hk
        · rename_i hd
          cases hk
          exact mk _ _ hd (resolveDeploymentName_noSep h) producible_dp

end Galaxy.Keys
