/-
  Frame: whatever the prior table and the port list, and whether the call succeeds or fails half-way,
  SetupPortMapping / CleanPortMapping / SetupPortMappingForAllPods only touch galaxy's chains
  (KUBE-HOSTPORTS, KUBE-HP-*, KUBE-MARK-MASQ) and — the full sync — the portal rule of OUTPUT/PREROUTING.
-/
import Galaxy.Lemmas.NetfilterSync

namespace Galaxy.Netfilter

open Galaxy

theorem galaxyChain_markMasq : galaxyChain markMasqChain = true := by decide
theorem galaxyChain_hostports : galaxyChain hostportsChain = true := by decide

theorem galaxyChain_of_prefix {c : String} (h : hasPrefix hpPrefix c = true) : galaxyChain c = true := by
  simp [galaxyChain, h]

theorem galaxyChain_chainName (hash : String → String) (p : Port) : galaxyChain (chainName hash p) = true :=
  galaxyChain_of_prefix (chainName_prefix hash p)

theorem hpApps_chains {hash : String → String} {ps : List Port} {cmd : Cmd} (h : cmd ∈ hpApps hash ps) :
    galaxyChain (cmdChain cmd) = true := by
  obtain ⟨p, _, h | h⟩ := mem_hpApps h <;> subst h <;> exact galaxyChain_chainName hash p

theorem setupBatch_chains (hash : String → String) (ps : List Port) :
    ∀ cmd ∈ setupBatch hash ps, galaxyChain (cmdChain cmd) = true := by
  intro cmd hcmd
  rw [setupBatch_eq] at hcmd
  rcases List.mem_append.mp hcmd with h | h
  · obtain ⟨c, hc, rfl⟩ := List.mem_map.mp h
    rcases List.mem_cons.mp hc with rfl | hc
    · exact galaxyChain_markMasq
    · exact galaxyChain_of_prefix (names_prefix hc)
  · rcases List.mem_cons.mp h with rfl | h
    · exact galaxyChain_markMasq
    · exact hpApps_chains h

theorem cleanBatch_chains (hash : String → String) (ps : List Port) :
    ∀ cmd ∈ cleanBatch hash ps, galaxyChain (cmdChain cmd) = true := by
  intro cmd hcmd
  rw [cleanBatch_eq] at hcmd
  rcases List.mem_append.mp hcmd with h | h <;>
  · obtain ⟨c, hc, rfl⟩ := List.mem_map.mp h
    exact galaxyChain_of_prefix (names_prefix hc)

theorem syncAllBatch_chains (hash : String → String) (existing : List String) (ps : List Port) :
    ∀ cmd ∈ syncAllBatch hash existing ps, galaxyChain (cmdChain cmd) = true := by
  intro cmd hcmd
  rw [syncAllBatch_eq] at hcmd
  rcases List.mem_append.mp hcmd with h | h
  · obtain ⟨c, hc, rfl⟩ := List.mem_map.mp h
    rcases List.mem_cons.mp hc with rfl | hc
    · exact galaxyChain_markMasq
    rcases List.mem_cons.mp hc with rfl | hc
    · exact galaxyChain_hostports
    rcases List.mem_append.mp hc with hc | hc
    · exact galaxyChain_of_prefix (names_prefix hc)
    · exact galaxyChain_of_prefix (mem_staleChains.mp hc).2.2
  rcases List.mem_append.mp h with h | h
  · rcases List.mem_cons.mp h with rfl | h
    · exact galaxyChain_markMasq
    · simp only [syncApps, List.mem_flatMap, List.mem_cons, List.mem_nil_iff, or_false] at h
      obtain ⟨p, _, h | h | h⟩ := h <;> subst h
      · exact galaxyChain_hostports
      · exact galaxyChain_chainName hash p
      · exact galaxyChain_chainName hash p
  · obtain ⟨c, hc, rfl⟩ := List.mem_map.mp h
    exact galaxyChain_of_prefix (mem_staleChains.mp hc).2.2

theorem ensureJumps_frame (hash : String → String) : ∀ (ps : List Port) (T : Table) (c : String),
    c ≠ hostportsChain → Tbl.get (ensureJumps hash T ps).1 c = Tbl.get T c
  | [], _, _, _ => rfl
  | p :: ps, T, c, hc => by
    show Tbl.get (match ensureRule false (fun _ => true) T hostportsChain (jumpRule hash p) with
      | .error e => (T, some e)
      | .ok (_, T') => ensureJumps hash T' ps).1 c = _
    cases he : ensureRule false (fun _ => true) T hostportsChain (jumpRule hash p) with
    | error e => rfl
    | ok r =>
      obtain ⟨ex, T'⟩ := r
      show Tbl.get (ensureJumps hash T' ps).1 c = _
      rw [ensureJumps_frame hash ps T' c hc]
      exact ensureRule_frame he (fun e => hc e.symm)

theorem deleteJumps_frame (hash : String → String) : ∀ (ps : List Port) (T : Table) (c : String),
    c ≠ hostportsChain → Tbl.get (deleteJumps hash T ps).1 c = Tbl.get T c
  | [], _, _, _ => rfl
  | p :: ps, T, c, hc => by
    show Tbl.get (match deleteRule (fun _ => true) T hostportsChain (jumpRule hash p) with
      | .error e => (T, some e)
      | .ok T' => deleteJumps hash T' ps).1 c = _
    cases he : deleteRule (fun _ => true) T hostportsChain (jumpRule hash p) with
    | error e => rfl
    | ok T' =>
      show Tbl.get (deleteJumps hash T' ps).1 c = _
      rw [deleteJumps_frame hash ps T' c hc]
      exact deleteRule_frame he (fun e => hc e.symm)

theorem ne_of_not_galaxy {c k : String} (hc : galaxyChain c = false) (hk : galaxyChain k = true) : k ≠ c :=
  fun e => by rw [e, hc] at hk; cases hk

theorem setup_frame (hash : String → String) (T : Table) (ps : List Port) (c : String)
    (hc : galaxyChain c = false) : Tbl.get (setup hash T ps).1 c = Tbl.get T c := by
  have hcf := commit_frame (fun _ => true) T (setupBatch hash ps) c
    (fun cmd h => ne_of_not_galaxy hc (setupBatch_chains hash ps cmd h))
  have hck : c ≠ hostportsChain := (ne_of_not_galaxy hc galaxyChain_hostports).symm
  unfold setup
  cases hcm : commit (fun _ => true) T (setupBatch hash ps) with
  | mk T1 oe =>
    rw [hcm] at hcf
    cases oe with
    | some e => exact hcf
    | none =>
      simp only [Generated.Netfilter.setupEnsuresJumpRulesAfterRestore, if_true]
      rw [ensureJumps_frame hash ps T1 c hck]; exact hcf

theorem ensureChains_frame (hash : String → String) (T : Table) (ps : List Port) (c : String)
    (hc : galaxyChain c = false) : Tbl.get (ensureChains hash T ps) c = Tbl.get T c := by
  rw [ensureChains_get]
  have : c ∉ ps.map (chainName hash) := fun h => by
    have := galaxyChain_of_prefix (names_prefix h); rw [hc] at this; cases this
  simp [this]

theorem cleanWith_frame (ef : Bool) (hash : String → String) (T : Table) (ps : List Port) (c : String)
    (hc : galaxyChain c = false) : Tbl.get (cleanWith ef hash T ps).1 c = Tbl.get T c := by
  have hck : c ≠ hostportsChain := (ne_of_not_galaxy hc galaxyChain_hostports).symm
  have h0 : Tbl.get (if ef then ensureChains hash T ps else T) c = Tbl.get T c := by
    cases ef
    · rfl
    · exact ensureChains_frame hash T ps c hc
  have hd := deleteJumps_frame hash ps (if ef then ensureChains hash T ps else T) c hck
  unfold cleanWith
  simp only [Generated.Netfilter.cleanDeletesJumpRulesBeforeRestore, if_true, Generated.Netfilter.cleanRestores]
  cases hdj : deleteJumps hash (if ef = true then ensureChains hash T ps else T) ps with
  | mk T1 oe =>
    rw [hdj] at hd
    cases oe with
    | some e => simp only; rw [hd, h0]
    | none =>
      show Tbl.get (commit (fun _ => true) T1 (cleanBatch hash ps)).1 c = _
      rw [commit_frame (fun _ => true) T1 (cleanBatch hash ps) c
        (fun cmd h => ne_of_not_galaxy hc (cleanBatch_chains hash ps cmd h))]
      rw [hd, h0]

theorem clean_frame (hash : String → String) (T : Table) (ps : List Port) (c : String)
    (hc : galaxyChain c = false) : Tbl.get (clean hash T ps).1 c = Tbl.get T c :=
  cleanWith_frame _ hash T ps c hc

theorem ensureBasicRules_frame : ∀ (cs : List String) (T : Table) (c : String), c ∉ cs →
    Tbl.get (ensureBasicRules T cs).1 c = Tbl.get T c
  | [], _, _, _ => rfl
  | c0 :: cs, T, c, hc => by
    simp only [List.mem_cons, not_or] at hc
    show Tbl.get (match ensureRule false (fun _ => true) T c0 basicRule with
      | .error e => (T, some e)
      | .ok (_, T') => ensureBasicRules T' cs).1 c = _
    cases he : ensureRule false (fun _ => true) T c0 basicRule with
    | error e => rfl
    | ok r =>
      obtain ⟨ex, T'⟩ := r
      show Tbl.get (ensureBasicRules T' cs).1 c = _
      rw [ensureBasicRules_frame cs T' c hc.2]
      exact ensureRule_frame he (fun e => hc.1 e.symm)

theorem ensureBasic_frame (T : Table) (c : String) (hck : c ≠ hostportsChain)
    (hcb : c ∉ Generated.Netfilter.basicRuleChains) : Tbl.get (ensureBasic T).1 c = Tbl.get T c := by
  unfold ensureBasic
  rw [ensureBasicRules_frame _ _ c hcb]
  unfold ensureChain
  split
  · rfl
  · exact Tbl.get_set_ne _ _ (fun e => hck e.symm)

theorem syncAllWith_frame (hash : String → String) (order : Table → List String) (T : Table) (ps : List Port)
    (c : String) (hc : galaxyChain c = false) (hcb : c ∉ Generated.Netfilter.basicRuleChains) :
    Tbl.get (syncAllWith hash order T ps).1 c = Tbl.get T c := by
  have hck : c ≠ hostportsChain := (ne_of_not_galaxy hc galaxyChain_hostports).symm
  have hb := ensureBasic_frame T c hck hcb
  unfold syncAllWith
  simp only [Generated.Netfilter.syncEnsuresBasicFirst, if_true]
  cases heb : ensureBasic T with
  | mk T1 oe =>
    rw [heb] at hb
    cases oe with
    | some e => exact hb
    | none =>
      show Tbl.get (commit (fun _ => true) T1 (syncAllBatch hash (order T1) ps)).1 c = _
      rw [commit_frame (fun _ => true) T1 _ c
        (fun cmd h => ne_of_not_galaxy hc (syncAllBatch_chains hash (order T1) ps cmd h))]
      exact hb

end Galaxy.Netfilter
