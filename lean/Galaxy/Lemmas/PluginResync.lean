/-
  M4-core proofs, part 12: resync, API release, pod-IP sync.
-/
import Galaxy.Lemmas.PluginDeliver

namespace Galaxy.Plugin
open Galaxy

theorem podRunning_quiet (F : Facts) (s : State) (pod ns : String) (uid : Uid) :
    QuietStep s (podRunning F s pod ns uid).1 ∧ (podRunning F s pod ns uid).1.plog = s.plog := by
  unfold podRunning
  split
  · exact ⟨QuietStep.refl s, rfl⟩
  · split
    · exact ⟨QuietStep.refl s, rfl⟩
    · split
      · exact ⟨QuietStep.refl s, rfl⟩
      · dsimp only
        split
        · exact ⟨api_quiet s, rfl⟩
        · exact ⟨api_quiet s, rfl⟩

/-- lister first, API server second: a live pod whose uid the record carries (or no uid) is found running -/
theorem podRunning_live (s : State) (q : Pod) (uid : Uid) (h : Inv s) (hq : Tbl.get s.pods q.id = some q)
    (hnf : q.finished = false) (hu : uid = 0 ∨ uid = q.uid) :
    (podRunning Facts.good s (keyOf q).pod (keyOf q).ns uid).2 = true := by
  have wf := (h.podsWF _ q hq).2.2.2
  obtain ⟨kn, kp⟩ := keyOf_fields q wf
  rw [kn, kp]
  unfold podRunning
  have hne : ¬ (q.name = "" ∨ q.ns = "") := by
    intro e; rcases e with e | e
    · exact wf.2.1 e
    · exact wf.1 e
  simp only [hne, if_false]
  split
  · rfl
  · simp only [good_apiDoubleCheck, Bool.not_true, Bool.false_eq_true, if_false]
    split
    · rfl
    · have : Tbl.get s.api.1.pods (q.ns, q.name) = some q := hq
      rw [this]
      unfold runningMatch
      rcases hu with hu | hu
      · simp [hu, hnf]
      · simp [hu, hnf]

theorem reserve_then (s : State) (k : Key) : Chg (hasKey k) uidZero s (reserve s k k {}).1 := reserve_chgZ s k k

/-- one checklist entry of the resync pass -/
theorem resyncOne_spec (s : State) (ip : IP) (r0 : Rec) (h : Inv s) :
    Inv (resyncOne Facts.good s ip r0) ∧ Frame s (resyncOne Facts.good s ip r0) ∧
      UnassignsWithin s (resyncOne Facts.good s ip r0) (NoLive s.pods) := by
  unfold resyncOne
  simp only [good_resyncRechecks, if_true]
  split
  · exact ⟨h, Frame.refl s, UnassignsWithin.refl s _⟩
  · rename_i r hr
    split
    · exact ⟨h, Frame.refl s, UnassignsWithin.refl s _⟩
    · rename_i hk
      have hk' : r.key = r0.key := by simpa using hk
      have pq := podRunning_quiet Facts.good s r0.key.pod r0.key.ns r.uid
      have hpr : Inv (podRunning Facts.good s r0.key.pod r0.key.ns r.uid).1 := h.quiet pq.1
      have lg0 : UnassignsWithin s (podRunning Facts.good s r0.key.pod r0.key.ns r.uid).1 (NoLive s.pods) :=
        UnassignsWithin.of_plog_eq _ pq.2
      try dsimp only
      split
      · exact ⟨hpr, pq.1.frame, lg0⟩
      · rename_i hrun
        -- not running: no live bound pod has this key
        have hnl : ¬ LiveKey s.pods r0.key := by
          rintro ⟨q, hq, hkq⟩
          apply hrun
          have hu := h.safe.keyUids q hq ip r hr (by rw [hk', hkq])
          have := podRunning_live s q r.uid h hq.1 hq.2.1 hu
          rw [hkq] at this; exact this
        have hnl1 : ¬ LiveKey (podRunning Facts.good s r0.key.pod r0.key.ns r.uid).1.pods r0.key := by
          rw [pq.1.frame.pods]; exact hnl
        have hr1 : Tbl.get (podRunning Facts.good s r0.key.pod r0.key.ns r.uid).1.alloc ip = some r := by
          rw [pq.1.alloc]; exact hr
        have tail : ∀ s2 : State, Inv s2 → ¬ LiveKey s2.pods r0.key →
            Inv (if r0.key.isDp = true then (unbindDp s2 r0.key r.policy).1 else (unbindOther s2 r0.key r.policy).1) ∧
            Frame s2 (if r0.key.isDp = true then (unbindDp s2 r0.key r.policy).1 else (unbindOther s2 r0.key r.policy).1) ∧
            (if r0.key.isDp = true then (unbindDp s2 r0.key r.policy).1 else (unbindOther s2 r0.key r.policy).1).plog = s2.plog := by
          intro s2 h2 hn2
          split
          · have c := unbindDp_chg s2 r0.key r.policy
            exact ⟨h2.step_of_chg_key _ hn2 (unbindDp_coherent _ _ _ h2.coh) c, c.frame, unbindDp_plog _ _ _⟩
          · have c := unbindOther_chg s2 r0.key r.policy
            exact ⟨h2.step_of_chg_key _ hn2 (unbindOther_coherent _ _ _ h2.coh) c, c.frame, unbindOther_plog _ _ _⟩
        split
        · -- provider: unassign, then clear node and uid
          have uq := provUnassign_quiet (podRunning Facts.good s r0.key.pod r0.key.ns r.uid).1 r.node ip
          have hu : Inv (provUnassign (podRunning Facts.good s r0.key.pod r0.key.ns r.uid).1 r.node ip).1 := hpr.quiet uq
          have lg1 : UnassignsWithin s (provUnassign (podRunning Facts.good s r0.key.pod r0.key.ns r.uid).1 r.node ip).1
              (NoLive s.pods) := by
            apply lg0.trans
            apply (provUnassign_log _ r.node ip).mono
            intro j hj; subst hj
            exact noLive_of_key h.safe hr (by rw [hk']; exact hnl)
          split
          · exact ⟨hu, pq.1.frame.trans uq.frame, lg1⟩
          · have hnl2 : ¬ LiveKey (provUnassign (podRunning Facts.good s r0.key.pod r0.key.ns r.uid).1 r.node ip).1.pods r0.key := by
              rw [uq.frame.pods]; exact hnl1
            have c := reserve_then (provUnassign (podRunning Facts.good s r0.key.pod r0.key.ns r.uid).1 r.node ip).1 r0.key
            have h3 := hu.step_of_chg_key _ hnl2 (reserve_coherent _ _ _ _ hu.coh) c
            have hnl3 : ¬ LiveKey (reserve (provUnassign (podRunning Facts.good s r0.key.pod r0.key.ns r.uid).1 r.node ip).1
                r0.key r0.key {}).1.pods r0.key := by rw [c.frame.pods]; exact hnl2
            have t := tail _ h3 hnl3
            exact ⟨t.1, ((pq.1.frame.trans uq.frame).trans c.frame).trans t.2.1,
              lg1.trans (UnassignsWithin.of_plog_eq _ (t.2.2.trans (reserve_plog _ _ _ _)))⟩
        · have t := tail _ hpr hnl1
          exact ⟨t.1, pq.1.frame.trans t.2.1, lg0.trans (UnassignsWithin.of_plog_eq _ t.2.2)⟩

theorem resyncLoop_spec (snap : Tbl IP Rec) : ∀ (order : List IP) (s : State), Inv s →
    Inv (resyncLoop Facts.good snap s order) ∧ Frame s (resyncLoop Facts.good snap s order) ∧
      UnassignsWithin s (resyncLoop Facts.good snap s order) (NoLive s.pods) := by
  intro order
  induction order with
  | nil => intro s h; exact ⟨h, Frame.refl s, UnassignsWithin.refl s _⟩
  | cons ip t ih =>
    intro s h
    unfold resyncLoop
    split
    · exact ih s h
    · rename_i r0 _
      have o := resyncOne_spec s ip r0 h
      have r := ih _ o.1
      refine ⟨r.1, o.2.1.trans r.2.1, o.2.2.trans ?_⟩
      have := r.2.2
      rw [o.2.1.pods] at this
      exact this

theorem resync_spec (s : State) (order : List IP) (h : Inv s) :
    Inv (resync Facts.good s order).1 ∧ (resync Facts.good s order).1.pods = s.pods ∧
      UnassignsWithin s (resync Facts.good s order).1 (NoLive s.pods) := by
  unfold resync
  dsimp only
  split
  · exact ⟨h, rfl, UnassignsWithin.refl s _⟩
  · have := resyncLoop_spec (List.filter (fun e => inChecklist e.2) s.alloc) order s h
    exact ⟨this.1, this.2.1.pods, this.2.2⟩

theorem inv_resync (s : State) (order : List IP) (f pf : Nat) (h : Inv s) :
    Inv (step Facts.good s (.resync order f pf)).1 := (resync_spec _ order (inv_withFaults s f pf h)).1

/-! ### API release -/

theorem release_plog (s : State) (k : Key) (ip : IP) : (release s k ip).1.plog = s.plog := by
  unfold release
  split
  · rfl
  · dsimp only
    split
    · rfl
    · split
      · exact stDelete_plog _ _
      · exact stDelete_plog _ _

/-- the provider part of Release, for an address whose key no live bound pod has -/
theorem releasePre_spec (s : State) (node : String) (ip : IP) (k : Key) (h : Inv s) (hnl : ¬ LiveKey s.pods k)
    (hip : NoLive s.pods ip) :
    Inv (releasePre s node ip k).1 ∧ Frame s (releasePre s node ip k).1 ∧
      UnassignsWithin s (releasePre s node ip k).1 (NoLive s.pods) := by
  unfold releasePre
  split
  · have uq := provUnassign_quiet s node ip
    have hu := h.quiet uq
    have lg1 : UnassignsWithin s (provUnassign s node ip).1 (NoLive s.pods) :=
      (provUnassign_log s node ip).mono (fun j hj => by subst hj; exact hip)
    split
    · exact ⟨hu, uq.frame, lg1⟩
    · have hnl2 : ¬ LiveKey (provUnassign s node ip).1.pods k := by rw [uq.frame.pods]; exact hnl
      have c := reserve_then (provUnassign s node ip).1 k
      exact ⟨hu.step_of_chg_key _ hnl2 (reserve_coherent _ _ _ _ hu.coh) c, uq.frame.trans c.frame,
        lg1.trans (UnassignsWithin.of_plog_eq _ (reserve_plog _ _ _ _))⟩
  · exact ⟨h, Frame.refl s, UnassignsWithin.refl s _⟩

theorem apiRelease_spec (s : State) (ip : IP) (k : Key) (h : Inv s) :
    Inv (apiRelease Facts.good s ip k).1 ∧ (apiRelease Facts.good s ip k).1.pods = s.pods ∧
      UnassignsWithin s (apiRelease Facts.good s ip k).1 (NoLive s.pods) := by
  unfold apiRelease
  simp only [good_releaseRechecks, Bool.true_and]
  split
  · exact ⟨h, rfl, UnassignsWithin.refl s _⟩
  · rename_i hkey
    have hkey' : ((Tbl.get s.alloc ip).map (·.key)).getD Key.empty = k := by simpa using hkey
    have pq := podRunning_quiet Facts.good s k.pod k.ns (((Tbl.get s.alloc ip).map (·.uid)).getD 0)
    have hpr := h.quiet pq.1
    have lg0 : UnassignsWithin s (podRunning Facts.good s k.pod k.ns (((Tbl.get s.alloc ip).map (·.uid)).getD 0)).1
        (NoLive s.pods) := UnassignsWithin.of_plog_eq _ pq.2
    split
    · exact ⟨hpr, pq.1.frame.pods, lg0⟩
    · rename_i hrun
      -- the address is stored under `k` (or is free and `k` is the empty key); no live bound pod has key `k`
      have hnl : ¬ LiveKey s.pods k := by
        rintro ⟨q, hq, hkq⟩
        apply hrun
        cases hg : Tbl.get s.alloc ip with
        | none =>
          rw [hg] at hkey'
          simp at hkey'
          have wf := (h.podsWF _ q hq.1).2.2.2
          have := (keyOf_fields q wf).2
          rw [hkq, ← hkey'] at this
          exact absurd this.symm wf.2.1
        | some r =>
          rw [hg] at hkey'
          simp at hkey'
          have hu := h.safe.keyUids q hq ip r hg (by rw [hkey', hkq])
          have := podRunning_live s q r.uid h hq.1 hq.2.1 hu
          rw [hkq] at this
          simpa [hg] using this
      have hnlip : NoLive s.pods ip := by
        cases hg : Tbl.get s.alloc ip with
        | none =>
          rintro ⟨q, hq, hm⟩
          simp only [Pod.ips, List.mem_map] at hm
          obtain ⟨hd, hmem, hip⟩ := hm
          obtain ⟨r', h1, _, _⟩ := h.safe.own q hq hd hmem
          rw [hip, hg] at h1; cases h1
        | some r =>
          rw [hg] at hkey'; simp at hkey'
          exact noLive_of_key h.safe hg (by rw [hkey']; exact hnl)
      have pre := releasePre_spec (podRunning Facts.good s k.pod k.ns (((Tbl.get s.alloc ip).map (·.uid)).getD 0)).1
        (((Tbl.get s.alloc ip).map (·.node)).getD "") ip k hpr (by rw [pq.1.frame.pods]; exact hnl)
        (by rw [pq.1.frame.pods]; exact hnlip)
      rw [pq.1.frame.pods] at pre
      split
      · have c := (release_chg (releasePre (podRunning Facts.good s k.pod k.ns
            (((Tbl.get s.alloc ip).map (·.uid)).getD 0)).1 (((Tbl.get s.alloc ip).map (·.node)).getD "") ip k).1 k ip).mono
          (fun _ x => x) isFree_uidZero
        refine ⟨pre.1.step_of_chg_key _ (by rw [pre.2.1.pods, pq.1.frame.pods]; exact hnl)
          (release_coherent _ _ _ pre.1.coh) c, ((pq.1.frame.trans pre.2.1).trans c.frame).pods, ?_⟩
        exact (lg0.trans pre.2.2).trans (UnassignsWithin.of_plog_eq _ (release_plog _ _ _))
      · exact ⟨pre.1, (pq.1.frame.trans pre.2.1).pods, lg0.trans pre.2.2⟩

theorem inv_apiRelease (s : State) (ip : IP) (k : Key) (f pf : Nat) (h : Inv s) :
    Inv (step Facts.good s (.apiRelease ip k f pf)).1 := (apiRelease_spec _ ip k (inv_withFaults s f pf h)).1

end Galaxy.Plugin
