/-
  M4-core proofs, part 12: resync, API release, pod-IP sync.
-/
import Galaxy.Lemmas.PluginDeliver

namespace Galaxy.Plugin
open Galaxy

theorem podRunning_quiet (F : Facts) (s : State) (pod ns : String) (uid : Uid) :
    QuietStep s (podRunning F s pod ns uid).1 ∧ (podRunning F s pod ns uid).1.plog = s.plog := by
  unfold podRunning
  split
  · exact ⟨QuietStep.refl s, rfl⟩
  · split
    · exact ⟨QuietStep.refl s, rfl⟩
    · split
      · exact ⟨QuietStep.refl s, rfl⟩
      · dsimp only
        split
        · exact ⟨api_quiet s, rfl⟩
        · exact ⟨api_quiet s, rfl⟩

/-- lister first, API server second: a live pod whose uid the record carries (or no uid) is found running -/
theorem podRunning_live (s : State) (q : Pod) (uid : Uid) (h : Inv s) (hq : Tbl.get s.pods q.id = some q)
    (hnf : q.finished = false) (hu : uid = 0 ∨ uid = q.uid) :
    (podRunning Facts.good s (keyOf q).pod (keyOf q).ns uid).2 = true := by
  have wf := (h.podsWF _ q hq).2.2.2
  obtain ⟨kn, kp⟩ := keyOf_fields q wf
  rw [kn, kp]
  unfold podRunning
  have hne : ¬ (q.name = "" ∨ q.ns = "") := by
    intro e; rcases e with e | e
    · exact wf.2.1 e
    · exact wf.1 e
  simp only [hne, if_false]
  split
  · rfl
  · simp only [good_apiDoubleCheck, Bool.not_true, Bool.false_eq_true, if_false]
    split
    · rfl
    · have : Tbl.get s.api.1.pods (q.ns, q.name) = some q := hq
      rw [this]
      unfold runningMatch
      rcases hu with hu | hu
      · simp [hu, hnf]
      · simp [hu, hnf]

theorem reserve_then (s : State) (k : Key) : Chg (hasKey k) uidZero s (reserve s k k {}).1 := reserve_chgZ s k k

/-! ### the whole-key check of resync and Release -/

theorem keyOwnedLoop_quiet (F : Facts) (k : Key) (uid : Nat) : ∀ (l : List IP) (s : State),
    QuietStep s (keyOwnedLoop F k uid l s).1 ∧ (keyOwnedLoop F k uid l s).1.plog = s.plog := by
  intro l
  induction l with
  | nil => intro s; exact ⟨QuietStep.refl s, rfl⟩
  | cons ip t ih =>
    intro s
    unfold keyOwnedLoop
    split
    · exact ih s
    · rename_i r _
      split
      · exact ih s
      · split
        · exact ih s
        · split
          · exact ih s
          · have pq := podRunning_quiet F s k.pod k.ns r.uid
            split
            · exact pq
            · have r2 := ih (podRunning F s k.pod k.ns r.uid).1
              exact ⟨pq.1.trans r2.1, r2.2.trans pq.2⟩

theorem keyOwned_quiet (F : Facts) (s : State) (k : Key) (uid : Nat) :
    QuietStep s (keyOwnedByRunningPod F s k uid).1 ∧ (keyOwnedByRunningPod F s k uid).1.plog = s.plog := by
  unfold keyOwnedByRunningPod
  split
  · exact keyOwnedLoop_quiet F k uid _ s
  · exact ⟨QuietStep.refl s, rfl⟩

/-- a record of the key that carries the uid of a live pod (other than the examined uid) makes the check answer true -/
theorem keyOwnedLoop_live (q : Pod) (uid : Nat) (hne : uid ≠ q.uid) : ∀ (l : List IP) (s : State), Inv s →
    Tbl.get s.pods q.id = some q → q.finished = false →
    (∃ ip, ip ∈ l ∧ ∃ r, Tbl.get s.alloc ip = some r ∧ r.key = keyOf q ∧ r.uid = q.uid) →
    (keyOwnedLoop Facts.good (keyOf q) uid l s).2 = true := by
  intro l
  induction l with
  | nil => intro s _ _ _ hw; obtain ⟨ip, hm, _⟩ := hw; cases hm
  | cons x t ih =>
    intro s h hq hnf hw
    obtain ⟨ip, hm, r, hr, hk, hu⟩ := hw
    have tail_of_ne : x ≠ ip → ∃ ip, ip ∈ t ∧ ∃ r, Tbl.get s.alloc ip = some r ∧ r.key = keyOf q ∧ r.uid = q.uid := by
      intro hx
      rcases List.mem_cons.mp hm with e | e
      · exact absurd e.symm hx
      · exact ⟨ip, e, r, hr, hk, hu⟩
    unfold keyOwnedLoop
    split
    · rename_i hx
      exact ih s h hq hnf (tail_of_ne (by intro e; subst e; rw [hr] at hx; cases hx))
    · rename_i rx hx
      split
      · rename_i hkx
        exact ih s h hq hnf (tail_of_ne (by intro e; subst e; rw [hr] at hx; cases hx; exact hkx hk))
      · split
        · rename_i hux
          exact ih s h hq hnf (tail_of_ne (by intro e; subst e; rw [hr] at hx; cases hx; exact hne (hux.symm.trans hu)))
        · split
          · -- a record without uid is skipped: it is not the live pod's (whose uid is not 0)
            rename_i h0
            have hq0 : q.uid ≠ 0 := (h.podsWF _ q hq).2.1
            exact ih s h hq hnf (tail_of_ne (by
              intro e; subst e; rw [hr] at hx; cases hx
              simp only [good_keyOwnedSkipsEmptyUid, Bool.true_and, beq_iff_eq] at h0
              exact hq0 (hu.symm.trans h0)))
          · split
            · rfl
            · rename_i hrun
              have pq := (podRunning_quiet Facts.good s (keyOf q).pod (keyOf q).ns rx.uid).1
              have hx' : x ≠ ip := by
                intro e; subst e
                rw [hr] at hx; cases hx
                exact hrun (podRunning_live s q r.uid h hq hnf (Or.inr hu))
              obtain ⟨ip', hm', r', hr', hk', hu'⟩ := tail_of_ne hx'
              exact ih _ (h.quiet pq) (by rw [pq.frame.pods]; exact hq) hnf ⟨ip', hm', r', by rw [pq.alloc]; exact hr', hk', hu'⟩

/-- resync / Release found the examined record's pod not running and the key not owned by a running pod: then no
    live bound pod has this key -/
theorem not_liveKey_of_checks (s : State) (h : Inv s) (k : Key) (ip : IP) (uid : Nat)
    (hrec : (∃ r, Tbl.get s.alloc ip = some r ∧ r.key = k ∧ r.uid = uid) ∨ (Tbl.get s.alloc ip = none ∧ k = Key.empty))
    (hrun : ¬ (podRunning Facts.good s k.pod k.ns uid).2 = true)
    (hko : ¬ (keyOwnedByRunningPod Facts.good (podRunning Facts.good s k.pod k.ns uid).1 k uid).2 = true)
    (hna : k.isAdmin = false) : ¬ LiveKey s.pods k := by
  intro hl
  have hl' : ∃ q, LiveBound s.pods q ∧ keyOf q = k := by
    rcases hl with hl | hadm
    · exact hl
    · rw [hna] at hadm; cases hadm
  obtain ⟨q, hq, hkq⟩ := hl'
  have wf := (h.podsWF _ q hq.1).2.2.2
  rcases hrec with ⟨r, hr, hrk, hru⟩ | ⟨_, hke⟩
  · by_cases hu : uid = 0 ∨ uid = q.uid
    · apply hrun
      have := podRunning_live s q uid h hq.1 hq.2.1 hu
      rw [hkq] at this; exact this
    · apply hko
      have pq := (podRunning_quiet Facts.good s k.pod k.ns uid).1
      obtain ⟨hd, hmem⟩ := List.exists_mem_of_ne_nil _ hq.2.2
      obtain ⟨rq, g1, g2, g3⟩ := h.safe.own q hq hd hmem
      unfold keyOwnedByRunningPod
      simp only [good_wholeKeyCheck, if_true]
      rw [← hkq]
      apply keyOwnedLoop_live q uid (fun e => hu (Or.inr e)) _ _ (h.quiet (by rw [← hkq] at pq; exact pq))
        (by rw [hkq, pq.frame.pods]; exact hq.1) hq.2.1
      refine ⟨hd.ip, ?_, rq, by rw [hkq, pq.alloc]; exact g1, g2, g3⟩
      apply mem_ipsOfKey_of_get (r := rq)
      · rw [hkq, pq.alloc]; exact g1
      · exact g2
  · have := (keyOf_fields q wf).2
    rw [hkq, hke] at this
    exact absurd this.symm wf.2.1

/-- the acting part of the resync closure, for a key no live bound pod has -/
theorem resyncAct_spec (s1 : State) (ip : IP) (k : Key) (r : Rec) (h1 : Inv s1) (hnl : ¬ LiveKey s1.pods k)
    (hip : NoLive s1.pods ip) :
    Inv (resyncAct s1 ip k r) ∧ Frame s1 (resyncAct s1 ip k r) ∧ UnassignsWithin s1 (resyncAct s1 ip k r) (NoLive s1.pods) := by
  have tail : ∀ s2 : State, Inv s2 → ¬ LiveKey s2.pods k →
      Inv (if k.isDp = true then (unbindDp s2 k r.policy).1 else (unbindOther s2 k r.policy).1) ∧
      Frame s2 (if k.isDp = true then (unbindDp s2 k r.policy).1 else (unbindOther s2 k r.policy).1) ∧
      (if k.isDp = true then (unbindDp s2 k r.policy).1 else (unbindOther s2 k r.policy).1).plog = s2.plog := by
    intro s2 h2 hn2
    split
    · have c := unbindDp_chg s2 k r.policy
      exact ⟨h2.step_of_chg_key _ hn2 (unbindDp_coherent _ _ _ h2.coh) c, c.frame, unbindDp_plog _ _ _⟩
    · have c := unbindOther_chg s2 k r.policy
      exact ⟨h2.step_of_chg_key _ hn2 (unbindOther_coherent _ _ _ h2.coh) c, c.frame, unbindOther_plog _ _ _⟩
  unfold resyncAct
  split
  · have uq := provUnassign_quiet s1 r.node ip
    have hu : Inv (provUnassign s1 r.node ip).1 := h1.quiet uq
    have lg1 : UnassignsWithin s1 (provUnassign s1 r.node ip).1 (NoLive s1.pods) :=
      (provUnassign_log s1 r.node ip).mono (fun j hj => by subst hj; exact hip)
    split
    · exact ⟨hu, uq.frame, lg1⟩
    · have hnl2 : ¬ LiveKey (provUnassign s1 r.node ip).1.pods k := by rw [uq.frame.pods]; exact hnl
      have c := reserve_then (provUnassign s1 r.node ip).1 k
      have h3 := hu.step_of_chg_key _ hnl2 (reserve_coherent _ _ _ _ hu.coh) c
      have hnl3 : ¬ LiveKey (reserve (provUnassign s1 r.node ip).1 k k {}).1.pods k := by rw [c.frame.pods]; exact hnl2
      have t := tail _ h3 hnl3
      have lg2 := lg1.trans (UnassignsWithin.of_plog_eq (NoLive s1.pods) (reserve_plog (provUnassign s1 r.node ip).1 k k {}))
      split
      · rename_i hdp
        simp only [hdp, if_true] at t
        exact ⟨t.1, (uq.frame.trans c.frame).trans t.2.1, lg2.trans (UnassignsWithin.of_plog_eq _ t.2.2)⟩
      · rename_i hdp
        simp only [hdp, Bool.false_eq_true, if_false] at t
        exact ⟨t.1, (uq.frame.trans c.frame).trans t.2.1, lg2.trans (UnassignsWithin.of_plog_eq _ t.2.2)⟩
  · have t := tail _ h1 hnl
    exact ⟨t.1, t.2.1, UnassignsWithin.of_plog_eq _ t.2.2⟩

/-- one checklist entry of the resync pass -/
theorem inChecklist_not_admin (r : Rec) (h : inChecklist r = true) : r.key.isAdmin = false := by
  unfold inChecklist at h
  unfold Key.isAdmin
  simp only [Bool.and_eq_true, decide_eq_true_eq] at h
  have : r.key.pod ≠ "" := by simpa using h.1.1.2
  simp [this]

theorem resyncOne_spec (s : State) (ip : IP) (r0 : Rec) (h : Inv s) (hna : r0.key.isAdmin = false) :
    Inv (resyncOne Facts.good s ip r0) ∧ Frame s (resyncOne Facts.good s ip r0) ∧
      UnassignsWithin s (resyncOne Facts.good s ip r0) (NoLive s.pods) := by
  unfold resyncOne
  simp only [good_resyncRechecks, if_true]
  split
  · exact ⟨h, Frame.refl s, UnassignsWithin.refl s _⟩
  · rename_i r hr
    split
    · exact ⟨h, Frame.refl s, UnassignsWithin.refl s _⟩
    · rename_i hk
      have hk' : r.key = r0.key := by simpa using hk
      have pq := podRunning_quiet Facts.good s r0.key.pod r0.key.ns r.uid
      have hpr : Inv (podRunning Facts.good s r0.key.pod r0.key.ns r.uid).1 := h.quiet pq.1
      have lg0 : UnassignsWithin s (podRunning Facts.good s r0.key.pod r0.key.ns r.uid).1 (NoLive s.pods) :=
        UnassignsWithin.of_plog_eq _ pq.2
      split
      · exact ⟨hpr, pq.1.frame, lg0⟩
      · rename_i hrun
        have kq := keyOwned_quiet Facts.good (podRunning Facts.good s r0.key.pod r0.key.ns r.uid).1 r0.key r.uid
        have hko := hpr.quiet kq.1
        have lg1 := lg0.trans (UnassignsWithin.of_plog_eq (NoLive s.pods) kq.2)
        split
        · exact ⟨hko, pq.1.frame.trans kq.1.frame, lg1⟩
        · rename_i hown
          have hnl : ¬ LiveKey s.pods r0.key :=
            not_liveKey_of_checks s h r0.key ip r.uid (Or.inl ⟨r, hr, hk', rfl⟩) hrun hown hna
          have fr := pq.1.frame.trans kq.1.frame
          have a := resyncAct_spec _ ip r0.key r hko (by rw [fr.pods]; exact hnl)
            (by rw [fr.pods]; exact noLive_of_key h.safe hr (by rw [hk']; exact hnl))
          rw [fr.pods] at a
          exact ⟨a.1, fr.trans a.2.1, lg1.trans a.2.2⟩

theorem resyncLoop_spec (snap : Tbl IP Rec) (hsnap : ∀ ip r0, Tbl.get snap ip = some r0 → r0.key.isAdmin = false) :
    ∀ (order : List IP) (s : State), Inv s →
    Inv (resyncLoop Facts.good snap s order) ∧ Frame s (resyncLoop Facts.good snap s order) ∧
      UnassignsWithin s (resyncLoop Facts.good snap s order) (NoLive s.pods) := by
  intro order
  induction order with
  | nil => intro s h; exact ⟨h, Frame.refl s, UnassignsWithin.refl s _⟩
  | cons ip t ih =>
    intro s h
    unfold resyncLoop
    split
    · exact ih s h
    · rename_i r0 hg0
      have o := resyncOne_spec s ip r0 h (hsnap ip r0 hg0)
      have r := ih _ o.1
      refine ⟨r.1, o.2.1.trans r.2.1, o.2.2.trans ?_⟩
      have := r.2.2
      rw [o.2.1.pods] at this
      exact this

theorem resync_spec (s : State) (order : List IP) (h : Inv s) :
    Inv (resync Facts.good s order).1 ∧
      ((resync Facts.good s order).1.pods = s.pods ∧ (resync Facts.good s order).1.admin = s.admin) ∧
      UnassignsWithin s (resync Facts.good s order).1 (NoLive s.pods) := by
  unfold resync
  dsimp only
  split
  · exact ⟨h, ⟨rfl, rfl⟩, UnassignsWithin.refl s _⟩
  · have := resyncLoop_spec (List.filter (fun e => inChecklist e.2) s.alloc) (fun ip r0 hg => by
      have hm := Tbl.get_mem hg
      simp only [List.mem_filter] at hm
      exact inChecklist_not_admin r0 hm.2) order s h
    exact ⟨this.1, ⟨this.2.1.pods, this.2.1.admin⟩, this.2.2⟩

theorem inv_resync (s : State) (order : List IP) (f pf : Nat) (h : Inv s) :
    Inv (step Facts.good s (.resync order f pf)).1 := (resync_spec _ order (inv_withFaults s f pf h)).1

/-! ### API release -/

theorem release_plog (s : State) (k : Key) (ip : IP) : (release s k ip).1.plog = s.plog := by
  unfold release
  split
  · rfl
  · dsimp only
    split
    · rfl
    · split
      · exact stDelete_plog _ _
      · exact stDelete_plog _ _

/-- the provider part of Release, for an address whose key no live bound pod has -/
theorem releasePre_spec (s : State) (node : String) (ip : IP) (k : Key) (h : Inv s) (hnl : ¬ LiveKey s.pods k)
    (hip : NoLive s.pods ip) :
    Inv (releasePre s node ip k).1 ∧ Frame s (releasePre s node ip k).1 ∧
      UnassignsWithin s (releasePre s node ip k).1 (NoLive s.pods) := by
  unfold releasePre
  split
  · have uq := provUnassign_quiet s node ip
    have hu := h.quiet uq
    have lg1 : UnassignsWithin s (provUnassign s node ip).1 (NoLive s.pods) :=
      (provUnassign_log s node ip).mono (fun j hj => by subst hj; exact hip)
    split
    · exact ⟨hu, uq.frame, lg1⟩
    · have hnl2 : ¬ LiveKey (provUnassign s node ip).1.pods k := by rw [uq.frame.pods]; exact hnl
      have c := reserve_then (provUnassign s node ip).1 k
      exact ⟨hu.step_of_chg_key _ hnl2 (reserve_coherent _ _ _ _ hu.coh) c, uq.frame.trans c.frame,
        lg1.trans (UnassignsWithin.of_plog_eq _ (reserve_plog _ _ _ _))⟩
  · exact ⟨h, Frame.refl s, UnassignsWithin.refl s _⟩

theorem releaseAct_spec (s1 : State) (ip : IP) (k : Key) (uid : Nat) (node : String) (h1 : Inv s1)
    (hnl : ¬ (keyOwnedByRunningPod Facts.good s1 k uid).2 = true → ¬ LiveKey s1.pods k) (hip : ¬ LiveKey s1.pods k → NoLive s1.pods ip) :
    Inv (releaseAct Facts.good s1 ip k uid node).1 ∧ ((releaseAct Facts.good s1 ip k uid node).1.pods = s1.pods ∧
      (releaseAct Facts.good s1 ip k uid node).1.admin = s1.admin) ∧
      UnassignsWithin s1 (releaseAct Facts.good s1 ip k uid node).1 (NoLive s1.pods) := by
  unfold releaseAct
  have kq := keyOwned_quiet Facts.good s1 k uid
  have hko := h1.quiet kq.1
  have lg1 : UnassignsWithin s1 (keyOwnedByRunningPod Facts.good s1 k uid).1 (NoLive s1.pods) := UnassignsWithin.of_plog_eq _ kq.2
  split
  · exact ⟨hko, ⟨kq.1.frame.pods, kq.1.frame.admin⟩, lg1⟩
  · rename_i hown
    have hn := hnl hown
    have pre := releasePre_spec (keyOwnedByRunningPod Facts.good s1 k uid).1 node ip k hko
      (by rw [kq.1.frame.pods]; exact hn) (by rw [kq.1.frame.pods]; exact hip hn)
    rw [kq.1.frame.pods] at pre
    split
    · have c := (release_chg (releasePre (keyOwnedByRunningPod Facts.good s1 k uid).1 node ip k).1 k ip).mono
        (fun _ x => x) isFree_uidZero
      refine ⟨pre.1.step_of_chg_key _ (by rw [pre.2.1.pods, kq.1.frame.pods]; exact hn)
        (release_coherent _ _ _ pre.1.coh) c, ⟨((kq.1.frame.trans pre.2.1).trans c.frame).pods,
          ((kq.1.frame.trans pre.2.1).trans c.frame).admin⟩, ?_⟩
      exact (lg1.trans pre.2.2).trans (UnassignsWithin.of_plog_eq _ (release_plog _ _ _))
    · exact ⟨pre.1, ⟨(kq.1.frame.trans pre.2.1).pods, (kq.1.frame.trans pre.2.1).admin⟩, lg1.trans pre.2.2⟩

theorem apiRelease_spec (s : State) (ip : IP) (k : Key) (h : Inv s) (hna : k.isAdmin = false) :
    Inv (apiRelease Facts.good s ip k).1 ∧
      ((apiRelease Facts.good s ip k).1.pods = s.pods ∧ (apiRelease Facts.good s ip k).1.admin = s.admin) ∧
      UnassignsWithin s (apiRelease Facts.good s ip k).1 (NoLive s.pods) := by
  unfold apiRelease
  simp only [good_releaseRechecks, Bool.true_and]
  split
  · exact ⟨h, ⟨rfl, rfl⟩, UnassignsWithin.refl s _⟩
  · rename_i hkey
    have hkey' : ((Tbl.get s.alloc ip).map (·.key)).getD Key.empty = k := by simpa using hkey
    have pq := podRunning_quiet Facts.good s k.pod k.ns (((Tbl.get s.alloc ip).map (·.uid)).getD 0)
    have hpr := h.quiet pq.1
    have lg0 : UnassignsWithin s (podRunning Facts.good s k.pod k.ns (((Tbl.get s.alloc ip).map (·.uid)).getD 0)).1
        (NoLive s.pods) := UnassignsWithin.of_plog_eq _ pq.2
    split
    · exact ⟨hpr, ⟨pq.1.frame.pods, pq.1.frame.admin⟩, lg0⟩
    · rename_i hrun
      have hrec : (∃ r, Tbl.get s.alloc ip = some r ∧ r.key = k ∧ r.uid = ((Tbl.get s.alloc ip).map (·.uid)).getD 0) ∨
          (Tbl.get s.alloc ip = none ∧ k = Key.empty) := by
        cases hg : Tbl.get s.alloc ip with
        | none => rw [hg] at hkey'; simp at hkey'; exact Or.inr ⟨rfl, hkey'.symm⟩
        | some r => rw [hg] at hkey'; simp at hkey'; exact Or.inl ⟨r, rfl, hkey', by simp⟩
      have hnlip : ¬ LiveKey s.pods k → NoLive s.pods ip := by
        intro hnl
        cases hg : Tbl.get s.alloc ip with
        | none =>
          rintro ⟨q, hq, hm⟩
          simp only [Pod.ips, List.mem_map] at hm
          obtain ⟨hd, hmem, hip⟩ := hm
          obtain ⟨r', h1, _, _⟩ := h.safe.own q hq hd hmem
          rw [hip, hg] at h1; cases h1
        | some r =>
          rw [hg] at hkey'; simp at hkey'
          exact noLive_of_key h.safe hg (by rw [hkey']; exact hnl)
      have a := releaseAct_spec (podRunning Facts.good s k.pod k.ns (((Tbl.get s.alloc ip).map (·.uid)).getD 0)).1 ip k
        (((Tbl.get s.alloc ip).map (·.uid)).getD 0) (((Tbl.get s.alloc ip).map (·.node)).getD "") hpr
        (fun hown => by rw [pq.1.frame.pods]; exact not_liveKey_of_checks s h k ip _ hrec hrun hown hna)
        (fun hn => by rw [pq.1.frame.pods] at hn ⊢; exact hnlip hn)
      rw [pq.1.frame.pods] at a
      exact ⟨a.1, ⟨a.2.1.1, a.2.1.2.trans pq.1.frame.admin⟩, lg0.trans a.2.2⟩

theorem assumed_apiRelease {s : State} {ip : IP} {k : Key} {f pf : Nat} (ha : assumed s (.apiRelease ip k f pf) = true) :
    k.isAdmin = false := by
  simpa [assumed] using ha

theorem inv_apiRelease (s : State) (ip : IP) (k : Key) (f pf : Nat) (h : Inv s) (hna : k.isAdmin = false) :
    Inv (step Facts.good s (.apiRelease ip k f pf)).1 := (apiRelease_spec _ ip k (inv_withFaults s f pf h) hna).1

end Galaxy.Plugin
