/-
  Lemmas about M1 `Nets`, part 2: the text codecs (own decimal printing / parsing lemmas, dotted quad,
  `a~b` ranges, CIDR).
-/
import Galaxy.Lemmas.Nets

namespace Galaxy.Nets
open Galaxy.Generated.Nets

def IsDigit (c : Char) : Prop := 48 ≤ c.toNat ∧ c.toNat ≤ 57

theorem digitChar_toNat (d : Nat) (h : d < 10) : (digitChar d).toNat = 48 + d := by
  match d, h with
  | 0, _ | 1, _ | 2, _ | 3, _ | 4, _ | 5, _ | 6, _ | 7, _ | 8, _ | 9, _ => rfl

theorem digitChar_isDigit (d : Nat) (h : d < 10) : IsDigit (digitChar d) := by
  unfold IsDigit; rw [digitChar_toNat d h]; constructor <;> omega

theorem digitVal_digitChar (d : Nat) (h : d < 10) : digitVal (digitChar d) = some d := by
  unfold digitVal
  rw [digitChar_toNat d h]
  simp
  omega

theorem showSmall_digits (n : Nat) (h : n < 1000) : ∀ c ∈ showSmall n, IsDigit c := by
  intro c hc
  unfold showSmall at hc
  split at hc
  · simp only [List.mem_singleton] at hc; subst hc; exact digitChar_isDigit _ (by omega)
  · split at hc
    · simp only [List.mem_cons, List.not_mem_nil, or_false] at hc
      rcases hc with rfl | rfl <;> exact digitChar_isDigit _ (by omega)
    · simp only [List.mem_cons, List.not_mem_nil, or_false] at hc
      rcases hc with rfl | rfl | rfl <;> exact digitChar_isDigit _ (by omega)

theorem showSmall_ne_nil (n : Nat) : showSmall n ≠ [] := by
  unfold showSmall
  split
  · simp
  · split <;> simp

theorem parseOctet_showSmall (n : Nat) (h : n < 256) : parseOctet (showSmall n) = some n := by
  unfold showSmall
  split
  · simp [parseOctet, digitVal_digitChar n (by omega)]
  · split
    · have h1 := digitVal_digitChar (n / 10) (by omega)
      have h2 := digitVal_digitChar (n % 10) (by omega)
      simp only [parseOctet, h1, h2]
      rw [if_neg (by omega)]
      congr 1; omega
    · have h1 := digitVal_digitChar (n / 100) (by omega)
      have h2 := digitVal_digitChar (n / 10 % 10) (by omega)
      have h3 := digitVal_digitChar (n % 10) (by omega)
      simp only [parseOctet, h1, h2, h3]
      rw [if_neg (by omega), if_pos (by omega)]
      congr 1; omega

theorem parseDec_showSmall (n : Nat) (h : n < 1000) : parseDec (showSmall n) = some n := by
  unfold showSmall
  split
  · simp [parseDec, parseDecAux, digitVal_digitChar n (by omega)]
  · split
    · have h1 := digitVal_digitChar (n / 10) (by omega)
      have h2 := digitVal_digitChar (n % 10) (by omega)
      simp only [parseDec, parseDecAux, h1, h2]
      congr 1; omega
    · have h1 := digitVal_digitChar (n / 100) (by omega)
      have h2 := digitVal_digitChar (n / 10 % 10) (by omega)
      have h3 := digitVal_digitChar (n % 10) (by omega)
      simp only [parseDec, parseDecAux, h1, h2, h3]
      congr 1; omega

/-! ### Splitting -/

theorem splitFirst_append (sep : Char) (a b : List Char) (h : sep ∉ a) :
    splitFirst sep (a ++ sep :: b) = some (a, b) := by
  induction a with
  | nil => simp [splitFirst]
  | cons c cs ih =>
    simp only [List.mem_cons, not_or] at h
    have hc : c ≠ sep := fun e => h.1 e.symm
    simp [splitFirst, hc, ih h.2]

theorem splitFirst_none (sep : Char) (a : List Char) (h : sep ∉ a) : splitFirst sep a = none := by
  induction a with
  | nil => rfl
  | cons c cs ih =>
    simp only [List.mem_cons, not_or] at h
    have hc : c ≠ sep := fun e => h.1 e.symm
    simp [splitFirst, hc, ih h.2]

/-! ### Dotted quad -/

theorem octet_lt (a : IPv4) (k : Nat) : octet a k < 256 := by
  unfold octet; omega

theorem octets_sum (a : IPv4) :
    BitVec.ofNat 32 (octet a 3 * 16777216 + octet a 2 * 65536 + octet a 1 * 256 + octet a 0) = a := by
  apply BitVec.eq_of_toNat_eq
  have := a.isLt
  unfold octet
  simp only [BitVec.toNat_ofNat]
  omega

/-- A separator which is neither a digit nor the dot does not occur in a printed address. -/
theorem sep_not_mem_showIPv4 (sep : Char) (hd : ¬ IsDigit sep) (hdot : sep ≠ '.') (a : IPv4) : sep ∉ showIPv4 a := by
  have h1 := octet_lt a 3
  have h2 := octet_lt a 2
  have h3 := octet_lt a 1
  have h4 := octet_lt a 0
  have nd : ∀ n, n < 256 → sep ∉ showSmall n := fun n hn hm => hd (showSmall_digits n (by omega) sep hm)
  unfold showIPv4
  simp only [List.mem_append, List.mem_cons, not_or]
  exact ⟨nd _ h1, hdot, nd _ h2, hdot, nd _ h3, hdot, nd _ h4⟩

theorem dot_not_mem_showSmall (n : Nat) (h : n < 1000) : '.' ∉ showSmall n := by
  intro hm
  have := showSmall_digits n h '.' hm
  unfold IsDigit at this
  have e : ('.' : Char).toNat = 46 := rfl
  omega

theorem parseIPv4_showIPv4 (a : IPv4) : parseIPv4 (showIPv4 a) = some a := by
  have h1 := octet_lt a 3
  have h2 := octet_lt a 2
  have h3 := octet_lt a 1
  have h4 := octet_lt a 0
  have hs := octets_sum a
  unfold showIPv4 parseIPv4
  rw [splitFirst_append _ _ _ (dot_not_mem_showSmall _ (by omega))]
  simp only []
  rw [splitFirst_append _ _ _ (dot_not_mem_showSmall _ (by omega))]
  simp only []
  rw [splitFirst_append _ _ _ (dot_not_mem_showSmall _ (by omega))]
  simp only [parseOctet_showSmall _ h1, parseOctet_showSmall _ h2, parseOctet_showSmall _ h3, parseOctet_showSmall _ h4]
  rw [hs]

theorem showIPv4_ne_nil (a : IPv4) : showIPv4 a ≠ [] := by
  unfold showIPv4
  intro h
  have := List.append_eq_nil_iff.mp h
  exact showSmall_ne_nil _ this.1

/-! ### Ranges -/

theorem sepChar_not_digit : ¬ IsDigit ipRangeSepChar := by unfold IsDigit; decide

theorem sepChar_ne_dot : ipRangeSepChar ≠ '.' := by decide

theorem parseRange_showRange (r : Range) (h : r.first.toNat ≤ r.last.toNat) : parseRange (showRange r) = some r := by
  have nm := sep_not_mem_showIPv4 ipRangeSepChar sepChar_not_digit sepChar_ne_dot
  unfold showRange parseRange
  by_cases he : r.first = r.last
  · rw [if_pos he, splitFirst_none _ _ (nm _), parseIPv4_showIPv4]
    cases r; simp_all
  · rw [if_neg he, splitFirst_append _ _ _ (nm _)]
    simp only [parseIPv4_showIPv4]
    have : parseRangeReject r.first r.last = false := by
      rw [Bool.eq_false_iff]; intro hr; rw [parseRangeReject_iff] at hr; omega
    simp [this]

/-- whatever `parseRange` accepts has `first ≤ last` -/
theorem parseRange_wf (s : List Char) (r : Range) (h : parseRange s = some r) : r.first.toNat ≤ r.last.toNat := by
  unfold parseRange at h
  split at h
  · split at h
    · split at h
      · cases h
      · rename_i hrej
        simp only [Option.some.injEq] at h
        subst h
        have : ¬ (parseRangeReject _ _ = true) := hrej
        rw [parseRangeReject_iff] at this
        simp only []
        omega
    · cases h
  · split at h
    · simp only [Option.some.injEq] at h; subst h; simp
    · cases h

/-! ### CIDR -/

theorem slash_not_digit : ¬ IsDigit '/' := by unfold IsDigit; decide

theorem parseCidr_showCidr (c : Cidr) (h : c.2 ≤ 32) : parseCidr (showCidr c) = some c := by
  unfold showCidr parseCidr
  rw [splitFirst_append _ _ _ (sep_not_mem_showIPv4 '/' slash_not_digit (by decide) _)]
  simp only [parseIPv4_showIPv4, parseDec_showSmall c.2 (by omega), if_pos h]

theorem parseCidr_prefix_le (s : List Char) (c : Cidr) (h : parseCidr s = some c) : c.2 ≤ 32 := by
  unfold parseCidr at h
  split at h
  · cases h
  · split at h
    · split at h
      · simp only [Option.some.injEq] at h; subst h; assumption
      · cases h
    · cases h

end Galaxy.Nets
