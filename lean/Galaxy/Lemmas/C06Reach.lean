/-
  C06 lemmas, part 14: the state hypotheses of the C06 theorems hold in every state reached from `init c` by a history
  of API truth changes, lister syncs, Filter, Bind and configuration reloads (any choices, any fault arguments):
  `Coherent` is the first conjunct of the plugin invariant (`inv_run`, work package "plugin"), `CacheOK` is
  `cacheOK_run`.
-/
import Galaxy.Lemmas.PluginMain
import Galaxy.Lemmas.C06Cache

namespace Galaxy.Plugin.C06
open Galaxy Galaxy.Plugin

theorem facts_good : facts = Facts.good := by decide

theorem reachable_state_ok (c : Conf) (ms : List Move) (hok : allAssumed facts (init c) ms = true)
    (hh : ms.all histMove = true) : Coherent (run facts (init c) ms) ∧ CacheOK (run facts (init c) ms) := by
  refine ⟨?_, cacheOK_run facts ms (init c) hh (cacheOK_init c)⟩
  rw [facts_good] at hok ⊢
  exact (inv_run ms (init c) (inv_init c) hok).coh

/-- the `Scene` of the C06 theorems in a reached state: only the facts about the pod itself remain to be given -/
theorem scene_of_history (c : Conf) (ms : List Move) (hok : allAssumed facts (init c) ms = true)
    (hh : ms.all histMove = true) (ns name : String) (pod : Pod)
    (ht : Tbl.get (run facts (init c) ms).pods (ns, name) = some pod)
    (hl : Tbl.get (run facts (init c) ms).vPods (ns, name) = some pod) (hw : pod.wants = true) (hp : pod.node = "") :
    Scene (run facts (init c) ms) ns name pod :=
  ⟨(reachable_state_ok c ms hok hh).1, (reachable_state_ok c ms hok hh).2, ht, hl, hw, hp⟩

end Galaxy.Plugin.C06
