/-
  Helper lemmas about the CNI multiplexer model: the DEL loop, the ADD loop, cmdDel / cmdAdd / step.
-/
import Galaxy.Model.Cni

namespace Galaxy.Cni

/-! ### pick -/

theorem pick_append {α : Type} (f : Nat → Bool) (i : Nat) (l₁ l₂ : List α) :
    pick f i (l₁ ++ l₂) = pick f i l₁ ++ pick f (i + l₁.length) l₂ := by
  induction l₁ generalizing i with
  | nil => simp [pick]
  | cons a t ih =>
    have h : i + (t.length + 1) = i + 1 + t.length := by omega
    by_cases hf : f i <;> simp [pick, hf, ih, h]

theorem pick_shift {α : Type} (f : Nat → Bool) (d i : Nat) (l : List α) :
    pick f (d + i) l = pick (fun j => f (d + j)) i l := by
  induction l generalizing i with
  | nil => simp [pick]
  | cons a t ih =>
    have h : d + i + 1 = d + (i + 1) := by omega
    by_cases hf : f (d + i) <;> simp [pick, hf, h, ih]

theorem pick_congr {α : Type} (f g : Nat → Bool) (i : Nat) (l : List α)
    (h : ∀ j, i ≤ j → j < i + l.length → f j = g j) : pick f i l = pick g i l := by
  induction l generalizing i with
  | nil => simp [pick]
  | cons a t ih =>
    have h0 : f i = g i := h i (Nat.le_refl _) (by simp)
    have ht : pick f (i + 1) t = pick g (i + 1) t :=
      ih (i + 1) (fun j h1 h2 => h j (by omega) (by simp; omega))
    simp [pick, h0, ht]

theorem pick_reverse {α : Type} (f : Nat → Bool) (l : List α) :
    (pick f 0 l.reverse).reverse = pick (fun p => f (l.length - 1 - p)) 0 l := by
  induction l with
  | nil => simp [pick]
  | cons a t ih =>
    rw [List.reverse_cons, pick_append, List.reverse_append, ih]
    have h1 : pick (fun p => f ((a :: t).length - 1 - p)) 0 (a :: t)
        = (if f t.length then [a] else []) ++ pick (fun p => f ((a :: t).length - 1 - p)) 1 t := by
      by_cases hf : f t.length <;> simp [pick, hf]
    rw [h1]
    have h2 : pick (fun p => f ((a :: t).length - 1 - p)) 1 t = pick (fun p => f (t.length - 1 - p)) 0 t := by
      have := pick_shift (fun p => f ((a :: t).length - 1 - p)) 1 0 t
      simp only [Nat.add_zero] at this
      rw [this]
      apply pick_congr
      intro j _ _
      have : (a :: t).length - 1 - (1 + j) = t.length - 1 - j := by simp; omega
      simp only [this]
    rw [h2]
    by_cases hf : f t.length <;> simp [pick, hf]

theorem pick_none {α : Type} (f : Nat → Bool) (i : Nat) (l : List α)
    (h : ∀ j, i ≤ j → j < i + l.length → f j = false) : pick f i l = [] := by
  induction l generalizing i with
  | nil => simp [pick]
  | cons a t ih =>
    have h0 : f i = false := h i (Nat.le_refl _) (by simp)
    have ht := ih (i + 1) (fun j h1 h2 => h j (by omega) (by simp; omega))
    simp [pick, h0, ht]

theorem pick_all {α : Type} (f : Nat → Bool) (i : Nat) (l : List α)
    (h : ∀ j, i ≤ j → j < i + l.length → f j = true) : pick f i l = l := by
  induction l generalizing i with
  | nil => simp [pick]
  | cons a t ih =>
    have h0 : f i = true := h i (Nat.le_refl _) (by simp)
    have ht := ih (i + 1) (fun j h1 h2 => h j (by omega) (by simp; omega))
    simp [pick, h0, ht]

/-- a non-empty pick has a position where the predicate holds -/
theorem pick_ne_nil {α : Type} (f : Nat → Bool) (i : Nat) (l : List α) (h : pick f i l ≠ []) :
    ∃ j, i ≤ j ∧ j < i + l.length ∧ f j = true := by
  by_cases hall : ∀ j, i ≤ j → j < i + l.length → f j = false
  · exact absurd (pick_none f i l hall) h
  · simp only [Classical.not_forall] at hall
    obtain ⟨j, h1, h2, h3⟩ := hall
    exact ⟨j, h1, h2, by simpa using h3⟩

/-! ### the DEL loop -/

theorem delLoop_tgt (cid : Str) (o : Nat → Bool) (R : List NetInfo) (k : Nat) (a : Str) :
    (delLoop cid o R k a).invs.map Inv.tgt = R.map (delTgt cid) := by
  induction R generalizing k a with
  | nil => simp [delLoop]
  | cons n t ih => simp [delLoop, ih, Inv.tgt, delInv, delTgt]

theorem delLoop_prev (cid : Str) (o : Nat → Bool) (R : List NetInfo) (k : Nat) (a : Str) :
    (delLoop cid o R k a).invs.map Inv.prev = R.map NetInfo.prev := by
  induction R generalizing k a with
  | nil => simp [delLoop]
  | cons n t ih => simp [delLoop, ih, delInv]

theorem delLoop_fails (cid : Str) (o : Nat → Bool) (R : List NetInfo) (k : Nat) (a : Str) :
    (delLoop cid o R k a).fails = pick (fun j => !o j) k R := by
  induction R generalizing k a with
  | nil => simp [delLoop, pick]
  | cons n t ih =>
    by_cases hk : o k <;> simp [delLoop, pick, hk, ih]

/-- the saved failures, put back into original order, are the infos whose DEL failed -/
theorem delLoop_fails_reverse (cid : Str) (o : Nat → Bool) (L : List NetInfo) (k : Nat) (a : Str) :
    (delLoop cid o L.reverse k a).fails.reverse = pick (fun p => !o (k + (L.length - 1 - p))) 0 L := by
  rw [delLoop_fails]
  have := pick_shift (fun j => !o j) k 0 L.reverse
  simp only [Nat.add_zero] at this
  rw [this, pick_reverse]

/-- every invocation's argument string is an accumulation step applied to something -/
def ArgsInv (P : Str → Prop) (invs : List Inv) : Prop := ∀ i ∈ invs, P i.args

theorem delLoop_args (cid : Str) (o : Nat → Bool) (I P : Str → Prop) (hI : ∀ a, P a → I a)
    (R : List NetInfo) (k : Nat) (a : Str) (h0 : I a)
    (hstep : ∀ a n, n ∈ R → I a → P (accumDel a n.args)) : ArgsInv P (delLoop cid o R k a).invs := by
  induction R generalizing k a with
  | nil => intro i hi; simp [delLoop] at hi
  | cons n t ih =>
    intro i hi
    simp only [delLoop, List.mem_cons] at hi
    have hP := hstep a n (by simp) h0
    rcases hi with h | h
    · subst h; simpa [delInv] using hP
    · exact ih (k + 1) _ (hI _ hP) (fun a' n' hn' => hstep a' n' (by simp [hn'])) i h

/-! ### cmdDel -/

theorem cmdDel_none (s : State) (cid a : Str) (last : Option Nat) (o : Nat → Bool) (k : Nat)
    (h : s.files.get cid = none) : cmdDel s cid a last o k = ⟨s, [], true⟩ := by
  simp [cmdDel, h]

theorem cmdDel_some (s : State) (cid a : Str) (last : Option Nat) (o : Nat → Bool) (k : Nat) (L : List NetInfo)
    (h : s.files.get cid = some L) : cmdDel s cid a last o k = delWalk s cid (upto L last) a o k := by
  simp [cmdDel, h]

theorem delWalk_invs (s : State) (cid a : Str) (U : List NetInfo) (o : Nat → Bool) (k : Nat) :
    (delWalk s cid U a o k).invs = (delLoop cid o U.reverse k a).invs := by
  unfold delWalk
  by_cases he : (delLoop cid o U.reverse k a).fails.isEmpty = true <;> simp [he]

theorem delWalk_ok (s : State) (cid a : Str) (U : List NetInfo) (o : Nat → Bool) (k : Nat) :
    (delWalk s cid U a o k).ok = (pick (fun p => !o (k + (U.length - 1 - p))) 0 U).isEmpty := by
  unfold delWalk
  rw [← delLoop_fails_reverse cid o U k a]
  by_cases he : (delLoop cid o U.reverse k a).fails.isEmpty = true
  · simp only [he, if_true]; simpa using he
  · simp only [he]
    have : (delLoop cid o U.reverse k a).fails ≠ [] := by simpa using he
    simp [this]

theorem delWalk_files_self (s : State) (cid a : Str) (U : List NetInfo) (o : Nat → Bool) (k : Nat) :
    (delWalk s cid U a o k).state.files.get cid =
      (if (pick (fun p => !o (k + (U.length - 1 - p))) 0 U).isEmpty then none
       else some (pick (fun p => !o (k + (U.length - 1 - p))) 0 U)) := by
  unfold delWalk
  rw [← delLoop_fails_reverse cid o U k a]
  by_cases he : (delLoop cid o U.reverse k a).fails.isEmpty = true
  · have : (delLoop cid o U.reverse k a).fails = [] := by simpa using he
    simp [this]
  · have : (delLoop cid o U.reverse k a).fails ≠ [] := by simpa using he
    simp [he]

theorem delWalk_frame (s : State) (cid a : Str) (U : List NetInfo) (o : Nat → Bool) (k : Nat) (c : Str)
    (hc : cid ≠ c) : (delWalk s cid U a o k).state.files.get c = s.files.get c := by
  unfold delWalk
  by_cases he : (delLoop cid o U.reverse k a).fails.isEmpty = true <;> simp [he, hc]

theorem delWalk_shared (s : State) (cid a : Str) (U : List NetInfo) (o : Nat → Bool) (k : Nat) :
    (delWalk s cid U a o k).state.shared = s.shared := by
  unfold delWalk
  by_cases he : (delLoop cid o U.reverse k a).fails.isEmpty = true <;> simp [he]

theorem cmdDel_tgt (s : State) (cid a : Str) (last : Option Nat) (o : Nat → Bool) (k : Nat) (L : List NetInfo)
    (h : s.files.get cid = some L) :
    (cmdDel s cid a last o k).invs.map Inv.tgt = (upto L last).reverse.map (delTgt cid) := by
  rw [cmdDel_some _ _ _ _ _ _ _ h, delWalk_invs, delLoop_tgt]

theorem cmdDel_prev (s : State) (cid a : Str) (last : Option Nat) (o : Nat → Bool) (k : Nat) (L : List NetInfo)
    (h : s.files.get cid = some L) :
    (cmdDel s cid a last o k).invs.map Inv.prev = (upto L last).reverse.map NetInfo.prev := by
  rw [cmdDel_some _ _ _ _ _ _ _ h, delWalk_invs, delLoop_prev]

theorem cmdDel_files_self (s : State) (cid a : Str) (last : Option Nat) (o : Nat → Bool) (k : Nat) (L : List NetInfo)
    (h : s.files.get cid = some L) :
    (cmdDel s cid a last o k).state.files.get cid =
      (if (pick (fun p => !o (k + ((upto L last).length - 1 - p))) 0 (upto L last)).isEmpty then none
       else some (pick (fun p => !o (k + ((upto L last).length - 1 - p))) 0 (upto L last))) := by
  rw [cmdDel_some _ _ _ _ _ _ _ h, delWalk_files_self]

theorem cmdDel_ok (s : State) (cid a : Str) (last : Option Nat) (o : Nat → Bool) (k : Nat) (L : List NetInfo)
    (h : s.files.get cid = some L) :
    (cmdDel s cid a last o k).ok = (pick (fun p => !o (k + ((upto L last).length - 1 - p))) 0 (upto L last)).isEmpty := by
  rw [cmdDel_some _ _ _ _ _ _ _ h, delWalk_ok]

theorem cmdDel_frame (s : State) (cid a : Str) (last : Option Nat) (o : Nat → Bool) (k : Nat) (c : Str)
    (hc : cid ≠ c) : (cmdDel s cid a last o k).state.files.get c = s.files.get c := by
  unfold cmdDel
  split
  · rfl
  · exact delWalk_frame _ _ _ _ _ _ _ hc

theorem cmdDel_shared (s : State) (cid a : Str) (last : Option Nat) (o : Nat → Bool) (k : Nat) :
    (cmdDel s cid a last o k).state.shared = s.shared := by
  unfold cmdDel
  split
  · rfl
  · exact delWalk_shared _ _ _ _ _ _

/-- `cmdDel` looks only at the container's own state entry -/
theorem cmdDel_congr (s₁ s₂ : State) (cid a : Str) (last : Option Nat) (o : Nat → Bool) (k : Nat)
    (h : s₁.files.get cid = s₂.files.get cid) :
    (cmdDel s₁ cid a last o k).invs = (cmdDel s₂ cid a last o k).invs ∧
    (cmdDel s₁ cid a last o k).ok = (cmdDel s₂ cid a last o k).ok ∧
    (cmdDel s₁ cid a last o k).state.files.get cid = (cmdDel s₂ cid a last o k).state.files.get cid := by
  cases h2 : s₂.files.get cid with
  | none =>
    rw [h2] at h
    rw [cmdDel_none _ _ _ _ _ _ h, cmdDel_none _ _ _ _ _ _ h2]
    simp [h, h2]
  | some L =>
    rw [h2] at h
    rw [cmdDel_some _ _ _ _ _ _ _ h, cmdDel_some _ _ _ _ _ _ _ h2]
    simp [delWalk_invs, delWalk_ok, delWalk_files_self]

theorem cmdDel_args (I P : Str → Prop) (hI : ∀ a, P a → I a) (s : State) (cid a : Str) (last : Option Nat)
    (o : Nat → Bool) (k : Nat) (L : List NetInfo) (h : s.files.get cid = some L) (h0 : I a)
    (hstep : ∀ a n, n ∈ L → I a → P (accumDel a n.args)) : ArgsInv P (cmdDel s cid a last o k).invs := by
  rw [cmdDel_some _ _ _ _ _ _ _ h, delWalk_invs]
  apply delLoop_args cid o I P hI _ _ _ h0
  intro a' n hn
  apply hstep a' n
  have hn' : n ∈ upto L last := by simpa using hn
  cases last with
  | none => simpa [upto] using hn'
  | some i => exact List.mem_of_mem_take (by simpa [upto] using hn')

/-! ### the ADD loop -/

theorem addLoop_ok (st : Static) (cid : Str) (o : Nat → Bool) (L : List NetInfo) (k : Nat) (a : Str)
    (res : Option Src) (sh : Tbl Str Src) (h : ∀ j, j < L.length → o (k + j) = true) :
    (addLoop st cid o L k a res sh).failedAt = none ∧
    (addLoop st cid o L k a res sh).invs.map Inv.tgt = L.map (addTgt cid) := by
  induction L generalizing k a res sh with
  | nil => simp [addLoop]
  | cons n t ih =>
    have h0 : o k = true := by simpa using h 0 (by simp)
    have ht : ∀ j, j < t.length → o (k + 1 + j) = true := fun j hj => by
      have := h (j + 1) (by simp; omega)
      simpa [Nat.add_assoc, Nat.add_comm 1 j] using this
    have := ih (k + 1) (accumAdd a n.args) (some (resultOf cid n)) (writePrev st sh n.name res) ht
    simp [addLoop, h0, this.1, this.2, Inv.tgt, addInv, addTgt]

theorem addLoop_fail (st : Static) (cid : Str) (o : Nat → Bool) (L : List NetInfo) (k : Nat) (a : Str)
    (res : Option Src) (sh : Tbl Str Src) (m : Nat) (hm : m < L.length)
    (hok : ∀ j, j < m → o (k + j) = true) (hf : o (k + m) = false) :
    (addLoop st cid o L k a res sh).failedAt = some (k + m) ∧
    (addLoop st cid o L k a res sh).invs.map Inv.tgt = (L.take (m + 1)).map (addTgt cid) := by
  induction L generalizing k a res sh m with
  | nil => simp at hm
  | cons n t ih =>
    cases m with
    | zero =>
      have h0 : o k = false := by simpa using hf
      simp [addLoop, h0, Inv.tgt, addInv, addTgt]
    | succ m' =>
      have h0 : o k = true := by simpa using hok 0 (by omega)
      have hm' : m' < t.length := by simpa using hm
      have hok' : ∀ j, j < m' → o (k + 1 + j) = true := fun j hj => by
        have := hok (j + 1) (by omega)
        simpa [Nat.add_assoc, Nat.add_comm 1 j] using this
      have hf' : o (k + 1 + m') = false := by
        simpa [Nat.add_assoc, Nat.add_comm 1 m'] using hf
      have := ih (k + 1) (accumAdd a n.args) (some (resultOf cid n)) (writePrev st sh n.name res) m' hm' hok' hf'
      have e : k + 1 + m' = k + (m' + 1) := by omega
      simp [addLoop, h0, this.1, this.2, e, Inv.tgt, addInv, addTgt]

/-- when confs are copied the shared table is never written -/
theorem addLoop_shared_copy (st : Static) (hc : st.copy = true) (cid : Str) (o : Nat → Bool) (L : List NetInfo)
    (k : Nat) (a : Str) (res : Option Src) (sh : Tbl Str Src) :
    (addLoop st cid o L k a res sh).shared = sh := by
  induction L generalizing k a res sh with
  | nil => simp [addLoop]
  | cons n t ih =>
    have hal : aliased st n.name = false := by simp [aliased, hc]
    by_cases h0 : o k <;> cases res <;> simp [addLoop, writePrev, h0, hal, ih]

/-- invocation records, failure index and argument string of the ADD loop do not depend on the shared table -/
theorem addLoop_indep (st : Static) (cid : Str) (o : Nat → Bool) (L : List NetInfo)
    (k : Nat) (a : Str) (res : Option Src) (sh₁ sh₂ : Tbl Str Src) :
    (addLoop st cid o L k a res sh₁).invs = (addLoop st cid o L k a res sh₂).invs ∧
    (addLoop st cid o L k a res sh₁).failedAt = (addLoop st cid o L k a res sh₂).failedAt ∧
    (addLoop st cid o L k a res sh₁).args = (addLoop st cid o L k a res sh₂).args := by
  induction L generalizing k a res sh₁ sh₂ with
  | nil => simp [addLoop]
  | cons n t ih =>
    by_cases h0 : o k
    · simp only [addLoop, h0, if_true]
      have := ih (k + 1) (accumAdd a n.args) (some (resultOf cid n)) (writePrev st sh₁ n.name res) (writePrev st sh₂ n.name res)
      simp [this.1, this.2.1, this.2.2]
    · simp [addLoop, h0]

/-- prevResult chain of the ADD loop: the first delegate sees its own conf's `prev` (or the given result),
    every later one the result of its predecessor -/
def prevChain (cid : Str) : Option Src → List NetInfo → List (Option Src)
  | _, [] => []
  | res, n :: t => seenPrev n res :: prevChain cid (some (resultOf cid n)) t

theorem addLoop_prev_ok (st : Static) (cid : Str) (o : Nat → Bool) (L : List NetInfo) (k : Nat) (a : Str)
    (res : Option Src) (sh : Tbl Str Src) (h : ∀ j, j < L.length → o (k + j) = true) :
    (addLoop st cid o L k a res sh).invs.map Inv.prev = prevChain cid res L := by
  induction L generalizing k a res sh with
  | nil => simp [addLoop, prevChain]
  | cons n t ih =>
    have h0 : o k = true := by simpa using h 0 (by simp)
    have ht : ∀ j, j < t.length → o (k + 1 + j) = true := fun j hj => by
      have := h (j + 1) (by simp; omega)
      simpa [Nat.add_assoc, Nat.add_comm 1 j] using this
    have := ih (k + 1) (accumAdd a n.args) (some (resultOf cid n)) (writePrev st sh n.name res) ht
    simp [addLoop, h0, this, prevChain, addInv]

theorem addLoop_args (st : Static) (cid : Str) (o : Nat → Bool) (I P : Str → Prop) (hI : ∀ a, P a → I a)
    (L : List NetInfo) (k : Nat) (a : Str) (res : Option Src) (sh : Tbl Str Src) (h0 : I a)
    (hstep : ∀ a n, n ∈ L → I a → P (accumAdd a n.args)) :
    ArgsInv P (addLoop st cid o L k a res sh).invs ∧ I (addLoop st cid o L k a res sh).args := by
  induction L generalizing k a res sh with
  | nil => exact ⟨by intro i hi; simp [addLoop] at hi, by simpa [addLoop] using h0⟩
  | cons n t ih =>
    have hP := hstep a n (by simp) h0
    by_cases hk : o k
    · have := ih (k + 1) (accumAdd a n.args) (some (resultOf cid n)) (writePrev st sh n.name res) (hI _ hP)
        (fun a' n' hn' => hstep a' n' (by simp [hn']))
      refine ⟨?_, by simpa [addLoop, hk] using this.2⟩
      intro i hi
      simp only [addLoop, hk, if_true, List.mem_cons] at hi
      rcases hi with h | h
      · subst h; simpa [addInv] using hP
      · exact this.1 i h
    · refine ⟨?_, by simpa [addLoop, hk] using hI _ hP⟩
      intro i hi
      simp only [addLoop, hk] at hi
      simp at hi
      subst hi; simpa [addInv] using hP

/-! ### network selection -/

theorem mkInfos_prev (st : Static) (argIf : Str) (ext : Args) (i : Nat) (els : List Elem) (L : List NetInfo)
    (h : mkInfos st argIf ext i els = some L) : ∀ n ∈ L, n.prev = none ∧ n.args = ext := by
  induction els generalizing i L with
  | nil => simp [mkInfos] at h; subst h; simp
  | cons e t ih =>
    simp only [mkInfos] at h
    split at h
    · rename_i c r hc hr
      simp at h; subst h
      intro n hn
      simp at hn
      rcases hn with hn | hn
      · subst hn; simp
      · exact ih (i + 1) r hr n hn
    · simp at h

theorem select_prev (st : Static) (pod : Pod) (argIf : Str) (L : List NetInfo) (h : select st pod argIf = some L) :
    ∀ n ∈ L, n.prev = none := by
  unfold select at h
  split at h
  · exact fun n hn => (mkInfos_prev _ _ _ _ _ _ h n hn).1
  · simp at h

theorem select_args (st : Static) (pod : Pod) (argIf : Str) (L : List NetInfo) (ext : Args)
    (h : select st pod argIf = some L) (he : pod.ext = some ext) : ∀ n ∈ L, n.args = ext := by
  unfold select at h
  split at h
  · rename_i els ext' hc he'
    rw [he] at he'; cases he'
    exact fun n hn => (mkInfos_prev _ _ _ _ _ _ h n hn).2
  · simp at h

theorem mkInfos_length (st : Static) (argIf : Str) (ext : Args) (i : Nat) (els : List Elem) (L : List NetInfo)
    (h : mkInfos st argIf ext i els = some L) : L.length = els.length := by
  induction els generalizing i L with
  | nil => simp [mkInfos] at h; subst h; rfl
  | cons e t ih =>
    simp only [mkInfos] at h
    split at h
    · rename_i c r hc hr
      simp at h; subst h
      simp [ih (i + 1) r hr]
    · simp at h

/-- the j-th info built from the elements is the j-th element's network on the interface `setNetInterface` names -/
theorem mkInfos_get (st : Static) (argIf : Str) (ext : Args) (i : Nat) (els : List Elem) (L : List NetInfo)
    (h : mkInfos st argIf ext i els = some L) (j : Nat) (e : Elem) (he : els[j]? = some e) :
    ∃ n, L[j]? = some n ∧ n.name = e.name ∧ lookupConf st e.name = some n.conf ∧
      n.ifname = Galaxy.Generated.Cni.setNetInterface e.iface (i + j) argIf := by
  induction els generalizing i L j e with
  | nil => simp at he
  | cons e' t ih =>
    simp only [mkInfos] at h
    split at h
    · rename_i c r hc hr
      simp at h; subst h
      cases j with
      | zero =>
        simp at he; subst he
        exact ⟨{ name := e'.name, conf := c, ifname := Galaxy.Generated.Cni.setNetInterface e'.iface i argIf,
                 args := ext, prev := none }, by simp, rfl, hc, by simp⟩
      | succ j' =>
        simp at he
        obtain ⟨n, h1, h2, h3, h4⟩ := ih (i + 1) r hr j' e he
        refine ⟨n, by simpa using h1, h2, h3, ?_⟩
        rw [h4]; congr 1; omega
    · simp at h

/-- with copying, saving does not change the selected infos -/
theorem snapshot_copy (st : Static) (hc : st.copy = true) (sh : Tbl Str Src) (L : List NetInfo)
    (h : ∀ n ∈ L, n.prev = none) : snapshot st sh L = L := by
  have : ∀ x ∈ L, (fun x : NetInfo => { x with prev := curPrev st sh x.name }) x = x := by
    intro x hx
    have hp := h x hx
    have : curPrev st sh x.name = none := by simp [curPrev, aliased, hc]
    cases x; simp_all
  unfold snapshot
  rw [List.map_congr_left this]; simp

theorem snapshot_indep (st : Static) (hc : st.copy = true) (sh₁ sh₂ : Tbl Str Src) (L : List NetInfo) :
    snapshot st sh₁ L = snapshot st sh₂ L := by
  simp [snapshot, curPrev, aliased, hc]

theorem snapshot_tgt (st : Static) (sh : Tbl Str Src) (cid : Str) (L : List NetInfo) :
    (snapshot st sh L).map (addTgt cid) = L.map (addTgt cid) ∧
    (snapshot st sh L).map (delTgt cid) = L.map (delTgt cid) := by
  simp [snapshot, List.map_map, Function.comp_def, addTgt, delTgt]

theorem snapshot_length (st : Static) (sh : Tbl Str Src) (L : List NetInfo) : (snapshot st sh L).length = L.length := by
  simp [snapshot]

theorem snapshot_take (st : Static) (sh : Tbl Str Src) (L : List NetInfo) (n : Nat) :
    (snapshot st sh L).take n = snapshot st sh (L.take n) := by
  simp [snapshot, List.map_take]

end Galaxy.Cni
