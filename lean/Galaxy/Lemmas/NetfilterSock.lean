/-
  The kernel bind table and OpenHostports / CloseHostports: an invariant of every reachable host state.
-/
import Galaxy.Model.Netfilter

namespace Galaxy.Netfilter

open Galaxy

theorem bindPort_fresh {b : List Sock} {proto : String} {port choice : Nat} {s : Sock}
    (h : bindPort b proto port choice = .ok s) : s ∉ b := by
  unfold bindPort at h
  split at h
  · cases h
  · split at h
    · split at h
      · cases h
      · next hc => cases h; exact fun hm => hc (Or.inr hm)
    · split at h
      · cases h
      · next hc => cases h; exact hc

theorem bindPort_fixed {b : List Sock} {proto : String} {port choice : Nat} {s : Sock}
    (h : bindPort b proto port choice = .ok s) (hp : port ≠ 0) : s = (proto, port) := by
  unfold bindPort at h
  simp only [hp, if_false] at h
  split at h
  · cases h
  · split at h
    · cases h
    · cases h; rfl

/-- the kernel never hands out port 0 -/
theorem bindPort_nonzero {b : List Sock} {proto : String} {port choice : Nat} {s : Sock}
    (h : bindPort b proto port choice = .ok s) : s.2 ≠ 0 := by
  unfold bindPort at h
  split at h
  · cases h
  · split at h
    · split at h
      · cases h
      · next hc => cases h; exact fun e => hc (Or.inl e)
    · next hp =>
      split at h
      · cases h
      · cases h; exact hp

/-- a bound (protocol, port) cannot be bound again -/
theorem bindPort_inUse {b : List Sock} {proto : String} {port choice : Nat} (hb : (proto, port) ∈ b)
    (hp : port ≠ 0) : ∀ s, bindPort b proto port choice ≠ .ok s := by
  intro s h
  have h1 := bindPort_fixed h hp
  have h2 := bindPort_fresh h
  rw [h1] at h2; exact h2 hb

/-- what the loop has opened: duplicate-free and disjoint from what was bound before -/
def Fresh (bound opened : List Sock) : Prop :=
  opened.Nodup ∧ (∀ s ∈ opened, s ∉ bound) ∧ ∀ s ∈ opened, s.2 ≠ 0

theorem openLoop_fresh (random : Bool) (bound : List Sock) : ∀ (reqs : List Req) (opened : List Sock)
    (choices : List Nat), Fresh bound opened → Fresh bound (openLoop random bound opened reqs choices).1
  | [], _, _, h => h
  | (port, proto) :: rest, opened, choices, h => by
    unfold openLoop
    split
    · exact openLoop_fresh random bound rest opened choices h
    · split
      · exact h
      · next s hs =>
        apply openLoop_fresh random bound rest
        have hf := bindPort_fresh hs
        refine ⟨?_, ?_, ?_⟩
        · rw [List.nodup_append]
          refine ⟨h.1, by simp, ?_⟩
          intro a ha b hb
          simp only [List.mem_cons, List.mem_nil_iff, or_false] at hb
          subst hb
          intro e; subst e
          exact hf (List.mem_append_left _ ha)
        · intro x hx
          rcases List.mem_append.mp hx with hx | hx
          · exact h.2.1 x hx
          · simp only [List.mem_cons, List.mem_nil_iff, or_false] at hx
            subst hx
            exact fun hm => hf (List.mem_append_right _ hm)
        · intro x hx
          rcases List.mem_append.mp hx with hx | hx
          · exact h.2.2 x hx
          · simp only [List.mem_cons, List.mem_nil_iff, or_false] at hx
            subst hx
            exact bindPort_nonzero hs

theorem filter_opened {bound opened : List Sock} (h : ∀ s ∈ opened, s ∉ bound) :
    (opened ++ bound).filter (fun s => s ∉ opened) = bound := by
  rw [List.filter_append]
  have h1 : opened.filter (fun s => decide (s ∉ opened)) = [] := by
    rw [List.filter_eq_nil_iff]; intro a ha; simp [ha]
  have h2 : bound.filter (fun s => decide (s ∉ opened)) = bound := by
    rw [List.filter_eq_self]; intro a ha
    simp only [decide_eq_true_eq]
    exact fun hm => h a hm ha
  rw [h1, h2]; rfl

/-- a failed OpenHostports leaves the host exactly as it was -/
theorem openHostports_error {h : Host} {pod : String} {random : Bool} {reqs : List Req} {choices : List Nat}
    {e : SockErr} (he : (openHostports h pod random reqs choices).2 = .error e) :
    (openHostports h pod random reqs choices).1 = h := by
  unfold openHostports at he ⊢
  have hf := openLoop_fresh random h.bound reqs [] choices ⟨List.nodup_nil, by simp, by simp⟩
  cases hl : openLoop random h.bound [] reqs choices with
  | mk opened oe =>
    rw [hl] at hf he
    cases oe with
    | some e' =>
      simp only
      rw [filter_opened hf.2.1]
    | none =>
      simp only at he
      split at he <;> cases he

/-! ## the invariant -/

structure Inv (h : Host) : Prop where
  bnd : h.bound.Nodup
  heldBound : ∀ pod ss, Tbl.get h.held pod = some ss → ∀ s ∈ ss, s ∈ h.bound
  heldNodup : ∀ pod ss, Tbl.get h.held pod = some ss → ss.Nodup
  heldDisj : ∀ p1 p2 ss1 ss2, p1 ≠ p2 → Tbl.get h.held p1 = some ss1 → Tbl.get h.held p2 = some ss2 →
    ∀ s ∈ ss1, s ∉ ss2
  heldNonzero : ∀ pod ss, Tbl.get h.held pod = some ss → ∀ s ∈ ss, s.2 ≠ 0
  orphBound : ∀ s ∈ h.orphan, s ∈ h.bound
  orphDisj : ∀ s ∈ h.orphan, ∀ pod ss, Tbl.get h.held pod = some ss → s ∉ ss

theorem inv_init {foreign : List Sock} (h : foreign.Nodup) : Inv (Host.init foreign) :=
  ⟨h, by intro pod ss hg; simp [Host.init] at hg, by intro pod ss hg; simp [Host.init] at hg,
   by intro p1 p2 ss1 ss2 _ hg; simp [Host.init] at hg, by intro pod ss hg; simp [Host.init] at hg,
   by intro s hs; simp [Host.init] at hs,
   by intro s hs; simp [Host.init] at hs⟩

theorem mem_allHeld {h : Host} {s : Sock} :
    s ∈ h.allHeld ↔ ∃ pod ss, Tbl.get h.held pod = some ss ∧ s ∈ ss := by
  unfold Host.allHeld
  simp only [List.mem_flatMap, List.mem_eraseDups]
  constructor
  · rintro ⟨pod, hk, hs⟩
    have := Tbl.get_isSome_of_mem_keys hk
    obtain ⟨ss, hss⟩ := Option.isSome_iff_exists.mp this
    rw [hss] at hs
    exact ⟨pod, ss, hss, hs⟩
  · rintro ⟨pod, ss, hss, hs⟩
    exact ⟨pod, Tbl.mem_keys_of_get hss, by rw [hss]; exact hs⟩

/-- the effect of a successful OpenHostports that handed out sockets -/
theorem openHostports_ok {h : Host} {pod : String} {random : Bool} {reqs : List Req} {choices : List Nat}
    {ss : List Sock} (he : (openHostports h pod random reqs choices).2 = .ok ss) :
    Fresh h.bound ss ∧
      ((ss = [] ∧ (openHostports h pod random reqs choices).1 = h) ∨
       (ss ≠ [] ∧ (openHostports h pod random reqs choices).1 =
          ⟨ss ++ h.bound, Tbl.set h.held pod ss, ((Tbl.get h.held pod).getD []) ++ h.orphan⟩)) := by
  unfold openHostports at he ⊢
  have hf := openLoop_fresh random h.bound reqs [] choices ⟨List.nodup_nil, by simp, by simp⟩
  cases hl : openLoop random h.bound [] reqs choices with
  | mk opened oe =>
    rw [hl] at hf he
    cases oe with
    | some e' => simp only at he; cases he
    | none =>
      simp only at he ⊢
      by_cases ho : opened = []
      · simp only [ho, if_true] at he ⊢
        cases he
        exact ⟨⟨List.nodup_nil, by simp, by simp⟩, Or.inl (by simp)⟩
      · simp only [ho, if_false] at he ⊢
        cases he
        exact ⟨hf, Or.inr ⟨ho, rfl⟩⟩

theorem inv_open {h : Host} (hi : Inv h) (pod : String) (random : Bool) (reqs : List Req) (choices : List Nat) :
    Inv (openHostports h pod random reqs choices).1 := by
  cases hr : (openHostports h pod random reqs choices).2 with
  | error e => rw [openHostports_error hr]; exact hi
  | ok ss =>
    obtain ⟨hf, h1 | h1⟩ := openHostports_ok hr
    · rw [h1.2]; exact hi
    · rw [h1.2]
      refine ⟨?_, ?_, ?_, ?_, ?_, ?_, ?_⟩
      · rw [List.nodup_append]
        exact ⟨hf.1, hi.bnd, fun a ha b hb e => hf.2.1 a ha (e ▸ hb)⟩
      · intro p ss' hg s hs
        simp only at hg
        by_cases hp : pod = p
        · subst hp; simp at hg; subst hg; exact List.mem_append_left _ hs
        · rw [Tbl.get_set_ne _ _ hp] at hg
          exact List.mem_append_right _ (hi.heldBound p ss' hg s hs)
      · intro p ss' hg
        simp only at hg
        by_cases hp : pod = p
        · subst hp; simp at hg; subst hg; exact hf.1
        · rw [Tbl.get_set_ne _ _ hp] at hg; exact hi.heldNodup p ss' hg
      · intro p1 p2 ss1 ss2 hne hg1 hg2 s hs
        simp only at hg1 hg2
        by_cases hp1 : pod = p1
        · subst hp1
          simp at hg1; subst hg1
          rw [Tbl.get_set_ne _ _ hne] at hg2
          exact fun hm => hf.2.1 s hs (hi.heldBound p2 ss2 hg2 s hm)
        · rw [Tbl.get_set_ne _ _ hp1] at hg1
          by_cases hp2 : pod = p2
          · subst hp2
            simp at hg2; subst hg2
            exact fun hm => hf.2.1 s hm (hi.heldBound p1 ss1 hg1 s hs)
          · rw [Tbl.get_set_ne _ _ hp2] at hg2
            exact hi.heldDisj p1 p2 ss1 ss2 hne hg1 hg2 s hs
      · intro p ss' hg
        simp only at hg
        by_cases hp : pod = p
        · subst hp; simp at hg; subst hg; exact hf.2.2
        · rw [Tbl.get_set_ne _ _ hp] at hg; exact hi.heldNonzero p ss' hg
      · intro s hs
        simp only at hs ⊢
        rcases List.mem_append.mp hs with hs | hs
        · cases hg : Tbl.get h.held pod with
          | none => rw [hg] at hs; simp at hs
          | some old => rw [hg] at hs; exact List.mem_append_right _ (hi.heldBound pod old hg s hs)
        · exact List.mem_append_right _ (hi.orphBound s hs)
      · intro s hs p ss' hg
        simp only at hs hg
        have hsb : s ∈ h.bound := by
          rcases List.mem_append.mp hs with hs | hs
          · cases hg' : Tbl.get h.held pod with
            | none => rw [hg'] at hs; simp at hs
            | some old => rw [hg'] at hs; exact hi.heldBound pod old hg' s hs
          · exact hi.orphBound s hs
        by_cases hp : pod = p
        · subst hp
          simp at hg; subst hg
          exact fun hm => hf.2.1 s hm hsb
        · rw [Tbl.get_set_ne _ _ hp] at hg
          rcases List.mem_append.mp hs with hs | hs
          · cases hg' : Tbl.get h.held pod with
            | none => rw [hg'] at hs; simp at hs
            | some old => rw [hg'] at hs; exact hi.heldDisj pod p old ss' hp hg' hg s hs
          · exact hi.orphDisj s hs p ss' hg

theorem inv_close {h : Host} (hi : Inv h) (pod : String) : Inv (closeHostports h pod) := by
  unfold closeHostports
  cases hg : Tbl.get h.held pod with
  | none => exact hi
  | some ss =>
    simp only
    refine ⟨hi.bnd.sublist List.filter_sublist, ?_, ?_, ?_, ?_, ?_, ?_⟩
    · intro p ss' hg' s hs
      simp only at hg' ⊢
      by_cases hp : pod = p
      · subst hp; simp at hg'
      · rw [Tbl.get_erase_ne _ hp] at hg'
        rw [List.mem_filter]
        refine ⟨hi.heldBound p ss' hg' s hs, ?_⟩
        simp only [decide_eq_true_eq]
        exact fun hm => hi.heldDisj p pod ss' ss (fun e => hp e.symm) hg' hg s hs hm
    · intro p ss' hg'
      simp only at hg'
      by_cases hp : pod = p
      · subst hp; simp at hg'
      · rw [Tbl.get_erase_ne _ hp] at hg'; exact hi.heldNodup p ss' hg'
    · intro p1 p2 ss1 ss2 hne hg1 hg2
      simp only at hg1 hg2
      by_cases hp1 : pod = p1
      · subst hp1; simp at hg1
      · by_cases hp2 : pod = p2
        · subst hp2; simp at hg2
        · rw [Tbl.get_erase_ne _ hp1] at hg1
          rw [Tbl.get_erase_ne _ hp2] at hg2
          exact hi.heldDisj p1 p2 ss1 ss2 hne hg1 hg2
    · intro p ss' hg'
      simp only at hg'
      by_cases hp : pod = p
      · subst hp; simp at hg'
      · rw [Tbl.get_erase_ne _ hp] at hg'; exact hi.heldNonzero p ss' hg'
    · intro s hs
      simp only at hs ⊢
      rw [List.mem_filter]
      refine ⟨hi.orphBound s hs, ?_⟩
      simp only [decide_eq_true_eq]
      exact hi.orphDisj s hs pod ss hg
    · intro s hs p ss' hg'
      simp only at hs hg'
      by_cases hp : pod = p
      · subst hp; simp at hg'
      · rw [Tbl.get_erase_ne _ hp] at hg'; exact hi.orphDisj s hs p ss' hg'

theorem inv_fbind {h : Host} (hi : Inv h) (s : Sock) : Inv (foreignBind h s).1 := by
  unfold foreignBind
  split
  · exact hi
  · next hs =>
    exact ⟨List.nodup_cons.mpr ⟨hs, hi.bnd⟩,
      fun p ss hg x hx => List.mem_cons_of_mem _ (hi.heldBound p ss hg x hx),
      hi.heldNodup, hi.heldDisj, hi.heldNonzero, fun x hx => List.mem_cons_of_mem _ (hi.orphBound x hx),
      hi.orphDisj⟩

theorem inv_fclose {h : Host} (hi : Inv h) (s : Sock) : Inv (foreignClose h s) := by
  unfold foreignClose
  split
  · exact hi
  · next hs =>
    simp only [not_or] at hs
    refine ⟨hi.bnd.sublist List.filter_sublist, ?_, hi.heldNodup, hi.heldDisj, hi.heldNonzero, ?_, hi.orphDisj⟩
    · intro p ss hg x hx
      simp only
      rw [List.mem_filter]
      refine ⟨hi.heldBound p ss hg x hx, ?_⟩
      simp only [ne_eq, decide_not, Bool.not_eq_eq_eq_not, Bool.not_true, decide_eq_false_iff_not]
      intro e; subst e
      exact hs.1 (mem_allHeld.mpr ⟨p, ss, hg, hx⟩)
    · intro x hx
      simp only
      rw [List.mem_filter]
      refine ⟨hi.orphBound x hx, ?_⟩
      simp only [ne_eq, decide_not, Bool.not_eq_eq_eq_not, Bool.not_true, decide_eq_false_iff_not]
      intro e; subst e
      exact hs.2 hx

theorem inv_gc {h : Host} (hi : Inv h) (s : Sock) : Inv (finalizeOrphan h s) := by
  unfold finalizeOrphan
  split
  · next hs =>
    refine ⟨hi.bnd.sublist List.filter_sublist, ?_, hi.heldNodup, hi.heldDisj, hi.heldNonzero, ?_, ?_⟩
    · intro p ss hg x hx
      simp only
      rw [List.mem_filter]
      refine ⟨hi.heldBound p ss hg x hx, ?_⟩
      simp only [ne_eq, decide_not, Bool.not_eq_eq_eq_not, Bool.not_true, decide_eq_false_iff_not]
      intro e; subst e
      exact hi.orphDisj x hs p ss hg hx
    · intro x hx
      simp only at hx ⊢
      rw [List.mem_filter] at hx ⊢
      exact ⟨hi.orphBound x hx.1, hx.2⟩
    · intro x hx p ss hg
      simp only at hx hg
      exact hi.orphDisj x (List.mem_filter.mp hx).1 p ss hg
  · exact hi

theorem inv_step {h : Host} (hi : Inv h) (op : HostOp) : Inv (hostStep h op) := by
  cases op with
  | «open» pod random reqs choices => exact inv_open hi pod random reqs choices
  | close pod => exact inv_close hi pod
  | fbind s => exact inv_fbind hi s
  | fclose s => exact inv_fclose hi s
  | gc s => exact inv_gc hi s

theorem inv_run {h : Host} (hi : Inv h) (ops : List HostOp) : Inv (ops.foldl hostStep h) := by
  induction ops generalizing h with
  | nil => exact hi
  | cons op ops ih => exact ih (inv_step hi op)

/-! ## a pod's sockets stay bound until its own close / re-open -/

def touches (pod : String) : HostOp → Bool
  | .open p _ _ _ => p = pod
  | .close p => p = pod
  | _ => false

theorem held_step {h : Host} (hi : Inv h) {pod : String} {ss : List Sock}
    (hg : Tbl.get h.held pod = some ss) (op : HostOp) (ht : touches pod op = false) :
    Tbl.get (hostStep h op).held pod = some ss := by
  cases op with
  | «open» p random reqs choices =>
    simp only [touches, decide_eq_false_iff_not] at ht
    simp only [hostStep]
    cases hr : (openHostports h p random reqs choices).2 with
    | error e => rw [openHostports_error hr]; exact hg
    | ok ss' =>
      obtain ⟨_, h1 | h1⟩ := openHostports_ok hr
      · rw [h1.2]; exact hg
      · rw [h1.2]; simp only; rw [Tbl.get_set_ne _ _ ht]; exact hg
  | close p =>
    simp only [touches, decide_eq_false_iff_not] at ht
    simp only [hostStep, closeHostports]
    cases hgp : Tbl.get h.held p with
    | none => exact hg
    | some ss' => simp only; rw [Tbl.get_erase_ne _ ht]; exact hg
  | fbind s =>
    simp only [hostStep, foreignBind]
    split <;> exact hg
  | fclose s =>
    simp only [hostStep, foreignClose]
    split <;> exact hg
  | gc s =>
    simp only [hostStep, finalizeOrphan]
    split <;> exact hg

theorem held_run {pod : String} {ss : List Sock} : ∀ (ops : List HostOp) {h : Host}, Inv h →
    Tbl.get h.held pod = some ss → (∀ op ∈ ops, touches pod op = false) →
    Tbl.get (ops.foldl hostStep h).held pod = some ss ∧ Inv (ops.foldl hostStep h)
  | [], _, hi, hg, _ => ⟨hg, hi⟩
  | op :: ops, h, hi, hg, ht =>
    held_run ops (inv_step hi op) (held_step hi hg op (ht op (List.mem_cons_self ..)))
      (fun o ho => ht o (List.mem_cons_of_mem _ ho))

end Galaxy.Netfilter
