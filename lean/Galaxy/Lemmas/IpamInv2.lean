/-
  `Inv`, part 2: every mutator applies at most one local transition (`LocD`) to every address and leaves the
  configuration and the pending events alone.  The six mutators which never delete are handled once, generically, for
  any family of per-address predicates closed under "create" and "update".
-/
import Galaxy.Lemmas.IpamInv

namespace Galaxy.Ipam
open Tbl

structure Closed2 (P : IP → Option Rec → Option Rec → Prop) : Prop where
  create : ∀ ip a r, r.reserved = false → P ip a none → P ip (some r) (some r)
  update : ∀ ip r r0 k (at' : Attr) now, P ip (some r) (some r0) →
    P ip (some (assignRec k at' now r)) (some (assignRec k at' now r0))

/-- the predicate holds at every address, and configuration / pending events are the given ones -/
def Holds (P : IP → Option Rec → Option Rec → Prop) (pools : List Pool) (pending : List Event) (s : State) : Prop :=
  s.pools = pools ∧ s.pending = pending ∧ ∀ ip, P ip (s.alloc.get ip) (s.store.get ip)

variable {P : IP → Option Rec → Option Rec → Prop} {pools : List Pool} {pending : List Event} {s : State}

theorem holds_store_same (h : Holds P pools pending s) : Holds P pools pending { s with store := s.store } := h

theorem holds_alloc (hP : Closed2 P) (h : Holds P pools pending s) (ip : IP) (r : Rec) (hr : r.reserved = false)
    (hn : s.store.get ip = none) : Holds P pools pending { memAlloc s ip r with store := s.store.set ip r } := by
  refine ⟨h.1, h.2.1, ?_⟩
  intro j
  by_cases hj : j = ip
  · subst hj
    have := hP.create j (s.alloc.get j) r hr (by rw [← hn]; exact h.2.2 j)
    simpa [memAlloc] using this
  · have hne : ip ≠ j := fun e => hj e.symm
    simpa [memAlloc, Tbl.get_set_ne _ _ hne] using h.2.2 j

theorem holds_update (hP : Closed2 P) (h : Holds P pools pending s) {ip : IP} {r r0 : Rec} (hal : s.alloc.get ip = some r)
    (hst : s.store.get ip = some r0) (k : String) (a : Attr) (now : Nat) :
    Holds P pools pending
      { s with store := s.store.set ip (assignRec k a now r0), alloc := s.alloc.set ip (assignRec k a now r) } := by
  refine ⟨h.1, h.2.1, ?_⟩
  intro j
  by_cases hj : j = ip
  · subst hj
    have := hP.update j r r0 k a now (by rw [← hal, ← hst]; exact h.2.2 j)
    simpa using this
  · have hne : ip ≠ j := fun e => hj e.symm
    simpa [Tbl.get_set_ne _ _ hne] using h.2.2 j

theorem mkRec_unreserved (key : String) (a : Attr) (now : Nat) : (mkRec key a now).reserved = false := rfl

theorem holds_allocateSpecific (hP : Closed2 P) (h : Holds P pools pending s) (key : String) (ip : IP) (a : Attr) (pl : Plan)
    (hne : (allocateSpecific s key ip a pl).2.err ≠ some .crashed) :
    Holds P pools pending (allocateSpecific s key ip a pl).1 := by
  unfold allocateSpecific at hne ⊢
  by_cases hin : ip ∈ s.free
  · rw [if_pos hin] at hne ⊢
    rcases sCreate_cases pl 0 s.store ip (mkRec key a s.clock) with ⟨e, _, heq, _⟩ | ⟨hn, heq⟩ | ⟨st', heq⟩
    · simp only [heq]; exact h
    · simp only [heq]; exact holds_alloc hP h ip _ (mkRec_unreserved _ _ _) hn
    · simp [heq, Out.fail] at hne
  · rw [if_neg hin]; exact h

theorem holds_allocateInSubnet (hP : Closed2 P) (h : Holds P pools pending s) (key subnet : String) (a : Attr)
    (choice : Option IP) (pl : Plan) (hne : (allocateInSubnet s key subnet a choice pl).2.err ≠ some .crashed) :
    Holds P pools pending (allocateInSubnet s key subnet a choice pl).1 := by
  unfold allocateInSubnet at hne ⊢
  cases choice with
  | none => exact h
  | some ip =>
    simp only at hne ⊢
    rcases sCreate_cases pl 0 s.store ip (mkRec key a s.clock) with ⟨e, _, heq, _⟩ | ⟨hn, heq⟩ | ⟨st', heq⟩
    · simp only [heq]; exact h
    · simp only [heq]; exact holds_alloc hP h ip _ (mkRec_unreserved _ _ _) hn
    · simp [heq, Out.fail] at hne

theorem holds_allocateInSubnetWithKey (hP : Closed2 P) (h : Holds P pools pending s) (old new subnet : String) (a : Attr)
    (choice : Option IP) (pl : Plan) (hne : (allocateInSubnetWithKey s old new subnet a choice pl).2.err ≠ some .crashed) :
    Holds P pools pending (allocateInSubnetWithKey s old new subnet a choice pl).1 := by
  unfold allocateInSubnetWithKey at hne ⊢
  cases choice with
  | none => exact h
  | some ip =>
    simp only at hne ⊢
    cases hal : s.alloc.get ip with
    | none => exact h
    | some r =>
      rw [hal] at hne
      simp only at hne ⊢
      rcases sGetUpdate_cases pl 0 s.store ip (assignRec new a s.clock) with ⟨e, _, heq⟩ | ⟨r0, hst, heq⟩ | ⟨st', heq⟩
      · simp only [heq]; exact h
      · simp only [heq]; exact holds_update hP h hal hst new a s.clock
      · simp [heq, Out.fail] at hne

theorem holds_updateAttr (hP : Closed2 P) (h : Holds P pools pending s) (key : String) (ip : IP) (a : Attr) (pl : Plan)
    (hne : (updateAttr s key ip a pl).2.err ≠ some .crashed) : Holds P pools pending (updateAttr s key ip a pl).1 := by
  unfold updateAttr at hne ⊢
  cases hal : s.alloc.get ip with
  | none => exact h
  | some r =>
    rw [hal] at hne
    simp only at hne ⊢
    by_cases hk : r.key ≠ key
    · rw [if_pos hk]; exact h
    · rw [if_neg hk] at hne ⊢
      rcases sGetUpdate_cases pl 0 s.store ip (assignRec r.key a s.clock) with ⟨e, _, heq⟩ | ⟨r0, hst, heq⟩ | ⟨st', heq⟩
      · simp only [heq]; exact h
      · simp only [heq]; exact holds_update hP h hal hst r.key a s.clock
      · simp [heq, Out.fail] at hne

theorem holds_reserveLoop (hP : Closed2 P) (now : Nat) (old new : String) (a : Attr) (pl : Plan) :
    ∀ (l : List IP) (n : Nat) (s : State) (ch : Bool), Holds P pools pending s →
      (reserveLoop now old new a pl l n s ch).2.err ≠ some .crashed →
      Holds P pools pending (reserveLoop now old new a pl l n s ch).1 := by
  intro l
  induction l with
  | nil => intro n s ch h _; exact h
  | cons ip rest ih =>
    intro n s ch h hne
    unfold reserveLoop at hne ⊢
    cases hal : s.alloc.get ip with
    | none => rw [hal] at hne; exact ih _ _ _ h hne
    | some r =>
      rw [hal] at hne
      simp only at hne ⊢
      by_cases hk : r.key ≠ old
      · rw [if_pos hk] at hne ⊢; exact ih _ _ _ h hne
      · rw [if_neg hk] at hne ⊢
        by_cases hsame : old = new ∧ r.uid = a.uid ∧ r.node = a.node
        · rw [if_pos hsame] at hne ⊢; exact ih _ _ _ h hne
        · rw [if_neg hsame] at hne ⊢
          rcases sGetUpdate_cases pl n s.store ip (assignRec new { a with policy := r.policy } now) with
            ⟨e, _, heq⟩ | ⟨r0, hst, heq⟩ | ⟨st', heq⟩
          · simp only [heq]; exact h
          · simp only [heq] at hne ⊢
            exact ih _ _ _ (holds_update hP h hal hst new _ now) hne
          · simp [heq, Out.fail] at hne

theorem holds_allocateInSubnetsAndRanges (hP : Closed2 P) (h : Holds P pools pending s) (key subnet : String)
    (ranges : List (List Range)) (a : Attr) (choice : Option IP) (pl : Plan)
    (hne : (allocateInSubnetsAndRanges s key subnet ranges a choice pl).2.err ≠ some .crashed) :
    Holds P pools pending (allocateInSubnetsAndRanges s key subnet ranges a choice pl).1 := by
  by_cases hr : ranges = []
  · subst hr
    simp only [allocateInSubnetsAndRanges] at hne ⊢
    exact holds_allocateInSubnet hP h key subnet a choice pl hne
  · cases herr : (allocateInSubnetsAndRanges s key subnet ranges a choice pl).2.err with
    | none =>
      have ok := allocRanges_success hr herr
      refine ⟨ok.pools.trans h.1, ?_, ?_⟩
      · -- pending: the mutator never touches it
        have := allocRanges_pending (s := s) (key := key) (subnet := subnet) (ranges := ranges) (a := a) (choice := choice) (pl := pl)
        exact this.trans h.2.1
      · intro j
        rw [ok.alloc j, ok.store j]
        by_cases hj : j ∈ (allocateInSubnetsAndRanges s key subnet ranges a choice pl).2.ips
        · rw [if_pos hj, if_pos hj]
          exact hP.create j (s.alloc.get j) _ (mkRec_unreserved _ _ _) (by rw [← ok.unstored j hj]; exact h.2.2 j)
        · rw [if_neg hj, if_neg hj]; exact h.2.2 j
    | some e =>
      have hec : e ≠ .crashed := by intro he; subst he; exact hne herr
      obtain ⟨k1, k2, _⟩ := allocRanges_failure_general herr hec
      refine ⟨k1.trans h.1, ?_, ?_⟩
      · have := allocRanges_pending (s := s) (key := key) (subnet := subnet) (ranges := ranges) (a := a) (choice := choice) (pl := pl)
        exact this.trans h.2.1
      · intro j
        rcases k2 j with ⟨g1, g2, _⟩ | ⟨_, g2, g3, g4, _⟩
        · rw [g1, g2]; exact h.2.2 j
        · rw [g3, g4]
          exact hP.create j (s.alloc.get j) _ (mkRec_unreserved _ _ _) (by rw [← g2]; exact h.2.2 j)

/-! ## the relation "one local transition since state s" is closed -/

theorem loc_closed (s0 : State) : Closed2 (fun ip a' st' => Loc (s0.alloc.get ip) (s0.store.get ip) a' st') := by
  constructor
  · intro ip a r hr h
    cases h with
    | id _ h2 => exact Loc.create r h2.symm rfl rfl hr
    | create _ _ _ h3 _ => cases h3
    | update _ _ _ _ _ _ _ h4 _ _ _ => cases h4
  · intro ip r r0 k at' now h
    cases h with
    | id h1 h2 =>
      exact Loc.update r r0 _ _ h1.symm h2.symm rfl rfl rfl rfl ⟨rfl, rfl, rfl, rfl⟩
    | create r1 h1 h2 h3 h4 =>
      cases h2; cases h3
      exact Loc.create _ h1 rfl rfl h4
    | update x x0 x' x0' h1 h2 h3 h4 h5 h6 _ =>
      cases h3; cases h4
      exact Loc.update x x0 _ _ h1 h2 rfl rfl h5 h6 ⟨rfl, rfl, rfl, rfl⟩

theorem holds_loc_self (s : State) : Holds (fun ip a' st' => Loc (s.alloc.get ip) (s.store.get ip) a' st') s.pools s.pending s :=
  ⟨rfl, rfl, fun _ => Loc.id rfl rfl⟩

/-! ## Release / ReleaseIPs: the two mutators which delete -/

theorem locD_release (s : State) (key : String) (ip : IP) (pl : Plan) (hne : (release s key ip pl).2.err ≠ some .crashed) :
    (release s key ip pl).1.pools = s.pools ∧ (release s key ip pl).1.pending = s.pending ∧
    ∀ j, LocD (s.alloc.get j) (s.store.get j) ((release s key ip pl).1.alloc.get j) ((release s key ip pl).1.store.get j) := by
  have hid : ∀ j, LocD (s.alloc.get j) (s.store.get j) (s.alloc.get j) (s.store.get j) := fun _ => LocD.loc (Loc.id rfl rfl)
  unfold release at hne ⊢
  cases hal : s.alloc.get ip with
  | none => exact ⟨rfl, rfl, hid⟩
  | some r =>
    rw [hal] at hne
    simp only at hne ⊢
    by_cases hk : r.key ≠ key
    · rw [if_pos hk]; exact ⟨rfl, rfl, hid⟩
    · rw [if_neg hk] at hne ⊢
      rcases sDelete_cases pl 0 s.store ip with ⟨e, _, heq, _⟩ | ⟨⟨r0, hr0⟩, heq⟩ | ⟨st', heq⟩
      · rw [heq]; exact ⟨rfl, rfl, hid⟩
      · rw [heq]
        refine ⟨rfl, rfl, ?_⟩
        intro j
        by_cases hj : j = ip
        · subst hj
          exact LocD.delete r r0 hal hr0 (by simp [memFree]) (by simp)
        · have hne' : ip ≠ j := fun e => hj e.symm
          exact LocD.loc (Loc.id (by simp [memFree, Tbl.get_erase_ne _ hne']) (by simp [Tbl.get_erase_ne _ hne']))
      · simp [heq, Out.fail] at hne

theorem releaseLoop_frame (pl : Plan) :
    ∀ (l : List (IP × String)) (n : Nat) (s : State) (del und : List (IP × String)),
      (releaseLoop pl l n s del und).1.pools = s.pools ∧ (releaseLoop pl l n s del und).1.pending = s.pending ∧
      ∀ j, j ∉ l.map (·.1) → (releaseLoop pl l n s del und).2.err ≠ some .crashed →
        (releaseLoop pl l n s del und).1.alloc.get j = s.alloc.get j ∧
        (releaseLoop pl l n s del und).1.store.get j = s.store.get j := by
  intro l
  induction l with
  | nil => intro n s del und; exact ⟨rfl, rfl, fun _ _ _ => ⟨rfl, rfl⟩⟩
  | cons p rest ih =>
    intro n s del und
    obtain ⟨ip, key⟩ := p
    unfold releaseLoop
    cases hal : s.alloc.get ip with
    | none =>
      simp only
      by_cases hf : ip ∈ s.free
      · rw [if_pos hf]
        obtain ⟨k1, k2, k3⟩ := ih n s del (setAssoc und ip "")
        exact ⟨k1, k2, fun j hj hne => k3 j (fun h => hj (by simp [h])) hne⟩
      · rw [if_neg hf]
        obtain ⟨k1, k2, k3⟩ := ih n s del und
        exact ⟨k1, k2, fun j hj hne => k3 j (fun h => hj (by simp [h])) hne⟩
    | some r =>
      simp only
      by_cases hk : r.key = key
      · rw [if_pos hk]
        rcases sDelete_cases pl n s.store ip with ⟨e, _, heq, _⟩ | ⟨_, heq⟩ | ⟨st', heq⟩
        · rw [heq]; exact ⟨rfl, rfl, fun _ _ _ => ⟨rfl, rfl⟩⟩
        · rw [heq]
          obtain ⟨k1, k2, k3⟩ := ih (n + 1) { memFree s ip with store := s.store.erase ip } (del ++ [(ip, key)])
            (und.filter (fun p => p.1 != ip))
          refine ⟨k1, k2, ?_⟩
          intro j hj hne
          have hji : j ≠ ip := fun h => hj (by simp [h])
          have hne' : ip ≠ j := fun e => hji e.symm
          obtain ⟨g1, g2⟩ := k3 j (fun h => hj (by simp [h])) hne
          exact ⟨by rw [g1]; simp [memFree, Tbl.get_erase_ne _ hne'], by rw [g2]; simp [Tbl.get_erase_ne _ hne']⟩
        · rw [heq]
          exact ⟨rfl, rfl, fun _ _ hne => absurd rfl hne⟩
      · rw [if_neg hk]
        obtain ⟨k1, k2, k3⟩ := ih n s del (setAssoc und ip r.key)
        exact ⟨k1, k2, fun j hj hne => k3 j (fun h => hj (by simp [h])) hne⟩

theorem locD_releaseLoop (pl : Plan) :
    ∀ (l : List (IP × String)) (n : Nat) (s : State) (del und : List (IP × String)), (l.map (·.1)).Nodup →
      (releaseLoop pl l n s del und).2.err ≠ some .crashed →
      ∀ j, LocD (s.alloc.get j) (s.store.get j) ((releaseLoop pl l n s del und).1.alloc.get j)
        ((releaseLoop pl l n s del und).1.store.get j) := by
  intro l
  induction l with
  | nil => intro n s del und _ _ j; exact LocD.loc (Loc.id rfl rfl)
  | cons p rest ih =>
    intro n s del und hnd hne j
    obtain ⟨ip, key⟩ := p
    have hnd' : ip ∉ rest.map (·.1) ∧ (rest.map (·.1)).Nodup := List.nodup_cons.mp hnd
    have hfr := releaseLoop_frame pl
    unfold releaseLoop at hne ⊢
    cases hal : s.alloc.get ip with
    | none =>
      rw [hal] at hne
      simp only at hne ⊢
      by_cases hf : ip ∈ s.free
      · rw [if_pos hf] at hne ⊢; exact ih _ _ _ _ hnd'.2 hne j
      · rw [if_neg hf] at hne ⊢; exact ih _ _ _ _ hnd'.2 hne j
    | some r =>
      rw [hal] at hne
      simp only at hne ⊢
      by_cases hk : r.key = key
      · rw [if_pos hk] at hne ⊢
        rcases sDelete_cases pl n s.store ip with ⟨e, _, heq, _⟩ | ⟨⟨r0, hr0⟩, heq⟩ | ⟨st', heq⟩
        · simp only [heq]; exact LocD.loc (Loc.id rfl rfl)
        · simp only [heq] at hne ⊢
          by_cases hj : j = ip
          · subst hj
            obtain ⟨g1, g2⟩ := (hfr rest (n + 1) { memFree s j with store := s.store.erase j } (del ++ [(j, key)])
              (und.filter (fun p => p.1 != j))).2.2 j hnd'.1 hne
            exact LocD.delete r r0 hal hr0 (by rw [g1]; simp [memFree]) (by rw [g2]; simp)
          · have hne' : ip ≠ j := fun e => hj e.symm
            have := ih (n + 1) { memFree s ip with store := s.store.erase ip } (del ++ [(ip, key)])
              (und.filter (fun p => p.1 != ip)) hnd'.2 hne j
            simpa [memFree, Tbl.get_erase_ne _ hne'] using this
        · simp [heq] at hne
      · rw [if_neg hk] at hne ⊢; exact ih _ _ _ _ hnd'.2 hne j

end Galaxy.Ipam
