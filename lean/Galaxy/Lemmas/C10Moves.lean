/-
  C10 proofs, part 3: the invariant core (`Core`: coherent tables, provider on, `J`, well-ordered log) through unbind,
  event delivery, resync, API release, Filter and Bind.
-/
import Galaxy.Lemmas.C10Rec
import Galaxy.Lemmas.PluginResync
import Galaxy.Lemmas.PluginBind
import Galaxy.Lemmas.PluginMain
import Galaxy.Lemmas.PluginReload

namespace Galaxy.PluginC10
open Galaxy Galaxy.Plugin

structure Core (s : State) : Prop where
  coh : Coherent s
  on : s.provOn = true
  j : J s
  log : logOK s.plog = true

theorem Core.of_quiet {s s' : State} (h : Core s) (q : QuietStep s s') (hp : s'.plog = s.plog) : Core s' :=
  ⟨q.coherent h.coh, by rw [q.frame.provOn]; exact h.on, J_of_alloc_eq h.j q.alloc hp, by rw [hp]; exact h.log⟩

theorem Core.of_eq {s s' : State} (h : Core s) (hpools : s'.pools = s.pools) (ha : s'.alloc = s.alloc)
    (hs : s'.store = s.store) (hf : s'.free = s.free) (hon : s'.provOn = s.provOn) (hp : s'.plog = s.plog) : Core s' :=
  ⟨coherent_of_eq h.coh hpools ha hs hf, by rw [hon]; exact h.on, J_of_alloc_eq h.j ha hp, by rw [hp]; exact h.log⟩

/-- no pod key owns two addresses -/
def Single (s : State) : Prop :=
  ∀ ip1 ip2 r1 r2, Tbl.get s.alloc ip1 = some r1 → Tbl.get s.alloc ip2 = some r2 → r1.key = r2.key → r1.key.pod ≠ "" → ip1 = ip2

/-! ### unbind -/

/-- the records of key `k` are unassigned in the provider -/
def KeyUnassigned (s : State) (k : Key) : Prop :=
  ∀ ip r, Tbl.get s.alloc ip = some r → r.key = k → Tbl.get (prov s) ip = none

theorem core_of_cleared {s s' : State} {k : Key} (h : Core s) (c : Chg (hasKey k) (Cleared k) s s') (hc : Coherent s')
    (hp : s'.plog = s.plog) (hun : KeyUnassigned s k) : Core s' :=
  ⟨hc, by rw [c.frame.provOn]; exact h.on,
   J_of_chg h.j c hp (fun ip ho => by obtain ⟨r, hr, hk⟩ := ho; exact hun ip r hr hk) (cleared_ok k), by rw [hp]; exact h.log⟩

theorem core_unbindDp (s : State) (k : Key) (policy : Nat) (h : Core s) (hun : KeyUnassigned s k) :
    Core (unbindDp s k policy).1 :=
  core_of_cleared h (unbindDp_chgC s k policy) (unbindDp_coherent s k policy h.coh) (unbindDp_plog s k policy) hun

theorem core_unbindOther (s : State) (k : Key) (policy : Nat) (h : Core s) (hun : KeyUnassigned s k) :
    Core (unbindOther s k policy).1 :=
  core_of_cleared h (unbindOther_chgC s k policy) (unbindOther_coherent s k policy h.coh) (unbindOther_plog s k policy) hun

theorem core_reserveSelf (s : State) (k : Key) (h : Core s) (hun : KeyUnassigned s k) : Core (reserve s k k {}).1 :=
  core_of_cleared h (reserveSelf_chgC s k) (reserve_coherent s k k {} h.coh) (reserve_plog s k k {}) hun

theorem core_release (s : State) (k : Key) (ip : IP) (h : Core s) (hun : KeyUnassigned s k) : Core (release s k ip).1 :=
  core_of_cleared h (release_chgC s k ip) (release_coherent s k ip h.coh) (release_plog s k ip) hun

theorem core_provUnassign (s : State) (node : String) (ip : IP) (h : Core s) : Core (provUnassign s node ip).1 :=
  ⟨(provUnassign_quiet s node ip).coherent h.coh, by rw [(provUnassign_quiet s node ip).frame.provOn]; exact h.on,
   J_provUnassign s node ip h.on h.j, logOK_provUnassign s node ip h.on h.log⟩

/-- `unassignAll`: the invariant core is kept; on success every address of the list is unassigned -/
theorem core_unassignAll : ∀ (l : List IP) (s : State), Core s →
    Core (unassignAll s l).1 ∧
    (∀ j, Tbl.get (prov s) j = none → Tbl.get (prov (unassignAll s l).1) j = none) ∧
    ((unassignAll s l).2 = true → ∀ j, j ∈ l → Tbl.get (prov (unassignAll s l).1) j = none) := by
  intro l
  induction l with
  | nil => intro s h; exact ⟨h, fun _ hj => hj, fun _ j hj => by cases hj⟩
  | cons ip t ih =>
    intro s h
    unfold unassignAll
    dsimp only
    have hc := core_provUnassign s (((Tbl.get s.alloc ip).map (·.node)).getD "") ip h
    have hother := fun j hj => prov_provUnassign_other s (((Tbl.get s.alloc ip).map (·.node)).getD "") ip j h.on hj
    by_cases hok : (provUnassign s (((Tbl.get s.alloc ip).map (·.node)).getD "") ip).2 = true
    · rw [if_neg (by simp [hok])]
      have r := ih _ hc
      refine ⟨r.1, fun j hj => r.2.1 j (hother j hj), fun hall j hj => ?_⟩
      rcases List.mem_cons.mp hj with e | e
      · subst e
        exact r.2.1 _ (prov_provUnassign_ok s _ _ h.on hok)
      · exact r.2.2 hall j e
    · rw [if_pos (by simp [hok])]
      exact ⟨hc, hother, fun hf => by simp at hf⟩

theorem keyUnassigned_of_alloc_eq {s s' : State} {k : Key} (ha : s'.alloc = s.alloc)
    (h : ∀ ip r, Tbl.get s.alloc ip = some r → r.key = k → Tbl.get (prov s') ip = none) : KeyUnassigned s' k := by
  intro ip r hr hk
  rw [ha] at hr
  exact h ip r hr hk

theorem core_unbind (F : Plugin.Facts) (s : State) (pod : Pod) (h : Core s) : Core (unbind F s pod).1 := by
  unfold unbind
  try dsimp only
  split
  · exact h
  · have u := core_unassignAll (ipsOfKey s (keyOf pod)) s h
    have ua := (unassignAll_quiet (ipsOfKey s (keyOf pod)) s).alloc
    split
    · exact u.1
    · rename_i hok
      have hok' : (unassignAll s (ipsOfKey s (keyOf pod))).2 = true := by simpa using hok
      have hun : KeyUnassigned (unassignAll s (ipsOfKey s (keyOf pod))).1 (keyOf pod) :=
        keyUnassigned_of_alloc_eq ua (fun ip r hr hk => u.2.2 hok' ip (mem_ipsOfKey_of_get hr hk))
      split
      · exact core_unbindDp _ _ _ u.1 hun
      · exact core_unbindOther _ _ _ u.1 hun

theorem core_deliver (F : Plugin.Facts) (s : State) (i : Nat) (h : Core s) : Core (deliver F s i).1 := by
  unfold deliver
  split
  · exact h
  · rename_i e _
    dsimp only
    have h1 : Core { s with events := s.events.eraseIdx i } := h.of_eq rfl rfl rfl rfl rfl rfl
    have h2 := core_unbind F _ e.pod h1
    split
    · exact h2
    · split
      · exact h2
      · exact h2.of_eq rfl rfl rfl rfl rfl rfl

/-! ### resync, API release (single-address keys) -/

theorem single_of_cleared {s s' : State} {k : Key} (hs : Single s) (c : Chg (hasKey k) (Cleared k) s s') : Single s' := by
  intro ip1 ip2 r1 r2 h1 h2 hk hp
  -- where does a record of s' with a pod key come from? it is unchanged, or it is a cleared record of key k
  have back : ∀ ip r, Tbl.get s'.alloc ip = some r → r.key.pod ≠ "" → ∃ r0, Tbl.get s.alloc ip = some r0 ∧ r0.key = r.key := by
    intro ip r hr hpod
    rcases c.recs ip with e | ⟨⟨r0, hr0, hk0⟩, hn⟩
    · exact ⟨r, by rw [← e]; exact hr, rfl⟩
    · rcases hn with hn | ⟨r', hr', hk', _⟩ | ⟨r', hr', hk', _⟩
      · rw [hn] at hr; cases hr
      · rw [hr'] at hr; cases hr
        exact ⟨r0, hr0, by rw [hk0, hk']⟩
      · rw [hr'] at hr; cases hr
        exact absurd (by rw [hk']; exact poolPrefix_pod k) hpod
  obtain ⟨a1, g1, k1⟩ := back ip1 r1 h1 hp
  obtain ⟨a2, g2, k2⟩ := back ip2 r2 h2 (by rw [← hk]; exact hp)
  exact hs ip1 ip2 a1 a2 g1 g2 (by rw [k1, k2, hk]) (by rw [k1]; exact hp)

theorem single_of_alloc_eq {s s' : State} (hs : Single s) (ha : s'.alloc = s.alloc) : Single s' := by
  intro ip1 ip2 r1 r2 h1 h2
  rw [ha] at h1 h2
  exact hs ip1 ip2 r1 r2 h1 h2

/-- with a single address under a pod key, "this address is unassigned" is "the key is unassigned" -/
theorem keyUnassigned_of_single (s : State) (hs : Single s) (ip : IP) (r : Rec) (hr : Tbl.get s.alloc ip = some r)
    (hp : r.key.pod ≠ "") (hu : Tbl.get (prov s) ip = none) : KeyUnassigned s r.key := by
  intro j rj hj hk
  have := hs j ip rj r hj hr hk (by rw [hk]; exact hp)
  rw [this]; exact hu

theorem core_unbindAny (s : State) (k : Key) (policy : Nat) (h : Core s) (hs : Single s) (hun : KeyUnassigned s k) :
    Core (if k.isDp then (unbindDp s k policy).1 else (unbindOther s k policy).1) ∧
    Single (if k.isDp then (unbindDp s k policy).1 else (unbindOther s k policy).1) := by
  split
  · exact ⟨core_unbindDp s k policy h hun, single_of_cleared hs (unbindDp_chgC s k policy)⟩
  · exact ⟨core_unbindOther s k policy h hun, single_of_cleared hs (unbindOther_chgC s k policy)⟩

/-- every record of a key is unassigned: the key belongs to no pod (its records name no node), or it owns one address
    and that one is unassigned -/
theorem keyUnassigned_of (s : State) (k : Key) (h : Core s) (hs : Single s) (ip : IP)
    (hip : ∀ r, Tbl.get s.alloc ip = some r → r.key = k → Tbl.get (prov s) ip = none)
    (hhas : k.pod ≠ "" → ∃ r, Tbl.get s.alloc ip = some r ∧ r.key = k) : KeyUnassigned s k := by
  intro j rj hj hk
  by_cases hp : k.pod = ""
  · exact (h.j j).unassigned_of_node rj hj ((h.j j).2 rj hj (Or.inl (by rw [hk]; exact hp)))
  · obtain ⟨r, hr, hkr⟩ := hhas hp
    have := hs j ip rj r hj hr (by rw [hk, hkr]) (by rw [hk]; exact hp)
    rw [this]; exact hip r hr hkr

theorem resyncAct_core (s : State) (ip : IP) (k : Key) (r : Rec) (hget : Tbl.get s.alloc ip = some r) (hkey : r.key = k)
    (c1 : Core s) (s1 : Single s) : Core (resyncAct s ip k r) ∧ Single (resyncAct s ip k r) := by
  have unb : ∀ (t : State), Core t → Single t → KeyUnassigned t k →
      Core (if k.isDp then (unbindDp t k r.policy).1 else (unbindOther t k r.policy).1) ∧
      Single (if k.isDp then (unbindDp t k r.policy).1 else (unbindOther t k r.policy).1) :=
    fun t ct st hun => core_unbindAny t k r.policy ct st hun
  unfold resyncAct
  split
  · rename_i hprov
    have hpod : k.pod ≠ "" := by
      intro hp
      have hn := (c1.j ip).2 r hget (Or.inl (by rw [hkey]; exact hp))
      simp [hn] at hprov
    have c2 := core_provUnassign s r.node ip c1
    have s2 := single_of_alloc_eq s1 (provUnassign_alloc s r.node ip)
    split
    · exact ⟨c2, s2⟩
    · rename_i hok
      have hok' : (provUnassign s r.node ip).2 = true := by simpa using hok
      have hget2 : Tbl.get (provUnassign s r.node ip).1.alloc ip = some r := by rw [provUnassign_alloc]; exact hget
      have hun2 := keyUnassigned_of_single _ s2 ip r hget2 (by rw [hkey]; exact hpod) (prov_provUnassign_ok _ _ _ c1.on hok')
      rw [hkey] at hun2
      have c3 := core_reserveSelf _ k c2 hun2
      have s3 := single_of_cleared s2 (reserveSelf_chgC _ k)
      have hun3 : KeyUnassigned (reserve (provUnassign s r.node ip).1 k k {}).1 k := by
        intro j rj hj hk
        have hp3 : prov (reserve (provUnassign s r.node ip).1 k k {}).1 = prov (provUnassign s r.node ip).1 := by
          unfold prov; rw [reserve_plog]
        rw [hp3]
        rcases (reserveSelf_chgC (provUnassign s r.node ip).1 k).recs j with e | ⟨⟨ro, hro, hko⟩, _⟩
        · rw [e] at hj; exact hun2 j rj hj hk
        · exact hun2 j ro hro hko
      have := unb _ c3 s3 hun3
      split
      · rename_i hdp; simp only [hdp, ↓reduceIte] at this; exact this
      · rename_i hdp; simp only [hdp] at this; exact this
  · rename_i hprov
    have hnode : r.node = "" := by
      simp only [Bool.and_eq_true, decide_eq_true_eq, not_and, c1.on, true_implies] at hprov
      simpa using hprov
    have hu1 : Tbl.get (prov s) ip = none := (c1.j ip).unassigned_of_node r hget hnode
    have hun1 : KeyUnassigned s k := keyUnassigned_of s k c1 s1 ip (fun _ _ _ => hu1) (fun _ => ⟨r, hget, hkey⟩)
    have := unb _ c1 s1 hun1
    split
    · rename_i hdp; simp only [hdp, ↓reduceIte] at this; exact this
    · rename_i hdp; simp only [hdp] at this; exact this

theorem resyncOne_core (s : State) (ip : IP) (r0 : Rec) (h : Core s)
    (hs : Single s) : Core (resyncOne Facts.good s ip r0) ∧ Single (resyncOne Facts.good s ip r0) := by
  generalize hF : Facts.good = F
  have hre : F.resyncRechecks = true := by rw [← hF]; rfl
  unfold resyncOne
  split
  · exact ⟨h, hs⟩
  · rename_i r hcur
    split
    · exact ⟨h, hs⟩
    · rename_i hkey
      have hkey' : r.key = r0.key := by simpa using hkey
      have pq := podRunning_quiet F s r0.key.pod r0.key.ns r.uid
      have c1 := h.of_quiet pq.1 pq.2
      have s1 := single_of_alloc_eq hs pq.1.alloc
      split
      · exact ⟨c1, s1⟩
      · have kq := keyOwned_quiet F (podRunning F s r0.key.pod r0.key.ns r.uid).1 r0.key r.uid
        have c2 := c1.of_quiet kq.1 kq.2
        have s2 := single_of_alloc_eq s1 kq.1.alloc
        split
        · exact ⟨c2, s2⟩
        · have hget : Tbl.get s.alloc ip = some r := by
            rw [hre] at hcur; simpa using hcur
          have hget2 : Tbl.get (keyOwnedByRunningPod F (podRunning F s r0.key.pod r0.key.ns r.uid).1 r0.key r.uid).1.alloc ip
              = some r := by rw [kq.1.alloc, pq.1.alloc]; exact hget
          exact resyncAct_core _ ip r0.key r hget2 hkey' c2 s2

theorem resyncLoop_core (snap : Tbl IP Rec) :
    ∀ (l : List IP) (s : State), Core s → Single s →
      Core (resyncLoop Facts.good snap s l) ∧ Single (resyncLoop Facts.good snap s l) := by
  intro l
  induction l with
  | nil => intro s h hs; exact ⟨h, hs⟩
  | cons ip t ih =>
    intro s h hs
    unfold resyncLoop
    split
    · exact ih s h hs
    · rename_i r0 hr0
      have r := resyncOne_core s ip r0 h hs
      exact ih _ r.1 r.2

theorem get_filter_val {κ α : Type} [DecidableEq κ] (t : Tbl κ α) (p : κ × α → Bool) (k : κ) (v : α)
    (h : Tbl.get (List.filter p t) k = some v) : p (k, v) = true :=
  (List.mem_filter.mp (Tbl.get_mem h)).2

theorem resync_core (s : State) (order : List IP) (h : Core s) (hs : Single s) : Core (resync Facts.good s order).1 := by
  unfold resync
  dsimp only
  split
  · exact h
  · exact (resyncLoop_core _ order s h hs).1

theorem releaseAct_core (s : State) (ip : IP) (k : Key) (uid : Nat) (node : String) (c0 : Core s) (s0 : Single s)
    (hrec0 : ∀ r, Tbl.get s.alloc ip = some r → r.key = k ∧ r.node = node)
    (hhas0 : k.pod ≠ "" → ∃ r, Tbl.get s.alloc ip = some r ∧ r.key = k) :
    Core (releaseAct Facts.good s ip k uid node).1 := by
  unfold releaseAct
  have kq := keyOwned_quiet Facts.good s k uid
  have c1 := c0.of_quiet kq.1 kq.2
  have s1 := single_of_alloc_eq s0 kq.1.alloc
  split
  · exact c1
  · generalize (keyOwnedByRunningPod Facts.good s k uid).1 = t at kq c1 s1 ⊢
    have hrec : ∀ r, Tbl.get t.alloc ip = some r → r.key = k ∧ r.node = node := by
      intro r hr; rw [kq.1.alloc] at hr; exact hrec0 r hr
    have hhas : k.pod ≠ "" → ∃ r, Tbl.get t.alloc ip = some r ∧ r.key = k := by
      intro hp; rw [kq.1.alloc]; exact hhas0 hp
    have rp : (Core (releasePre t node ip k).1 ∧ Single (releasePre t node ip k).1 ∧ KeyUnassigned (releasePre t node ip k).1 k) ∨
        ((releasePre t node ip k).2 ≠ .ok ∧ Core (releasePre t node ip k).1) := by
      unfold releasePre
      split
      · rename_i hprov
        have c2 := core_provUnassign t node ip c1
        have s2 := single_of_alloc_eq s1 (provUnassign_alloc t node ip)
        split
        · right
          exact ⟨by simp, c2⟩
        · rename_i hok
          have hok' : (provUnassign t node ip).2 = true := by simpa using hok
          have hun2 : KeyUnassigned (provUnassign t node ip).1 k := by
            apply keyUnassigned_of _ k c2 s2 ip
            · intro r _ _; exact prov_provUnassign_ok t node ip c1.on hok'
            · intro hp; rw [provUnassign_alloc]; exact hhas hp
          have c3 := core_reserveSelf _ k c2 hun2
          have s3 := single_of_cleared s2 (reserveSelf_chgC _ k)
          have hun3 : KeyUnassigned (reserve (provUnassign t node ip).1 k k {}).1 k := by
            intro j rj hj hk
            have hp3 : prov (reserve (provUnassign t node ip).1 k k {}).1 = prov (provUnassign t node ip).1 := by
              unfold prov; rw [reserve_plog]
            rw [hp3]
            rcases (reserveSelf_chgC (provUnassign t node ip).1 k).recs j with e | ⟨⟨ro, hro, hko⟩, _⟩
            · rw [e] at hj; exact hun2 j rj hj hk
            · exact hun2 j ro hro hko
          by_cases hres : (reserve (provUnassign t node ip).1 k k {}).2 = true
          · left; exact ⟨c3, s3, hun3⟩
          · right
            refine ⟨?_, c3⟩
            simp [okOr, hres]
      · rename_i hprov
        left
        refine ⟨c1, s1, ?_⟩
        apply keyUnassigned_of _ k c1 s1 ip
        · intro r hr hk
          have hn := (hrec r hr).2
          have : node = "" := by
            simp only [Bool.and_eq_true, decide_eq_true_eq, not_and, c1.on, true_implies] at hprov
            simpa using hprov
          exact (c1.j ip).unassigned_of_node r hr (by rw [hn, this])
        · exact hhas
    generalize releasePre t node ip k = x at rp ⊢
    rcases rp with ⟨c, sg, hun⟩ | ⟨hne, c⟩
    · split
      · exact core_release _ k ip c hun
      · exact c
    · split
      · rename_i hok; exact absurd hok hne
      · exact c

theorem apiRelease_core (s : State) (ip : IP) (k : Key) (h : Core s) (hs : Single s) :
    Core (apiRelease Facts.good s ip k).1 := by
  unfold apiRelease
  split
  · exact h
  · rename_i hguard
    have hkey : ((Tbl.get s.alloc ip).map (·.key)).getD Key.empty = k := by
      simp only [Facts.good, Bool.true_and, bne_iff_ne, ne_eq, Decidable.not_not, decide_eq_true_eq] at hguard
      simpa using hguard
    have pq := podRunning_quiet Facts.good s k.pod k.ns (((Tbl.get s.alloc ip).map (·.uid)).getD 0)
    have c1 := h.of_quiet pq.1 pq.2
    have s1 := single_of_alloc_eq hs pq.1.alloc
    split
    · exact c1
    · apply releaseAct_core _ ip k _ _ c1 s1
      · intro r hr
        rw [pq.1.alloc] at hr
        rw [hr] at hkey
        simp only [Option.map_some, Option.getD_some] at hkey
        rw [hr]
        exact ⟨hkey, rfl⟩
      · intro hp
        rw [pq.1.alloc]
        cases hg : Tbl.get s.alloc ip with
        | none =>
          rw [hg] at hkey
          simp only [Option.map_none, Option.getD_none] at hkey
          rw [← hkey] at hp
          exact absurd rfl hp
        | some r =>
          rw [hg] at hkey
          exact ⟨r, rfl, by simpa using hkey⟩

/-! ### Filter -/

theorem core_allocateDuringFilter (s : State) (k : Key) (resv : Bool) (n : Subnet) (a : Attr) (pick : Option IP)
    (han : a.node = "") (h : Core s) : Core (allocateDuringFilter s k resv n a pick).1 := by
  have hc := allocateDuringFilter_coherent s k resv n a pick h.coh
  unfold allocateDuringFilter at hc ⊢
  cases resv with
  | true =>
    simp only [↓reduceIte] at hc ⊢
    have c := allocateInSubnetWithKey_chgN s k.poolPrefix k n a pick
    exact ⟨hc, by rw [c.frame.provOn]; exact h.on,
      J_of_chg h.j c (allocateInSubnetWithKey_plog s _ _ n a pick)
        (fun ip ho => by
          obtain ⟨r, hr, hk⟩ := ho
          exact (h.j ip).unassigned_of_node r hr ((h.j ip).2 r hr (Or.inl (by rw [hk]; exact poolPrefix_pod k))))
        (fun o hn r hr _ => by obtain ⟨r', h1, _, h3, _⟩ := hn; rw [h1] at hr; cases hr; rw [h3, han]),
      by rw [allocateInSubnetWithKey_plog]; exact h.log⟩
  | false =>
    simp only [Bool.false_eq_true, ↓reduceIte] at hc ⊢
    have c := allocateInSubnet_chgN s k n a pick h.coh
    exact ⟨hc, by rw [c.frame.provOn]; exact h.on,
      J_of_chg h.j c (allocateInSubnet_plog s k n a pick)
        (fun ip ho => (h.j ip).unassigned_of_free ho)
        (fun o hn r hr _ => by obtain ⟨r', h1, _, h3, _⟩ := hn; rw [h1] at hr; cases hr; rw [h3, han]),
      by rw [allocateInSubnet_plog]; exact h.log⟩

theorem filter_core (s : State) (ns name : String) (nodes : List String) (ch : Choice) (h : Core s) :
    Core (Plugin.filter s ns name nodes ch).1 := by
  unfold Plugin.filter
  split
  · exact h
  · rename_i pod hpod
    split
    · exact h
    · dsimp only
      have key : Core (getSubnet s pod ch).1 := by
        rcases getSubnet_state s pod ch with e | ⟨resv, n, e⟩
        · rw [e]; exact h
        · rw [e]; exact core_allocateDuringFilter s _ resv n _ ch.pick rfl h
      split
      · exact h
      · exact key
      · rename_i set _
        have q := filterNodes_quiet set nodes [] (getSubnet s pod ch).1
        exact key.of_quiet q.1 q.2

theorem preempt_core (s : State) (ns name : String) (nodes : List String) (ch : Choice) (h : Core s) :
    Core (Plugin.preempt s ns name nodes ch).1 := by
  unfold Plugin.preempt
  split
  · exact h
  · rename_i pod hpod
    split
    · exact h
    · have key : Core (getSubnet s pod ch).1 := by
        rcases getSubnet_state s pod ch with e | ⟨resv, n, e⟩
        · rw [e]; exact h
        · rw [e]; exact core_allocateDuringFilter s _ resv n _ ch.pick rfl h
      split
      · exact h
      · exact key
      · rename_i set _
        have q := filterNodes_quiet set nodes [] (getSubnet s pod ch).1
        exact key.of_quiet q.1 q.2

/-! ### the pod-IP sync pass -/

theorem allocateSpecific_fields (s : State) (key : Key) (ip : IP) (a : Attr) :
    (allocateSpecific s key ip a).1.plog = s.plog ∧ (allocateSpecific s key ip a).1.pods = s.pods ∧
    (allocateSpecific s key ip a).1.provOn = s.provOn := by
  unfold allocateSpecific
  dsimp only
  split
  · exact ⟨rfl, rfl, rfl⟩
  · have st := stCreate_step s ip (mkRec key a s.clock)
    have sp := stCreate_plog s ip (mkRec key a s.clock)
    split
    · exact ⟨sp, st.frame.pods, st.frame.provOn⟩
    · exact ⟨sp, st.frame.pods, st.frame.provOn⟩

/-- `AllocateSpecificIP` for a pod incarnation: the invariant core is kept, existing records stay -/
theorem core_allocateSpecific (s : State) (key : Key) (ip : IP) (a : Attr) (hkp : key.pod ≠ "") (hu : a.uid ≠ 0)
    (h : Core s) :
    Core (allocateSpecific s key ip a).1 ∧
    (∀ j r, Tbl.get s.alloc j = some r → Tbl.get (allocateSpecific s key ip a).1.alloc j = some r) := by
  have c := allocateSpecific_chg s key ip a h.coh
  have f := allocateSpecific_fields s key ip a
  refine ⟨⟨allocateSpecific_coherent s key ip a h.coh, by rw [f.2.2]; exact h.on,
    J_of_chg h.j c f.1 (fun j ho => (h.j j).unassigned_of_free ho) (fun o hn r hr hz => ?_), by rw [f.1]; exact h.log⟩,
    fun j r hr => ?_⟩
  · obtain ⟨r', h1, h2, h3⟩ := hn
    rw [h1] at hr; cases hr
    rcases hz with hz | hz
    · exact absurd (by rw [← h2]; exact hz) hkp
    · exact absurd (h3.symm.trans hz) hu
  · rcases c.recs j with e | ⟨hfree, _⟩
    · rw [e]; exact hr
    · rw [hr] at hfree; cases hfree

theorem syncIPs_core (pod : Pod) (hkp : (keyOf pod).pod ≠ "") (hu : pod.uid ≠ 0) : ∀ (ips : List IP) (s : State), Core s →
    Core (syncIPs s pod ips) ∧ (syncIPs s pod ips).pods = s.pods ∧
    (∀ j r, Tbl.get s.alloc j = some r → Tbl.get (syncIPs s pod ips).alloc j = some r) := by
  intro ips
  induction ips with
  | nil => intro s h; exact ⟨h, rfl, fun _ _ hr => hr⟩
  | cons ip t ih =>
    intro s h
    unfold syncIPs
    split
    · exact ih s h
    · have c := core_allocateSpecific s (keyOf pod) ip { policy := policyOf pod, node := pod.node, uid := pod.uid } hkp hu h
      have f := allocateSpecific_fields s (keyOf pod) ip { policy := policyOf pod, node := pod.node, uid := pod.uid }
      have r := ih (allocateSpecific s (keyOf pod) ip { policy := policyOf pod, node := pod.node, uid := pod.uid }).1 c.1
      exact ⟨r.1, r.2.1.trans f.2.1, fun j rj hj => r.2.2 j rj (c.2 j rj hj)⟩

theorem syncPods_core : ∀ (l : List Pod) (s : State), (∀ p, p ∈ l → (keyOf p).pod ≠ "" ∧ p.uid ≠ 0) → Core s →
    Core (syncPods s l) ∧ (syncPods s l).pods = s.pods ∧
    (∀ j r, Tbl.get s.alloc j = some r → Tbl.get (syncPods s l).alloc j = some r) := by
  intro l
  induction l with
  | nil => intro s _ h; exact ⟨h, rfl, fun _ _ hr => hr⟩
  | cons p t ih =>
    intro s hl h
    unfold syncPods
    split
    · have hp := hl p (by simp)
      have c := syncIPs_core p hp.1 hp.2 p.ips s h
      have r := ih (syncIPs s p p.ips) (fun q hq => hl q (List.mem_cons_of_mem _ hq)) c.1
      exact ⟨r.1, r.2.1.trans c.2.1, fun j rj hj => r.2.2 j rj (c.2.2 j rj hj)⟩
    · exact ih s (fun q hq => hl q (List.mem_cons_of_mem _ hq)) h

/-! ### restart -/

theorem dropAll_prov : ∀ (l : List IP) (s : State), (dropAll s l).provOn = s.provOn := by
  intro l
  induction l with
  | nil => intro s; rfl
  | cons ip t ih =>
    intro s
    unfold dropAll
    split
    · exact ih _
    · exact ih _

/-- a restart over coherent tables without orphaned store objects rebuilds exactly the records there were -/
theorem restart_same (s : State) (hc : Coherent s) (ho : s.orphans = []) :
    (∀ j, Tbl.get (restart s).1.alloc j = Tbl.get s.alloc j) ∧ Coherent (restart s).1 ∧
    (restart s).1.plog = s.plog ∧ (restart s).1.provOn = s.provOn ∧ (restart s).1.pods = s.pods := by
  unfold restart
  dsimp only
  by_cases hok : (configurePool (restartBase s) s.pools).2 = true
  · have rc := configurePool_ok' (restartBase s) s.pools hok
    have hal : ∀ j, Tbl.get (configurePool (restartBase s) s.pools).1.alloc j = Tbl.get s.alloc j := by
      intro j
      rw [rc.alloc j]
      have hl : Tbl.get (listed (restartBase s)) j = Tbl.get s.alloc j := by
        rw [listed_eq]
        unfold restartBase
        dsimp only
        rw [ho, List.append_nil]
        exact hc.agree j
      rw [hl]
      cases hg : Tbl.get s.alloc j with
      | none => simp
      | some r => rw [if_pos (hc.allocConf j r hg)]
    refine ⟨hal, rc.coherent, ?_, ?_, rc.pods⟩
    · unfold configurePool
      dsimp only
      split
      · rfl
      · exact (dropAll_fields _ _).2.2.2.2.2.2.2
    · unfold configurePool
      dsimp only
      split
      · rfl
      · show (dropAll _ _).provOn = s.provOn
        rw [dropAll_prov]; rfl
  · have hf : (configurePool (restartBase s) s.pools).2 = false := by simpa using hok
    rw [configurePool_fail _ _ hf]
    exact ⟨fun _ => rfl, coherent_of_eq hc rfl rfl rfl rfl, rfl, rfl, rfl⟩

end Galaxy.PluginC10
