/-
  C06 lemmas, part 1: at the fact values the current source has, the fact-parameterised leaf variants of
  `Galaxy/Model/PluginC06.lean` ARE the functions of the plugin model (the ones `gxdrv_plugin` executes).
-/
import Galaxy.Model.PluginC06

namespace Galaxy.Plugin.C06
open Galaxy Galaxy.Plugin

theorem nsbrGo_eq (s : State) : ∀ (rss : List Ranges) (first : Bool) (acc : List Subnet),
    nsbrGo true s rss first acc = nodeSubnetsByRanges.go s (poolSubnets s) rss first acc := by
  intro rss
  induction rss with
  | nil => intro first acc; simp [nsbrGo, nodeSubnetsByRanges.go]
  | cons rs t ih =>
    intro first acc
    unfold nsbrGo nodeSubnetsByRanges.go
    simp only [if_true]
    split
    · rfl
    · split
      · exact ih _ _
      · exact ih _ _

/-- `NodeSubnetsByIPRanges` seeded on the first range list only = the model's function -/
theorem nodeSubnetsByRangesP_true (s : State) (rss : List Ranges) :
    nodeSubnetsByRangesP true s rss = nodeSubnetsByRanges s rss := by
  unfold nodeSubnetsByRangesP nodeSubnetsByRanges
  split
  · rfl
  · exact nsbrGo_eq s rss true []

theorem ownedLoop_flag_true (s : State) : ∀ (infos : List (Option IP)) (i : Nat) (acc : List Subnet),
    ownedLoop "flag" s infos i true acc =
      (true, (infos.filterMap id).foldl (fun a j => sinter a (subnetsOf s.pools j)) acc) := by
  intro infos
  induction infos with
  | nil => intro i acc; simp [ownedLoop]
  | cons o t ih =>
    intro i acc
    cases o with
    | none => simp [ownedLoop, ih]
    | some ip => simp [ownedLoop, ih]

theorem ownedLoop_flag_false (s : State) : ∀ (infos : List (Option IP)) (i : Nat),
    ownedLoop "flag" s infos i false [] =
      (!(infos.filterMap id).isEmpty, allocatedSubnets s (infos.filterMap id)) := by
  intro infos
  induction infos with
  | nil => intro i; simp [ownedLoop, allocatedSubnets]
  | cons o t ih =>
    intro i
    cases o with
    | none => simp [ownedLoop, ih]
    | some ip => simp [ownedLoop, ownedLoop_flag_true, allocatedSubnets]

/-- `getSubnet`'s owned-address loop with the flag seed and the flag guard = the model's `allocatedSubnets` and
    "some address is owned" -/
theorem ownedSubnetsP_flag (s : State) (infos : List (Option IP)) :
    ownedSubnetsP "flag" true s infos = (!(infos.filterMap id).isEmpty, allocatedSubnets s (infos.filterMap id)) := by
  simp [ownedSubnetsP, ownedLoop_flag_false]

theorem pickOne_true (s : State) (n : Subnet) (acc : List IP) : ∀ l : List IP,
    pickOne true s n acc l = l.find? (fun ip => s.free.contains ip && hasSubnet s ip n && !acc.contains ip) := by
  intro l
  induction l with
  | nil => rfl
  | cons x t ih =>
    unfold pickOne
    rw [List.find?_cons]
    cases h : (s.free.contains x && hasSubnet s x n && !acc.contains x) with
    | true => simp
    | false => simp [ih]

/-- the picks of `AllocateInSubnetsAndIPRange` when a non-matching address continues the walk = the model's -/
theorem pickRangesP_true (s : State) (n : Subnet) : ∀ (rss : List Ranges) (acc : List IP),
    pickRangesP true s n rss acc = pickRanges s n rss acc := by
  intro rss
  induction rss with
  | nil => intro acc; rfl
  | cons rs t ih =>
    intro acc
    unfold pickRangesP pickRanges
    rw [pickOne_true]
    split <;> rename_i h <;> simp only [h]
    exact ih _

/-- the ipinfo taken from the address' own pool = the model's `toHInfo` -/
theorem toHInfoP_true (s : State) (ip : IP) : toHInfoP true s ip = toHInfo s ip := by
  unfold toHInfoP toHInfo
  cases poolOf s.pools ip <;> simp

end Galaxy.Plugin.C06
