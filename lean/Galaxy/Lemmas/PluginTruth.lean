/-
  M4-core proofs, part 9: the invariant is preserved by the moves that run no plugin code.
-/
import Galaxy.Lemmas.PluginInv

namespace Galaxy.Plugin
open Galaxy

/-- a state that differs only in fields the invariant does not mention -/
theorem Inv.of_fields {s s' : State} (h : Inv s) (h1 : s'.pools = s.pools) (h2 : s'.alloc = s.alloc) (h3 : s'.free = s.free)
    (h4 : s'.store = s.store) (h5 : s'.pods = s.pods) (h6 : s'.vPods = s.vPods) (h7 : s'.events = s.events)
    (h8 : s'.nextUid = s.nextUid) (h9 : s'.admin = s.admin := by rfl) : Inv s' := by
  refine ⟨coherent_of_eq h.coh h1 h2 h4 h3, ?_, ?_, ?_, ?_, ?_, ?_, ?_, by rw [h5]; exact h.podsNodup,
    by rw [h6]; exact h.vPodsNodup⟩
  · rw [h5]; exact h.safe.of_alloc_eq h2 h9
  · rw [h5, h8]; exact h.podsWF
  · rw [h5]; exact h.uidUniq
  · rw [h5, h6, h8]; exact h.lister
  · rw [h5, h7, h8]; exact h.events
  · rw [h5, h6]; exact h.listerLive
  · rw [h8]; exact h.uidPos

theorem inv_withFaults (s : State) (f pf : Nat) (h : Inv s) : Inv (withFaults s f pf) :=
  h.of_fields rfl rfl rfl rfl rfl rfl rfl rfl

theorem inv_createPod (s : State) (ns name : String) (kind : Kind) (app pool : String) (policy : Nat)
    (ranges : List (List (Nat × Nat))) (wants : Bool) (h : Inv s)
    (ha : assumed s (.createPod ns name kind app pool policy ranges wants) = true) :
    Inv (step Facts.good s (.createPod ns name kind app pool policy ranges wants)).1 := by
  simp only [step]
  split
  · exact h
  · rename_i hnone
    have hnone' : Tbl.get s.pods (ns, name) = none := by
      cases hg : Tbl.get s.pods (ns, name) with
      | none => rfl
      | some v => simp [hg] at hnone
    have hwf : WFNames (newPod s.nextUid ns name kind app pool policy ranges wants) := by
      simp only [assumed, Bool.and_eq_true, Bool.or_eq_true, decide_eq_true_eq, beq_iff_eq] at ha
      exact ⟨ha.1.1, ha.1.2, ha.2⟩
    dsimp only
    have hsub : ∀ q, LiveBound (Tbl.set s.pods (ns, name) (newPod s.nextUid ns name kind app pool policy ranges wants)) q →
        LiveBound s.pods q := by
      intro q hq
      by_cases he : q.id = (ns, name)
      · have := liveBound_set_self hq he
        exact absurd (by rw [this]; rfl) hq.2.2
      · exact liveBound_of_set_ne hq he
    refine ⟨coherent_of_eq h.coh rfl rfl rfl rfl, (h.safe.anti hsub).of_alloc_eq rfl, ?_, ?_, ?_, ?_, ?_, ?_,
      Tbl.nodup_keys_set _ _ h.podsNodup, h.vPodsNodup⟩
    · intro id q hg
      show _ ∧ _ ∧ q.uid < s.nextUid + 1 ∧ _
      by_cases he : (ns, name) = id
      · subst he
        simp at hg; subst hg
        exact ⟨rfl, Nat.pos_iff_ne_zero.mp h.uidPos, Nat.lt_succ_self _, hwf⟩
      · rw [Tbl.get_set_ne _ _ he] at hg
        obtain ⟨a, b, c, d⟩ := h.podsWF id q hg
        exact ⟨a, b, Nat.lt_succ_of_lt c, d⟩
    · intro id1 id2 q1 q2 h1 h2 hu
      show id1 = id2
      by_cases e1 : (ns, name) = id1 <;> by_cases e2 : (ns, name) = id2
      · rw [← e1, ← e2]
      · subst e1
        simp at h1; subst h1
        rw [Tbl.get_set_ne _ _ e2] at h2
        have := (h.podsWF id2 q2 h2).2.2.1
        simp only [newPod_uid] at hu; exfalso; omega
      · subst e2
        simp at h2; subst h2
        rw [Tbl.get_set_ne _ _ e1] at h1
        have := (h.podsWF id1 q1 h1).2.2.1
        simp only [newPod_uid] at hu; exfalso; omega
      · rw [Tbl.get_set_ne _ _ e1] at h1
        rw [Tbl.get_set_ne _ _ e2] at h2
        exact h.uidUniq id1 id2 q1 q2 h1 h2 hu
    · intro id l hl
      obtain ⟨a, b, c, d, e⟩ := h.lister id l hl
      refine ⟨a, b, Nat.lt_succ_of_lt c, d, fun id' q hq hu => ?_⟩
      by_cases e1 : (ns, name) = id'
      · subst e1
        have hq' : Tbl.get (Tbl.set s.pods (ns, name) _) (ns, name) = some q := hq
        simp at hq'; subst hq'
        simp only [newPod_uid] at hu; exfalso; omega
      · have hq' : Tbl.get (Tbl.set s.pods (ns, name) _) id' = some q := hq
        rw [Tbl.get_set_ne _ _ e1] at hq'
        exact e id' q hq' hu
    · intro e he
      obtain ⟨a, b, c⟩ := h.events e he
      refine ⟨a, Nat.lt_succ_of_lt b, fun id q hq hu => ?_⟩
      by_cases e1 : (ns, name) = id
      · subst e1
        have hq' : Tbl.get (Tbl.set s.pods (ns, name) _) (ns, name) = some q := hq
        simp at hq'; subst hq'
        simp only [newPod_uid] at hu; exfalso; omega
      · have hq' : Tbl.get (Tbl.set s.pods (ns, name) _) id = some q := hq
        rw [Tbl.get_set_ne _ _ e1] at hq'
        exact c id q hq' hu
    · intro q hq l hl
      exact h.listerLive q (hsub q hq) l hl
    · exact Nat.lt_succ_of_lt h.uidPos

theorem inv_deletePod (s : State) (ns name : String) (h : Inv s) :
    Inv (step Facts.good s (.deletePod ns name)).1 := by
  simp only [step]
  split
  · exact h
  · rename_i p hp
    dsimp only
    have hsub : ∀ q, LiveBound (Tbl.erase s.pods (ns, name)) q → LiveBound s.pods q := fun q hq => liveBound_of_erase hq
    have hget : ∀ id q, Tbl.get (Tbl.erase s.pods (ns, name)) id = some q → Tbl.get s.pods id = some q ∧ id ≠ (ns, name) := by
      intro id q hq
      by_cases e1 : (ns, name) = id
      · subst e1; simp at hq
      · rw [Tbl.get_erase_ne _ e1] at hq; exact ⟨hq, fun e => e1 e.symm⟩
    refine ⟨coherent_of_eq h.coh rfl rfl rfl rfl, (h.safe.anti hsub).of_alloc_eq rfl, ?_, ?_, ?_, ?_, ?_, h.uidPos,
      Tbl.nodup_keys_erase _ h.podsNodup, h.vPodsNodup⟩
    · intro id q hg; exact h.podsWF id q (hget id q hg).1
    · intro id1 id2 q1 q2 h1 h2 hu
      exact h.uidUniq id1 id2 q1 q2 (hget _ _ h1).1 (hget _ _ h2).1 hu
    · intro id l hl
      obtain ⟨a, b, c, d, e⟩ := h.lister id l hl
      exact ⟨a, b, c, d, fun id' q hq hu => e id' q (hget _ _ hq).1 hu⟩
    · intro e he
      have hev : e ∈ s.events ∨ e = { pod := p } := by
        have he' : e ∈ (if wantsEvent p = true then s.events ++ [{ pod := p }] else s.events) := he
        split at he'
        · rcases List.mem_append.mp he' with h1 | h1
          · exact Or.inl h1
          · simp at h1; exact Or.inr h1
        · exact Or.inl he'
      rcases hev with hev | hev
      · obtain ⟨a, b, c⟩ := h.events e hev
        exact ⟨a, b, fun id q hq hu => c id q (hget _ _ hq).1 hu⟩
      · subst hev
        obtain ⟨a, b, c, _⟩ := h.podsWF _ p hp
        refine ⟨b, c, fun id q hq hu => ?_⟩
        have := hget _ _ hq
        have := h.uidUniq id (ns, name) q p this.1 hp hu
        exact absurd this (hget _ _ hq).2
    · intro q hq l hl
      exact h.listerLive q (hsub q hq) l hl

/-- replacing a pod by a copy that differs in phase / node only -/
theorem inv_setPodSame (s : State) (id : String × String) (p p' : Pod) (evs : List Event) (h : Inv s)
    (hp : Tbl.get s.pods id = some p) (hid : p'.id = p.id) (huid : p'.uid = p.uid) (hwf : WFNames p')
    (hkey : keyOf p' = keyOf p) (hh : p'.handed = p.handed) (hfin : p.finished = true → p'.finished = true)
    (hev : ∀ e, e ∈ evs → e ∈ s.events ∨ (e.pod.uid = p.uid ∧ p'.finished = true)) :
    Inv { s with pods := Tbl.set s.pods id p', events := evs } := by
  have hpid : p.id = id := (h.podsWF id p hp).1
  have hlb : ∀ q, LiveBound (Tbl.set s.pods id p') q → (q.id ≠ id ∧ LiveBound s.pods q) ∨ (q = p' ∧ LiveBound s.pods p) := by
    intro q hq
    by_cases he : q.id = id
    · have := liveBound_set_self hq he
      subst this
      right
      refine ⟨rfl, by rw [hpid]; exact hp, ?_, by rw [← hh]; exact hq.2.2⟩
      cases hf : p.finished with
      | false => rfl
      | true => have := hfin hf; rw [hq.2.1] at this; cases this
    · exact Or.inl ⟨he, liveBound_of_set_ne hq he⟩
  refine ⟨coherent_of_eq h.coh rfl rfl rfl rfl, ?_, ?_, ?_, ?_, ?_, ?_, h.uidPos, Tbl.nodup_keys_set _ _ h.podsNodup,
    h.vPodsNodup⟩
  · refine ⟨fun q hq hd hm => ?_, h.safe.admin⟩
    rcases hlb q hq with ⟨_, hq'⟩ | ⟨e, hq'⟩
    · exact h.safe.own q hq' hd hm
    · subst e
      obtain ⟨r, h1, h2, h3⟩ := h.safe.own p hq' hd (by rw [← hh]; exact hm)
      exact ⟨r, h1, by rw [h2, hkey], by rw [h3, huid]⟩
  · intro id' q hg
    by_cases e1 : id = id'
    · subst e1
      have hg' : Tbl.get (Tbl.set s.pods id p') id = some q := hg
      simp at hg'; subst hg'
      obtain ⟨_, b, c, _⟩ := h.podsWF id p hp
      exact ⟨by rw [hid, hpid], by rw [huid]; exact b, by rw [huid]; exact c, hwf⟩
    · have hg' : Tbl.get (Tbl.set s.pods id p') id' = some q := hg
      rw [Tbl.get_set_ne _ _ e1] at hg'
      exact h.podsWF id' q hg'
  · intro id1 id2 q1 q2 h1 h2 hu
    have h1' : Tbl.get (Tbl.set s.pods id p') id1 = some q1 := h1
    have h2' : Tbl.get (Tbl.set s.pods id p') id2 = some q2 := h2
    by_cases e1 : id = id1 <;> by_cases e2 : id = id2
    · rw [← e1, ← e2]
    · subst e1
      simp at h1'; subst h1'
      rw [Tbl.get_set_ne _ _ e2] at h2'
      exact h.uidUniq id id2 p q2 hp h2' (by rw [← huid]; exact hu)
    · subst e2
      simp at h2'; subst h2'
      rw [Tbl.get_set_ne _ _ e1] at h1'
      exact h.uidUniq id1 id q1 p h1' hp (by rw [hu, huid])
    · rw [Tbl.get_set_ne _ _ e1] at h1'
      rw [Tbl.get_set_ne _ _ e2] at h2'
      exact h.uidUniq id1 id2 q1 q2 h1' h2' hu
  · intro id' l hl
    obtain ⟨a, b, c, d, e⟩ := h.lister id' l hl
    refine ⟨a, b, c, d, fun id'' q hq hu => ?_⟩
    have hq' : Tbl.get (Tbl.set s.pods id p') id'' = some q := hq
    by_cases e1 : id = id''
    · subst e1
      simp at hq'; subst hq'
      have := e id p hp (by rw [← huid]; exact hu)
      exact ⟨this.1, by rw [hkey]; exact this.2⟩
    · rw [Tbl.get_set_ne _ _ e1] at hq'
      exact e id'' q hq' hu
  · intro e he
    have key : ∀ id'' q, Tbl.get (Tbl.set s.pods id p') id'' = some q →
        (id'' = id ∧ q = p') ∨ (id'' ≠ id ∧ Tbl.get s.pods id'' = some q) := by
      intro id'' q hq
      by_cases e1 : id = id''
      · subst e1; simp at hq; exact Or.inl ⟨rfl, hq.symm⟩
      · rw [Tbl.get_set_ne _ _ e1] at hq; exact Or.inr ⟨fun x => e1 x.symm, hq⟩
    rcases hev e he with he' | ⟨hu, hf⟩
    · obtain ⟨a, b, c⟩ := h.events e he'
      refine ⟨a, b, fun id'' q hq hu => ?_⟩
      rcases key id'' q hq with ⟨_, e2⟩ | ⟨_, hq'⟩
      · subst e2
        exact hfin (c id p hp (by rw [← huid]; exact hu))
      · exact c id'' q hq' hu
    · obtain ⟨_, b, c, _⟩ := h.podsWF id p hp
      refine ⟨by rw [hu]; exact b, by rw [hu]; exact c, fun id'' q hq hu' => ?_⟩
      rcases key id'' q hq with ⟨_, e2⟩ | ⟨hne, hq'⟩
      · subst e2; exact hf
      · exact absurd (h.uidUniq id'' id q p hq' hp (by rw [hu', hu])) hne
  · intro q hq l hl
    rcases hlb q hq with ⟨_, hq'⟩ | ⟨e, hq'⟩
    · exact h.listerLive q hq' l hl
    · subst e
      have hl' : Tbl.get s.vPods p.id = some l := by rw [← hid]; exact hl
      rw [huid]; exact h.listerLive p hq' l hl'

theorem inv_finishPod (s : State) (ns name : String) (h : Inv s) :
    Inv (step Facts.good s (.finishPod ns name)).1 := by
  simp only [step]
  split
  · exact h
  · rename_i p hp
    split
    · exact h
    · dsimp only
      obtain ⟨_, _, _, wf⟩ := h.podsWF _ p hp
      apply inv_setPodSame s (ns, name) p { p with phase := .finished } _ h hp rfl rfl wf rfl rfl (fun _ => rfl)
      intro e he
      split at he
      · rcases List.mem_append.mp he with h1 | h1
        · exact Or.inl h1
        · simp at h1; subst h1; exact Or.inr ⟨rfl, rfl⟩
      · exact Or.inl he

theorem inv_runPod (s : State) (ns name : String) (h : Inv s) :
    Inv (step Facts.good s (.runPod ns name)).1 := by
  simp only [step]
  split
  · exact h
  · rename_i p hp
    split
    · exact h
    · rename_i hph
      dsimp only
      obtain ⟨_, _, _, wf⟩ := h.podsWF _ p hp
      have hpend : p.phase = .pending := by
        simp only [ne_eq, not_or, Decidable.not_not] at hph; exact hph.1
      have hnf : p.finished = false := by simp [Pod.finished, hpend]
      have := inv_setPodSame s (ns, name) p { p with phase := .running } s.events h hp rfl rfl wf rfl rfl
        (fun hf => by rw [hnf] at hf; cases hf) (fun e he => Or.inl he)
      exact this

theorem inv_dropEvent (s : State) (i : Nat) (h : Inv s) : Inv (step Facts.good s (.dropEvent i)).1 := by
  simp only [step]
  split
  · refine ⟨coherent_of_eq h.coh rfl rfl rfl rfl, h.safe.of_alloc_eq rfl, h.podsWF, h.uidUniq, h.lister, ?_, h.listerLive, h.uidPos,
      h.podsNodup, h.vPodsNodup⟩
    intro e he
    exact h.events e (List.mem_of_mem_eraseIdx he)
  · exact h

theorem inv_listerSync (s : State) (pods apps : Bool) (h : Inv s) :
    Inv (step Facts.good s (.listerSync pods apps)).1 := by
  simp only [step]
  have h1 : Inv (if pods = true then { s with vPods := s.pods } else s) := by
    split
    · refine ⟨coherent_of_eq h.coh rfl rfl rfl rfl, h.safe.of_alloc_eq rfl, h.podsWF, h.uidUniq, ?_, h.events, ?_, h.uidPos,
        h.podsNodup, h.podsNodup⟩
      · intro id l hl
        obtain ⟨a, b, c, d⟩ := h.podsWF id l hl
        refine ⟨a, b, c, d, fun id' q hq hu => ?_⟩
        have := h.uidUniq id' id q l hq hl hu
        subst this
        rw [hl] at hq; cases hq; exact ⟨rfl, rfl⟩
      · intro q hq l hl
        have : Tbl.get s.pods q.id = some l := hl
        rw [hq.1] at this; cases this; rfl
    · exact h
  split
  · exact h1.of_fields rfl rfl rfl rfl rfl rfl rfl rfl
  · exact h1

theorem inv_truth_simple (s : State) (h : Inv s) :
    (∀ kind ns app n, Inv (step Facts.good s (.scale kind ns app n)).1) ∧
    (∀ kind ns app, Inv (step Facts.good s (.deleteApp kind ns app)).1) ∧
    (∀ name size, Inv (step Facts.good s (.setPool name size)).1) := by
  refine ⟨fun _ _ _ _ => ?_, fun _ _ _ => ?_, fun name size => ?_⟩
  · exact h.of_fields rfl rfl rfl rfl rfl rfl rfl rfl
  · exact h.of_fields rfl rfl rfl rfl rfl rfl rfl rfl
  · simp only [step]
    cases size with
    | none => exact h.of_fields rfl rfl rfl rfl rfl rfl rfl rfl
    | some n => exact h.of_fields rfl rfl rfl rfl rfl rfl rfl rfl

end Galaxy.Plugin
