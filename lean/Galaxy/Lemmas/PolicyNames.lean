/-
  Lemmas about model M7: the names of the compiled ipsets are pairwise distinct when the policy name hashes are.
-/
import Galaxy.Lemmas.PolicyFull

namespace Galaxy.Policy

theorem nodup_flatMap_of {α β γ : Type} (l : List α) (f : α → List β) (key : β → γ) (kx : α → γ)
    (h1 : ∀ x ∈ l, (f x).Nodup) (hkey : ∀ x ∈ l, ∀ b ∈ f x, key b = kx x) (hinj : (l.map kx).Nodup) :
    (l.flatMap f).Nodup := by
  induction l with
  | nil => simp
  | cons x t ih =>
    simp only [List.map_cons, List.nodup_cons, List.mem_map, not_exists, not_and] at hinj
    rw [List.flatMap_cons, List.nodup_append]
    refine ⟨h1 x (List.mem_cons_self ..), ih (fun y hy => h1 y (List.mem_cons_of_mem _ hy))
      (fun y hy => hkey y (List.mem_cons_of_mem _ hy)) hinj.2, ?_⟩
    intro a ha b hb e
    obtain ⟨y, hy, hby⟩ := List.mem_flatMap.mp hb
    have k1 := hkey x (List.mem_cons_self ..) a ha
    have k2 := hkey y (List.mem_cons_of_mem _ hy) b hby
    rw [e] at k1
    exact hinj.1 y hy (k2.symm.trans k1)

theorem ruleSets_names (c : Cluster) (kIp kNet : SetKind) (hk : kIp ≠ kNet) (h : String) (j : Nat) (r : Rule) :
    ((ruleSets c kIp kNet h j r).map (·.name)).Nodup ∧
    ∀ s ∈ ruleSets c kIp kNet h j r, s.name.idx = j ∧ s.name.hash = h ∧ (s.name.kind = kIp ∨ s.name.kind = kNet) := by
  unfold ruleSets
  cases ruleIpEntries c r <;> cases ruleNetEntries r <;> simp [hk]

theorem rulesSets_names (c : Cluster) (kIp kNet : SetKind) (hk : kIp ≠ kNet) (h : String) (rs : List Rule) :
    ((rulesSets c kIp kNet h rs).map (·.name)).Nodup ∧
    ∀ s ∈ rulesSets c kIp kNet h rs, s.name.hash = h ∧ (s.name.kind = kIp ∨ s.name.kind = kNet) := by
  unfold rulesSets
  refine ⟨?_, ?_⟩
  · rw [List.map_flatMap]
    apply nodup_flatMap_of rs.zipIdx _ (fun n => n.idx) (fun x => x.2)
    · intro x _; exact (ruleSets_names c kIp kNet hk h x.2 x.1).1
    · intro x _ n hn
      obtain ⟨s, hs, rfl⟩ := List.mem_map.mp hn
      exact ((ruleSets_names c kIp kNet hk h x.2 x.1).2 s hs).1
    · rw [List.zipIdx_map_snd]; exact List.nodup_range'
  · intro s hs
    obtain ⟨x, _, hx⟩ := List.mem_flatMap.mp hs
    exact ((ruleSets_names c kIp kNet hk h x.2 x.1).2 s hx).2

theorem policySets_names (c : Cluster) (p : NetPol) :
    ((policySets c p).map (·.name)).Nodup ∧ ∀ s ∈ policySets c p, s.name.hash = p.hash := by
  obtain ⟨i1, i2⟩ := rulesSets_names c .sip .snet (by decide) p.hash p.ingress
  obtain ⟨e1, e2⟩ := rulesSets_names c .dip .dnet (by decide) p.hash p.egress
  unfold policySets
  refine ⟨?_, ?_⟩
  · simp only [List.map_append]
    rw [List.nodup_append, List.nodup_append]
    refine ⟨⟨?_, ?_, ?_⟩, ?_, ?_⟩
    · split <;> simp
    · split
      · exact i1
      · simp
    · intro a ha b hb e
      split at ha
      · split at hb
        · simp at ha; subst ha
          obtain ⟨s, hs, rfl⟩ := List.mem_map.mp hb
          have := (i2 s hs).2
          rw [← e] at this
          simp [selSetName] at this
        · simp at hb
      · simp at ha
    · split
      · exact e1
      · simp
    · intro a ha b hb e
      split at hb
      · obtain ⟨s, hs, rfl⟩ := List.mem_map.mp hb
        have hk := (e2 s hs).2
        rcases List.mem_append.mp ha with ha | ha
        · split at ha
          · simp at ha; subst ha; rw [← e] at hk; simp [selSetName] at hk
          · simp at ha
        · split at ha
          · obtain ⟨s2, hs2, rfl⟩ := List.mem_map.mp ha
            have hk2 := (i2 s2 hs2).2
            rw [e] at hk2
            rcases hk with h | h <;> rcases hk2 with h2 | h2 <;> rw [h] at h2 <;> cases h2
          · simp at ha
      · simp at hb
  · intro s hs
    simp only [List.mem_append] at hs
    rcases hs with (hs | hs) | hs
    · split at hs
      · simp at hs; subst hs; rfl
      · cases hs
    · split at hs
      · exact (i2 s hs).1
      · cases hs
    · split at hs
      · exact (e2 s hs).1
      · cases hs

/-- distinct policy name hashes ⇒ distinct compiled set names -/
theorem compileSets_names_nodup (c : Cluster) (ps : List NetPol) (hps : (ps.map (·.hash)).Nodup) :
    ((compileSets c ps).map (·.name)).Nodup := by
  unfold compileSets
  rw [List.map_flatMap]
  apply nodup_flatMap_of ps _ (fun n => n.hash) (fun p => p.hash)
  · intro p _; exact (policySets_names c p).1
  · intro p _ n hn
    obtain ⟨s, hs, rfl⟩ := List.mem_map.mp hn
    exact (policySets_names c p).2 s hs
  · exact hps

end Galaxy.Policy
