/-
  M4-core proofs, part 14: Bind.
-/
import Galaxy.Lemmas.PluginReload

namespace Galaxy.Plugin
open Galaxy

theorem find?_mono {α : Type} (p q : α → Bool) (hpq : ∀ x, p x = true → q x = true) :
    ∀ (l : List α) (a : α), l.find? q = some a → p a = true → l.find? p = some a := by
  intro l
  induction l with
  | nil => intro a h; simp at h
  | cons x t ih =>
    intro a h hp
    by_cases hqx : q x = true
    · simp [List.find?, hqx] at h; subst h
      simp [List.find?, hp]
    · have hpx : p x = false := by
        cases hx : p x with
        | false => rfl
        | true => exact absurd (hpq x hx) hqx
      have hqx' : q x = false := by simpa using hqx
      simp [List.find?, hqx'] at h
      simp [List.find?, hpx]
      exact ih a h hp

theorem ownsB_iff (s : State) (k : Key) (ip : IP) : ownsB s k ip = true ↔ hasKey k (Tbl.get s.alloc ip) := by
  unfold ownsB hasKey
  cases h : Tbl.get s.alloc ip with
  | none => simp
  | some r => simp

theorem byKeyAndRanges_mem (s : State) (hn : (Tbl.keys s.alloc).Nodup) (k : Key) (rss : List (List (Nat × Nat))) (ip : IP)
    (h : ip ∈ (byKeyAndRanges s k rss).filterMap id) : hasKey k (Tbl.get s.alloc ip) := by
  unfold byKeyAndRanges at h
  split at h
  · simp only [List.mem_filterMap, List.mem_map, id] at h
    obtain ⟨o, ⟨j, hj, ho⟩, he⟩ := h
    subst ho; cases he
    exact get_of_mem_ipsOfKey hn hj
  · simp only [List.mem_filterMap, List.mem_map, id] at h
    obtain ⟨o, ⟨rs, _, ho⟩, he⟩ := h
    subst he
    exact (ownsB_iff s k ip).mp (List.find?_some ho)

/-- an address the query returns in a later state and that was already owned is returned in the earlier state too,
    provided ownership only grew -/
theorem byKeyAndRanges_second (s s' : State) (k : Key) (rss : List (List (Nat × Nat)))
    (hmono : ∀ x, ownsB s k x = true → ownsB s' k x = true) (ip : IP)
    (hip : ip ∈ (byKeyAndRanges s' k rss).filterMap id) (hown : ownsB s k ip = true) :
    ip ∈ (byKeyAndRanges s k rss).filterMap id := by
  unfold byKeyAndRanges at hip ⊢
  by_cases hre : rss.isEmpty = true
  · rw [if_pos hre]
    simp only [List.mem_filterMap, List.mem_map, id]
    obtain ⟨r, hr, hrk⟩ := (ownsB_iff s k ip).mp hown
    exact ⟨some ip, ⟨ip, mem_ipsOfKey_of_get hr hrk, rfl⟩, rfl⟩
  · rw [if_neg hre] at hip ⊢
    simp only [List.mem_filterMap, List.mem_map, id] at hip ⊢
    obtain ⟨o, ⟨rs, hrs, ho⟩, he⟩ := hip
    subst he
    exact ⟨some ip, ⟨rs, hrs, find?_mono (ownsB s k) (ownsB s' k) hmono _ ip ho hown⟩, rfl⟩

theorem queryNodeSubnet_quiet (s : State) (node : String) :
    QuietStep s (queryNodeSubnet s node).1 ∧ (queryNodeSubnet s node).1.plog = s.plog := by
  unfold queryNodeSubnet
  split
  · exact ⟨QuietStep.refl s, rfl⟩
  · dsimp only
    split
    · exact ⟨api_quiet s, rfl⟩
    · split
      · exact ⟨api_quiet s, rfl⟩
      · split
        · exact ⟨api_quiet s, rfl⟩
        · exact ⟨⟨⟨rfl, rfl, rfl, rfl, rfl, rfl, rfl, rfl, rfl, rfl, rfl, rfl, rfl, rfl, api_calls_le s, rfl⟩, rfl, rfl, rfl⟩, rfl⟩

theorem allocateInSubnet_plog (s : State) (key : Key) (n : Subnet) (a : Attr) (ch : Option IP) :
    (allocateInSubnet s key n a ch).1.plog = s.plog := by
  unfold allocateInSubnet
  dsimp only
  split
  · rfl
  · split
    · rfl
    · split
      · rfl
      · split
        · exact stCreate_plog _ _ _
        · exact stCreate_plog _ _ _

theorem deleteAll_plog : ∀ (l : List IP) (t : State), (deleteAll t l).plog = t.plog := by
  intro l
  induction l with
  | nil => intro t; rfl
  | cons ip tl ih => intro t; unfold deleteAll; rw [ih, stDelete_plog]

theorem createAll_plog (r : Rec) : ∀ (todo done : List IP) (s : State), (createAll s r done todo).1.plog = s.plog := by
  intro todo
  induction todo with
  | nil => intro done s; rfl
  | cons ip t ih =>
    intro done s
    unfold createAll
    dsimp only
    split
    · rw [deleteAll_plog, stCreate_plog]
    · rw [ih, stCreate_plog]

theorem memAllocAll_plog (r : Rec) : ∀ (l : List IP) (s : State), (memAllocAll s r l).plog = s.plog := by
  intro l
  induction l with
  | nil => intro s; rfl
  | cons ip t ih => intro s; unfold memAllocAll; rw [ih]; rfl

theorem allocateInSubnetsAndRanges_plog (s : State) (key : Key) (n : Subnet) (rss : List (List (Nat × Nat))) (a : Attr)
    (ch : Option IP) : (allocateInSubnetsAndRanges s key n rss a ch).1.plog = s.plog := by
  unfold allocateInSubnetsAndRanges
  split
  · exact allocateInSubnet_plog s key n a ch
  · split
    · rfl
    · dsimp only
      split
      · exact createAll_plog _ _ _ _
      · rw [memAllocAll_plog, createAll_plog]

/-- what the allocation step of Bind guarantees -/
structure BindAllocPost (s : State) (pod : Pod) (infos : List (Option IP)) (res : State × Res × List (Option IP)) : Prop where
  coherent : s.crashMode = false ∨ res.2.1 = .ok → Coherent res.1
  persist : ∀ j r0, Tbl.get s.alloc j = some r0 → Tbl.get res.1.store j = Tbl.get s.store j
  chg : Chg isFree (hasKeyUid (keyOf pod) pod.uid) s res.1
  plog : res.1.plog = s.plog
  ips : res.2.1 = .ok → ∀ ip, ip ∈ res.2.2.filterMap id →
    ip ∈ infos.filterMap id ∨ hasKeyUid (keyOf pod) pod.uid (Tbl.get res.1.alloc ip)

theorem bindAlloc_spec (s : State) (pod : Pod) (node : String) (policy : Nat) (infos : List (Option IP)) (pick : Option IP)
    (h : Coherent s)
    (hinfos : infos = byKeyAndRanges s (keyOf pod) pod.ranges ∨
      (pod.ranges.isEmpty = true ∧ ¬ infos.isEmpty = true)) :
    BindAllocPost s pod infos (bindAlloc s pod node { policy := policy, node := node, uid := pod.uid } infos pick) := by
  unfold bindAlloc
  split
  · rename_i hcond
    have qq := queryNodeSubnet_quiet s node
    split
    · exact ⟨fun _ => qq.1.coherent h, fun j _ _ => by rw [qq.1.store], qq.1.chg, qq.2, fun hr => by cases hr⟩
    · rename_i n _
      have hq := qq.1.coherent h
      have c := allocateInSubnetsAndRanges_chg (queryNodeSubnet s node).1 (keyOf pod) n (unfoundRanges infos pod.ranges)
        { policy := policy, node := node, uid := pod.uid } pick hq
      have hqcm : (queryNodeSubnet s node).1.crashMode = s.crashMode := by
        unfold queryNodeSubnet
        split
        · rfl
        · dsimp only
          split
          · rfl
          · split
            · rfl
            · split <;> rfl
      have hc' := allocateInSubnetsAndRanges_coherent (queryNodeSubnet s node).1 (keyOf pod) n (unfoundRanges infos pod.ranges)
        { policy := policy, node := node, uid := pod.uid } pick hq
      have hpers : ∀ j r0, Tbl.get s.alloc j = some r0 → Tbl.get (allocateInSubnetsAndRanges (queryNodeSubnet s node).1
          (keyOf pod) n (unfoundRanges infos pod.ranges) { policy := policy, node := node, uid := pod.uid } pick).1.store j =
          Tbl.get s.store j := by
        intro j r0 hj
        rw [allocateInSubnetsAndRanges_persist _ _ _ _ _ _ hq j r0 (by rw [qq.1.alloc]; exact hj), qq.1.store]
      have ctot : Chg isFree (hasKeyUid (keyOf pod) pod.uid) s
          (allocateInSubnetsAndRanges (queryNodeSubnet s node).1 (keyOf pod) n (unfoundRanges infos pod.ranges)
            { policy := policy, node := node, uid := pod.uid } pick).1 := (qq.1.chg).trans c
      refine ⟨fun hcm => hc' (by rw [hqcm]; exact hcm), hpers, ctot, (allocateInSubnetsAndRanges_plog _ _ _ _ _ _).trans qq.2,
        fun hok ip hip => ?_⟩
      have hc := hc' (Or.inr hok)
      -- an address the second query returns was returned by the first one, or has just been allocated
      have hk2 := byKeyAndRanges_mem _ hc.allocNodup (keyOf pod) pod.ranges ip hip
      rcases ctot.recs ip with e | ⟨_, hnew⟩
      · left
        rw [e] at hk2
        have hmono : ∀ x, ownsB s (keyOf pod) x = true → ownsB (allocateInSubnetsAndRanges (queryNodeSubnet s node).1
            (keyOf pod) n (unfoundRanges infos pod.ranges) { policy := policy, node := node, uid := pod.uid } pick).1
            (keyOf pod) x = true := by
          intro x hx
          rw [ownsB_iff] at hx ⊢
          rcases ctot.recs x with e' | ⟨hfree, _⟩
          · rw [e']; exact hx
          · obtain ⟨r, hr, _⟩ := hx
            rw [hfree] at hr; cases hr
        have hfirst := byKeyAndRanges_second s _ (keyOf pod) pod.ranges hmono ip hip ((ownsB_iff s _ ip).mpr hk2)
        rcases hinfos with hi | ⟨hre, hne⟩
        · rw [hi]; exact hfirst
        · -- no ranges requested and `infos` non-empty: this branch allocates nothing
          exfalso
          have hu : unfoundRanges infos pod.ranges = [] := by
            have : pod.ranges = [] := by simpa using hre
            unfold unfoundRanges; rw [this]; simp
          simp [hu, hne] at hcond
      · exact Or.inr hnew
  · exact ⟨fun _ => h, fun _ _ _ => rfl, Chg.refl _ _ s, rfl, fun _ ip hip => Or.inl hip⟩

/-! ### the assign / updateAttr loop -/

theorem updateAttr_plog (s : State) (key : Key) (ip : IP) (a : Attr) : (updateAttr s key ip a).1.plog = s.plog := by
  unfold updateAttr
  split
  · rfl
  · dsimp only
    split
    · rfl
    · split
      · exact stUpdate_plog _ _ _
      · exact stUpdate_plog _ _ _

theorem bindLoop_spec (k : Key) (node : String) (a : Attr) (found : List IP) : ∀ (l : List IP) (s : State), Coherent s →
    Coherent (bindLoop s k node a found l).1 ∧ Chg (hasKey k) (hasKeyUid k a.uid) s (bindLoop s k node a found l).1 ∧
      UnassignsWithin s (bindLoop s k node a found l).1 (fun _ => False) := by
  intro l
  induction l with
  | nil => intro s h; exact ⟨h, Chg.refl _ _ s, UnassignsWithin.refl s _⟩
  | cons ip t ih =>
    intro s h
    unfold bindLoop
    dsimp only
    have pq := provAssign_quiet s node ip
    have pl := provAssign_log s node ip (fun _ => False)
    have hp := pq.coherent h
    split
    · exact ⟨hp, pq.chg, pl⟩
    · split
      · have uc := updateAttr_coherent (provAssign s node ip).1 k ip a hp
        have ug := updateAttr_chg (provAssign s node ip).1 k ip a
        have ul : UnassignsWithin (provAssign s node ip).1 (updateAttr (provAssign s node ip).1 k ip a).1 (fun _ => False) :=
          UnassignsWithin.of_plog_eq _ (updateAttr_plog _ _ _ _)
        split
        · have r := ih _ uc
          exact ⟨r.1, (pq.chg.trans ug).trans r.2.1, (pl.trans ul).trans r.2.2⟩
        · exact ⟨uc, pq.chg.trans ug, pl.trans ul⟩
      · have r := ih _ hp
        exact ⟨r.1, pq.chg.trans r.2.1, pl.trans r.2.2⟩

/-- records that already carry (key, uid) keep doing so -/
theorem chg_stable {k : Key} {u : Uid} {s s' : State} (c : Chg (hasKey k) (hasKeyUid k u) s s') (j : IP)
    (h : hasKeyUid k u (Tbl.get s.alloc j)) : hasKeyUid k u (Tbl.get s'.alloc j) := by
  rcases c.recs j with e | ⟨_, hn⟩
  · rw [e]; exact h
  · exact hn

/-- after a successful loop every pre-owned address of the list has been refreshed -/
theorem bindLoop_found (k : Key) (node : String) (a : Attr) (found : List IP) : ∀ (l : List IP) (s : State), Coherent s →
    (bindLoop s k node a found l).2 = .ok → ∀ ip, ip ∈ l → ip ∈ found →
      hasKeyUid k a.uid (Tbl.get (bindLoop s k node a found l).1.alloc ip) := by
  intro l
  induction l with
  | nil => intro s _ _ ip hip; simp at hip
  | cons x t ih =>
    intro s h hok ip hip hf
    have pq := provAssign_quiet s node x
    have hp := pq.coherent h
    have uc := updateAttr_coherent (provAssign s node x).1 k x a hp
    unfold bindLoop at hok ⊢
    dsimp only at hok ⊢
    cases hpa : (provAssign s node x).2 with
    | false => simp [hpa] at hok
    | true =>
      simp only [hpa, Bool.not_true, Bool.false_eq_true, if_false] at hok ⊢
      cases hxf : found.contains x with
      | false =>
        simp only [hxf, Bool.false_eq_true, if_false] at hok ⊢
        rcases List.mem_cons.mp hip with e | hm
        · subst e
          have : (found.contains ip) = true := by simpa using hf
          rw [this] at hxf; cases hxf
        · exact ih _ hp hok ip hm hf
      | true =>
        simp only [hxf, if_true] at hok ⊢
        cases hu : (updateAttr (provAssign s node x).1 k x a).2 with
        | ok =>
          simp only [hu] at hok ⊢
          rcases List.mem_cons.mp hip with e | hm
          · subst e
            have h1 := updateAttr_ok (provAssign s node ip).1 k ip a hu
            exact chg_stable (bindLoop_spec k node a found t _ uc).2.1 ip h1
          · exact ih _ uc hok ip hm hf
        | err c => simp [hu] at hok
        | inadmissible => simp [hu] at hok

/-! ### the binding is written to the API server -/

theorem Inv.step_of_touched {s s' : State} {K : Key} {u : Uid} (h : Inv s) (hc : Coherent s') (t : Touched K u s s')
    (hu : ∀ q, LiveBound s.pods q → keyOf q = K → q.uid = u) (hna : K.isAdmin = false := by exact keyOf_not_admin _) :
    Inv s' := by
  have f := t.frame
  refine ⟨hc, ?_, ?_, ?_, ?_, ?_, ?_, ?_, by rw [f.pods]; exact h.podsNodup, by rw [f.vPods]; exact h.vPodsNodup⟩
  · rw [f.pods]; exact h.safe.touched t hu hna
  · rw [f.pods, f.nextUid]; exact h.podsWF
  · rw [f.pods]; exact h.uidUniq
  · rw [f.pods, f.vPods, f.nextUid]; exact h.lister
  · rw [f.pods, f.events, f.nextUid]; exact h.events
  · rw [f.pods, f.vPods]; exact h.listerLive
  · rw [f.nextUid]; exact h.uidPos

/-- a pod becomes bound (or is bound again): its new binding annotation names addresses stored under its key and
    uid, and its key holds no record of another incarnation -/
theorem inv_setPodBound (s : State) (id : String × String) (p : Pod) (node : String) (H : List HInfo) (h : Inv s)
    (hp : Tbl.get s.pods id = some p)
    (hown : ∀ hd, hd ∈ H → ∃ r, Tbl.get s.alloc hd.ip = some r ∧ r.key = keyOf p ∧ r.uid = p.uid)
    (hl : ∀ l, Tbl.get s.vPods id = some l → l.uid = p.uid) :
    Inv { s with pods := Tbl.set s.pods id { p with node := node, handed := H } } := by
  obtain ⟨hpid, hp0, hplt, hpwf⟩ := h.podsWF id p hp
  have hkey : keyOf { p with node := node, handed := H } = keyOf p := rfl
  have hlb : ∀ q, LiveBound (Tbl.set s.pods id { p with node := node, handed := H }) q →
      (q.id ≠ id ∧ LiveBound s.pods q) ∨ q = { p with node := node, handed := H } := by
    intro q hq
    by_cases he : q.id = id
    · exact Or.inr (liveBound_set_self hq he)
    · exact Or.inl ⟨he, liveBound_of_set_ne hq he⟩
  have hget : ∀ id' q, Tbl.get (Tbl.set s.pods id { p with node := node, handed := H }) id' = some q →
      (id' = id ∧ q = { p with node := node, handed := H }) ∨ (id' ≠ id ∧ Tbl.get s.pods id' = some q) := by
    intro id' q hq
    by_cases e1 : id = id'
    · subst e1; simp at hq; exact Or.inl ⟨rfl, hq.symm⟩
    · rw [Tbl.get_set_ne _ _ e1] at hq; exact Or.inr ⟨fun x => e1 x.symm, hq⟩
  refine ⟨coherent_of_eq h.coh rfl rfl rfl rfl, ?_, ?_, ?_, ?_, ?_, ?_, h.uidPos, Tbl.nodup_keys_set _ _ h.podsNodup,
    h.vPodsNodup⟩
  · refine ⟨fun q hq hd hm => ?_, h.safe.admin⟩
    rcases hlb q hq with ⟨_, hq'⟩ | e
    · exact h.safe.own q hq' hd hm
    · subst e; exact hown hd hm
  · intro id' q hg
    rcases hget id' q hg with ⟨e1, e2⟩ | ⟨_, hq⟩
    · subst e1; subst e2; exact ⟨hpid, hp0, hplt, hpwf⟩
    · exact h.podsWF id' q hq
  · intro id1 id2 q1 q2 h1 h2 hu
    rcases hget id1 q1 h1 with ⟨e1, e2⟩ | ⟨n1, g1⟩ <;> rcases hget id2 q2 h2 with ⟨e3, e4⟩ | ⟨n2, g2⟩
    · rw [e1, e3]
    · subst e2; exact (h.uidUniq id2 id q2 p g2 hp hu.symm).symm ▸ e1 ▸ rfl
    · subst e4; exact (h.uidUniq id1 id q1 p g1 hp hu) ▸ e3 ▸ rfl
    · exact h.uidUniq id1 id2 q1 q2 g1 g2 hu
  · intro id' l hl'
    obtain ⟨a, b, c, d, e⟩ := h.lister id' l hl'
    refine ⟨a, b, c, d, fun id'' q hq hu => ?_⟩
    rcases hget id'' q hq with ⟨e1, e2⟩ | ⟨_, g⟩
    · subst e1; subst e2
      have := e id'' p hp hu
      exact ⟨this.1, by rw [hkey]; exact this.2⟩
    · exact e id'' q g hu
  · intro e he
    obtain ⟨a, b, c⟩ := h.events e he
    refine ⟨a, b, fun id'' q hq hu => ?_⟩
    rcases hget id'' q hq with ⟨e1, e2⟩ | ⟨_, g⟩
    · subst e1; subst e2; exact c id'' p hp hu
    · exact c id'' q g hu
  · intro q hq l hl'
    rcases hlb q hq with ⟨_, hq'⟩ | e
    · exact h.listerLive q hq' l hl'
    · subst e
      have : Tbl.get s.vPods id = some l := by rw [← hpid]; exact hl'
      exact hl l this

theorem bindCommit_spec (s : State) (pod : Pod) (ns name : String) (uid : Nat) (node : String) (ips : List IP) (h : Inv s)
    (hl : Tbl.get s.vPods (ns, name) = some pod)
    (huid0 : uid ≠ 0) (hluid : pod.uid = uid)
    (hown : ∀ ip, ip ∈ ips → hasKeyUid (keyOf pod) pod.uid (Tbl.get s.alloc ip)) :
    Inv (bindCommit s pod ns name uid node ips).1 ∧ (bindCommit s pod ns name uid node ips).1.plog = s.plog := by
  have q3 : QuietStep s (if s.api.2 = true then s.api.1.api.1 else s.api.1) := by
    split
    · exact (api_quiet s).trans (api_quiet _)
    · exact api_quiet s
  have p3 : (if s.api.2 = true then s.api.1.api.1 else s.api.1).plog = s.plog := by split <;> rfl
  have h3 := h.quiet q3
  obtain ⟨lid, l0, llt, lwf, lsame⟩ := h.lister (ns, name) pod hl
  unfold bindCommit
  split
  · -- NotFound: the lister's pod object is queued; no pod of API truth carries its uid
    rename_i hnone
    refine ⟨?_, p3⟩
    apply h3.setEvents
    intro e he
    rcases List.mem_append.mp he with he | he
    · exact h3.events e he
    · simp at he; subst he
      refine ⟨l0, by rw [q3.frame.nextUid]; exact llt, fun id q hq hu => ?_⟩
      exfalso
      rw [q3.frame.pods] at hq
      have := (lsame id q hq hu).1
      subst this
      rw [q3.frame.pods] at hnone
      rw [hq] at hnone; cases hnone
  · rename_i tp htp
    split
    · exact ⟨h3, p3⟩
    · rename_i hconf
      refine ⟨?_, p3⟩
      have htp' : Tbl.get s.pods (ns, name) = some tp := by rw [← q3.frame.pods]; exact htp
      have hu : tp.uid = pod.uid := by
        rw [hluid]
        simp only [ne_eq, not_or, not_and, Decidable.not_not] at hconf
        exact hconf.1 huid0
      have hk := (lsame (ns, name) tp htp' hu).2
      apply inv_setPodBound _ (ns, name) tp node (ips.map (toHInfo s)) h3 htp
      · intro hd hm
        simp only [List.mem_map] at hm
        obtain ⟨ip, hip, he⟩ := hm
        subst he
        obtain ⟨r, hr, hrk, hru⟩ := hown ip hip
        have : (toHInfo s ip).ip = ip := by unfold toHInfo; split <;> rfl
        rw [this, q3.alloc]
        exact ⟨r, hr, by rw [hrk, hk], by rw [hru, hu]⟩
      · intro l hl'
        rw [q3.frame.vPods, hl] at hl'
        cases hl'; exact hu.symm

theorem bindCommit_admin (s : State) (pod : Pod) (ns name : String) (uid : Nat) (node : String) (ips : List IP) :
    (bindCommit s pod ns name uid node ips).1.admin = s.admin := by
  unfold bindCommit
  split
  · dsimp only; split <;> rfl
  · split
    · dsimp only; split <;> rfl
    · dsimp only; split <;> rfl

/-- `bindCommitX` is `bindCommit`, or (dead process) just the counted call -/
theorem bindCommitX_cases (s : State) (pod : Pod) (ns name : String) (uid : Nat) (node : String) (ips : List IP) :
    bindCommitX s pod ns name uid node ips = (s.api.1, Out.err "crashed") ∨
    bindCommitX s pod ns name uid node ips = bindCommit s pod ns name uid node ips := by
  unfold bindCommitX
  split
  · exact Or.inl rfl
  · exact Or.inr rfl

theorem bindCommitX_eq (s : State) (pod : Pod) (ns name : String) (uid : Nat) (node : String) (ips : List IP)
    (h : s.crashMode = false) : bindCommitX s pod ns name uid node ips = bindCommit s pod ns name uid node ips := by
  unfold bindCommitX
  simp [h]

/-- with the facts of the current tree the reaction to EVERY answer of the Binding call (ok, NotFound, Conflict, any
    other error, applied-but-error-returned) leaves the state `bindCommit` leaves, or just counts the call: nothing is
    queued except by `bindCommit`'s NotFound branch -/
theorem bindFinish_good_state (s : State) (pod : Pod) (ns name : String) (uid : Nat) (node : String) (ips : List IP)
    (ans : BindAnswer) :
    (bindFinish Facts.good s pod ns name uid node ips ans).1 = s.api.1 ∨
    (bindFinish Facts.good s pod ns name uid node ips ans).1 = (bindCommit s pod ns name uid node ips).1 := by
  have hx : (bindCommitX s pod ns name uid node ips).1 = s.api.1 ∨
      (bindCommitX s pod ns name uid node ips).1 = (bindCommit s pod ns name uid node ips).1 := by
    rcases bindCommitX_cases s pod ns name uid node ips with e | e
    · left; rw [e]
    · right; rw [e]
  unfold bindFinish
  split
  · exact Or.inl rfl
  · exact hx
  · exact hx
  · simp only [Facts.good, if_true]; exact hx
  · split
    · simp only [Facts.good, if_true]; exact hx
    · exact hx

/-- a bind that reports success went through `bindCommitX` (whatever the facts and the fate of the call) -/
theorem bindFinish_ok_eq (F : Facts) (s : State) (pod : Pod) (ns name : String) (uid : Nat) (node : String) (ips : List IP)
    (ans : BindAnswer) (h : (bindFinish F s pod ns name uid node ips ans).2.res = .ok) :
    bindFinish F s pod ns name uid node ips ans = bindCommitX s pod ns name uid node ips := by
  revert h
  unfold bindFinish
  split
  · intro h; cases h
  · intro _; rfl
  · intro _; rfl
  · split
    · intro _; rfl
    · rename_i hb
      intro h
      have hc : (bindCommitX s pod ns name uid node ips).2.res = .ok := h
      have : bindOutcome s ns name uid ans = .conflict := by assumption
      exfalso
      -- a Conflict answer never yields an ok result
      unfold bindOutcome at this
      split at this
      · cases this
      · split at this
        · cases this
        · rename_i tp htp
          split at this
          · rename_i hcf
            unfold bindCommitX at hc
            split at hc
            · cases hc
            · unfold bindCommit at hc
              have hp : (if s.api.2 = true then s.api.1.api.1 else s.api.1).pods = s.pods := by split <;> rfl
              rw [hp, htp] at hc
              simp only [hcf, if_true] at hc
              cases hc
          · split at this <;> cases this
  · split
    · intro h; cases h
    · intro _; rfl

/-- answered truthfully, with the facts of the current tree, the end of Bind is `bindCommitX` -/
theorem bindFinish_truthful (s : State) (pod : Pod) (ns name : String) (uid : Nat) (node : String) (ips : List IP) :
    bindFinish Facts.good s pod ns name uid node ips .truthful = bindCommitX s pod ns name uid node ips := by
  unfold bindFinish
  split
  · rename_i h
    unfold bindOutcome at h
    simp at h
    split at h
    · cases h
    · split at h <;> cases h
  · rfl
  · rfl
  · simp [Facts.good]
  · rename_i h
    unfold bindOutcome at h
    simp at h
    split at h
    · cases h
    · split at h <;> cases h

/-- Bind.  Without a crash plan the invariant is preserved; under ANY plan (crash included) the persistent part `PInv`
    is: the only state in which memory and store may disagree is the one after an interrupted multi-address allocation,
    and there the store differs from memory at previously unallocated addresses only. -/
theorem bind_spec (s : State) (ns name : String) (uid : Nat) (node : String) (ch : Choice) (h : Inv s) (huid0 : uid ≠ 0) :
    PInv (bind Facts.good s ns name uid node ch).1 ∧
    (s.crashMode = false → Inv (bind Facts.good s ns name uid node ch).1) ∧
      UnassignsWithin s (bind Facts.good s ns name uid node ch).1 (fun _ => False) ∧
      (bind Facts.good s ns name uid node ch).1.admin = s.admin := by
  have base : PInv s ∧ (s.crashMode = false → Inv s) ∧ UnassignsWithin s s (fun _ => False) ∧ s.admin = s.admin :=
    ⟨h.toPInv, fun _ => h, UnassignsWithin.refl s _, rfl⟩
  have ofInv : ∀ t, Inv t → UnassignsWithin s t (fun _ => False) → t.admin = s.admin →
      PInv t ∧ (s.crashMode = false → Inv t) ∧ UnassignsWithin s t (fun _ => False) ∧ t.admin = s.admin :=
    fun t ht hl hadm => ⟨ht.toPInv, fun _ => ht, hl, hadm⟩
  unfold bind
  split
  · exact base
  · rename_i pod hl
    obtain ⟨lid, l0, llt, lwf, lsame⟩ := h.lister (ns, name) pod hl
    split
    · exact base
    · split
      · exact base
      · rename_i hguard1
        have hluid : pod.uid = uid := by
          simp only [good_bindChecksListerUID, Bool.true_and, Bool.and_eq_true, bne_iff_ne, ne_eq, not_and,
            Decidable.not_not] at hguard1
          exact hguard1 ⟨huid0, l0⟩
        split
        · exact base
        · rename_i infos hinf
          have hinfos : infos = byKeyAndRanges s (keyOf pod) pod.ranges ∨ (pod.ranges.isEmpty = true ∧ ¬ infos.isEmpty = true) := by
            unfold bindInfos at hinf
            split at hinf
            · rename_i hc
              right
              simp only [Bool.and_eq_true] at hc
              refine ⟨hc.1, ?_⟩
              cases hpf : pickFirst (byKeyAndRanges s (keyOf pod) pod.ranges) ch.first with
              | none => rw [hpf] at hinf; cases hinf
              | some ip => rw [hpf] at hinf; cases hinf; simp
            · left; cases hinf; rfl
          split
          · exact base
          · rename_i hguard2
            have h2 : ∀ ip r, Tbl.get s.alloc ip = some r → r.key = keyOf pod → r.uid = 0 ∨ r.uid = pod.uid := by
              intro ip r hg hk
              simp only [good_bindChecksUID, Bool.true_and, bindGuardIPs, good_bindUidGuardCoversWholeKey, if_true,
                List.any_eq_true, not_exists, not_and] at hguard2
              have := hguard2 ip (mem_ipsOfKey_of_get hg hk)
              rw [hg] at this
              simp only [Bool.and_eq_true, bne_iff_ne, ne_eq, not_and, Decidable.not_not] at this
              by_cases h0 : r.uid = 0
              · exact Or.inl h0
              · exact Or.inr (this h0)
            have huid : ∀ q, LiveBound s.pods q → keyOf q = keyOf pod → q.uid = pod.uid := by
              intro q hq hk
              obtain ⟨hd, hmem⟩ := List.exists_mem_of_ne_nil _ hq.2.2
              obtain ⟨r, g1, g2, g3⟩ := h.safe.own q hq hd hmem
              have hq0 : q.uid ≠ 0 := (h.podsWF _ q hq.1).2.1
              rcases h2 hd.ip r g1 (g2.trans hk) with e | e
              · rw [g3] at e; exact absurd e hq0
              · rw [← g3]; exact e
            have sp := bindAlloc_spec s pod node (policyOf pod) infos ch.pick h.coh hinfos
            have tA : Touched (keyOf pod) pod.uid s (bindAlloc s pod node
                { policy := policyOf pod, node := node, uid := pod.uid } infos ch.pick).1 :=
              sp.chg.touched (fun o ho => Or.inl ho) (fun n hn => hn)
            split
            · exact base
            · -- the allocation failed (or the process died in it): memory untouched, store changed at free addresses only
              have f := tA.frame
              refine ⟨⟨by rw [f.pods, f.nextUid]; exact h.podsWF, by rw [f.pods]; exact h.uidUniq,
                by rw [f.nextUid]; exact h.uidPos, by rw [f.pods]; exact h.podsNodup, ?_, ?_⟩, fun hcm => ?_,
                UnassignsWithin.of_plog_eq _ sp.plog, f.admin⟩
              · intro q hq hd hm
                rw [f.pods] at hq
                obtain ⟨r, g1, g2, g3⟩ := h.safe.own q hq hd hm
                exact ⟨r, by rw [sp.persist hd.ip r g1, h.coh.agree]; exact g1, g2, g3,
                  by rw [f.pools]; exact h.coh.allocConf _ r g1⟩
              · intro ip r hr
                rw [f.admin] at hr
                obtain ⟨g1, g2⟩ := h.safe.admin ip r hr
                exact ⟨by rw [sp.persist ip r g1, h.coh.agree]; exact g1, g2⟩
              · exact h.step_of_touched (sp.coherent (Or.inl hcm)) tA huid
            · rename_i hok
              have hcA := sp.coherent (Or.inr hok)
              have bl := bindLoop_spec (keyOf pod) node { policy := policyOf pod, node := node, uid := pod.uid }
                (infos.filterMap id) ((bindAlloc s pod node { policy := policyOf pod, node := node, uid := pod.uid } infos
                  ch.pick).2.2.filterMap id) _ hcA
              have tB : Touched (keyOf pod) pod.uid (bindAlloc s pod node
                  { policy := policyOf pod, node := node, uid := pod.uid } infos ch.pick).1 _ :=
                bl.2.1.touched (fun o ho => Or.inr ho) (fun n hn => hn)
              have tAB := tA.trans tB
              have hiB := h.step_of_touched bl.1 tAB huid
              have lgB : UnassignsWithin s _ (fun _ => False) := (UnassignsWithin.of_plog_eq _ sp.plog).trans bl.2.2
              split
              · rename_i hlok
                have hown : ∀ ip, ip ∈ (bindAlloc s pod node { policy := policyOf pod, node := node, uid := pod.uid } infos
                    ch.pick).2.2.filterMap id → hasKeyUid (keyOf pod) pod.uid (Tbl.get (bindLoop (bindAlloc s pod node
                      { policy := policyOf pod, node := node, uid := pod.uid } infos ch.pick).1 (keyOf pod) node
                      { policy := policyOf pod, node := node, uid := pod.uid } (infos.filterMap id)
                      ((bindAlloc s pod node { policy := policyOf pod, node := node, uid := pod.uid } infos
                        ch.pick).2.2.filterMap id)).1.alloc ip) := by
                  intro ip hip
                  rcases sp.ips hok ip hip with hf | hnew
                  · exact bindLoop_found (keyOf pod) node { policy := policyOf pod, node := node, uid := pod.uid }
                      (infos.filterMap id) _ _ hcA hlok ip hip hf
                  · exact chg_stable bl.2.1 ip hnew
                have f := tAB.frame
                rcases bindFinish_good_state (bindLoop (bindAlloc s pod node
                      { policy := policyOf pod, node := node, uid := pod.uid } infos ch.pick).1 (keyOf pod) node
                      { policy := policyOf pod, node := node, uid := pod.uid } (infos.filterMap id)
                      ((bindAlloc s pod node { policy := policyOf pod, node := node, uid := pod.uid } infos
                        ch.pick).2.2.filterMap id)).1 pod ns name uid node
                    ((bindAlloc s pod node { policy := policyOf pod, node := node, uid := pod.uid } infos
                      ch.pick).2.2.filterMap id) ch.answer with e | e
                · rw [e]
                  exact ofInv _ (hiB.quiet (api_quiet _)) (lgB.trans (UnassignsWithin.of_plog_eq _ rfl)) f.admin
                · rw [e]
                  have cm := bindCommit_spec _ pod ns name uid node _ hiB (by rw [f.vPods]; exact hl) huid0 hluid hown
                  exact ofInv _ cm.1 (lgB.trans (UnassignsWithin.of_plog_eq _ cm.2)) ((bindCommit_admin _ _ _ _ _ _ _).trans f.admin)
              · exact ofInv _ hiB lgB tAB.frame.admin

theorem assumed_bind {s : State} {ns name : String} {uid : Nat} {node : String} {ch : Choice} {f pf : Nat}
    (ha : assumed s (.bind ns name uid node ch f pf) = true) : uid ≠ 0 := by
  simpa [assumed] using ha

theorem inv_bind (s : State) (ns name : String) (uid : Nat) (node : String) (ch : Choice) (f pf : Nat) (h : Inv s)
    (ha : assumed s (.bind ns name uid node ch f pf) = true) :
    Inv (step Facts.good s (.bind ns name uid node ch f pf)).1 :=
  (bind_spec (withFaults s f pf) ns name uid node ch (inv_withFaults s f pf h) (assumed_bind ha)).2.1 rfl

end Galaxy.Plugin
