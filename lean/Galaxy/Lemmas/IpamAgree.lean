/-
  Per-mutator preservation lemmas: `MemOK` (every outcome, every plan) and `Sync` (every outcome except a crash,
  which `step` answers with `restart`).
-/
import Galaxy.Lemmas.IpamWalk

namespace Galaxy.Ipam
open Tbl

variable {s : State}

/-! ## generic `Sync` steps -/

theorem sync_alloc (h : Sync s) (ip : IP) (r : Rec) (st : Store) (hst : st = s.store.set ip r) :
    Sync { memAlloc s ip r with store := st } := by
  subst hst
  intro j hc
  by_cases hj : j = ip
  · subst hj; right; simp [memAlloc, optEq_refl]
  · have hne : ip ≠ j := fun e => hj e.symm
    rcases h j hc with hp | he
    · exact Or.inl hp
    · right; simpa [memAlloc, Tbl.get_set_ne _ _ hne] using he

theorem sync_update (h : Sync s) {ip : IP} {r r0 : Rec} (hal : s.alloc.get ip = some r) (hst : s.store.get ip = some r0)
    (k : String) (a : Attr) (now : Nat) :
    Sync { s with store := s.store.set ip (assignRec k a now r0), alloc := s.alloc.set ip (assignRec k a now r) } := by
  intro j hc
  by_cases hj : j = ip
  · subst hj
    rcases h j hc with hp | he
    · exact Or.inl hp
    · right
      rw [hal, hst] at he
      simpa using optEq_assign he k a now
  · have hne : ip ≠ j := fun e => hj e.symm
    rcases h j hc with hp | he
    · exact Or.inl hp
    · right; simpa [Tbl.get_set_ne _ _ hne] using he

theorem sync_free (h : Sync s) (ip : IP) : Sync { memFree s ip with store := s.store.erase ip } := by
  intro j hc
  by_cases hj : j = ip
  · subst hj; right; simp [memFree, optEq]
  · have hne : ip ≠ j := fun e => hj e.symm
    rcases h j hc with hp | he
    · exact Or.inl hp
    · right; simpa [memFree, Tbl.get_erase_ne _ hne] using he

/-! ## AllocateSpecificIP -/

theorem memOK_allocateSpecific (h : MemOK s) (key : String) (ip : IP) (a : Attr) (pl : Plan) :
    MemOK (allocateSpecific s key ip a pl).1 := by
  unfold allocateSpecific
  split
  · next hin =>
    split
    · exact memOK_store h _
    · exact memOK_store (memOK_memAlloc h _ hin) _
  · exact h

theorem sync_allocateSpecific (h : Sync s) (key : String) (ip : IP) (a : Attr) (pl : Plan)
    (hne : (allocateSpecific s key ip a pl).2.err ≠ some .crashed) : Sync (allocateSpecific s key ip a pl).1 := by
  unfold allocateSpecific at hne ⊢
  by_cases hin : ip ∈ s.free
  · rw [if_pos hin] at hne ⊢
    rcases sCreate_cases pl 0 s.store ip (mkRec key a s.clock) with ⟨e, _, heq, _⟩ | ⟨_, heq⟩ | ⟨st', heq⟩
    · simp only [heq]; exact h
    · simp only [heq]; exact sync_alloc h ip _ _ rfl
    · simp [heq, Out.fail] at hne
  · rw [if_neg hin]; exact h

/-! ## AllocateInSubnet -/

theorem memOK_allocateInSubnet (h : MemOK s) (key subnet : String) (a : Attr) (choice : Option IP) (pl : Plan)
    (hadm : admissibleInSubnet s subnet choice = true) : MemOK (allocateInSubnet s key subnet a choice pl).1 := by
  unfold allocateInSubnet
  cases choice with
  | none => exact h
  | some ip =>
    have hin : ip ∈ s.free := by
      simp [admissibleInSubnet] at hadm; exact hadm.1
    simp only
    split
    · exact memOK_store h _
    · exact memOK_store (memOK_memAlloc h _ hin) _

theorem sync_allocateInSubnet (h : Sync s) (key subnet : String) (a : Attr) (choice : Option IP) (pl : Plan)
    (hne : (allocateInSubnet s key subnet a choice pl).2.err ≠ some .crashed) :
    Sync (allocateInSubnet s key subnet a choice pl).1 := by
  unfold allocateInSubnet at hne ⊢
  cases choice with
  | none => exact h
  | some ip =>
    simp only at hne ⊢
    rcases sCreate_cases pl 0 s.store ip (mkRec key a s.clock) with ⟨e, _, heq, _⟩ | ⟨_, heq⟩ | ⟨st', heq⟩
    · simp only [heq]; exact h
    · simp only [heq]; exact sync_alloc h ip _ _ rfl
    · simp [heq, Out.fail] at hne

/-! ## AllocateInSubnetWithKey -/

theorem memOK_allocateInSubnetWithKey (h : MemOK s) (old new subnet : String) (a : Attr) (choice : Option IP) (pl : Plan) :
    MemOK (allocateInSubnetWithKey s old new subnet a choice pl).1 := by
  unfold allocateInSubnetWithKey
  cases choice with
  | none => exact h
  | some ip =>
    simp only
    split
    · exact h
    · next r hal =>
      split
      · exact memOK_store h _
      · exact memOK_store (memOK_setAlloc h hal _) _

theorem sync_allocateInSubnetWithKey (h : Sync s) (old new subnet : String) (a : Attr) (choice : Option IP) (pl : Plan)
    (hne : (allocateInSubnetWithKey s old new subnet a choice pl).2.err ≠ some .crashed) :
    Sync (allocateInSubnetWithKey s old new subnet a choice pl).1 := by
  unfold allocateInSubnetWithKey at hne ⊢
  cases choice with
  | none => exact h
  | some ip =>
    simp only at hne ⊢
    cases hal : s.alloc.get ip with
    | none => simp only [hal]; exact h
    | some r =>
      simp only [hal] at hne ⊢
      rcases sGetUpdate_cases pl 0 s.store ip (assignRec new a s.clock) with ⟨e, _, heq⟩ | ⟨r0, hst, heq⟩ | ⟨st', heq⟩
      · simp only [heq]; exact h
      · simp only [heq]; exact sync_update h hal hst new a s.clock
      · simp [heq, Out.fail] at hne

/-! ## UpdateAttr -/

theorem memOK_updateAttr (h : MemOK s) (key : String) (ip : IP) (a : Attr) (pl : Plan) :
    MemOK (updateAttr s key ip a pl).1 := by
  unfold updateAttr
  split
  · exact h
  · next r hal =>
    split
    · exact h
    · split
      · exact memOK_store h _
      · exact memOK_store (memOK_setAlloc h hal _) _

theorem sync_updateAttr (h : Sync s) (key : String) (ip : IP) (a : Attr) (pl : Plan)
    (hne : (updateAttr s key ip a pl).2.err ≠ some .crashed) : Sync (updateAttr s key ip a pl).1 := by
  unfold updateAttr at hne ⊢
  cases hal : s.alloc.get ip with
  | none => simp only [hal]; exact h
  | some r =>
    simp only [hal] at hne ⊢
    by_cases hk : r.key ≠ key
    · rw [if_pos hk]; exact h
    · rw [if_neg hk] at hne ⊢
      rcases sGetUpdate_cases pl 0 s.store ip (assignRec r.key a s.clock) with ⟨e, _, heq⟩ | ⟨r0, hst, heq⟩ | ⟨st', heq⟩
      · simp only [heq]; exact h
      · simp only [heq]; exact sync_update h hal hst r.key a s.clock
      · simp [heq, Out.fail] at hne

/-! ## Release -/

theorem memOK_release (h : MemOK s) (key : String) (ip : IP) (pl : Plan) : MemOK (release s key ip pl).1 := by
  unfold release
  split
  · exact h
  · next r hal =>
    split
    · exact h
    · split
      · exact memOK_store h _
      · exact memOK_store (memOK_memFree h hal) _

theorem sync_release (h : Sync s) (key : String) (ip : IP) (pl : Plan)
    (hne : (release s key ip pl).2.err ≠ some .crashed) : Sync (release s key ip pl).1 := by
  unfold release at hne ⊢
  cases hal : s.alloc.get ip with
  | none => simp only [hal]; exact h
  | some r =>
    simp only [hal] at hne ⊢
    by_cases hk : r.key ≠ key
    · rw [if_pos hk]; exact h
    · rw [if_neg hk] at hne ⊢
      rcases sDelete_cases pl 0 s.store ip with ⟨e, _, heq, _⟩ | ⟨_, heq⟩ | ⟨st', heq⟩
      · simp only [heq]; exact h
      · simp only [heq]; exact sync_free h ip
      · simp [heq, Out.fail] at hne

/-! ## ReserveIP -/

theorem memOK_reserveLoop (now : Nat) (old new : String) (a : Attr) (pl : Plan) :
    ∀ (l : List IP) (n : Nat) (s : State) (ch : Bool), MemOK s → MemOK (reserveLoop now old new a pl l n s ch).1 := by
  intro l
  induction l with
  | nil => intro n s ch h; exact h
  | cons ip rest ih =>
    intro n s ch h
    unfold reserveLoop
    split
    · exact ih _ _ _ h
    · next r hal =>
      split
      · exact ih _ _ _ h
      · split
        · exact ih _ _ _ h
        · split
          · exact memOK_store h _
          · exact ih _ _ _ (memOK_store (memOK_setAlloc h hal _) _)

theorem sync_reserveLoop (now : Nat) (old new : String) (a : Attr) (pl : Plan) :
    ∀ (l : List IP) (n : Nat) (s : State) (ch : Bool), Sync s →
      (reserveLoop now old new a pl l n s ch).2.err ≠ some .crashed → Sync (reserveLoop now old new a pl l n s ch).1 := by
  intro l
  induction l with
  | nil => intro n s ch h _; exact h
  | cons ip rest ih =>
    intro n s ch h hne
    unfold reserveLoop at hne ⊢
    cases hal : s.alloc.get ip with
    | none => simp only [hal] at hne ⊢; exact ih _ _ _ h hne
    | some r =>
      simp only [hal] at hne ⊢
      by_cases hk : r.key ≠ old
      · rw [if_pos hk] at hne ⊢; exact ih _ _ _ h hne
      · rw [if_neg hk] at hne ⊢
        by_cases hsame : old = new ∧ r.uid = a.uid ∧ r.node = a.node
        · rw [if_pos hsame] at hne ⊢; exact ih _ _ _ h hne
        · rw [if_neg hsame] at hne ⊢
          rcases sGetUpdate_cases pl n s.store ip (assignRec new { a with policy := r.policy } now) with
            ⟨e, _, heq⟩ | ⟨r0, hst, heq⟩ | ⟨st', heq⟩
          · simp only [heq]; exact h
          · simp only [heq] at hne ⊢
            exact ih _ _ _ (sync_update h hal hst new _ now) hne
          · simp [heq, Out.fail] at hne

/-! ## ReleaseIPs -/

theorem memOK_releaseLoop (pl : Plan) :
    ∀ (l : List (IP × String)) (n : Nat) (s : State) (del und : List (IP × String)), MemOK s →
      MemOK (releaseLoop pl l n s del und).1 := by
  intro l
  induction l with
  | nil => intro n s del und h; exact h
  | cons p rest ih =>
    intro n s del und h
    obtain ⟨ip, key⟩ := p
    unfold releaseLoop
    split
    · next r hal =>
      split
      · split
        · exact memOK_store h _
        · exact ih _ _ _ _ (memOK_store (memOK_memFree h hal) _)
      · exact ih _ _ _ _ h
    · split
      · exact ih _ _ _ _ h
      · exact ih _ _ _ _ h

theorem sync_releaseLoop (pl : Plan) :
    ∀ (l : List (IP × String)) (n : Nat) (s : State) (del und : List (IP × String)), Sync s →
      (releaseLoop pl l n s del und).2.err ≠ some .crashed → Sync (releaseLoop pl l n s del und).1 := by
  intro l
  induction l with
  | nil => intro n s del und h _; exact h
  | cons p rest ih =>
    intro n s del und h hne
    obtain ⟨ip, key⟩ := p
    unfold releaseLoop at hne ⊢
    cases hal : s.alloc.get ip with
    | none =>
      simp only [hal] at hne ⊢
      by_cases hf : ip ∈ s.free
      · rw [if_pos hf] at hne ⊢; exact ih _ _ _ _ h hne
      · rw [if_neg hf] at hne ⊢; exact ih _ _ _ _ h hne
    | some r =>
      simp only [hal] at hne ⊢
      by_cases hk : r.key = key
      · rw [if_pos hk] at hne ⊢
        rcases sDelete_cases pl n s.store ip with ⟨e, _, heq, _⟩ | ⟨_, heq⟩ | ⟨st', heq⟩
        · simp only [heq]; exact h
        · simp only [heq] at hne ⊢; exact ih _ _ _ _ (sync_free h ip) hne
        · simp [heq] at hne
      · rw [if_neg hk] at hne ⊢; exact ih _ _ _ _ h hne

theorem memOK_releaseIPs (h : MemOK s) (req : List (IP × String)) (pl : Plan) : MemOK (releaseIPs s req pl).1 := by
  unfold releaseIPs
  split
  · exact h
  · exact memOK_releaseLoop pl _ _ _ _ _ h

theorem sync_releaseIPs (h : Sync s) (req : List (IP × String)) (pl : Plan)
    (hne : (releaseIPs s req pl).2.err ≠ some .crashed) : Sync (releaseIPs s req pl).1 := by
  unfold releaseIPs at hne ⊢
  split
  · exact h
  · next he => simp only [he] at hne; exact sync_releaseLoop pl _ _ _ _ _ h (by simpa using hne)

/-! ## event handlers -/

theorem memOK_fipAssignEvent (h : MemOK s) (e : Event) : MemOK (fipAssignEvent s e).1 := by
  unfold fipAssignEvent
  split
  · exact h
  · split
    · next hin => exact memOK_memAlloc h _ hin
    · exact h

theorem memOK_fipUnassignEventG (chk : Bool) (h : MemOK s) (e : Event) : MemOK (fipUnassignEventG chk s e).1 := by
  unfold fipUnassignEventG
  split
  · exact h
  · next r hal =>
    split
    · exact h
    · exact memOK_memFree h hal

theorem memOK_fipUnassignEvent (h : MemOK s) (e : Event) : MemOK (fipUnassignEvent s e).1 :=
  memOK_fipUnassignEventG _ h e

end Galaxy.Ipam
