/-
  Lemmas about M2 `Pool`: masks and subnets, `fipCheck`, what an accepted pool satisfies, the encode / decode
  round trip.
-/
import Galaxy.Model.Pool
import Galaxy.Lemmas.NetsText

namespace Galaxy.Pool
open Galaxy.Nets Galaxy.Generated.Nets

/-! ### Masks -/

theorem and_mask_eq (x : BitVec 32) (k : Nat) : x &&& (BitVec.allOnes 32 <<< k) = (x >>> k) <<< k := by
  ext i hi
  simp only [BitVec.getElem_and, BitVec.getElem_shiftLeft, BitVec.getElem_allOnes]
  by_cases h : i < k
  · simp [h]
  · have : k + (i - k) = i := by omega
    simp [h, this, BitVec.getLsbD_eq_getElem hi]

theorem shift_toNat (x : BitVec 32) (k : Nat) : ((x >>> k) <<< k).toNat = x.toNat / 2 ^ k * 2 ^ k := by
  rw [BitVec.toNat_shiftLeft, BitVec.toNat_ushiftRight, Nat.shiftRight_eq_div_pow, Nat.shiftLeft_eq]
  apply Nat.mod_eq_of_lt
  have := Nat.div_mul_le_self x.toNat (2 ^ k)
  omega

/-- masking with a prefix mask clears the low `32 - n` bits -/
theorem maskIP_toNat (x : IPv4) (n : Nat) : (maskIP x n).toNat = x.toNat / 2 ^ (32 - n) * 2 ^ (32 - n) := by
  unfold maskIP mask
  rw [and_mask_eq, shift_toNat]

theorem maskIP_idem (x : IPv4) (n : Nat) : maskIP (maskIP x n) n = maskIP x n := by
  unfold maskIP
  rw [BitVec.and_assoc, BitVec.and_self]

theorem maskCidr_idem (c : Cidr) : maskCidr (maskCidr c) = maskCidr c := by
  simp [maskCidr, maskIP_idem]

/-- `net.IPNet.Contains` for a prefix mask: same network number -/
theorem inSubnet_iff (g : IPv4) (n : Nat) (ip : IPv4) :
    inSubnet g n ip = true ↔ ip.toNat / 2 ^ (32 - n) = g.toNat / 2 ^ (32 - n) := by
  unfold inSubnet
  rw [beq_iff_eq]
  have hpos : 0 < 2 ^ (32 - n) := Nat.two_pow_pos _
  constructor
  · intro h
    have := congrArg BitVec.toNat h
    rw [maskIP_toNat, maskIP_toNat] at this
    exact Nat.eq_of_mul_eq_mul_right hpos this
  · intro h
    apply BitVec.eq_of_toNat_eq
    rw [maskIP_toNat, maskIP_toNat, h]

/-- a subnet is an interval: what lies between two of its addresses lies in it -/
theorem inSubnet_between (g : IPv4) (n : Nat) (a b x : IPv4) (ha : inSubnet g n a = true) (hb : inSubnet g n b = true)
    (h1 : a.toNat ≤ x.toNat) (h2 : x.toNat ≤ b.toNat) : inSubnet g n x = true := by
  rw [inSubnet_iff] at *
  have l1 := Nat.div_le_div_right (c := 2 ^ (32 - n)) h1
  have l2 := Nat.div_le_div_right (c := 2 ^ (32 - n)) h2
  omega

/-- the addresses of a subnet with network number `q` form the window `[q·K, q·K + K − 1]`, `K = 2^(32−n)` -/
theorem inSubnet_window (g : IPv4) (n : Nat) (ip : IPv4) (h : inSubnet g n ip = true) :
    g.toNat / 2 ^ (32 - n) * 2 ^ (32 - n) ≤ ip.toNat ∧
      ip.toNat ≤ g.toNat / 2 ^ (32 - n) * 2 ^ (32 - n) + (2 ^ (32 - n) - 1) := by
  rw [inSubnet_iff] at h
  have hpos : 0 < 2 ^ (32 - n) := Nat.two_pow_pos _
  rw [← h]
  have h1 := Nat.div_mul_le_self ip.toNat (2 ^ (32 - n))
  have h2 := Nat.mod_lt ip.toNat hpos
  have h3 := Nat.div_add_mod ip.toNat (2 ^ (32 - n))
  rw [Nat.mul_comm] at h3
  omega

/-! ### `fipCheck` -/

theorem fipCheckFrom_ok (inS : IPv4 → Bool) (rs : List Range) (hwf : ∀ r ∈ rs, r.first.toNat ≤ r.last.toNat) :
    ∀ prev, fipCheckFrom fipAdjReject inS prev rs = .ok () →
      (∀ r ∈ rs, inS r.first = true ∧ inS r.last = true) ∧
      (∀ pl, prev = some pl → ∀ r ∈ rs, pl.toNat + 1 < r.first.toNat) ∧ Separated rs := by
  induction rs with
  | nil => intro prev _; exact ⟨by simp, by simp, List.Pairwise.nil⟩
  | cons r rs ih =>
    intro prev h
    have hr := hwf r List.mem_cons_self
    have hwf' : ∀ r' ∈ rs, r'.first.toNat ≤ r'.last.toNat := fun r' hr' => hwf r' (List.mem_cons_of_mem _ hr')
    unfold fipCheckFrom at h
    split at h
    · cases h
    · rename_i hin
      simp only [Bool.or_eq_true, Bool.not_eq_true', not_or, Bool.not_eq_false] at hin
      have key : ∀ (hrest : fipCheckFrom fipAdjReject inS (some r.last) rs = .ok ())
          (hprev : ∀ pl, prev = some pl → pl.toNat + 1 < r.first.toNat),
          (∀ r' ∈ r :: rs, inS r'.first = true ∧ inS r'.last = true) ∧
          (∀ pl, prev = some pl → ∀ r' ∈ r :: rs, pl.toNat + 1 < r'.first.toNat) ∧ Separated (r :: rs) := by
        intro hrest hprev
        obtain ⟨i1, i2, i3⟩ := ih hwf' (some r.last) hrest
        have i2' := i2 r.last rfl
        refine ⟨?_, ?_, ?_⟩
        · intro r' hr'
          rcases List.mem_cons.mp hr' with rfl | hr'
          · exact hin
          · exact i1 r' hr'
        · intro pl hpl r' hr'
          have := hprev pl hpl
          rcases List.mem_cons.mp hr' with rfl | hr'
          · exact this
          · have := i2' r' hr'; omega
        · exact List.Pairwise.cons i2' i3
      split at h
      · rename_i pl
        split at h
        · cases h
        · rename_i hadj
          have hadj' : ¬ (r.first.toNat ≤ pl.toNat + 1) := by
            intro hle; exact hadj ((fipAdjReject_iff _ _).mpr hle)
          exact key h (fun pl' hpl' => by cases hpl'; omega)
      · exact key h (fun pl' hpl' => by cases hpl')

/-- conversely, separated ranges inside the subnet pass the check -/
theorem fipCheckFrom_of_separated (inS : IPv4 → Bool) (rs : List Range) :
    ∀ prev, (∀ r ∈ rs, inS r.first = true ∧ inS r.last = true) →
      (∀ pl, prev = some pl → ∀ r ∈ rs, pl.toNat + 1 < r.first.toNat) → Separated rs →
      fipCheckFrom fipAdjReject inS prev rs = .ok () := by
  induction rs with
  | nil => intro prev _ _ _; rfl
  | cons r rs ih =>
    intro prev hin hprev hsep
    unfold Separated at hsep
    rw [List.pairwise_cons] at hsep
    have h1 := hin r List.mem_cons_self
    have hrest := ih (some r.last) (fun r' hr' => hin r' (List.mem_cons_of_mem _ hr'))
      (fun pl hpl r' hr' => by cases hpl; exact hsep.1 r' hr') hsep.2
    unfold fipCheckFrom
    simp only [h1.1, h1.2, Bool.not_true, Bool.or_self, Bool.false_eq_true, if_false]
    cases prev with
    | none => exact hrest
    | some pl =>
      have := hprev pl rfl r List.mem_cons_self
      have hadj : fipAdjReject r.first pl = false := by
        rw [Bool.eq_false_iff]; intro h; rw [fipAdjReject_iff] at h; omega
      simp only [hadj, Bool.false_eq_true, if_false]
      exact hrest

/-! ### `allSome`, `dedup` -/

theorem allSome_map_some {α : Type} (l : List α) : allSome (l.map some) = some l := by
  induction l with
  | nil => rfl
  | cons a t ih => simp [allSome, ih]

theorem allSome_map_eq {α β : Type} (f : α → Option β) (g : β → α) (l : List β) (h : ∀ b ∈ l, f (g b) = some b) :
    allSome ((l.map g).map f) = some l := by
  induction l with
  | nil => rfl
  | cons b t ih =>
    simp only [List.map_cons, allSome, h b List.mem_cons_self]
    rw [ih (fun b' hb' => h b' (List.mem_cons_of_mem _ hb'))]

theorem allSome_map_mem {α β : Type} (f : α → Option β) (l : List α) (l' : List β) (h : allSome (l.map f) = some l') :
    ∀ b ∈ l', ∃ a ∈ l, f a = some b := by
  induction l generalizing l' with
  | nil => simp [allSome] at h; subst h; simp
  | cons a t ih =>
    simp only [List.map_cons] at h
    cases hfa : f a with
    | none => simp [allSome, hfa] at h
    | some b0 =>
      cases ht : allSome (t.map f) with
      | none => simp [allSome, hfa, ht] at h
      | some t' =>
        simp only [allSome, hfa, ht, Option.some.injEq] at h
        subst h
        intro b hb
        rcases List.mem_cons.mp hb with rfl | hb
        · exact ⟨a, List.mem_cons_self, hfa⟩
        · obtain ⟨a', ha', hf'⟩ := ih t' ht b hb
          exact ⟨a', List.mem_cons_of_mem _ ha', hf'⟩

theorem allSome_length {α : Type} (l : List (Option α)) (l' : List α) (h : allSome l = some l') : l'.length = l.length := by
  induction l generalizing l' with
  | nil => simp [allSome] at h; subst h; rfl
  | cons a t ih =>
    cases a with
    | none => simp [allSome] at h
    | some a =>
      cases ht : allSome t with
      | none => simp [allSome, ht] at h
      | some t' =>
        simp only [allSome, ht, Option.some.injEq] at h
        subst h
        simp [ih t' ht]

def dedupStep (acc : List Cidr) (x : Cidr) : List Cidr := if x ∈ acc then acc else acc ++ [x]

theorem dedup_eq (l : List Cidr) : dedup l = l.foldl dedupStep [] := rfl

theorem foldl_dedup_spec (l acc : List Cidr) (hacc : acc.Nodup) :
    (l.foldl dedupStep acc).Nodup ∧ (∀ x, x ∈ l.foldl dedupStep acc ↔ x ∈ acc ∨ x ∈ l) ∧
      (acc ≠ [] ∨ l ≠ [] → l.foldl dedupStep acc ≠ []) := by
  induction l generalizing acc with
  | nil => simp [hacc]
  | cons x xs ih =>
    simp only [List.foldl_cons]
    have hstep : (dedupStep acc x).Nodup := by
      unfold dedupStep
      split
      · exact hacc
      · rename_i hx
        rw [List.nodup_append]
        refine ⟨hacc, by simp, ?_⟩
        intro a ha b hb
        simp only [List.mem_singleton] at hb
        subst hb
        intro e; subst e; exact hx ha
    have hmem : ∀ y, y ∈ dedupStep acc x ↔ y ∈ acc ∨ y = x := by
      intro y
      unfold dedupStep
      split
      · rename_i hx
        constructor
        · exact Or.inl
        · rintro (h | rfl)
          · exact h
          · exact hx
      · simp
    have hne : dedupStep acc x ≠ [] := by
      intro e
      have := (hmem x).mpr (Or.inr rfl)
      rw [e] at this
      cases this
    obtain ⟨i1, i2, i3⟩ := ih (dedupStep acc x) hstep
    refine ⟨i1, ?_, fun _ => i3 (Or.inl hne)⟩
    intro y
    rw [i2 y, hmem y, List.mem_cons]
    constructor
    · rintro ((h | h) | h)
      · exact Or.inl h
      · exact Or.inr (Or.inl h)
      · exact Or.inr (Or.inr h)
    · rintro (h | h | h)
      · exact Or.inl (Or.inl h)
      · exact Or.inl (Or.inr h)
      · exact Or.inr h

theorem foldl_dedup_of_nodup (l acc : List Cidr) (h : (acc ++ l).Nodup) : l.foldl dedupStep acc = acc ++ l := by
  induction l generalizing acc with
  | nil => simp
  | cons x xs ih =>
    simp only [List.foldl_cons]
    have hx : x ∉ acc := by
      intro hx
      rw [List.nodup_append] at h
      exact h.2.2 x hx x List.mem_cons_self rfl
    have : dedupStep acc x = acc ++ [x] := by simp [dedupStep, hx]
    rw [this, ih (acc ++ [x]) (by simpa using h)]
    simp

theorem dedup_of_nodup (l : List Cidr) (h : l.Nodup) : dedup l = l := by
  rw [dedup_eq, foldl_dedup_of_nodup l [] (by simpa using h)]
  simp

/-! ### Accepted pools are valid -/

theorem jsonNodeSubnets_prefix_le (l : List (Option (List Char))) (l' : List (Option Cidr))
    (h : jsonNodeSubnets l = some l') : ∀ c, some c ∈ l' → c.2 ≤ 32 := by
  induction l generalizing l' with
  | nil => simp [jsonNodeSubnets] at h; subst h; simp
  | cons a t ih =>
    cases a with
    | none =>
      cases ht : jsonNodeSubnets t with
      | none => simp [jsonNodeSubnets, ht] at h
      | some t' =>
        simp only [jsonNodeSubnets, ht, Option.some.injEq] at h
        subst h
        intro c hc
        simp only [List.mem_cons, reduceCtorEq, false_or] at hc
        exact ih t' ht c hc
    | some tok =>
      cases hp : parseCidrToken tok with
      | none => simp [jsonNodeSubnets, hp] at h
      | some c0 =>
        cases ht : jsonNodeSubnets t with
        | none => simp [jsonNodeSubnets, hp, ht] at h
        | some t' =>
          simp only [jsonNodeSubnets, hp, ht, Option.some.injEq] at h
          subst h
          intro c hc
          rcases List.mem_cons.mp hc with e | hc
          · simp only [Option.some.injEq] at e
            subst e
            unfold parseCidrToken at hp
            split at hp
            · cases hp
            · exact parseCidr_prefix_le _ _ hp
          · exact ih t' ht c hc

theorem jsonCidrOpt_prefix_le (t : Option (List Char)) (c : Cidr) (h : jsonCidrOpt t = some (some c)) : c.2 ≤ 32 := by
  unfold jsonCidrOpt at h
  split at h
  · cases h
  · rename_i tok
    cases hp : parseCidrToken tok with
    | none => simp [hp] at h
    | some c0 =>
      simp only [hp, Option.some.injEq] at h
      subst h
      unfold parseCidrToken at hp
      split at hp
      · cases hp
      · exact parseCidr_prefix_le _ _ hp

/-- what `json.Unmarshal` into `FloatingIPPoolConf` guarantees about the decoded fields -/
structure Conf.Sane (c : Conf) : Prop where
  ns : ∀ x, some x ∈ c.nodeSubnets → x.2 ≤ 32
  rs : ∀ x, c.routableSubnet = some x → x.2 ≤ 32
  sn : ∀ x, c.subnet = some x → x.2 ≤ 32
  vlan : c.vlan < 2 ^ vlanBits

theorem jsonConf_sane (raw : RawPool) (c : Conf) (h : jsonConf raw = some c) : c.Sane := by
  unfold jsonConf at h
  split at h
  · rename_i ns rs ips sn gw vl h1 h2 h3 h4 h5 h6
    simp only [Option.some.injEq] at h
    subst h
    refine ⟨?_, ?_, ?_, ?_⟩
    · intro x hx
      unfold jsonNodeSubnetsFld at h1
      split at h1
      · simp only [Option.some.injEq] at h1; subst h1; cases hx
      · cases h1
      · exact jsonNodeSubnets_prefix_le _ _ h1 x hx
    · intro x hx
      have e : rs = some x := hx
      subst e
      exact jsonCidrOpt_prefix_le _ _ h2
    · intro x hx
      have e : sn = some x := hx
      subst e
      exact jsonCidrOpt_prefix_le _ _ h4
    · unfold jsonVlan at h6
      split at h6
      · simp only [Option.some.injEq] at h6; subst h6; exact Nat.two_pow_pos _
      · cases h6
      · split at h6
        · simp only [Option.some.injEq] at h6; subst h6; assumption
        · cases h6
  · cases h

theorem allSome_mem {α : Type} (l : List (Option α)) (l' : List α) (h : allSome l = some l') :
    ∀ a ∈ l', some a ∈ l := by
  have := allSome_map_mem (fun (x : Option α) => x) l l' (by simpa using h)
  intro a ha
  obtain ⟨x, hx, e⟩ := this a ha
  have e' : x = some a := e
  subst e'
  exact hx

theorem nodeSubnetsOf_valid (c : Conf) (hs : c.Sane) (ns : List Cidr) (h : nodeSubnetsOf c = .ok ns) :
    ns ≠ [] ∧ (∀ x ∈ ns, x.2 ≤ 32 ∧ maskCidr x = x) ∧ ns.Nodup := by
  unfold nodeSubnetsOf at h
  split at h
  · cases h
  · rename_i hne
    split at h
    · rename_i rs hrs
      simp only [Except.ok.injEq] at h
      subst h
      refine ⟨by simp, ?_, by simp⟩
      intro x hx
      simp only [List.mem_singleton] at hx
      subst hx
      exact ⟨hs.rs rs hrs, maskCidr_idem rs⟩
    · rename_i hrs
      split at h
      · cases h
      · rename_i l hl
        simp only [Except.ok.injEq] at h
        subst h
        rw [dedup_eq]
        obtain ⟨i1, i2, i3⟩ := foldl_dedup_spec (l.map maskCidr) [] List.nodup_nil
        have hlen := allSome_length _ _ hl
        have hlne : l ≠ [] := by
          intro e
          subst e
          simp only [List.length_nil] at hlen
          simp [hrs, ← hlen] at hne
        refine ⟨i3 (Or.inr (by simpa using hlne)), ?_, i1⟩
        intro x hx
        rw [i2 x] at hx
        simp only [List.not_mem_nil, false_or, List.mem_map] at hx
        obtain ⟨y, hy, rfl⟩ := hx
        exact ⟨hs.ns y (allSome_mem _ _ hl y hy), maskCidr_idem y⟩

theorem buildPool_valid (c : Conf) (hs : c.Sane) (p : Pool) (h : buildPool fipAdjReject c = .ok p) : p.Valid := by
  unfold buildPool at h
  split at h
  · cases h
  · rename_i ns hns
    split at h
    · cases h
    · rename_i gw hgw
      split at h
      · cases h
      · rename_i sn hsn
        split at h
        · cases h
        · rename_i ranges hranges
          split at h
          · cases h
          · rename_i hcheck
            simp only [Except.ok.injEq] at h
            subst h
            obtain ⟨n1, n2, n3⟩ := nodeSubnetsOf_valid c hs ns hns
            refine ⟨n1, n2, n3, hs.sn sn hsn, hs.vlan, ?_, hcheck⟩
            intro r hr
            obtain ⟨s, _, hs'⟩ := allSome_map_mem parseRange c.ips ranges hranges r hr
            exact parseRange_wf s r hs'

theorem decodePool_valid (raw : RawPool) (p : Pool) (h : decodePool raw = .ok p) : p.Valid := by
  unfold decodePool decodePoolWith at h
  split at h
  · cases h
  · rename_i c hc
    exact buildPool_valid c (jsonConf_sane raw c hc) p h

/-! ### Consequences of validity -/

theorem Pool.Valid.separated {p : Pool} (h : p.Valid) : Separated p.ranges :=
  (fipCheckFrom_ok _ p.ranges h.ranges_wf none h.check).2.2

theorem Pool.Valid.ends_in_subnet {p : Pool} (h : p.Valid) :
    ∀ r ∈ p.ranges, p.inSubnet r.first = true ∧ p.inSubnet r.last = true :=
  (fipCheckFrom_ok _ p.ranges h.ranges_wf none h.check).1

theorem Pool.Valid.range_in_subnet {p : Pool} (h : p.Valid) (r : Range) (hr : r ∈ p.ranges) (ip : IPv4)
    (hip : r.contains ip = true) : p.inSubnet ip = true := by
  obtain ⟨h1, h2⟩ := h.ends_in_subnet r hr
  rw [Range.contains_iff] at hip
  exact inSubnet_between p.gateway p.prefixLen r.first r.last ip h1 h2 hip.1 hip.2

/-- an accepted pool whose subnet is not 0.0.0.0/0 has fewer than 2^32 addresses (at most 2^31) -/
theorem Pool.Valid.card_lt {p : Pool} (h : p.Valid) (hp : p.prefixLen ≠ 0) :
    (enumerate p.ranges).length < 2 ^ 32 := by
  rw [length_enumerate]
  have hK : 2 ^ (32 - p.prefixLen) ≤ 2 ^ 31 := Nat.pow_le_pow_right (by decide) (by omega)
  have hpos : 0 < 2 ^ (32 - p.prefixLen) := Nat.two_pow_pos _
  have := card_sum_le p.ranges (p.gateway.toNat / 2 ^ (32 - p.prefixLen) * 2 ^ (32 - p.prefixLen))
    (p.gateway.toNat / 2 ^ (32 - p.prefixLen) * 2 ^ (32 - p.prefixLen) + (2 ^ (32 - p.prefixLen) - 1))
    h.separated h.ranges_wf (by
      intro r hr
      obtain ⟨h1, h2⟩ := h.ends_in_subnet r hr
      exact ⟨(inSubnet_window _ _ _ h1).1, (inSubnet_window _ _ _ h2).2⟩)
  omega

/-! ### Round trip -/

theorem parseCidrToken_cidrToken (c : Cidr) (h : c.2 ≤ 32) : parseCidrToken (cidrToken c) = some c := by
  unfold parseCidrToken cidrToken
  have hne : showCidr c ≠ [] := by
    unfold showCidr
    intro e
    exact showIPv4_ne_nil _ (List.append_eq_nil_iff.mp e).1
  have hlen : ¬ (('"' :: (showCidr c ++ ['"'])).length < 3) := by
    have : 0 < (showCidr c).length := List.length_pos_iff.mpr hne
    simp only [List.length_cons, List.length_append, List.length_nil]
    omega
  rw [if_neg hlen]
  simp only [List.drop_succ_cons, List.drop_zero, List.dropLast_concat]
  exact parseCidr_showCidr c h

theorem jsonNodeSubnets_encode (l : List Cidr) (h : ∀ c ∈ l, c.2 ≤ 32) :
    jsonNodeSubnets (l.map (fun c => some (cidrToken c))) = some (l.map some) := by
  induction l with
  | nil => rfl
  | cons c t ih =>
    simp only [List.map_cons, jsonNodeSubnets, parseCidrToken_cidrToken c (h c List.mem_cons_self),
      ih (fun c' hc' => h c' (List.mem_cons_of_mem _ hc'))]

theorem jsonIPs_encode (l : List Range) : jsonIPs (l.map (fun r => Fld.val (showRange r))) = some (l.map showRange) := by
  induction l with
  | nil => rfl
  | cons r t ih => simp only [List.map_cons, jsonIPs, ih]

/-- what `json.Unmarshal` makes of an encoded pool -/
def encodedConf (p : Pool) : Conf :=
  { nodeSubnets := p.nodeSubnets.map some, routableSubnet := none, ips := p.ranges.map showRange,
    subnet := some p.subnet, gateway := some p.gateway, vlan := p.vlan }

theorem jsonConf_encode (p : Pool) (h : p.Valid) : jsonConf (encodePool p) = some (encodedConf p) := by
  have hne : p.nodeSubnets.isEmpty = false := by
    cases hp : p.nodeSubnets with
    | nil => exact absurd hp h.ns_ne
    | cons _ _ => rfl
  have h1 : jsonNodeSubnetsFld (encodePool p).nodeSubnets = some (p.nodeSubnets.map some) := by
    simp only [encodePool, hne, Bool.false_eq_true, if_false, jsonNodeSubnetsFld]
    exact jsonNodeSubnets_encode _ (fun c hc => (h.ns_masked c hc).1)
  have h2 : jsonCidrOpt (encodePool p).routableSubnet = some none := rfl
  have h3 : jsonIPsFld (encodePool p).ips = some (p.ranges.map showRange) := by
    simp only [encodePool, jsonIPsFld]
    exact jsonIPs_encode _
  have h4 : jsonCidrOpt (encodePool p).subnet = some (some p.subnet) := by
    simp only [encodePool, jsonCidrOpt]
    rw [parseCidrToken_cidrToken p.subnet h.prefix_le]
  have h5 : jsonGateway (encodePool p).gateway = some (some p.gateway) := by
    simp only [encodePool]
    cases hs : showIPv4 p.gateway with
    | nil => exact absurd hs (showIPv4_ne_nil _)
    | cons c cs =>
      simp only [jsonGateway]
      rw [← hs, parseIPv4_showIPv4]
  have h6 : jsonVlan (encodePool p).vlan = some p.vlan := by
    simp only [encodePool]
    by_cases hv : p.vlan = 0
    · simp [hv, jsonVlan]
    · simp [hv, jsonVlan, h.vlan_lt]
  unfold jsonConf
  rw [h1, h2, h3, h4, h5, h6]
  rfl

theorem buildPool_encode (p : Pool) (h : p.Valid) : buildPool fipAdjReject (encodedConf p) = .ok p := by
  have hns : nodeSubnetsOf (encodedConf p) = .ok p.nodeSubnets := by
    unfold nodeSubnetsOf encodedConf
    have hlen : ¬ (p.nodeSubnets.map some).length = 0 := by
      simp only [List.length_map]
      intro e
      exact h.ns_ne (List.length_eq_zero_iff.mp e)
    simp only [Option.isNone_none, Bool.true_and, beq_iff_eq, hlen, if_false, allSome_map_some]
    have hm : p.nodeSubnets.map maskCidr = p.nodeSubnets := by
      have : ∀ l : List Cidr, (∀ c ∈ l, maskCidr c = c) → l.map maskCidr = l := by
        intro l hl
        induction l with
        | nil => rfl
        | cons a t ih => simp [hl a List.mem_cons_self, ih (fun c hc => hl c (List.mem_cons_of_mem _ hc))]
      exact this _ (fun c hc => (h.ns_masked c hc).2)
    rw [hm, dedup_of_nodup _ h.ns_nodup]
  have hr : allSome ((p.ranges.map showRange).map parseRange) = some p.ranges :=
    allSome_map_eq parseRange showRange p.ranges (fun r hr => parseRange_showRange r (h.ranges_wf r hr))
  unfold buildPool
  rw [hns]
  simp only [encodedConf, hr, Pool.subnet, h.check]

theorem decodePool_encodePool (p : Pool) (h : p.Valid) : decodePool (encodePool p) = .ok p := by
  unfold decodePool decodePoolWith
  rw [jsonConf_encode p h]
  exact buildPool_encode p h

/-! ### Whole configurations -/

theorem decodeEntries_valid (l : List RawEntry) (ops : List (Option Pool)) (ho : decodeEntries l = .ok ops) :
    ∀ p, some p ∈ ops → p.Valid := by
  induction l generalizing ops with
  | nil => intro p hp; simp [decodeEntries] at ho; subst ho; cases hp
  | cons e t ih =>
    intro p hp
    cases e with
    | null =>
      cases ht : decodeEntries t with
      | error e => simp [decodeEntries, ht] at ho
      | ok l' =>
        simp only [decodeEntries, ht, Except.ok.injEq] at ho
        subst ho
        simp only [List.mem_cons, reduceCtorEq, false_or] at hp
        exact ih l' ht p hp
    | notObject => simp [decodeEntries] at ho
    | obj r =>
      cases hr : decodePool r with
      | error e => simp [decodeEntries, hr] at ho
      | ok q =>
        cases ht : decodeEntries t with
        | error e => simp [decodeEntries, hr, ht] at ho
        | ok l' =>
          simp only [decodeEntries, hr, ht, Except.ok.injEq] at ho
          subst ho
          rcases List.mem_cons.mp hp with e | hp
          · simp only [Option.some.injEq] at e; subst e; exact decodePool_valid r p hr
          · exact ih l' ht p hp

theorem decodeConf_valid (conf : RawConf) (ps : List Pool) (h : decodeConf conf = .ok ps) : ∀ p ∈ ps, p.Valid := by
  intro p hp
  cases conf with
  | null => simp [decodeConf] at h; subst h; cases hp
  | notArray => simp [decodeConf] at h
  | arr l =>
    cases hl : decodeEntries l with
    | error e => simp [decodeConf, hl] at h
    | ok ops =>
      cases ha : allSome ops with
      | none => simp [decodeConf, hl, ha] at h
      | some l' =>
        simp only [decodeConf, hl, ha, Except.ok.injEq] at h
        subst h
        exact decodeEntries_valid l ops hl p (allSome_mem ops _ ha p hp)

/-! ### `ConfigurePool` sorts the pools by gateway -/

theorem insertPool_perm (p : Pool) (l : List Pool) : (insertPool p l).Perm (p :: l) := by
  induction l with
  | nil => exact List.Perm.refl _
  | cons q qs ih =>
    unfold insertPool
    split
    · exact ((List.Perm.cons q ih).trans (List.Perm.swap p q qs))
    · exact List.Perm.refl _

theorem sortPools_perm (l : List Pool) : (sortPools l).Perm l := by
  induction l with
  | nil => exact List.Perm.refl _
  | cons p ps ih =>
    show (insertPool p (sortPools ps)).Perm (p :: ps)
    exact (insertPool_perm p _).trans (List.Perm.cons p ih)

def SortedByGateway (l : List Pool) : Prop := l.Pairwise (fun a b => a.gateway.toNat ≤ b.gateway.toNat)

theorem insertPool_sorted (p : Pool) (l : List Pool) (h : SortedByGateway l) : SortedByGateway (insertPool p l) := by
  induction l with
  | nil => exact List.pairwise_singleton _ _
  | cons q qs ih =>
    unfold SortedByGateway at h
    rw [List.pairwise_cons] at h
    unfold insertPool
    split
    · rename_i hlt
      rw [poolLess_iff] at hlt
      unfold SortedByGateway
      rw [List.pairwise_cons]
      refine ⟨?_, ih h.2⟩
      intro a ha
      have := (insertPool_perm p qs).mem_iff.mp ha
      rcases List.mem_cons.mp this with rfl | hq
      · omega
      · exact h.1 a hq
    · rename_i hlt
      rw [poolLess_iff] at hlt
      unfold SortedByGateway
      rw [List.pairwise_cons]
      refine ⟨?_, List.pairwise_cons.mpr h⟩
      intro a ha
      rcases List.mem_cons.mp ha with rfl | hq
      · omega
      · have := h.1 a hq; omega

theorem sortPools_sorted (l : List Pool) : SortedByGateway (sortPools l) := by
  induction l with
  | nil => exact List.Pairwise.nil
  | cons p ps ih => exact insertPool_sorted p _ ih

end Galaxy.Pool
