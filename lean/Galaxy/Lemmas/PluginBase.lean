/-
  M4-core proofs, part 1: the vocabulary (frame, live bound pods, safe record changes, coherence of the three IPAM
  tables) and the behaviour of the store calls and memory updates.
-/
import Galaxy.Model.Plugin
import Galaxy.Lemmas.PluginTbl

namespace Galaxy.Plugin
open Galaxy

abbrev Pods := Tbl (String × String) Pod

/-- a pod of the table that was bound by the plugin and has not finished -/
def LiveBound (P : Pods) (q : Pod) : Prop := Tbl.get P q.id = some q ∧ q.finished = false ∧ q.handed ≠ []

/-- some live bound pod has this key, or it is the key of an administrator's reservation: the keys whose records no
    plugin action may change -/
def LiveKey (P : Pods) (k : Key) : Prop := (∃ q, LiveBound P q ∧ keyOf q = k) ∨ k.isAdmin = true

/-- a record that may appear.  (Since resync and Release check the whole key before acting, a record of another
    incarnation under a live bound pod's key is harmless: nothing is required of new records any more; the predicate
    is kept so that the statements built on it keep their shape.) -/
def NewOK (_P : Pods) (_r : Rec) : Prop := True

/-- a change of one address' record that cannot hurt a live bound pod -/
def SafeChange (P : Pods) (old new : Option Rec) : Prop :=
  (∀ r, old = some r → ¬ LiveKey P r.key) ∧ (∀ r, new = some r → NewOK P r)

/-- what no IPAM-level action touches -/
structure Frame (s s' : State) : Prop where
  pods : s'.pods = s.pods
  vPods : s'.vPods = s.vPods
  events : s'.events = s.events
  nextUid : s'.nextUid = s.nextUid
  pools : s'.pools = s.pools
  nodes : s'.nodes = s.nodes
  apps : s'.apps = s.apps
  vApps : s'.vApps = s.vApps
  poolObjs : s'.poolObjs = s.poolObjs
  vPoolObjs : s'.vPoolObjs = s.vPoolObjs
  provOn : s'.provOn = s.provOn
  fault : s'.fault = s.fault
  pfault : s'.pfault = s.pfault
  clock : s'.clock = s.clock
  callsMono : s.calls ≤ s'.calls
  admin : s'.admin = s.admin

theorem Frame.refl (s : State) : Frame s s :=
  ⟨rfl, rfl, rfl, rfl, rfl, rfl, rfl, rfl, rfl, rfl, rfl, rfl, rfl, rfl, Nat.le_refl _, rfl⟩

theorem Frame.trans {a b c : State} (h1 : Frame a b) (h2 : Frame b c) : Frame a c :=
  ⟨h2.pods.trans h1.pods, h2.vPods.trans h1.vPods, h2.events.trans h1.events, h2.nextUid.trans h1.nextUid,
   h2.pools.trans h1.pools, h2.nodes.trans h1.nodes, h2.apps.trans h1.apps, h2.vApps.trans h1.vApps,
   h2.poolObjs.trans h1.poolObjs, h2.vPoolObjs.trans h1.vPoolObjs, h2.provOn.trans h1.provOn,
   h2.fault.trans h1.fault, h2.pfault.trans h1.pfault, h2.clock.trans h1.clock, Nat.le_trans h1.callsMono h2.callsMono,
   h2.admin.trans h1.admin⟩

/-- `s'` came from `s` by IPAM-level actions none of which can hurt a live bound pod of `P` -/
structure Evolves (P : Pods) (s s' : State) : Prop where
  frame : Frame s s'
  recs : ∀ ip, Tbl.get s'.alloc ip = Tbl.get s.alloc ip ∨ SafeChange P (Tbl.get s.alloc ip) (Tbl.get s'.alloc ip)

theorem Evolves.refl (P : Pods) (s : State) : Evolves P s s := ⟨Frame.refl s, fun _ => Or.inl rfl⟩

theorem Evolves.trans {P : Pods} {a b c : State} (h1 : Evolves P a b) (h2 : Evolves P b c) : Evolves P a c := by
  refine ⟨h1.frame.trans h2.frame, fun ip => ?_⟩
  rcases h1.recs ip with e1 | c1 <;> rcases h2.recs ip with e2 | c2
  · exact Or.inl (e2.trans e1)
  · exact Or.inr (e1 ▸ c2)
  · exact Or.inr (e2 ▸ c1)
  · exact Or.inr ⟨c1.1, c2.2⟩

/-- only the record table matters for `Evolves` -/
theorem Evolves.of_alloc_eq {P : Pods} {s s' : State} (hf : Frame s s') (ha : s'.alloc = s.alloc) : Evolves P s s' :=
  ⟨hf, fun _ => Or.inl (by rw [ha])⟩

/-- the memory tables and the store are coherent (C05's `Agree`, as far as C04/C01 need it) -/
structure Coherent (s : State) : Prop where
  agree : ∀ ip, Tbl.get s.store ip = Tbl.get s.alloc ip
  disjoint : ∀ ip, ip ∈ s.free → Tbl.get s.alloc ip = none
  allocConf : ∀ ip r, Tbl.get s.alloc ip = some r → configured s.pools ip = true
  freeConf : ∀ ip, ip ∈ s.free → configured s.pools ip = true
  allocNodup : (Tbl.keys s.alloc).Nodup
  storeNodup : (Tbl.keys s.store).Nodup

/-- once the faulted call is behind us no later call fails -/
def FaultSpent (s : State) : Prop := s.fault = 0 ∨ s.fault ≤ s.calls

@[simp] theorem good_unbindChecksUID : Facts.good.unbindChecksUID = true := rfl
@[simp] theorem good_bindChecksUID : Facts.good.bindChecksUID = true := rfl
@[simp] theorem good_bindChecksListerUID : Facts.good.bindChecksListerUID = true := rfl
@[simp] theorem good_bindUidGuardCoversWholeKey : Facts.good.bindUidGuardCoversWholeKey = true := rfl
@[simp] theorem good_releaseRechecks : Facts.good.releaseRechecks = true := rfl
@[simp] theorem good_resyncRechecks : Facts.good.resyncRechecks = true := rfl
@[simp] theorem good_wholeKeyCheck : Facts.good.wholeKeyCheck = true := rfl
@[simp] theorem good_apiDoubleCheck : Facts.good.apiDoubleCheck = true := rfl
@[simp] theorem good_runningChecksUID : Facts.good.runningChecksUID = true := rfl

@[simp] theorem good_bindEnqueuesOnlyOnNotFound : Facts.good.bindEnqueuesOnlyOnNotFound = true := rfl
@[simp] theorem good_finishedChecksPhaseOnly : Facts.good.finishedChecksPhaseOnly = true := rfl
@[simp] theorem good_keyOwnedSkipsEmptyUid : Facts.good.keyOwnedSkipsEmptyUid = true := rfl

/-- with the facts of the current tree the code's `finished` is the phase test -/
@[simp] theorem codeFinished_good (p : Pod) : codeFinished Facts.good p = p.finished := by
  simp [codeFinished]

/-! ### the apiserver call counter -/

theorem api_calls_le (s : State) : s.calls ≤ s.api.1.calls := by
  simp only [State.api]
  split <;> omega

theorem api_frame (s : State) : Frame s s.api.1 := by
  refine ⟨rfl, rfl, rfl, rfl, rfl, rfl, rfl, rfl, rfl, rfl, rfl, rfl, rfl, rfl, api_calls_le s, rfl⟩

@[simp] theorem api_alloc (s : State) : s.api.1.alloc = s.alloc := rfl
@[simp] theorem api_free (s : State) : s.api.1.free = s.free := rfl
@[simp] theorem api_store (s : State) : s.api.1.store = s.store := rfl
@[simp] theorem api_pools (s : State) : s.api.1.pools = s.pools := rfl
@[simp] theorem api_fault (s : State) : s.api.1.fault = s.fault := rfl
@[simp] theorem api_crashMode (s : State) : s.api.1.crashMode = s.crashMode := rfl

/-- without a crash plan a call just counts -/
theorem api_calls (s : State) (h : s.crashMode = false) : s.api.1.calls = s.calls + 1 := by
  simp [State.api, h]

theorem api_ok_of_spent {s : State} (h : FaultSpent s) : s.api.2 = false := by
  unfold FaultSpent at h
  simp only [State.api, beq_eq_false_iff_ne, ne_eq]
  omega

/-- after the faulted call (no crash plan), or once the fault is behind us, no later call fails -/
theorem api_spent (s : State) (h : FaultSpent s ∨ (s.crashMode = false ∧ s.api.2 = true)) : FaultSpent s.api.1 := by
  unfold FaultSpent at *
  rcases h with h | ⟨hc, h⟩
  · have := api_calls_le s
    have hf : s.api.1.fault = s.fault := rfl
    rw [hf]; omega
  · have h1 := api_calls s hc
    have hf : s.api.1.fault = s.fault := rfl
    simp only [State.api, beq_iff_eq] at h
    rw [hf, h1]; omega

end Galaxy.Plugin
