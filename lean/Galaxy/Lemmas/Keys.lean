/-
  Helper lemmas for the key codec (C11): splitting / cutting / prefix stripping on character lists,
  the ASCII lower-casing, the app-type tables.
-/
import Galaxy.Model.Keys

namespace Galaxy.Keys
open Galaxy.Generated.Keys

/-! ### splitOn / cut / stripPrefix -/

theorem splitOn_ne_nil (c : Char) (s : Str) : splitOn c s ≠ [] := by
  induction s with
  | nil => simp [splitOn]
  | cons x xs ih =>
    unfold splitOn
    split
    · simp
    · split <;> simp

theorem splitOn_noSep {c : Char} {a : Str} (h : c ∉ a) : splitOn c a = [a] := by
  induction a with
  | nil => rfl
  | cons x xs ih =>
    have hx : x ≠ c := fun e => h (by simp [e])
    have hxs : c ∉ xs := fun m => h (List.mem_cons_of_mem _ m)
    simp [splitOn, hx, ih hxs]

theorem splitOn_append {c : Char} {a : Str} (b : Str) (h : c ∉ a) :
    splitOn c (a ++ c :: b) = a :: splitOn c b := by
  induction a with
  | nil => simp [splitOn]
  | cons x xs ih =>
    have hx : x ≠ c := fun e => h (by simp [e])
    have hxs : c ∉ xs := fun m => h (List.mem_cons_of_mem _ m)
    simp [splitOn, hx, ih hxs]

theorem cut_append {c : Char} {a : Str} (b : Str) (h : c ∉ a) : cut c (a ++ c :: b) = some (a, b) := by
  induction a with
  | nil => simp [cut]
  | cons x xs ih =>
    have hx : x ≠ c := fun e => h (by simp [e])
    have hxs : c ∉ xs := fun m => h (List.mem_cons_of_mem _ m)
    simp [cut, hx, ih hxs]

theorem cut_noSep {c : Char} {a : Str} (h : c ∉ a) : cut c a = none := by
  induction a with
  | nil => rfl
  | cons x xs ih =>
    have hx : x ≠ c := fun e => h (by simp [e])
    have hxs : c ∉ xs := fun m => h (List.mem_cons_of_mem _ m)
    simp [cut, hx, ih hxs]

theorem stripPrefix_append (p s : Str) : stripPrefix p (p ++ s) = some s := by
  induction p with
  | nil => cases s <;> rfl
  | cons a p ih => simp [stripPrefix, ih]

theorem stripPrefix_some {p s r : Str} (h : stripPrefix p s = some r) : s = p ++ r := by
  induction p generalizing s with
  | nil => cases s <;> simp_all [stripPrefix]
  | cons a p ih =>
    cases s with
    | nil => simp [stripPrefix] at h
    | cons b s =>
      by_cases hab : a = b
      · subst hab
        simp [stripPrefix] at h
        simp [ih h]
      · simp [stripPrefix, hab] at h

/-- the text before the first separator and the text after it are determined by the whole -/
theorem append_sep_inj {c : Char} {a a' r r' : Str} (ha : c ∉ a) (ha' : c ∉ a')
    (h : a ++ c :: r = a' ++ c :: r') : a = a' ∧ r = r' := by
  induction a generalizing a' with
  | nil =>
    cases a' with
    | nil => simpa using h
    | cons y ys =>
      simp at h
      exact absurd (by simp [h.1]) ha'
  | cons x xs ih =>
    cases a' with
    | nil =>
      simp at h
      exact absurd (by simp [h.1]) ha
    | cons y ys =>
      simp at h
      have hxs : c ∉ xs := fun m => ha (List.mem_cons_of_mem _ m)
      have hys : c ∉ ys := fun m => ha' (List.mem_cons_of_mem _ m)
      have := ih hxs hys h.2
      simp [h.1, this.1, this.2]

/-- a key whose first field is followed by a non-empty second field does not start with `stem ++ [c, c]` -/
theorem stripPrefix_double_sep_none {c n : Char} {stem body rest : Str} (hs : c ∉ stem) (hb : c ∉ body)
    (hn : n ≠ c) : stripPrefix (stem ++ [c, c]) (body ++ c :: n :: rest) = none := by
  cases h : stripPrefix (stem ++ [c, c]) (body ++ c :: n :: rest) with
  | none => rfl
  | some r =>
    have e := stripPrefix_some h
    have e' : body ++ c :: (n :: rest) = stem ++ c :: (c :: r) := by simpa using e
    have := (append_sep_inj hb hs e').2
    simp at this
    exact absurd this.1 hn

theorem beforeLast_subset {c : Char} {s r : Str} (h : beforeLast c s = some r) : ∀ x ∈ r, x ∈ s := by
  induction s generalizing r with
  | nil => simp [beforeLast] at h
  | cons y ys ih =>
    unfold beforeLast at h
    split at h
    · rename_i r' hr'
      cases h
      intro x hx
      rcases List.mem_cons.mp hx with e | m
      · simp [e]
      · exact List.mem_cons_of_mem _ (ih hr' x m)
    · split at h
      · cases h; intro x hx; cases hx
      · cases h

/-! ### lower-casing -/

theorem lookupChar_mem {t : List (Char × Char)} {c l : Char} (h : lookupChar t c = some l) :
    l ∈ t.map (·.2) := by
  induction t with
  | nil => simp [lookupChar] at h
  | cons p t ih =>
    obtain ⟨a, b⟩ := p
    by_cases e : a = c
    · simp [lookupChar, e] at h; simp [h]
    · simp [lookupChar, e] at h; simp [ih h]

theorem lookupChar_key {t : List (Char × Char)} {c l : Char} (h : lookupChar t c = some l) :
    c ∈ t.map (·.1) := by
  induction t with
  | nil => simp [lookupChar] at h
  | cons p t ih =>
    obtain ⟨a, b⟩ := p
    by_cases e : a = c
    · simp [e]
    · simp [lookupChar, e] at h; simp [ih h]

theorem lookupChar_none_of_not_key {t : List (Char × Char)} {c : Char} (h : c ∉ t.map (·.1)) :
    lookupChar t c = none := by
  cases e : lookupChar t c with
  | none => rfl
  | some l => exact absurd (lookupChar_key e) h

theorem lookupChar_ne_none_of_key {t : List (Char × Char)} {c : Char} (h : c ∈ t.map (·.1)) :
    lookupChar t c ≠ none := by
  induction t with
  | nil => simp at h
  | cons p t ih =>
    obtain ⟨a, b⟩ := p
    by_cases e : a = c
    · simp [lookupChar, e]
    · have : c ∈ t.map (·.1) := by
        simp at h
        rcases h with h | h
        · exact absurd h.symm e
        · simpa using h
      simp [lookupChar, e, ih this]

/-- lower-case letters are not keys of the case table -/
theorem caseTable_vals_not_keys : ∀ l ∈ caseTable.map (·.2), l ∉ caseTable.map (·.1) := by decide

theorem lowerChar_idem (c : Char) : lowerChar (lowerChar c) = lowerChar c := by
  unfold lowerChar
  cases e : lookupChar caseTable c with
  | none => simp [e]
  | some l =>
    have := lookupChar_none_of_not_key (caseTable_vals_not_keys l (lookupChar_mem e))
    simp [this]

/-- a character that is neither an upper-case letter's image nor changed by lower-casing: -/
theorem lowerChar_eq_iff_of_fixed {c d : Char} (hv : d ∉ caseTable.map (·.2)) (hk : d ∉ caseTable.map (·.1)) :
    lowerChar c = d ↔ c = d := by
  unfold lowerChar
  cases e : lookupChar caseTable c with
  | none => simp
  | some l =>
    have hl := lookupChar_mem e
    have hc := lookupChar_key e
    constructor
    · intro h; subst h; exact absurd hl hv
    · intro h; subst h; exact absurd hc hk

/-- an upper-case letter is never the result of lower-casing -/
theorem lowerChar_ne_upper {c d : Char} (hk : d ∈ caseTable.map (·.1)) : lowerChar c ≠ d := by
  unfold lowerChar
  cases e : lookupChar caseTable c with
  | none =>
    simp only
    intro h; subst h
    exact lookupChar_ne_none_of_key hk e
  | some l =>
    simp only
    intro h; subst h
    exact caseTable_vals_not_keys _ (lookupChar_mem e) hk

theorem lower_idem (s : Str) : lower (lower s) = lower s := by
  simp [lower, List.map_map, Function.comp_def, lowerChar_idem]

theorem lower_length (s : Str) : (lower s).length = s.length := by simp [lower]

theorem lower_eq_nil {s : Str} : lower s = [] ↔ s = [] := by simp [lower]

theorem sep_fixed : sep ∉ caseTable.map (·.2) ∧ sep ∉ caseTable.map (·.1) := by decide

theorem lower_noSep {s : Str} (h : sep ∉ s) : sep ∉ lower s := by
  intro m
  simp only [lower, List.mem_map] at m
  obtain ⟨c, hc, e⟩ := m
  have := (lowerChar_eq_iff_of_fixed sep_fixed.1 sep_fixed.2).mp e
  subst this
  exact h hc

/-- no lower-cased string contains an upper-case letter; in particular it is not `NULL` -/
theorem lower_ne_of_upper_head {s : Str} {d : Char} {r : Str} (hk : d ∈ caseTable.map (·.1)) :
    lower s ≠ d :: r := by
  cases s with
  | nil => simp [lower]
  | cons x xs =>
    simp only [lower, List.map_cons]
    intro h
    injection h with h1 _
    exact lowerChar_ne_upper hk h1

end Galaxy.Keys
