/-
  M4-core proofs, part 8: the inductive invariant of the plugin model, the side conditions under which it is
  inductive, and its preservation by the moves that do not run plugin code (API truth, informer, event loss).
-/
import Galaxy.Lemmas.PluginUnbind

namespace Galaxy.Plugin
open Galaxy

/-! ### names and keys -/

/-- namespace, pod name and owner name are non-empty (what the API server guarantees; '_' needs no mention here
    because the model's keys are structured) -/
def WFNames (q : Pod) : Prop := q.ns ≠ "" ∧ q.name ≠ "" ∧ (q.kind = .bare ∨ q.app ≠ "")

theorem noRefAppName_ne : Generated.Plugin.noRefAppName ≠ "" := by decide

theorem mkKey_eq (typ ns app pod pool : String) (h : app ≠ "") : mkKey typ ns app pod pool = ⟨pool, typ, ns, app, pod⟩ := by
  unfold mkKey
  simp [h]

theorem keyOf_fields (q : Pod) (h : WFNames q) : (keyOf q).ns = q.ns ∧ (keyOf q).pod = q.name := by
  unfold keyOf
  cases hk : q.kind with
  | bare => simp only []; rw [mkKey_eq _ _ _ _ _ noRefAppName_ne]; exact ⟨rfl, rfl⟩
  | sts =>
    have : q.app ≠ "" := by rcases h.2.2 with h | h; · rw [hk] at h; cases h
                            · exact h
    simp only []; rw [mkKey_eq _ _ _ _ _ this]; exact ⟨rfl, rfl⟩
  | dp =>
    have : q.app ≠ "" := by rcases h.2.2 with h | h; · rw [hk] at h; cases h
                            · exact h
    simp only []; rw [mkKey_eq _ _ _ _ _ this]; exact ⟨rfl, rfl⟩
  | other =>
    have : q.app ≠ "" := by rcases h.2.2 with h | h; · rw [hk] at h; cases h
                            · exact h
    simp only []; rw [mkKey_eq _ _ _ _ _ this]; exact ⟨rfl, rfl⟩

/-- `FormatKey` is injective on (namespace, name) -/
theorem keyOf_inj (q1 q2 : Pod) (h1 : WFNames q1) (h2 : WFNames q2) (h : keyOf q1 = keyOf q2) : q1.id = q2.id := by
  have a := keyOf_fields q1 h1
  have b := keyOf_fields q2 h2
  unfold Pod.id
  rw [← a.1, ← a.2, ← b.1, ← b.2, h]

theorem poolPrefix_pod (k : Key) : k.poolPrefix.pod = "" := by
  unfold Key.poolPrefix; split <;> rfl

/-- a pod's key is never a pool / deployment prefix -/
theorem keyOf_ne_poolPrefix (q : Pod) (h : WFNames q) (k : Key) : keyOf q ≠ k.poolPrefix := by
  intro e
  have := (keyOf_fields q h).2
  rw [e, poolPrefix_pod] at this
  exact h.2.1 this.symm

@[simp] theorem newPod_uid (u : Nat) (ns name : String) (kind : Kind) (app pool : String) (policy : Nat)
    (ranges : List (List (Nat × Nat))) (wants : Bool) : (newPod u ns name kind app pool policy ranges wants).uid = u := rfl

@[simp] theorem newPod_handed (u : Nat) (ns name : String) (kind : Kind) (app pool : String) (policy : Nat)
    (ranges : List (List (Nat × Nat))) (wants : Bool) : (newPod u ns name kind app pool policy ranges wants).handed = [] := rfl

/-! ### the invariant -/

structure Inv (s : State) : Prop where
  coh : Coherent s
  safe : Safe s.pods s
  podsWF : ∀ id q, Tbl.get s.pods id = some q → q.id = id ∧ q.uid ≠ 0 ∧ q.uid < s.nextUid ∧ WFNames q
  uidUniq : ∀ id1 id2 q1 q2, Tbl.get s.pods id1 = some q1 → Tbl.get s.pods id2 = some q2 → q1.uid = q2.uid → id1 = id2
  lister : ∀ id l, Tbl.get s.vPods id = some l → l.id = id ∧ l.uid ≠ 0 ∧ l.uid < s.nextUid ∧ WFNames l ∧
    ∀ id' q, Tbl.get s.pods id' = some q → q.uid = l.uid → id' = id ∧ keyOf q = keyOf l
  events : ∀ e, e ∈ s.events → e.pod.uid ≠ 0 ∧ e.pod.uid < s.nextUid ∧
    ∀ id q, Tbl.get s.pods id = some q → q.uid = e.pod.uid → q.finished = true
  listerLive : ∀ q, LiveBound s.pods q → ∀ l, Tbl.get s.vPods q.id = some l → l.uid = q.uid
  uidPos : 0 < s.nextUid
  podsNodup : (Tbl.keys s.pods).Nodup
  vPodsNodup : (Tbl.keys s.vPods).Nodup

/-- the part of the invariant that survives the loss of the process' memory: API truth is well formed and every live
    bound pod's addresses have their object in the store (its key, its uid, a configured address).  A restart rebuilds
    the full invariant from it (`inv_restart_of_pinv`). -/
structure PInv (s : State) : Prop where
  podsWF : ∀ id q, Tbl.get s.pods id = some q → q.id = id ∧ q.uid ≠ 0 ∧ q.uid < s.nextUid ∧ WFNames q
  uidUniq : ∀ id1 id2 q1 q2, Tbl.get s.pods id1 = some q1 → Tbl.get s.pods id2 = some q2 → q1.uid = q2.uid → id1 = id2
  uidPos : 0 < s.nextUid
  podsNodup : (Tbl.keys s.pods).Nodup
  storeOwn : ∀ q, LiveBound s.pods q → ∀ hd, hd ∈ q.handed →
    ∃ r, Tbl.get s.store hd.ip = some r ∧ r.key = keyOf q ∧ r.uid = q.uid ∧ configured s.pools hd.ip = true
  adminStore : ∀ ip r, Tbl.get s.admin ip = some r → Tbl.get s.store ip = some r ∧ r.key.isAdmin = true

theorem Inv.toPInv {s : State} (h : Inv s) : PInv s :=
  ⟨h.podsWF, h.uidUniq, h.uidPos, h.podsNodup, fun q hq hd hm => by
    obtain ⟨r, h1, h2, h3⟩ := h.safe.own q hq hd hm
    exact ⟨r, by rw [h.coh.agree]; exact h1, h2, h3, h.coh.allocConf _ r h1⟩,
   fun ip r hr => ⟨by rw [h.coh.agree]; exact (h.safe.admin ip r hr).1, (h.safe.admin ip r hr).2⟩⟩

/-- the side conditions of the moves (decidable, evaluated in the state the move starts from) - the scope the
    property itself states:
    * `createPod`: non-empty namespace, pod name and owner name (what the API server guarantees);
    * `bind`: the request carries the pod UID (`args.PodUID`, the scheduler always sends it);
    * `apiRelease`: the request does not name an administrator's reservation (the HTTP handler always builds a key with
      an application-type prefix, `api.go` ReleaseIPs; a reservation's key has none);
    * `reload`: the new configuration still contains the addresses of the live bound pods ("no configuration reload
      that still contains the IP" is the property's own quantifier). -/
def assumed (s : State) : Move → Bool
  | .createPod ns name kind app _ _ _ _ => ns ≠ "" && name ≠ "" && (kind == .bare || app ≠ "")
  | .bind _ _ uid _ _ _ _ => uid != 0
  | .apiRelease _ k _ _ => !k.isAdmin
  | .reload pools _ =>
    s.pods.all (fun e => e.2.finished || e.2.handed.all (fun h => configured pools h.ip))
  | _ => true

/-- all side conditions along a history -/
def allAssumed (F : Facts) : State → List Move → Bool
  | _, [] => true
  | s, m :: ms => assumed s m && allAssumed F (next F s m) ms

/-! ### live bound pods under changes of the pod table -/

theorem liveBound_of_set_ne {P : Pods} {id : String × String} {p q : Pod} (h : LiveBound (Tbl.set P id p) q)
    (hne : q.id ≠ id) : LiveBound P q := by
  obtain ⟨h1, h2, h3⟩ := h
  rw [Tbl.get_set_ne _ _ (Ne.symm hne)] at h1
  exact ⟨h1, h2, h3⟩

theorem liveBound_of_erase {P : Pods} {id : String × String} {q : Pod} (h : LiveBound (Tbl.erase P id) q) :
    LiveBound P q := by
  obtain ⟨h1, h2, h3⟩ := h
  by_cases hne : id = q.id
  · rw [hne] at h1; simp at h1
  · rw [Tbl.get_erase_ne _ hne] at h1
    exact ⟨h1, h2, h3⟩

theorem liveBound_set_self {P : Pods} {id : String × String} {p q : Pod} (h : LiveBound (Tbl.set P id p) q)
    (he : q.id = id) : q = p := by
  obtain ⟨h1, _, _⟩ := h
  rw [he] at h1; simp at h1; exact h1.symm

/-- shrinking the set of live bound pods keeps the records safe -/
theorem Safe.anti {P P' : Pods} {s : State} (h : Safe P s) (hsub : ∀ q, LiveBound P' q → LiveBound P q) : Safe P' s :=
  ⟨fun q hq => h.own q (hsub q hq), h.admin⟩

theorem Safe.of_alloc_eq {P : Pods} {s s' : State} (h : Safe P s) (ha : s'.alloc = s.alloc)
    (hadm : s'.admin = s.admin := by rfl) : Safe P s' :=
  ⟨fun q hq hd hm => by rw [ha]; exact h.own q hq hd hm, fun ip r hr => by rw [ha]; rw [hadm] at hr; exact h.admin ip r hr⟩

end Galaxy.Plugin
