/-
  Basic lemmas of the M3 model: the store primitives under a plan, the cache updates, walks.
-/
import Galaxy.Lemmas.IpamSpec

namespace Galaxy.Ipam
open Tbl

/-! ## store primitives: clean failure / success / crash -/

theorem sCreate_cases (pl : Plan) (n : Nat) (st : Store) (ip : IP) (r : Rec) :
    (∃ e, e ≠ Err.crashed ∧ sCreate pl n st ip r = (st, some e) ∧
        ((e = .injected ∧ pl.failsAt n = true) ∨ (e = .exists_ ∧ ∃ r0, st.get ip = some r0))) ∨
    (st.get ip = none ∧ sCreate pl n st ip r = (st.set ip r, none)) ∨
    (∃ st', sCreate pl n st ip r = (st', some .crashed)) := by
  unfold sCreate
  split
  · exact Or.inr (Or.inr ⟨_, rfl⟩)
  split
  · next h => exact Or.inl ⟨.injected, by decide, rfl, Or.inl ⟨rfl, h⟩⟩
  split
  · next r0 h => exact Or.inl ⟨.exists_, by decide, rfl, Or.inr ⟨rfl, r0, h⟩⟩
  · next h =>
    split
    · exact Or.inr (Or.inr ⟨_, rfl⟩)
    · exact Or.inr (Or.inl ⟨h, rfl⟩)

theorem sDelete_cases (pl : Plan) (n : Nat) (st : Store) (ip : IP) :
    (∃ e, e ≠ Err.crashed ∧ sDelete pl n st ip = (st, some e) ∧
        ((e = .injected ∧ pl.failsAt n = true) ∨ (e = .notFound ∧ st.get ip = none))) ∨
    ((∃ r0, st.get ip = some r0) ∧ sDelete pl n st ip = (st.erase ip, none)) ∨
    (∃ st', sDelete pl n st ip = (st', some .crashed)) := by
  unfold sDelete
  split
  · exact Or.inr (Or.inr ⟨_, rfl⟩)
  split
  · next h => exact Or.inl ⟨.injected, by decide, rfl, Or.inl ⟨rfl, h⟩⟩
  split
  · next h => exact Or.inl ⟨.notFound, by decide, rfl, Or.inr ⟨rfl, h⟩⟩
  · next r0 h =>
    split
    · exact Or.inr (Or.inr ⟨_, rfl⟩)
    · exact Or.inr (Or.inl ⟨⟨r0, h⟩, rfl⟩)

theorem sGetUpdate_cases (pl : Plan) (n : Nat) (st : Store) (ip : IP) (f : Rec → Rec) :
    (∃ e, e ≠ Err.crashed ∧ sGetUpdate pl n st ip f = (st, some e)) ∨
    (∃ r0, st.get ip = some r0 ∧ sGetUpdate pl n st ip f = (st.set ip (f r0), none)) ∨
    (∃ st', sGetUpdate pl n st ip f = (st', some .crashed)) := by
  unfold sGetUpdate sGet sUpdate
  split
  · next e h =>
    -- the get failed (or crashed)
    by_cases hc : e = .crashed
    · subst hc; exact Or.inr (Or.inr ⟨_, rfl⟩)
    · exact Or.inl ⟨e, hc, rfl⟩
  · next h =>
    split
    · exact Or.inr (Or.inr ⟨_, rfl⟩)
    split
    · exact Or.inl ⟨.injected, by decide, rfl⟩
    split
    · exact Or.inl ⟨.notFound, by decide, rfl⟩
    · next r0 h0 =>
      split
      · exact Or.inr (Or.inr ⟨_, rfl⟩)
      · exact Or.inr (Or.inl ⟨r0, h0, rfl⟩)

/-! ## optEq / recEq -/

theorem recEq_refl (a : Rec) : recEq a a := ⟨rfl, rfl, rfl, rfl, rfl⟩

theorem optEq_refl (a : Option Rec) : optEq a a := by
  cases a <;> simp [optEq, recEq_refl]

theorem optEq_none_left {b : Option Rec} (h : optEq none b) : b = none := by
  cases b <;> simp_all [optEq]

theorem optEq_none_right {a : Option Rec} (h : optEq a none) : a = none := by
  cases a <;> simp_all [optEq]

theorem optEq_assign {r r0 : Rec} (h : optEq (some r) (some r0)) (k : String) (a : Attr) (now : Nat) :
    optEq (some (assignRec k a now r)) (some (assignRec k a now r0)) := by
  simp only [optEq, recEq, assignRec] at *
  simp [h.2.2.2.2]

/-! ## pending -/

theorem isPending_mono {s s' : State} {ip : IP} (h : ∀ e, e ∈ s.pending → e ∈ s'.pending) :
    isPending s ip → isPending s' ip := by
  rintro ⟨e, he, hip⟩; exact ⟨e, h e he, hip⟩

/-! ## walks -/

theorem mem_walk {rs : List Range} {ip : IP} : ip ∈ walk rs ↔ ∃ r ∈ rs, r.first ≤ ip ∧ ip ≤ r.last := by
  unfold walk
  simp only [List.mem_flatMap, List.mem_range'_1]
  have f1 : ∀ (a b c : Nat), a < b + (c + 1 - b) → b ≤ a → a ≤ c := by intros; omega
  have f2 : ∀ (a b c : Nat), b ≤ a → a ≤ c → a < b + (c + 1 - b) := by intros; omega
  constructor
  · rintro ⟨r, hr, h1, h2⟩; exact ⟨r, hr, h1, f1 _ _ _ h2 h1⟩
  · rintro ⟨r, hr, h1, h2⟩; exact ⟨r, hr, h1, f2 _ _ _ h1 h2⟩

theorem find?_unique {α : Type} {p : α → Bool} {l : List α} {a : α}
    (hmem : a ∈ l) (hp : p a = true) (huniq : ∀ x ∈ l, p x = true → x = a) : l.find? p = some a := by
  induction l with
  | nil => simp at hmem
  | cons b t ih =>
    by_cases hb : p b = true
    · have : b = a := huniq b (by simp) hb
      subst this
      simp [List.find?, hp]
    · have hb' : p b = false := by simpa using hb
      have hne : a ≠ b := by intro h; subst h; simp [hp] at hb'
      have hmem' : a ∈ t := by
        rcases List.mem_cons.mp hmem with h | h
        · exact absurd h hne
        · exact h
      simp only [List.find?, hb']
      exact ih hmem' (fun x hx => huniq x (List.mem_cons_of_mem _ hx))

/-! ## cache updates and `MemOK` -/

theorem memOK_store {s : State} (h : MemOK s) (st : Store) : MemOK { s with store := st } :=
  ⟨h.free_iff, h.alloc_conf⟩

theorem memOK_memAlloc {s : State} (h : MemOK s) {ip : IP} (r : Rec) (hin : ip ∈ s.free) : MemOK (memAlloc s ip r) := by
  have hc := (h.free_iff ip).mp hin
  constructor
  · intro j
    simp only [memAlloc, List.mem_filter]
    by_cases hj : j = ip
    · subst hj; simp
    · have hne : ip ≠ j := fun e => hj e.symm
      simp [hj, Tbl.get_set_ne _ _ hne, h.free_iff j]
  · intro j r' hg
    simp only [memAlloc] at hg ⊢
    by_cases hj : j = ip
    · subst hj; exact hc.1
    · have hne : ip ≠ j := fun e => hj e.symm
      rw [Tbl.get_set_ne _ _ hne] at hg
      exact h.alloc_conf j r' hg

theorem memOK_memFree {s : State} (h : MemOK s) {ip : IP} {r : Rec} (hal : s.alloc.get ip = some r) : MemOK (memFree s ip) := by
  have hc := h.alloc_conf ip r hal
  constructor
  · intro j
    simp only [memFree, List.mem_cons, List.mem_filter]
    by_cases hj : j = ip
    · subst hj; simp [hc]
    · have hne : ip ≠ j := fun e => hj e.symm
      simp [hj, Tbl.get_erase_ne _ hne, h.free_iff j]
  · intro j r' hg
    simp only [memFree] at hg ⊢
    by_cases hj : j = ip
    · subst hj; simp at hg
    · have hne : ip ≠ j := fun e => hj e.symm
      rw [Tbl.get_erase_ne _ hne] at hg
      exact h.alloc_conf j r' hg

theorem memOK_setAlloc {s : State} (h : MemOK s) {ip : IP} {r : Rec} (hal : s.alloc.get ip = some r) (r' : Rec) :
    MemOK { s with alloc := s.alloc.set ip r' } := by
  constructor
  · intro j
    by_cases hj : j = ip
    · subst hj; simp [h.free_iff j, hal]
    · have hne : ip ≠ j := fun e => hj e.symm
      simp [Tbl.get_set_ne _ _ hne, h.free_iff j]
  · intro j r'' hg
    by_cases hj : j = ip
    · subst hj; exact h.alloc_conf j r hal
    · have hne : ip ≠ j := fun e => hj e.symm
      simp only [Tbl.get_set_ne _ _ hne] at hg
      exact h.alloc_conf j r'' hg

end Galaxy.Ipam
