/-
  Lift of the per-mutator lemmas to `Op.run`, `step` and all reachable states; restart reconstruction.
-/
import Galaxy.Lemmas.IpamConf

namespace Galaxy.Ipam
open Tbl

theorem fact_listUnderLock : Generated.Ipam.configurePoolListsUnderLock = true := rfl
theorem fact_specificAtomic : Generated.Ipam.allocateSpecificAtomic = true := rfl

theorem run_configure (s : State) (pools : List Pool) (order : List IP) (pl : Plan) :
    (Op.configure pools order pl).run s = configurePool s pools order pl := by
  simp only [Op.run, configurePoolSched, fact_listUnderLock, if_true]

theorem run_allocSpecific (s : State) (key : String) (ip : IP) (a : Attr) (pl : Plan) :
    (Op.allocSpecific key ip a pl).run s = allocateSpecific s key ip a pl := by
  simp only [Op.run, allocateSpecificSched, fact_specificAtomic, if_true]

theorem optEq_symm {a b : Option Rec} (h : optEq a b) : optEq b a := by
  cases a <;> cases b <;> simp_all [optEq, recEq]

/-! ## `MemOK` is preserved by every move -/

theorem memOK_run {s : State} (h : MemOK s) (op : Op) (hadm : op.admissible s = true) : MemOK (op.run s).1 := by
  cases op with
  | configure pools order pl => rw [run_configure]; exact memOK_configurePool h _ _ _
  | allocSpecific key ip a pl => rw [run_allocSpecific]; exact memOK_allocateSpecific h _ _ _ _
  | allocSubnet key subnet a choice pl =>
    simp only [Op.admissible] at hadm
    exact memOK_allocateInSubnet h key subnet a choice pl hadm
  | allocWithKey old new subnet a choice pl => exact memOK_allocateInSubnetWithKey h old new subnet a choice pl
  | allocRanges key subnet ranges a choice pl =>
    simp only [Op.admissible, Bool.or_eq_true, bne_iff_ne, ne_eq] at hadm
    refine memOK_allocateInSubnetsAndRanges h key subnet ranges a choice pl ?_
    intro hr
    rcases hadm with h1 | h1
    · exact absurd hr h1
    · exact h1
  | reserve old new a order pl => exact memOK_reserveLoop _ _ _ _ _ _ _ _ _ h
  | updateAttr key ip a pl => exact memOK_updateAttr h _ _ _ _
  | release key ip pl => exact memOK_release h _ _ _
  | releaseIPs req pl => exact memOK_releaseIPs h _ _
  | adminReserve ip key policy =>
    simp only [Op.run, adminCreateReserved]
    split
    · exact h
    · exact memOK_store h _
  | adminUnreserve ip =>
    simp only [Op.run, adminDeleteReserved]
    split
    · split
      · exact memOK_store h _
      · exact h
    · exact h
  | deliver => exact memOK_deliver h
  | restart => exact memOK_restart s

theorem memOK_afterCrash {s : State} (h : MemOK s) (op : Op) (hadm : op.admissible s = true) :
    MemOK (afterCrash (op.run s)) := by
  unfold afterCrash
  split
  · exact memOK_restart _
  · exact memOK_run h op hadm

theorem memOK_step {s : State} (h : MemOK s) (op : Op) (hadm : op.admissible s = true) : MemOK (step s op).1 := by
  have := memOK_afterCrash h op hadm
  exact ⟨this.free_iff, this.alloc_conf⟩

theorem memOK_init : MemOK init := by
  constructor
  · intro ip; simp [init, configured]
  · intro ip r hg; simp [init] at hg

theorem memOK_reachAny {s : State} (h : ReachAny s) : MemOK s := by
  induction h with
  | init => exact memOK_init
  | step op _ hadm ih => exact memOK_step ih op hadm

/-! ## `Sync` up to the watch events the move itself causes -/

def SyncUpTo (evs : List Event) (s : State) : Prop :=
  ∀ ip, configured s.pools ip = true →
    isPending s ip ∨ optEq (s.alloc.get ip) (s.store.get ip) ∨ ∃ e ∈ evs, e.ip = ip

theorem syncUpTo_of_sync {s : State} (h : Sync s) (evs : List Event) : SyncUpTo evs s := by
  intro ip hc
  rcases h ip hc with h1 | h1
  · exact Or.inl h1
  · exact Or.inr (Or.inl h1)

theorem sync_run {s : State} (h : Agree s) (op : Op) (hadm : op.admissible s = true) (hok : StepOK s op)
    (hne : (op.run s).2.err ≠ some .crashed) : SyncUpTo (storeEvents s.store (op.run s).1.store) (op.run s).1 := by
  cases op with
  | configure pools order pl =>
    simp only [Op.admissible] at hadm
    rw [run_configure] at hne ⊢
    exact syncUpTo_of_sync (sync_configurePool h.sync _ _ _ hadm hne) _
  | allocSpecific key ip a pl =>
    rw [run_allocSpecific] at hne ⊢
    exact syncUpTo_of_sync (sync_allocateSpecific h.sync _ _ _ _ hne) _
  | allocSubnet key subnet a choice pl => exact syncUpTo_of_sync (sync_allocateInSubnet h.sync key subnet a choice pl hne) _
  | allocWithKey old new subnet a choice pl => exact syncUpTo_of_sync (sync_allocateInSubnetWithKey h.sync old new subnet a choice pl hne) _
  | allocRanges key subnet ranges a choice pl =>
    exact syncUpTo_of_sync (sync_allocateInSubnetsAndRanges h key subnet ranges a choice pl hne) _
  | reserve old new a order pl => exact syncUpTo_of_sync (sync_reserveLoop _ _ _ _ _ _ _ _ _ h.sync hne) _
  | updateAttr key ip a pl => exact syncUpTo_of_sync (sync_updateAttr h.sync _ _ _ _ hne) _
  | release key ip pl => exact syncUpTo_of_sync (sync_release h.sync _ _ _ hne) _
  | releaseIPs req pl => exact syncUpTo_of_sync (sync_releaseIPs h.sync _ _ hne) _
  | adminReserve ip key policy =>
    simp only [Op.run, adminCreateReserved]
    cases hst : s.store.get ip with
    | some r => simp only; exact syncUpTo_of_sync h.sync _
    | none =>
      simp only
      intro j hc
      by_cases hj : j = ip
      · subst hj
        right; right
        exact ⟨_, storeEvents_appear hst (Tbl.get_set_self _ _ _) rfl, rfl⟩
      · have hne' : ip ≠ j := fun e => hj e.symm
        rcases h.sync j hc with h1 | h1
        · exact Or.inl h1
        · right; left; simpa [Tbl.get_set_ne _ _ hne'] using h1
  | adminUnreserve ip =>
    simp only [Op.run, adminDeleteReserved]
    cases hst : s.store.get ip with
    | none => simp only; exact syncUpTo_of_sync h.sync _
    | some r =>
      simp only
      by_cases hr : r.reserved = true
      · rw [if_pos hr]
        intro j hc
        by_cases hj : j = ip
        · subst hj
          right; right
          exact ⟨_, storeEvents_vanish hst (Tbl.get_erase_self _ _) hr, rfl⟩
        · have hne' : ip ≠ j := fun e => hj e.symm
          rcases h.sync j hc with h1 | h1
          · exact Or.inl h1
          · right; left; simpa [Tbl.get_erase_ne _ hne'] using h1
      · rw [if_neg hr]; exact syncUpTo_of_sync h.sync _
  | deliver => exact syncUpTo_of_sync (sync_deliver h hok) _
  | restart => exact syncUpTo_of_sync (agree_restart s).sync _

/-- C05 at the level of one move: every admissible move satisfying the side conditions preserves `Agree`,
    whatever the fault / crash plan -/
theorem agree_step {s : State} (h : Agree s) (op : Op) (hadm : op.admissible s = true) (hok : StepOK s op) :
    Agree (step s op).1 := by
  refine ⟨memOK_step h.mem op hadm, ?_⟩
  intro ip hc
  have hc' : configured (afterCrash (op.run s)).pools ip = true := hc
  show isPending (step s op).1 ip ∨ optEq ((afterCrash (op.run s)).alloc.get ip) ((afterCrash (op.run s)).store.get ip)
  have hpend : ∀ e, e ∈ (afterCrash (op.run s)).pending ++ storeEvents s.store (afterCrash (op.run s)).store →
      e ∈ (step s op).1.pending := fun e he => he
  unfold afterCrash at hc' hpend ⊢
  by_cases hcr : (op.run s).2.err = some .crashed
  · rw [if_pos hcr] at hc' hpend ⊢
    rcases (agree_restart (op.run s).1).sync ip hc' with ⟨e, he, hip⟩ | h1
    · exact Or.inl ⟨e, hpend e (List.mem_append_left _ he), hip⟩
    · exact Or.inr h1
  · rw [if_neg hcr] at hc' hpend ⊢
    rcases sync_run h op hadm hok hcr ip hc' with ⟨e, he, hip⟩ | h1 | ⟨e, he, hip⟩
    · exact Or.inl ⟨e, hpend e (List.mem_append_left _ he), hip⟩
    · exact Or.inr h1
    · exact Or.inl ⟨e, hpend e (List.mem_append_right _ he), hip⟩

theorem agree_init' : Agree init := by
  refine ⟨memOK_init, ?_⟩
  intro ip hc
  simp [init, configured] at hc

theorem reachAny_of_reach {s : State} (h : Reach s) : ReachAny s := by
  induction h with
  | init => exact ReachAny.init
  | step op _ hadm _ ih => exact ReachAny.step op ih hadm

/-! ## restart reconstructs -/

theorem restart_reconstructs' {s : State} (h : Agree s) (ip : IP) (hnp : ¬ isPending s ip) :
    optEq ((restart s).alloc.get ip) (s.alloc.get ip) ∧ (ip ∈ (restart s).free ↔ ip ∈ s.free) := by
  have hal := restart_alloc_get s ip
  by_cases hc : configured s.pools ip = true
  · rw [if_pos hc] at hal
    have hsync : optEq (s.alloc.get ip) (s.store.get ip) := by
      rcases h.sync ip hc with h1 | h1
      · exact absurd h1 hnp
      · exact h1
    refine ⟨by rw [hal]; exact optEq_symm hsync, ?_⟩
    rw [(memOK_restart s).free_iff ip, h.mem.free_iff ip, restart_pools, hal]
    constructor
    · rintro ⟨_, h2⟩; rw [h2] at hsync; exact ⟨hc, optEq_none_right hsync⟩
    · rintro ⟨_, h2⟩; rw [h2] at hsync; exact ⟨hc, optEq_none_left hsync⟩
  · rw [if_neg hc] at hal
    have hnone : s.alloc.get ip = none := by
      cases hg : s.alloc.get ip with
      | none => rfl
      | some r => exact absurd (h.mem.alloc_conf ip r hg) hc
    refine ⟨by rw [hal, hnone]; trivial, ?_⟩
    rw [(memOK_restart s).free_iff ip, h.mem.free_iff ip, restart_pools]
    simp [hc]

theorem freeUnstored_of_agree {s : State} (h : Agree s) (hp : s.pending = []) : FreeUnstored s := by
  intro ip hin
  have hf := (h.mem.free_iff ip).mp hin
  rcases h.sync ip hf.1 with ⟨e, he, _⟩ | h1
  · rw [hp] at he; simp at he
  · rw [hf.2] at h1; exact optEq_none_left h1

end Galaxy.Ipam
