/-
  Lemmas about the synchronisation part of model M7 (C15), part 1: the frame property
  "chains, rules and sets galaxy does not own are never modified".
-/
import Galaxy.Lemmas.PolicyWalk

namespace Galaxy.Policy

/-! ### basic table facts -/

theorem get_map_upd (t : Table) (c c' : Chain) (rs : List PRule) :
    Tbl.get (t.map (fun kv => if kv.1 = c then (kv.1, rs) else kv)) c' =
      if c' = c then (Tbl.get t c).map (fun _ => rs) else Tbl.get t c' := by
  induction t with
  | nil => by_cases h : c' = c <;> simp [Tbl.get, h]
  | cons x t ih =>
    obtain ⟨k, v⟩ := x
    by_cases h1 : k = c <;> by_cases h2 : c' = c
    · subst h1; subst h2; simp [Tbl.get]
    · subst h1
      have : ¬ k = c' := fun e => h2 e.symm
      simp [Tbl.get, this, ih, h2]
    · subst h2
      simp [Tbl.get, h1, ih]
    · by_cases h3 : k = c'
      · simp [Tbl.get, h1, h3, h2]
      · simp [Tbl.get, h1, h3, ih, h2]

theorem get_setChain (t : Table) (c c' : Chain) (rs : List PRule) :
    Tbl.get (setChain t c rs) c' = if c' = c then some rs else Tbl.get t c' := by
  unfold setChain chainExists
  cases h : Tbl.get t c with
  | none =>
    simp only [Option.isSome_none, Bool.false_eq_true, if_false]
    rw [get_append]
    by_cases e : c' = c
    · subst e; simp [h, Tbl.get]
    · have : ¬ c = c' := fun x => e x.symm
      cases Tbl.get t c' <;> simp [Tbl.get, e, this]
  | some v =>
    simp only [Option.isSome_some, if_true]
    rw [get_map_upd]
    by_cases e : c' = c <;> simp [e, h]

/-! ### what is foreign -/

def Chain.isGlx : Chain → Bool
  | .glxIngress | .glxEgress | .pod _ | .plcy _ => true
  | _ => false

/-- the rules of a chain that are not one of the four documented base jumps -/
def foreignRules (c : Chain) (rs : List PRule) : List PRule := rs.filter (fun r => !(glxBaseRules.contains (c, r)))

/-- frame relation: every non-GLX chain exists iff it existed and keeps its foreign rules (in order); every non-GLX
    set is unchanged -/
structure Frame (k k' : Kern) : Prop where
  chains : ∀ c, c.isGlx = false →
    (Tbl.get k'.tbl c).map (foreignRules c) = (Tbl.get k.tbl c).map (foreignRules c)
  sets : ∀ n, n.isGlx = false → k'.sets.find? (·.name == n) = k.sets.find? (·.name == n)

theorem Frame.refl (k : Kern) : Frame k k := ⟨fun _ _ => rfl, fun _ _ => rfl⟩

theorem Frame.trans {a b c : Kern} (h1 : Frame a b) (h2 : Frame b c) : Frame a c :=
  ⟨fun ch hc => (h2.chains ch hc).trans (h1.chains ch hc), fun n hn => (h2.sets n hn).trans (h1.sets n hn)⟩

/-- a table change confined to GLX chains -/
theorem frame_tbl_glx (k : Kern) (t' : Table) (h : ∀ c, c.isGlx = false → Tbl.get t' c = Tbl.get k.tbl c) :
    Frame k { k with tbl := t' } :=
  ⟨fun c hc => by simp only; rw [h c hc], fun _ _ => rfl⟩

theorem frame_setChain_glx (k : Kern) (c : Chain) (hc : c.isGlx = true) (rs : List PRule) :
    Frame k { k with tbl := setChain k.tbl c rs } := by
  apply frame_tbl_glx
  intro c' hc'
  rw [get_setChain]
  have : c' ≠ c := fun e => by rw [e, hc] at hc'; cases hc'
  simp [this]

theorem frame_erase_glx (k : Kern) (c : Chain) (hc : c.isGlx = true) :
    Frame k { k with tbl := Tbl.erase k.tbl c } := by
  apply frame_tbl_glx
  intro c' hc'
  have : c ≠ c' := fun e => by rw [← e, hc] at hc'; cases hc'
  exact Tbl.get_erase_ne k.tbl this

/-! ### restore of a batch that names only GLX chains -/

def Cmd.chain : Cmd → Chain
  | .decl c => c
  | .app c _ => c
  | .del c => c

theorem isGlx_not_builtin {c : Chain} (h : c.isGlx = true) : c.isBuiltin = false := by
  cases c <;> simp_all [Chain.isGlx, Chain.isBuiltin]

theorem applyCmd_frame (k : Kern) (t t' : Table) (cmd : Cmd) (hc : cmd.chain.isGlx = true)
    (h : applyCmd k t cmd = .ok t') : ∀ c, c.isGlx = false → Tbl.get t' c = Tbl.get t c := by
  intro c' hc'
  have hne : ∀ c, c.isGlx = true → c' ≠ c := fun c hg e => by rw [e, hg] at hc'; cases hc'
  cases cmd with
  | decl c =>
    simp only [Cmd.chain] at hc
    simp only [applyCmd, isGlx_not_builtin hc, Bool.false_eq_true, if_false] at h
    cases h
    rw [get_setChain]; simp [hne c hc]
  | app c r =>
    simp only [Cmd.chain] at hc
    simp only [applyCmd] at h
    split at h
    · cases h
    · cases h
    · split at h
      · cases h
      · cases h; rw [get_setChain]; simp [hne c hc]
  | del c =>
    simp only [Cmd.chain] at hc
    simp only [applyCmd] at h
    split at h
    · cases h
    · split at h
      · cases h; rfl
      · split at h
        · cases h
        · cases h
          exact Tbl.get_erase_ne t (fun e => hne c hc e.symm)

theorem foldlM_frame (k : Kern) (cmds : List Cmd) (hc : ∀ cmd ∈ cmds, cmd.chain.isGlx = true) (t t' : Table)
    (h : cmds.foldlM (applyCmd k) t = .ok t') : ∀ c, c.isGlx = false → Tbl.get t' c = Tbl.get t c := by
  induction cmds generalizing t with
  | nil => simp [List.foldlM] at h; cases h; intro _ _; rfl
  | cons cmd rest ih =>
    simp only [List.foldlM_cons] at h
    cases h1 : applyCmd k t cmd with
    | error e => rw [h1] at h; cases h
    | ok t1 =>
      rw [h1] at h
      intro c hcc
      have := ih (fun x hx => hc x (List.mem_cons_of_mem _ hx)) t1 h c hcc
      rw [this, applyCmd_frame k t t1 cmd (hc cmd (List.mem_cons_self ..)) h1 c hcc]

theorem restore_frame (k : Kern) (cmds : List Cmd) (hc : ∀ cmd ∈ cmds, cmd.chain.isGlx = true) (t' : Table)
    (h : restore k cmds = .ok t') : ∀ c, c.isGlx = false → Tbl.get t' c = Tbl.get k.tbl c :=
  foldlM_frame k cmds hc k.tbl t' h

/-! ### single commands -/

theorem frame_setChain_same (k : Kern) (c : Chain) (rs rs' : List PRule) (hg : Tbl.get k.tbl c = some rs)
    (hf : foreignRules c rs' = foreignRules c rs) : Frame k { k with tbl := setChain k.tbl c rs' } := by
  refine ⟨fun c' _ => ?_, fun _ _ => rfl⟩
  simp only
  rw [get_setChain]
  by_cases e : c' = c
  · subst e; simp [hg, hf]
  · simp [e]

theorem ensureChainK_frame (k : Kern) (c : Chain) (hc : c.isGlx = true) : Frame k (ensureChainK k c) := by
  unfold ensureChainK
  split
  · exact Frame.refl k
  · exact frame_setChain_glx k c hc []

/-- EnsureRule into a GLX chain, or of a documented base jump into its built-in chain -/
theorem ensureRule_frame (k : Kern) (prepend : Bool) (c : Chain) (r : PRule)
    (h : c.isGlx = true ∨ glxBaseRules.contains (c, r) = true) : Frame k (ensureRule k prepend c r).1 := by
  unfold ensureRule
  split
  · exact Frame.refl k
  · exact Frame.refl k
  · split
    · exact Frame.refl k
    · rename_i rs hg
      split
      · exact Frame.refl k
      · rcases h with h | h
        · exact frame_setChain_glx k c h _
        · apply frame_setChain_same k c rs _ hg
          cases prepend <;> simp [foreignRules, List.filter_append, h]

theorem deleteRule_frame (k : Kern) (c : Chain) (r : PRule) (h : c.isGlx = true) : Frame k (deleteRule k c r).1 := by
  unfold deleteRule
  split
  · exact Frame.refl k
  · exact Frame.refl k
  · split
    · exact Frame.refl k
    · exact frame_setChain_glx k c h _

theorem ensureBasic_frame (k : Kern) : Frame k (ensureBasic k).1 := by
  unfold ensureBasic
  have h0 : Frame k (ensureChainK (ensureChainK k .glxIngress) .glxEgress) :=
    (ensureChainK_frame k .glxIngress rfl).trans (ensureChainK_frame _ .glxEgress rfl)
  generalize ensureChainK (ensureChainK k .glxIngress) .glxEgress = k1 at h0
  have : ∀ (l : List (Chain × PRule)) (acc : Kern × List Fail), (∀ cr ∈ l, glxBaseRules.contains cr = true) →
      Frame k acc.1 →
      Frame k (l.foldl (fun (acc : Kern × List Fail) cr =>
        let (k', f) := ensureRule acc.1 true cr.1 cr.2
        (k', acc.2 ++ f)) acc).1 := by
    intro l
    induction l with
    | nil => intro acc _ h; exact h
    | cons cr rest ih =>
      intro acc hl h
      simp only [List.foldl_cons]
      apply ih
      · exact fun x hx => hl x (List.mem_cons_of_mem _ hx)
      · exact h.trans (ensureRule_frame acc.1 true cr.1 cr.2 (Or.inr (hl cr (List.mem_cons_self ..))))
  exact this glxBaseRules (k1, []) (fun cr h => by simpa using h) h0

theorem deleteHookByKeyword_frame (k : Kern) (c pc : Chain) (h : c.isGlx = true) :
    Frame k (deleteHookByKeyword k c pc).1 := by
  unfold deleteHookByKeyword
  split
  · exact Frame.refl k
  · split
    · exact Frame.refl k
    · exact deleteRule_frame k c _ h

theorem deletePodChains_frame (k : Kern) (q : Pod) : Frame k (deletePodChains k q).1 := by
  unfold deletePodChains
  have h1 := deleteHookByKeyword_frame k .glxIngress (.pod q.hash) rfl
  have h2 := deleteHookByKeyword_frame (deleteHookByKeyword k .glxIngress (.pod q.hash)).1 .glxEgress (.pod q.hash) rfl
  have h12 := h1.trans h2
  generalize (deleteHookByKeyword (deleteHookByKeyword k .glxIngress (.pod q.hash)).1 .glxEgress (.pod q.hash)) = r2 at h12 ⊢
  obtain ⟨k2, f2⟩ := r2
  simp only at h12 ⊢
  generalize (deleteHookByKeyword k .glxIngress (.pod q.hash)) = r1
  obtain ⟨k1, f1⟩ := r1
  simp only
  split
  · exact h12
  · simp only
    refine h12.trans ?_
    have ha := frame_setChain_glx k2 (.pod q.hash) rfl []
    split
    · exact ha
    · exact ha.trans (frame_erase_glx { k2 with tbl := setChain k2.tbl (.pod q.hash) [] } (.pod q.hash) rfl)

theorem restore_frame' (k : Kern) (cmds : List Cmd) (hc : ∀ cmd ∈ cmds, cmd.chain.isGlx = true) (t' : Table)
    (h : restore k cmds = .ok t') : Frame k { k with tbl := t' } :=
  frame_tbl_glx k t' (restore_frame k cmds hc t' h)

theorem hookRule_single (ing : Bool) (q : Pod) (a : IP) (h : q.ip = some a) : ∃ r, hookRule ing q = [r] := by
  simp [hookRule, h]

/-- SyncPodChains touches only GLX chains and the documented base jumps -/
theorem syncPod_frame (k : Kern) (ps : List NetPol) (q : Pod) : Frame k (syncPod k ps q).1 := by
  unfold syncPod
  split
  · exact deletePodChains_frame k q
  · split
    · exact Frame.refl k
    · have hb := ensureBasic_frame k
      generalize ensureBasic k = rb at hb ⊢
      obtain ⟨k1, f1⟩ := rb
      simp only at hb ⊢
      split
      · exact hb
      · split
        · exact hb
        · rename_i t2 hr
          have h2 : Frame k1 { k1 with tbl := t2 } := restore_frame' k1 _ (by
            intro cmd hcmd
            rcases List.mem_cons.mp hcmd with rfl | hm
            · rfl
            · obtain ⟨r, _, rfl⟩ := List.mem_map.mp hm; rfl) t2 hr
          have hb2 := hb.trans h2
          split
          · rename_i hi he _ _
            split
            · -- ingress hook step failed
              split <;> rename_i hh
              · exact hb2.trans (ensureRule_frame _ false .glxIngress hi (Or.inl rfl))
              · exact hb2.trans (deleteRule_frame _ .glxIngress hi rfl)
            · have h3 : Frame k (if hookedIngress ps q = true then ensureRule { k1 with tbl := t2 } false .glxIngress hi
                  else deleteRule { k1 with tbl := t2 } .glxIngress hi).1 := by
                split
                · exact hb2.trans (ensureRule_frame _ false .glxIngress hi (Or.inl rfl))
                · exact hb2.trans (deleteRule_frame _ .glxIngress hi rfl)
              generalize (if hookedIngress ps q = true then ensureRule { k1 with tbl := t2 } false .glxIngress hi
                  else deleteRule { k1 with tbl := t2 } .glxIngress hi) = r3 at h3 ⊢
              obtain ⟨k3, f3⟩ := r3
              simp only at h3 ⊢
              split
              · exact h3.trans (ensureRule_frame _ false .glxEgress he (Or.inl rfl))
              · exact h3.trans (deleteRule_frame _ .glxEgress he rfl)
          · exact hb2

end Galaxy.Policy
