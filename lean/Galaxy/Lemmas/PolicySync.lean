/-
  Lemmas about the synchronisation part of model M7 (C15), part 1: the frame property
  "chains, rules and sets galaxy does not own are never modified".
-/
import Galaxy.Lemmas.PolicyWalk

namespace Galaxy.Policy

/-! ### basic table facts -/

theorem get_map_upd (t : Table) (c c' : Chain) (rs : List PRule) :
    Tbl.get (t.map (fun kv => if kv.1 = c then (kv.1, rs) else kv)) c' =
      if c' = c then (Tbl.get t c).map (fun _ => rs) else Tbl.get t c' := by
  induction t with
  | nil => by_cases h : c' = c <;> simp [Tbl.get, h]
  | cons x t ih =>
    obtain ⟨k, v⟩ := x
    by_cases h1 : k = c <;> by_cases h2 : c' = c
    · subst h1; subst h2; simp [Tbl.get]
    · subst h1
      have : ¬ k = c' := fun e => h2 e.symm
      simp [Tbl.get, this, ih, h2]
    · subst h2
      simp [Tbl.get, h1, ih]
    · by_cases h3 : k = c'
      · simp [Tbl.get, h1, h3, h2]
      · simp [Tbl.get, h1, h3, ih, h2]

theorem get_setChain (t : Table) (c c' : Chain) (rs : List PRule) :
    Tbl.get (setChain t c rs) c' = if c' = c then some rs else Tbl.get t c' := by
  unfold setChain chainExists
  cases h : Tbl.get t c with
  | none =>
    simp only [Option.isSome_none, Bool.false_eq_true, if_false]
    rw [get_append]
    by_cases e : c' = c
    · subst e; simp [h, Tbl.get]
    · have : ¬ c = c' := fun x => e x.symm
      cases Tbl.get t c' <;> simp [Tbl.get, e, this]
  | some v =>
    simp only [Option.isSome_some, if_true]
    rw [get_map_upd]
    by_cases e : c' = c <;> simp [e, h]

/-! ### what is foreign -/

def Chain.isGlx : Chain → Bool
  | .glxIngress | .glxEgress | .pod _ | .plcy _ => true
  | _ => false

/-- the rules of a chain that are not one of the four documented base jumps -/
def foreignRules (c : Chain) (rs : List PRule) : List PRule := rs.filter (fun r => !(glxBaseRules.contains (c, r)))

/-- frame relation: every non-GLX chain exists iff it existed and keeps its foreign rules (in order); every non-GLX
    set is unchanged -/
structure Frame (k k' : Kern) : Prop where
  chains : ∀ c, c.isGlx = false →
    (Tbl.get k'.tbl c).map (foreignRules c) = (Tbl.get k.tbl c).map (foreignRules c)
  sets : ∀ n, n.isGlx = false → k'.sets.find? (·.name == n) = k.sets.find? (·.name == n)

theorem Frame.refl (k : Kern) : Frame k k := ⟨fun _ _ => rfl, fun _ _ => rfl⟩

theorem Frame.trans {a b c : Kern} (h1 : Frame a b) (h2 : Frame b c) : Frame a c :=
  ⟨fun ch hc => (h2.chains ch hc).trans (h1.chains ch hc), fun n hn => (h2.sets n hn).trans (h1.sets n hn)⟩

/-- a table change confined to GLX chains -/
theorem frame_tbl_glx (k : Kern) (t' : Table) (h : ∀ c, c.isGlx = false → Tbl.get t' c = Tbl.get k.tbl c) :
    Frame k { k with tbl := t' } :=
  ⟨fun c hc => by simp only; rw [h c hc], fun _ _ => rfl⟩

theorem frame_setChain_glx (k : Kern) (c : Chain) (hc : c.isGlx = true) (rs : List PRule) :
    Frame k { k with tbl := setChain k.tbl c rs } := by
  apply frame_tbl_glx
  intro c' hc'
  rw [get_setChain]
  have : c' ≠ c := fun e => by rw [e, hc] at hc'; cases hc'
  simp [this]

theorem frame_erase_glx (k : Kern) (c : Chain) (hc : c.isGlx = true) :
    Frame k { k with tbl := Tbl.erase k.tbl c } := by
  apply frame_tbl_glx
  intro c' hc'
  have : c ≠ c' := fun e => by rw [← e, hc] at hc'; cases hc'
  exact Tbl.get_erase_ne k.tbl this

/-! ### restore of a batch that names only GLX chains -/

def Cmd.chain : Cmd → Chain
  | .decl c => c
  | .app c _ => c
  | .del c => c

theorem isGlx_not_builtin {c : Chain} (h : c.isGlx = true) : c.isBuiltin = false := by
  cases c <;> simp_all [Chain.isGlx, Chain.isBuiltin]

theorem applyCmd_frame (k : Kern) (t t' : Table) (cmd : Cmd) (hc : cmd.chain.isGlx = true)
    (h : applyCmd k t cmd = .ok t') : ∀ c, c.isGlx = false → Tbl.get t' c = Tbl.get t c := by
  intro c' hc'
  have hne : ∀ c, c.isGlx = true → c' ≠ c := fun c hg e => by rw [e, hg] at hc'; cases hc'
  cases cmd with
  | decl c =>
    simp only [Cmd.chain] at hc
    simp only [applyCmd, isGlx_not_builtin hc, Bool.false_eq_true, if_false] at h
    cases h
    rw [get_setChain]; simp [hne c hc]
  | app c r =>
    simp only [Cmd.chain] at hc
    simp only [applyCmd] at h
    split at h
    · cases h
    · cases h
    · cases h
    · split at h
      · cases h
      · cases h; rw [get_setChain]; simp [hne c hc]
  | del c =>
    simp only [Cmd.chain] at hc
    simp only [applyCmd] at h
    split at h
    · cases h
    · split at h
      · cases h; rfl
      · split at h
        · cases h
        · cases h
          exact Tbl.get_erase_ne t (fun e => hne c hc e.symm)

theorem foldlM_frame (k : Kern) (cmds : List Cmd) (hc : ∀ cmd ∈ cmds, cmd.chain.isGlx = true) (t t' : Table)
    (h : cmds.foldlM (applyCmd k) t = .ok t') : ∀ c, c.isGlx = false → Tbl.get t' c = Tbl.get t c := by
  induction cmds generalizing t with
  | nil => simp [List.foldlM] at h; cases h; intro _ _; rfl
  | cons cmd rest ih =>
    simp only [List.foldlM_cons] at h
    cases h1 : applyCmd k t cmd with
    | error e => rw [h1] at h; cases h
    | ok t1 =>
      rw [h1] at h
      intro c hcc
      have := ih (fun x hx => hc x (List.mem_cons_of_mem _ hx)) t1 h c hcc
      rw [this, applyCmd_frame k t t1 cmd (hc cmd (List.mem_cons_self ..)) h1 c hcc]

theorem restore_frame (k : Kern) (cmds : List Cmd) (hc : ∀ cmd ∈ cmds, cmd.chain.isGlx = true) (t' : Table)
    (h : restore k cmds = .ok t') : ∀ c, c.isGlx = false → Tbl.get t' c = Tbl.get k.tbl c :=
  foldlM_frame k cmds hc k.tbl t' h

/-! ### single commands -/

theorem frame_setChain_same (k : Kern) (c : Chain) (rs rs' : List PRule) (hg : Tbl.get k.tbl c = some rs)
    (hf : foreignRules c rs' = foreignRules c rs) : Frame k { k with tbl := setChain k.tbl c rs' } := by
  refine ⟨fun c' _ => ?_, fun _ _ => rfl⟩
  simp only
  rw [get_setChain]
  by_cases e : c' = c
  · subst e; simp [hg, hf]
  · simp [e]

theorem ensureChainK_frame (k : Kern) (c : Chain) (hc : c.isGlx = true) : Frame k (ensureChainK k c) := by
  unfold ensureChainK
  split
  · exact Frame.refl k
  · exact frame_setChain_glx k c hc []

theorem foreignRules_cons_base (c : Chain) (r : PRule) (rs : List PRule) (h : glxBaseRules.contains (c, r) = true) :
    foreignRules c (r :: rs) = foreignRules c rs := by
  have hm : (c, r) ∈ glxBaseRules := List.contains_iff_mem.mp h
  simp [foreignRules, List.filter_cons, hm]

theorem foreignRules_append_base (c : Chain) (r : PRule) (rs : List PRule) (h : glxBaseRules.contains (c, r) = true) :
    foreignRules c (rs ++ [r]) = foreignRules c rs := by
  have hm : (c, r) ∈ glxBaseRules := List.contains_iff_mem.mp h
  simp [foreignRules, List.filter_append, List.filter_cons, hm]

/-- EnsureRule into a GLX chain, or of a documented base jump into its built-in chain -/
theorem ensureRule_frame (k : Kern) (prepend : Bool) (c : Chain) (r : PRule)
    (h : c.isGlx = true ∨ glxBaseRules.contains (c, r) = true) : Frame k (ensureRule k prepend c r).1 := by
  unfold ensureRule
  split
  · exact Frame.refl k
  · exact Frame.refl k
  · exact Frame.refl k
  · split
    · exact Frame.refl k
    · rename_i rs hg
      split
      · exact Frame.refl k
      · rcases h with h | h
        · exact frame_setChain_glx k c h _
        · apply frame_setChain_same k c rs _ hg
          cases prepend
          · exact foreignRules_append_base c r rs h
          · exact foreignRules_cons_base c r rs h

theorem deleteRule_frame (k : Kern) (c : Chain) (r : PRule) (h : c.isGlx = true) : Frame k (deleteRule k c r).1 := by
  unfold deleteRule
  split
  · exact Frame.refl k
  · exact Frame.refl k
  · exact Frame.refl k
  · split
    · exact Frame.refl k
    · exact frame_setChain_glx k c h _

theorem ensureBasic_frame (k : Kern) : Frame k (ensureBasic k).1 := by
  unfold ensureBasic
  have h0 : Frame k (ensureChainK (ensureChainK k .glxIngress) .glxEgress) :=
    (ensureChainK_frame k .glxIngress rfl).trans (ensureChainK_frame _ .glxEgress rfl)
  generalize ensureChainK (ensureChainK k .glxIngress) .glxEgress = k1 at h0
  have : ∀ (l : List (Chain × PRule)) (acc : Kern × List Fail), (∀ cr ∈ l, glxBaseRules.contains cr = true) →
      Frame k acc.1 →
      Frame k (l.foldl (fun (acc : Kern × List Fail) cr =>
        ((ensureRule acc.1 true cr.1 cr.2).1, acc.2 ++ (ensureRule acc.1 true cr.1 cr.2).2)) acc).1 := by
    intro l
    induction l with
    | nil => intro acc _ h; exact h
    | cons cr rest ih =>
      intro acc hl h
      simp only [List.foldl_cons]
      apply ih
      · exact fun x hx => hl x (List.mem_cons_of_mem _ hx)
      · exact h.trans (ensureRule_frame acc.1 true cr.1 cr.2 (Or.inr (hl cr (List.mem_cons_self ..))))
  exact this glxBaseRules (k1, []) (fun cr h => by simpa using h) h0

theorem deleteHookByKeyword_frame (k : Kern) (c pc : Chain) (h : c.isGlx = true) :
    Frame k (deleteHookByKeyword k c pc).1 := by
  unfold deleteHookByKeyword
  split
  · exact Frame.refl k
  · split
    · exact Frame.refl k
    · exact deleteRule_frame k c _ h

theorem dropPodChain_frame (k : Kern) (pc : Chain) (h : pc.isGlx = true) : Frame k (dropPodChain k pc) := by
  unfold dropPodChain
  split
  · exact Frame.refl k
  · split
    · exact frame_setChain_glx k pc h []
    · exact (frame_setChain_glx k pc h []).trans (frame_erase_glx { k with tbl := setChain k.tbl pc [] } pc h)

theorem deletePodChains_frame (k : Kern) (q : Pod) : Frame k (deletePodChains k q).1 := by
  unfold deletePodChains
  exact ((deleteHookByKeyword_frame k .glxIngress (.pod q.hash) rfl).trans
    (deleteHookByKeyword_frame _ .glxEgress (.pod q.hash) rfl)).trans (dropPodChain_frame _ (.pod q.hash) rfl)

theorem restore_frame' (k : Kern) (cmds : List Cmd) (hc : ∀ cmd ∈ cmds, cmd.chain.isGlx = true) (t' : Table)
    (h : restore k cmds = .ok t') : Frame k { k with tbl := t' } :=
  frame_tbl_glx k t' (restore_frame k cmds hc t' h)

theorem hookStep_frame (k : Kern) (sel : Bool) (c : Chain) (r : PRule) (h : c.isGlx = true) :
    Frame k (hookStep k sel c r).1 := by
  unfold hookStep
  split
  · exact ensureRule_frame k false c r (Or.inl h)
  · exact deleteRule_frame k c r h

theorem syncPodChain_frame (k : Kern) (ps : List NetPol) (q : Pod) : Frame k (syncPodChain k ps q).1 := by
  unfold syncPodChain
  split
  · exact Frame.refl k
  · rename_i t2 hr
    have h2 : Frame k { k with tbl := t2 } := restore_frame' k _ (by
      intro cmd hcmd
      rcases List.mem_cons.mp hcmd with rfl | hm
      · rfl
      · obtain ⟨r, _, rfl⟩ := List.mem_map.mp hm; rfl) t2 hr
    split
    · rename_i hi he _ _
      have h3 := h2.trans (hookStep_frame { k with tbl := t2 } (hookedIngress ps q) .glxIngress hi rfl)
      dsimp only
      split
      · exact h3
      · exact h3.trans (hookStep_frame _ (hookedEgress ps q) .glxEgress he rfl)
    · exact h2

/-- SyncPodChains touches only GLX chains and the documented base jumps -/
theorem syncPod_frame (k : Kern) (ps : List NetPol) (q : Pod) : Frame k (syncPod k ps q).1 := by
  unfold syncPod
  split
  · exact deletePodChains_frame k q
  · split
    · exact Frame.refl k
    · split
      · exact ensureBasic_frame k
      · exact (ensureBasic_frame k).trans (syncPodChain_frame _ ps q)

theorem syncPods_frame (k : Kern) (c : Cluster) (ps : List NetPol) (node : String) :
    Frame k (syncPods k c ps node).1 := by
  unfold syncPods
  have : ∀ (l : List Pod) (acc : Kern × List Fail), Frame k acc.1 →
      Frame k (l.foldl (fun (acc : Kern × List Fail) q =>
        ((syncPod acc.1 ps q).1, acc.2 ++ (syncPod acc.1 ps q).2)) acc).1 := by
    intro l
    induction l with
    | nil => intro acc h; exact h
    | cons q rest ih =>
      intro acc h
      simp only [List.foldl_cons]
      exact ih _ (h.trans (syncPod_frame acc.1 ps q))
  exact this _ (k, []) (Frame.refl k)

/-! ### sets -/

theorem find_updSet_ne (sets : List IpSet) (n m : SetName) (f : List Entry → List Entry) (h : m ≠ n) :
    (updSet sets n f).find? (·.name == m) = sets.find? (·.name == m) := by
  induction sets with
  | nil => rfl
  | cons s t ih =>
    simp only [updSet, List.map_cons] at ih ⊢
    by_cases e : s.name = n
    · have : ¬ n = m := fun x => h x.symm
      simp [e, List.find?_cons, this, ih]
    · simp only [e, if_false, List.find?_cons]
      split
      · rfl
      · exact ih

theorem syncOneSet_frame (sets sets' : List IpSet) (s : IpSet) (hs : s.name.isGlx = true)
    (h : syncOneSet sets s = .ok sets') : ∀ n, n.isGlx = false → sets'.find? (·.name == n) = sets.find? (·.name == n) := by
  intro n hn
  have hne : n ≠ s.name := fun e => by rw [e, hs] at hn; cases hn
  unfold syncOneSet syncOneSetWith at h
  split at h
  · split at h
    · cases h
    · cases h
      exact find_updSet_ne sets s.name n _ hne
  · cases h
    rw [List.find?_append]
    have : ¬ s.name = n := fun e => hne e.symm
    cases sets.find? (·.name == n) <;> simp [this]

theorem foldlM_sets_frame (new : List IpSet) (hn : ∀ s ∈ new, s.name.isGlx = true) (sets sets' : List IpSet)
    (h : new.foldlM syncOneSet sets = .ok sets') :
    ∀ n, n.isGlx = false → sets'.find? (·.name == n) = sets.find? (·.name == n) := by
  induction new generalizing sets with
  | nil => simp [List.foldlM] at h; cases h; intro _ _; rfl
  | cons s rest ih =>
    simp only [List.foldlM_cons] at h
    cases h1 : syncOneSet sets s with
    | error e => rw [h1] at h; cases h
    | ok s1 =>
      rw [h1] at h
      intro n hnn
      rw [ih (fun x hx => hn x (List.mem_cons_of_mem _ hx)) s1 h n hnn,
        syncOneSet_frame sets s1 s (hn s (List.mem_cons_self ..)) h1 n hnn]

theorem find_filter_ne (sets : List IpSet) (n m : SetName) (h : m ≠ n) :
    (sets.filter (·.name != n)).find? (·.name == m) = sets.find? (·.name == m) := by
  induction sets with
  | nil => rfl
  | cons s t ih =>
    by_cases e : s.name = n
    · have : ¬ n = m := fun x => h x.symm
      simp [List.filter_cons, e, List.find?_cons, this, ih]
    · simp only [List.filter_cons, bne_iff_ne, ne_eq, e, not_false_eq_true, if_true, List.find?_cons]
      split
      · rfl
      · exact ih

theorem destroyStale_frame (t : Table) (stale : List SetName) (hs : ∀ n ∈ stale, n.isGlx = true) (sets : List IpSet) :
    ∀ n, n.isGlx = false → (destroyStale t stale sets).find? (·.name == n) = sets.find? (·.name == n) := by
  unfold destroyStale
  induction stale generalizing sets with
  | nil => intro _ _; rfl
  | cons m rest ih =>
    intro n hn
    simp only [List.foldl_cons]
    rw [ih (fun x hx => hs x (List.mem_cons_of_mem _ hx)) _ n hn]
    split
    · rfl
    · have : n ≠ m := fun e => by rw [e, hs m (List.mem_cons_self ..)] at hn; cases hn
      exact find_filter_ne sets m n this

theorem ruleSets_glx (c : Cluster) (kIp kNet : SetKind) (h1 : kIp ≠ .foreign) (h2 : kNet ≠ .foreign) (h : String) (i : Nat)
    (r : Rule) : ∀ s ∈ ruleSets c kIp kNet h i r, s.name.isGlx = true := by
  intro s hs
  simp only [ruleSets, List.mem_append] at hs
  rcases hs with hs | hs <;> split at hs <;> simp at hs <;> subst hs <;> simp [SetName.isGlx, h1, h2]

theorem compileSets_glx (c : Cluster) (ps : List NetPol) : ∀ s ∈ compileSets c ps, s.name.isGlx = true := by
  intro s hs
  simp only [compileSets, List.mem_flatMap] at hs
  obtain ⟨p, _, hs⟩ := hs
  simp only [policySets, List.mem_append] at hs
  rcases hs with (hs | hs) | hs
  · split at hs
    · simp at hs; subst hs; simp [SetName.isGlx, selSetName]
    · cases hs
  · split at hs
    · simp only [rulesSets, List.mem_flatMap] at hs
      obtain ⟨x, _, hx⟩ := hs
      exact ruleSets_glx c .sip .snet (by decide) (by decide) _ _ _ s hx
    · cases hs
  · split at hs
    · simp only [rulesSets, List.mem_flatMap] at hs
      obtain ⟨x, _, hx⟩ := hs
      exact ruleSets_glx c .dip .dnet (by decide) (by decide) _ _ _ s hx
    · cases hs

theorem policyBatch_glx (t : Table) (ps : List NetPol) : ∀ cmd ∈ policyBatch t ps, cmd.chain.isGlx = true := by
  intro cmd h
  simp only [policyBatch, List.mem_append, List.mem_map, List.mem_flatMap, List.mem_filter] at h
  rcases h with ((⟨p, _, rfl⟩ | ⟨c, ⟨_, hc⟩, rfl⟩) | ⟨p, _, r, _, rfl⟩) | ⟨c, ⟨_, hc⟩, rfl⟩
  · rfl
  · cases c <;> simp_all [Cmd.chain, Chain.isGlx]
  · rfl
  · cases c <;> simp_all [Cmd.chain, Chain.isGlx]

/-- syncRules touches only GLX sets and GLX-PLCY chains -/
theorem syncRules_frame (k : Kern) (c : Cluster) (ps : List NetPol) : Frame k (syncRules k c ps).1 := by
  unfold syncRules syncRulesWith
  split
  · exact Frame.refl k
  · rename_i sets1 h1
    simp only
    have hsets := foldlM_sets_frame (compileSets c ps) (compileSets_glx c ps) k.sets sets1 h1
    refine ⟨fun ch hch => ?_, fun n hn => ?_⟩
    · simp only [syncIptables]
      split
      · rename_i t hr
        simp only
        rw [restore_frame { k with sets := sets1 } _ (policyBatch_glx _ ps) t hr ch hch]
      · rfl
    · simp only
      rw [destroyStale_frame _ _ (fun m hm => by
        have := (List.mem_filter.mp hm).2
        simp only [Bool.and_eq_true] at this; exact this.1) sets1 n hn]
      exact hsets n hn

/-- FRAME: a full sync from ANY kernel state leaves non-GLX chains (up to the documented base jumps) and non-GLX
    sets as they were -/
theorem fullSync_frame (k : Kern) (c : Cluster) (ps : List NetPol) (node : String) :
    Frame k (fullSync k c ps node).1 := by
  unfold fullSync fullSyncWith
  exact (syncRules_frame k c ps).trans (syncPods_frame _ c ps node)

theorem foreignRules_other (name : String) (rs : List PRule) : foreignRules (.other name) rs = rs := by
  simp [foreignRules, glxBaseRules]

end Galaxy.Policy
