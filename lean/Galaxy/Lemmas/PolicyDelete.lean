/-
  deletePodChains touches nobody else's hook: in every chain other than the pod's own chain, the rules that do not
  jump to the pod's chain stay, in their order — for EVERY kernel state (no hypothesis on what the chains hold).
  Statement used by Galaxy.Props.C15.delete_pod_chains_frame.
-/
import Galaxy.Lemmas.PolicyPods

namespace Galaxy.Policy

/-- the rules of a chain that do not jump to `pc` -/
def othersOf (pc : Chain) (rs : List PRule) : List PRule := rs.filter (fun r => !r.jumpsTo pc)

theorem othersOf_erase (pc : Chain) (rs : List PRule) (r : PRule) (hj : r.jumpsTo pc = true) :
    othersOf pc (rs.erase r) = othersOf pc rs := by
  induction rs with
  | nil => rfl
  | cons x xs ih =>
    by_cases e : x = r
    · subst e
      simp [othersOf, List.filter_cons, hj]
    · have hb : (x == r) = false := by simpa using e
      rw [List.erase_cons, hb]
      simp only [Bool.false_eq_true, if_false]
      unfold othersOf at ih ⊢
      rw [List.filter_cons, List.filter_cons, ih]

theorem deleteRule_others (k : Kern) (c : Chain) (r : PRule) (pc : Chain) (hj : r.jumpsTo pc = true) (c' : Chain) :
    othersOf pc (hooks (deleteRule k c r).1.tbl c') = othersOf pc (hooks k.tbl c') ∧ (deleteRule k c r).1.sets = k.sets := by
  unfold deleteRule
  split
  · exact ⟨rfl, rfl⟩
  · exact ⟨rfl, rfl⟩
  · exact ⟨rfl, rfl⟩
  · cases hg : Tbl.get k.tbl c with
    | none => exact ⟨rfl, rfl⟩
    | some rs =>
      refine ⟨?_, rfl⟩
      simp only
      rw [hooks_setChain]
      by_cases e : c' = c
      · subst e
        simp only [if_true]
        rw [hooks_of_get hg]
        exact othersOf_erase pc rs r hj
      · simp [e]

theorem deleteHookByKeyword_others (k : Kern) (c pc : Chain) (c' : Chain) :
    othersOf pc (hooks (deleteHookByKeyword k c pc).1.tbl c') = othersOf pc (hooks k.tbl c') ∧
    (deleteHookByKeyword k c pc).1.sets = k.sets := by
  unfold deleteHookByKeyword
  cases hg : Tbl.get k.tbl c with
  | none => exact ⟨rfl, rfl⟩
  | some rs =>
    simp only
    cases hf : rs.find? (fun r => r.jumpsTo pc) with
    | none => exact ⟨rfl, rfl⟩
    | some r =>
      simp only
      have hj : r.jumpsTo pc = true := by simpa using List.find?_some hf
      exact deleteRule_others k c r pc hj c'

theorem dropPodChain_others (k : Kern) (pc c' : Chain) (hne : c' ≠ pc) :
    hooks (dropPodChain k pc).tbl c' = hooks k.tbl c' ∧ (dropPodChain k pc).sets = k.sets := by
  unfold dropPodChain
  cases hg : Tbl.get k.tbl pc with
  | none => exact ⟨rfl, rfl⟩
  | some v =>
    simp only
    split
    · refine ⟨?_, rfl⟩
      simp only
      rw [hooks_setChain]; simp [hne]
    · refine ⟨?_, rfl⟩
      simp only
      unfold hooks
      rw [Tbl.get_erase_ne _ (fun e => hne e.symm), get_setChain]; simp [hne]

/-- deletePodChains for pod q: any chain other than q's own keeps, in order, all its rules that do not jump to q's chain;
    the ipsets are untouched -/
theorem deletePodChains_others (k : Kern) (q : Pod) (c : Chain) (hc : c ≠ .pod q.hash) :
    othersOf (.pod q.hash) (hooks (deletePodChains k q).1.tbl c) = othersOf (.pod q.hash) (hooks k.tbl c) ∧
    (deletePodChains k q).1.sets = k.sets := by
  unfold deletePodChains
  simp only
  obtain ⟨a1, a2⟩ := deleteHookByKeyword_others k .glxIngress (.pod q.hash) c
  obtain ⟨b1, b2⟩ := deleteHookByKeyword_others (deleteHookByKeyword k .glxIngress (.pod q.hash)).1 .glxEgress (.pod q.hash) c
  obtain ⟨d1, d2⟩ := dropPodChain_others
    (deleteHookByKeyword (deleteHookByKeyword k .glxIngress (.pod q.hash)).1 .glxEgress (.pod q.hash)).1 (.pod q.hash) c hc
  exact ⟨by rw [d1, b1, a1], by rw [d2, b2, a2]⟩

end Galaxy.Policy
