/-
  Lemmas about M1b `RangeEdit` (InsertIP / RemoveIP on a pool's range list).
-/
import Galaxy.Lemmas.Nets
import Galaxy.Model.RangeEdit

namespace Galaxy.RangeEdit
open Galaxy.Nets Galaxy.Generated.Nets

theorem canonFrom_mono {lb lb' : Nat} (h : lb' ≤ lb) : ∀ {rs : List Range}, CanonFrom lb rs → CanonFrom lb' rs
  | [], _ => trivial
  | _ :: _, ⟨h1, h2, h3⟩ => ⟨by omega, h2, h3⟩

theorem any_cons_iff (r : Range) (rest : List Range) (x : IPv4) :
    rangesContain (r :: rest) x = true ↔
      (r.first.toNat ≤ x.toNat ∧ x.toNat ≤ r.last.toNat) ∨ rangesContain rest x = true := by
  simp [rangesContain, Range.contains_iff]

theorem canonFrom_lb : ∀ {lb : Nat} {rs : List Range}, CanonFrom lb rs → ∀ x, rangesContain rs x = true → lb ≤ x.toNat
  | _, [], _, x, h => by simp [rangesContain] at h
  | lb, r :: rest, ⟨h1, h2, h3⟩, x, h => by
    rcases (any_cons_iff r rest x).1 h with hx | hx
    · omega
    · have := canonFrom_lb h3 x hx; omega

theorem ne_iff (a b : IPv4) : a ≠ b ↔ a.toNat ≠ b.toNat := by
  constructor
  · intro h e; exact h (BitVec.eq_of_toNat_eq e)
  · intro h e; exact h (by rw [e])

/-! ### RemoveIP -/

theorem removeRanges_none_iff (ip : IPv4) : ∀ rs : List Range, removeRanges ip rs = none ↔ rangesContain rs ip = false
  | [] => by simp [removeRanges, rangesContain]
  | r :: rest => by
    have ih := removeRanges_none_iff ip rest
    unfold removeRanges
    by_cases hc : r.contains ip = true
    · simp [hc, rangesContain]
    · simp only [hc]
      simp only [rangesContain, List.any_cons] at ih ⊢
      simp [hc, ih]

theorem removeRanges_canon (ip : IPv4) : ∀ (rs rs' : List Range) (lb : Nat),
    CanonFrom lb rs → removeRanges ip rs = some rs' → CanonFrom lb rs'
  | [], _, _, _, h => by simp [removeRanges] at h
  | r :: rest, rs', lb, ⟨h1, h2, h3⟩, h => by
    unfold removeRanges at h
    by_cases hc : r.contains ip = true
    · have hci := (Range.contains_iff r ip).1 hc
      simp only [hc, if_true, Option.some.injEq] at h
      subst h
      by_cases e1 : r.first = r.last
      · simp only [e1, if_true]; exact canonFrom_mono (by omega) h3
      · have n1 := (ne_iff _ _).1 e1
        simp only [e1, if_false]
        by_cases e2 : r.first = ip
        · simp only [e2, if_true]
          subst e2
          have : (r.first + 1#32).toNat = r.first.toNat + 1 := by
            have := r.last.isLt; rw [BitVec.toNat_add]; simp; omega
          exact ⟨by show lb ≤ (r.first + 1#32).toNat; omega, by show (r.first + 1#32).toNat ≤ r.last.toNat; omega, h3⟩
        · have n2 := (ne_iff _ _).1 e2
          simp only [e2, if_false]
          by_cases e3 : r.last = ip
          · simp only [e3, if_true]
            subst e3
            have : (r.last - 1#32).toNat = r.last.toNat - 1 := by
              have := r.last.isLt; rw [BitVec.toNat_sub]; simp; omega
            exact ⟨h1, by show r.first.toNat ≤ (r.last - 1#32).toNat; omega,
              canonFrom_mono (by show (r.last - 1#32).toNat + 2 ≤ r.last.toNat + 2; omega) h3⟩
          · have n3 := (ne_iff _ _).1 e3
            simp only [e3, if_false]
            have a1 : (ip + 1#32).toNat = ip.toNat + 1 := by
              have := r.last.isLt; rw [BitVec.toNat_add]; simp; omega
            have a2 : (ip - 1#32).toNat = ip.toNat - 1 := by
              have := ip.isLt; rw [BitVec.toNat_sub]; simp; omega
            exact ⟨h1, by show r.first.toNat ≤ (ip - 1#32).toNat; omega,
              by show (ip - 1#32).toNat + 2 ≤ (ip + 1#32).toNat; omega,
              by show (ip + 1#32).toNat ≤ r.last.toNat; omega, h3⟩
    · simp only [hc] at h
      cases hr : removeRanges ip rest with
      | none => simp [hr] at h
      | some t =>
        simp [hr] at h; subst h
        exact ⟨h1, h2, removeRanges_canon ip rest t _ h3 hr⟩


theorem removeRanges_mem (ip : IPv4) : ∀ (rs rs' : List Range) (lb : Nat),
    CanonFrom lb rs → removeRanges ip rs = some rs' →
    ∀ x, rangesContain rs' x = true ↔ (rangesContain rs x = true ∧ x ≠ ip)
  | [], _, _, _, h => by simp [removeRanges] at h
  | r :: rest, rs', lb, ⟨h1, h2, h3⟩, h => by
    intro x
    unfold removeRanges at h
    have hrest : rangesContain rest x = true → r.last.toNat + 2 ≤ x.toNat := canonFrom_lb h3 x
    by_cases hc : r.contains ip = true
    · have hci := (Range.contains_iff r ip).1 hc
      simp only [hc, if_true, Option.some.injEq] at h
      subst h
      rw [ne_iff, any_cons_iff]
      by_cases e1 : r.first = r.last
      · simp only [e1, if_true]
        have n1 : r.first.toNat = r.last.toNat := by rw [e1]
        cases hb : rangesContain rest x
        · simp; omega
        · have := hrest hb; simp; omega
      · have n1 := (ne_iff _ _).1 e1
        simp only [e1, if_false]
        by_cases e2 : r.first = ip
        · simp only [e2, if_true]
          subst e2
          have : (r.first + 1#32).toNat = r.first.toNat + 1 := by
            have := r.last.isLt; rw [BitVec.toNat_add]; simp; omega
          rw [any_cons_iff]
          show ((r.first + 1#32).toNat ≤ x.toNat ∧ x.toNat ≤ r.last.toNat) ∨ _ ↔ _
          cases hb : rangesContain rest x
          · simp; omega
          · have := hrest hb; simp; omega
        · have n2 := (ne_iff _ _).1 e2
          simp only [e2, if_false]
          by_cases e3 : r.last = ip
          · simp only [e3, if_true]
            subst e3
            have : (r.last - 1#32).toNat = r.last.toNat - 1 := by
              have := r.last.isLt; rw [BitVec.toNat_sub]; simp; omega
            rw [any_cons_iff]
            show (r.first.toNat ≤ x.toNat ∧ x.toNat ≤ (r.last - 1#32).toNat) ∨ _ ↔ _
            cases hb : rangesContain rest x
            · simp; omega
            · have := hrest hb; simp; omega
          · have n3 := (ne_iff _ _).1 e3
            simp only [e3, if_false]
            have a1 : (ip + 1#32).toNat = ip.toNat + 1 := by
              have := r.last.isLt; rw [BitVec.toNat_add]; simp; omega
            have a2 : (ip - 1#32).toNat = ip.toNat - 1 := by
              have := ip.isLt; rw [BitVec.toNat_sub]; simp; omega
            rw [any_cons_iff, any_cons_iff]
            show (r.first.toNat ≤ x.toNat ∧ x.toNat ≤ (ip - 1#32).toNat) ∨
              (((ip + 1#32).toNat ≤ x.toNat ∧ x.toNat ≤ r.last.toNat) ∨ _) ↔ _
            cases hb : rangesContain rest x
            · simp; omega
            · have := hrest hb; simp; omega
    · simp only [hc] at h
      cases hr : removeRanges ip rest with
      | none => simp [hr] at h
      | some t =>
        simp [hr] at h; subst h
        have ih := removeRanges_mem ip rest t _ h3 hr x
        have hnc : ¬ (r.first.toNat ≤ ip.toNat ∧ ip.toNat ≤ r.last.toNat) := fun hh => hc ((Range.contains_iff r ip).2 hh)
        rw [any_cons_iff, any_cons_iff, ih, ne_iff]
        cases hb : rangesContain rest x
        · simp; omega
        · simp; omega


/-! ### InsertIP -/

theorem eq_iff (a b : IPv4) : a = b ↔ a.toNat = b.toNat :=
  ⟨fun e => by rw [e], BitVec.eq_of_toNat_eq⟩

theorem insertRanges_canon (ip : IPv4) : ∀ (rs rs' : List Range) (lb : Nat),
    CanonFrom lb rs → lb ≤ ip.toNat → insertRanges ip rs = some rs' → CanonFrom lb rs'
  | [], rs', lb, _, hl, h => by
    simp [insertRanges] at h; subst h
    exact ⟨hl, Nat.le_refl _, trivial⟩
  | r :: rest, rs', lb, ⟨h1, h2, h3⟩, hl, h => by
    unfold insertRanges at h
    simp only [minus_toInt] at h
    by_cases hc : r.contains ip = true
    · simp [hc] at h
    · have hnc : ¬ (r.first.toNat ≤ ip.toNat ∧ ip.toNat ≤ r.last.toNat) := fun hh => hc ((Range.contains_iff r ip).2 hh)
      simp only [hc] at h
      by_cases g1 : (r.first.toNat : Int) - (ip.toNat : Int) > 1
      · simp only [g1, if_true] at h
        simp at h; subst h
        exact ⟨hl, Nat.le_refl _, by show ip.toNat + 2 ≤ r.first.toNat; omega, h2, h3⟩
      · simp only [g1, if_false] at h
        by_cases g2 : (r.first.toNat : Int) - (ip.toNat : Int) = 1
        · simp only [g2, if_true] at h
          simp at h; subst h
          exact ⟨hl, by show ip.toNat ≤ r.last.toNat; omega, h3⟩
        · simp only [g2, if_false] at h
          by_cases g3 : (r.last.toNat : Int) - (ip.toNat : Int) = -1
          · simp only [g3, if_true] at h
            cases rest with
            | nil =>
              simp at h; subst h
              exact ⟨h1, by show r.first.toNat ≤ ip.toNat; omega, trivial⟩
            | cons n rest' =>
              obtain ⟨k1, k2, k3⟩ := h3
              by_cases g4 : (n.first.toNat : Int) - (ip.toNat : Int) = 1
              · simp [g4] at h; subst h
                exact ⟨h1, by show r.first.toNat ≤ n.last.toNat; omega, k3⟩
              · simp [g4] at h; subst h
                exact ⟨h1, by show r.first.toNat ≤ ip.toNat; omega, by show ip.toNat + 2 ≤ n.first.toNat; omega, k2, k3⟩
          · simp only [g3, if_false] at h
            cases hr : insertRanges ip rest with
            | none => simp [hr] at h
            | some t =>
              simp [hr] at h; subst h
              exact ⟨h1, h2, insertRanges_canon ip rest t _ h3 (by omega) hr⟩


theorem insertRanges_mem (ip : IPv4) : ∀ (rs rs' : List Range) (lb : Nat),
    CanonFrom lb rs → insertRanges ip rs = some rs' →
    ∀ x, rangesContain rs' x = true ↔ (rangesContain rs x = true ∨ x = ip)
  | [], rs', lb, _, h => by
    intro x
    simp [insertRanges] at h; subst h
    rw [any_cons_iff, eq_iff]
    show (ip.toNat ≤ x.toNat ∧ x.toNat ≤ ip.toNat) ∨ _ ↔ _
    simp [rangesContain]; omega
  | r :: rest, rs', lb, ⟨h1, h2, h3⟩, h => by
    intro x
    unfold insertRanges at h
    simp only [minus_toInt] at h
    have hrest : rangesContain rest x = true → r.last.toNat + 2 ≤ x.toNat := canonFrom_lb h3 x
    by_cases hc : r.contains ip = true
    · simp [hc] at h
    · have hnc : ¬ (r.first.toNat ≤ ip.toNat ∧ ip.toNat ≤ r.last.toNat) := fun hh => hc ((Range.contains_iff r ip).2 hh)
      simp only [hc] at h
      rw [eq_iff]
      by_cases g1 : (r.first.toNat : Int) - (ip.toNat : Int) > 1
      · simp only [g1, if_true] at h
        simp at h; subst h
        rw [any_cons_iff]
        show (ip.toNat ≤ x.toNat ∧ x.toNat ≤ ip.toNat) ∨ _ ↔ _
        cases hb : rangesContain (r :: rest) x
        · simp; omega
        · simp
      · simp only [g1, if_false] at h
        by_cases g2 : (r.first.toNat : Int) - (ip.toNat : Int) = 1
        · simp only [g2, if_true] at h
          simp at h; subst h
          rw [any_cons_iff, any_cons_iff]
          show (ip.toNat ≤ x.toNat ∧ x.toNat ≤ r.last.toNat) ∨ _ ↔ _
          cases hb : rangesContain rest x
          · simp; omega
          · simp
        · simp only [g2, if_false] at h
          by_cases g3 : (r.last.toNat : Int) - (ip.toNat : Int) = -1
          · simp only [g3, if_true] at h
            cases rest with
            | nil =>
              simp at h; subst h
              rw [any_cons_iff, any_cons_iff]
              show (r.first.toNat ≤ x.toNat ∧ x.toNat ≤ ip.toNat) ∨ _ ↔ _
              simp [rangesContain]; omega
            | cons n rest' =>
              obtain ⟨k1, k2, k3⟩ := h3
              have hrest' : rangesContain rest' x = true → n.last.toNat + 2 ≤ x.toNat := canonFrom_lb k3 x
              by_cases g4 : (n.first.toNat : Int) - (ip.toNat : Int) = 1
              · simp [g4] at h; subst h
                rw [any_cons_iff, any_cons_iff, any_cons_iff]
                show (r.first.toNat ≤ x.toNat ∧ x.toNat ≤ n.last.toNat) ∨ _ ↔ _
                cases hb : rangesContain rest' x
                · simp; omega
                · simp
              · simp [g4] at h; subst h
                rw [any_cons_iff, any_cons_iff, any_cons_iff, any_cons_iff]
                show (r.first.toNat ≤ x.toNat ∧ x.toNat ≤ ip.toNat) ∨ _ ↔ _
                cases hb : rangesContain rest' x
                · simp; omega
                · simp
          · simp only [g3, if_false] at h
            cases hr : insertRanges ip rest with
            | none => simp [hr] at h
            | some t =>
              simp [hr] at h; subst h
              have ih := insertRanges_mem ip rest t _ h3 hr x
              rw [any_cons_iff, any_cons_iff, ih, eq_iff]
              cases hb : rangesContain rest x
              · simp
              · simp

/-- On a canonical list `InsertIP` refuses exactly the addresses it already holds. -/
theorem insertRanges_none_iff (ip : IPv4) : ∀ (rs : List Range) (lb : Nat),
    CanonFrom lb rs → (insertRanges ip rs = none ↔ rangesContain rs ip = true)
  | [], _, _ => by simp [insertRanges, rangesContain]
  | r :: rest, lb, ⟨h1, h2, h3⟩ => by
    have hrest : rangesContain rest ip = true → r.last.toNat + 2 ≤ ip.toNat := canonFrom_lb h3 ip
    have ih := insertRanges_none_iff ip rest _ h3
    unfold insertRanges
    simp only [minus_toInt]
    rw [any_cons_iff]
    by_cases hc : r.contains ip = true
    · have := (Range.contains_iff r ip).1 hc
      simp [hc]; omega
    · have hnc : ¬ (r.first.toNat ≤ ip.toNat ∧ ip.toNat ≤ r.last.toNat) := fun hh => hc ((Range.contains_iff r ip).2 hh)
      simp only [hc]
      by_cases g1 : (r.first.toNat : Int) - (ip.toNat : Int) > 1
      · simp only [g1, if_true]
        cases hb : rangesContain rest ip
        · simp; omega
        · have := hrest hb; omega
      · simp only [g1, if_false]
        by_cases g2 : (r.first.toNat : Int) - (ip.toNat : Int) = 1
        · simp only [g2, if_true]
          cases hb : rangesContain rest ip
          · simp; omega
          · have := hrest hb; omega
        · simp only [g2, if_false]
          by_cases g3 : (r.last.toNat : Int) - (ip.toNat : Int) = -1
          · simp only [g3, if_true]
            cases hb : rangesContain rest ip
            · simp; omega
            · have := hrest hb; omega
          · simp only [g3, if_false]
            cases hr : insertRanges ip rest with
            | none => simp [hr] at ih ⊢; simp [ih]
            | some t => simp [hr] at ih ⊢; simp [ih]; omega

end Galaxy.RangeEdit
