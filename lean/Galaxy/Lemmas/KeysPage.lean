/-
  Paging lemmas for C11: the generated `paginationResult` / `pagin` arithmetic on natural inputs,
  chunking of a list, index ↔ page correspondence, the parse clamps.
-/
import Galaxy.Model.Keys

namespace Galaxy.Keys
open Galaxy.Generated.Keys

/-! ### the generated arithmetic on natural numbers -/

theorem pageStart_nat (p size n : Nat) : pageStart p size n = ((min (p * size) n : Nat) : Int) := by
  simp only [pageStart, paginationResult]; omega

theorem pageEnd_nat (p size n : Nat) :
    pageEnd p size n = ((min (min (p * size) n + size) n : Nat) : Int) := by
  simp only [pageEnd, paginationResult]; omega

theorem totalPages_nat (size n : Nat) : totalPages size n = (((n + size - 1) / size : Nat) : Int) := by
  simp only [totalPages, paginTotalPages]
  by_cases hs : size = 0
  · subst hs; simp
  · rw [Int.tdiv_eq_ediv_of_nonneg (by omega), Int.natCast_ediv]
    congr 1
    omega

theorem ceil_bounds (size n : Nat) (hs : 0 < size) :
    n ≤ ((n + size - 1) / size) * size ∧ ((n + size - 1) / size) * size < n + size := by
  have h1 := Nat.div_add_mod (n + size - 1) size
  have h2 := Nat.mod_lt (n + size - 1) hs
  have h3 := Nat.mul_comm size ((n + size - 1) / size)
  omega

theorem ceil_pred (size n : Nat) (hs : 0 < size) (hn : 0 < n) :
    (n + size - 1) / size = (n - 1) / size + 1 := by
  have : n + size - 1 = (n - 1) + size := by omega
  rw [this, Nat.add_div_right _ hs]

/-- index `i` lies in page `p`'s `[start, end)` exactly when `p = i / size` -/
theorem idx_page_iff (i p size n : Nat) (hs : 0 < size) (hi : i < n) :
    (min (p * size) n ≤ i ∧ i < min (min (p * size) n + size) n) ↔ p = i / size := by
  have h1 := Nat.div_add_mod i size
  have h2 := Nat.mod_lt i hs
  have h3 := Nat.mul_comm size (i / size)
  constructor
  · rintro ⟨a, b⟩
    symm
    apply Nat.div_eq_of_lt_le
    · omega
    · rw [Nat.succ_mul]; omega
  · intro e
    subst e
    omega

/-! ### chunks -/

theorem chunks_take {α : Type} (l : List α) (size k : Nat) :
    (List.range k).flatMap (fun p => (l.drop (p * size)).take size) = l.take (k * size) := by
  induction k with
  | zero => simp
  | succ k ih =>
    rw [List.range_succ, List.flatMap_append, ih]
    simp only [List.flatMap_cons, List.flatMap_nil, List.append_nil]
    rw [Nat.succ_mul, List.take_add]

theorem pageSlice_nat {α : Type} (l : List α) (p size : Nat) :
    pageSlice l (p : Int) (size : Int) = (l.drop (p * size)).take size := by
  simp only [pageSlice, slice, pageStart_nat, pageEnd_nat, Int.toNat_natCast]
  by_cases h : p * size ≤ l.length
  · rw [Nat.min_eq_left h, List.take_eq_take_iff]
    simp only [List.length_drop]
    omega
  · have h' : l.length ≤ p * size := by omega
    rw [Nat.min_eq_right h']
    simp [List.drop_of_length_le h']

theorem flatMap_congr_range {β : Type} (k : Nat) (f g : Nat → List β) (h : ∀ p, f p = g p) :
    (List.range k).flatMap f = (List.range k).flatMap g := by
  have : f = g := funext h
  rw [this]

/-- concatenating the pages `0 … totalPages-1` gives the list back -/
theorem pages_concat {α : Type} (l : List α) (size : Nat) (hs : 0 < size) :
    (List.range (totalPages size l.length).toNat).flatMap (fun (p : Nat) => pageSlice l (p : Int) (size : Int)) = l := by
  rw [totalPages_nat, Int.toNat_natCast]
  rw [flatMap_congr_range _ _ (fun p => (l.drop (p * size)).take size) (fun p => pageSlice_nat l p size)]
  rw [chunks_take]
  exact List.take_of_length_le (ceil_bounds size l.length hs).1

/-! ### clamps -/

theorem parsePageClamp_range (v : Int) : 0 ≤ parsePageClamp v ∧ parsePageClamp v ≤ 99999 := by
  unfold parsePageClamp; repeat' split
  all_goals omega

theorem parsePageClamp_id {v : Int} (h0 : 0 ≤ v) (h1 : v ≤ 99999) : parsePageClamp v = v := by
  unfold parsePageClamp; repeat' split
  all_goals omega

theorem parseSizeClamp_range (v : Int) : 1 ≤ parseSizeClamp v ∧ parseSizeClamp v ≤ 9999 := by
  unfold parseSizeClamp defaultSize; repeat' split
  all_goals omega

theorem parseSizeClamp_id {v : Int} (h0 : 1 ≤ v) (h1 : v ≤ 9999) : parseSizeClamp v = v := by
  unfold parseSizeClamp defaultSize; repeat' split
  all_goals omega

theorem parsePage_is_clamp (s : Str) : ∃ v, parsePage s = parsePageClamp v := by
  unfold parsePage
  split
  · exact ⟨0, by decide⟩
  · split
    · exact ⟨0, by decide⟩
    · exact ⟨_, rfl⟩

theorem parseSize_is_clamp (s : Str) : ∃ v, parseSize s = parseSizeClamp v := by
  unfold parseSize
  split
  · exact ⟨0, by decide⟩
  · split
    · exact ⟨0, by decide⟩
    · exact ⟨_, rfl⟩

/-! ### the same over `Int` (the type of the generated arithmetic), with sign hypotheses -/

theorem pages_concat_int {α : Type} (l : List α) (size : Int) (hs : 0 < size) :
    (List.range (totalPages size l.length).toNat).flatMap (fun (p : Nat) => pageSlice l (p : Int) size) = l := by
  obtain ⟨n, rfl⟩ := Int.eq_ofNat_of_zero_le (Int.le_of_lt hs)
  exact pages_concat l n (by omega)

theorem idx_page_iff_int (i page size len : Int) (hs : 0 < size) (hp : 0 ≤ page) (h0 : 0 ≤ i) (hi : i < len) :
    (pageStart page size len ≤ i ∧ i < pageEnd page size len) ↔ page = i / size := by
  obtain ⟨s, rfl⟩ := Int.eq_ofNat_of_zero_le (Int.le_of_lt hs)
  obtain ⟨p, rfl⟩ := Int.eq_ofNat_of_zero_le hp
  obtain ⟨j, rfl⟩ := Int.eq_ofNat_of_zero_le h0
  obtain ⟨n, rfl⟩ := Int.eq_ofNat_of_zero_le (by omega : 0 ≤ len)
  have key := idx_page_iff j p s n (by omega) (by omega)
  rw [pageStart_nat, pageEnd_nat, ← Int.natCast_ediv]
  constructor
  · intro h
    have := key.mp ⟨by omega, by omega⟩
    omega
  · intro h
    have h' : p = j / s := by omega
    have := key.mpr h'
    omega

theorem totalPages_pred_int (size len : Int) (hs : 0 < size) (hl : 0 < len) :
    totalPages size len = (len - 1) / size + 1 := by
  obtain ⟨s, rfl⟩ := Int.eq_ofNat_of_zero_le (Int.le_of_lt hs)
  obtain ⟨n, rfl⟩ := Int.eq_ofNat_of_zero_le (Int.le_of_lt hl)
  rw [totalPages_nat, ceil_pred s n (by omega) (by omega)]
  have : ((n : Int) - 1) = ((n - 1 : Nat) : Int) := by omega
  rw [this, ← Int.natCast_ediv]
  omega

theorem totalPages_zero_int (size : Int) (hs : 0 < size) : totalPages size 0 = 0 := by
  obtain ⟨s, rfl⟩ := Int.eq_ofNat_of_zero_le (Int.le_of_lt hs)
  have := totalPages_nat s 0
  simp only [Int.natCast_zero] at this
  rw [this]
  have : (0 + s - 1) / s = 0 := Nat.div_eq_of_lt (by omega)
  rw [this]; rfl

theorem totalPages_bounds_int (size len : Int) (hs : 0 < size) (hl : 0 ≤ len) :
    len ≤ totalPages size len * size ∧ totalPages size len * size < len + size := by
  obtain ⟨s, rfl⟩ := Int.eq_ofNat_of_zero_le (Int.le_of_lt hs)
  obtain ⟨n, rfl⟩ := Int.eq_ofNat_of_zero_le hl
  rw [totalPages_nat]
  have := ceil_bounds s n (by omega)
  omega

theorem page_of_index_int (i size len : Int) (hs : 0 < size) (h0 : 0 ≤ i) (hi : i < len) :
    0 ≤ i / size ∧ i / size < totalPages size len := by
  rw [totalPages_pred_int size len hs (by omega)]
  have h1 : 0 ≤ i / size := Int.ediv_nonneg h0 (Int.le_of_lt hs)
  have h2 : i / size ≤ (len - 1) / size := Int.ediv_le_ediv hs (by omega)
  omega

theorem reachable_iff_int (size len : Int) (hs : 0 < size) (hl : 0 ≤ len) :
    (∀ i, 0 ≤ i → i < len →
        ∃ v, pageStart (parsePageClamp v) size len ≤ i ∧ i < pageEnd (parsePageClamp v) size len)
      ↔ totalPages size len ≤ 100000 := by
  constructor
  · intro h
    by_cases h0 : len = 0
    · subst h0; rw [totalPages_zero_int size hs]; omega
    · obtain ⟨v, hv⟩ := h (len - 1) (by omega) (by omega)
      have hr := parsePageClamp_range v
      have := (idx_page_iff_int (len - 1) (parsePageClamp v) size len hs hr.1 (by omega) (by omega)).mp hv
      rw [totalPages_pred_int size len hs (by omega), ← this]
      omega
  · intro h i h0 hi
    have hp := page_of_index_int i size len hs h0 hi
    refine ⟨i / size, ?_⟩
    rw [parsePageClamp_id hp.1 (by omega)]
    exact (idx_page_iff_int i (i / size) size len hs hp.1 h0 hi).mpr rfl

theorem pagin_last_int (page size len : Int) (hp : 0 ≤ page) (hs : 0 < size) :
    (pagination page size len).2.2.last = true ↔ len ≤ (page + 1) * size := by
  simp only [pagination, paginLast]
  rw [decide_eq_true_iff]
  simp only [paginationResult]
  have : (page + 1) * size = page * size + size := by rw [Int.add_mul]; omega
  rw [this]
  have h2 : 0 ≤ page * size := Int.mul_nonneg hp (Int.le_of_lt hs)
  omega

theorem pagin_first_int (page size len : Int) (hp : 0 ≤ page) (hs : 0 < size) (hl : 0 ≤ len) :
    (pagination page size len).2.2.first = true ↔ (page = 0 ∨ len = 0) := by
  simp only [pagination, paginFirst]
  rw [decide_eq_true_iff]
  simp only [paginationResult]
  have h2 : 0 ≤ page * size := Int.mul_nonneg hp (Int.le_of_lt hs)
  constructor
  · intro h
    by_cases hl0 : len = 0
    · exact Or.inr hl0
    · have : page * size = 0 := by omega
      rcases Int.mul_eq_zero.mp this with h | h
      · exact Or.inl h
      · omega
  · rintro (h | h)
    · subst h; simp; omega
    · subst h; omega

theorem pagin_number_int (page size len : Int) (hp : 0 ≤ page) (hs : 0 < size) (hl : page * size ≤ len) :
    (pagination page size len).2.2.number = page := by
  simp only [pagination, paginNumber, paginationResult]
  have h2 : 0 ≤ page * size := Int.mul_nonneg hp (Int.le_of_lt hs)
  have : min (page * size) len = page * size := by omega
  rw [this, Int.tdiv_eq_ediv_of_nonneg h2]
  exact Int.mul_ediv_cancel _ (by omega)

theorem pagin_numberOfElements_int {α : Type} (l : List α) (page size : Int) (hp : 0 ≤ page) (hs : 0 < size) :
    (pagination page size l.length).2.2.numberOfElements = ((pageSlice l page size).length : Int) := by
  obtain ⟨s, rfl⟩ := Int.eq_ofNat_of_zero_le (Int.le_of_lt hs)
  obtain ⟨p, rfl⟩ := Int.eq_ofNat_of_zero_le hp
  rw [pageSlice_nat]
  simp only [pagination, paginNumberOfElements, paginationResult, List.length_take, List.length_drop]
  omega

end Galaxy.Keys
