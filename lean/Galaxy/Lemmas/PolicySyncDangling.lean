/-
  Lemmas about the synchronisation part of model M7 (C15), part 3: the policy batch never references a chain or set
  that does not exist — whatever the prior kernel state, its only possible failure is the busy `-X` (D17).
-/
import Galaxy.Lemmas.PolicySyncExact

namespace Galaxy.Policy

theorem except_bind_error {ε α β : Type} {x : Except ε α} {f : α → Except ε β} {e : ε}
    (h : (x >>= f) = .error e) : x = .error e ∨ ∃ a, x = .ok a ∧ f a = .error e := by
  cases x with
  | error e' => left; cases h; rfl
  | ok a => right; exact ⟨a, rfl, h⟩

theorem nodup_filter' {α : Type} (p : α → Bool) {l : List α} (h : l.Nodup) : (l.filter p).Nodup := by
  induction l with
  | nil => simp
  | cons x t ih =>
    simp only [List.nodup_cons] at h
    by_cases hp : p x = true
    · simp only [List.filter_cons, hp, if_true, List.nodup_cons]
      exact ⟨fun hm => h.1 (List.mem_filter.mp hm).1, ih h.2⟩
    · simp only [List.filter_cons, hp]; exact ih h.2

/-! ### after createIPSet every compiled set exists -/

theorem setExists_updSet (sets : List IpSet) (n m : SetName) (f : List Entry → List Entry) :
    setExists (updSet sets n f) m = setExists sets m := by
  unfold setExists updSet
  rw [List.any_map]
  apply any_congr'
  intro s _
  by_cases e : s.name = n <;> simp [e]

theorem syncOneSet_exists {sets sets' : List IpSet} {s : IpSet} (h : syncOneSet sets s = .ok sets') :
    setExists sets' s.name = true ∧ ∀ n, setExists sets n = true → setExists sets' n = true := by
  unfold syncOneSet syncOneSetWith at h
  split at h
  · rename_i old hf
    split at h
    · cases h
    · cases h
      have hold : setExists sets s.name = true :=
        List.any_eq_true.mpr ⟨old, List.mem_of_find?_eq_some hf, by simpa using List.find?_some hf⟩
      exact ⟨by rw [setExists_updSet]; exact hold, fun n hn => by rw [setExists_updSet]; exact hn⟩
  · cases h
    refine ⟨by simp [setExists, List.any_append], fun n hn => ?_⟩
    simp only [setExists, List.any_append, Bool.or_eq_true]
    exact Or.inl hn

theorem foldlM_sets_exist (new : List IpSet) (sets sets' : List IpSet) (h : new.foldlM syncOneSet sets = .ok sets') :
    (∀ s ∈ new, setExists sets' s.name = true) ∧ ∀ n, setExists sets n = true → setExists sets' n = true := by
  induction new generalizing sets with
  | nil => simp [List.foldlM] at h; cases h; exact ⟨fun _ h => (by cases h), fun _ h => h⟩
  | cons s rest ih =>
    simp only [List.foldlM_cons] at h
    obtain ⟨s1, h1, h2⟩ := except_bind_ok h
    obtain ⟨e1, m1⟩ := syncOneSet_exists h1
    obtain ⟨e2, m2⟩ := ih s1 h2
    refine ⟨fun x hx => ?_, fun n hn => m2 n (m1 n hn)⟩
    rcases List.mem_cons.mp hx with rfl | hx'
    · exact m2 _ e1
    · exact e2 x hx'

/-! ### every set a compiled policy rule matches on is a compiled set -/

theorem tplRules_refs (cm : String) (s d : SetName) (tcp udp : List Nat) :
    ∀ r ∈ tplRules cm s d tcp udp, ∀ n ∈ r.setRefs, n = s ∨ n = d := by
  intro r hr n hn
  rcases tplRulesWith_mem _ cm s d tcp udp r hr with ⟨_, hm⟩ | ⟨_, p, ps, hm, _⟩ <;>
    (simp [PRule.setRefs, hm] at hn; rcases hn with rfl | rfl <;> simp)

theorem ruleSetNames_compiled (c : Cluster) (kIp kNet : SetKind) (h : String) (j : Nat) (r : Rule) :
    ∀ n ∈ ruleSetNames kIp kNet h j r, ∃ s ∈ ruleSets c kIp kNet h j r, s.name = n := by
  intro n hn
  simp only [ruleSetNames, List.mem_append] at hn
  rcases hn with hn | hn <;> split at hn <;> rename_i hc
  · simp at hn; subst hn
    simp [ruleSets, ruleIpEntries, hc]
  · cases hn
  · simp at hn; subst hn
    have hc' : (r.peers.any fun p => !p.isIpKind) = true := hc
    cases hi : ruleIpEntries c r <;> simp [ruleSets, ruleNetEntries, hc', hi]
  · cases hn

theorem policyChain_refs (c : Cluster) (ps : List NetPol) (p : NetPol) (hp : p ∈ ps) :
    ∀ r ∈ policyChain p, ∀ n ∈ r.setRefs, ∃ s ∈ compileSets c ps, s.name = n := by
  intro r hr n hn
  have hsel : ∃ s ∈ policySets c p, s.name = selSetName p := by
    refine ⟨⟨selSetName p, .hashIP, entriesOf (podsBySelector c (some p.ns) p.podSel)⟩, ?_, rfl⟩
    simp [policySets, comp_some_dir p]
  have lift : (∃ s ∈ policySets c p, s.name = n) → ∃ s ∈ compileSets c ps, s.name = n := by
    rintro ⟨s, hs, hn⟩
    exact ⟨s, List.mem_flatMap.mpr ⟨p, hp, hs⟩, hn⟩
  simp only [policyChain, List.mem_append] at hr
  rcases hr with hr | hr <;> split at hr <;> rename_i hdir
  · simp only [ingressRules, List.mem_flatMap, chainRules] at hr
    obtain ⟨x, hx, s, hs, d, hd, hr⟩ := hr
    simp at hd; subst hd
    rcases tplRules_refs _ _ _ _ _ r hr n hn with rfl | rfl
    · obtain ⟨st, hst, hname⟩ := ruleSetNames_compiled c .sip .snet p.hash x.2 x.1 _ hs
      apply lift
      refine ⟨st, ?_, hname⟩
      simp only [policySets, List.mem_append, hdir, if_true]
      exact Or.inl (Or.inr (List.mem_flatMap.mpr ⟨x, hx, hst⟩))
    · exact lift hsel
  · cases hr
  · simp only [egressRules, List.mem_flatMap, chainRules] at hr
    obtain ⟨x, hx, s, hs, d, hd, hr⟩ := hr
    simp at hs; subst hs
    rcases tplRules_refs _ _ _ _ _ r hr n hn with rfl | rfl
    · exact lift hsel
    · obtain ⟨st, hst, hname⟩ := ruleSetNames_compiled c .dip .dnet p.hash x.2 x.1 _ hd
      apply lift
      refine ⟨st, ?_, hname⟩
      simp only [policySets, List.mem_append, hdir, if_true]
      exact Or.inr (List.mem_flatMap.mpr ⟨x, hx, hst⟩)
  · cases hr

/-! ### the batch -/

theorem portsOK_of_limit {ps : List NetPol} (hlim : overLimit ps = false) {p : NetPol} (hp : p ∈ ps) {r : PRule}
    (hr : r ∈ policyChain p) : r.portsOK = true := by
  unfold overLimit at hlim
  have h1 := (List.any_eq_false.mp hlim) p hp
  simp only [List.any_eq_true, not_exists, not_and, Bool.not_eq_true', Bool.not_eq_false] at h1
  exact h1 r hr

theorem chainExists_setChain (t : Table) (c c' : Chain) (rs : List PRule) (h : chainExists t c' = true) :
    chainExists (setChain t c rs) c' = true := by
  unfold chainExists at h ⊢
  rw [get_setChain]
  by_cases e : c' = c <;> simp [e, h]

/-- rule lines whose targets are ACCEPT, whose sets exist and whose chains exist never fail -/
theorem apps_ok (k : Kern) (cmds : List (Chain × PRule))
    (hrefs : ∀ x ∈ cmds, x.2.tgt = Tgt.accept ∧ x.2.setRefs.all (setExists k.sets) = true ∧ x.2.portsOK = true) (t : Table)
    (hex : ∀ x ∈ cmds, chainExists t x.1 = true) :
    ∃ t', (cmds.map (fun x => Cmd.app x.1 x.2)).foldlM (applyCmd k) t = .ok t' ∧
      ∀ c, chainExists t c = true → chainExists t' c = true := by
  induction cmds generalizing t with
  | nil => exact ⟨t, rfl, fun _ h => h⟩
  | cons x rest ih =>
    obtain ⟨c, r⟩ := x
    have hr := hrefs (c, r) (List.mem_cons_self ..)
    have he := hex (c, r) (List.mem_cons_self ..)
    simp only at hr he
    obtain ⟨rs, hg⟩ : ∃ rs, Tbl.get t c = some rs := by
      unfold chainExists at he
      cases hg : Tbl.get t c with
      | none => simp [hg] at he
      | some rs => exact ⟨rs, rfl⟩
    have hstep : applyCmd k t (.app c r) = .ok (setChain t c (rs ++ [r])) := by
      simp [applyCmd, checkRefs, hr.1, hr.2.1, hr.2.2, hg]
    obtain ⟨t', h1, h2⟩ := ih (fun y hy => hrefs y (List.mem_cons_of_mem _ hy)) (setChain t c (rs ++ [r]))
      (fun y hy => chainExists_setChain t c y.1 _ (hex y (List.mem_cons_of_mem _ hy)))
    refine ⟨t', ?_, fun c' hc' => h2 c' (chainExists_setChain t c c' _ hc')⟩
    simp only [List.map_cons, List.foldlM_cons, hstep]
    exact h1

/-- `-X` lines for distinct, existing, user-defined chains can only fail as busy -/
theorem dels_fail_busy (k : Kern) (cs : List Chain) (hnd : cs.Nodup) (hb : ∀ c ∈ cs, c.isBuiltin = false) (t : Table)
    (hex : ∀ c ∈ cs, chainExists t c = true) :
    ∀ e, (cs.map Cmd.del).foldlM (applyCmd k) t = .error e → e = Fail.restoreBusy := by
  induction cs generalizing t with
  | nil => intro e h; simp [List.foldlM] at h; cases h
  | cons c rest ih =>
    intro e h
    simp only [List.map_cons, List.foldlM_cons] at h
    simp only [List.nodup_cons] at hnd
    have hbc := hb c (List.mem_cons_self ..)
    obtain ⟨rs, hg⟩ : ∃ rs, Tbl.get t c = some rs := by
      have he := hex c (List.mem_cons_self ..)
      unfold chainExists at he
      cases hg : Tbl.get t c with
      | none => simp [hg] at he
      | some rs => exact ⟨rs, rfl⟩
    rcases except_bind_error h with h1 | ⟨t1, h1, h2⟩
    · simp only [applyCmd, hg, hbc, Bool.false_and, Bool.false_eq_true, if_false] at h1
      split at h1
      · cases h1; rfl
      · cases h1
    · have hget := applyCmd_del_get hbc h1
      apply ih hnd.2 (fun x hx => hb x (List.mem_cons_of_mem _ hx)) t1 _ e h2
      intro c' hc'
      have hne : c' ≠ c := fun e => hnd.1 (e ▸ hc')
      unfold chainExists
      rw [hget c']; simp only [hne, if_false]
      exact hex c' (List.mem_cons_of_mem _ hc')

/-- CLAUSE 4 FOR THE POLICY BATCH: from any kernel state with distinct chain names in which every set the compiled
    rules match on exists, the batch of syncIptables never names a missing chain or set: if it fails, it fails as
    `busy` on a `-X` -/
theorem policyBatch_fails_only_busy (k : Kern) (ps : List NetPol) (hkeys : (Tbl.keys k.tbl).Nodup)
    (hlim : overLimit ps = false)
    (hsets : ∀ p ∈ ps, ∀ r ∈ policyChain p, ∀ n ∈ r.setRefs, setExists k.sets n = true) :
    ∀ e, restore k (policyBatch k.tbl ps) = .error e → e = Fail.restoreBusy := by
  intro e h
  unfold restore policyBatch at h
  simp only at h
  generalize hst : (List.map (fun x => x.1) k.tbl).filter (fun c => match c with
    | .plcy _ => !(ps.map (fun p => Chain.plcy p.hash)).contains c
    | _ => false) = stale at h
  have hstaleND : stale.Nodup := by rw [← hst]; exact nodup_filter' _ hkeys
  have hstaleB : ∀ c ∈ stale, c.isBuiltin = false := by
    intro c hc; rw [← hst] at hc
    have := (List.mem_filter.mp hc).2
    cases c <;> simp_all [Chain.isBuiltin]
  have hb : ∀ c ∈ ps.map (fun p => Chain.plcy p.hash) ++ stale, c.isBuiltin = false := by
    intro c hc
    rcases List.mem_append.mp hc with hc | hc
    · obtain ⟨p, _, rfl⟩ := List.mem_map.mp hc; rfl
    · exact hstaleB c hc
  have hdecl : ps.map (fun p => Cmd.decl (.plcy p.hash)) ++ stale.map Cmd.decl =
      (ps.map (fun p => Chain.plcy p.hash) ++ stale).map Cmd.decl := by simp [List.map_append, List.map_map]
  have happ : ps.flatMap (fun p => (policyChain p).map (Cmd.app (.plcy p.hash))) =
      (ps.flatMap (fun p => (policyChain p).map (fun r => (Chain.plcy p.hash, r)))).map (fun x => Cmd.app x.1 x.2) := by
    rw [List.map_flatMap]; congr; funext p; simp [List.map_map, Function.comp_def]
  rw [hdecl, happ, List.foldlM_append, List.foldlM_append] at h
  obtain ⟨t1, hD, hgD⟩ := decls_get k _ hb k.tbl
  have hex1 : ∀ c ∈ ps.map (fun p => Chain.plcy p.hash) ++ stale, chainExists t1 c = true := by
    intro c hc; unfold chainExists; rw [hgD c]; simp [hc]
  obtain ⟨t2, hA, hpres⟩ := apps_ok k (ps.flatMap (fun p => (policyChain p).map (fun r => (Chain.plcy p.hash, r))))
    (by
      intro x hx
      obtain ⟨p, hp, hx⟩ := List.mem_flatMap.mp hx
      obtain ⟨r, hr, rfl⟩ := List.mem_map.mp hx
      exact ⟨policyChain_tgt p r hr, List.all_eq_true.mpr (fun n hn => hsets p hp r hr n hn), portsOK_of_limit hlim hp hr⟩) t1
    (by
      intro x hx
      obtain ⟨p, hp, hx⟩ := List.mem_flatMap.mp hx
      obtain ⟨r, _, rfl⟩ := List.mem_map.mp hx
      exact hex1 _ (List.mem_append_left _ (List.mem_map.mpr ⟨p, hp, rfl⟩)))
  rw [hD] at h
  simp only [bind, Except.bind] at h
  rw [hA] at h
  simp only at h
  exact dels_fail_busy k stale hstaleND hstaleB t2 (fun c hc => hpres c (hex1 c (List.mem_append_right _ hc))) e h

/-- the same for syncRules as a whole, from ANY prior kernel state with distinct chain names: a failed rule
    submission of syncRules is either the busy `-X` (D17) or the type clash of `ipset create` -/
theorem syncRules_fails_only_busy (k : Kern) (c : Cluster) (ps : List NetPol) (hkeys : (Tbl.keys k.tbl).Nodup)
    (hlim : overLimit ps = false) :
    ∀ f ∈ (syncRules k c ps).2, f = Fail.restoreBusy ∨ f = Fail.createMismatch := by
  intro f hf
  unfold syncRules syncRulesWith at hf
  split at hf
  · rename_i e he
    have hfe : f = e := by simpa using hf
    rw [hfe]
    right
    -- the only error syncOneSet raises
    have : ∀ (new : List IpSet) (sets : List IpSet) (e : Fail), new.foldlM syncOneSet sets = .error e → e = .createMismatch := by
      intro new
      induction new with
      | nil => intro sets e h; simp [List.foldlM] at h; cases h
      | cons s rest ih =>
        intro sets e h
        simp only [List.foldlM_cons] at h
        rcases except_bind_error h with h1 | ⟨s1, _, h2⟩
        · unfold syncOneSet syncOneSetWith at h1
          split at h1
          · split at h1
            · cases h1; rfl
            · cases h1
          · cases h1
        · exact ih s1 e h2
    exact this _ _ _ he
  · rename_i sets1 h1
    simp only [syncIptables] at hf
    split at hf
    · simp at hf
    · rename_i e he
      have hfe : f = e := by simpa using hf
      rw [hfe]
      left
      obtain ⟨hall, _⟩ := foldlM_sets_exist _ _ _ h1
      apply policyBatch_fails_only_busy { k with sets := sets1 } ps hkeys hlim _ e he
      intro p hp r hr n hn
      obtain ⟨s, hs, hname⟩ := policyChain_refs c ps p hp r hr n hn
      rw [← hname]; exact hall s hs

end Galaxy.Policy
