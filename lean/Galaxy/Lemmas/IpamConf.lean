/-
  ConfigurePool, restart, admin moves, event delivery, and the lift of the per-mutator lemmas to `step` and to all
  reachable states.
-/
import Galaxy.Lemmas.IpamRanges

namespace Galaxy.Ipam
open Tbl

/-! ## tables -/

theorem get_filter_key {α : Type} (f : IP → Bool) : ∀ (t : Tbl IP α) (k : IP),
    Tbl.get (t.filter (fun q => f q.1)) k = if f k = true then Tbl.get t k else none := by
  intro t
  induction t with
  | nil => intro k; simp [Tbl.get]
  | cons p t ih =>
    intro k
    obtain ⟨k', v⟩ := p
    by_cases hf : f k' = true
    · simp only [List.filter, hf]
      by_cases hk : k' = k
      · subst hk; simp [Tbl.get, hf]
      · simp [Tbl.get, hk, ih]
    · have hf' : f k' = false := by simpa using hf
      simp only [List.filter, hf']
      by_cases hk : k' = k
      · subst hk; simp [Tbl.get, hf', ih]
      · simp [Tbl.get, hk, ih]

theorem keepConfigured_get (ps : List Pool) (st : Store) (ip : IP) :
    (keepConfigured ps st).get ip = if configured ps ip = true then st.get ip else none :=
  get_filter_key (configured ps) st ip

/-! ## pools -/

theorem mem_insertPool (p q : Pool) : ∀ l : List Pool, q ∈ insertPool p l ↔ q = p ∨ q ∈ l := by
  intro l
  induction l with
  | nil => simp [insertPool]
  | cons x t ih =>
    unfold insertPool
    split
    · simp
    · simp only [List.mem_cons, ih]
      constructor
      · rintro (h | h | h)
        · exact Or.inr (Or.inl h)
        · exact Or.inl h
        · exact Or.inr (Or.inr h)
      · rintro (h | h | h)
        · exact Or.inr (Or.inl h)
        · exact Or.inl h
        · exact Or.inr (Or.inr h)

theorem mem_foldl_insertPool (q : Pool) : ∀ (l acc : List Pool),
    q ∈ l.foldl (fun acc p => insertPool p acc) acc ↔ q ∈ acc ∨ q ∈ l := by
  intro l
  induction l with
  | nil => intro acc; simp
  | cons x t ih =>
    intro acc
    simp only [List.foldl, ih, mem_insertPool, List.mem_cons]
    constructor
    · rintro ((h | h) | h)
      · exact Or.inr (Or.inl h)
      · exact Or.inl h
      · exact Or.inr (Or.inr h)
    · rintro (h | h | h)
      · exact Or.inl (Or.inr h)
      · exact Or.inl (Or.inl h)
      · exact Or.inr h

theorem mem_sortPools (q : Pool) (ps : List Pool) : q ∈ sortPools ps ↔ q ∈ ps := by
  unfold sortPools
  rw [mem_foldl_insertPool]
  exact ⟨fun h => h.resolve_left List.not_mem_nil, Or.inr⟩

theorem configured_sortPools (ps : List Pool) (ip : IP) : configured (sortPools ps) ip = configured ps ip := by
  unfold configured
  rw [Bool.eq_iff_iff]
  simp only [List.any_eq_true, mem_sortPools]

theorem mem_poolAddrs_of_configured {ps : List Pool} {ip : IP} (h : configured ps ip = true) : ip ∈ poolAddrs ps := by
  simp only [configured, List.any_eq_true] at h
  obtain ⟨p, hp, hc⟩ := h
  simp only [Pool.contains, Bool.and_eq_true, List.any_eq_true] at hc
  obtain ⟨_, r, hr, hrc⟩ := hc
  simp only [Range.contains, Bool.and_eq_true, decide_eq_true_eq] at hrc
  simp only [poolAddrs, List.mem_flatMap]
  exact ⟨p, hp, mem_walk.mpr ⟨r, hr, hrc.1, hrc.2⟩⟩

theorem mem_freshFree (ps : List Pool) (alloc : Tbl IP Rec) (ip : IP) :
    ip ∈ freshFree ps alloc ↔ (configured ps ip = true ∧ alloc.get ip = none) := by
  simp only [freshFree, List.mem_filter, Bool.and_eq_true, Option.isNone_iff_eq_none]
  constructor
  · rintro ⟨_, h⟩; exact h
  · intro h; exact ⟨mem_poolAddrs_of_configured h.1, h⟩

/-- a range whose ends are inside an IPv4 net lies inside it -/
theorem netContains_between {g b first last ip : Nat} (h1 : netContains g b first = true) (h2 : netContains g b last = true)
    (hf : first ≤ ip) (hl : ip ≤ last) : netContains g b ip = true := by
  simp [netContains] at h1 h2 ⊢
  have a := Nat.div_le_div_right (c := pow2 (32 - b)) hf
  have c := Nat.div_le_div_right (c := pow2 (32 - b)) hl
  rw [h1] at a
  rw [h2] at c
  exact Nat.le_antisymm c a

/-- for pools which passed `fipCheck` the `configured` filter in `freshFree` removes nothing -/
theorem freshFree_wf (ps : List Pool) (alloc : Tbl IP Rec) (hwf : wfPools ps = true) :
    freshFree ps alloc = (poolAddrs ps).filter (fun ip => (alloc.get ip).isNone) := by
  unfold freshFree
  apply List.filter_congr
  intro ip hip
  have : configured ps ip = true := by
    simp only [poolAddrs, List.mem_flatMap] at hip
    obtain ⟨p, hp, hw⟩ := hip
    obtain ⟨r, hr, hf, hl⟩ := mem_walk.mp hw
    simp only [wfPools, List.all_eq_true, Bool.and_eq_true] at hwf
    have := hwf p hp r hr
    simp only [configured, List.any_eq_true]
    refine ⟨p, hp, ?_⟩
    simp only [Pool.contains, Bool.and_eq_true, List.any_eq_true]
    exact ⟨netContains_between this.1 this.2 hf hl, r, hr, by simp [Range.contains, hf, hl]⟩
  simp [this]

/-! ## the delete loop of ConfigurePool -/

theorem sDelete_get (pl : Plan) (n : Nat) (st : Store) (ip j : IP) :
    (sDelete pl n st ip).1.get j = st.get j ∨ ((sDelete pl n st ip).1.get j = none ∧ j = ip) := by
  have herase : (Tbl.erase st ip).get j = st.get j ∨ ((Tbl.erase st ip).get j = none ∧ j = ip) := by
    by_cases hj : j = ip
    · subst hj; exact Or.inr ⟨by simp, rfl⟩
    · have hne : ip ≠ j := fun e => hj e.symm
      exact Or.inl (by simp [Tbl.get_erase_ne _ hne])
  unfold sDelete
  split
  · exact Or.inl rfl
  · split
    · exact Or.inl rfl
    · split
      · exact Or.inl rfl
      · split
        · exact herase
        · exact herase

theorem deleteLoop_get (pl : Plan) : ∀ (l : List IP) (n : Nat) (st : Store) (j : IP),
    (deleteLoop pl l n st).1.get j = st.get j ∨ ((deleteLoop pl l n st).1.get j = none ∧ j ∈ l) := by
  intro l
  induction l with
  | nil => intro n st j; simp [deleteLoop]
  | cons ip rest ih =>
    intro n st j
    unfold deleteLoop
    have hstep := sDelete_get pl n st ip j
    split
    · rcases hstep with h | ⟨h, hj⟩
      · exact Or.inl h
      · exact Or.inr ⟨h, by simp [hj]⟩
    · rcases ih (n + 1) (sDelete pl n st ip).1 j with h | ⟨h, hj⟩
      · rcases hstep with h' | ⟨h', hj'⟩
        · exact Or.inl (h.trans h')
        · exact Or.inr ⟨h.trans h', by simp [hj']⟩
      · exact Or.inr ⟨h, List.mem_cons_of_mem _ hj⟩

theorem deleteLoop_noCrash (pl : Plan) (h1 : pl.crashBefore = none) (h2 : pl.crashAfter = none) :
    ∀ (l : List IP) (n : Nat) (st : Store), (deleteLoop pl l n st).2 = false := by
  intro l
  induction l with
  | nil => intro n st; rfl
  | cons ip rest ih =>
    intro n st
    unfold deleteLoop
    have : (sDelete pl n st ip).2 ≠ some Err.crashed := by
      unfold sDelete
      rw [h1, h2]
      simp only [reduceCtorEq, if_false]
      split
      · simp
      · split <;> simp
    rw [if_neg this]
    exact ih _ _

/-- without faults every stored name in the list is gone afterwards -/
theorem deleteLoop_clean (pl : Plan) (hf : pl.fails = []) : ∀ (l : List IP) (n : Nat) (st : Store),
    (deleteLoop pl l n st).2 = false → ∀ j ∈ l, (deleteLoop pl l n st).1.get j = none := by
  intro l
  induction l with
  | nil => intro n st _ j hj; simp at hj
  | cons ip rest ih =>
    intro n st hnc j hj
    unfold deleteLoop at hnc ⊢
    by_cases hc : (sDelete pl n st ip).2 = some Err.crashed
    · rw [if_pos hc] at hnc; simp at hnc
    · rw [if_neg hc] at hnc ⊢
      by_cases hjr : j ∈ rest
      · exact ih _ _ hnc j hjr
      · have hji : j = ip := by
          rcases List.mem_cons.mp hj with h | h
          · exact h
          · exact absurd h hjr
        subst hji
        have hgone : (sDelete pl n st j).1.get j = none := by
          rcases sDelete_cases pl n st j with ⟨e, _, heq, hcause⟩ | ⟨_, heq⟩ | ⟨st', heq⟩
          · rcases hcause with ⟨_, hfa⟩ | ⟨_, hnone⟩
            · have := failsAt_mem hfa; rw [hf] at this; simp at this
            · rw [heq]; exact hnone
          · rw [heq]; simp
          · rw [heq] at hc; simp at hc
        rcases deleteLoop_get pl rest (n + 1) (sDelete pl n st j).1 j with h | ⟨h, _⟩
        · rw [h]; exact hgone
        · exact h

/-! ## ConfigurePool -/

theorem memOK_configurePool {s : State} (h : MemOK s) (pools : List Pool) (order : List IP) (pl : Plan) :
    MemOK (configurePool s pools order pl).1 := by
  unfold configurePool
  split
  · exact h
  · unfold configurePoolApply
    split
    · exact memOK_store h _
    · constructor
      · intro ip; exact mem_freshFree _ _ ip
      · intro ip r hg
        simp only [keepConfigured_get] at hg
        by_cases hc : configured (sortPools pools) ip = true
        · exact hc
        · simp [hc] at hg

theorem admissibleDeletes_notin {pools : List Pool} {st : Store} {order : List IP}
    (h : admissibleDeletes pools st order = true) {ip : IP} (hc : configured (sortPools pools) ip = true) : ip ∉ order := by
  intro hin
  simp only [admissibleDeletes, Bool.and_eq_true, List.all_eq_true] at h
  have := h.1.2 ip hin
  simp [hc] at this

theorem sync_configurePool {s : State} (hs : Sync s) (pools : List Pool) (order : List IP) (pl : Plan)
    (hadm : admissibleDeletes pools s.store order = true)
    (hne : (configurePool s pools order pl).2.err ≠ some .crashed) : Sync (configurePool s pools order pl).1 := by
  unfold configurePool at hne ⊢
  cases hl : sList pl 0 with
  | some e => exact hs
  | none =>
    rw [hl] at hne
    simp only at hne ⊢
    unfold configurePoolApply at hne ⊢
    by_cases hcr : (deleteLoop pl order 1 s.store).2 = true
    · rw [if_pos hcr] at hne; simp [Out.fail] at hne
    · rw [if_neg hcr]
      intro ip hc
      right
      show optEq ((keepConfigured (sortPools pools) s.store).get ip) ((deleteLoop pl order 1 s.store).1.get ip)
      have hc' : configured (sortPools pools) ip = true := hc
      rw [keepConfigured_get, if_pos hc']
      rcases deleteLoop_get pl order 1 s.store ip with h | ⟨_, hin⟩
      · rw [h]; exact optEq_refl _
      · exact absurd hin (admissibleDeletes_notin hadm hc')

/-! ## restart -/

theorem restart_eq (s : State) :
    restart s = { pools := sortPools s.pools, alloc := keepConfigured (sortPools s.pools) s.store,
                  free := freshFree (sortPools s.pools) (keepConfigured (sortPools s.pools) s.store),
                  store := (deleteLoop {} (staleKeys s.pools s.store) 1 s.store).1, pending := [], clock := s.clock } := by
  unfold restart configurePool
  have h0 : sList ({} : Plan) 0 = none := by simp [sList, Plan.failsAt]
  simp only [h0]
  unfold configurePoolApply
  rw [if_neg (by simp [deleteLoop_noCrash {} rfl rfl])]

theorem staleKeys_notin {pools : List Pool} {st : Store} {ip : IP} (hc : configured (sortPools pools) ip = true) :
    ip ∉ staleKeys pools st := by
  simp [staleKeys, hc]

theorem restart_store_get (s : State) (ip : IP) (hc : configured s.pools ip = true) :
    (restart s).store.get ip = s.store.get ip := by
  rw [restart_eq]
  have hc' : configured (sortPools s.pools) ip = true := by rw [configured_sortPools]; exact hc
  rcases deleteLoop_get {} (staleKeys s.pools s.store) 1 s.store ip with h | ⟨_, hin⟩
  · exact h
  · exact absurd hin (staleKeys_notin hc')

theorem restart_alloc_get (s : State) (ip : IP) :
    (restart s).alloc.get ip = if configured s.pools ip = true then s.store.get ip else none := by
  rw [restart_eq]
  simp only [keepConfigured_get, configured_sortPools]

theorem restart_pools (s : State) (ip : IP) : configured (restart s).pools ip = configured s.pools ip := by
  rw [restart_eq]; exact configured_sortPools _ _

theorem memOK_restart (s : State) : MemOK (restart s) := by
  rw [restart_eq]
  constructor
  · intro ip; exact mem_freshFree _ _ ip
  · intro ip r hg
    simp only [keepConfigured_get] at hg
    by_cases hc : configured (sortPools s.pools) ip = true
    · exact hc
    · simp [hc] at hg

theorem agree_restart (s : State) : Agree (restart s) := by
  refine ⟨memOK_restart s, ?_⟩
  intro ip hc
  right
  rw [restart_pools] at hc
  rw [restart_alloc_get, if_pos hc, restart_store_get s ip hc]
  exact optEq_refl _

/-! ## events caused by store changes -/

theorem mem_insertEvent (e x : Event) : ∀ l : List Event, x ∈ insertEvent e l ↔ x = e ∨ x ∈ l := by
  intro l
  induction l with
  | nil => simp [insertEvent]
  | cons f t ih =>
    unfold insertEvent
    split
    · simp
    · simp only [List.mem_cons, ih]
      constructor
      · rintro (h | h | h)
        · exact Or.inr (Or.inl h)
        · exact Or.inl h
        · exact Or.inr (Or.inr h)
      · rintro (h | h | h)
        · exact Or.inr (Or.inl h)
        · exact Or.inl h
        · exact Or.inr (Or.inr h)

theorem mem_foldl_insertEvent (x : Event) : ∀ (l acc : List Event),
    x ∈ l.foldl (fun acc e => insertEvent e acc) acc ↔ x ∈ acc ∨ x ∈ l := by
  intro l
  induction l with
  | nil => intro acc; simp
  | cons y t ih =>
    intro acc
    simp only [List.foldl, ih, mem_insertEvent, List.mem_cons]
    constructor
    · rintro ((h | h) | h)
      · exact Or.inr (Or.inl h)
      · exact Or.inl h
      · exact Or.inr (Or.inr h)
    · rintro (h | h | h)
      · exact Or.inl (Or.inr h)
      · exact Or.inl (Or.inl h)
      · exact Or.inr h

theorem mem_sortEvents (x : Event) (l : List Event) : x ∈ sortEvents l ↔ x ∈ l := by
  unfold sortEvents
  rw [mem_foldl_insertEvent]
  exact ⟨fun h => h.resolve_left List.not_mem_nil, Or.inr⟩

theorem get_of_mem_first {t : Store} {ip : IP} {r : Rec} (h : t.get ip = some r) : (ip, r) ∈ t ∧ (t.get ip == some r) = true :=
  ⟨Tbl.get_mem h, by simp [h]⟩

/-- a labelled object which appears causes an add event -/
theorem storeEvents_appear {before after : Store} {ip : IP} {r : Rec} (hb : before.get ip = none) (ha : after.get ip = some r)
    (hr : r.reserved = true) : addEvent ip r ∈ storeEvents before after := by
  simp only [storeEvents, List.mem_append, mem_sortEvents, List.mem_filterMap]
  left
  exact ⟨(ip, r), Tbl.get_mem ha, by simp [hr, hb, ha]⟩

/-- a labelled object which disappears causes a delete event -/
theorem storeEvents_vanish {before after : Store} {ip : IP} {r : Rec} (hb : before.get ip = some r) (ha : after.get ip = none)
    (hr : r.reserved = true) : delEvent ip r ∈ storeEvents before after := by
  simp only [storeEvents, List.mem_append, mem_sortEvents, List.mem_filterMap]
  right
  exact ⟨(ip, r), Tbl.get_mem hb, by simp [hr, ha, hb]⟩

/-- every add event announces a labelled object which is visible now and was absent before -/
theorem storeEvents_add {before after : Store} {x : Event} (hx : x ∈ storeEvents before after) (ha : x.assign = true) :
    ∃ r, after.get x.ip = some r ∧ r.reserved = true ∧ before.get x.ip = none ∧ x = addEvent x.ip r := by
  simp only [storeEvents, List.mem_append, mem_sortEvents, List.mem_filterMap] at hx
  rcases hx with ⟨p, _, hp⟩ | ⟨p, _, hp⟩
  · split at hp
    · next hc =>
      simp only [Bool.and_eq_true, beq_iff_eq, Option.isNone_iff_eq_none] at hc
      simp only [Option.some.injEq] at hp
      subst hp
      exact ⟨p.2, hc.1.2, hc.1.1, hc.2, rfl⟩
    · cases hp
  · split at hp
    · simp only [Option.some.injEq] at hp
      subst hp
      simp [delEvent] at ha
    · cases hp

/-- every delete event is about a labelled object which was visible before and is absent now -/
theorem storeEvents_del {before after : Store} {x : Event} (hx : x ∈ storeEvents before after) (ha : x.assign = false) :
    ∃ r, before.get x.ip = some r ∧ r.reserved = true ∧ after.get x.ip = none := by
  simp only [storeEvents, List.mem_append, mem_sortEvents, List.mem_filterMap] at hx
  rcases hx with ⟨p, _, hp⟩ | ⟨p, _, hp⟩
  · split at hp
    · simp only [Option.some.injEq] at hp
      subst hp
      simp [addEvent] at ha
    · cases hp
  · split at hp
    · next hc =>
      simp only [Bool.and_eq_true, beq_iff_eq, Option.isNone_iff_eq_none] at hc
      simp only [Option.some.injEq] at hp
      subst hp
      exact ⟨p.2, hc.1.2, hc.1.1, hc.2⟩
    · cases hp

/-! ## event delivery -/

theorem memOK_deliver {s : State} (h : MemOK s) : MemOK (deliver s).1 := by
  unfold deliver
  split
  · exact h
  · next e rest hp =>
    have h' : MemOK { s with pending := rest } := ⟨h.free_iff, h.alloc_conf⟩
    split
    · exact memOK_fipAssignEvent h' e
    · exact memOK_fipUnassignEvent h' e

theorem sync_deliver {s : State} (h : Agree s) (hcur : Current s) : Sync (deliver s).1 := by
  unfold deliver
  cases hp : s.pending with
  | nil => simp only; exact h.sync
  | cons e rest =>
    simp only
    unfold Current at hcur
    rw [hp] at hcur
    simp only [currentOf] at hcur
    -- addresses other than the event's: nothing changes, and their pending events are still pending
    have hother : ∀ (s2 : State), s2.pools = s.pools → s2.pending = rest → s2.store = s.store →
        (∀ j, j ≠ e.ip → s2.alloc.get j = s.alloc.get j) →
        (configured s.pools e.ip = true → isPending s2 e.ip ∨ optEq (s2.alloc.get e.ip) (s.store.get e.ip)) → Sync s2 := by
      intro s2 hpools hpend hstore halloc hat j hc
      rw [hpools] at hc
      by_cases hj : j = e.ip
      · subst hj; rw [hstore]; exact hat hc
      · rcases h.sync j hc with ⟨e', he', hip⟩ | he
        · left
          rw [hp] at he'
          rcases List.mem_cons.mp he' with he' | he'
          · subst he'; exact absurd hip.symm hj
          · exact ⟨e', by rw [hpend]; exact he', hip⟩
        · right; rw [halloc j hj, hstore]; exact he
    by_cases hass : e.assign = true
    · rw [if_pos hass]
      rw [if_pos hass] at hcur
      unfold fipAssignEvent
      cases hal : s.alloc.get e.ip with
      | some r =>
        have hal' : ({ s with pending := rest } : State).alloc.get e.ip = some r := hal
        refine hother { s with pending := rest } rfl rfl rfl (fun _ _ => rfl) ?_
        intro _
        rcases hcur with ⟨e', he', hip⟩ | hc
        · exact Or.inl ⟨e', he', hip⟩
        · right; rw [hal] at hc; show optEq (s.alloc.get e.ip) _; rw [hal]; simpa using hc
      | none =>
        have hal' : ({ s with pending := rest } : State).alloc.get e.ip = none := hal
        by_cases hin : e.ip ∈ s.free
        · have hin' : e.ip ∈ ({ s with pending := rest } : State).free := hin
          rw [if_pos hin']
          refine hother (memAlloc { s with pending := rest } e.ip _) rfl rfl rfl ?_ ?_
          · intro j hj
            have hne : e.ip ≠ j := fun x => hj x.symm
            simp [memAlloc, Tbl.get_set_ne _ _ hne]
          · intro _
            rcases hcur with ⟨e', he', hip⟩ | hc
            · exact Or.inl ⟨e', he', hip⟩
            · right
              rw [hal] at hc
              simpa [memAlloc, eventRec] using hc
        · have hin' : e.ip ∉ ({ s with pending := rest } : State).free := hin
          rw [if_neg hin']
          refine hother { s with pending := rest } rfl rfl rfl (fun _ _ => rfl) ?_
          intro hcf
          exact absurd ((h.mem.free_iff e.ip).mpr ⟨hcf, hal⟩) hin
    · rw [if_neg hass]
      rw [if_neg hass] at hcur
      have hfact : Generated.Ipam.unassignEventChecksReserved = true := rfl
      unfold fipUnassignEvent fipUnassignEventG
      rw [hfact]
      cases hal : s.alloc.get e.ip with
      | none =>
        simp only
        refine hother { s with pending := rest } rfl rfl rfl (fun _ _ => rfl) ?_
        intro _
        rcases hcur with ⟨e', he', hip⟩ | hc
        · exact Or.inl ⟨e', he', hip⟩
        · right
          rw [hal] at hc
          simp only [unassignCurrent] at hc
          show optEq (s.alloc.get e.ip) _; rw [hal, hc]; trivial
      | some r =>
        simp only [Bool.true_and]
        by_cases hr : r.reserved = true
        · have hnr : (!r.reserved) = false := by simp [hr]
          rw [hnr]
          simp only [Bool.false_eq_true, if_false]
          refine hother (memFree { s with pending := rest } e.ip) rfl rfl rfl ?_ ?_
          · intro j hj
            have hne : e.ip ≠ j := fun x => hj x.symm
            simp [memFree, Tbl.get_erase_ne _ hne]
          · intro _
            rcases hcur with ⟨e', he', hip⟩ | hc
            · exact Or.inl ⟨e', he', hip⟩
            · right
              rw [hal] at hc
              simp only [unassignCurrent, hr, if_true] at hc
              rw [hc]; simp [memFree, optEq]
        · have hnr : (!r.reserved) = true := by simpa using hr
          rw [hnr]
          simp only [if_true]
          refine hother { s with pending := rest } rfl rfl rfl (fun _ _ => rfl) ?_
          intro _
          rcases hcur with ⟨e', he', hip⟩ | hc
          · exact Or.inl ⟨e', he', hip⟩
          · right
            rw [hal] at hc
            simp only [unassignCurrent, hr] at hc
            show optEq (s.alloc.get e.ip) _; rw [hal]; simpa using hc

end Galaxy.Ipam
