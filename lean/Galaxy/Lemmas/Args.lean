/-
  Helper lemmas for the CNI argument codec (C13): Split/Join/SplitN algebra, last-wins fold, iteration orders.
-/
import Galaxy.Model.Args

namespace Galaxy.Args
open Galaxy.Generated.Args

/-! ### splitOn / joinWith / cut -/

theorem splitOn_ne_nil (sep : Char) (s : Str) : splitOn sep s ≠ [] := by
  induction s with
  | nil => simp [splitOn]
  | cons c t ih =>
    simp only [splitOn]
    split
    · simp
    · cases h : splitOn sep t with
      | nil => exact absurd h ih
      | cons a r => simp [consHead]

theorem consHead_append (c : Char) (xs ys : List Str) (h : xs ≠ []) :
    consHead c (xs ++ ys) = consHead c xs ++ ys := by
  cases xs with
  | nil => exact absurd rfl h
  | cons a r => simp [consHead]

/-- `Split(a + sep + b) = Split(a) ++ Split(b)` -/
theorem splitOn_append_sep (sep : Char) (a b : Str) :
    splitOn sep (a ++ sep :: b) = splitOn sep a ++ splitOn sep b := by
  induction a with
  | nil => simp [splitOn]
  | cons c t ih =>
    by_cases hc : c = sep
    · simp [splitOn, hc, ih]
    · simp [splitOn, hc, ih, consHead_append _ _ _ (splitOn_ne_nil sep t)]

theorem splitOn_of_not_mem (sep : Char) (s : Str) (h : sep ∉ s) : splitOn sep s = [s] := by
  induction s with
  | nil => simp [splitOn]
  | cons c t ih =>
    have hc : c ≠ sep := by intro e; apply h; simp [e]
    have ht : sep ∉ t := by intro e; apply h; simp [e]
    simp [splitOn, hc, ih ht, consHead]

/-- `Split(Join(xs, sep), sep) = xs` for non-empty `xs` whose elements do not contain `sep` -/
theorem splitOn_joinWith (sep : Char) (xs : List Str) (hne : xs ≠ []) (h : ∀ x ∈ xs, sep ∉ x) :
    splitOn sep (joinWith sep xs) = xs := by
  induction xs with
  | nil => exact absurd rfl hne
  | cons x r ih =>
    cases r with
    | nil => simp [joinWith, splitOn_of_not_mem sep x (h x (by simp))]
    | cons y r' =>
      have hx : sep ∉ x := h x (by simp)
      have := ih (by simp) (fun z hz => h z (by simp [hz]))
      simp [joinWith, splitOn_append_sep, splitOn_of_not_mem sep x hx, this]

theorem cut_append (sep : Char) (k v : Str) (h : sep ∉ k) : cut sep (k ++ sep :: v) = some (k, v) := by
  induction k with
  | nil => simp [cut]
  | cons c t ih =>
    have hc : c ≠ sep := by intro e; apply h; simp [e]
    have ht : sep ∉ t := by intro e; apply h; simp [e]
    simp [cut, hc, ih ht]

theorem cut_nil (sep : Char) : cut sep [] = none := rfl

/-! ### TrimRight does not change what ParseCNIArgs sees -/

theorem parsePieces_append (t : Tbl Str Str) (a b : List Str) :
    parsePieces t (a ++ b) = parsePieces (parsePieces t a) b := by
  simp [parsePieces, List.foldl_append]

theorem parseEntry_nil (t : Tbl Str Str) : parseEntry t [] = t := by
  simp [parseEntry, cut]

theorem parsePieces_single_nil (t : Tbl Str Str) : parsePieces t [[]] = t := by
  simp [parsePieces, parseEntry_nil]

/-- a trailing entry separator adds an empty piece, which is skipped -/
theorem parseArgs_append_sep (s : Str) : parseArgs (s ++ [parseEntrySep]) = parseArgs s := by
  simp [parseArgs, splitOn_append_sep, parsePieces_append, splitOn, parsePieces_single_nil]

theorem parseArgs_append_replicate (s : Str) (n : Nat) :
    parseArgs (s ++ List.replicate n parseEntrySep) = parseArgs s := by
  induction n with
  | zero => simp
  | succ n ih =>
    rw [List.replicate_succ', ← List.append_assoc, parseArgs_append_sep, ih]

theorem all_of_mem_takeWhile (p : Char → Bool) (l : Str) : ∀ b ∈ l.takeWhile p, p b = true := by
  induction l with
  | nil => simp
  | cons a t ih =>
    intro b hb
    by_cases ha : p a = true
    · simp [List.takeWhile, ha] at hb
      rcases hb with h | h
      · rw [h]; exact ha
      · exact ih b h
    · simp [List.takeWhile, ha] at hb

theorem trimRightChar_decomp (c : Char) (s : Str) :
    ∃ n, s = trimRightChar c s ++ List.replicate n c := by
  refine ⟨(s.reverse.takeWhile (fun x => x == c)).length, ?_⟩
  have h1 : s.reverse = s.reverse.takeWhile (fun x => x == c) ++ s.reverse.dropWhile (fun x => x == c) :=
    (List.takeWhile_append_dropWhile).symm
  have h2 : s.reverse.takeWhile (fun x => x == c) =
      List.replicate (s.reverse.takeWhile (fun x => x == c)).length c := by
    apply List.eq_replicate_iff.mpr
    refine ⟨rfl, ?_⟩
    intro b hb
    have := all_of_mem_takeWhile _ _ b hb
    simpa using this
  have h3 : s = (s.reverse.dropWhile (fun x => x == c)).reverse ++ (s.reverse.takeWhile (fun x => x == c)).reverse := by
    have := congrArg List.reverse h1
    rw [List.reverse_reverse, List.reverse_append] at this
    exact this
  rw [h2] at h3
  simpa [trimRightChar] using h3

/-- `ParseCNIArgs(TrimRight(s, ";")) = ParseCNIArgs(s)` (needs: the cutset is the entry separator) -/
theorem parseArgs_trimRight (s : Str) : parseArgs (trimRightChar parseEntrySep s) = parseArgs s := by
  obtain ⟨n, hn⟩ := trimRightChar_decomp parseEntrySep s
  conv => rhs; rw [hn]
  exact (parseArgs_append_replicate _ n).symm

/-! ### entries that survive -/

/-- pieces of a built argument string are parsed back to `set k v`, in order -/
theorem parsePieces_map_buildEntry (hkv : buildKvSep = parseKvSep) (t : Tbl Str Str) (es : List (Str × Str))
    (h : ∀ kv ∈ es, WFKey kv.1 ∧ WFVal kv.2) :
    parsePieces t (es.map buildEntry) = es.foldl (fun t kv => Tbl.set t kv.1 kv.2) t := by
  induction es generalizing t with
  | nil => rfl
  | cons e r ih =>
    obtain ⟨k, v⟩ := e
    have hk := (h (k, v) (by simp)).1
    have hv := (h (k, v) (by simp)).2
    have : parseEntry t (buildEntry (k, v)) = Tbl.set t k v := by
      simp [parseEntry, buildEntry, hkv, cut_append parseKvSep k v hk.2.1, hk.2.2, hv.2]
    simp only [List.map_cons, parsePieces, List.foldl_cons] at *
    rw [this]
    exact ih _ (fun kv hkv' => h kv (by simp [hkv']))

/-- Split of the joined entries: the entries themselves (the empty string splits into one skipped empty piece) -/
theorem parsePieces_split_buildList (hes : buildEntrySep = parseEntrySep) (hkv : buildKvSep = parseKvSep)
    (t : Tbl Str Str) (es : List (Str × Str)) (h : ∀ kv ∈ es, WFKey kv.1 ∧ WFVal kv.2) :
    parsePieces t (splitOn parseEntrySep (buildList es)) = es.foldl (fun t kv => Tbl.set t kv.1 kv.2) t := by
  cases es with
  | nil => simp [buildList, joinWith, splitOn, parsePieces_single_nil]
  | cons e r =>
    have hsep : ∀ x ∈ (e :: r).map buildEntry, parseEntrySep ∉ x := by
      intro x hx
      obtain ⟨kv, hkvm, rfl⟩ := List.mem_map.mp hx
      have hk := (h kv hkvm).1
      have hv := (h kv hkvm).2
      have hne : parseEntrySep ≠ buildKvSep := by rw [hkv]; decide
      simp only [buildEntry, List.mem_append, List.mem_cons, not_or]
      exact ⟨hk.1, hne, hv.1⟩
    unfold buildList
    rw [hes, splitOn_joinWith parseEntrySep _ (by simp) hsep]
    exact parsePieces_map_buildEntry hkv t _ h

/-! ### last-wins fold vs. lookup -/

theorem get_foldl_set (es : List (Str × Str)) (t : Tbl Str Str) (k : Str) (hnd : (Tbl.keys es).Nodup) :
    Tbl.get (es.foldl (fun t kv => Tbl.set t kv.1 kv.2) t) k =
      match Tbl.get es k with
      | some v => some v
      | none => Tbl.get t k := by
  induction es generalizing t with
  | nil => simp [Tbl.get]
  | cons e r ih =>
    obtain ⟨k0, v0⟩ := e
    have hnd' : (Tbl.keys r).Nodup := by
      simp [Tbl.keys] at hnd ⊢; exact hnd.2
    have hk0 : k0 ∉ Tbl.keys r := by
      simp [Tbl.keys] at hnd ⊢; exact hnd.1
    simp only [List.foldl_cons]
    rw [ih _ hnd']
    by_cases hk : k0 = k
    · subst hk
      have : Tbl.get r k0 = none := by
        cases hg : Tbl.get r k0 with
        | none => rfl
        | some v => exact absurd (Tbl.mem_keys_of_get hg) hk0
      simp [this, Tbl.get]
    · simp [Tbl.get, hk]

theorem get_eq_some_iff_mem (t : Tbl Str Str) (hnd : (Tbl.keys t).Nodup) (k v : Str) :
    Tbl.get t k = some v ↔ (k, v) ∈ t := by
  constructor
  · exact Tbl.get_mem
  · intro hm
    induction t with
    | nil => simp at hm
    | cons e r ih =>
      obtain ⟨k0, v0⟩ := e
      have hnd' : (Tbl.keys r).Nodup := by simp [Tbl.keys] at hnd ⊢; exact hnd.2
      have hk0 : k0 ∉ Tbl.keys r := by simp [Tbl.keys] at hnd ⊢; exact hnd.1
      rcases List.mem_cons.mp hm with h | h
      · cases h; simp [Tbl.get]
      · have hne : k0 ≠ k := by
          intro e; subst e
          exact hk0 (List.mem_map.mpr ⟨(k0, v), h, rfl⟩)
        simp [Tbl.get, hne, ih hnd' h]

theorem keys_nodup_of_perm (es m : Tbl Str Str) (hp : es.Perm m) (hnd : (Tbl.keys m).Nodup) :
    (Tbl.keys es).Nodup := by
  unfold Tbl.keys at *
  exact (hp.map (·.1)).nodup_iff.mpr hnd

/-- lookups do not depend on the order of a map's entries -/
theorem get_perm (es m : Tbl Str Str) (hp : es.Perm m) (hnd : (Tbl.keys m).Nodup) (k : Str) :
    Tbl.get es k = Tbl.get m k := by
  have hnd' : (Tbl.keys es).Nodup := keys_nodup_of_perm es m hp hnd
  apply Option.ext
  intro v
  rw [get_eq_some_iff_mem es hnd', get_eq_some_iff_mem m hnd]
  exact hp.mem_iff

/-! ### iteration orders -/

theorem filterMap_range_getElem? (m : Tbl Str Str) (n : Nat) :
    (List.range n).filterMap (fun i => m[i]?) = m.take n := by
  induction n with
  | zero => simp
  | succ n ih =>
    rw [List.range_succ, List.filterMap_append, ih, List.take_add_one]
    cases h : m[n]? <;> simp [h]

theorem reorder_range (m : Tbl Str Str) : reorder m (List.range m.length) = m := by
  unfold reorder
  rw [filterMap_range_getElem?, List.take_length]

/-- visiting the entries in an admissible order is a permutation of the entries -/
theorem reorder_perm (m : Tbl Str Str) (π : List Nat) (h : Admissible m π) : (reorder m π).Perm m := by
  have h1 : (reorder m π).Perm (reorder m (List.range m.length)) := by
    unfold reorder
    exact List.Perm.filterMap _ h
  rw [reorder_range] at h1
  exact h1

/-! ### the two main lemmas -/

/-- pins on the regenerated separators which the round trip needs -/
structure SepFacts : Prop where
  entry : buildEntrySep = parseEntrySep
  kv : buildKvSep = parseKvSep
  acc : accSep = parseEntrySep
  trim : accTrimChar = parseEntrySep

theorem get_parse_buildArgs (F : SepFacts) (m : Tbl Str Str) (π : List Nat) (hm : WFMap m) (hπ : Admissible m π)
    (k : Str) : Tbl.get (parseArgs (buildArgs m π)) k = Tbl.get m k := by
  have hp := reorder_perm m π hπ
  have hwf : ∀ kv ∈ reorder m π, WFKey kv.1 ∧ WFVal kv.2 := fun kv h => hm.2 kv (hp.mem_iff.mp h)
  have hnd : (Tbl.keys (reorder m π)).Nodup := keys_nodup_of_perm _ _ hp hm.1
  unfold parseArgs buildArgs
  rw [parsePieces_split_buildList F.entry F.kv [] _ hwf, get_foldl_set _ _ _ hnd, get_perm _ _ hp hm.1]
  cases Tbl.get m k <;> simp [Tbl.get]

theorem get_parse_accumulate (F : SepFacts) (prev : Str) (m : Tbl Str Str) (π : List Nat) (hm : WFMap m)
    (hπ : Admissible m π) (k : Str) :
    Tbl.get (parseArgs (accumulate prev m π)) k =
      match Tbl.get m k with
      | some v => some v
      | none => Tbl.get (parseArgs prev) k := by
  have hp := reorder_perm m π hπ
  have hwf : ∀ kv ∈ reorder m π, WFKey kv.1 ∧ WFVal kv.2 := fun kv h => hm.2 kv (hp.mem_iff.mp h)
  have hnd : (Tbl.keys (reorder m π)).Nodup := keys_nodup_of_perm _ _ hp hm.1
  unfold accumulate
  rw [F.trim, F.acc, parseArgs_trimRight]
  unfold parseArgs buildArgs
  rw [splitOn_append_sep, parsePieces_append, parsePieces_split_buildList F.entry F.kv _ _ hwf,
    get_foldl_set _ _ _ hnd, get_perm _ _ hp hm.1]

end Galaxy.Args
