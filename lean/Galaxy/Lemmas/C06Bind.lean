/-
  C06 lemmas, part 7: Bind in a state Filter has prepared (no fault, lister = API truth for the pod).
-/
import Galaxy.Lemmas.C06Filter

namespace Galaxy.Plugin.C06
open Galaxy Galaxy.Plugin

/-! ### ownership -/

/-- the key owns the address: a record under that key is stored at it -/
def Owns (s : State) (k : Key) (ip : IP) : Prop := ∃ r, Tbl.get s.alloc ip = some r ∧ r.key = k

theorem ownsB_iff (s : State) (k : Key) (ip : IP) : ownsB s k ip = true ↔ Owns s k ip := by
  unfold ownsB Owns
  cases h : Tbl.get s.alloc ip with
  | none => simp
  | some r => simp

theorem mem_ipsOfKey_of_owns {s : State} {ip : IP} {k : Key} (h : Owns s k ip) : ip ∈ ipsOfKey s k := by
  obtain ⟨r, hr, hk⟩ := h
  unfold ipsOfKey
  simp only [List.mem_map, List.mem_filter]
  exact ⟨(ip, r), ⟨Tbl.get_mem hr, by simp [hk]⟩, rfl⟩

theorem owns_of_mem_ipsOfKey {s : State} {ip : IP} {k : Key} (hn : (Tbl.keys s.alloc).Nodup) (h : ip ∈ ipsOfKey s k) :
    Owns s k ip := by
  unfold ipsOfKey at h
  simp only [List.mem_map, List.mem_filter] at h
  obtain ⟨⟨ip', r⟩, ⟨hm, hk⟩, he⟩ := h
  simp at he hk; subst he
  exact ⟨r, Tbl.get_of_mem_nodup hn hm, hk⟩

theorem filterMap_id_map_some {α : Type} (l : List α) : (l.map some).filterMap id = l := by
  induction l with
  | nil => rfl
  | cons x t ih => simp [ih]

/-- whatever `ByKeyAndIPRanges` returns is owned by the key -/
theorem byKeyAndRanges_owns {s : State} (hn : (Tbl.keys s.alloc).Nodup) (k : Key) (rss : List Ranges) (ip : IP)
    (h : ip ∈ (byKeyAndRanges s k rss).filterMap id) : Owns s k ip := by
  unfold byKeyAndRanges at h
  split at h
  · rw [filterMap_id_map_some] at h
    exact owns_of_mem_ipsOfKey hn h
  · simp only [List.mem_filterMap, List.mem_map, id] at h
    obtain ⟨o, ⟨rs, _, ho⟩, he⟩ := h
    subst he
    exact (ownsB_iff s k ip).mp (List.find?_some ho)

theorem held_owns {s : State} (hn : (Tbl.keys s.alloc).Nodup) (pod : Pod) (ip : IP) (h : ip ∈ held s pod) :
    Owns s (keyOf pod) ip := byKeyAndRanges_owns hn _ _ ip h

theorem find?_mono {α : Type} (p q : α → Bool) (hpq : ∀ x, p x = true → q x = true) :
    ∀ (l : List α) (a : α), l.find? q = some a → p a = true → l.find? p = some a := by
  intro l
  induction l with
  | nil => intro a h; simp at h
  | cons x t ih =>
    intro a h hp
    rw [List.find?_cons] at h ⊢
    cases hqx : q x with
    | true =>
      simp only [hqx] at h; cases h
      simp [hp]
    | false =>
      simp only [hqx] at h
      have hpx : p x = false := by
        cases hx : p x with
        | false => rfl
        | true => rw [hpq x hx] at hqx; cases hqx
      simp only [hpx]
      exact ih a h hp

/-- an address the query returns after more addresses were stored under the key, and that the key owned before, was
    returned before as well (requests with ranges) -/
theorem byKeyAndRanges_earlier (s s' : State) (k : Key) (rss : List Ranges) (hne : rss ≠ [])
    (hmono : ∀ x, Owns s k x → Owns s' k x) (ip : IP)
    (hip : ip ∈ (byKeyAndRanges s' k rss).filterMap id) (hown : Owns s k ip) :
    ip ∈ (byKeyAndRanges s k rss).filterMap id := by
  have hre : rss.isEmpty = false := by
    cases rss with
    | nil => exact absurd rfl hne
    | cons _ _ => rfl
  unfold byKeyAndRanges at hip ⊢
  simp only [hre, Bool.false_eq_true, if_false, List.mem_filterMap, List.mem_map, id] at hip ⊢
  obtain ⟨o, ⟨rs, hrs, ho⟩, he⟩ := hip
  subst he
  refine ⟨some ip, ⟨rs, hrs, ?_⟩, rfl⟩
  apply find?_mono (ownsB s k) (ownsB s' k) _ _ ip ho ((ownsB_iff s k ip).mpr hown)
  intro x hx
  exact (ownsB_iff s' k x).mpr (hmono x ((ownsB_iff s k x).mp hx))

/-! ### the request -/

theorem unfoundRanges_subset : ∀ (infos : List (Option IP)) (rss : List Ranges) (r : Ranges),
    r ∈ unfoundRanges infos rss → r ∈ rss := by
  intro infos rss r h
  unfold unfoundRanges at h
  simp only [List.mem_filterMap] at h
  obtain ⟨⟨o, x⟩, hm, hx⟩ := h
  have := (List.of_mem_zip hm).2
  split at hx
  · cases hx; exact this
  · cases hx

theorem unfoundRanges_cons (o : Option IP) (t : List (Option IP)) (rs : Ranges) (u : List Ranges) :
    unfoundRanges (o :: t) (rs :: u) = (if o.isNone then [rs] else []) ++ unfoundRanges t u := by
  unfold unfoundRanges
  cases o <;> simp

/-- the unowned range lists of a pairwise disjoint request are pairwise disjoint -/
theorem wfRequest_unfound : ∀ (rss : List Ranges) (infos : List (Option IP)), wfRequest rss = true →
    wfRequest (unfoundRanges infos rss) = true := by
  intro rss
  induction rss with
  | nil => intro infos _; simp [unfoundRanges, wfRequest]
  | cons rs u ih =>
    intro infos hwf
    obtain ⟨hd, hu⟩ := wfRequest_cons hwf
    cases infos with
    | nil => simp [unfoundRanges, wfRequest]
    | cons o t =>
      rw [unfoundRanges_cons]
      cases o with
      | some _ => simpa using ih t hu
      | none =>
        simp only [Option.isNone_none, if_true, List.singleton_append]
        unfold wfRequest
        simp only [Bool.and_eq_true, List.all_eq_true]
        exact ⟨fun r hr => hd r (unfoundRanges_subset t u r hr), ih t hu⟩

/-! ### the assign / UpdateAttr loop and the binding -/

theorem bindLoop_ok (k : Key) (node : String) (a : Attr) (reserved : List IP) : ∀ (l : List IP) (t : State),
    Coherent t → NoFault t → (∀ ip, ip ∈ l → ip ∈ reserved → Owns t k ip) →
    (bindLoop t k node a reserved l).2 = .ok ∧ Frame t (bindLoop t k node a reserved l).1 := by
  intro l
  induction l with
  | nil => intro t _ _ _; exact ⟨rfl, Frame.refl t⟩
  | cons ip rest ih =>
    intro t hc hf hown
    have hp := provAssign_ok hf node ip
    have fr1 := provAssign_frame t node ip
    have hc1 := provAssign_coherent hc node ip
    have hf1 := hf.of_frame fr1
    unfold bindLoop
    simp only [hp, Bool.not_true, Bool.false_eq_true, if_false]
    by_cases hr : reserved.contains ip = true
    · simp only [hr, if_true]
      have hr' : ip ∈ reserved := by simpa using hr
      obtain ⟨r, hg, hk⟩ := hown ip (by simp) hr'
      have hg1 : Tbl.get (provAssign t node ip).1.alloc ip = some r := by rw [provAssign_alloc]; exact hg
      have hu := updateAttr_succeeds hc1 hf1 k ip a r hg1 hk
      simp only [hu]
      have fr2 := (updateAttr_chg (provAssign t node ip).1 k ip a).frame
      have hc2 := updateAttr_coherent (provAssign t node ip).1 k ip a hc1
      have := ih _ hc2 (hf1.of_frame fr2) (fun j hj hjr => by
        apply updateAttr_keeps_key
        rw [provAssign_alloc]
        exact hown j (by simp [hj]) hjr)
      exact ⟨this.1, (fr1.trans fr2).trans this.2⟩
    · have hr' : reserved.contains ip = false := by simpa using hr
      simp only [hr', Bool.false_eq_true, if_false]
      have := ih _ hc1 hf1 (fun j hj hjr => by
        unfold Owns; rw [provAssign_alloc]; exact hown j (by simp [hj]) hjr)
      exact ⟨this.1, fr1.trans this.2⟩

theorem toHInfo_pools {s s' : State} (h : s'.pools = s.pools) (ip : IP) : toHInfo s' ip = toHInfo s ip := by
  unfold toHInfo; rw [h]

theorem bindCommit_ok {t : State} (hf : NoFault t) (pod : Pod) (ns name : String) (uid : Nat) (node : String)
    (ips : List IP) (tp : Pod) (hp : Tbl.get t.pods (ns, name) = some tp) (hu : uid = 0 ∨ tp.uid = uid)
    (hnode : tp.node = "") :
    (bindCommit t pod ns name uid node ips).2.res = .ok ∧
      (bindCommit t pod ns name uid node ips).2.ips = ips.map (toHInfo t) := by
  unfold bindCommit
  have h1 := api_ok hf
  simp only [h1, Bool.false_eq_true, if_false]
  have hp' : Tbl.get t.api.1.pods (ns, name) = some tp := hp
  simp only [hp']
  have : ¬ ((uid ≠ 0 ∧ tp.uid ≠ uid) ∨ tp.node ≠ "") := by
    rintro (⟨h1, h2⟩ | h3)
    · rcases hu with h | h
      · exact h1 h
      · exact h2 h
    · exact h3 hnode
  simp [this]

/-- without an injected fault the crash plan never fires: the binding call is the plain `bindCommit` -/
theorem bindCommitX_nofault {t : State} (hf : NoFault t) (pod : Pod) (ns name : String) (uid : Nat) (node : String)
    (ips : List IP) : bindCommitX t pod ns name uid node ips = bindCommit t pod ns name uid node ips := by
  unfold bindCommitX
  simp [api_ok hf]

/-- the Binding call is answered truthfully (no API fault), the pod exists, is the one the scheduler binds and is not
    assigned to a node yet: the end of Bind is the plain `bindCommit` -/
theorem bindFinish_plain (F : Facts) {t : State} (hf : NoFault t) (pod : Pod) (ns name : String) (uid : Nat)
    (node : String) (ips : List IP) (tp : Pod) (hp : Tbl.get t.pods (ns, name) = some tp) (hu : uid = 0 ∨ tp.uid = uid)
    (hnode : tp.node = "") :
    bindFinish F t pod ns name uid node ips .truthful = bindCommit t pod ns name uid node ips := by
  have : ¬ ((uid ≠ 0 ∧ tp.uid ≠ uid) ∨ tp.node ≠ "") := by
    rintro (⟨h1, h2⟩ | h3)
    · rcases hu with h | h
      · exact h1 h
      · exact h2 h
    · exact h3 hnode
  unfold bindFinish bindOutcome
  simp only [hp, this, if_false, reduceCtorEq]
  exact bindCommitX_nofault hf pod ns name uid node ips

/-! ### Bind, unfolded once -/

/-- the UID guard of `allocateIP` ("waiting for delete event of … before reuse this ip") -/
def uidConflict (F : Facts) (t : State) (pod : Pod) (infos : List (Option IP)) : Bool :=
  (bindGuardIPs F t pod infos).any (fun ip =>
    match Tbl.get t.alloc ip with
    | some r => r.uid != 0 && r.uid != pod.uid
    | none => false)

/-- the scheduler binds the pod the lister shows: Bind's lister-UID check passes -/
theorem listerUid_ok (F : Facts) (pod : Pod) (uid : Nat) (h : uid = 0 ∨ pod.uid = uid) :
    (F.bindChecksListerUID && uid != 0 && pod.uid != 0 && pod.uid != uid) = false := by
  rcases h with h | h
  · subst h; simp
  · subst h; simp

theorem bind_eq (F : Facts) (t : State) (ns name : String) (uid : Nat) (node : String) (ch : Choice) (pod : Pod)
    (hv : Tbl.get t.vPods (ns, name) = some pod) (hw : pod.wants = true) (hlu : uid = 0 ∨ pod.uid = uid)
    (infos : List (Option IP))
    (hi : bindInfos t pod ch = some infos) (hu : (F.bindChecksUID && uidConflict F t pod infos) = false)
    (A : State × Res × List (Option IP))
    (hA : bindAlloc t pod node { policy := policyOf pod, node := node, uid := pod.uid } infos ch.pick = A) :
    bind F t ns name uid node ch =
      match A.2.1 with
      | .inadmissible => (t, Out.bad)
      | .err c => (A.1, Out.err c)
      | .ok =>
        match (bindLoop A.1 (keyOf pod) node { policy := policyOf pod, node := node, uid := pod.uid }
            (infos.filterMap id) (A.2.2.filterMap id)).2 with
        | .ok => bindFinish F (bindLoop A.1 (keyOf pod) node { policy := policyOf pod, node := node, uid := pod.uid }
            (infos.filterMap id) (A.2.2.filterMap id)).1 pod ns name uid node (A.2.2.filterMap id) ch.answer
        | e => ((bindLoop A.1 (keyOf pod) node { policy := policyOf pod, node := node, uid := pod.uid }
            (infos.filterMap id) (A.2.2.filterMap id)).1, { res := e }) := by
  subst hA
  unfold bind
  simp only [hv, hw, hi, listerUid_ok F pod uid hlu, Bool.not_true, Bool.false_eq_true, if_false]
  split
  · rename_i h
    have h2 : (F.bindChecksUID && uidConflict F t pod infos) = true := h
    rw [hu] at h2; cases h2
  · rfl

theorem bind_bad (F : Facts) (t : State) (ns name : String) (uid : Nat) (node : String) (ch : Choice) (pod : Pod)
    (hv : Tbl.get t.vPods (ns, name) = some pod) (hw : pod.wants = true) (hlu : uid = 0 ∨ pod.uid = uid)
    (hi : bindInfos t pod ch = none) :
    (bind F t ns name uid node ch).2.res = .inadmissible := by
  unfold bind
  simp only [hv, hw, hi, listerUid_ok F pod uid hlu, Bool.not_true, Bool.false_eq_true, if_false]
  rfl

theorem bind_waiting (F : Facts) (t : State) (ns name : String) (uid : Nat) (node : String) (ch : Choice) (pod : Pod)
    (hv : Tbl.get t.vPods (ns, name) = some pod) (hw : pod.wants = true) (hlu : uid = 0 ∨ pod.uid = uid)
    (infos : List (Option IP))
    (hi : bindInfos t pod ch = some infos) (hu : (F.bindChecksUID && uidConflict F t pod infos) = true) :
    (bind F t ns name uid node ch).2.res = .err "waiting-for-delete" := by
  unfold bind
  simp only [hv, hw, hi, listerUid_ok F pod uid hlu, Bool.not_true, Bool.false_eq_true, if_false]
  split
  · rfl
  · rename_i h
    exact absurd (hu : _ = true) h

end Galaxy.Plugin.C06
