/-
  API-level lemmas for C11: the key `ReleaseIPs` rebuilds from a listed entry, and the footprint of a release.
-/
import Galaxy.Lemmas.KeysCodec

namespace Galaxy.Keys
open Galaxy.Generated.Keys

/-- an app-type prefix `FormatKey` can produce: `GetAppTypePrefix` of a non-empty, separator-free kind
    (`"NULL"` gives `NULL_`, `"StatefulSet"` gives `sts_`, `"ReplicaSet"` gives `dp_`, any other kind its lower-cased name + `_`) -/
def Producible (tp : Str) : Prop := ∃ kind, kind ≠ [] ∧ noSep kind ∧ tp = getAppTypePrefix kind

theorem Producible.wfType {tp : Str} (h : Producible tp) : WFType tp := by
  obtain ⟨k, _, hk, rfl⟩ := h
  exact getAppTypePrefix_wf hk

theorem producible_sts : Producible stsPrefix := ⟨kindStatefulSet, by decide, by decide, by decide⟩
theorem producible_dp : Producible dpPrefix := ⟨kindReplicaSet, by decide, by decide, by decide⟩
theorem producible_null : Producible noRefAppTypePrefix := ⟨noRefAppName, by decide, by decide, by decide⟩

theorem fact_releaseDefault : releaseDefaultsToSts = true := by decide
theorem fact_releaseMatchesKey : releaseMatchesKey = true := by decide

/-- without an app the key does not depend on type, and (namespace being empty) not on the pod either -/
theorem genKey_bare (tp tp' pod pod' pool : Str) : genKey tp [] [] pod pool = genKey tp' [] [] pod' pool := by
  unfold genKey
  by_cases hp : pool = [] <;> simp [hp]

theorem convert_genKey (ip : Nat) (p : Parts) (h : WF p) :
    convert ip p.key =
      { ip := ip, ns := p.ns, app := p.app, pod := p.pod, pool := p.pool, appType := getAppType p.tp } := by
  unfold convert
  rw [parseKey_genKey p h]
  simp [Parts.obj, newKeyObj]

theorem apiPrefix_roundtrip {tp : Str} (h : Producible tp) (dflt : Bool) :
    apiPrefixWith dflt (getAppType tp) = tp := by
  obtain ⟨k, hk, _, rfl⟩ := h
  have hne := getAppType_getAppTypePrefix_ne_nil hk
  unfold apiPrefixWith
  cases dflt <;> simp [hne, getAppTypePrefix_getAppType]

/-- the key rebuilt from a listed entry is the record's key -/
theorem releaseKeyWith_convert (ip : Nat) (p : Parts) (h : WF p) (ht : p.app ≠ [] → Producible p.tp)
    (dflt : Bool) : releaseKeyWith dflt (convert ip p.key) = p.key := by
  rw [convert_genKey ip p h]
  obtain ⟨tp, ns, app, pod, pool⟩ := p
  simp only [releaseKeyWith, newKeyObj, Parts.key]
  by_cases ha : app = []
  · obtain ⟨h1, h2, h3⟩ := h.bare ha
    simp only at h1 h2 h3
    subst ha h1 h2 h3
    exact genKey_bare _ _ _ _ _
  · rw [apiPrefix_roundtrip (ht ha)]

/-- with the app type left out the rebuilt key is the statefulset key (when the default is in place) -/
theorem releaseKeyWith_omitted (ip : Nat) (p : Parts) (h : WF p) (ht : p.app ≠ [] → p.tp = stsPrefix) :
    releaseKeyWith true { convert ip p.key with appType := [] } = p.key := by
  rw [convert_genKey ip p h]
  obtain ⟨tp, ns, app, pod, pool⟩ := p
  simp only [releaseKeyWith, newKeyObj, Parts.key, apiPrefixWith, if_true]
  by_cases ha : app = []
  · obtain ⟨h1, h2, h3⟩ := h.bare ha
    simp only at h1 h2 h3
    subst ha h1 h2 h3
    exact genKey_bare _ _ _ _ _
  · have := ht ha
    simp only at this
    rw [this]

/-! ### footprint of a release -/

theorem apiRelease_footprint (a : Alloc) (running : Bool) (ip : Nat) (key : Str) (ip' : Nat)
    (h : (apiRelease a running ip key).1.get ip' ≠ a.get ip') : ip' = ip ∧ a.get ip = some key := by
  unfold apiRelease at h
  rw [fact_releaseMatchesKey] at h
  cases hg : a.get ip with
  | none => simp [hg] at h
  | some k =>
    simp only [hg, Bool.true_and] at h
    by_cases hk : k = key
    · subst hk
      cases running
      · simp only [ne_eq, not_true_eq_false, decide_false, Bool.false_eq_true, if_false] at h
        by_cases e : ip = ip'
        · exact ⟨e.symm, rfl⟩
        · rw [Tbl.get_erase_ne a e] at h; exact absurd rfl h
      · simp at h
    · simp [hk] at h

theorem apiRelease_released (a : Alloc) (running : Bool) (ip : Nat) (key : Str)
    (h : (apiRelease a running ip key).2 = .released) :
    a.get ip = some key ∧ running = false ∧ (apiRelease a running ip key).1.get ip = none := by
  unfold apiRelease at h ⊢
  rw [fact_releaseMatchesKey] at h ⊢
  cases hg : a.get ip with
  | none => simp [hg] at h
  | some k =>
    simp only [hg, Bool.true_and] at h ⊢
    by_cases hk : k = key
    · subst hk
      cases running <;> simp at h ⊢
    · simp [hk] at h

theorem releaseEntry_footprint (a : Alloc) (pl rn : Entry → Bool) (e : Entry) (ip' : Nat)
    (h : (releaseEntry a pl rn e).1.get ip' ≠ a.get ip') : e.ip = ip' ∧ a.get ip' = some (releaseKey e) := by
  unfold releaseEntry at h
  split at h
  · have := apiRelease_footprint a (rn e) e.ip (releaseKey e) ip' h
    exact ⟨this.1.symm, by rw [this.1]; exact this.2⟩
  · exact absurd rfl h

theorem releaseAll_footprint (a : Alloc) (pl rn : Entry → Bool) (es : List Entry) (ip' : Nat)
    (h : (releaseAll a pl rn es).get ip' ≠ a.get ip') :
    ∃ e ∈ es, e.ip = ip' ∧ a.get ip' = some (releaseKey e) := by
  induction es generalizing a with
  | nil => exact absurd rfl h
  | cons e es ih =>
    simp only [releaseAll] at h
    by_cases hc : (releaseEntry a pl rn e).1.get ip' = a.get ip'
    · rw [← hc] at h
      obtain ⟨e', he', h1, h2⟩ := ih _ h
      exact ⟨e', List.mem_cons_of_mem _ he', h1, by rw [← hc]; exact h2⟩
    · have := releaseEntry_footprint a pl rn e ip' hc
      exact ⟨e, by simp, this.1, this.2⟩

/-! ### the handler as written (two loops) -/

theorem releaseRequest_state (a : Alloc) (pl rn : Entry → Bool) (es : List Entry) :
    (releaseRequest a pl rn es).1 = releaseAll a pl rn es := by
  simp only [releaseRequest]
  induction es generalizing a with
  | nil => rfl
  | cons e es ih =>
    by_cases h : releasable e (pl e) = true
    · simp only [List.filter_cons, h, if_true, releaseLoop, releaseAll, releaseEntry]
      exact ih _
    · simp only [List.filter_cons, h, releaseAll, releaseEntry]
      exact ih _

theorem apiRelease_none_stays (a : Alloc) (running : Bool) (ip : Nat) (key : Str) (ip' : Nat)
    (h : a.get ip' = none) : (apiRelease a running ip key).1.get ip' = none := by
  cases hc : (apiRelease a running ip key).1.get ip' with
  | none => rfl
  | some k =>
    have := apiRelease_footprint a running ip key ip' (by rw [hc, h]; simp)
    rw [this.1] at h
    rw [h] at this
    exact absurd this.2 (by simp)

theorem releaseLoop_none_stays (a : Alloc) (rn : Entry → Bool) (es : List Entry) (ip' : Nat)
    (h : a.get ip' = none) : (releaseLoop a rn es).1.get ip' = none := by
  induction es generalizing a with
  | nil => exact h
  | cons e es ih =>
    simp only [releaseLoop]
    exact ih _ (apiRelease_none_stays a (rn e) e.ip (releaseKey e) ip' h)

theorem apiRelease_not_failed (a : Alloc) (running : Bool) (ip : Nat) (key : Str)
    (h : (apiRelease a running ip key).2.failed = false) : (apiRelease a running ip key).1.get ip = none := by
  unfold apiRelease at h ⊢
  cases hg : a.get ip with
  | none => simp [hg]
  | some k =>
    simp only [hg] at h ⊢
    split at h
    · simp [RelOut.failed] at h
    · split at h
      · simp [RelOut.failed] at h
      · rename_i h1 h2
        rw [if_neg h1, if_neg h2]
        exact Tbl.get_erase_self a ip

/-- an entry handed to the second loop whose ip is still allocated afterwards is reported unreleased -/
theorem releaseLoop_consistent (a : Alloc) (rn : Entry → Bool) (es : List Entry) (e : Entry) (he : e ∈ es)
    (h : (releaseLoop a rn es).1.get e.ip ≠ none) : e.ip ∈ (releaseLoop a rn es).2 := by
  induction es generalizing a with
  | nil => cases he
  | cons x xs ih =>
    simp only [releaseLoop] at h ⊢
    rcases List.mem_cons.mp he with rfl | hm
    · cases hf : (apiRelease a (rn e) e.ip (releaseKey e)).2.failed with
      | true => simp
      | false =>
        exact absurd (releaseLoop_none_stays _ rn xs e.ip (apiRelease_not_failed a (rn e) e.ip (releaseKey e) hf)) h
    · have := ih _ hm h
      split
      · exact List.mem_cons_of_mem _ this
      · exact this

theorem releaseRequest_consistent (a : Alloc) (pl rn : Entry → Bool) (es : List Entry) (e : Entry) (he : e ∈ es)
    (h : (releaseRequest a pl rn es).1.get e.ip ≠ none) : e.ip ∈ (releaseRequest a pl rn es).2 := by
  simp only [releaseRequest] at h ⊢
  by_cases hr : releasable e (pl e) = true
  · apply List.mem_append_right
    exact releaseLoop_consistent a rn _ e (List.mem_filter.mpr ⟨he, hr⟩) h
  · apply List.mem_append_left
    exact List.mem_map.mpr ⟨e, List.mem_filter.mpr ⟨he, by simp [hr]⟩, rfl⟩

end Galaxy.Keys
