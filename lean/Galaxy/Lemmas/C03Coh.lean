/-
  C03 proofs, part 4: memory and store stay coherent along EVERY history of moves (any choices, any fault indices, stale
  listers, delayed / dropped events, reloads, restarts).  Unlike `Galaxy.Plugin.Inv` (C04) this needs no side condition.
-/
import Galaxy.Lemmas.C03Resync

namespace Galaxy.Plugin.C03
open Galaxy Galaxy.Plugin

theorem coh_withFaults (s : State) (f pf : Nat) (h : Coherent s) : Coherent (withFaults s f pf) :=
  coherent_of_eq h rfl rfl rfl rfl

theorem coh_filter (s : State) (ns name : String) (nodes : List String) (ch : Choice) (h : Coherent s) :
    Coherent (filter s ns name nodes ch).1 := by
  unfold filter
  split
  · exact h
  · rename_i pod _
    split
    · exact h
    · dsimp only
      have key : Coherent (getSubnet s pod ch).1 := by
        rcases getSubnet_state s pod ch with e | ⟨resv, n, e⟩
        · rw [e]; exact h
        · rw [e]; exact allocateDuringFilter_coherent s _ resv n _ ch.pick h
      split
      · exact h
      · exact key
      · rename_i set _
        exact (filterNodes_quiet set nodes [] (getSubnet s pod ch).1).1.coherent key

theorem coh_preempt (s : State) (ns name : String) (nodes : List String) (ch : Choice) (h : Coherent s) :
    Coherent (preempt s ns name nodes ch).1 := by
  unfold preempt
  split
  · exact h
  · rename_i pod _
    split
    · exact h
    · have key : Coherent (getSubnet s pod ch).1 := by
        rcases getSubnet_state s pod ch with e | ⟨resv, n, e⟩
        · rw [e]; exact h
        · rw [e]; exact allocateDuringFilter_coherent s _ resv n _ ch.pick h
      split
      · exact h
      · exact key
      · rename_i set _
        exact (filterNodes_quiet set nodes [] (getSubnet s pod ch).1).1.coherent key

theorem coh_bindCommit (s : State) (pod : Pod) (ns name : String) (uid : Nat) (node : String) (ips : List IP)
    (h : Coherent s) : Coherent (bindCommit s pod ns name uid node ips).1 := by
  have hb : Coherent (if s.api.2 then s.api.1.api.1 else s.api.1) := by
    split
    · exact coherent_of_eq h rfl rfl rfl rfl
    · exact coherent_of_eq h rfl rfl rfl rfl
  unfold bindCommit
  split
  · exact coherent_of_eq hb rfl rfl rfl rfl
  · split
    · exact hb
    · exact coherent_of_eq hb rfl rfl rfl rfl

theorem coh_bindCommitX (s : State) (pod : Pod) (ns name : String) (uid : Nat) (node : String) (ips : List IP)
    (h : Coherent s) : Coherent (bindCommitX s pod ns name uid node ips).1 := by
  unfold bindCommitX
  split
  · exact coherent_of_eq h rfl rfl rfl rfl
  · exact coh_bindCommit s pod ns name uid node ips h

theorem coh_bindFinish (s : State) (pod : Pod) (ns name : String) (uid : Nat) (node : String) (ips : List IP)
    (ans : BindAnswer) (h : Coherent s) : Coherent (bindFinish Facts.good s pod ns name uid node ips ans).1 := by
  rcases bindFinish_good_state s pod ns name uid node ips ans with e | e
  · rw [e]; exact coherent_of_eq h rfl rfl rfl rfl
  · rw [e]; exact coh_bindCommit s pod ns name uid node ips h

/-- Bind without a crash plan (`withFaults` resets `crashMode`) -/
theorem coh_bind (s : State) (ns name : String) (uid : Nat) (node : String) (ch : Choice) (h : Coherent s)
    (hcm : s.crashMode = false) : Coherent (bind Facts.good s ns name uid node ch).1 := by
  unfold bind
  split
  · exact h
  · rename_i pod _
    split
    · exact h
    · split
      · exact h
      · split
        · exact h
        · rename_i infos hinfos
          split
          · exact h
          · have hi : infos = byKeyAndRanges s (keyOf pod) pod.ranges ∨ (pod.ranges.isEmpty = true ∧ ¬ infos.isEmpty = true) := by
              unfold bindInfos at hinfos
              split at hinfos
              · rename_i hc
                right
                simp only [Bool.and_eq_true] at hc
                refine ⟨hc.1, ?_⟩
                cases hpf : pickFirst (byKeyAndRanges s (keyOf pod) pod.ranges) ch.first with
                | none => rw [hpf] at hinfos; cases hinfos
                | some ip => rw [hpf] at hinfos; simp at hinfos; subst hinfos; simp
              · left; cases hinfos; rfl
            have ba := bindAlloc_spec s pod node (policyOf pod) infos ch.pick h hi
            split
            · exact h
            · exact ba.coherent (Or.inl hcm)
            · have bl := bindLoop_spec (keyOf pod) node { policy := policyOf pod, node := node, uid := pod.uid }
                (infos.filterMap id)
                ((bindAlloc s pod node { policy := policyOf pod, node := node, uid := pod.uid } infos ch.pick).2.2.filterMap id)
                _ (ba.coherent (Or.inl hcm))
              split
              · exact coh_bindFinish _ _ _ _ _ _ _ _ bl.1
              · exact bl.1

theorem coh_unbind (s : State) (pod : Pod) (h : Coherent s) : Coherent (unbind Facts.good s pod).1 := by
  unfold unbind
  dsimp only
  split
  · exact h
  · have uq := (unassignAll_quiet (ipsOfKey s (keyOf pod)) s).coherent h
    split
    · exact uq
    · split
      · exact unbindDp_coherent _ _ _ uq
      · exact unbindOther_coherent _ _ _ uq

theorem coh_deliver (s : State) (i : Nat) (h : Coherent s) : Coherent (deliver Facts.good s i).1 := by
  unfold deliver
  split
  · exact h
  · rename_i e _
    dsimp only
    have h1 : Coherent { s with events := s.events.eraseIdx i } := coherent_of_eq h rfl rfl rfl rfl
    have hu := coh_unbind _ e.pod h1
    split
    · exact hu
    · split
      · exact hu
      · exact coherent_of_eq hu rfl rfl rfl rfl

theorem coh_resync (s : State) (order : List IP) (h : Coherent s) : Coherent (resync Facts.good s order).1 := by
  unfold resync
  dsimp only
  split
  · exact h
  · exact (resyncLoop_shr _ order s h).1

theorem coh_syncIPs (pod : Pod) : ∀ (ips : List IP) (s : State), Coherent s → Coherent (syncIPs s pod ips) := by
  intro ips
  induction ips with
  | nil => intro s h; exact h
  | cons ip t ih =>
    intro s h
    unfold syncIPs
    split
    · exact ih s h
    · exact ih _ (allocateSpecific_coherent s _ ip _ h)

theorem coh_syncPods : ∀ (l : List Pod) (s : State), Coherent s → Coherent (syncPods s l) := by
  intro l
  induction l with
  | nil => intro s h; exact h
  | cons p t ih =>
    intro s h
    unfold syncPods
    split
    · exact ih _ (coh_syncIPs p p.ips s h)
    · exact ih s h

theorem coh_releasePre (s : State) (node : String) (ip : IP) (k : Key) (h : Coherent s) :
    Coherent (releasePre s node ip k).1 := by
  unfold releasePre
  have uq := (provUnassign_quiet s node ip).coherent h
  split
  · split
    · exact uq
    · exact reserve_coherent _ _ _ _ uq
  · exact h

theorem coh_releaseAct (s1 : State) (ip : IP) (k : Key) (uid : Nat) (node : String) (h : Coherent s1) :
    Coherent (releaseAct Facts.good s1 ip k uid node).1 := by
  have kq := (keyOwned_quiet Facts.good s1 k uid).1.coherent h
  have rp := coh_releasePre (keyOwnedByRunningPod Facts.good s1 k uid).1 node ip k kq
  unfold releaseAct
  split
  · exact kq
  · split
    · exact release_coherent _ _ _ rp
    · exact rp

theorem coh_apiRelease (s : State) (ip : IP) (k : Key) (h : Coherent s) : Coherent (apiRelease Facts.good s ip k).1 := by
  have pq := (podRunning_quiet Facts.good s k.pod k.ns (((s.alloc.get ip).map (·.uid)).getD 0)).1.coherent h
  unfold apiRelease
  split
  · exact h
  · split
    · exact pq
    · exact coh_releaseAct _ ip k _ _ pq

theorem coh_configurePool (s : State) (ps : List Pool) (h : Coherent s) : Coherent (configurePool s ps).1 := by
  cases hok : (configurePool s ps).2 with
  | true => exact (configurePool_ok' s ps hok).coherent
  | false => rw [configurePool_fail s ps hok]; exact coherent_of_eq h rfl rfl rfl rfl

theorem coh_reload (s : State) (pools : List Pool) (h : Coherent s) : Coherent (reload s pools).1 := by
  have h1 : Coherent s.api.1 := coherent_of_eq h rfl rfl rfl rfl
  have hc := coh_configurePool s.api.1 pools h1
  unfold reload
  dsimp only
  split
  · exact h1
  · split
    · exact h1
    · split
      · exact hc
      · exact coherent_of_eq hc rfl rfl rfl rfl

theorem coh_restart (s : State) (h : Coherent s) : Coherent (restart s).1 := by
  unfold restart
  exact coh_configurePool (restartBase s) s.pools (coherent_of_eq h rfl rfl rfl rfl)

/-- memory and store stay coherent under EVERY move -/
theorem coh_step (s : State) (m : Move) (h : Coherent s) : Coherent (step Facts.good s m).1 := by
  cases m with
  | createPod ns name kind app pool policy ranges wants =>
    simp only [step]; split
    · exact h
    · exact coherent_of_eq h rfl rfl rfl rfl
  | deletePod ns name =>
    simp only [step]; split
    · exact h
    · exact coherent_of_eq h rfl rfl rfl rfl
  | finishPod ns name =>
    simp only [step]; split
    · exact h
    · split
      · exact h
      · exact coherent_of_eq h rfl rfl rfl rfl
  | markTerminating ns name fault =>
    simp only [step]; split
    · exact h
    · split
      · exact h
      · split
        · exact coherent_of_eq h rfl rfl rfl rfl
        · split
          · exact coherent_of_eq h rfl rfl rfl rfl
          · split
            · exact coh_syncIPs _ _ _ (coh_withFaults _ fault 0 (coherent_of_eq h rfl rfl rfl rfl))
            · exact coherent_of_eq h rfl rfl rfl rfl
  | runPod ns name =>
    simp only [step]; split
    · exact h
    · split
      · exact h
      · exact coherent_of_eq h rfl rfl rfl rfl
  | scale kind ns app n => exact coherent_of_eq h rfl rfl rfl rfl
  | deleteApp kind ns app => exact coherent_of_eq h rfl rfl rfl rfl
  | setPool name size =>
    simp only [step]; cases size
    · exact coherent_of_eq h rfl rfl rfl rfl
    · exact coherent_of_eq h rfl rfl rfl rfl
  | listerSync pods apps =>
    simp only [step]
    cases pods <;> cases apps <;> exact coherent_of_eq h rfl rfl rfl rfl
  | fipSync => exact coherent_of_eq h rfl rfl rfl rfl
  | dropEvent i =>
    simp only [step]; split
    · exact coherent_of_eq h rfl rfl rfl rfl
    · exact h
  | filter ns name nodes ch fault => exact coh_filter _ ns name nodes ch (coh_withFaults s fault 0 h)
  | preempt ns name nodes ch fault => exact coh_preempt _ ns name nodes ch (coh_withFaults s fault 0 h)
  | bind ns name uid node ch f pf => exact coh_bind _ ns name uid node ch (coh_withFaults s f pf h) rfl
  | deliver i f pf => exact coh_deliver _ i (coh_withFaults s f pf h)
  | resync order f pf => exact coh_resync _ order (coh_withFaults s f pf h)
  | resyncSnap => exact coherent_of_eq h rfl rfl rfl rfl
  | resyncRec ip f pf =>
    simp only [step]
    split
    · exact h
    · split
      · exact h
      · exact coherent_of_eq (resyncOne_shr _ ip _ (coh_withFaults s f pf h)).1 rfl rfl rfl rfl
  | adminReserve ip text policy =>
    simp only [step]
    split
    · exact h
    · split
      · exact h
      · rename_i hfree
        have hin : ip ∈ s.free := by simpa using hfree
        exact coherent_alloc ip _ h hin rfl rfl rfl rfl
  | adminUnreserve ip =>
    simp only [step]
    split
    · exact h
    · rename_i r0 ha
      split
      · exact h
      · exact coherent_erase ip r0 h ha rfl rfl rfl rfl
  | syncPodIPs f => exact coh_syncPods _ _ (coh_withFaults s f 0 h)
  | apiRelease ip k f pf => exact coh_apiRelease _ ip k (coh_withFaults s f pf h)
  | reload pools fault => exact coh_reload _ pools (coh_withFaults s fault 0 h)
  | restart => exact coh_restart _ (coh_withFaults s 0 0 h)

theorem coh_next (s : State) (m : Move) (h : Coherent s) : Coherent (next Facts.good s m) := by
  unfold next
  dsimp only
  split
  · exact h
  · exact coh_step s m h

theorem coh_run : ∀ (ms : List Move) (s : State), Coherent s → Coherent (run Facts.good s ms) := by
  intro ms
  induction ms with
  | nil => intro s h; exact h
  | cons m t ih => intro s h; exact ih _ (coh_next s m h)

theorem coh_init (c : Conf) : Coherent (init c) := (inv_init c).coh

end Galaxy.Plugin.C03
