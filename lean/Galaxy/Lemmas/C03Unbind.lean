/-
  C03 proofs, part 5: the two paths into the release decision (`unbind` for a delete / finish event, the resync
  closure), the policy each of them decides with, and preservation of the stored policy (memory and store).
-/
import Galaxy.Lemmas.C03Coh

namespace Galaxy.Plugin.C03
open Galaxy Galaxy.Plugin

/-- the UID guard of `unbind` does not fire: no record of the key carries a non-empty UID other than the event pod's
    non-empty UID -/
def guardPasses (s : State) (pod : Pod) : Prop :=
  ∀ ip, ip ∈ ipsOfKey s (keyOf pod) → ∀ r, Tbl.get s.alloc ip = some r → r.uid = 0 ∨ pod.uid = 0 ∨ r.uid = pod.uid

/-- `unbind(pod)` when the UID guard passes and the provider unassigns succeed: the release decision with the policy of
    the EVENT's pod object (`parseReleasePolicy`: pool annotation forces never) -/
theorem unbind_eq (s : State) (pod : Pod) (hg : guardPasses s pod)
    (hprov : (unassignAll s (ipsOfKey s (keyOf pod))).2 = true) :
    unbind Facts.good s pod =
      exec (unassignAll s (ipsOfKey s (keyOf pod))).1 (keyOf pod)
        (codeAction (dinOf CRs.none (unassignAll s (ipsOfKey s (keyOf pod))).1 (keyOf pod) (policyOf pod))) := by
  unfold unbind
  simp only [good_unbindChecksUID, Bool.true_and]
  split
  · rename_i hc
    exfalso
    rw [List.any_eq_true] at hc
    obtain ⟨ip, hm, hb⟩ := hc
    cases hr : Tbl.get s.alloc ip with
    | none => rw [hr] at hb; simp at hb
    | some r =>
      rw [hr] at hb
      simp only [Bool.and_eq_true, bne_iff_ne, ne_eq] at hb
      rcases hg ip hm r hr with h | h | h
      · exact hb.1.1 h
      · exact hb.1.2 h
      · exact hb.2 h
  · simp only [hprov, Bool.not_true, Bool.false_eq_true, if_false]
    rw [← decideX_eq_exec, decideX_none]

/-- a late event of another incarnation is ignored -/
theorem unbind_guarded (s : State) (pod : Pod) (ip : IP) (r : Rec) (hm : ip ∈ ipsOfKey s (keyOf pod))
    (hr : Tbl.get s.alloc ip = some r) (h1 : r.uid ≠ 0) (h2 : pod.uid ≠ 0) (h3 : r.uid ≠ pod.uid) :
    unbind Facts.good s pod = (s, .ok) := by
  unfold unbind
  simp only [good_unbindChecksUID, Bool.true_and]
  split
  · rfl
  · rename_i hc
    exfalso
    apply hc
    rw [List.any_eq_true]
    refine ⟨ip, hm, ?_⟩
    rw [hr]
    simp [h1, h2, h3]

/-- the state in which the resync closure takes the release decision: after the two "is anybody running?" questions,
    and - if a node is recorded and a provider is configured - after the provider unassign and the clearing of node and
    uid of the key's records -/
def resyncPre (t : State) (ip : IP) (k : Key) (r : Rec) : State :=
  if (keyOwnedByRunningPod Facts.good (podRunning Facts.good t k.pod k.ns r.uid).1 k r.uid).1.provOn && r.node ≠ "" then
    (reserve (provUnassign (keyOwnedByRunningPod Facts.good (podRunning Facts.good t k.pod k.ns r.uid).1 k r.uid).1 r.node ip).1 k k {}).1
  else (keyOwnedByRunningPod Facts.good (podRunning Facts.good t k.pod k.ns r.uid).1 k r.uid).1

/-- the resync closure for a record that is re-read with the same key, whose pod is found not running (nor any pod
    holding another record of the key) and whose provider unassign (if any) succeeds: the release decision with the
    STORED policy `r.policy` of the re-read record -/
theorem resyncOne_eq (t : State) (ip : IP) (r0 r : Rec) (hr : Tbl.get t.alloc ip = some r) (hk : r.key = r0.key)
    (hrun : (podRunning Facts.good t r0.key.pod r0.key.ns r.uid).2 = false)
    (hown : (keyOwnedByRunningPod Facts.good (podRunning Facts.good t r0.key.pod r0.key.ns r.uid).1 r0.key r.uid).2 = false)
    (hprov : (provUnassign (keyOwnedByRunningPod Facts.good (podRunning Facts.good t r0.key.pod r0.key.ns r.uid).1 r0.key r.uid).1
      r.node ip).2 = true) :
    resyncOne Facts.good t ip r0 =
      (exec (resyncPre t ip r0.key r) r0.key (codeAction (dinOf CRs.none (resyncPre t ip r0.key r) r0.key r.policy))).1 := by
  unfold resyncOne resyncPre
  simp only [good_resyncRechecks, if_true, hr]
  have hne : ¬ r.key ≠ r0.key := fun h => h hk
  simp only [hne, if_false, hrun, hown, Bool.false_eq_true]
  rw [resyncAct_eq]
  simp only [hprov, Bool.not_true, Bool.false_eq_true, if_false]
  split <;> rfl

/-! ### the stored policy is preserved -/

/-- `ReserveIP` (any keys, any attributes, any failing call): in MEMORY every record keeps its policy -/
theorem reserve_policy_mem (s : State) (k newK : Key) (a : Attr) (ip : IP) (r' : Rec)
    (h : Tbl.get (reserve s k newK a).1.alloc ip = some r') : ∃ r, Tbl.get s.alloc ip = some r ∧ r'.policy = r.policy := by
  obtain ⟨r, g, p, _⟩ := reserve_recs s k newK a ip r' h
  exact ⟨r, g, p⟩

/-- `ReserveIP`: in the STORE every object keeps its policy (the persisted clone gets the policy of the cached record,
    which agrees with the stored one) -/
theorem reserve_policy_store (s : State) (k newK : Key) (a : Attr) (hc : Coherent s) (ip : IP) (r' : Rec)
    (h : Tbl.get (reserve s k newK a).1.store ip = some r') : ∃ r, Tbl.get s.store ip = some r ∧ r'.policy = r.policy := by
  rcases reserve_store s k newK a ip r' h with g | ⟨r, g, p⟩
  · exact ⟨r', g, rfl⟩
  · exact ⟨r, by rw [hc.agree]; exact g, p⟩

/-- carrying out any release decision keeps the policy of every surviving record -/
theorem exec_policy (s : State) (k : Key) (act : Action) (ip : IP) (r' : Rec)
    (h : Tbl.get (exec s k act).1.alloc ip = some r') : ∃ r, Tbl.get s.alloc ip = some r ∧ r'.policy = r.policy := by
  obtain ⟨r, g, p, _⟩ := (exec_shr s k act).recs ip r' h
  exact ⟨r, g, p⟩

theorem unbind_shr (s : State) (pod : Pod) : Shr s (unbind Facts.good s pod).1 := by
  unfold unbind
  dsimp only
  have uq := unassignAll_quiet (ipsOfKey s (keyOf pod)) s
  split
  · exact Shr.refl s
  · split
    · exact Shr.of_quiet uq
    · have := go_eq (unassignAll s (ipsOfKey s (keyOf pod))).1 (keyOf pod) (policyOf pod)
      have e : (if (keyOf pod).isDp = true then unbindDp (unassignAll s (ipsOfKey s (keyOf pod))).1 (keyOf pod) (policyOf pod)
          else unbindOther (unassignAll s (ipsOfKey s (keyOf pod))).1 (keyOf pod) (policyOf pod)).1 =
          (if (keyOf pod).isDp = true then (unbindDp (unassignAll s (ipsOfKey s (keyOf pod))).1 (keyOf pod) (policyOf pod)).1
          else (unbindOther (unassignAll s (ipsOfKey s (keyOf pod))).1 (keyOf pod) (policyOf pod)).1) := by
        split <;> rfl
      rw [e, this]
      exact (Shr.of_quiet uq).trans (exec_shr _ _ _)

/-- delivering a delete / finish event never changes the stored policy of a surviving record -/
theorem deliver_shr (s : State) (i : Nat) (h : Coherent s) :
    ∀ ip r', Tbl.get (deliver Facts.good s i).1.alloc ip = some r' →
      ∃ r, Tbl.get s.alloc ip = some r ∧ r'.policy = r.policy := by
  intro ip r' hg
  unfold deliver at hg
  split at hg
  · exact ⟨r', hg, rfl⟩
  · rename_i e _
    dsimp only at hg
    have sh := unbind_shr { s with events := s.events.eraseIdx i } e.pod
    split at hg
    · obtain ⟨r, g, p, _⟩ := sh.recs ip r' hg
      exact ⟨r, g, p⟩
    · split at hg
      · obtain ⟨r, g, p, _⟩ := sh.recs ip r' hg
        exact ⟨r, g, p⟩
      · obtain ⟨r, g, p, _⟩ := sh.recs ip r' hg
        exact ⟨r, g, p⟩

/-- a resync pass never changes the stored policy of a surviving record - memory and store -/
theorem resync_policy (s : State) (order : List IP) (h : Coherent s) :
    (∀ ip r', Tbl.get (resync Facts.good s order).1.alloc ip = some r' →
      ∃ r, Tbl.get s.alloc ip = some r ∧ r'.policy = r.policy) ∧
    (∀ ip r', Tbl.get (resync Facts.good s order).1.store ip = some r' →
      ∃ r, Tbl.get s.store ip = some r ∧ r'.policy = r.policy) := by
  have hc := coh_resync s order h
  have mem : ∀ ip r', Tbl.get (resync Facts.good s order).1.alloc ip = some r' →
      ∃ r, Tbl.get s.alloc ip = some r ∧ r'.policy = r.policy := by
    intro ip r' hg
    unfold resync at hg
    dsimp only at hg
    split at hg
    · exact ⟨r', hg, rfl⟩
    · obtain ⟨r, g, p, _⟩ := (resyncLoop_shr _ order s h).2.recs ip r' hg
      exact ⟨r, g, p⟩
  refine ⟨mem, fun ip r' hg => ?_⟩
  rw [hc.agree] at hg
  obtain ⟨r, g, p⟩ := mem ip r' hg
  exact ⟨r, by rw [h.agree]; exact g, p⟩

/-! ### the deployment clause, at decision time -/

/-- whenever `unbindDpPod` keeps an immutable deployment's address in reserve, the deployment exists with at least one
    replica and holds, AT THAT MOMENT, no more addresses than replicas -/
theorem reservePrefix_within_replicas (cr : CRs) (s : State) (k : Key) (hk : k.isDp = true)
    (h : codeAction (dinOf cr s k 1) = .reservePrefix) :
    (Tbl.get s.vApps (Kind.dp, k.ns, k.app)).isSome = true ∧
      countPrefix s k.poolPrefix ≤ (Tbl.get s.vApps (Kind.dp, k.ns, k.app)).getD 0 := by
  unfold codeAction at h
  rw [dinOf_isDp, hk] at h
  simp only [if_true] at h
  unfold codeActionDp at h
  rw [gen_policies.1, gen_policies.2.2, gen_dpNoReplicas, gen_dpExceeds] at h
  simp only [dinOf_policy, dinOf_nPrefix] at h
  have hrep : (dinOf cr s k 1).replicas = (Tbl.get s.vApps (Kind.dp, k.ns, k.app)).getD 0 := by simp [dinOf, hk]
  rw [hrep] at h
  simp only [show ((1 : Nat) == 0) = false from rfl, show ((1 : Nat) == 2) = false from rfl, Bool.false_eq_true, if_false] at h
  by_cases hz : (Tbl.get s.vApps (Kind.dp, k.ns, k.app)).getD 0 = 0
  · simp [hz] at h
  · by_cases hx : countPrefix s k.poolPrefix > (Tbl.get s.vApps (Kind.dp, k.ns, k.app)).getD 0
    · simp [hz, hx] at h
    · refine ⟨?_, by omega⟩
      cases hv : Tbl.get s.vApps (Kind.dp, k.ns, k.app) with
      | none => rw [hv] at hz; simp at hz
      | some n => rfl

end Galaxy.Plugin.C03
