/-
  M4-core proofs, part 2: store calls and memory updates.
-/
import Galaxy.Lemmas.PluginBase

namespace Galaxy.Plugin
open Galaxy

/-- a step that leaves the memory tables alone -/
structure StoreStep (s s' : State) : Prop where
  frame : Frame s s'
  alloc : s'.alloc = s.alloc
  free : s'.free = s.free

theorem StoreStep.evolves {P : Pods} {s s' : State} (h : StoreStep s s') : Evolves P s s' :=
  Evolves.of_alloc_eq h.frame h.alloc

theorem stCreate_step (s : State) (ip : IP) (r : Rec) : StoreStep s (stCreate s ip r).1 := by
  unfold stCreate
  dsimp only
  split
  · exact ⟨api_frame s, rfl, rfl⟩
  · split
    · exact ⟨api_frame s, rfl, rfl⟩
    · exact ⟨⟨rfl, rfl, rfl, rfl, rfl, rfl, rfl, rfl, rfl, rfl, rfl, rfl, rfl, rfl, api_calls_le s, rfl⟩, rfl, rfl⟩

theorem stCreate_store (s : State) (ip : IP) (r : Rec) :
    ((stCreate s ip r).2 = true → (stCreate s ip r).1.store = Tbl.set s.store ip r) ∧
    ((stCreate s ip r).2 = false → (stCreate s ip r).1.store = s.store) := by
  unfold stCreate
  dsimp only
  split
  · simp
  · split <;> simp

/-- a create of an address the store does not hold fails only through the injected fault -/
theorem stCreate_fail_spent (s : State) (ip : IP) (r : Rec) (hn : Tbl.get s.store ip = none)
    (hf : (stCreate s ip r).2 = false) (hcm : s.crashMode = false) : FaultSpent (stCreate s ip r).1 := by
  unfold stCreate at hf ⊢
  dsimp only at hf ⊢
  split
  · rename_i h; exact api_spent s (Or.inr ⟨hcm, h⟩)
  · split
    · rename_i h; simp [hn] at h
    · simp_all

theorem stCreate_spent (s : State) (ip : IP) (r : Rec) (h : FaultSpent s) : FaultSpent (stCreate s ip r).1 := by
  have := api_spent s (Or.inl h)
  unfold stCreate
  dsimp only
  split
  · exact this
  · split
    · exact this
    · exact this

theorem stCreate_ok_of_spent (s : State) (ip : IP) (r : Rec) (h : FaultSpent s) (hn : Tbl.get s.store ip = none) :
    (stCreate s ip r).2 = true := by
  unfold stCreate
  dsimp only
  simp [api_ok_of_spent h, hn]

theorem stUpdate_step (s : State) (ip : IP) (r : Rec) : StoreStep s (stUpdate s ip r).1 := by
  unfold stUpdate
  dsimp only
  have f1 := api_frame s
  have f2 := api_frame s.api.1
  split
  · exact ⟨f1, rfl, rfl⟩
  · split
    · exact ⟨f1, rfl, rfl⟩
    · split
      · exact ⟨f1.trans f2, rfl, rfl⟩
      · exact ⟨⟨rfl, rfl, rfl, rfl, rfl, rfl, rfl, rfl, rfl, rfl, rfl, rfl, rfl, rfl, Nat.le_trans (api_calls_le s) (api_calls_le s.api.1), rfl⟩, rfl, rfl⟩

theorem stUpdate_store (s : State) (ip : IP) (r : Rec) :
    ((stUpdate s ip r).2 = true → (stUpdate s ip r).1.store = Tbl.set s.store ip r) ∧
    ((stUpdate s ip r).2 = false → (stUpdate s ip r).1.store = s.store) := by
  unfold stUpdate
  dsimp only
  split
  · simp
  · split
    · simp
    · split <;> simp

theorem stDelete_step (s : State) (ip : IP) : StoreStep s (stDelete s ip).1 := by
  unfold stDelete
  dsimp only
  split
  · exact ⟨api_frame s, rfl, rfl⟩
  · split
    · exact ⟨api_frame s, rfl, rfl⟩
    · exact ⟨⟨rfl, rfl, rfl, rfl, rfl, rfl, rfl, rfl, rfl, rfl, rfl, rfl, rfl, rfl, api_calls_le s, rfl⟩, rfl, rfl⟩

theorem stDelete_store (s : State) (ip : IP) :
    ((stDelete s ip).2 = true → (stDelete s ip).1.store = Tbl.erase s.store ip) ∧
    ((stDelete s ip).2 = false → (stDelete s ip).1.store = s.store) := by
  unfold stDelete
  dsimp only
  split
  · simp
  · split <;> simp

theorem stDelete_spent (s : State) (ip : IP) (h : FaultSpent s) : FaultSpent (stDelete s ip).1 := by
  have := api_spent s (Or.inl h)
  unfold stDelete
  dsimp only
  split
  · exact this
  · split <;> exact this

theorem stDelete_ok_of_spent (s : State) (ip : IP) (h : FaultSpent s) (hs : (Tbl.get s.store ip).isSome) :
    (stDelete s ip).2 = true := by
  unfold stDelete
  dsimp only
  have : Tbl.get s.api.1.store ip = Tbl.get s.store ip := rfl
  cases hg : Tbl.get s.store ip with
  | none => simp [hg] at hs
  | some v => simp [api_ok_of_spent h, hg]

/-! ### memory updates -/

theorem memAlloc_frame (s : State) (ip : IP) (r : Rec) : Frame s (memAlloc s ip r) :=
  ⟨rfl, rfl, rfl, rfl, rfl, rfl, rfl, rfl, rfl, rfl, rfl, rfl, rfl, rfl, Nat.le_refl _, rfl⟩

theorem memFree_frame (s : State) (ip : IP) : Frame s (memFree s ip) :=
  ⟨rfl, rfl, rfl, rfl, rfl, rfl, rfl, rfl, rfl, rfl, rfl, rfl, rfl, rfl, Nat.le_refl _, rfl⟩

@[simp] theorem memAlloc_alloc (s : State) (ip : IP) (r : Rec) : (memAlloc s ip r).alloc = Tbl.set s.alloc ip r := rfl
@[simp] theorem memAlloc_store (s : State) (ip : IP) (r : Rec) : (memAlloc s ip r).store = s.store := rfl
@[simp] theorem memAlloc_free (s : State) (ip : IP) (r : Rec) : (memAlloc s ip r).free = s.free.filter (· ≠ ip) := rfl
@[simp] theorem memAlloc_pools (s : State) (ip : IP) (r : Rec) : (memAlloc s ip r).pools = s.pools := rfl
@[simp] theorem memFree_alloc (s : State) (ip : IP) : (memFree s ip).alloc = Tbl.erase s.alloc ip := rfl
@[simp] theorem memFree_store (s : State) (ip : IP) : (memFree s ip).store = s.store := rfl
@[simp] theorem memFree_free (s : State) (ip : IP) : (memFree s ip).free = ip :: s.free.filter (· ≠ ip) := rfl
@[simp] theorem memFree_pools (s : State) (ip : IP) : (memFree s ip).pools = s.pools := rfl

/-- allocate a free address: the record table gains one binding -/
theorem evolves_alloc {P : Pods} (s s' : State) (ip : IP) (r : Rec) (hf : Frame s s') (ha : s'.alloc = Tbl.set s.alloc ip r)
    (hfree : Tbl.get s.alloc ip = none) (hr : NewOK P r) : Evolves P s s' := by
  refine ⟨hf, fun j => ?_⟩
  by_cases hj : ip = j
  · subst hj
    right
    refine ⟨fun r0 h0 => by simp [hfree] at h0, fun r1 h1 => ?_⟩
    rw [ha] at h1; simp at h1; subst h1; exact hr
  · left; rw [ha]; simp [hj]

/-- overwrite the record of an address whose old key belongs to no live bound pod -/
theorem evolves_set {P : Pods} (s s' : State) (ip : IP) (r r' : Rec) (hf : Frame s s') (ha : s'.alloc = Tbl.set s.alloc ip r')
    (hold : Tbl.get s.alloc ip = some r) (hk : ¬ LiveKey P r.key) (hr : NewOK P r') : Evolves P s s' := by
  refine ⟨hf, fun j => ?_⟩
  by_cases hj : ip = j
  · subst hj
    right
    refine ⟨fun r0 h0 => by rw [hold] at h0; cases h0; exact hk, fun r1 h1 => ?_⟩
    rw [ha] at h1; simp at h1; subst h1; exact hr
  · left; rw [ha]; simp [hj]

/-- drop the record of an address whose key belongs to no live bound pod -/
theorem evolves_erase {P : Pods} (s s' : State) (ip : IP) (r : Rec) (hf : Frame s s') (ha : s'.alloc = Tbl.erase s.alloc ip)
    (hold : Tbl.get s.alloc ip = some r) (hk : ¬ LiveKey P r.key) : Evolves P s s' := by
  refine ⟨hf, fun j => ?_⟩
  by_cases hj : ip = j
  · subst hj
    right
    refine ⟨fun r0 h0 => by rw [hold] at h0; cases h0; exact hk, fun r1 h1 => ?_⟩
    rw [ha] at h1; simp at h1
  · left; rw [ha]; simp [hj]

/-! ### coherence of the three primitive store+memory actions -/

theorem coherent_alloc {s s' : State} (ip : IP) (r : Rec) (h : Coherent s) (hin : ip ∈ s.free)
    (hp : s'.pools = s.pools) (ha : s'.alloc = Tbl.set s.alloc ip r) (hs : s'.store = Tbl.set s.store ip r)
    (hfr : s'.free = s.free.filter (· ≠ ip)) : Coherent s' := by
  refine ⟨fun j => ?_, fun j hj => ?_, fun j r' hj => ?_, fun j hj => ?_,
    by rw [ha]; exact Tbl.nodup_keys_set _ _ h.allocNodup, by rw [hs]; exact Tbl.nodup_keys_set _ _ h.storeNodup⟩
  · rw [ha, hs, Tbl.get_set, Tbl.get_set, h.agree]
  · rw [hfr] at hj
    have hj' := List.mem_filter.mp hj
    have hne : ip ≠ j := by
      intro e; subst e; simp at hj'
    rw [ha, Tbl.get_set_ne _ _ hne]; exact h.disjoint j hj'.1
  · rw [hp]
    rw [ha, Tbl.get_set] at hj
    by_cases hij : ip = j
    · subst hij; exact h.freeConf _ hin
    · simp [hij] at hj; exact h.allocConf j r' hj
  · rw [hp]; rw [hfr] at hj; exact h.freeConf j (List.mem_filter.mp hj).1

theorem coherent_set {s s' : State} (ip : IP) (r r' : Rec) (h : Coherent s) (hold : Tbl.get s.alloc ip = some r)
    (hp : s'.pools = s.pools) (ha : s'.alloc = Tbl.set s.alloc ip r') (hs : s'.store = Tbl.set s.store ip r')
    (hfr : s'.free = s.free) : Coherent s' := by
  refine ⟨fun j => ?_, fun j hj => ?_, fun j r'' hj => ?_, fun j hj => ?_,
    by rw [ha]; exact Tbl.nodup_keys_set _ _ h.allocNodup, by rw [hs]; exact Tbl.nodup_keys_set _ _ h.storeNodup⟩
  · rw [ha, hs, Tbl.get_set, Tbl.get_set, h.agree]
  · rw [hfr] at hj
    have hne : ip ≠ j := by
      intro e; subst e; have := h.disjoint _ hj; rw [hold] at this; cases this
    rw [ha]; simp [hne]; exact h.disjoint j hj
  · rw [hp]
    rw [ha, Tbl.get_set] at hj
    by_cases hij : ip = j
    · subst hij; exact h.allocConf _ r hold
    · simp [hij] at hj; exact h.allocConf j r'' hj
  · rw [hp]; rw [hfr] at hj; exact h.freeConf j hj

theorem coherent_erase {s s' : State} (ip : IP) (r : Rec) (h : Coherent s) (hold : Tbl.get s.alloc ip = some r)
    (hp : s'.pools = s.pools) (ha : s'.alloc = Tbl.erase s.alloc ip) (hs : s'.store = Tbl.erase s.store ip)
    (hfr : s'.free = ip :: s.free.filter (· ≠ ip)) : Coherent s' := by
  refine ⟨fun j => ?_, fun j hj => ?_, fun j r'' hj => ?_, fun j hj => ?_,
    by rw [ha]; exact Tbl.nodup_keys_erase _ h.allocNodup, by rw [hs]; exact Tbl.nodup_keys_erase _ h.storeNodup⟩
  · rw [ha, hs, Tbl.get_erase, Tbl.get_erase, h.agree]
  · rw [hfr] at hj
    rw [ha, Tbl.get_erase]
    by_cases hij : ip = j
    · simp [hij]
    · simp [hij]
      rcases List.mem_cons.mp hj with e | hm
      · exact absurd e.symm hij
      · exact h.disjoint j (List.mem_filter.mp hm).1
  · rw [hp]
    rw [ha, Tbl.get_erase] at hj
    by_cases hij : ip = j
    · simp [hij] at hj
    · simp [hij] at hj; exact h.allocConf j r'' hj
  · rw [hp]; rw [hfr] at hj
    rcases List.mem_cons.mp hj with e | hm
    · subst e; exact h.allocConf _ r hold
    · exact h.freeConf j (List.mem_filter.mp hm).1

/-- a step that changes neither memory table nor the store nor the pools keeps coherence -/
theorem coherent_of_eq {s s' : State} (h : Coherent s) (hp : s'.pools = s.pools) (ha : s'.alloc = s.alloc)
    (hs : s'.store = s.store) (hfr : s'.free = s.free) : Coherent s' :=
  ⟨fun j => by rw [ha, hs]; exact h.agree j, fun j hj => by rw [ha]; rw [hfr] at hj; exact h.disjoint j hj,
   fun j r hj => by rw [hp]; rw [ha] at hj; exact h.allocConf j r hj,
   fun j hj => by rw [hp]; rw [hfr] at hj; exact h.freeConf j hj,
   by rw [ha]; exact h.allocNodup, by rw [hs]; exact h.storeNodup⟩

end Galaxy.Plugin
